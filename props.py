"""Registry of the per-property pipelines run by ./check (see DESIGN.md)."""

PROPS = {
    "C01": dict(
        models=[
            dict(module="VHost", cfg=dict(quick="VHost_quick.cfg", thorough="VHost_thorough.cfg"), workers=8,
                 timeout=dict(quick=300, thorough=1800)),
            dict(module="VHost", cfg=dict(quick="VHostEmit_quick.cfg", thorough="VHostEmit_thorough.cfg"), emit=True,
                 workers=16, timeout=dict(quick=300, thorough=3600)),
        ],
        go=[dict(pkg="c01", test="TestC01", timeout=dict(quick=600, thorough=3600))],
        exhaustive=dict(quick=False, thorough=False),
        assumptions=["HTTP/1.1 over loopback; the abstract host/path alphabets of VHost.tla",
                     "TLC shows the stepwise model of vhostTrie.Match equal to the declarative BestSite on the bounded alphabets; the replay compares the real server with BestSite"],
    ),
}
