// Extension of C06: which certificate a TLS client is shown (specs/CertSelect.tla, notes/CertSelect.md).
//
// Replay of the tables TLC computed from specs/CertSelect.tla. Every case is one Casketfile - a layout
// of sites on one or two loopback listeners whose `tls` lines (certificate + key, `load` directories,
// self_signed, bare blocks, off) name certificates of a small alphabet - together with the expected
// outcome of every probe: listener x ClientHello (SNI exact / upper case / trailing dot / one and two
// labels deep / a second site / a name nobody serves / absent / an IP literal) x offer (TLS 1.3, TLS 1.2,
// TLS 1.2 with only RSA or only ECDSA suites).  The harness makes its own CA and leaf certificates
// (the certificate's id is in the subject's organisation), starts the file with casket.Start, performs
// the handshakes with crypto/tls (InsecureSkipVerify, the presented chain is recorded) and then
// verifies the leaf itself - for the name the client asked for, against the harness CA, for today.
// Outcomes are compared with the model (handshake result class, leaf id, the three verification flags);
// a sample of cases is run again in brand-new processes and every successful probe is repeated, so that
// a choice that depends on map iteration order or on process state would show; reload cases restart the
// running instance with the rotated file and expect the new file's table.
package cx06certsel

import (
	"crypto"
	"crypto/ecdsa"
	"crypto/ed25519"
	"crypto/elliptic"
	"crypto/rand"
	"crypto/rsa"
	"crypto/sha1"
	"crypto/tls"
	"crypto/x509"
	"crypto/x509/pkix"
	"encoding/hex"
	"encoding/json"
	"encoding/pem"
	"fmt"
	"math/big"
	mrand "math/rand"
	"net"
	"os"
	"path/filepath"
	"sort"
	"strconv"
	"strings"
	"sync"
	"sync/atomic"
	"testing"
	"time"

	"github.com/caddyserver/certmagic"
	"github.com/tmpim/casket"

	"verifharness/hx"
)

const (
	testName  = "TestCx06CertSel"
	childName = "TestCx06CertSelChild"
	keyPrefix = "C06/certselect/"
)

// ---- the cases as TLC prints them ---------------------------------------------------------------

type certSpec struct {
	CN   []string   `json:"cn"`
	Sans [][]string `json:"sans"`
	IPs  [][]string `json:"ips"`
	Key  string     `json:"key"`
	Val  string     `json:"val"`
	Up   bool       `json:"up"`
}

type helloSpec struct {
	Ask []string `json:"ask"`
	Sp  string   `json:"sp"`
}

type fileSpec struct {
	Name string `json:"name"`
	Ext  string `json:"ext"`
	Kind string `json:"kind"`
	Cert string `json:"cert"`
}

type lineSpec struct {
	Kind  string     `json:"kind"`
	Cert  string     `json:"cert"`
	Files []fileSpec `json:"files"`
}

type siteSpec struct {
	Lst   int        `json:"lst"`
	Host  []string   `json:"host"`
	Lines []lineSpec `json:"lines"`
	Blk   int        `json:"blk"` // != 0: one of several keys of that server block
}

// listener 1 is 127.0.0.1:p1, listener 2 is 127.0.0.2:p2 (another port and another bind address)
func listenIP(l int) string {
	if l == 2 {
		return "127.0.0.2"
	}
	return "127.0.0.1"
}

type entry struct {
	L     int      `json:"l"`
	H     int      `json:"h"`
	O     int      `json:"o"`
	Out   string   `json:"out"`
	Leaf  string   `json:"leaf"`
	Name  bool     `json:"name"`
	Time  bool     `json:"time"`
	Chain bool     `json:"chain"`
	Alt   []string `json:"alt,omitempty"`
}

type ccase struct {
	Kind   string              `json:"kind"`
	Hellos []helloSpec         `json:"hellos,omitempty"`
	Offers []string            `json:"offers,omitempty"`
	Certs  map[string]certSpec `json:"certs,omitempty"`
	Gen    int                 `json:"gen,omitempty"`
	Topo   string              `json:"topo,omitempty"`
	Slots  []string            `json:"slots,omitempty"`
	Prev   []string            `json:"prev,omitempty"`
	Dflt   []string            `json:"dflt,omitempty"`
	Sites  []siteSpec          `json:"sites,omitempty"`
	Err    string              `json:"err,omitempty"`
	Loaded []string            `json:"loaded,omitempty"`
	Tab    []entry             `json:"tab,omitempty"`
}

// what a mismatch carries (and --replay runs again); wrapped so that the other drivers of C06 find
// nothing of theirs in the file
type replayCase struct {
	Alphabet *ccase `json:"alphabet"`
	Before   *ccase `json:"before,omitempty"`  // reload: the file the instance was started with
	Refused  *ccase `json:"refused,omitempty"` // refused reload: the file Restart is called with
	Case     *ccase `json:"case"`
	Only     *entry `json:"only,omitempty"` // the single probe to repeat (nil: the whole table)
}

type replayWrap struct {
	CertSel *replayCase `json:"certsel"`
}

// ---- fixtures: a CA and one leaf per certificate id ------------------------------------------------

type leafFix struct {
	id      string
	certPEM []byte
	keyPEM  []byte
	crt     string // file paths
	key     string
}

type fixtures struct {
	Dir    string
	caCert *x509.Certificate
	leaves map[string]*leafFix
	alpha  *ccase
	dirMu  sync.Mutex
	dirs   map[string]string
}

func pemBlock(typ string, der []byte) []byte {
	return pem.EncodeToMemory(&pem.Block{Type: typ, Bytes: der})
}

func join(l []string) string { return strings.Join(l, ".") }

func makeKey(kind string) (crypto.Signer, []byte, error) {
	switch kind {
	case "rsa":
		k, err := rsa.GenerateKey(rand.Reader, 2048)
		if err != nil {
			return nil, nil, err
		}
		return k, pemBlock("RSA PRIVATE KEY", x509.MarshalPKCS1PrivateKey(k)), nil
	case "ed25519":
		_, k, err := ed25519.GenerateKey(rand.Reader)
		if err != nil {
			return nil, nil, err
		}
		der, err := x509.MarshalPKCS8PrivateKey(k)
		if err != nil {
			return nil, nil, err
		}
		return k, pemBlock("PRIVATE KEY", der), nil
	default:
		k, err := ecdsa.GenerateKey(elliptic.P256(), rand.Reader)
		if err != nil {
			return nil, nil, err
		}
		der, err := x509.MarshalECPrivateKey(k)
		if err != nil {
			return nil, nil, err
		}
		return k, pemBlock("EC PRIVATE KEY", der), nil
	}
}

const orgPrefix = "certsel-"

// makeFixtures writes ca.pem and <id>.crt / <id>.key for every certificate of the alphabet into dir.
func makeFixtures(dir string, alpha *ccase) (*fixtures, error) {
	fx := &fixtures{Dir: dir, leaves: map[string]*leafFix{}, alpha: alpha, dirs: map[string]string{}}
	now := time.Now()
	caKey, err := ecdsa.GenerateKey(elliptic.P256(), rand.Reader)
	if err != nil {
		return nil, err
	}
	caT := &x509.Certificate{SerialNumber: big.NewInt(1), Subject: pkix.Name{CommonName: "certsel harness CA"},
		NotBefore: now.Add(-100 * 24 * time.Hour), NotAfter: now.Add(100 * 24 * time.Hour), IsCA: true, BasicConstraintsValid: true,
		KeyUsage: x509.KeyUsageCertSign | x509.KeyUsageDigitalSignature}
	caDER, err := x509.CreateCertificate(rand.Reader, caT, caT, &caKey.PublicKey, caKey)
	if err != nil {
		return nil, err
	}
	if fx.caCert, err = x509.ParseCertificate(caDER); err != nil {
		return nil, err
	}
	if err := os.WriteFile(filepath.Join(dir, "ca.pem"), pemBlock("CERTIFICATE", caDER), 0o600); err != nil {
		return nil, err
	}
	ids := hx.SortedKeys(alpha.Certs)
	for n, id := range ids {
		if id == "SELF" {
			continue // made by casket itself
		}
		cs := alpha.Certs[id]
		k, keyPEM, err := makeKey(cs.Key)
		if err != nil {
			return nil, err
		}
		t := &x509.Certificate{SerialNumber: big.NewInt(int64(100 + n)), Subject: pkix.Name{Organization: []string{orgPrefix + id}},
			KeyUsage: x509.KeyUsageDigitalSignature | x509.KeyUsageKeyEncipherment, ExtKeyUsage: []x509.ExtKeyUsage{x509.ExtKeyUsageServerAuth}}
		switch cs.Val {
		case "expired":
			t.NotBefore, t.NotAfter = now.Add(-60*24*time.Hour), now.Add(-24*time.Hour)
		case "future":
			t.NotBefore, t.NotAfter = now.Add(24*time.Hour), now.Add(60*24*time.Hour)
		default:
			t.NotBefore, t.NotAfter = now.Add(-24*time.Hour), now.Add(60*24*time.Hour)
		}
		if len(cs.CN) > 0 {
			t.Subject.CommonName = join(cs.CN)
		}
		for _, s := range cs.Sans {
			name := join(s)
			if cs.Up {
				name = strings.ToUpper(name)
			}
			t.DNSNames = append(t.DNSNames, name)
		}
		sort.Strings(t.DNSNames)
		for _, s := range cs.IPs {
			t.IPAddresses = append(t.IPAddresses, net.ParseIP(join(s)))
		}
		der, err := x509.CreateCertificate(rand.Reader, t, fx.caCert, k.Public(), caKey)
		if err != nil {
			return nil, fmt.Errorf("certificate %s: %v", id, err)
		}
		lf := &leafFix{id: id, certPEM: pemBlock("CERTIFICATE", der), keyPEM: keyPEM,
			crt: filepath.Join(dir, id+".crt"), key: filepath.Join(dir, id+".key")}
		if err := os.WriteFile(lf.crt, lf.certPEM, 0o600); err != nil {
			return nil, err
		}
		if err := os.WriteFile(lf.key, lf.keyPEM, 0o600); err != nil {
			return nil, err
		}
		fx.leaves[id] = lf
	}
	return fx, nil
}

// loadFixtures reads what makeFixtures wrote (worker processes).
func loadFixtures(dir string, alpha *ccase) (*fixtures, error) {
	fx := &fixtures{Dir: dir, leaves: map[string]*leafFix{}, alpha: alpha, dirs: map[string]string{}}
	b, err := os.ReadFile(filepath.Join(dir, "ca.pem"))
	if err != nil {
		return nil, err
	}
	blk, _ := pem.Decode(b)
	if blk == nil {
		return nil, fmt.Errorf("ca.pem: no PEM")
	}
	if fx.caCert, err = x509.ParseCertificate(blk.Bytes); err != nil {
		return nil, err
	}
	for id := range alpha.Certs {
		if id == "SELF" {
			continue
		}
		lf := &leafFix{id: id, crt: filepath.Join(dir, id+".crt"), key: filepath.Join(dir, id+".key")}
		if lf.certPEM, err = os.ReadFile(lf.crt); err != nil {
			return nil, err
		}
		if lf.keyPEM, err = os.ReadFile(lf.key); err != nil {
			return nil, err
		}
		fx.leaves[id] = lf
	}
	return fx, nil
}

// otherKey returns the key of a certificate other than id (for the mismatching pairs).
func (fx *fixtures) otherKey(id string) *leafFix {
	for _, o := range []string{"A", "ZZ", "W"} {
		if o != id && fx.leaves[o] != nil && fx.alpha.Certs[o].Key == fx.alpha.Certs[id].Key {
			return fx.leaves[o]
		}
	}
	for _, o := range hx.SortedKeys(fx.leaves) {
		if o != id {
			return fx.leaves[o]
		}
	}
	return nil
}

func (fx *fixtures) fileContent(f fileSpec) []byte {
	lf := fx.leaves[f.Cert]
	switch f.Kind {
	case "bundle":
		return append(append([]byte{}, lf.certPEM...), lf.keyPEM...)
	case "keyfirst":
		// the key in front of the certificate, and a second (foreign) key behind it: "use only the first key in the file"
		return append(append(append([]byte{}, lf.keyPEM...), lf.certPEM...), fx.leaves["ZZ"].keyPEM...)
	case "ecparams":
		// what `openssl ecparam -genkey` writes: the curve (OID of prime256v1) in a block of its own in front of the key
		params := pemBlock("EC PARAMETERS", []byte{0x06, 0x08, 0x2a, 0x86, 0x48, 0xce, 0x3d, 0x03, 0x01, 0x07})
		return append(append(append([]byte{}, lf.certPEM...), params...), lf.keyPEM...)
	case "certonly":
		return lf.certPEM
	case "keyonly":
		return fx.leaves["ZZ"].keyPEM
	case "garbage":
		return []byte("this file ends in .pem and holds no PEM block at all\n")
	case "empty":
		return nil
	case "unknown":
		z := fx.leaves["ZZ"]
		return append(append(append([]byte{}, z.certPEM...), pemBlock("X509 CRL", []byte{0x30, 0x00})...), z.keyPEM...)
	case "mismatch":
		return append(append([]byte{}, lf.certPEM...), fx.otherKey(f.Cert).keyPEM...)
	}
	panic("file kind " + f.Kind)
}

// materialise writes the directory of a `load` line (once per distinct content) and returns its path.
func (fx *fixtures) materialise(files []fileSpec) (string, error) {
	b, _ := json.Marshal(files)
	h := sha1.Sum(b)
	key := hex.EncodeToString(h[:8])
	fx.dirMu.Lock()
	defer fx.dirMu.Unlock()
	if d, ok := fx.dirs[key]; ok {
		return d, nil
	}
	d := filepath.Join(fx.Dir, "load-"+key)
	if _, err := os.Stat(filepath.Join(d, ".complete")); err == nil {
		fx.dirs[key] = d
		return d, nil
	}
	tmp := d + fmt.Sprintf(".tmp%d", os.Getpid())
	os.RemoveAll(tmp)
	if err := os.MkdirAll(tmp, 0o700); err != nil {
		return "", err
	}
	for _, f := range files {
		p := filepath.Join(tmp, filepath.FromSlash(f.Name))
		if f.Kind == "dir" {
			if err := os.MkdirAll(p, 0o700); err != nil {
				return "", err
			}
			continue
		}
		if f.Ext != "" {
			p += "." + f.Ext
		}
		if err := os.MkdirAll(filepath.Dir(p), 0o700); err != nil {
			return "", err
		}
		if err := os.WriteFile(p, fx.fileContent(f), 0o600); err != nil {
			return "", err
		}
	}
	if err := os.WriteFile(filepath.Join(tmp, ".complete"), nil, 0o600); err != nil {
		return "", err
	}
	if err := os.Rename(tmp, d); err != nil {
		// another process was faster
		os.RemoveAll(tmp)
		if _, err2 := os.Stat(filepath.Join(d, ".complete")); err2 != nil {
			return "", err
		}
	}
	fx.dirs[key] = d
	return d, nil
}

// ---- the Casketfile ----------------------------------------------------------------------------------

func (fx *fixtures) casketfile(c *ccase, ports map[int]int) (string, error) {
	var b strings.Builder
	for i := 0; i < len(c.Sites); i++ {
		s := c.Sites[i]
		keys := fmt.Sprintf("%s:%d", join(s.Host), ports[s.Lst])
		for s.Blk != 0 && i+1 < len(c.Sites) && c.Sites[i+1].Blk == s.Blk {
			// the next key of the same server block (same lines: the directives are set up once per key)
			i++
			keys += fmt.Sprintf(", %s:%d", join(c.Sites[i].Host), ports[c.Sites[i].Lst])
		}
		fmt.Fprintf(&b, "%s {\n\tbind %s\n", keys, listenIP(s.Lst))
		first := true
		block := func() string {
			// NoRedirect is sticky: once per site keeps automatic HTTPS from adding a redirect site
			if first {
				first = false
				return " {\n\t\tno_redirect\n\t}\n"
			}
			return "\n"
		}
		for _, ln := range s.Lines {
			switch ln.Kind {
			case "pair":
				lf := fx.leaves[ln.Cert]
				fmt.Fprintf(&b, "\ttls %s %s%s", lf.crt, lf.key, block())
			case "pairbad":
				lf := fx.leaves[ln.Cert]
				fmt.Fprintf(&b, "\ttls %s %s%s", lf.crt, fx.otherKey(ln.Cert).key, block())
			case "dir":
				d, err := fx.materialise(ln.Files)
				if err != nil {
					return "", err
				}
				extra := ""
				if first {
					first = false
					extra = "\t\tno_redirect\n"
				}
				fmt.Fprintf(&b, "\ttls {\n\t\tload %s\n%s\t}\n", d, extra)
			case "dirmissing":
				fmt.Fprintf(&b, "\ttls {\n\t\tload %s\n\t}\n", filepath.Join(fx.Dir, "no-such-directory"))
			case "self":
				fmt.Fprintf(&b, "\ttls self_signed%s", block())
			case "bare":
				first = false
				b.WriteString("\ttls {\n\t\tno_redirect\n\t}\n")
			case "off":
				b.WriteString("\ttls off\n")
			default:
				return "", fmt.Errorf("line kind %q", ln.Kind)
			}
		}
		fmt.Fprintf(&b, "\theader / X-Site s%d\n\tstatus 204 /\n}\n", i+1)
	}
	return b.String(), nil
}

func (c *ccase) listeners() []int {
	seen := map[int]bool{}
	var out []int
	for _, s := range c.Sites {
		if !seen[s.Lst] {
			seen[s.Lst] = true
			out = append(out, s.Lst)
		}
	}
	sort.Ints(out)
	return out
}

func (c *ccase) ident() string {
	s := c.Topo + "[" + strings.Join(c.Slots, ",") + "]"
	switch c.Gen {
	case 2:
		s = c.Topo + "[" + strings.Join(c.Prev, ",") + "]->[" + strings.Join(c.Slots, ",") + "]"
	case 3:
		s += "+refused-site"
	case 4:
		s += "->refused"
	}
	return s
}

func (c *ccase) dfltName() string {
	if d := join(c.Dflt); d != "" {
		return strings.ToUpper(d) // the flag is spelled in upper case: certmagic and casket normalise it
	}
	return ""
}

// ---- ports below the ephemeral range ---------------------------------------------------------------

var portCounter uint32

func nextPort(l int) int {
	for {
		p := 24000 + int((uint32(os.Getpid())*7919+atomic.AddUint32(&portCounter, 1)*3)%8000)
		if hx.IsQuietPort(p) {
			continue
		}
		ln, err := net.Listen("tcp", listenIP(l)+":"+strconv.Itoa(p))
		if err != nil {
			continue
		}
		ln.Close()
		return p
	}
}

// ---- one probe -------------------------------------------------------------------------------------

type obs struct {
	Out   string `json:"out"` // ok | nocert | nosuite | plain | other: ...
	Leaf  string `json:"leaf"`
	Name  bool   `json:"name"`
	Time  bool   `json:"time"`
	Chain bool   `json:"chain"`
	Names string `json:"leaf_names,omitempty"`
	Err   string `json:"error,omitempty"`
}

func (o obs) core() string {
	return fmt.Sprintf("%s/%s/%v/%v/%v", o.Out, o.Leaf, o.Name, o.Time, o.Chain)
}

// spelled: the ServerName the client is configured with for hello h on listener l.
func spelled(h helloSpec, l int) string {
	n := join(h.Ask)
	switch h.Sp {
	case "upper":
		return strings.ToUpper(n)
	case "dot":
		return n + "."
	case "absent":
		return ""
	case "ip":
		return listenIP(l) // crypto/tls sends no SNI for an IP literal
	}
	return n
}

func offerConfig(o string) (min, max uint16, suites []uint16) {
	ec := []uint16{tls.TLS_ECDHE_ECDSA_WITH_AES_128_GCM_SHA256, tls.TLS_ECDHE_ECDSA_WITH_AES_256_GCM_SHA384}
	rs := []uint16{tls.TLS_ECDHE_RSA_WITH_AES_128_GCM_SHA256, tls.TLS_ECDHE_RSA_WITH_AES_256_GCM_SHA384}
	switch o {
	case "t13":
		return tls.VersionTLS13, tls.VersionTLS13, nil
	case "t12":
		return tls.VersionTLS12, tls.VersionTLS12, append(append([]uint16{}, ec...), rs...)
	case "t12rsa":
		return tls.VersionTLS12, tls.VersionTLS12, rs
	case "t12ecdsa":
		return tls.VersionTLS12, tls.VersionTLS12, ec
	}
	panic("offer " + o)
}

func leafID(c *x509.Certificate) string {
	for _, o := range c.Subject.Organization {
		if strings.HasPrefix(o, orgPrefix) {
			return strings.TrimPrefix(o, orgPrefix)
		}
		if o == "Casket Self-Signed" {
			return "SELF"
		}
	}
	return "?" + c.Subject.String()
}

func (fx *fixtures) probe(l int, port int, h helloSpec, offer string) obs {
	addr := listenIP(l) + ":" + strconv.Itoa(port)
	raw, err := net.DialTimeout("tcp", addr, 5*time.Second)
	if err != nil {
		return obs{Out: "dial", Err: err.Error()}
	}
	defer func() {
		if t, ok := raw.(*net.TCPConn); ok {
			t.SetLinger(0) // no TIME_WAIT sockets: thousands of handshakes per run
		}
		raw.Close()
	}()
	min, max, suites := offerConfig(offer)
	cfg := &tls.Config{ServerName: spelled(h, l), InsecureSkipVerify: true, MinVersion: min, MaxVersion: max, CipherSuites: suites,
		NextProtos: []string{"http/1.1"}}
	tc := tls.Client(raw, cfg)
	tc.SetDeadline(time.Now().Add(15 * time.Second))
	if err := tc.Handshake(); err != nil {
		e := err.Error()
		switch {
		case strings.Contains(e, "internal error"):
			return obs{Out: "nocert", Err: e}
		case strings.Contains(e, "handshake failure"):
			return obs{Out: "nosuite", Err: e}
		case strings.Contains(e, "first record does not look like a TLS handshake"):
			return obs{Out: "plain", Err: e}
		}
		return obs{Out: "other: " + e, Err: e}
	}
	st := tc.ConnectionState()
	if len(st.PeerCertificates) == 0 {
		return obs{Out: "other: no certificate presented"}
	}
	leaf := st.PeerCertificates[0]
	o := obs{Out: "ok", Leaf: leafID(leaf)}
	var names []string
	if leaf.Subject.CommonName != "" {
		names = append(names, "CN="+leaf.Subject.CommonName)
	}
	names = append(names, leaf.DNSNames...)
	for _, ip := range leaf.IPAddresses {
		names = append(names, ip.String())
	}
	o.Names = strings.Join(names, ",")
	// what a verifying client would have concluded, clause by clause
	target := spelled(h, l)
	if target == "" {
		target = listenIP(l) // no name asked for: the address it connected to
	}
	o.Name = leaf.VerifyHostname(target) == nil
	now := time.Now()
	o.Time = !now.Before(leaf.NotBefore) && !now.After(leaf.NotAfter)
	pool := x509.NewCertPool()
	pool.AddCert(fx.caCert)
	inter := x509.NewCertPool()
	for _, c := range st.PeerCertificates[1:] {
		inter.AddCert(c)
	}
	_, verr := leaf.Verify(x509.VerifyOptions{Roots: pool, Intermediates: inter, CurrentTime: leaf.NotBefore.Add(time.Minute),
		KeyUsages: []x509.ExtKeyUsage{x509.ExtKeyUsageAny}})
	o.Chain = verr == nil
	return o
}

// coversCM: certmagic's sense of "this certificate is for that name" (CN or SAN, exact or with leading labels starred).
func coversCM(names string, sni string) bool {
	have := map[string]bool{}
	for _, n := range strings.Split(names, ",") {
		have[strings.ToLower(strings.TrimPrefix(n, "CN="))] = true
	}
	labels := strings.Split(strings.ToLower(strings.TrimSuffix(sni, ".")), ".")
	if have[strings.Join(labels, ".")] {
		return true
	}
	for i := range labels {
		labels[i] = "*"
		if have[strings.Join(labels, ".")] {
			return true
		}
	}
	return false
}

// ---- running a case -------------------------------------------------------------------------------------

type finding struct {
	clause string
	detail string
	what   string
	exp    interface{}
	obs    interface{}
	only   *entry
}

type runner struct {
	fx     *fixtures
	alpha  *ccase
	repeat int // extra repetitions of a successful probe
	mu     sync.Mutex
	drift  map[string]int
	stats  map[string]int
	pokes  int
}

func (r *runner) note(m map[string]int, k string) {
	r.mu.Lock()
	m[k]++
	r.mu.Unlock()
}

func errClass(err error) string {
	e := err.Error()
	switch {
	case strings.Contains(e, "no private key block found"):
		return "nokey"
	case strings.Contains(e, "failed to parse PEM data"):
		return "nopem"
	case strings.Contains(e, "unrecognized PEM block type"):
		return "unknownblock"
	case strings.Contains(e, "private key does not match public key"), strings.Contains(e, "private key type does not match public key type"):
		return "keypair"
	case strings.Contains(e, "certificate has no names"):
		return "nonames"
	}
	return "other: " + e
}

// start loads the case's file. infra != nil: nothing can be said.
func (r *runner) start(c *ccase) (inst *hx.Site, ports map[int]int, text string, startErr error, infra error) {
	for try := 0; try < 25; try++ {
		ports = map[int]int{}
		for _, l := range c.listeners() {
			ports[l] = nextPort(l)
		}
		text, infra = r.fx.casketfile(c, ports)
		if infra != nil {
			return
		}
		inst, startErr = hx.StartHTTP(text, "")
		if startErr == nil || !strings.Contains(startErr.Error(), "address already in use") {
			return
		}
	}
	return nil, nil, text, nil, fmt.Errorf("harness: no free listener port: %v", startErr)
}

func (r *runner) probeDetail(e entry) string {
	h := r.alpha.Hellos[e.H-1]
	s := spelled(h, e.L)
	switch h.Sp {
	case "absent":
		s = "(none)"
	case "ip":
		s = "(ip-literal)"
	}
	return fmt.Sprintf("sni=%s/%s/l%d", s, r.alpha.Offers[e.O-1], e.L)
}

// judge compares one observation with the table entry. drift: the documented rule leaves the choice open
// (every usable certificate filed under the name is expired or not yet valid) and the code chose otherwise.
func (r *runner) judge(e entry, o obs) (ok bool, drift bool, why string) {
	if strings.HasPrefix(o.Out, "other") || o.Out == "dial" {
		return false, false, "handshake ended in an unexpected way: " + o.Out
	}
	if len(e.Alt) > 0 && e.Out == "ok" && !e.Time {
		// only determinism is judged here: any expired certificate the client can use, or none
		if o.Out == "nocert" {
			return true, true, ""
		}
		if o.Out == "ok" {
			for _, a := range e.Alt {
				if a == o.Leaf {
					return true, o.Leaf != e.Leaf, ""
				}
			}
		}
	}
	if o.Out != e.Out {
		return false, false, fmt.Sprintf("handshake outcome %q, expected %q", o.Out, e.Out)
	}
	if e.Out != "ok" {
		return true, false, ""
	}
	if o.Leaf != e.Leaf {
		return false, false, fmt.Sprintf("leaf %s (%s) presented, expected %s", o.Leaf, o.Names, e.Leaf)
	}
	if o.Name != e.Name || o.Time != e.Time || o.Chain != e.Chain {
		return false, false, fmt.Sprintf("client-side verification of leaf %s: name/time/chain = %v/%v/%v, expected %v/%v/%v", o.Leaf, o.Name, o.Time, o.Chain, e.Name, e.Time, e.Chain)
	}
	return true, false, ""
}

// runTable probes the entries against a running instance.
func (r *runner) runTable(c *ccase, ports map[int]int, tab []entry, clause string) (fs []finding, observed []obs, infra error) {
	for i := range tab {
		e := tab[i]
		h := r.alpha.Hellos[e.H-1]
		o := r.fx.probe(e.L, ports[e.L], h, r.alpha.Offers[e.O-1])
		if o.Out == "dial" {
			return fs, observed, fmt.Errorf("harness: %s", o.Err)
		}
		observed = append(observed, o)
		ok, drift, why := r.judge(e, o)
		ec := e
		if !ok {
			fs = append(fs, finding{clause: clause, detail: r.probeDetail(e), what: why, exp: e, obs: o, only: &ec})
			continue
		}
		if drift {
			r.note(r.drift, "expired-choice/"+c.ident()+"/"+r.probeDetail(e))
		}
		if o.Out == "ok" {
			// CertCoversName on the observation itself, whatever the model says
			sni := spelled(h, e.L)
			if h.Sp == "ip" {
				sni = ""
			}
			if sni != "" && !coversCM(o.Names, sni) {
				fs = append(fs, finding{clause: "covers", detail: r.probeDetail(e), only: &ec, exp: "a certificate naming " + sni, obs: o,
					what: fmt.Sprintf("the handshake for %s succeeded with leaf %s (%s), which names neither %s nor a wildcard form of it", sni, o.Leaf, o.Names, sni)})
			}
			// determinism: the same probe again, on the same instance
			for k := 0; k < r.repeat; k++ {
				o2 := r.fx.probe(e.L, ports[e.L], h, r.alpha.Offers[e.O-1])
				if o2.core() != o.core() {
					fs = append(fs, finding{clause: "deterministic", detail: r.probeDetail(e), only: &ec, exp: o, obs: o2,
						what: fmt.Sprintf("the same ClientHello got %s first and %s then", o.core(), o2.core())})
					break
				}
			}
		}
		if len(fs) > 3 {
			return
		}
	}
	return
}

// runCase starts the file of a generation-1 case and probes the table (only: a single entry).
func (r *runner) runCase(c *ccase, only *entry) (fs []finding, observed []obs, infra error) {
	inst, ports, text, serr, infra := r.start(c)
	if infra != nil {
		return nil, nil, infra
	}
	if inst != nil {
		defer inst.Stop()
	}
	if serr != nil {
		got := errClass(serr)
		if c.Err == "" {
			return []finding{{clause: "load", what: "the file was refused: " + serr.Error() + "\n" + text, exp: "loads", obs: serr.Error()}}, nil, nil
		}
		if got != c.Err {
			r.note(r.drift, "load-error-class/"+c.ident()+"/"+got)
		}
		return nil, nil, nil
	}
	if c.Err != "" {
		return []finding{{clause: "load", what: "the file was loaded although " + c.Err + " should refuse it\n" + text, exp: c.Err, obs: "loads"}}, nil, nil
	}
	tab := c.Tab
	if only != nil {
		tab = []entry{*only}
	}
	fs, observed, infra = r.runTable(c, ports, tab, "select")
	return
}

// runReload starts the file before the reload, lets every listener accept once, restarts the instance
// with the case's file on the same ports and probes the case's table.
func (r *runner) runReload(before, c *ccase, only *entry) (fs []finding, infra error) {
	return r.runReload2(before, nil, c, only)
}

// runReload2: with refused != nil Restart is called with that file, must return an error, and the case's table
// (the old file's) is probed on the instance that was running all along.
func (r *runner) runReload2(before, refused, c *ccase, only *entry) (fs []finding, infra error) {
	inst, ports, _, serr, infra := r.start(before)
	if infra != nil {
		return nil, infra
	}
	if serr != nil {
		return nil, fmt.Errorf("harness: the file before the reload does not load: %v", serr)
	}
	cur := inst
	defer func() { cur.Stop() }()
	// the old instance answers with the old file's certificates (and every listener has been through accept:
	// Restart right after Start can block in net.FileListener, findings/C16.json)
	warm := before.Tab
	if len(warm) > 6 {
		var w []entry
		seen := map[int]int{}
		for _, e := range before.Tab {
			if seen[e.L] < 3 {
				seen[e.L]++
				w = append(w, e)
			}
		}
		warm = w
	}
	f0, _, infra := r.runTable(before, ports, warm, "select")
	if infra != nil {
		return nil, infra
	}
	if len(f0) > 0 {
		return nil, nil // the generation-1 case reports it
	}
	newFile := c
	if refused != nil {
		newFile = refused
	}
	text, err := r.fx.casketfile(newFile, ports)
	if err != nil {
		return nil, err
	}
	type rr struct {
		ni  *casket.Instance
		err error
	}
	done := make(chan rr, 1)
	// while the reload is under way a client keeps asking for the first name: every completed handshake
	// shows the old file's answer or the new file's, never a third certificate (failures are only counted:
	// whether a connection may be lost during a reload is C07's subject)
	var during []obs
	stopProber := make(chan struct{})
	proberDone := make(chan struct{})
	var pe, pn *entry
	for i := range before.Tab {
		if before.Tab[i].H == 1 && before.Tab[i].O == 1 && before.Tab[i].Out != "plain" {
			pe = &before.Tab[i]
			break
		}
	}
	if pe != nil {
		for i := range c.Tab {
			if c.Tab[i].L == pe.L && c.Tab[i].H == 1 && c.Tab[i].O == 1 {
				pn = &c.Tab[i]
			}
		}
	}
	go func() {
		defer close(proberDone)
		if pe == nil || pn == nil || only != nil {
			return
		}
		for {
			select {
			case <-stopProber:
				return
			default:
			}
			during = append(during, r.fx.probe(pe.L, ports[pe.L], r.alpha.Hellos[0], r.alpha.Offers[0]))
			time.Sleep(200 * time.Microsecond)
		}
	}()
	go func() {
		ni, err := inst.Inst.Restart(casket.CasketfileInput{Contents: []byte(text), Filepath: "Casketfile", ServerTypeName: "http"})
		done <- rr{ni, err}
	}()
	var res rr
	select {
	case res = <-done:
	case <-time.After(3 * time.Second):
		// the known hang (an accept stuck in blocking mode): a connection lets it return
		r.mu.Lock()
		r.pokes++
		r.mu.Unlock()
		for l, p := range ports {
			if cn, err := net.DialTimeout("tcp", listenIP(l)+":"+strconv.Itoa(p), time.Second); err == nil {
				cn.Close()
			}
		}
		select {
		case res = <-done:
		case <-time.After(20 * time.Second):
			return nil, fmt.Errorf("harness: Restart did not return")
		}
	}
	close(stopProber)
	<-proberDone
	clause := "reload"
	if refused != nil {
		clause = "reload-refused"
		if res.err == nil {
			cur = &hx.Site{Inst: res.ni}
			return []finding{{clause: clause, what: "the reload was accepted although " + refused.Err + " should refuse the file\n" + text, exp: refused.Err, obs: "reloads"}}, nil
		}
		if got := errClass(res.err); got != refused.Err {
			r.note(r.drift, "load-error-class/"+refused.ident()+"/"+got)
		}
	} else {
		if res.err != nil {
			return []finding{{clause: clause, what: "the reload was refused: " + res.err.Error(), exp: "reloads", obs: res.err.Error()}}, nil
		}
		cur = &hx.Site{Inst: res.ni}
	}
	for _, o := range during {
		r.note(r.stats, "during-reload:"+o.Out)
		if o.Out != "ok" {
			continue
		}
		okOld, _, _ := r.judge(*pe, o)
		okNew, _, _ := r.judge(*pn, o)
		if !okOld && !okNew {
			fs = append(fs, finding{clause: "reload-window", detail: r.probeDetail(*pn), exp: []entry{*pe, *pn}, obs: o,
				what: fmt.Sprintf("a handshake completed while the reload was under way presented %s (%s): neither the old file's answer (%s %s) nor the new file's (%s %s)", o.Leaf, o.Names, pe.Out, pe.Leaf, pn.Out, pn.Leaf)})
			break
		}
	}
	if len(fs) > 0 {
		return fs, nil
	}
	tab := c.Tab
	if only != nil {
		tab = []entry{*only}
	}
	fs, _, infra = r.runTable(c, ports, tab, clause)
	return
}

func mmKey(c *ccase, f finding) string {
	k := keyPrefix + f.clause + "/" + c.ident()
	if f.detail != "" {
		k += "/" + strings.ToLower(f.detail)
	}
	return k
}

func mustJSON(v interface{}) string {
	b, _ := json.Marshal(v)
	return string(b)
}

// ---- the worker process (a brand-new process per job) -----------------------------------------------------

type childJob struct {
	Dir   string `json:"dir"`
	Alpha *ccase `json:"alphabet"`
	Case  *ccase `json:"case"`
}

type childOut struct {
	Err      string `json:"err,omitempty"`
	StartErr string `json:"start_err,omitempty"`
	Obs      []obs  `json:"obs"`
}

func TestCx06CertSelChild(t *testing.T) {
	hx.ServeChild(t, childName, func(job []byte) []byte {
		var j childJob
		out := childOut{}
		if err := json.Unmarshal(job, &j); err != nil {
			out.Err = err.Error()
			b, _ := json.Marshal(out)
			return b
		}
		hx.Quiet()
		os.Setenv("CASKETPATH", filepath.Join(j.Dir, "assets"))
		fx, err := loadFixtures(j.Dir, j.Alpha)
		if err != nil {
			out.Err = err.Error()
			b, _ := json.Marshal(out)
			return b
		}
		certmagic.Default.DefaultServerName = j.Case.dfltName()
		r := &runner{fx: fx, alpha: j.Alpha, drift: map[string]int{}, stats: map[string]int{}}
		inst, ports, _, serr, infra := r.start(j.Case)
		if infra != nil {
			out.Err = infra.Error()
		} else if serr != nil {
			out.StartErr = errClass(serr)
		} else {
			for _, e := range j.Case.Tab {
				out.Obs = append(out.Obs, fx.probe(e.L, ports[e.L], j.Alpha.Hellos[e.H-1], j.Alpha.Offers[e.O-1]))
			}
			inst.Stop()
		}
		b, _ := json.Marshal(out)
		return b
	})
}

// ---- the driver ------------------------------------------------------------------------------------------

func replayIsMine() bool {
	b, err := os.ReadFile(hx.Replay())
	if err != nil {
		return true
	}
	var w struct {
		Test string `json:"test"`
		Key  string `json:"key"`
	}
	if json.Unmarshal(b, &w) != nil {
		return true
	}
	return w.Test == testName || strings.HasPrefix(w.Key, keyPrefix)
}

func TestCx06CertSel(t *testing.T) {
	if hx.IsChild(childName) {
		t.Skip("worker process")
	}
	hx.Quiet()
	res := hx.NewResult(testName, "one case = one Casketfile from CertSelect.tla (a layout of <=3 sites on <=2 loopback listeners whose tls lines - certificate+key, load directories, "+
		"self_signed, bare blocks, off - name <=3 certificates of an alphabet of 16: exact / wildcard / both / overlapping / IP / CN-only / upper-case / *.*. SANs, RSA / ECDSA / Ed25519 keys, "+
		"expired and not yet valid) with the expected outcome of every probe listener x ClientHello (10 SNI forms) x offer (TLS 1.3, TLS 1.2, RSA-only, ECDSA-only); real handshakes with crypto/tls, "+
		"the presented leaf identified by its organisation field and verified by the harness for the name asked, against its own CA, for today; compared: start-up verdict, handshake class, leaf, "+
		"name / time / chain verdicts; every successful probe repeated, a sample repeated in brand-new processes, reload cases restarted in place; non-trivial = >= 2 certificates or a load directory or a reload")
	defer res.Write(t)

	if hx.Replay() != "" && !replayIsMine() {
		res.AddExtra("replay", "the replay file belongs to another driver of C06: nothing to do here")
		return
	}
	dir, err := os.MkdirTemp(hx.Scratch(t), "certselfix")
	if err != nil {
		res.Infra = err.Error()
		return
	}
	defer os.RemoveAll(dir)
	os.Setenv("CASKETPATH", filepath.Join(dir, "assets"))

	// ---- --replay: exactly the stored case --------------------------------------------------------------
	if rw, ok := hx.LoadReplay[replayWrap](t); ok {
		rc := rw.CertSel
		if rc == nil || rc.Alphabet == nil || rc.Case == nil {
			res.Infra = "replay file without a certsel case"
			return
		}
		fx, err := makeFixtures(dir, rc.Alphabet)
		if err != nil {
			res.Infra = "fixtures: " + err.Error()
			return
		}
		r := &runner{fx: fx, alpha: rc.Alphabet, repeat: 2, drift: map[string]int{}, stats: map[string]int{}}
		certmagic.Default.DefaultServerName = rc.Case.dfltName()
		res.Count("replay")
		res.Count("replay2")
		var fs []finding
		var infra error
		if rc.Before != nil {
			fs, infra = r.runReload2(rc.Before, rc.Refused, rc.Case, rc.Only)
		} else {
			fs, _, infra = r.runCase(rc.Case, rc.Only)
		}
		if infra != nil {
			res.Infra = infra.Error()
			return
		}
		for _, f := range fs {
			res.Add(hx.Mismatch{Key: mmKey(rc.Case, f), What: "replayed: " + f.what, Case: rw, Expected: f.exp, Observed: f.obs})
		}
		return
	}

	// ---- the cases ------------------------------------------------------------------------------------------
	all := hx.LoadCases[ccase](t, "CertSelect")
	var alpha *ccase
	var cases []*ccase
	byKey := map[string]*ccase{}
	dup := 0
	for i := range all {
		c := &all[i]
		switch c.Kind {
		case "alphabet":
			alpha = c
		case "config":
			k := fmt.Sprintf("%d/%s", c.Gen, c.ident())
			if o, ok := byKey[k]; ok {
				// getConfig's "any config will do" branches end in the same table, or the model is not deterministic
				if mustJSON(o.Tab) != mustJSON(c.Tab) || o.Err != c.Err {
					res.Infra = "the model gives two different tables for " + k
					return
				}
				dup++
				continue
			}
			byKey[k] = c
			cases = append(cases, c)
		}
	}
	if alpha == nil || len(cases) == 0 {
		res.Infra = "no alphabet / no cases from TLC"
		return
	}
	sort.Slice(cases, func(i, j int) bool {
		if cases[i].Gen != cases[j].Gen {
			return cases[i].Gen < cases[j].Gen
		}
		return cases[i].ident() < cases[j].ident()
	})
	fx, err := makeFixtures(dir, alpha)
	if err != nil {
		res.Infra = "fixtures: " + err.Error()
		return
	}
	rnd := hx.Rand()
	r := &runner{fx: fx, alpha: alpha, repeat: 1, drift: map[string]int{}, stats: map[string]int{}}
	if hx.Thorough() {
		r.repeat = 2
	}

	// which cases are replayed: every file (all start-up verdicts, all tables), a seeded sample of the reloads
	var gen1, gen2, small []*ccase
	for _, c := range cases {
		switch {
		case c.Gen == 3:
			// the refused file of a reload: used through its generation-4 case
		case c.Gen == 2 || c.Gen == 4:
			gen2 = append(gen2, c)
		case c.Err != "" || len(c.Slots) <= 1:
			small = append(small, c)
		default:
			gen1 = append(gen1, c)
		}
	}
	n1, n2, nfresh := len(gen1), 40, 6
	if hx.Thorough() {
		n2, nfresh = 500, 60
	}
	if hx.SelfTest() {
		n1, n2, nfresh = 60, 10, 0
	}
	todo := append([]*ccase{}, small...)
	for _, k := range hx.SampleIdx(rnd, len(gen1), n1) {
		todo = append(todo, gen1[k])
	}
	for _, k := range hx.SampleIdx(rnd, len(gen2), n2) {
		todo = append(todo, gen2[k])
	}
	res.AddExtra("cases_from_tlc", len(cases))
	res.AddExtra("cases_replayed", len(todo))
	res.AddExtra("model_duplicates_with_equal_tables", dup)

	// -default-sni is a process-wide setting read at start AND at handshake time: one phase per value
	phases := map[string][]*ccase{}
	for _, c := range todo {
		phases[c.dfltName()] = append(phases[c.dfltName()], c)
	}
	var (
		mu          sync.Mutex
		infra       error
		probes      int
		selftested  int
		selfNoticed int
		observedOf  = map[*ccase][]obs{}
	)
	wrap := func(c *ccase, f finding) replayWrap {
		rc := &replayCase{Alphabet: alpha, Case: c, Only: f.only}
		switch c.Gen {
		case 2:
			rc.Before = byKey["1/"+c.Topo+"["+strings.Join(c.Prev, ",")+"]"]
		case 4:
			rc.Before = byKey["1/"+c.Topo+"["+strings.Join(c.Slots, ",")+"]"]
			rc.Refused = byKey["3/"+c.Topo+"["+strings.Join(c.Slots, ",")+"]+refused-site"]
		}
		return replayWrap{CertSel: rc}
	}
	run := func(c *ccase, only *entry) ([]finding, []obs, error) {
		if c.Gen == 2 {
			before := byKey["1/"+c.Topo+"["+strings.Join(c.Prev, ",")+"]"]
			if before == nil {
				return nil, nil, fmt.Errorf("no generation-1 case for %s", c.ident())
			}
			fs, inf := r.runReload(before, c, only)
			return fs, nil, inf
		}
		if c.Gen == 4 {
			before := byKey["1/"+c.Topo+"["+strings.Join(c.Slots, ",")+"]"]
			refused := byKey["3/"+c.Topo+"["+strings.Join(c.Slots, ",")+"]+refused-site"]
			if before == nil || refused == nil {
				return nil, nil, fmt.Errorf("no generation-1 / refused case for %s", c.ident())
			}
			fs, inf := r.runReload2(before, refused, c, only)
			return fs, nil, inf
		}
		return r.runCase(c, only)
	}
	for _, dflt := range hx.SortedKeys(phases) {
		certmagic.Default.DefaultServerName = dflt
		jobs := make(chan *ccase)
		var wg sync.WaitGroup
		for w := 0; w < 10; w++ {
			wg.Add(1)
			go func() {
				defer wg.Done()
				for c := range jobs {
					if hx.SelfTest() {
						cc, ok := corrupt(c)
						if !ok {
							continue
						}
						fs, _, _ := run(cc, nil)
						mu.Lock()
						selftested++
						if len(fs) > 0 {
							selfNoticed++
						}
						mu.Unlock()
						continue
					}
					fs, observed, inf := run(c, nil)
					mu.Lock()
					if inf != nil && infra == nil {
						infra = inf
					}
					probes += len(c.Tab)
					if observed != nil && len(observed) == len(c.Tab) {
						observedOf[c] = observed
					}
					mu.Unlock()
					for _, f := range fs {
						// only a finding reproduced on a fresh instance, with that probe alone, counts
						fs2, _, inf2 := run(c, f.only)
						if inf2 != nil {
							continue
						}
						for _, g := range fs2 {
							if g.clause == f.clause {
								res.Add(hx.Mismatch{Key: mmKey(c, g), What: g.what, Case: wrap(c, g), Expected: g.exp, Observed: g.obs})
								break
							}
						}
					}
					nt := ""
					if len(c.Slots) >= 2 || c.Gen >= 2 || c.Topo == "dir" {
						nt = fmt.Sprintf("%d/%s", c.Gen, c.ident())
					}
					res.Count(nt)
					r.mu.Lock()
					switch {
					case c.Err != "":
						r.stats["refused:"+c.Err]++
					case c.Gen == 2:
						r.stats["reloaded"]++
					case c.Gen == 4:
						r.stats["reload-refused"]++
					default:
						r.stats["started"]++
					}
					for _, e := range c.Tab {
						r.stats["probe:"+e.Out]++
						if e.Out == "ok" && !e.Name {
							r.stats["probe:ok-but-name-not-covered"]++
						}
						if e.Out == "ok" && !e.Time {
							r.stats["probe:ok-but-not-valid-today"]++
						}
					}
					r.mu.Unlock()
				}
			}()
		}
		for _, c := range phases[dflt] {
			jobs <- c
		}
		close(jobs)
		wg.Wait()
	}
	certmagic.Default.DefaultServerName = ""

	// ---- the same files in brand-new processes: the same answers ------------------------------------------------
	if nfresh > 0 && infra == nil {
		var cand []*ccase
		for _, c := range todo {
			if c.Gen == 1 && c.Err == "" && len(c.Slots) >= 2 && observedOf[c] != nil {
				cand = append(cand, c)
			}
		}
		pool := hx.NewProcPool(4, 60*time.Second, childName)
		var wg sync.WaitGroup
		sem := make(chan struct{}, 4)
		fresh := 0
		for _, k := range hx.SampleIdx(rnd, len(cand), nfresh) {
			c := cand[k]
			wg.Add(1)
			sem <- struct{}{}
			go func() {
				defer wg.Done()
				defer func() { <-sem }()
				job, _ := json.Marshal(childJob{Dir: dir, Alpha: alpha, Case: c})
				out, st := pool.DoFresh(job)
				var co childOut
				if st != "" || json.Unmarshal(out, &co) != nil || co.Err != "" || co.StartErr != "" || len(co.Obs) != len(c.Tab) {
					mu.Lock()
					if infra == nil {
						infra = fmt.Errorf("harness: worker process for %s: %s %s %s", c.ident(), st, co.Err, co.StartErr)
					}
					mu.Unlock()
					return
				}
				mu.Lock()
				fresh++
				mine := observedOf[c]
				mu.Unlock()
				for i, o := range co.Obs {
					if o.core() != mine[i].core() {
						e := c.Tab[i]
						f := finding{clause: "deterministic", detail: r.probeDetail(e) + "/fresh-process", only: &e, exp: mine[i], obs: o,
							what: fmt.Sprintf("the same ClientHello got %s in this process and %s in a brand-new one", mine[i].core(), o.core())}
						// confirmation: once more in another new process
						out2, st2 := pool.DoFresh(job)
						var co2 childOut
						if st2 == "" && json.Unmarshal(out2, &co2) == nil && len(co2.Obs) == len(c.Tab) && co2.Obs[i].core() != mine[i].core() {
							res.Add(hx.Mismatch{Key: mmKey(c, f), What: f.what, Case: wrap(c, f), Expected: f.exp, Observed: f.obs})
						}
						break
					}
				}
			}()
		}
		wg.Wait()
		pool.Close()
		res.AddExtra("cases_repeated_in_new_processes", fresh)
	}

	res.AddExtra("probes", probes)
	res.AddExtra("case_statistics", r.stats)
	res.AddExtra("restart_needed_a_connection", r.pokes)
	if len(r.drift) > 0 {
		res.AddExtra("model_drift", r.drift)
	}
	res.Replayed = res.Evaluations
	for i, c := range todo {
		if i%97 == 0 && c.Err == "" && len(c.Slots) >= 2 {
			text, _ := fx.casketfile(c, map[int]int{1: 1001, 2: 1002})
			text = strings.ReplaceAll(text, dir, "<fixtures>")
			var sample []string
			for _, e := range c.Tab {
				if e.O == 1 {
					sample = append(sample, r.probeDetail(e)+" -> "+e.Out+" "+e.Leaf)
				}
			}
			res.Sample(map[string]interface{}{"case": c.ident(), "casketfile": text, "default_sni": c.dfltName(), "expected_tls13": sample})
		}
	}
	if infra != nil {
		res.Infra = infra.Error()
	}
	if hx.SelfTest() {
		res.AddExtra("selftest_corrupted", selftested)
		res.AddExtra("selftest_noticed", selfNoticed)
		if selftested == 0 || selfNoticed != selftested {
			res.Infra = fmt.Sprintf("selftest: %d corrupted expectations, only %d noticed", selftested, selfNoticed)
		}
	}
}

// corrupt changes one expectation of a case (selftest): the leaf of a successful probe becomes another
// certificate, a failing probe is expected to succeed, a refused file is expected to load.
func corrupt(c *ccase) (*ccase, bool) {
	b, _ := json.Marshal(c)
	var cc ccase
	if json.Unmarshal(b, &cc) != nil {
		return nil, false
	}
	if cc.Err != "" {
		cc.Err = ""
		return &cc, true
	}
	h := 0
	for _, ch := range c.ident() {
		h = h*31 + int(ch)
	}
	if h < 0 {
		h = -h
	}
	if len(cc.Tab) == 0 {
		return nil, false
	}
	rng := mrand.New(mrand.NewSource(int64(h)))
	i := rng.Intn(len(cc.Tab))
	e := &cc.Tab[i]
	switch e.Out {
	case "ok":
		switch h % 3 {
		case 0:
			if e.Leaf == "ZZ" {
				e.Leaf = "A"
			} else {
				e.Leaf = "ZZ"
			}
			e.Alt = nil
		case 1:
			e.Name = !e.Name
			e.Alt = nil
		default:
			e.Out, e.Leaf, e.Alt = "nocert", "", nil
		}
	case "plain":
		e.Out = "nocert"
	default:
		e.Out, e.Leaf, e.Name, e.Time, e.Chain = "ok", "A", true, true, true
	}
	return &cc, true
}
