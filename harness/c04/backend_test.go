package c04

// A raw TCP backend: records what it read off the wire (parsed with http.ReadRequest), plays the
// scripted raw response of the case named in the X-Case header.

import (
	"bufio"
	"bytes"
	"fmt"
	"io"
	"net"
	"net/http"
	"strings"
	"sync"
	"time"
)

type seen struct {
	Method string      `json:"method"`
	Target string      `json:"target"` // raw request target
	Host   string      `json:"host"`
	Header http.Header `json:"header"`
	Body   []byte      `json:"-"`
	BodyN  int         `json:"body_len"`
	TE     []string    `json:"transfer_encoding,omitempty"`
	Err    string      `json:"body_err,omitempty"`
}

type script struct {
	raw       []byte // the complete response
	closeConn bool
	failFirst bool // reset the connection of the first arrival (retry cases)
}

type backend struct {
	ln   net.Listener
	addr string
	mu   sync.Mutex
	sc   map[string]*script
	got  map[string][]seen
}

func newBackend() (*backend, error) {
	ln, err := net.Listen("tcp", "127.0.0.1:0")
	if err != nil {
		return nil, err
	}
	b := &backend{ln: ln, addr: ln.Addr().String(), sc: map[string]*script{}, got: map[string][]seen{}}
	go func() {
		for {
			c, err := ln.Accept()
			if err != nil {
				return
			}
			go b.serve(c)
		}
	}()
	return b, nil
}

func (b *backend) arm(id string, s *script) {
	b.mu.Lock()
	b.sc[id] = s
	delete(b.got, id)
	b.mu.Unlock()
}

func (b *backend) collect(id string) []seen {
	b.mu.Lock()
	defer b.mu.Unlock()
	g := b.got[id]
	delete(b.got, id)
	delete(b.sc, id)
	return g
}

func (b *backend) serve(c net.Conn) {
	defer c.Close()
	br := bufio.NewReaderSize(c, 64<<10)
	for {
		c.SetDeadline(time.Now().Add(30 * time.Second))
		req, err := http.ReadRequest(br)
		if err != nil {
			return
		}
		body, rerr := io.ReadAll(req.Body)
		s := seen{Method: req.Method, Target: req.RequestURI, Host: req.Host, Header: req.Header, Body: body, BodyN: len(body), TE: req.TransferEncoding}
		if rerr != nil {
			s.Err = rerr.Error()
		}
		id := req.Header.Get("X-Case")
		b.mu.Lock()
		sc := b.sc[id]
		first := len(b.got[id]) == 0
		if sc != nil {
			b.got[id] = append(b.got[id], s)
		}
		b.mu.Unlock()
		if sc == nil {
			fmt.Fprintf(c, "HTTP/1.1 599 no script\r\nContent-Length: 0\r\nConnection: close\r\n\r\n")
			return
		}
		if sc.failFirst && first {
			if tc, ok := c.(*net.TCPConn); ok {
				tc.SetLinger(0)
			}
			return
		}
		if _, err := c.Write(sc.raw); err != nil || sc.closeConn {
			return
		}
	}
}

var statusText = map[int]string{200: "OK", 201: "Created", 204: "No Content", 301: "Moved Permanently", 404: "Not Found", 500: "Internal Server Error", 503: "Service Unavailable"}

// rawResponse renders the scripted response of a case.
func rawResponse(status int, lines []string, body []byte, chunked bool, trailers string, eof bool) []byte {
	var w bytes.Buffer
	if eof && status != 204 && trailers == "none" {
		// a response of unknown length: HTTP/1.0, neither Content-Length nor chunked, delimited
		// by the close of the connection (the backend closes after writing it)
		fmt.Fprintf(&w, "HTTP/1.0 %d %s\r\n", status, statusText[status])
		for _, l := range lines {
			w.WriteString(l + "\r\n")
		}
		w.WriteString("\r\n")
		w.Write(body)
		return w.Bytes()
	}
	fmt.Fprintf(&w, "HTTP/1.1 %d %s\r\n", status, statusText[status])
	for _, l := range lines {
		w.WriteString(l + "\r\n")
	}
	if status == 204 {
		w.WriteString("\r\n")
		return w.Bytes()
	}
	if trailers != "none" {
		chunked = true
	}
	if trailers == "announced" {
		w.WriteString("Trailer: X-Trail\r\n")
	}
	if !chunked {
		fmt.Fprintf(&w, "Content-Length: %d\r\n\r\n", len(body))
		w.Write(body)
		return w.Bytes()
	}
	w.WriteString("Transfer-Encoding: chunked\r\n\r\n")
	for off := 0; off < len(body); off += 20000 {
		end := off + 20000
		if end > len(body) {
			end = len(body)
		}
		fmt.Fprintf(&w, "%x\r\n", end-off)
		w.Write(body[off:end])
		w.WriteString("\r\n")
	}
	w.WriteString("0\r\n")
	if trailers != "none" {
		w.WriteString("X-Trail: tv\r\n")
	}
	w.WriteString("\r\n")
	return w.Bytes()
}

func hasToken(lines [][]string, tok string) bool {
	for _, l := range lines {
		for _, t := range l {
			if strings.EqualFold(t, tok) {
				return true
			}
		}
	}
	return false
}
