// C04 - the reverse proxy relays requests and responses faithfully.
//
// TLC has checked ProxyRelay.tla (createUpstreamRequest, the per-attempt header rules, the director,
// the response side of ReverseProxy.ServeHTTP, action by action) against the declarative equalities of
// the statement and emitted one CASE per abstract request / upstream block / backend response with what
// the backend and the client must see. This driver runs every case through a real casket site
// (casket.Start, `proxy` directive) between a raw HTTP/1.1 client and a raw TCP backend that records the
// request it read and plays the scripted response, and compares field by field.
package c04

import (
	"bytes"
	"encoding/json"
	"fmt"
	"math/rand"
	"net/http"
	"sort"
	"strconv"
	"strings"
	"sync"
	"testing"

	"verifharness/hx"
)

// ---- the CASE records of ProxyRelay.tla ----

type hdrMap map[string][]string

func (h *hdrMap) UnmarshalJSON(b []byte) error {
	*h = hdrMap{}
	if len(b) > 0 && b[0] == '[' { // the empty function prints as an empty sequence
		return nil
	}
	m := map[string][]string{}
	if err := json.Unmarshal(b, &m); err != nil {
		return err
	}
	*h = m
	return nil
}

type reqT struct {
	Method string     `json:"method"`
	Path   []string   `json:"path"`
	Query  string     `json:"query"`
	Hdr    hdrMap     `json:"hdr"`
	Conn   [][]string `json:"conn"`
	Xff    []string   `json:"xff"`
	Body   int        `json:"body"`
}
type confT struct {
	Base        []string `json:"base"`
	Bq          string   `json:"bq"`
	Without     []string `json:"without"`
	Transparent bool     `json:"transparent"`
	Up          []string `json:"up"`
	Down        []string `json:"down"`
	Retry       bool     `json:"retry"`
}
type respT struct {
	Status   int        `json:"status"`
	Hdr      hdrMap     `json:"hdr"`
	Conn     [][]string `json:"conn"`
	Body     int        `json:"body"`
	Trailers string     `json:"trailers"`
}
type backendT struct {
	Hdr      hdrMap   `json:"hdr"`
	Xff      []string `json:"xff"`
	Path     []string `json:"path"`
	Query    string   `json:"query"`
	Host     string   `json:"host"`
	Attempts int      `json:"attempts"`
}
type clientT struct {
	Status   int    `json:"status"`
	Hdr      hdrMap `json:"hdr"`
	Trailers string `json:"trailers"`
}
type concT struct {
	Method   string `json:"method"`
	ReqBody  int    `json:"req_body"`
	ReqChunk bool   `json:"req_chunked"`
	RespBody int    `json:"resp_body"`
	RespChnk bool   `json:"resp_chunked"`
	RespEOF  bool   `json:"resp_close_delimited"`
	LowerTok bool   `json:"lower_tokens"` // Connection tokens spelled in lower case
	Field    string `json:"field,omitempty"`
}
type rcase struct {
	Req     reqT     `json:"req"`
	Conf    confT    `json:"conf"`
	Resp    respT    `json:"resp"`
	Backend backendT `json:"backend"`
	Client  clientT  `json:"client"`
	Conc    *concT   `json:"conc,omitempty"`
	Probe   string   `json:"probe,omitempty"` // transport-default probes: "no-user-agent" | "no-accept-encoding"
}

// ---- sites ----

type site struct {
	s    *hx.Site
	addr string
	port int
}

type world struct {
	be    *backend
	mu    sync.Mutex
	sites map[string]*site
	seq   int64
}

var ruleLines = map[string][2]string{
	"set": {"header_upstream X-Set two", "header_downstream X-Dset two"},
	"add": {"header_upstream +X-Add one", "header_downstream +X-Dadd one"},
	"del": {"header_upstream -X-Del", "header_downstream -X-Ddel"},
	"re":  {"header_upstream X-Re b B", "header_downstream X-Dre b B"},
}

func join(t []string) string { return strings.Join(t, "") }

func confKey(c *confT) string {
	up := append([]string(nil), c.Up...)
	down := append([]string(nil), c.Down...)
	sort.Strings(up)
	sort.Strings(down)
	return fmt.Sprintf("base=%s?%s,without=%s,transparent=%v,up=%s,down=%s,retry=%v", join(c.Base), c.Bq, join(c.Without), c.Transparent, strings.Join(up, "+"), strings.Join(down, "+"), c.Retry)
}

func proxyBlock(c *confT, backendAddr string) string {
	target := "http://" + backendAddr + join(c.Base)
	if c.Bq != "" {
		target += "?" + c.Bq
	}
	var b strings.Builder
	fmt.Fprintf(&b, "proxy / %s {\n", target)
	if len(c.Without) > 0 {
		fmt.Fprintf(&b, "\twithout %s\n", join(c.Without))
	}
	if c.Transparent {
		b.WriteString("\ttransparent\n")
	}
	// the "set" rule of the model is the last plain rule written for its header: in half of the
	// configurations an earlier plain rule for the same header precedes it (the last one wins)
	earlier := c.Transparent != c.Retry
	for _, r := range []string{"set", "add", "del", "re"} {
		for _, u := range c.Up {
			if u == r {
				if r == "set" && earlier {
					b.WriteString("\theader_upstream X-Set one\n")
				}
				b.WriteString("\t" + ruleLines[r][0] + "\n")
			}
		}
		for _, d := range c.Down {
			if d == r {
				if r == "set" && earlier {
					b.WriteString("\theader_downstream X-Dset one\n")
				}
				b.WriteString("\t" + ruleLines[r][1] + "\n")
			}
		}
	}
	// 12 workers share a few hot sites: with net/http's default of 2 idle connections per host almost every
	// request would open a backend connection that the transport itself closes again (TIME_WAIT on an ephemeral port)
	b.WriteString("\tkeepalive 32\n")
	if c.Retry {
		// one backend that resets the first attempt of every case and answers the second
		b.WriteString("\ttry_duration 5s\n\ttry_interval 1ms\n\tfail_timeout 1s\n\tmax_fails 100000000\n")
	}
	b.WriteString("}\n")
	return b.String()
}

func (w *world) siteFor(c *confT, fresh bool) (*site, error) {
	k := confKey(c)
	if !fresh {
		w.mu.Lock()
		s := w.sites[k]
		w.mu.Unlock()
		if s != nil {
			return s, nil
		}
	}
	var st *site
	var err error
	for try := 0; try < 12; try++ {
		port := hx.FreePort()
		var hs *hx.Site
		hs, err = hx.StartHTTP(fmt.Sprintf(":%d {\n\tbind 127.0.0.1\n\ttls off\n%s}\n", port, hx.Indent(proxyBlock(c, w.be.addr))), "")
		if err == nil {
			st = &site{s: hs, addr: "127.0.0.1:" + strconv.Itoa(port), port: port}
			break
		}
		if !strings.Contains(err.Error(), "address already in use") {
			break
		}
	}
	if st == nil {
		return nil, fmt.Errorf("site %s: %v", k, err)
	}
	if fresh {
		return st, nil
	}
	w.mu.Lock()
	if old := w.sites[k]; old != nil {
		w.mu.Unlock()
		st.s.Stop()
		return old, nil
	}
	w.sites[k] = st
	w.mu.Unlock()
	return st, nil
}

func (w *world) stop() {
	w.mu.Lock()
	defer w.mu.Unlock()
	for _, s := range w.sites {
		s.s.Stop()
	}
	w.be.ln.Close()
}

// ---- concretisation ----

var bodySizes = []int{0, 1, 32*1024 - 1, 32 * 1024, 32*1024 + 1, 3*32*1024 + 7}

func bodyOf(n int, salt byte) []byte {
	b := make([]byte, n)
	for i := range b {
		b[i] = 'a' + byte((i*11+i/253+int(salt))%26)
	}
	return b
}

func concretise(c *rcase, rnd *rand.Rand) {
	if c.Conc != nil {
		return
	}
	cc := &concT{Method: []string{"GET", "GET", "POST", "PUT", "DELETE", "PATCH", "OPTIONS"}[rnd.Intn(7)]}
	if cc.Method == "POST" || cc.Method == "PUT" || cc.Method == "PATCH" {
		cc.ReqBody = bodySizes[rnd.Intn(len(bodySizes))]
		cc.ReqChunk = cc.ReqBody > 0 && rnd.Intn(2) == 0
	}
	if c.Resp.Body != 0 {
		cc.RespBody = bodySizes[rnd.Intn(len(bodySizes))]
		cc.RespChnk = rnd.Intn(2) == 0
		cc.RespEOF = rnd.Intn(5) == 0
	}
	cc.LowerTok = rnd.Intn(2) == 0
	c.Conc = cc
}

// the client names the site with its port, so that {host} and {server_port} are determined by the request
func clientHost(port int) string { return "relay.test:" + strconv.Itoa(port) }

// val maps the atoms of the model to the concrete strings ("re(x)" is the value the regexp rule `b -> B` produces).
func val(v string, port int) string {
	switch {
	case v == "{remote}":
		return "127.0.0.1"
	case v == "{scheme}":
		return "http"
	case v == "{server_port}":
		return strconv.Itoa(port)
	case strings.HasPrefix(v, "re(") && strings.HasSuffix(v, ")"):
		return strings.ReplaceAll(v[3:len(v)-1], "b", "B")
	}
	return v
}

func connLines(lines [][]string, lower bool) []string {
	var out []string
	for _, l := range lines {
		toks := append([]string(nil), l...)
		if lower {
			for i := range toks {
				toks[i] = strings.ToLower(toks[i])
			}
		}
		out = append(out, "Connection: "+strings.Join(toks, ", "))
	}
	return out
}

func headerLines(h hdrMap) []string {
	var out []string
	for _, k := range hx.SortedKeys(map[string][]string(h)) {
		for _, v := range h[k] {
			out = append(out, k+": "+v)
		}
	}
	return out
}

// ---- one case ----

type observation struct {
	Backend []seen      `json:"backend_saw"`
	Status  int         `json:"client_status"`
	Header  http.Header `json:"client_header"`
	BodyN   int         `json:"client_body_len"`
	body    []byte
	Err     string `json:"client_err,omitempty"`
}

// conns keeps one client connection per site for a worker: closing a connection from the client
// side leaves its ephemeral port in TIME_WAIT, and there are tens of thousands of cases.
type conns map[string]*hx.RawConn

func (cs conns) closeAll() {
	for k, c := range cs {
		c.Close()
		delete(cs, k)
	}
}

func (w *world) run(c *rcase, fresh bool, cs conns) (*observation, *site, error) {
	st, err := w.siteFor(&c.Conf, fresh)
	if err != nil {
		return nil, nil, err
	}
	if fresh {
		defer st.s.Stop()
	}
	cc := c.Conc
	w.mu.Lock()
	w.seq++
	id := fmt.Sprintf("c%d", w.seq)
	w.mu.Unlock()

	// the backend's scripted response
	respBody := bodyOf(cc.RespBody, 3)
	lines := append(headerLines(c.Resp.Hdr), connLines(c.Resp.Conn, cc.LowerTok)...)
	w.be.arm(id, &script{raw: rawResponse(c.Resp.Status, lines, respBody, cc.RespChnk, c.Resp.Trailers, cc.RespEOF), closeConn: hasToken(c.Resp.Conn, "close") || (cc.RespEOF && c.Resp.Status != 204 && c.Resp.Trailers == "none"), failFirst: c.Conf.Retry})

	// the client's raw request
	reqBody := bodyOf(cc.ReqBody, 7)
	var raw bytes.Buffer
	target := join(c.Req.Path)
	if c.Req.Query != "" {
		target += "?" + c.Req.Query
	}
	fmt.Fprintf(&raw, "%s %s HTTP/1.1\r\nHost: %s\r\nX-Case: %s\r\n", cc.Method, target, clientHost(st.port), id)
	if c.Probe != "no-user-agent" {
		raw.WriteString("User-Agent: verif-client\r\n")
	}
	if c.Probe != "no-accept-encoding" {
		raw.WriteString("Accept-Encoding: identity\r\n")
	}
	for _, l := range headerLines(c.Req.Hdr) {
		raw.WriteString(l + "\r\n")
	}
	for _, l := range connLines(c.Req.Conn, cc.LowerTok) {
		raw.WriteString(l + "\r\n")
	}
	for _, p := range c.Req.Xff {
		raw.WriteString("X-Forwarded-For: " + p + "\r\n")
	}
	switch {
	case cc.ReqChunk:
		raw.WriteString("Transfer-Encoding: chunked\r\n\r\n")
		for off := 0; off < len(reqBody); off += 30000 {
			end := off + 30000
			if end > len(reqBody) {
				end = len(reqBody)
			}
			fmt.Fprintf(&raw, "%x\r\n", end-off)
			raw.Write(reqBody[off:end])
			raw.WriteString("\r\n")
		}
		raw.WriteString("0\r\n\r\n")
	case cc.ReqBody > 0:
		fmt.Fprintf(&raw, "Content-Length: %d\r\n\r\n", len(reqBody))
		raw.Write(reqBody)
	default:
		raw.WriteString("\r\n")
	}
	rc := cs[st.addr]
	reused := rc != nil
	if rc == nil {
		if rc, err = hx.DialRaw(st.addr); err != nil {
			return nil, st, err
		}
	}
	o := &observation{}
	resp, err := rc.Do(cc.Method, raw.Bytes())
	if err != nil && reused {
		// the server may have closed the idle connection: once more on a new one
		rc.Close()
		delete(cs, st.addr)
		w.be.arm(id, &script{raw: rawResponse(c.Resp.Status, lines, respBody, cc.RespChnk, c.Resp.Trailers, cc.RespEOF), closeConn: hasToken(c.Resp.Conn, "close") || (cc.RespEOF && c.Resp.Status != 204 && c.Resp.Trailers == "none"), failFirst: c.Conf.Retry})
		if rc, err = hx.DialRaw(st.addr); err != nil {
			return nil, st, err
		}
		resp, err = rc.Do(cc.Method, raw.Bytes())
	}
	if err != nil || cs == nil || fresh || resp.Err != "" || strings.EqualFold(resp.Header.Get("Connection"), "close") {
		rc.Close()
		delete(cs, st.addr)
	} else {
		cs[st.addr] = rc
	}
	if err != nil {
		o.Err = err.Error()
	} else {
		o.Status, o.Header, o.body, o.BodyN = resp.Status, resp.Header, resp.Body, len(resp.Body)
		if resp.Err != "" {
			o.Err = resp.Err
		}
	}
	o.Backend = w.be.collect(id)
	return o, st, nil
}

type diff struct{ field, what string }

// headers of this hop itself, not relayed ones
var backendInfra = map[string]bool{"Content-Length": true, "X-Case": true}
var clientInfra = map[string]bool{"Date": true, "Content-Length": true, "Server": true, "Trailer": true}

func sameValues(a, b []string) bool {
	if len(a) != len(b) {
		return false
	}
	for i := range a {
		if a[i] != b[i] {
			return false
		}
	}
	return true
}

// compare evaluates the equalities of the statement on the observation.
func compare(c *rcase, o *observation, port int) []diff {
	var d []diff
	add := func(f, format string, a ...interface{}) { d = append(d, diff{f, fmt.Sprintf(format, a...)}) }
	cc := c.Conc
	if len(o.Backend) != c.Backend.Attempts {
		add("attempts", "the backend saw %d attempts, expected %d", len(o.Backend), c.Backend.Attempts)
	}
	wantPath := join(c.Backend.Path)
	wantTarget := wantPath
	if c.Backend.Query != "" {
		wantTarget += "?" + c.Backend.Query
	}
	wantHost := clientHost(port)
	if c.Backend.Host == "upstream" {
		wantHost = "" // the backend's own address
	}
	reqBody := bodyOf(cc.ReqBody, 7)
	for k, s := range o.Backend {
		at := fmt.Sprintf("attempt %d: ", k+1)
		if s.Method != cc.Method {
			add("method", at+"backend read method %s, client sent %s", s.Method, cc.Method)
		}
		if s.Target != wantTarget {
			if i := strings.IndexByte(s.Target, '?'); (i < 0 && s.Target != wantPath) || (i >= 0 && s.Target[:i] != wantPath) {
				add("path", at+"backend read target %q, expected %q (client sent %q, base %q, without %q)", s.Target, wantTarget, join(c.Req.Path), join(c.Conf.Base), join(c.Conf.Without))
			} else {
				add("query", at+"backend read target %q, expected %q", s.Target, wantTarget)
			}
		}
		if (wantHost != "" && s.Host != wantHost) || (wantHost == "" && s.Host == clientHost(port)) {
			add("host", at+"backend read Host %q (transparent=%v)", s.Host, c.Conf.Transparent)
		}
		if !bytes.Equal(s.Body, reqBody) || s.Err != "" {
			add("request-body", at+"backend read %d body bytes (%s), client sent %d", s.BodyN, s.Err, len(reqBody))
		}
		// headers: exactly the expected multiset
		want := map[string][]string{}
		for name, vs := range c.Backend.Hdr {
			for _, v := range vs {
				want[name] = append(want[name], val(v, port))
			}
		}
		var xff []string
		for _, v := range c.Backend.Xff {
			xff = append(xff, val(v, port))
		}
		want["X-Forwarded-For"] = []string{strings.Join(xff, ", ")}
		if c.Probe != "no-user-agent" {
			want["User-Agent"] = []string{"verif-client"}
		}
		if c.Probe != "no-accept-encoding" {
			want["Accept-Encoding"] = []string{"identity"}
		}
		for name, vs := range want {
			if got := s.Header[http.CanonicalHeaderKey(name)]; !sameValues(got, vs) {
				add("request-header/"+name, at+"backend read %s = %q, expected %q", name, got, vs)
			}
		}
		for name, vs := range s.Header {
			if _, ok := want[name]; !ok && !backendInfra[name] {
				add("request-header/"+name, at+"backend read %s = %q, which must not reach it", name, vs)
			}
		}
	}
	if o.Err != "" {
		add("client", "client could not read the response: %s", o.Err)
		return d
	}
	if o.Status != c.Client.Status {
		add("status", "client read status %d, backend sent %d", o.Status, c.Client.Status)
	}
	respBody := bodyOf(cc.RespBody, 3)
	if c.Resp.Status == 204 {
		respBody = nil
	}
	if !bytes.Equal(o.body, respBody) {
		add("response-body", "client read %d body bytes, backend sent %d", len(o.body), len(respBody))
	}
	want := map[string][]string{}
	for name, vs := range c.Client.Hdr {
		for _, v := range vs {
			want[name] = append(want[name], val(v, port))
		}
	}
	for name, vs := range want {
		if got := o.Header[http.CanonicalHeaderKey(name)]; !sameValues(got, vs) {
			add("response-header/"+name, "client read %s = %q, expected %q", name, got, vs)
		}
	}
	for name, vs := range o.Header {
		if strings.HasPrefix(name, "Trailer:") {
			continue
		}
		if name == "Connection" {
			if !(len(vs) == 1 && strings.EqualFold(vs[0], "close")) {
				add("response-header/Connection", "client read Connection = %q (the backend's connection options leaked)", vs)
			}
			continue
		}
		if _, ok := want[name]; !ok && !clientInfra[name] {
			add("response-header/"+name, "client read %s = %q, which must not reach it", name, vs)
		}
	}
	var tr []string
	for name, vs := range o.Header {
		if strings.HasPrefix(name, "Trailer:") {
			tr = append(tr, name[len("Trailer:"):]+"="+strings.Join(vs, "|"))
		}
	}
	sort.Strings(tr)
	wantTr := ""
	if c.Client.Trailers != "none" {
		wantTr = "X-Trail=tv"
	}
	if strings.Join(tr, ",") != wantTr {
		add("trailers", "client read trailers %q, backend sent %q (%s)", strings.Join(tr, ","), wantTr, c.Client.Trailers)
	}
	return d
}

// ---- keys ----

func hdrDesc(h hdrMap, conn [][]string, xff []string) string {
	var parts []string
	for _, k := range hx.SortedKeys(map[string][]string(h)) {
		parts = append(parts, fmt.Sprintf("%s=%s", k, strings.Join(h[k], "|")))
	}
	for _, l := range conn {
		parts = append(parts, "Connection="+strings.Join(l, "+"))
	}
	if len(xff) > 0 {
		parts = append(parts, "XFF="+strings.Join(xff, "|"))
	}
	return strings.Join(parts, ";")
}

func caseKey(c *rcase, field string) string {
	if c.Probe != "" {
		return "C04/transport-default/" + c.Probe + "/" + field
	}
	return fmt.Sprintf("C04/%s/conf[%s]/req[%s?%s %s]/resp[%d %s trailers=%s]", field, confKey(&c.Conf), join(c.Req.Path), c.Req.Query,
		hdrDesc(c.Req.Hdr, c.Req.Conn, c.Req.Xff), c.Resp.Status, hdrDesc(c.Resp.Hdr, c.Resp.Conn, nil), c.Resp.Trailers)
}

func nontrivial(c *rcase) string {
	return fmt.Sprintf("%s|%s|%s|%s|%d|%s|%s", confKey(&c.Conf), join(c.Req.Path), c.Req.Query, hdrDesc(c.Req.Hdr, c.Req.Conn, c.Req.Xff), c.Resp.Status, hdrDesc(c.Resp.Hdr, c.Resp.Conn, nil), c.Resp.Trailers)
}

// confirm re-runs the case against a fresh site; only a reproduced difference is reported.
func confirm(res *hx.Result, w *world, c *rcase, d diff) bool {
	o, st, err := w.run(c, true, nil)
	if err != nil {
		return false
	}
	for _, d2 := range compare(c, o, st.port) {
		if d2.field == d.field {
			cc := *c
			conc := *c.Conc
			conc.Field = d.field
			cc.Conc = &conc
			res.Add(hx.Mismatch{Key: caseKey(c, d.field), What: fmt.Sprintf("%s %s through `%s`: %s", c.Conc.Method, join(c.Req.Path), strings.ReplaceAll(strings.TrimSpace(proxyBlock(&c.Conf, "BACKEND")), "\n\t", "; "), d2.what),
				Case: cc, Expected: map[string]interface{}{"backend": c.Backend, "client": c.Client}, Observed: o})
			return true
		}
	}
	return false
}

// pickPlain finds the case with nothing special in it (no extra headers, no rules, plain 200).
func pickPlain(cases []rcase) *rcase {
	for i := range cases {
		c := &cases[i]
		if len(c.Req.Hdr) == 0 && len(c.Req.Conn) == 0 && len(c.Req.Xff) == 0 && len(c.Conf.Up) == 0 && len(c.Conf.Down) == 0 && !c.Conf.Retry &&
			!c.Conf.Transparent && len(c.Conf.Base) == 0 && c.Conf.Bq == "" && len(c.Conf.Without) == 0 && c.Resp.Status == 200 && c.Resp.Trailers == "none" && len(c.Resp.Hdr) == 1 && len(c.Resp.Conn) == 0 {
			return c
		}
	}
	return nil
}

func probes(base *rcase) []rcase {
	var out []rcase
	for _, p := range []string{"no-user-agent", "no-accept-encoding"} {
		c := *base
		c.Probe = p
		c.Conc = &concT{Method: "GET", RespBody: 1}
		out = append(out, c)
	}
	return out
}

func TestC04(t *testing.T) {
	hx.Quiet()
	res := hx.NewResult("TestC04", "one case = one abstract (request, upstream block, backend response) of ProxyRelay.tla (5 factored spaces: request headers x Connection shapes x X-Forwarded-For; "+
		"header_upstream rules x transparent x retry; path x base x without x queries x retry; response status x headers x trailers; header_downstream rules), "+
		"run through a real casket site between a raw client and a raw backend with seeded method, body sizes (0,1,32K-1,32K,32K+1,3 buffers) and framings; non-trivial = distinct abstract case")
	defer res.Write(t)
	be, err := newBackend()
	if err != nil {
		res.Infra = err.Error()
		return
	}
	w := &world{be: be, sites: map[string]*site{}}
	defer w.stop()

	if rp, ok := hx.LoadReplay[rcase](t); ok {
		res.Count("replay")
		if rp.Conc == nil {
			res.Infra = "replay file has no concretisation"
			return
		}
		o, st, err := w.run(&rp, true, nil)
		if err != nil {
			res.Infra = err.Error()
			return
		}
		for _, d := range compare(&rp, o, st.port) {
			if rp.Conc.Field == "" || d.field == rp.Conc.Field {
				confirm(res, w, &rp, d)
			}
		}
		return
	}

	cases := hx.LoadCases[rcase](t, "ProxyRelay")
	res.AddExtra("cases_from_tlc", len(cases))
	rounds := 1
	if hx.Thorough() {
		rounds = 5 // every case with five concretisations
	}
	var mu sync.Mutex
	var infra error
	selftestHit := 0
	fields := map[string]int{}
	tried := map[string]int{}
	triedShape := map[string]int{}
	jobs := make(chan int)
	var wg sync.WaitGroup
	for wk := 0; wk < 12; wk++ {
		wg.Add(1)
		wrnd := rand.New(rand.NewSource(hx.Seed()*104729 + int64(wk)))
		go func() {
			defer wg.Done()
			cs := conns{}
			defer cs.closeAll()
			for idx := range jobs {
				for round := 0; round < rounds; round++ {
					c := cases[idx]
					concretise(&c, wrnd)
					if hx.SelfTest() {
						// corrupt the expectation: the backend must see one more X-Forwarded-For entry
						c.Backend.Xff = append([]string{"bogus"}, c.Backend.Xff...)
					}
					o, st, err := w.run(&c, false, cs)
					if err != nil {
						mu.Lock()
						if infra == nil {
							infra = err
						}
						mu.Unlock()
						continue
					}
					res.Count(nontrivial(&c))
					ds := compare(&c, o, st.port)
					if hx.SelfTest() {
						mu.Lock()
						for _, d := range ds {
							if d.field == "request-header/X-Forwarded-For" {
								selftestHit++
							}
						}
						mu.Unlock()
						continue
					}
					seenField := map[string]bool{}
					for _, d := range ds {
						if seenField[d.field] {
							continue
						}
						seenField[d.field] = true
						mu.Lock()
						tried[d.field]++
						// a confirmation costs a fresh site; a few per compared field and Connection shape are plenty
						// (per shape, so that a known finding on one shape cannot use up the budget of another)
						shape := d.field + " req" + fmt.Sprint(c.Req.Conn) + " resp" + fmt.Sprint(c.Resp.Conn)
						triedShape[shape]++
						skip := triedShape[shape] > 2
						mu.Unlock()
						if skip {
							continue
						}
						if confirm(res, w, &c, d) {
							mu.Lock()
							fields[d.field]++
							mu.Unlock()
						}
					}
					if idx%5003 == 0 && round == 0 {
						res.Sample(map[string]interface{}{"case": c, "proxy_block": proxyBlock(&c.Conf, "BACKEND"), "backend_saw": o.Backend, "client_status": o.Status, "client_header": o.Header})
					}
				}
			}
		}()
	}
	for i := range cases {
		if hx.SelfTest() && i%50 != 0 {
			continue
		}
		jobs <- i
	}
	close(jobs)
	wg.Wait()
	// what net/http's Transport adds on its own when the client sent no User-Agent / Accept-Encoding
	if plain := pickPlain(cases); !hx.SelfTest() && plain != nil {
		for _, pc := range probes(plain) {
			c := pc
			o, st, err := w.run(&c, false, nil)
			if err != nil {
				infra = err
				continue
			}
			res.Count("probe/" + c.Probe)
			seenField := map[string]bool{}
			for _, d := range compare(&c, o, st.port) {
				if !seenField[d.field] {
					seenField[d.field] = true
					confirm(res, w, &c, d)
				}
			}
		}
	}
	res.AddExtra("confirmed_differences_by_field", fields)
	res.AddExtra("differences_by_field", tried)
	if infra != nil {
		res.Infra = infra.Error()
	}
	if hx.SelfTest() && selftestHit == 0 && res.Infra == "" {
		res.Infra = "selftest: corrupted X-Forwarded-For expectation was not noticed"
	}
	res.Replayed = res.Evaluations
}
