// C07 - reload under client load.  Real http instances on loopback; every configuration
// generation serves a file whose content names the generation.  Clients use fresh connections.
// Reload calls/returns, the callback gates and request start/end are recorded (sequence numbers
// under one mutex) and TLC validates the trace against ReloadTrace.tla, inferring the unlogged
// moments at which the new instance starts accepting and the old listeners close.
package c07

import (
	"fmt"
	"math/rand"
	"net"
	"os"
	"path/filepath"
	"strconv"
	"strings"
	"sync"
	"sync/atomic"
	"syscall"
	"testing"
	"time"

	"github.com/tmpim/casket"
	"github.com/tmpim/casket/caskethttp/httpserver"
	"verifharness/hx"
	"verifharness/probe"
)

type event struct {
	Ev      string   `json:"ev"`
	G       int      `json:"g,omitempty"`
	Kind    string   `json:"kind,omitempty"`
	Ports   []string `json:"ports,omitempty"`
	Res     string   `json:"res,omitempty"`
	ID      int      `json:"id,omitempty"`
	A       string   `json:"a,omitempty"`
	M       int      `json:"m"`
	Outcome string   `json:"outcome,omitempty"`
	Detail  string   `json:"detail,omitempty"`
	Key     string   `json:"key,omitempty"`
}

type world struct {
	t         *testing.T
	dir       string
	port      map[string]int    // "p1","p2" -> tcp port (where requests go)
	host      map[string]string // ... -> bind address
	cfgPort   map[string]int    // ... -> the port as written in the configuration (0: the system chooses)
	busy      net.Listener      // a port held by the harness (fail@listen)
	mu        sync.Mutex        // orders the trace
	events    []event
	nextID    int64
	p2lock    sync.RWMutex // held for reading by requests to p2, for writing across reloads that may drop p2
	p2stable  bool
	bad       []event
	viaImport bool        // the configuration text lives in an imported file, the main text is constant
	sigDone   chan string // signal-driven reloads: how the reload ended, told by the callback gates
}

func (w *world) emit(e event) {
	w.mu.Lock()
	w.events = append(w.events, e)
	if e.Ev == "reqEnd" && e.Outcome != "ok" {
		w.bad = append(w.bad, e)
	}
	w.mu.Unlock()
}

func content(gen int) string {
	return fmt.Sprintf("gen=%d;", gen) + strings.Repeat("x", 16<<10) + fmt.Sprintf(";end=%d", gen)
}

func (w *world) config(gen int, kind string, ports []string) casket.Input {
	root := filepath.Join(w.dir, "gen"+strconv.Itoa(gen))
	os.MkdirAll(root, 0o755)
	os.WriteFile(filepath.Join(root, "f.txt"), []byte(content(gen)), 0o644)
	var b strings.Builder
	for i, p := range ports {
		fmt.Fprintf(&b, "%s:%d {\n\tbind %s\n\troot %s\n\tverifprobe\n", w.host[p], w.cfgPort[p], w.host[p], root)
		if i == 0 {
			if kind == "failstartup" {
				fmt.Fprintf(&b, "\tverifgate %d failstartup\n", gen)
			} else {
				fmt.Fprintf(&b, "\tverifgate %d\n", gen)
			}
			if kind == "failsetup" {
				b.WriteString("\ttimeouts banana\n")
			}
		}
		b.WriteString("}\n")
	}
	if kind == "faillisten" {
		fmt.Fprintf(&b, "127.0.0.1:%d {\n\tbind 127.0.0.1\n\troot %s\n}\n", w.busy.Addr().(*net.TCPAddr).Port, root)
	}
	if kind == "failparse" {
		b.WriteString("127.0.0.1:1 {\n\troot /\n")
	}
	if w.viaImport {
		// the main Casketfile never changes: it imports a file that is rewritten for every
		// generation (a reload must pick up what the configuration refers to, not only its own text)
		os.WriteFile(filepath.Join(w.dir, "sites.conf"), []byte(b.String()), 0o644)
		return casket.CasketfileInput{Contents: []byte("import sites.conf\n"), Filepath: filepath.Join(w.dir, "Casketfile"), ServerTypeName: "http"}
	}
	return casket.CasketfileInput{Contents: []byte(b.String()), Filepath: "Casketfile", ServerTypeName: "http"}
}

// request performs one GET on a fresh connection and records start and end.
func (w *world) request(a string) { w.requestSlow(a, 0) }

// requestSlow: the handler sleeps ms milliseconds before it answers, so that the request is
// in flight on whichever instance accepted it while the reload goes on.
func (w *world) requestSlow(a string, ms int) {
	id := int(atomic.AddInt64(&w.nextID, 1))
	w.emit(event{Ev: "reqStart", ID: id, A: a})
	m, outcome, detail := w.get(a, ms)
	w.emit(event{Ev: "reqEnd", ID: id, A: a, M: m, Outcome: outcome, Detail: detail})
}

func (w *world) get(a string, ms int) (int, string, string) {
	addr := w.host[a] + ":" + strconv.Itoa(w.port[a])
	var hdr []string
	if ms > 0 {
		// every other slow request is served by a handler that watches the request context
		op := "sleep"
		if ms%2 == 0 {
			op = "sleepctx"
		}
		hdr = append(hdr, fmt.Sprintf("X-Probe: %s:%d;next", op, ms))
	}
	r, err := hx.OneShot(addr, "GET", "/f.txt", addr, hdr...)
	if err != nil {
		return 0, "error", err.Error()
	}
	if r.Err != "" {
		return 0, "incomplete", r.Err
	}
	if r.Status != 200 {
		return 0, "status", strconv.Itoa(r.Status)
	}
	body := string(r.Body)
	if !strings.HasPrefix(body, "gen=") {
		return 0, "garbled", body[:min(len(body), 40)]
	}
	g, err := strconv.Atoi(body[4:strings.IndexByte(body, ';')])
	if err != nil || body != content(g) {
		return 0, "garbled", fmt.Sprintf("len=%d", len(body))
	}
	return g, "ok", ""
}

var (
	sigOnce   sync.Once
	sigInput  atomic.Value // casket.Input the registered loader hands out
	sigLoaded bool
)

// reloadBySignal sends SIGUSR1 to this process and waits for the reload the signal handler runs.
func (w *world) reloadBySignal(old *casket.Instance, in casket.Input) (*casket.Instance, error) {
	sigInput.Store(in)
	select {
	case <-w.sigDone:
	default:
	}
	if err := syscall.Kill(os.Getpid(), syscall.SIGUSR1); err != nil {
		return old, err
	}
	select {
	case r := <-w.sigDone:
		if r == "err" {
			return old, fmt.Errorf("reload by SIGUSR1 failed")
		}
	case <-time.After(20 * time.Second):
		return old, fmt.Errorf("reload by SIGUSR1 did not finish")
	}
	// the handler replaces the instance right after the old one's shutdown callbacks
	for i := 0; i < 2000; i++ {
		if l := casket.Instances(); len(l) == 1 && l[0] != old {
			return l[0], nil
		}
		time.Sleep(100 * time.Microsecond)
	}
	return old, fmt.Errorf("instance list not updated after a reload by SIGUSR1")
}

var kinds = []string{"ok", "ok", "ok", "failparse", "failsetup", "failstartup", "faillisten"}

// scenario runs one world: nReloads reloads under nClients free-running clients.
// layout: "" = two ports on 127.0.0.1; "sameport" = p2 is p1's port on the bind address 127.0.0.2;
// "port0" = p1 is written with port 0 and lives wherever the system put it at the first start
func scenario(t *testing.T, rnd *rand.Rand, nReloads, nClients int, dropEvent bool, grace time.Duration, viaSignal bool, layout string) ([]event, []event, error) {
	// the grace period of the servers created from now on (-grace flag; 0 = do not wait for
	// in-flight requests, which must complete all the same)
	oldGrace := httpserver.GracefulTimeout
	httpserver.GracefulTimeout = grace
	defer func() { httpserver.GracefulTimeout = oldGrace }()
	w := &world{t: t, dir: t.TempDir(), port: map[string]int{"p1": hx.FreePort(), "p2": hx.FreePort()}, p2stable: true, sigDone: make(chan string, 1), viaImport: rnd.Intn(2) == 0}
	w.host = map[string]string{"p1": "127.0.0.1", "p2": "127.0.0.1"}
	switch layout {
	case "sameport":
		w.host["p2"], w.port["p2"] = "127.0.0.2", w.port["p1"]
	}
	w.cfgPort = map[string]int{"p1": w.port["p1"], "p2": w.port["p2"]}
	if layout == "port0" {
		w.cfgPort["p1"] = 0
	}
	var err error
	w.busy = hx.ListenFresh()
	defer w.busy.Close()
	// callback gates: inside the new instance's startup callback only the old configuration may
	// answer; inside the old instance's shutdown callback only the new one may
	probe.SetGate(func(point string, gen int) {
		if gen == 1 && point == "startup" {
			return // initial start, before the trace begins
		}
		switch point {
		case "restartfailed":
			select {
			case w.sigDone <- "err":
			default:
			}
		case "startup":
			w.request("p1")
			w.emit(event{Ev: "startupcb", G: gen}) // logged at exit: requests made inside precede it
		case "shutdown":
			w.emit(event{Ev: "shutdowncb", G: gen}) // logged at entry: requests made inside follow it
			w.request("p1")
			select {
			case w.sigDone <- "ok":
			default:
			}
		}
	})
	defer probe.SetGate(nil)
	first := w.config(1, "ok", []string{"p1", "p2"})
	if viaSignal {
		sigOnce.Do(func() {
			casket.RegisterCasketfileLoader("verifc07", casket.LoaderFunc(func(string) (casket.Input, error) {
				in, _ := sigInput.Load().(casket.Input)
				return in, nil
			}))
			casket.TrapSignals()
			time.Sleep(20 * time.Millisecond) // the handler goroutines install themselves asynchronously
		})
		sigInput.Store(first)
		loaded, lerr := casket.LoadCasketfile("http") // records which loader reloads will use
		if lerr != nil {
			return nil, nil, lerr
		}
		first = loaded
	}
	inst, err := casket.Start(first)
	if err != nil {
		return nil, nil, fmt.Errorf("initial start: %v", err)
	}
	if layout == "port0" {
		// where did the system put p1? (the listener that is not p2's)
		w.port["p1"] = 0
		for _, sl := range inst.Servers() {
			if ta, ok := sl.Addr().(*net.TCPAddr); ok && ta.Port != w.port["p2"] {
				w.port["p1"] = ta.Port
			}
		}
		if w.port["p1"] == 0 {
			inst.Stop()
			return nil, nil, fmt.Errorf("initial start: no listener found for the port-0 site")
		}
	}
	stop := make(chan struct{})
	var wg sync.WaitGroup
	for c := 0; c < nClients; c++ {
		wg.Add(1)
		crnd := rand.New(rand.NewSource(rnd.Int63()))
		go func() {
			defer wg.Done()
			for {
				select {
				case <-stop:
					return
				default:
				}
				if crnd.Intn(3) == 0 {
					w.p2lock.RLock()
					if w.p2stable {
						w.request("p2")
					}
					w.p2lock.RUnlock()
				} else if crnd.Intn(4) == 0 {
					w.requestSlow("p1", 3+crnd.Intn(25))
				} else {
					w.request("p1")
				}
				if crnd.Intn(4) == 0 {
					time.Sleep(time.Duration(crnd.Intn(300)) * time.Microsecond)
				}
			}
		}()
	}
	cur, nre := 1, 0
	for i := 0; i < nReloads; i++ {
		kind := kinds[rnd.Intn(len(kinds))]
		ports := []string{"p1", "p2"}
		if rnd.Intn(3) == 0 {
			ports = []string{"p1"}
		}
		hasP2 := len(ports) == 2
		gen := cur + 1 + nre
		nre++
		locked := false
		if !hasP2 {
			w.p2lock.Lock() // no request to p2 in flight or starting while p2 may go away
			locked = true
		}
		was := w.p2stable
		if locked {
			w.p2stable = false
		}
		w.emit(event{Ev: "call", G: gen, Kind: kind, Ports: ports})
		var ni *casket.Instance
		var rerr error
		if viaSignal {
			// the production path: SIGUSR1 -> registered loader -> Restart inside the signal handler;
			// the callback gates tell how it ended
			ni, rerr = w.reloadBySignal(inst, w.config(gen, kind, ports))
		} else {
			ni, rerr = inst.Restart(w.config(gen, kind, ports))
		}
		res := "ok"
		if rerr != nil {
			res = "err"
		}
		w.emit(event{Ev: "ret", Res: res})
		if (rerr == nil) != (kind == "ok") {
			// not what the configuration kind calls for: reported, and the trace (which carries the
			// real result) will be rejected by the specification as well
			w.mu.Lock()
			w.bad = append(w.bad, event{Ev: "reload", Outcome: "reload-result", Detail: fmt.Sprintf("reload with a configuration of kind %q returned %v", kind, rerr)})
			w.mu.Unlock()
		}
		if rerr == nil {
			inst = ni
			cur = gen
			if locked {
				w.p2lock.Unlock()
			} else {
				w.p2lock.Lock()
				w.p2stable = true
				w.p2lock.Unlock()
			}
		} else {
			if locked {
				w.p2stable = was
				w.p2lock.Unlock()
			}
		}
		// a request started after the return
		w.request("p1")
		time.Sleep(time.Duration(rnd.Intn(2000)) * time.Microsecond)
	}
	close(stop)
	wg.Wait()
	probe.SetGate(nil) // the trace ends here: the final stop is not part of it
	inst.Stop()
	inst.ShutdownCallbacks()
	w.mu.Lock()
	ev := w.events
	bad := w.bad
	w.mu.Unlock()
	if dropEvent {
		// selftest: pretend a request that started after a successful return was answered by the old generation
		for i := len(ev) - 1; i >= 0; i-- {
			if ev[i].Ev == "reqEnd" && ev[i].M > 1 {
				ev[i].M = 1
				break
			}
		}
	}
	return ev, bad, nil
}

func TestC07(t *testing.T) {
	hx.Quiet()
	res := hx.NewResult("TestC07", "one case = one scenario: a real http instance reloaded nReloads times (kinds ok / fail@parse / fail@setup / fail@startup-callback / fail@listen, port sets {p1} or {p1,p2}, seeded) under free-running clients on fresh connections plus requests issued inside the callback gates; non-trivial = scenario with at least one successful and one failed reload")
	defer res.Write(t)
	rnd := hx.Rand()
	nScen, nReloads, nClients := 6, 12, 8
	if hx.Thorough() {
		nScen, nReloads, nClients = 40, 25, 12
	}
	tw := hx.NewTrace(t, "reload.ndjson")
	total := 0
	for s := 0; s < nScen; s++ {
		grace := []time.Duration{5 * time.Second, 0, 30 * time.Millisecond}[s%3]
		viaSignal := (s/3)%2 == 1 // every other group of three scenarios reloads through SIGUSR1 and the registered loader
		// every fifth scenario has the second site on the first one's port (another bind address),
		// every fifth (offset) a first site written with port 0
		layout := map[int]string{3: "sameport", 4: "port0"}[s%5]
		ev, bad, err := scenario(t, rnd, nReloads, nClients, hx.SelfTest() && s == 0, grace, viaSignal, layout)
		if err != nil {
			res.Infra = err.Error()
			break
		}
		key := fmt.Sprintf("scenario-%d", s)
		okN, errN, reqN := 0, 0, 0
		for _, e := range ev {
			tw.Emit(e)
			switch {
			case e.Ev == "ret" && e.Res == "ok":
				okN++
			case e.Ev == "ret":
				errN++
			case e.Ev == "reqEnd":
				reqN++
			}
		}
		tw.Emit(event{Ev: "reset", Key: key})
		total++
		// a request that did not get a complete, correct response is a violation by itself
		for _, b := range bad {
			res.Add(hx.Mismatch{Key: "C07/failed/" + b.Outcome, What: fmt.Sprintf("request %d to %s during reloads: %s %s", b.ID, b.A, b.Outcome, b.Detail), Case: map[string]interface{}{"scenario": s, "seed": hx.Seed()}, Observed: b})
		}
		nt := ""
		if okN > 0 && errN > 0 {
			nt = key
		}
		res.Count(nt)
		res.Sample(map[string]interface{}{"scenario": s, "grace": grace.String(), "via_sigusr1": viaSignal, "reloads_ok": okN, "reloads_failed": errN, "requests": reqN, "first_events": ev[:min(len(ev), 12)]})
		res.AddExtra(key, map[string]int{"reloads_ok": okN, "reloads_failed": errN, "requests": reqN})
	}
	tw.Close()
	res.Traces = append(res.Traces, hx.TraceFile{Spec: "reload", File: tw.Path, Count: total, Key: "reload"})
	res.Replayed = total
}
