// C18 - compression never changes what the client decodes.
//
// Every case of specs/Gzip.tla (gzip block x request x inner response, the inner response
// produced by the scripted verifprobe handler or by the real static file server with a set of
// precompressed siblings) is executed twice against a real casket instance: on a site with the
// gzip block and on the same site without it, with a raw HTTP/1.1 client (nothing is decoded
// transparently). The verdict is the declarative property of the statement evaluated on the pair
// of wire responses; a difference from the operational model of Gzip.tla that still satisfies it
// (compressing more or less often than the model predicts) is only counted as model drift.
package c18

import (
	"bytes"
	"compress/gzip"
	"fmt"
	"io"
	"math/rand"
	"os"
	"path/filepath"
	"sort"
	"strconv"
	"strings"
	"sync"
	"testing"

	"verifharness/hx"
	_ "verifharness/probe"
)

// ---------------------------------------------------------------- case types (as emitted by Gzip.tla)

type gcfg struct {
	Ext    string `json:"ext"`    // default | txt | star
	Not    bool   `json:"not"`    // `not /x`
	Level  int    `json:"level"`  // 0 = not given
	MinLen int    `json:"minlen"` // 0 = not given
}

type inner struct {
	Kind     string   `json:"kind"` // probe | static
	Status   int      `json:"status"`
	Explicit bool     `json:"explicit"` // WriteHeader called explicitly before the first op
	CT       bool     `json:"ct"`
	CL       bool     `json:"cl"`
	Pre      string   `json:"pre"`              // Content-Encoding the handler sets itself: none|gzip|br|zstd|deflate|identity
	ETag     string   `json:"etag"`             // none|strong|weak
	Ops      []string `json:"ops"`              // wS (5 bytes) wL (100 bytes) wX (70000 bytes) w0 f
	Sibs     []string `json:"sibs"`             // static: which of gz br zst exist next to the file
	Hidden   bool     `json:"hidden,omitempty"` // static: the file is on the site's hide list (it is the site's Casketfile)
}

type model struct {
	Engaged  bool `json:"engaged"`
	Compress bool `json:"compress"`
}

type gcase struct {
	Cfg    gcfg   `json:"cfg"`
	Path   string `json:"path"`
	AE     string `json:"ae"` // literal Accept-Encoding value, "absent" = no header
	Method string `json:"method,omitempty"`
	Inner  inner  `json:"inner"`
	Model  model  `json:"model"`
	// Overlap: not a case of the model but the overlapping-responses scenario (overlap_test.go)
	Overlap bool `json:"overlap,omitempty"`
}

func (c gcfg) String() string {
	return fmt.Sprintf("ext=%s,not=%v,level=%d,min_length=%d", c.Ext, c.Not, c.Level, c.MinLen)
}

func (in inner) String() string {
	if in.Kind == "static" && in.Hidden {
		return "hidden-static[" + strings.Join(in.Sibs, "+") + "]"
	}
	if in.Kind == "static" {
		return "static[" + strings.Join(in.Sibs, "+") + "]"
	}
	s := fmt.Sprintf("%d", in.Status)
	if in.Explicit {
		s += "!"
	}
	if in.CT {
		s += ",ct"
	}
	if in.CL {
		s += ",cl"
	}
	if in.Pre != "none" {
		s += ",ce=" + in.Pre
	}
	if in.ETag != "none" {
		s += ",etag=" + in.ETag
	}
	return s + "," + strings.Join(in.Ops, ".")
}

func caseKey(c *gcase, clause string) string {
	m := c.Method
	if m == "" {
		m = "GET"
	}
	return fmt.Sprintf("C18/%s/gzip{%s}/%s %s/ae=%s/inner=%s", clause, c.Cfg, m, c.Path, c.AE, c.Inner)
}

// ---------------------------------------------------------------- fixture

const fileContent = "The quick brown fox jumps over the lazy dog. The quick brown fox jumps over the lazy dog. " +
	"The quick brown fox jumps over the lazy dog. The quick brown fox jumps over the lazy dog. 0123456789 0123456789 0123456789\n"

var sibNames = []string{"gz", "br", "zst"}

func sibMask(sibs []string) int {
	m := 0
	for _, s := range sibs {
		for i, n := range sibNames {
			if s == n {
				m |= 1 << i
			}
		}
	}
	return m
}

func gz(b []byte) []byte {
	var buf bytes.Buffer
	w := gzip.NewWriter(&buf)
	w.Write(b)
	w.Close()
	return buf.Bytes()
}

// makeRoot creates s0.txt .. s7.txt with every subset of precompressed siblings. The .gz sibling is a
// real gzip stream of the file; .br/.zst are opaque tokens (nothing here decodes them: a response
// that is already encoded must simply come through unchanged).
func makeRoot(dir string) error {
	for m := 0; m < 8; m++ {
		base := filepath.Join(dir, fmt.Sprintf("s%d.txt", m))
		if err := os.WriteFile(base, []byte(fileContent), 0o644); err != nil {
			return err
		}
		if m&1 != 0 {
			os.WriteFile(base+".gz", gz([]byte(fileContent)), 0o644)
		}
		if m&2 != 0 {
			os.WriteFile(base+".br", []byte("BROTLI-STREAM-OF:"+fileContent), 0o644)
		}
		if m&4 != 0 {
			os.WriteFile(base+".zst", []byte("ZSTD-STREAM-OF:"+fileContent), 0o644)
		}
	}
	// hid.txt is handed to casket as the path of the Casketfile: it is on every site's hide list
	base := filepath.Join(dir, "hid.txt")
	os.WriteFile(base, []byte(fileContent), 0o644)
	os.WriteFile(base+".gz", gz([]byte(fileContent)), 0o644)
	os.WriteFile(base+".br", []byte("BROTLI-STREAM-OF:"+fileContent), 0o644)
	os.WriteFile(base+".zst", []byte("ZSTD-STREAM-OF:"+fileContent), 0o644)
	return nil
}

func gzipBlock(c gcfg) string {
	var lines []string
	switch c.Ext {
	case "txt":
		lines = append(lines, "\t\text .txt")
	case "star":
		lines = append(lines, "\t\text *")
	}
	if c.Not {
		lines = append(lines, "\t\tnot /x")
	}
	if c.Level != 0 {
		lines = append(lines, "\t\tlevel "+strconv.Itoa(c.Level))
	}
	if c.MinLen != 0 {
		lines = append(lines, "\t\tmin_length "+strconv.Itoa(c.MinLen))
	}
	if len(lines) == 0 {
		return "\tgzip\n"
	}
	return "\tgzip {\n" + strings.Join(lines, "\n") + "\n\t}\n"
}

func casketfile(c gcfg, root string, p1, p2 int) string {
	return fmt.Sprintf("c18.test:%d {\n\tbind 127.0.0.1\n\ttls off\n\troot %s\n%s\tverifprobe\n}\nc18.test:%d {\n\tbind 127.0.0.1\n\ttls off\n\troot %s\n\tverifprobe\n}\n",
		p1, root, gzipBlock(c), p2, root)
}

type fixture struct {
	site   *hx.Site
	p1, p2 int
	c1, c2 *hx.RawConn
}

func startFixture(c gcfg, root string) (*fixture, error) {
	var err error
	for try := 0; try < 4; try++ {
		f := &fixture{p1: hx.StablePort(), p2: hx.StablePort()}
		f.site, err = hx.StartHTTP(casketfile(c, root, f.p1, f.p2), filepath.Join(root, "hid.txt"))
		if err == nil {
			return f, nil
		}
		if !strings.Contains(err.Error(), "address already in use") {
			break
		}
	}
	return nil, fmt.Errorf("start failed: %v\n%s", err, casketfile(c, root, 1, 2))
}

func (f *fixture) stop() {
	if f.c1 != nil {
		f.c1.Close()
	}
	if f.c2 != nil {
		f.c2.Close()
	}
	f.site.Stop()
}

// ---------------------------------------------------------------- one execution

const sizeS, sizeL, sizeX = 5, 100, 70000

func opBytes(op string) int {
	switch op {
	case "wS":
		return sizeS
	case "wL":
		return sizeL
	case "wX":
		return sizeX
	}
	return 0
}

func bodyless(method string, status int) bool {
	return method == "HEAD" || status == 204 || status == 304 || status < 200
}

func probeScript(in inner) string {
	var ops []string
	total := 0
	for _, o := range in.Ops {
		total += opBytes(o)
	}
	if len(in.Ops) > 0 && in.Ops[0] == "i" {
		// Early Hints go out before the handler has prepared its response headers
		ops = append(ops, "status:103")
	}
	if in.CT {
		ops = append(ops, "hdr:Content-Type=text/plain")
	}
	if in.CL {
		ops = append(ops, "hdr:Content-Length="+strconv.Itoa(total))
	}
	if in.Pre != "none" {
		ops = append(ops, "hdr:Content-Encoding="+in.Pre)
	}
	switch in.ETag {
	case "strong":
		ops = append(ops, `hdr:ETag="v1"`)
	case "weak":
		ops = append(ops, `hdr:ETag=W/"v1"`)
	}
	if in.Explicit {
		ops = append(ops, "status:"+strconv.Itoa(in.Status))
	}
	for _, o := range in.Ops {
		switch o {
		case "wS":
			ops = append(ops, "write:"+strconv.Itoa(sizeS))
		case "wL":
			ops = append(ops, "write:"+strconv.Itoa(sizeL))
		case "wX":
			ops = append(ops, "write:"+strconv.Itoa(sizeX))
		case "w0":
			ops = append(ops, "write:0")
		case "f":
			ops = append(ops, "flush")
		case "h":
			ops = append(ops, "status:"+strconv.Itoa(in.Status))
		}
	}
	if len(ops) == 0 {
		return "nop" // an empty X-Probe would hand the request to the file server
	}
	return strings.Join(ops, ";")
}

type obs struct {
	Status int      `json:"status"`
	CE     []string `json:"content_encoding"`
	CL     string   `json:"content_length"`
	TE     string   `json:"transfer_encoding,omitempty"`
	ETag   string   `json:"etag,omitempty"`
	Vary   string   `json:"vary,omitempty"`
	CT     string   `json:"content_type,omitempty"`
	Len    int      `json:"body_len"`
	Head   string   `json:"body_head,omitempty"`
	Err    string   `json:"err,omitempty"`
	body   []byte
}

// codings returns the content codings named by the header values, lower case, "identity" dropped.
func codings(vals []string) []string {
	out := []string{}
	for _, v := range vals {
		for _, t := range strings.Split(v, ",") {
			t = strings.ToLower(strings.TrimSpace(t))
			if t != "" && t != "identity" {
				out = append(out, t)
			}
		}
	}
	return out
}

func (f *fixture) ask(gzipSite bool, c *gcase) obs {
	connp, port := &f.c2, f.p2
	if gzipSite {
		connp, port = &f.c1, f.p1
	}
	method := c.Method
	if method == "" {
		method = "GET"
	}
	var hdr []string
	if c.AE != "absent" {
		hdr = append(hdr, "Accept-Encoding: "+c.AE)
	}
	path := c.Path
	if c.Inner.Kind == "static" && c.Inner.Hidden {
		path = "/hid.txt"
	} else if c.Inner.Kind == "static" {
		path = fmt.Sprintf("/s%d.txt", sibMask(c.Inner.Sibs))
	} else {
		hdr = append(hdr, "X-Probe: "+probeScript(c.Inner))
	}
	var last obs
	for try := 0; try < 2; try++ {
		if *connp == nil {
			rc, err := hx.DialRaw("127.0.0.1:" + strconv.Itoa(port))
			if err != nil {
				return obs{Err: "dial: " + err.Error()}
			}
			*connp = rc
		}
		r, err := (*connp).Get(method, path, "c18.test", hdr...)
		if err != nil {
			(*connp).Close()
			*connp = nil
			last = obs{Err: err.Error()}
			continue // a keep-alive connection may have been closed by the server: once more, fresh
		}
		o := obs{Status: r.Status, CE: codings(r.Header.Values("Content-Encoding")), CL: r.Header.Get("Content-Length"),
			ETag: r.Header.Get("Etag"), Vary: strings.Join(r.Header.Values("Vary"), ","), CT: r.Header.Get("Content-Type"),
			Len: len(r.Body), body: r.Body, Err: r.Err}
		if len(r.Body) > 0 {
			n := len(r.Body)
			if n > 24 {
				n = 24
			}
			o.Head = fmt.Sprintf("%q", r.Body[:n])
		}
		if r.Err != "" || strings.EqualFold(r.Header.Get("Connection"), "close") {
			(*connp).Close()
			*connp = nil
		}
		return o
	}
	return last
}

// gunzipExact decodes b as exactly one gzip member with no trailing bytes.
func gunzipExact(b []byte) ([]byte, error) {
	br := bytes.NewReader(b)
	zr, err := gzip.NewReader(br)
	if err != nil {
		return nil, err
	}
	zr.Multistream(false)
	out, err := io.ReadAll(zr)
	if err != nil {
		return nil, err
	}
	if br.Len() != 0 {
		return out, fmt.Errorf("%d bytes after the gzip stream", br.Len())
	}
	return out, nil
}

func sameList(a, b []string) bool {
	if len(a) != len(b) {
		return false
	}
	for i := range a {
		if a[i] != b[i] {
			return false
		}
	}
	return true
}

// offers: does the Accept-Encoding value offer the coding? An element naming the coding (or its
// alias x-gzip) decides - offered iff its q-value is > 0; only when no element names it does a
// "*" element with q > 0 offer it. (An absent header offers nothing here: casket only picks a
// coding the client named.)
func offers(ae, coding string) bool {
	if ae == "absent" {
		return false
	}
	named, namedOK, star := false, false, false
	for _, el := range strings.Split(ae, ",") {
		parts := strings.Split(el, ";")
		name := strings.ToLower(strings.TrimSpace(parts[0]))
		q := 1.0
		for _, p := range parts[1:] {
			p = strings.TrimSpace(p)
			if strings.HasPrefix(strings.ToLower(p), "q=") {
				if v, err := strconv.ParseFloat(p[2:], 64); err == nil {
					q = v
				}
			}
		}
		switch {
		case name == coding || (coding == "gzip" && name == "x-gzip"):
			named = true
			if q > 0 {
				namedOK = true
			}
		case name == "*" && q > 0:
			star = true
		}
	}
	if named {
		return namedOK
	}
	return star
}

func offersGzip(ae string) bool { return offers(ae, "gzip") }

// judge evaluates the statement on the pair (plain site, gzip site). Returns violated clauses
// and whether the gzip site really added a gzip coding.
func judge(c *gcase, o0, o1 obs) (bad []string, compressed bool) {
	method := c.Method
	if method == "" {
		method = "GET"
	}
	if o0.Err != "" && c.Inner.Kind == "static" {
		// the response of the static file server is casket's own: broken framing is a verdict
		if o0.CL != "" {
			return []string{"CLAbsentOrCorrect"}, false
		}
		return []string{"CENamesAppliedCodings"}, false
	}
	if o0.Err != "" {
		return nil, false // the scripted response without compression is itself broken: nothing to compare with
	}
	add := func(s string) {
		for _, b := range bad {
			if b == s {
				return
			}
		}
		bad = append(bad, s)
	}
	if o1.Err != "" {
		if o1.CL != "" {
			add("CLAbsentOrCorrect")
		} else {
			add("DecodedEqualsIdentity")
		}
		return bad, false
	}
	nobody := bodyless(method, o1.Status) && bodyless(method, o0.Status)
	compressed = !sameList(o0.CE, o1.CE) && len(o1.CE) > 0 && o1.CE[len(o1.CE)-1] == "gzip"
	if !offersGzip(c.AE) && !sameList(o0.CE, o1.CE) {
		add("IdentityIfNotOffered")
	}
	if c.Inner.Kind == "static" {
		// the coding of a static response is casket's own choice (a precompressed sibling): it
		// must be one the client offered, with or without the gzip block
		for _, o := range []obs{o0, o1} {
			for _, ce := range o.CE {
				if ce != "identity" && !offers(c.AE, ce) {
					add("IdentityIfNotOffered")
				}
			}
		}
	}
	switch {
	case len(o0.CE) > 0:
		// already encoded without the gzip block: must come through as it is
		if !sameList(o0.CE, o1.CE) {
			add("NoDoubleEncoding")
		}
		if !bytes.Equal(o0.body, o1.body) {
			if sameList(o0.CE, o1.CE) {
				add("DecodedEqualsIdentity")
			} else {
				add("NoDoubleEncoding")
			}
		}
	case len(o1.CE) == 0:
		if !bytes.Equal(o0.body, o1.body) {
			if dec, err := gunzipExact(o1.body); err == nil && bytes.Equal(dec, o0.body) {
				add("CENamesAppliedCodings") // gzip applied but not named
			} else {
				add("DecodedEqualsIdentity")
			}
		}
	case sameList(o1.CE, []string{"gzip"}):
		if !nobody {
			dec, err := gunzipExact(o1.body)
			switch {
			case err != nil && bytes.Equal(o1.body, o0.body):
				add("CENamesAppliedCodings") // gzip named but not applied
			case err != nil:
				add("DecodedEqualsIdentity")
			case !bytes.Equal(dec, o0.body):
				add("DecodedEqualsIdentity")
			}
		}
	default:
		add("CENamesAppliedCodings")
	}
	if o1.CL != "" && !bodyless(method, o1.Status) {
		if n, err := strconv.Atoi(o1.CL); err != nil || n != len(o1.body) {
			add("CLAbsentOrCorrect")
		}
	}
	return bad, compressed
}

// ---------------------------------------------------------------- driver

type result struct {
	bad        []string
	o0, o1     obs
	compressed bool
	err        error
}

func runCase(f *fixture, c *gcase) result {
	o0 := f.ask(false, c)
	o1 := f.ask(true, c)
	if strings.HasPrefix(o0.Err, "dial:") || strings.HasPrefix(o1.Err, "dial:") {
		return result{err: fmt.Errorf("%s %s", o0.Err, o1.Err)}
	}
	bad, comp := judge(c, o0, o1)
	return result{bad: bad, o0: o0, o1: o1, compressed: comp}
}

func describe(c *gcase, r result) string {
	m := c.Method
	if m == "" {
		m = "GET"
	}
	return fmt.Sprintf("gzip {%s}; %s %s, Accept-Encoding: %s, inner response %s: violated %v; without gzip: status %d Content-Encoding %v Content-Length %q body %d bytes %s; with gzip: status %d Content-Encoding %v Content-Length %q body %d bytes %s %s",
		c.Cfg, m, c.Path, c.AE, c.Inner, r.bad, r.o0.Status, r.o0.CE, r.o0.CL, r.o0.Len, r.o0.Head, r.o1.Status, r.o1.CE, r.o1.CL, r.o1.Len, r.o1.Head, r.o1.Err)
}

func confirm(res *hx.Result, root string, c *gcase) {
	f, err := startFixture(c.Cfg, root)
	if err != nil {
		return
	}
	defer f.stop()
	r := runCase(f, c)
	if r.err != nil || len(r.bad) == 0 {
		return
	}
	res.Add(hx.Mismatch{Key: caseKey(c, r.bad[0]), What: describe(c, r), Case: c,
		Expected: "decoded body, Content-Encoding and Content-Length as without the gzip block (gzip only when offered, never on top of another coding)",
		Observed: map[string]interface{}{"without_gzip": r.o0, "with_gzip": r.o1}})
}

func TestC18(t *testing.T) {
	hx.Quiet()
	res := hx.NewResult("TestC18", "one case = gzip block (ext, not, level, min_length) x request (path/extension, Accept-Encoding, GET/HEAD) x inner response (status, Content-Type, Content-Length, pre-existing Content-Encoding, ETag, explicit/implicit WriteHeader, sequence of writes/empty writes/flushes; or a static file with a subset of .gz/.br/.zst siblings) from Gzip.tla, executed on a real site with and without the gzip block with a raw client; non-trivial = the gzip middleware is engaged by the request filters of the model")
	defer res.Write(t)

	root := filepath.Join(hx.Scratch(t), "c18root")
	if err := os.MkdirAll(root, 0o755); err != nil {
		res.Infra = err.Error()
		return
	}
	if err := makeRoot(root); err != nil {
		res.Infra = err.Error()
		return
	}
	if rc, ok := hx.LoadReplay[gcase](t); ok {
		res.Count("replay")
		if rc.Overlap {
			overlapPhase(res, root)
			return
		}
		confirm(res, root, &rc)
		return
	}

	// first of all (one site, three connections): responses that overlap in time; what this finds
	// tends to bring the whole process down once ten sites are busy
	if !hx.SelfTest() {
		before := res.MismatchCount()
		overlapPhase(res, root)
		if res.Infra != "" || res.MismatchCount() > before {
			return
		}
	}
	cases := hx.LoadCases[gcase](t, "Gzip")
	rnd := hx.Rand()
	limit := 100000
	if hx.Thorough() {
		limit = 400000
	}
	// all static cases, a seeded sample of the probe cases
	var todo []int
	var probes []int
	for i := range cases {
		if cases[i].Inner.Kind == "static" {
			todo = append(todo, i)
		} else {
			probes = append(probes, i)
		}
	}
	for _, k := range hx.SampleIdx(rnd, len(probes), limit) {
		todo = append(todo, probes[k])
	}
	res.AddExtra("cases_from_tlc", len(cases))
	res.AddExtra("cases_replayed", len(todo))
	// group by gzip block: one instance per block
	groups := map[gcfg][]int{}
	for _, i := range todo {
		groups[cases[i].Cfg] = append(groups[cases[i].Cfg], i)
	}
	var cfgs []gcfg
	for c := range groups {
		cfgs = append(cfgs, c)
	}
	sort.Slice(cfgs, func(a, b int) bool { return cfgs[a].String() < cfgs[b].String() })

	var mu sync.Mutex
	var infra error
	compressed, drift, selfHit := 0, 0, false
	var driftEx []string
	type job struct {
		cfg gcfg
		idx []int
	}
	jobs := make(chan job)
	var wg sync.WaitGroup
	for w := 0; w < 10; w++ {
		wg.Add(1)
		wrnd := rand.New(rand.NewSource(hx.Seed()*31337 + int64(w)))
		go func() {
			defer wg.Done()
			for j := range jobs {
				f, err := startFixture(j.cfg, root)
				if err != nil {
					mu.Lock()
					if infra == nil {
						infra = err
					}
					mu.Unlock()
					continue
				}
				for _, i := range j.idx {
					c := cases[i]
					if wrnd.Intn(8) == 0 {
						c.Method = "HEAD"
					}
					r := runCase(f, &c)
					if r.err != nil {
						mu.Lock()
						if infra == nil {
							infra = r.err
						}
						mu.Unlock()
						continue
					}
					if hx.SelfTest() && r.compressed && len(r.o1.body) > 12 {
						// corrupt the observation the way a wrong coding would: the judge must notice
						r.o1.body = append([]byte(nil), r.o1.body...)
						r.o1.body[len(r.o1.body)-6] ^= 0x55
						bad, _ := judge(&c, r.o0, r.o1)
						if len(bad) > 0 {
							mu.Lock()
							selfHit = true
							mu.Unlock()
						}
						continue
					}
					nt := ""
					if c.Model.Engaged {
						nt = caseKey(&c, "")
					}
					res.Count(nt)
					mu.Lock()
					if r.compressed {
						compressed++
					}
					if r.compressed != c.Model.Compress && c.Method != "HEAD" {
						drift++
						if len(driftEx) < 5 {
							driftEx = append(driftEx, fmt.Sprintf("%s: model compress=%v observed=%v", caseKey(&c, "drift"), c.Model.Compress, r.compressed))
						}
					}
					mu.Unlock()
					if i%1777 == 0 {
						res.Sample(map[string]interface{}{"case": c, "without_gzip": r.o0, "with_gzip": r.o1})
					}
					if len(r.bad) > 0 && !hx.SelfTest() {
						confirm(res, root, &c)
					}
				}
				f.stop()
			}
		}()
	}
	for _, c := range cfgs {
		idx := groups[c]
		for len(idx) > 0 { // split big groups so that the workers share them
			n := len(idx)
			if n > 1500 {
				n = 1500
			}
			jobs <- job{c, idx[:n]}
			idx = idx[n:]
		}
	}
	close(jobs)
	wg.Wait()
	res.AddExtra("responses_really_compressed", compressed)
	res.AddExtra("model_drift", drift)
	if len(driftEx) > 0 {
		res.AddExtra("model_drift_examples", driftEx)
	}
	if infra != nil {
		res.Infra = infra.Error()
	} else if !hx.SelfTest() && compressed == 0 {
		res.Infra = "vacuous: the gzip site never compressed anything"
	}
	if hx.SelfTest() && !selfHit {
		res.Infra = "selftest: a corrupted compressed body was not noticed"
	}
	res.Replayed = res.Evaluations
}
