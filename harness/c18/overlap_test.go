package c18

import (
	"bytes"
	"fmt"
	"strconv"
	"sync"
	"time"

	"verifharness/hx"
	"verifharness/probe"
)

// overlapPhase: requests through one gzip site that overlap in time. The statement speaks of every
// response on its own, whatever the server is doing for other clients: a compressed response that
// completes, then a slow compressed response (written in two halves with a pause) overlapped by a
// fast one on another connection - each must decode to exactly what its handler wrote.
func overlapPhase(res *hx.Result, root string) {
	f, err := startFixture(gcfg{Ext: "default"}, root)
	if err != nil {
		res.Infra = err.Error()
		return
	}
	defer f.stop()
	addr := "127.0.0.1:" + strconv.Itoa(f.p1)
	ask := func(rc *hx.RawConn, script string) ([]byte, string) {
		r, err := rc.Get("GET", "/a.txt", "c18.test", "Accept-Encoding: gzip", "X-Probe: hdr:Content-Type=text/plain;"+script)
		if err != nil {
			return nil, "request failed: " + err.Error()
		}
		if r.Err != "" {
			return nil, "body: " + r.Err
		}
		if r.Header.Get("Content-Encoding") != "gzip" {
			return r.Body, ""
		}
		dec, err := gunzipExact(r.Body)
		if err != nil {
			return nil, "Content-Encoding: gzip but the body does not decode: " + err.Error()
		}
		return dec, ""
	}
	rounds := 12
	if hx.Thorough() {
		rounds = 60
	}
	for it := 0; it < rounds; it++ {
		a, b, c := 3000+it, 2000+7*it, 5000+3*it
		conns := make([]*hx.RawConn, 3)
		for i := range conns {
			rc, err := hx.DialRaw(addr)
			if err != nil {
				res.Infra = err.Error()
				return
			}
			defer rc.Close()
			conns[i] = rc
		}
		type out struct {
			body []byte
			bad  string
		}
		var oa, ob, oc out
		oa.body, oa.bad = ask(conns[0], "write:"+strconv.Itoa(a))
		var wg sync.WaitGroup
		wg.Add(1)
		go func() {
			defer wg.Done()
			ob.body, ob.bad = ask(conns[1], fmt.Sprintf("write:%d;flush;sleep:40;write:%d", b, b))
		}()
		time.Sleep(15 * time.Millisecond)
		oc.body, oc.bad = ask(conns[2], "write:"+strconv.Itoa(c))
		wg.Wait()
		res.Count(fmt.Sprintf("overlap/%d", it))
		for _, x := range []struct {
			name string
			o    out
			want []byte
		}{{"first", oa, probe.Pattern(a)}, {"slow", ob, append(append([]byte{}, probe.Pattern(b)...), probe.Pattern(b)...)}, {"fast", oc, probe.Pattern(c)}} {
			if x.o.bad == "" && bytes.Equal(x.o.body, x.want) {
				continue
			}
			what := x.o.bad
			if what == "" {
				what = fmt.Sprintf("decoded body has %d bytes, the handler wrote %d (first difference at %d)", len(x.o.body), len(x.want), firstDiffAt(x.o.body, x.want))
			}
			res.Add(hx.Mismatch{Key: "C18/DecodedEqualsIdentity/overlap/" + x.name, Case: gcase{Overlap: true},
				What: fmt.Sprintf("three compressed responses through one gzip site - one that completes, then a slow one (two writes, 40 ms apart) overlapped by a fast one on another connection: the %s response: %s", x.name, what)})
			return
		}
	}
}

func firstDiffAt(a, b []byte) int {
	n := len(a)
	if len(b) < n {
		n = len(b)
	}
	for i := 0; i < n; i++ {
		if a[i] != b[i] {
			return i
		}
	}
	return n
}
