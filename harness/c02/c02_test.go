// C02 - file serving stays inside the root, never returns or lists hidden files, redirects
// stay on the same origin: replay of the outcome tables TLC computed from FileServe.tla
// against a real casket instance (casket.Start, loopback, byte-exact HTTP/1.1 requests).
//
// The fixture is the abstract tree of FileServe.tla materialised on disk; every file holds a
// unique token, so the set of files a response body was made from is decidable (bodies are
// gunzipped / unzipped / untarred before the search).  The instance is loaded from the
// Casketfile that lies inside the root, so hideCasketfile is exercised for real.
//
// Verdict = the declarative predicate of the statement evaluated on the observation:
// tokens found must belong to the Allowed set of the request, names listed to AllowedListed,
// a Location must start with exactly one '/'.  Differences from the operational model that
// still satisfy the predicate (status, under-serving) are counted as model drift.
package c02

import (
	"archive/tar"
	"archive/zip"
	"bytes"
	"compress/gzip"
	"crypto/sha256"
	"encoding/hex"
	"encoding/json"
	"fmt"
	"io"
	"math/rand"
	"net/url"
	"os"
	"path/filepath"
	"regexp"
	"sort"
	"strings"
	"sync"
	"testing"

	"verifharness/hx"
)

// ---- cases emitted by TLC -------------------------------------------------------------

type outcome struct {
	St int        `json:"st"`
	K  string     `json:"k"`
	Rd bool       `json:"rd"`
	Lh string     `json:"lh"`
	Lp []string   `json:"lp"`
	Sv [][]string `json:"sv"`
	Ls []string   `json:"ls"`
	Al [][]string `json:"al"`
	An []string   `json:"an"`
}

type fcase struct {
	Segs    []string    `json:"segs"`
	Browses []string    `json:"browses"`
	Modes   []string    `json:"modes"`
	Aes     [][]string  `json:"aes"`
	Res     []outcome   `json:"res"`
	Tab     [][][][]int `json:"tab"`
	Only    *only       `json:"only,omitempty"`
}

// only pins one concrete request (mismatch / replay files).
type only struct {
	Slash  bool     `json:"slash"`
	Browse string   `json:"browse"`
	Mode   string   `json:"mode"`
	AE     []string `json:"ae"`
	Prefix bool     `json:"prefix"`
	Method string   `json:"method"`
	Target string   `json:"target"`
	Want   outcome  `json:"want"`
}

// ---- fixture ------------------------------------------------------------------------------

var nodes = []string{"root/f", "root/f.gz", "root/f.zst", "root/f.br", "root/d/g", "root/d/g.gz",
	"root/d/index.html", "root/d/index.html.gz", "root/e/g", "root/Casketfile", "out/f"}

func token(node string) string {
	h := sha256.Sum256([]byte("c02:" + node))
	return "tk-" + hex.EncodeToString(h[:10]) + "-kt"
}

func gz(b []byte) []byte {
	var buf bytes.Buffer
	w := gzip.NewWriter(&buf)
	w.Write(b)
	w.Close()
	return buf.Bytes()
}

var browseKinds = []string{"off", "list", "arch"}

type fixture struct {
	base   string
	site   *hx.Site
	ports  map[string]int // "<browse>/<prefix>" -> port
	rootfs int            // port of a site whose root is the file system root
	cfp    string         // the Casketfile the instance was loaded from
}

func siteKey(browse string, prefix bool) string { return fmt.Sprintf("%s/%v", browse, prefix) }

func newFixture(dir string) (*fixture, error) {
	base, err := os.MkdirTemp(dir, "c02fix")
	if err != nil {
		return nil, err
	}
	root := filepath.Join(base, "root")
	for _, d := range []string{"root/d", "root/e", "out"} {
		if err := os.MkdirAll(filepath.Join(base, d), 0o755); err != nil {
			return nil, err
		}
	}
	for _, n := range nodes {
		if n == "root/Casketfile" {
			continue
		}
		content := []byte(token(n) + "\n")
		if strings.HasSuffix(n, ".gz") {
			content = gz(content) // a real precompressed sibling; .zst/.br hold the bare token
		}
		if err := os.WriteFile(filepath.Join(base, n), content, 0o644); err != nil {
			return nil, err
		}
	}
	var err2 error
	for try := 0; try < 4; try++ {
		f := &fixture{base: base, ports: map[string]int{}}
		var cf strings.Builder
		fmt.Fprintf(&cf, "# %s\n", token("root/Casketfile"))
		// a site rooted elsewhere, declared first: the Casketfile must be hidden on every site
		// whose root holds it, whatever comes before it in the file
		fmt.Fprintf(&cf, "127.0.0.1:%d {\n\tbind 127.0.0.1\n\ttls off\n\troot %s\n}\n", hx.FreePort(), filepath.Join(base, "out"))
		// a site whose root is the file system root: the Casketfile lies inside that root too
		f.rootfs = hx.FreePort()
		fmt.Fprintf(&cf, "127.0.0.1:%d {\n\tbind 127.0.0.1\n\ttls off\n\troot /\n}\n", f.rootfs)
		for _, b := range browseKinds {
			for _, p := range []bool{false, true} {
				port := hx.FreePort()
				f.ports[siteKey(b, p)] = port
				addr := fmt.Sprintf("127.0.0.1:%d", port)
				if p {
					addr += "/s"
				}
				fmt.Fprintf(&cf, "%s {\n\tbind 127.0.0.1\n\ttls off\n\troot %s\n", addr, root)
				switch b {
				case "list":
					cf.WriteString("\tbrowse /\n")
				case "arch":
					cf.WriteString("\tbrowse / {\n\t\tservearchive\n\t}\n")
				}
				cf.WriteString("}\n")
			}
		}
		cfp := filepath.Join(root, "Casketfile")
		if err := os.WriteFile(cfp, []byte(cf.String()), 0o644); err != nil {
			return nil, err
		}
		s, err := hx.StartHTTP(cf.String(), cfp)
		if err == nil {
			f.site = s
			// the hidden check has run once on every site; now the Casketfile is replaced the
			// way editors save (new file renamed over the old one: same name, another inode) -
			// it stays hidden for everything that follows
			for _, port := range f.ports {
				addr := fmt.Sprintf("127.0.0.1:%d", port)
				hx.OneShot(addr, "GET", "/Casketfile", addr)
				hx.OneShot(addr, "GET", "/s/Casketfile", addr)
			}
			tmp := cfp + ".new"
			if err := os.WriteFile(tmp, []byte(cf.String()), 0o644); err == nil {
				os.Rename(tmp, cfp)
			}
			// the Casketfile under another name inside the root: a hard link (symbolic links are
			// outside the fixture: the jailed file system follows them by design, and a link's own
			// name is a legitimate directory entry)
			os.Link(cfp, filepath.Join(root, "d", "alias.conf"))
			f.cfp = cfp
			return f, nil
		}
		err2 = err
		if !strings.Contains(err.Error(), "address already in use") {
			break
		}
	}
	os.RemoveAll(base)
	return nil, err2
}

// aliasPart asks for the Casketfile under its other names: a hard link inside
// the root (the hidden check identifies the file, not its name), and its own path on a site whose
// root is the file system root. Nothing of it may be returned.
func (f *fixture) aliasPart(res *hx.Result) {
	tok := token("root/Casketfile")
	ask := func(port int, target, what string) {
		addr := fmt.Sprintf("127.0.0.1:%d", port)
		r, err := hx.OneShot(addr, "GET", target, addr, "Accept-Encoding: identity")
		res.Count("alias/" + what)
		if err != nil {
			return
		}
		found := map[string]bool{}
		var names []string
		scan(r.Body, found, &names, 0)
		if found["root/Casketfile"] || strings.Contains(string(r.Body), tok) {
			res.Add(hx.Mismatch{Key: "C02/hidden-served/alias/" + what, What: fmt.Sprintf("GET %s (%s) returns the content of the Casketfile the site was loaded from (status %d)", target, what, r.Status),
				Case: map[string]string{"target": target, "what": what}})
		}
	}
	for key, port := range f.ports {
		pre := ""
		if strings.HasSuffix(key, "/true") {
			pre = "/s"
		}
		ask(port, pre+"/d/alias.conf", "hard link "+key)
		ask(port, pre+"//d/./alias.conf", "hard link "+key)
		ask(port, pre+"/d/?archive=zip", "archive with hard link "+key)
	}
	ask(f.rootfs, f.cfp, "site rooted at /")
	ask(f.rootfs, "/"+strings.ReplaceAll(f.cfp, "/", "//"), "site rooted at /")
}

func (f *fixture) close() {
	f.site.Stop()
	os.RemoveAll(f.base)
}

// ---- concretisation -----------------------------------------------------------------------------

const hexLower, hexUpper = "0123456789abcdef", "0123456789ABCDEF"

func pct(c byte, rnd *rand.Rand) string {
	h := hexLower
	if rnd.Intn(2) == 0 {
		h = hexUpper
	}
	return "%" + string(h[c>>4]) + string(h[c&15])
}

// spell renders the abstract path; level 0 = canonical, otherwise characters and the inner
// separators are percent-encoded at random ('.' -> %2e, '/' -> %2f, '\' -> %5C, letters).
// The first separator stays a literal '/' (origin-form, and the byte after a site's path prefix).
func spell(segs []string, slash bool, level int, rnd *rand.Rand) string {
	var b strings.Builder
	raw := segs
	if slash && len(segs) > 0 {
		raw = append(append([]string{}, segs...), "")
	}
	if len(raw) == 0 {
		return "/"
	}
	for i, s := range raw {
		if i == 0 || level == 0 || rnd.Intn(4) != 0 {
			b.WriteByte('/')
		} else {
			b.WriteString(pct('/', rnd))
		}
		for k := 0; k < len(s); k++ {
			c := s[k]
			switch {
			case c == '\\' && (level == 0 || rnd.Intn(2) == 0):
				b.WriteString("%5C")
			case level > 0 && rnd.Intn(3) == 0:
				b.WriteString(pct(c, rnd))
			default:
				b.WriteByte(c)
			}
		}
	}
	return b.String()
}

func query(mode string) (string, []string) {
	switch mode {
	case "json":
		return "?sort=size&order=desc", []string{"Accept: application/json"}
	case "zip":
		return "?archive=zip", nil
	case "targz":
		return "?archive=tar.gz", nil
	}
	return "", nil
}

// ---- observation ----------------------------------------------------------------------------------

type obs struct {
	Status   int      `json:"status"`
	Location string   `json:"location,omitempty"`
	HasLoc   bool     `json:"has_location"`
	Files    []string `json:"files"` // nodes whose token occurs in the decoded body
	Names    []string `json:"names"` // names listed (listing) / entry paths (archive)
	CT       string   `json:"content_type,omitempty"`
	CE       string   `json:"content_encoding,omitempty"`
	BodyLen  int      `json:"body_len"`
	Listing  bool     `json:"is_listing"`
	Archive  bool     `json:"is_archive"`
	Err      string   `json:"err,omitempty"`
}

var tokenToNode = func() map[string]string {
	m := map[string]string{}
	for _, n := range nodes {
		m[token(n)] = n
	}
	return m
}()

// scan adds the nodes whose tokens occur in b, looking through gzip, zip and tar layers.
func scan(b []byte, found map[string]bool, names *[]string, depth int) {
	for tk, n := range tokenToNode {
		if bytes.Contains(b, []byte(tk)) {
			found[n] = true
		}
	}
	if depth > 4 {
		return
	}
	if len(b) > 2 && b[0] == 0x1f && b[1] == 0x8b {
		if zr, err := gzip.NewReader(bytes.NewReader(b)); err == nil {
			if inner, err := io.ReadAll(zr); err == nil || len(inner) > 0 {
				scan(inner, found, names, depth+1)
			}
		}
	}
	if len(b) > 4 && b[0] == 'P' && b[1] == 'K' {
		if zr, err := zip.NewReader(bytes.NewReader(b), int64(len(b))); err == nil {
			for _, zf := range zr.File {
				if names != nil {
					*names = append(*names, zf.Name)
				}
				if rc, err := zf.Open(); err == nil {
					inner, _ := io.ReadAll(rc)
					rc.Close()
					scan(inner, found, nil, depth+1)
				}
			}
		}
	}
	if len(b) > 262 && string(b[257:262]) == "ustar" {
		tr := tar.NewReader(bytes.NewReader(b))
		for {
			h, err := tr.Next()
			if err != nil {
				break
			}
			if names != nil {
				*names = append(*names, h.Name)
			}
			inner, _ := io.ReadAll(tr)
			scan(inner, found, nil, depth+1)
		}
	}
}

var nameRe = regexp.MustCompile(`<span class="name">([^<]*)</span>`)

func observe(r *hx.RawResp) obs {
	o := obs{Status: r.Status, CT: r.Header.Get("Content-Type"), CE: r.Header.Get("Content-Encoding"), BodyLen: len(r.Body), Err: r.Err}
	if l, ok := r.Header["Location"]; ok {
		o.HasLoc, o.Location = true, l[0]
	}
	found := map[string]bool{}
	var names []string
	scan(r.Body, found, &names, 0)
	if strings.HasPrefix(o.CT, "application/zip") || strings.HasPrefix(o.CT, "application/tar") {
		o.Archive = true
	}
	if r.Status == 200 && strings.HasPrefix(o.CT, "application/json") {
		var items []struct{ Name string }
		if json.Unmarshal(r.Body, &items) == nil {
			o.Listing = true
			for _, it := range items {
				names = append(names, it.Name)
			}
		}
	}
	if r.Status == 200 && strings.HasPrefix(o.CT, "text/html") && bytes.Contains(r.Body, []byte(`<span class="name">`)) || (r.Status == 200 && bytes.Contains(r.Body, []byte("Served with"))) {
		o.Listing = true
		for _, m := range nameRe.FindAllSubmatch(r.Body, -1) {
			names = append(names, string(m[1]))
		}
	}
	for n := range found {
		o.Files = append(o.Files, n)
	}
	sort.Strings(o.Files)
	sort.Strings(names)
	o.Names = names
	return o
}

// ---- judgement -----------------------------------------------------------------------------------------

func joinNodes(ns [][]string) []string {
	out := make([]string, 0, len(ns))
	for _, n := range ns {
		out = append(out, strings.Join(n, "/"))
	}
	sort.Strings(out)
	return out
}

func contains(xs []string, x string) bool {
	for _, y := range xs {
		if x == y {
			return true
		}
	}
	return false
}

// sameOrigin: "its Location starts with exactly one '/'" (a backslash counts as a slash)
func sameOrigin(loc string) bool {
	if len(loc) == 0 || loc[0] != '/' {
		return false
	}
	return len(loc) == 1 || (loc[1] != '/' && loc[1] != '\\')
}

type problem struct{ clause, what string }

// judge evaluates the statement of C02 on one observation.  want.Al / want.An are the
// declarative Allowed / AllowedListed sets of the request.
func judge(want *outcome, o *obs) []problem {
	var ps []problem
	allowed := joinNodes(want.Al)
	for _, f := range o.Files {
		if contains(allowed, f) {
			continue
		}
		switch {
		case !strings.HasPrefix(f, "root/"):
			ps = append(ps, problem{"outside-root", "the body contains the content of " + f + ", a file outside the site root"})
		case f == "root/Casketfile":
			ps = append(ps, problem{"hidden-served", "the body contains the content of the hidden Casketfile"})
		default:
			ps = append(ps, problem{"not-named", "the body contains the content of " + f + ", which the request does not name"})
		}
	}
	if o.Listing {
		for _, n := range o.Names {
			if !contains(want.An, n) {
				ps = append(ps, problem{"listed", "the listing names " + n + " (hidden, or not an entry of the directory the request names)"})
			}
		}
	}
	if o.Archive {
		for _, n := range o.Names {
			base := n[strings.LastIndex(n, "/")+1:]
			if base == "" {
				continue
			}
			ok := base != "Casketfile"
			if ok {
				ok = false
				for _, a := range want.Al {
					if a[len(a)-1] == base {
						ok = true
					}
				}
				for _, d := range []string{"d", "e", "root"} { // directory entries
					if base == d {
						ok = true
					}
				}
			}
			if !ok {
				ps = append(ps, problem{"archive-entry", "the archive has an entry " + n + " for a file that must not be in it"})
			}
		}
	}
	if o.HasLoc && !sameOrigin(o.Location) {
		ps = append(ps, problem{"redirect", fmt.Sprintf("redirect leaves the origin: Location %q", o.Location)})
	}
	return ps
}

// drift: the observation satisfies the statement but is not what the operational model computes
func drift(want *outcome, o *obs, method string, prefixed bool) string {
	if o.Status != want.St {
		return fmt.Sprintf("status %d, model %d", o.Status, want.St)
	}
	if o.HasLoc != want.Rd {
		return fmt.Sprintf("redirect %v, model %v", o.HasLoc, want.Rd)
	}
	if want.Rd && !prefixed {
		// the Location the model of http.Redirect computes (plain sites only: the tables are
		// emitted for the un-prefixed site)
		model := "/" + strings.Join(want.Lp, "/")
		got := o.Location
		if i := strings.IndexByte(got, '?'); i >= 0 {
			got = got[:i]
		}
		if dec, err := url.PathUnescape(got); err == nil {
			got = dec
		}
		if got != model {
			return fmt.Sprintf("Location %q, model %q", o.Location, model)
		}
	}
	if method == "GET" {
		if sv := joinNodes(want.Sv); strings.Join(sv, ",") != strings.Join(o.Files, ",") {
			return fmt.Sprintf("served %v, model %v", o.Files, sv)
		}
		if want.K == "listing" {
			ls := append([]string{}, want.Ls...)
			sort.Strings(ls)
			if strings.Join(ls, ",") != strings.Join(o.Names, ",") {
				return fmt.Sprintf("listed %v, model %v", o.Names, ls)
			}
		}
	}
	return ""
}

// ---- one request ----------------------------------------------------------------------------------------

type client struct {
	f     *fixture
	conns map[string]*hx.RawConn
}

func (c *client) close() {
	for _, rc := range c.conns {
		rc.Close()
	}
}

func (c *client) do(on *only) (obs, error) {
	key := siteKey(on.Browse, on.Prefix)
	port := c.f.ports[key]
	addr := fmt.Sprintf("127.0.0.1:%d", port)
	var hdr []string
	_, h := query(on.Mode)
	hdr = append(hdr, h...)
	if len(on.AE) > 0 {
		hdr = append(hdr, "Accept-Encoding: "+strings.Join(on.AE, ", "))
	}
	var lastErr error
	for try := 0; try < 3; try++ {
		rc := c.conns[key]
		if rc == nil {
			var err error
			if rc, err = hx.DialRaw(addr); err != nil {
				lastErr = err
				continue
			}
			c.conns[key] = rc
		}
		r, err := rc.Get(on.Method, on.Target, addr, hdr...)
		if err != nil {
			rc.Close()
			delete(c.conns, key)
			lastErr = err
			continue
		}
		if r.Header.Get("Connection") == "close" {
			rc.Close()
			delete(c.conns, key)
		}
		return observe(r), nil
	}
	return obs{}, lastErr
}

func mkOnly(c *fcase, s, b, m, a int, prefix bool, level int, rnd *rand.Rand) *only {
	on := &only{Slash: s == 1, Browse: c.Browses[b], Mode: c.Modes[m], AE: append([]string{}, c.Aes[a]...), Prefix: prefix,
		Method: "GET", Want: c.Res[c.Tab[s][b][m][a]-1]}
	if level > 0 {
		rnd.Shuffle(len(on.AE), func(i, j int) { on.AE[i], on.AE[j] = on.AE[j], on.AE[i] })
		if rnd.Intn(8) == 0 {
			on.Method = "HEAD"
		}
	}
	p := spell(c.Segs, on.Slash, level, rnd)
	if prefix {
		if p == "/" && rnd.Intn(2) == 0 {
			p = ""
		}
		p = "/s" + p
	}
	q, _ := query(on.Mode)
	on.Target = p + q
	return on
}

func mmKey(clause string, on *only) string {
	ae := ""
	if clause == "not-named" { // the Accept-Encoding only matters for the choice of a precompressed sibling
		ae = "/ae=" + strings.Join(sortedCopy(on.AE), "+")
	}
	return fmt.Sprintf("C02/%s/browse=%s/prefix=%v%s/%s %s", clause, on.Browse, on.Prefix, ae, on.Method, on.Target)
}

func sortedCopy(xs []string) []string {
	o := append([]string{}, xs...)
	sort.Strings(o)
	return o
}

// confirm re-runs the request against a fresh instance over a fresh connection; only a
// reproduced problem is reported.
func confirm(t *testing.T, res *hx.Result, c *fcase, on *only) {
	f, err := newFixture(hx.Scratch(t))
	if err != nil {
		return
	}
	defer f.close()
	cl := &client{f: f, conns: map[string]*hx.RawConn{}}
	defer cl.close()
	o, err := cl.do(on)
	if err != nil {
		return
	}
	for _, p := range judge(&on.Want, &o) {
		cc := *c
		cc.Res, cc.Tab = nil, nil
		cc.Only = on
		res.Add(hx.Mismatch{Key: mmKey(p.clause, on), What: fmt.Sprintf("%s %s (browse=%s, path-prefixed site=%v): %s", on.Method, on.Target, on.Browse, on.Prefix, p.what),
			Case: &cc, Expected: map[string]interface{}{"allowed_files": joinNodes(on.Want.Al), "allowed_names": on.Want.An, "model": on.Want}, Observed: o})
	}
}

// ---- the test ----------------------------------------------------------------------------------------------

type job struct {
	c          *fcase
	s, b, m, a int
	prefix     bool
	level      int
}

func TestC02(t *testing.T) {
	hx.Quiet()
	res := hx.NewResult("TestC02", "one evaluation = one request (path of <=L segments over 13 segment spellings incl. '.', '..', '', '\\', x trailing slash x Accept-Encoding set x listing/archive query x browse off/list/archive x plain or path-prefixed site) from FileServe.tla, sent raw with canonical and percent-encoded spellings; non-trivial = the model serves a file, a listing or an archive, or redirects")
	defer res.Write(t)

	if rp, ok := hx.LoadReplay[fcase](t); ok {
		replayOne(t, res, &rp)
		return
	}

	cases := hx.LoadCases[fcase](t, "FileServe")
	rnd := hx.Rand()
	fx, err := newFixture(hx.Scratch(t))
	if err != nil {
		res.Infra = "cannot start the fixture: " + err.Error()
		return
	}
	defer fx.close()
	if !hx.SelfTest() {
		fx.aliasPart(res)
	}

	// selection: every table entry of the short paths on both kinds of site (canonical spelling and
	// one random spelling); a seeded sample of the entries of the longer paths
	shortLen, budget := 2, 120000
	if hx.Thorough() {
		shortLen, budget = 3, 4000000
	}
	var jobs []job
	var long []*fcase
	for i := range cases {
		c := &cases[i]
		if len(c.Segs) > shortLen {
			long = append(long, c)
			continue
		}
		for s := range c.Tab {
			for b := range c.Tab[s] {
				for m := range c.Tab[s][b] {
					for a := range c.Tab[s][b][m] {
						for _, p := range []bool{false, true} {
							jobs = append(jobs, job{c, s, b, m, a, p, 0}, job{c, s, b, m, a, p, 1})
						}
					}
				}
			}
		}
	}
	nshort := len(jobs)
	for k := 0; len(long) > 0 && k < budget; k++ {
		c := long[rnd.Intn(len(long))]
		s, b := rnd.Intn(2), rnd.Intn(len(c.Browses))
		m, a := rnd.Intn(len(c.Modes)), rnd.Intn(len(c.Aes))
		jobs = append(jobs, job{c, s, b, m, a, rnd.Intn(2) == 0, rnd.Intn(3)})
	}
	res.AddExtra("paths_from_tlc", len(cases))
	res.AddExtra("requests_exhaustive_short_paths", nshort)
	res.AddExtra("requests_sampled_long_paths", len(jobs)-nshort)

	const workers = 12
	ch := make(chan job, 256)
	var wg sync.WaitGroup
	var mu sync.Mutex
	var infra string
	type bad struct {
		c  *fcase
		on *only
	}
	var bads []bad
	badKeys := map[string]bool{}
	drifts, driftSamples := 0, []string{}
	exact := map[string]int{}
	selftestHit := 0
	for w := 0; w < workers; w++ {
		wg.Add(1)
		wrnd := rand.New(rand.NewSource(hx.Seed()*7919 + int64(w)))
		go func() {
			defer wg.Done()
			cl := &client{f: fx, conns: map[string]*hx.RawConn{}}
			defer cl.close()
			for j := range ch {
				on := mkOnly(j.c, j.s, j.b, j.m, j.a, j.prefix, j.level, wrnd)
				if hx.SelfTest() && len(on.Want.Sv) > 0 {
					on.Want.Al = nil // corrupt the expectation: nothing may be served
				}
				o, err := cl.do(on)
				if err != nil {
					mu.Lock()
					if infra == "" {
						infra = fmt.Sprintf("request %s %s failed: %v", on.Method, on.Target, err)
					}
					mu.Unlock()
					continue
				}
				nt := ""
				if on.Want.K != "none" || on.Want.Rd {
					nt = fmt.Sprintf("%s|%v|%s|%s|%v|%v", strings.Join(j.c.Segs, "/"), on.Slash, on.Browse, on.Mode, on.AE, on.Prefix)
				}
				res.Count(nt)
				ps := judge(&on.Want, &o)
				mu.Lock()
				if len(ps) > 0 {
					if hx.SelfTest() {
						selftestHit++
					} else {
						for _, p := range ps {
							k := mmKey(p.clause, on)
							if !badKeys[k] && len(bads) < 400 {
								badKeys[k] = true
								bads = append(bads, bad{j.c, on})
							}
						}
					}
				} else if d := drift(&on.Want, &o, on.Method, on.Prefix); d != "" {
					drifts++
					if len(driftSamples) < 8 {
						driftSamples = append(driftSamples, fmt.Sprintf("%s %s browse=%s prefix=%v ae=%v: %s", on.Method, on.Target, on.Browse, on.Prefix, on.AE, d))
					}
				} else if on.Method == "GET" {
					exact[on.Want.K]++
					if on.Want.Rd {
						exact["redirect"]++
					}
				}
				mu.Unlock()
				if on.Want.K != "none" && j.level > 0 && (j.s+j.b+j.m+j.a)%7 == 0 && len(j.c.Segs) >= 2 {
					res.Sample(map[string]interface{}{"request": on.Method + " " + on.Target, "browse": on.Browse, "prefixed_site": on.Prefix, "accept_encoding": on.AE,
						"model": on.Want, "observed": o})
				}
			}
		}()
	}
	for _, j := range jobs {
		ch <- j
	}
	close(ch)
	wg.Wait()

	seen := map[*only]bool{}
	for _, b := range bads {
		if seen[b.on] {
			continue
		}
		seen[b.on] = true
		confirm(t, res, b.c, b.on)
	}
	res.AddExtra("model_drift", drifts)
	res.AddExtra("model_drift_samples", driftSamples)
	res.AddExtra("exact_agreement_by_kind", exact)
	res.Replayed = res.Evaluations
	if infra != "" {
		res.Infra = infra
		return
	}
	if hx.SelfTest() {
		res.AddExtra("selftest_noticed", selftestHit)
		if selftestHit == 0 {
			res.Infra = "selftest: corrupted expectation was not noticed"
		}
		return
	}
	// vacuity guards: the token search and the decoders must have seen every kind of body,
	// and the model must still describe the code
	for _, k := range []string{"file", "listing", "archive", "redirect", "none"} {
		if exact[k] == 0 {
			res.Infra = "vacuous: no request whose outcome is '" + k + "' agreed with the model (fixture or decoder broken?)"
		}
	}
	if drifts*50 > res.Evaluations && res.MismatchCount() == 0 {
		res.Infra = fmt.Sprintf("the operational model no longer describes the code: %d of %d requests differ without violating the property, e.g. %v", drifts, res.Evaluations, driftSamples)
	}
}

func replayOne(t *testing.T, res *hx.Result, c *fcase) {
	if c.Only == nil {
		t.Fatalf("replay file has no single request")
	}
	res.Count("replay")
	res.Count("replay2")
	before := res.MismatchCount()
	confirm(t, res, c, c.Only)
	if res.MismatchCount() == before {
		// make sure the fixture could be started at all
		f, err := newFixture(hx.Scratch(t))
		if err != nil {
			res.Infra = "cannot start the fixture: " + err.Error()
			return
		}
		f.close()
	}
}
