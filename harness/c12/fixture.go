// Package c12 binds specs/Middleware.tla to the real middleware chain of casket.
//
// fixture.go: rendering of an abstract wrapper configuration into a Casketfile, the counting
// handler installed below httpserver.Server.ServeHTTP (it sees every header commit and every body
// byte that reaches net/http), and the client side of one case.
package c12

import (
	"bufio"
	"bytes"
	"compress/gzip"
	"fmt"
	"io"
	"net"
	"net/http"
	"os"
	"path/filepath"
	"strconv"
	"strings"
	"sync"
	"time"

	"github.com/tmpim/casket"
	"github.com/tmpim/casket/caskethttp/httpserver"
	"verifharness/hx"
	_ "verifharness/probe"
)

// Cfg is the abstract site configuration of Middleware.tla (field names = JSON of the CASE lines).
type Cfg struct {
	On     []string `json:"on"`     // enabled wrappers, subset of the canonical directive list
	Errors string   `json:"errors"` // "none" | "default" | "page" | "visible"
}

func (c Cfg) Has(w string) bool {
	for _, x := range c.On {
		if x == w {
			return true
		}
	}
	return false
}

func (c Cfg) Key() string {
	on := append([]string(nil), c.On...)
	return "on={" + strings.Join(on, ",") + "}/errors=" + c.Errors
}

const (
	page404Body  = "<html>custom page for 404</html>\n"
	pageStarBody = "<html>generic error page</html>\n"
	handlerBody  = "HANDLER-BODY:0123456789abcdefghijklmnopqrstuvwxyz:0123456789abcdefghijklmnopqrstuvwxyz:END"
	afterBody    = "AFTER-OK"
)

// Dirs of one fixture.
type Fixture struct {
	Cfg     Cfg
	Dir     string
	Port    int
	Site    *hx.Site
	Counter *Counter
	NLogs   int
	logOff  int
}

func (f *Fixture) AccessLog(i int) string {
	return filepath.Join(f.Dir, "access"+strconv.Itoa(i)+".log")
}
func (f *Fixture) ErrorLog() string { return filepath.Join(f.Dir, "errors.log") }

// Casketfile renders the configuration. Every wrapper is written in an order different from
// the canonical one on purpose (casket sorts directives itself).
func Casketfile(c Cfg, dir string, port int, extra string) string {
	var b strings.Builder
	fmt.Fprintf(&b, "127.0.0.1:%d {\n\tbind 127.0.0.1\n\ttls off\n\troot %s\n\tverifprobe\n", port, filepath.Join(dir, "root"))
	if c.Has("templates") {
		b.WriteString("\ttemplates\n")
	}
	if c.Has("internal") {
		b.WriteString("\tinternal /internal\n")
	}
	if c.Has("mime") {
		b.WriteString("\tmime .foo text/x-foo\n")
	}
	if c.Has("status") {
		b.WriteString("\tstatus 404 /st404\n\tstatus 204 /st204\n")
	}
	if c.Has("basicauth") {
		b.WriteString("\tbasicauth /secret user pass\n")
	}
	switch c.Errors {
	case "default":
		fmt.Fprintf(&b, "\terrors %s\n", filepath.Join(dir, "errors.log"))
	case "page":
		fmt.Fprintf(&b, "\terrors %s {\n\t\t404 e404.html\n\t\t* estar.html\n\t}\n", filepath.Join(dir, "errors.log"))
	case "visible":
		b.WriteString("\terrors visible\n")
	}
	if c.Has("header") {
		b.WriteString("\theader / {\n\t\tX-Added by-header\n\t\t-X-Remove\n\t}\n")
	}
	if c.Has("gzip") {
		b.WriteString("\tgzip {\n\t\text *\n\t}\n")
	}
	if c.Has("rewrite") {
		b.WriteString("\trewrite /rw /x\n")
	}
	if c.Has("log") {
		fmt.Fprintf(&b, "\tlog / %s \"{status} {size} {>X-Case}\"\n", filepath.Join(dir, "access0.log"))
	}
	if c.Has("request_id") {
		b.WriteString("\trequest_id\n")
	}
	if c.Has("limits") {
		b.WriteString("\tlimits 1mb\n")
	}
	b.WriteString(extra)
	b.WriteString("}\n")
	return b.String()
}

// ---- counting handler -------------------------------------------------------------------

// ConnView is what reached net/http for one request.
type ConnView struct {
	Commits  []int `json:"commits"`  // status of every header commit (explicit WriteHeader, or 200 for a first Write without one)
	Bytes    int   `json:"bytes"`    // body bytes handed to net/http
	Panicked bool  `json:"panicked"` // a panic escaped Server.ServeHTTP (must never happen)
	Done     bool  `json:"done"`
}

type Counter struct {
	mu   sync.Mutex
	seen map[string]*ConnView
	next http.Handler
}

type countingWriter struct {
	http.ResponseWriter
	c    *Counter
	v    *ConnView
	open bool // a header commit is in effect
}

func (w *countingWriter) WriteHeader(s int) {
	w.ResponseWriter.WriteHeader(s) // panics for an invalid code unless the header is already out: then nothing was committed
	w.c.mu.Lock()
	if s >= 200 || s < 100 { // 1xx are informational, not commits
		w.v.Commits = append(w.v.Commits, s)
		w.open = true
	}
	w.c.mu.Unlock()
}

func (w *countingWriter) implicit() {
	w.c.mu.Lock()
	if !w.open {
		w.v.Commits = append(w.v.Commits, 200)
		w.open = true
	}
	w.c.mu.Unlock()
}

func (w *countingWriter) Write(b []byte) (int, error) {
	w.implicit()
	n, err := w.ResponseWriter.Write(b)
	w.c.mu.Lock()
	w.v.Bytes += n
	w.c.mu.Unlock()
	return n, err
}

func (w *countingWriter) Flush() {
	w.implicit()
	if f, ok := w.ResponseWriter.(http.Flusher); ok {
		f.Flush()
	}
}

func (w *countingWriter) Hijack() (net.Conn, *bufio.ReadWriter, error) {
	return w.ResponseWriter.(http.Hijacker).Hijack()
}

func (w *countingWriter) CloseNotify() <-chan bool {
	return w.ResponseWriter.(http.CloseNotifier).CloseNotify()
}

func (w *countingWriter) Push(t string, o *http.PushOptions) error { return http.ErrNotSupported }

func (c *Counter) ServeHTTP(w http.ResponseWriter, r *http.Request) {
	id := r.Header.Get("X-Case")
	v := &ConnView{}
	c.mu.Lock()
	if id != "" {
		c.seen[id] = v
	}
	c.mu.Unlock()
	cw := &countingWriter{ResponseWriter: w, c: c, v: v}
	defer func() {
		rec := recover()
		c.mu.Lock()
		v.Done = true
		if rec != nil {
			v.Panicked = true
		}
		c.mu.Unlock()
		if rec != nil {
			panic(rec)
		}
	}()
	c.next.ServeHTTP(cw, r)
}

// View waits until the handler of request id has returned and hands out what it saw.
func (c *Counter) View(id string) (ConnView, bool) {
	deadline := time.Now().Add(5 * time.Second)
	for {
		c.mu.Lock()
		v, ok := c.seen[id]
		if ok && v.Done {
			out := *v
			out.Commits = append([]int(nil), v.Commits...)
			delete(c.seen, id)
			c.mu.Unlock()
			return out, true
		}
		c.mu.Unlock()
		if time.Now().After(deadline) {
			return ConnView{}, false
		}
		time.Sleep(200 * time.Microsecond)
	}
}

// ---- fixture life cycle --------------------------------------------------------------------

var startMu sync.Mutex

func StartFixture(c Cfg, parent string, extra string) (*Fixture, error) {
	dir, err := os.MkdirTemp(parent, "c12site")
	if err != nil {
		return nil, err
	}
	root := filepath.Join(dir, "root")
	os.MkdirAll(root, 0o755)
	os.WriteFile(filepath.Join(root, "e404.html"), []byte(page404Body), 0o644)
	os.WriteFile(filepath.Join(root, "estar.html"), []byte(pageStarBody), 0o644)
	os.WriteFile(filepath.Join(root, "index.html"), []byte("static index\n"), 0o644)
	var lastErr error
	for try := 0; try < 4; try++ {
		port := hx.FreePort()
		// casket.Start is for the main goroutine only (LogRoller.GetLogWriter shares an unguarded map)
		startMu.Lock()
		site, err := hx.StartHTTP(Casketfile(c, dir, port, extra), "")
		startMu.Unlock()
		if err != nil {
			lastErr = err
			if strings.Contains(err.Error(), "address already in use") {
				continue
			}
			break
		}
		f := &Fixture{Cfg: c, Dir: dir, Port: port, Site: site}
		srvs := casket.VerifServersC12(site.Inst)
		n := 0
		for _, s := range srvs {
			hs, ok := s.(*httpserver.Server)
			if !ok {
				continue
			}
			f.Counter = &Counter{seen: map[string]*ConnView{}, next: hs.Server.Handler}
			hs.Server.Handler = f.Counter
			n++
		}
		if n != 1 {
			site.Stop()
			os.RemoveAll(dir)
			return nil, fmt.Errorf("expected exactly one http server, got %d", n)
		}
		return f, nil
	}
	os.RemoveAll(dir)
	return nil, fmt.Errorf("start failed: %v\n%s", lastErr, Casketfile(c, dir, 0, extra))
}

func (f *Fixture) Stop() {
	f.Site.Stop()
	os.RemoveAll(f.Dir)
}

func (f *Fixture) Addr() string { return "127.0.0.1:" + strconv.Itoa(f.Port) }

// ---- client side ----------------------------------------------------------------------------

// ClientView is what the client received for one request.
type ClientView struct {
	Status   int         `json:"status"`
	Header   http.Header `json:"-"`
	Raw      []byte      `json:"-"` // body bytes as transferred (after de-chunking, before content decoding)
	Body     string      `json:"body"`
	Gzipped  bool        `json:"gzipped"`
	Err      string      `json:"err,omitempty"`
	AfterOK  bool        `json:"after_ok"`  // a plain request on the same connection was answered correctly
	AfterErr string      `json:"after_err"` // else: what went wrong
}

func decodeBody(r *hx.RawResp) (string, bool) {
	if strings.EqualFold(r.Header.Get("Content-Encoding"), "gzip") {
		if len(r.Body) == 0 { // 204/304 or an empty answer labelled gzip: nothing to decode
			return "", true
		}
		zr, err := gzip.NewReader(bytes.NewReader(r.Body))
		if err != nil {
			return "UNDECODABLE-GZIP(" + err.Error() + "):" + string(r.Body), true
		}
		b, err := io.ReadAll(zr)
		if err != nil {
			return "UNDECODABLE-GZIP(" + err.Error() + "):" + string(b), true
		}
		return string(b), true
	}
	return string(r.Body), false
}

// Exchange sends the scripted request and then a plain one on the same connection.
func (f *Fixture) Exchange(id, path, script string, gzipOK bool, hdr ...string) ClientView {
	return f.exchange(id, path, script, gzipOK, false, hdr...)
}

// ExchangeHalfClosed: the client shuts down its sending side right after the request and waits.
func (f *Fixture) ExchangeHalfClosed(id, path, script string, gzipOK bool, hdr ...string) ClientView {
	return f.exchange(id, path, script, gzipOK, true, hdr...)
}

func (f *Fixture) exchange(id, path, script string, gzipOK, halfClose bool, hdr ...string) ClientView {
	var cv ClientView
	rc, err := hx.DialRaw(f.Addr())
	if err != nil {
		cv.Err = "dial: " + err.Error()
		return cv
	}
	defer rc.Close()
	rc.HalfClose = halfClose
	h := []string{"X-Case: " + id}
	if script != "" {
		h = append(h, "X-Probe: "+script)
	}
	if gzipOK {
		h = append(h, "Accept-Encoding: gzip")
	}
	h = append(h, hdr...)
	r, err := rc.Get("GET", path, f.Addr(), h...)
	if err != nil {
		cv.Err = "response: " + err.Error()
		return cv
	}
	cv.Status, cv.Header, cv.Raw, cv.Err = r.Status, r.Header, r.Body, r.Err
	cv.Body, cv.Gzipped = decodeBody(r)
	// the connection must still be in step: exactly one response was produced for the request
	if r.Header.Get("Connection") == "close" || r.Err != "" || halfClose {
		rc2, err := hx.DialRaw(f.Addr())
		if err != nil {
			cv.AfterErr = "dial after: " + err.Error()
			return cv
		}
		defer rc2.Close()
		rc = rc2
	}
	r2, err := rc.Get("GET", "/after", f.Addr(), "X-Probe: text:"+afterBody)
	switch {
	case err != nil:
		cv.AfterErr = "after: " + err.Error()
	case r2.Status != 200 || string(r2.Body) != afterBody:
		cv.AfterErr = fmt.Sprintf("after: status %d body %q", r2.Status, trunc(string(r2.Body), 80))
	default:
		cv.AfterOK = true
	}
	return cv
}

func trunc(s string, n int) string {
	if len(s) > n {
		return s[:n] + "..."
	}
	return s
}

// ReadLines returns the lines of a log file written so far.
func ReadLines(p string) []string {
	b, err := os.ReadFile(p)
	if err != nil {
		return nil
	}
	s := strings.TrimRight(string(b), "\n")
	if s == "" {
		return nil
	}
	return strings.Split(s, "\n")
}
