// C12 - each request gets exactly one well-formed response; panics are contained.
//
// Replay of the terminal states of specs/Middleware.tla (one CASE per configuration x request x
// behaviour of the innermost handler) against real casket sites started with casket.Start; the
// innermost handler is the test-only directive verifprobe, header commits are counted below
// httpserver.Server.ServeHTTP (export hook casket.VerifServersC12). The verdict is the
// declarative predicates of the specification evaluated on the observation; a difference from
// the operational model that satisfies them is recorded as model_drift. What was observed is also
// written as an ndjson trace and validated by TLC against specs/MiddlewareTrace.tla.
package c12

import (
	"fmt"
	"testing"

	"verifharness/hx"
)

func TestC12(t *testing.T) {
	hx.Quiet()
	res := hx.NewResult("TestC12", "one case = terminal state of Middleware.tla: (set of wrapping directives, errors mode) x (request kind, Accept-Encoding) x behaviour of the innermost handler (return (s,err) / write then return / panic before / after writing); padded with seeded pass-through directives; non-trivial = >=2 wrappers or an errors directive")
	defer res.Write(t)
	r := &Runner{Res: res, Scratch: hx.Scratch(t), Drift: map[string]int{}, Check: ViolationsC12, Prop: "C12"}

	if rp, ok := hx.LoadReplay[Case](t); ok {
		for k := 0; k < 2; k++ {
			res.Count(fmt.Sprintf("replay%d", k))
		}
		if rp.Path == "overlap" {
			if err := OverlapPart(res, r.Scratch); err != nil {
				res.Infra = err.Error()
			}
			return
		}
		f, err := StartFixture(rp.Cfg(), r.Scratch, "")
		if err != nil {
			res.Infra = err.Error()
			return
		}
		o := f.Run(rp, "replay")
		f.Stop()
		for _, cl := range ViolationsC12(rp, o) {
			r.Confirm(rp, cl, o)
		}
		return
	}

	if !hx.SelfTest() {
		// first (what it finds can bring the whole process down once many sites are busy)
		before := res.MismatchCount()
		if err := OverlapPart(res, r.Scratch); err != nil {
			res.Infra = err.Error()
			return
		}
		if res.MismatchCount() > before {
			return
		}
	}
	cases := hx.LoadCases[Case](t, "Middleware")
	rnd := hx.Rand()
	groups := GroupByConfig(cases)
	res.AddExtra("cases_from_tlc", len(cases))
	res.AddExtra("configurations_from_tlc", len(groups))
	npad := 1
	if hx.Thorough() {
		npad = 3
	}
	jobs := Jobs(groups, rnd, npad)
	if hx.SelfTest() {
		jobs = jobs[:min(len(jobs), 24)]
	} else {
		r.Tr = NewTracer(t, "c12_middleware.ndjson")
	}
	res.AddExtra("instances_started", len(jobs))
	r.RunAll(jobs, hx.SelfTest())
	if !hx.SelfTest() && hx.Replay() == "" {
		if err := TemplateFailurePart(res, r.Scratch); err != nil && res.Infra == "" {
			res.Infra = err.Error()
		}
	}

	if r.Tr != nil {
		r.Tr.TW.Close()
		res.Traces = append(res.Traces, hx.TraceFile{Spec: "middlewaretrace", File: r.Tr.TW.Path, Count: r.Tr.N, Key: "observed-requests"})
	}
	if hx.SelfTest() {
		// the trace binding: a recorded request with a duplicated commit event must be rejected
		ntr := NewTracer(t, "c12_selftest.ndjson")
		f, err := StartFixture(Cfg{On: []string{"log"}, Errors: "default"}, r.Scratch, "")
		if err != nil {
			res.Infra = err.Error()
			return
		}
		c := Case{On: []string{"log"}, Errors: "default", Path: "plain", Beh: Beh{K: "ret", S: 404}, Eff: Beh{K: "ret", S: 404}}
		o := f.Run(c, "st")
		f.Stop()
		ntr.Record(c, o, true)
		ntr.TW.Close()
		res.Traces = append(res.Traces, hx.TraceFile{Spec: "middlewaretrace_selftest", File: ntr.TW.Path, Count: 1, Key: "selftest-duplicated-commit-not-noticed"})
		if r.Hits < res.Evaluations {
			res.Infra = fmt.Sprintf("selftest: corrupted expectation noticed in only %d of %d cases", r.Hits, res.Evaluations)
		}
	}
	res.Replayed = res.Evaluations
	r.DriftReport()
	if r.Infra != nil {
		res.Infra = r.Infra.Error()
	}
}
