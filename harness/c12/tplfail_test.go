package c12

// One more inner behaviour (added after fault seeding): a template served by the static file
// server - which sets Content-Length - that parses but fails while it executes. templates then
// reports 500 without having written: the client must get a complete 500 response (the configured
// error page where there is one), committed once, and the connection must stay in step.

import (
	"fmt"
	"os"
	"path/filepath"
	"strings"

	"verifharness/hx"
)

func TemplateFailurePart(res *hx.Result, scratch string) error {
	for _, errMode := range []string{"none", "default", "page"} {
		dir, err := os.MkdirTemp(scratch, "c12tplfail")
		if err != nil {
			return err
		}
		f, err := StartFixture(Cfg{On: []string{"templates"}, Errors: errMode}, dir, "")
		if err != nil {
			os.RemoveAll(dir)
			return err
		}
		// a long page so that its Content-Length differs a lot from any error body
		page := "<h1>page</h1>" + strings.Repeat("<p>filler</p>", 200) + `{{.Include "missing-include.html"}}` + "\n"
		os.WriteFile(filepath.Join(f.Dir, "root", "bad.html"), []byte(page), 0o644)
		cv := f.Exchange("tplfail-"+errMode, "/bad.html", "", false)
		f.Stop()
		os.RemoveAll(dir)
		res.Count("tplfail/" + errMode)
		want := "500 Internal Server Error\n"
		if errMode == "page" {
			want = pageStarBody
		}
		switch {
		case cv.Err != "":
			res.Add(hx.Mismatch{Key: "C12/error-gets-body/templates-execution-error/errors=" + errMode, What: fmt.Sprintf("a template that fails while executing must give a complete 500 response; the client got: %s (status %d, %d body bytes)", cv.Err, cv.Status, len(cv.Raw)), Observed: cv})
		case cv.Status != 500 || cv.Body != want:
			res.Add(hx.Mismatch{Key: "C12/error-gets-body/templates-execution-error/errors=" + errMode, What: fmt.Sprintf("a template that fails while executing must give status 500 with the error body %q; got status %d body %q", want, cv.Status, trunc(cv.Body, 80)), Observed: cv})
		case !cv.AfterOK:
			res.Add(hx.Mismatch{Key: "C12/one-response/templates-execution-error/errors=" + errMode, What: "after the 500 of a failing template the connection is out of step: " + cv.AfterErr, Observed: cv})
		}
	}
	return nil
}
