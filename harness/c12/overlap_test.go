package c12

import (
	"bufio"
	"bytes"
	"fmt"
	"io"
	"net"
	"net/http"
	"os"
	"path/filepath"
	"time"

	"verifharness/hx"
)

// OverlapPart: "only that request is affected" read the other way round - what one client receives
// does not depend on what the server is sending to another one at the same time. A site whose
// responses pass through the templates buffer streams two large static files (not templates) to two
// clients, one of them reading slowly, after a first download has completed; each client must get
// exactly its file.
func OverlapPart(res *hx.Result, scratch string) error {
	f, err := StartFixture(Cfg{On: []string{"templates"}, Errors: "none"}, scratch, "")
	if err != nil {
		return err
	}
	defer f.Stop()
	root := filepath.Join(f.Dir, "root")
	const size = 6 << 20
	mk := func(name string, seed byte) ([]byte, error) {
		b := make([]byte, size)
		for i := range b {
			b[i] = seed + byte(i%23) + byte((i>>12)%7)
		}
		return b, os.WriteFile(filepath.Join(root, name), b, 0o644)
	}
	wantA, err := mk("a.bin", 'A')
	if err != nil {
		return err
	}
	wantB, err := mk("b.bin", 'a')
	if err != nil {
		return err
	}
	get := func(name string, pause time.Duration) ([]byte, error) {
		c, err := net.DialTimeout("tcp", f.Addr(), 5*time.Second)
		if err != nil {
			return nil, err
		}
		defer c.Close()
		c.SetDeadline(time.Now().Add(60 * time.Second))
		fmt.Fprintf(c, "GET /%s HTTP/1.1\r\nHost: %s\r\nConnection: close\r\n\r\n", name, f.Addr())
		br := bufio.NewReaderSize(c, 4096)
		resp, err := http.ReadResponse(br, nil)
		if err != nil {
			return nil, err
		}
		defer resp.Body.Close()
		var buf bytes.Buffer
		if pause > 0 {
			// a slow reader: take a little, then let the server run into full socket buffers
			io.CopyN(&buf, resp.Body, 8192)
			time.Sleep(pause)
		}
		_, err = io.Copy(&buf, resp.Body)
		return buf.Bytes(), err
	}
	rounds := 2
	if hx.Thorough() {
		rounds = 6
	}
	for it := 0; it < rounds; it++ {
		if _, err := get("a.bin", 0); err != nil {
			return fmt.Errorf("overlap part, first download: %v", err)
		}
		type out struct {
			b   []byte
			err error
		}
		ch := make(chan out, 1)
		go func() { b, err := get("a.bin", 150*time.Millisecond); ch <- out{b, err} }()
		time.Sleep(30 * time.Millisecond)
		gotB, errB := get("b.bin", 0)
		oa := <-ch
		res.Count(fmt.Sprintf("overlap/%d", it))
		for _, x := range []struct {
			name      string
			got, want []byte
			err       error
		}{{"slow", oa.b, wantA, oa.err}, {"fast", gotB, wantB, errB}} {
			if x.err == nil && bytes.Equal(x.got, x.want) {
				continue
			}
			what := fmt.Sprintf("received %d bytes, the file has %d, first difference at %d", len(x.got), len(x.want), firstDiff(x.got, x.want))
			if x.err != nil {
				what = "download failed: " + x.err.Error()
			}
			res.Add(hx.Mismatch{Key: "C12/written-unaltered/overlap/" + x.name, Case: Case{Path: "overlap"},
				What: "two clients download two 6 MiB static files through a site with `templates` at the same time (one reads slowly), after a first download has completed: the " + x.name + " client " + what})
			return nil
		}
	}
	return nil
}

func firstDiff(a, b []byte) int {
	n := len(a)
	if len(b) < n {
		n = len(b)
	}
	for i := 0; i < n; i++ {
		if a[i] != b[i] {
			return i
		}
	}
	return n
}
