package c12

// replay.go: the replay loop shared by C12 and C20 - groups of cases per configuration, seeded
// padding with pass-through directives, confirmation of a violation on a fresh instance, model
// drift accounting and the ndjson trace of what was observed.

import (
	"fmt"
	"math/rand"
	"sort"
	"sync"
	"testing"

	"verifharness/hx"
)

var padWrappers = []string{"limits", "request_id", "rewrite", "basicauth", "mime"}

// paddings chooses the pass-through wrappers added to a configuration of the model.
func Paddings(c Case, rnd *rand.Rand, n int) [][]string {
	have := map[string]bool{}
	for _, w := range c.On {
		have[w] = true
	}
	var free []string
	for _, w := range padWrappers {
		if !have[w] {
			free = append(free, w)
		}
	}
	out := [][]string{}
	for i := 0; i < n; i++ {
		var p []string
		switch {
		case n > 1 && i == 0: // none
		case n > 1 && i == 1:
			p = append(p, free...)
		default:
			for _, w := range free {
				if rnd.Intn(2) == 0 {
					p = append(p, w)
				}
			}
		}
		out = append(out, p)
	}
	return out
}

type traceEv struct {
	Ev        string   `json:"ev"`
	On        []string `json:"on,omitempty"`
	Errors    string   `json:"errors,omitempty"`
	Path      string   `json:"path,omitempty"`
	Gz        *bool    `json:"gz,omitempty"`
	Beh       *Beh     `json:"beh,omitempty"`
	S         *int     `json:"s,omitempty"`
	Status    *int     `json:"status,omitempty"`
	Body      []string `json:"body,omitempty"`
	Decodable *bool    `json:"decodable,omitempty"`
	Lines     *int     `json:"nlines,omitempty"`
}

type Tracer struct {
	mu sync.Mutex
	TW *hx.TraceWriter
	N  int
}

func (tr *Tracer) Record(c Case, o Obs, corrupt bool) {
	if tr == nil || tr.TW == nil {
		return
	}
	tr.mu.Lock()
	defer tr.mu.Unlock()
	if tr.N > 0 {
		tr.TW.Emit(traceEv{Ev: "reset"})
	}
	tr.N++
	on := c.On
	if on == nil {
		on = []string{}
	}
	gz := c.Gz
	beh := c.Beh
	tr.TW.Emit(map[string]interface{}{"ev": "req", "on": on, "errors": c.Errors, "path": c.Path, "gz": gz, "beh": beh})
	for i := range o.Commits {
		s := o.Commits[i]
		if corrupt && i == 0 {
			tr.TW.Emit(map[string]interface{}{"ev": "commit", "s": s}) // selftest: one commit event too many
		}
		tr.TW.Emit(map[string]interface{}{"ev": "commit", "s": s})
	}
	body := o.Body
	if body == nil {
		body = []string{}
	}
	tr.TW.Emit(map[string]interface{}{"ev": "end", "status": o.Status, "body": body, "decodable": o.Decodable, "nlines": len(o.Lines)})
}

type Runner struct {
	Res     *hx.Result
	Scratch string
	mu      sync.Mutex
	Infra   error
	Drift   map[string]int
	DriftEx []string
	Hits    int
	Tr      *Tracer
	Check   func(Case, Obs) []string // the declarative predicates to judge by
	Prop    string
}

func (r *Runner) setInfra(err error) {
	r.mu.Lock()
	if r.Infra == nil {
		r.Infra = err
	}
	r.mu.Unlock()
}

// confirm re-runs the case on a fresh instance; only a reproduced violation is reported.
func (r *Runner) Confirm(c Case, clause string, first Obs) {
	f, err := StartFixture(c.Cfg(), r.Scratch, "")
	if err != nil {
		r.setInfra(err)
		return
	}
	defer f.Stop()
	o := f.Run(c, "confirm")
	for _, cl := range r.Check(c, o) {
		if cl == clause {
			r.Res.Add(hx.Mismatch{Key: r.Prop + "/" + clause + "/" + c.Key(),
				What: fmt.Sprintf("%s violated for %s (pad %v): status=%d body=%v commits=%v decodable=%v lines=%v after_ok=%v err=%q", clause, c.Key(), c.Pad, o.Status, o.Body, o.Commits, o.Decodable, o.Lines, o.AfterOK, o.Err),
				Case: c, Expected: c.Out, Observed: o})
			return
		}
	}
}

// runGroup plays all cases of one configuration (+ padding) on one instance.
func (r *Runner) RunGroup(cases []Case, selftest bool) {
	if len(cases) == 0 {
		return
	}
	f, err := StartFixture(cases[0].Cfg(), r.Scratch, "")
	if err != nil {
		r.setInfra(err)
		return
	}
	defer f.Stop()
	for i, c := range cases {
		orig := c
		if selftest {
			// corrupt the expectation: the binding must notice
			switch {
			case c.Eff.K == "write":
				c.Eff.S++
			case c.Eff.K == "ret" && c.Eff.S >= 400:
				c.Eff.S++
			case c.Eff.K == "panicbefore":
				c.Eff.K, c.Eff.S = "write", 200
			default:
				c.Out.Status++
			}
		}
		o := f.Run(c, fmt.Sprintf("c%d", i))
		viol := r.Check(c, o)
		nt := ""
		if len(c.On) >= 2 || c.Errors != "none" {
			nt = c.Key()
		}
		r.Res.Count(nt)
		if i == 0 {
			r.Res.Sample(map[string]interface{}{"case": c.Key(), "pad": c.Pad, "script": c.Script(), "url_path": c.URLPath(), "observed": o, "model": c.Out})
		}
		if selftest {
			if len(viol) > 0 || Drift(c, o) != "" {
				r.mu.Lock()
				r.Hits++
				r.mu.Unlock()
			}
			continue
		}
		r.Tr.Record(orig, o, false)
		if len(viol) == 0 {
			if d := Drift(c, o); d != "" {
				r.mu.Lock()
				r.Drift[c.Key()]++
				if len(r.DriftEx) < 8 {
					r.DriftEx = append(r.DriftEx, c.Key()+": "+d)
				}
				r.mu.Unlock()
			}
			continue
		}
		for _, cl := range viol {
			r.Confirm(c, cl, o)
		}
	}
}

// RunAll plays the groups on 12 workers.
func (r *Runner) RunAll(jobs [][]Case, selftest bool) {
	ch := make(chan []Case)
	var wg sync.WaitGroup
	for w := 0; w < 12; w++ {
		wg.Add(1)
		go func() {
			defer wg.Done()
			for g := range ch {
				r.RunGroup(g, selftest)
			}
		}()
	}
	for _, g := range jobs {
		ch <- g
	}
	close(ch)
	wg.Wait()
}

// Jobs pads every configuration group n times.
func Jobs(groups [][]Case, rnd *rand.Rand, n int) [][]Case {
	var jobs [][]Case
	for _, g := range groups {
		for _, pad := range Paddings(g[0], rnd, n) {
			gg := make([]Case, len(g))
			for i := range g {
				gg[i] = g[i]
				gg[i].Pad = pad
			}
			jobs = append(jobs, gg)
		}
	}
	return jobs
}

// DriftReport stores the drift accounting in the result.
func (r *Runner) DriftReport() {
	keys := make([]string, 0, len(r.Drift))
	for k := range r.Drift {
		keys = append(keys, k)
	}
	sort.Strings(keys)
	r.Res.AddExtra("model_drift_cases", len(keys))
	if r.DriftEx == nil {
		r.DriftEx = []string{}
	}
	r.Res.AddExtra("model_drift_examples", r.DriftEx)
}

func NewTracer(t testing.TB, name string) *Tracer { return &Tracer{TW: hx.NewTrace(t, name)} }
