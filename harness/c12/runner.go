package c12

// runner.go: one abstract case of Middleware.tla -> concrete request(s) -> observation, and the
// declarative predicates of the specification evaluated on the observation (shared by C12 and C20).

import (
	"fmt"
	"os"
	"regexp"
	"sort"
	"strconv"
	"strings"
)

type Beh struct {
	K string `json:"k"`
	S int    `json:"s"`
	E bool   `json:"e"`
	X bool   `json:"x"`
}

func (b Beh) String() string { return fmt.Sprintf("%s:%d:e=%v:x=%v", b.K, b.S, b.E, b.X) }

type Line struct {
	St int      `json:"st"`
	Sz []string `json:"sz"`
}

// Outcome is the terminal state of the specification for the case (operator Outcome).
type Outcome struct {
	Status    int      `json:"status"`
	Body      []string `json:"body"`
	Decodable bool     `json:"decodable"`
	Gz        bool     `json:"gz"`
	Commits   []int    `json:"commits"`
	Lines     []Line   `json:"lines"`
	Errlog    int      `json:"errlog"`
}

// Case is one CASE line of Middleware.tla (+ the concretisation choices of the harness).
type Case struct {
	On     []string `json:"on"`
	Errors string   `json:"errors"`
	Path   string   `json:"path"`
	Gz     bool     `json:"gz"`
	Beh    Beh      `json:"beh"`
	Eff    Beh      `json:"eff"`
	Out    Outcome  `json:"out"`
	Pad    []string `json:"pad,omitempty"` // pass-through wrappers added by the harness (not in the model's outcome)
}

func (c Case) Cfg() Cfg {
	on := append(append([]string(nil), c.On...), c.Pad...)
	return Cfg{On: on, Errors: c.Errors}
}

func (c Case) CfgKey() string {
	return "on={" + strings.Join(c.On, ",") + "}/errors=" + c.Errors + "/pad={" + strings.Join(c.Pad, ",") + "}"
}

// Key identifies the case without run-dependent text (padding excluded: it must not matter).
func (c Case) Key() string {
	return fmt.Sprintf("on={%s}/errors=%s/path=%s/gz=%v/beh=%s", strings.Join(c.On, ","), c.Errors, c.Path, c.Gz, c.Beh)
}

func (c Case) EffErr() string {
	if c.Errors == "none" && c.Cfg().Has("gzip") {
		return "default"
	}
	return c.Errors
}

func (c Case) URLPath() string {
	switch c.Path {
	case "tpl":
		return "/x.html"
	case "st404":
		return "/st404"
	case "st204":
		return "/st204"
	}
	if c.Cfg().Has("rewrite") && len(c.On)%2 == 0 {
		return "/rw" // rewritten to /x by the padding rule
	}
	return "/x"
}

// panicOp picks what the handler panics with - a string, an error value, net/http's
// ErrAbortHandler sentinel or a run-time error (the containment clause is about any panic);
// the choice is a function of the case so that a replay panics the same way.
func (c Case) panicOp() string {
	kinds := []string{"panic", "panic:err", "panic:abort", "panic:runtime"}
	return kinds[(len(c.On)*7+len(c.Path)*3+len(c.Errors)+c.Beh.S)%len(kinds)]
}

// Script renders the behaviour of the innermost handler for verifprobe.
func (c Case) Script() string {
	b := c.Beh
	hdr := "hdr:X-Keep=kept;hdr:X-Remove=handler;"
	switch b.K {
	case "ret":
		if b.E {
			return "reterr:" + strconv.Itoa(b.S)
		}
		return "ret:" + strconv.Itoa(b.S)
	case "write":
		s := hdr
		if b.X {
			s += "status:" + strconv.Itoa(b.S) + ";"
		}
		s += "text:" + handlerBody + ";"
		if b.E {
			return s + "reterr:0"
		}
		return s + "ret:0"
	case "hintwrite":
		// an informational header (103 Early Hints) before the response
		s := hdr + "status:103;status:" + strconv.Itoa(b.S) + ";text:" + handlerBody + ";"
		return s + "ret:0"
	case "writeret":
		// breaks the handler contract: writes a 200 response, then returns an error status
		s := hdr
		if b.X {
			s += "status:200;"
		}
		s += "text:" + handlerBody + ";"
		if b.E {
			return s + "reterr:" + strconv.Itoa(b.S)
		}
		return s + "ret:" + strconv.Itoa(b.S)
	case "panicbefore":
		return c.panicOp()
	case "panicafter":
		s := hdr + "status:" + strconv.Itoa(b.S) + ";text:" + handlerBody + ";"
		if b.X {
			s += "flush;"
		}
		return s + c.panicOp()
	}
	return "ret:0"
}

// Variant selects the client variation of a case (a function of the case, so that a replay does the same).
func Variant(c Case) int {
	h := 0
	for _, b := range []byte(c.Key()) {
		h = (h*31 + int(b)) % 1000003
	}
	return h % 4
}

// ObsLine is one access-log line of the case ("{status} {size} {>X-Case}").
type ObsLine struct {
	Status int    `json:"status"`
	Size   int    `json:"size"`
	Raw    string `json:"raw,omitempty"`
}

// Obs is everything observed for one case.
type Obs struct {
	Status    int       `json:"status"`
	Body      []string  `json:"body"` // the decoded body split into the tokens of the specification
	Decodable bool      `json:"decodable"`
	Gz        bool      `json:"gz"`
	Commits   []int     `json:"commits"`
	RawLen    int       `json:"raw_len"` // body bytes on the wire
	Lines     []ObsLine `json:"lines"`
	AfterOK   bool      `json:"after_ok"`
	Err       string    `json:"err,omitempty"`
	Escaped   bool      `json:"panic_escaped"`
	XKeep     string    `json:"x_keep"`
	XRemove   string    `json:"x_remove"`
	XAdded    string    `json:"x_added"`
	BodyText  string    `json:"body_text,omitempty"`
}

var (
	visibleRe = regexp.MustCompile(`^\[ERROR \d+ [^\]]*\] probe error\n`)
	tokenText = map[string]string{"B": handlerBody, "E404": "404 Not Found\n", "E500": "500 Internal Server Error\n",
		"P404": page404Body, "Pstar": pageStarBody}
	tokenOrder = []string{"B", "E404", "E500", "P404", "Pstar"}
)

// Tokens splits a decoded body into the parts the specification talks about.
func Tokens(body string) []string {
	out := []string{}
	for body != "" {
		hit := false
		for _, t := range tokenOrder {
			if strings.HasPrefix(body, tokenText[t]) {
				out = append(out, t)
				body = body[len(tokenText[t]):]
				hit = true
				break
			}
		}
		if hit {
			continue
		}
		if m := visibleRe.FindString(body); m != "" {
			out = append(out, "V")
			body = body[len(m):]
			continue
		}
		if strings.HasPrefix(body, "[PANIC ") {
			out = append(out, "VP") // the panic text and stack trace run to the end
			break
		}
		out = append(out, "?"+trunc(body, 40))
		break
	}
	return out
}

// Run plays the case on the fixture (which must have been started for c.Cfg()).
func (f *Fixture) Run(c Case, id string) Obs {
	// two variations of the client that the model takes no notice of (the statement speaks of every
	// request): for an error reported without writing - the answer is then made by errors / log /
	// the server - the request carries conditional and range headers (they mean nothing for an
	// error page), or the client shuts down its sending side and waits while the handler takes a moment
	var cv ClientView
	noWrite := (c.Eff.K == "ret" && c.Eff.S >= 400) || c.Eff.K == "panicbefore"
	switch v := Variant(c); {
	case noWrite && v == 1 && c.Eff.K == "ret":
		cv = f.Exchange(id, c.URLPath(), c.Script(), c.Gz, "Range: bytes=0-3", "If-None-Match: *", `If-Match: "nomatch"`)
	case noWrite && v == 2 && c.Path != "st404":
		cv = f.ExchangeHalfClosed(id, c.URLPath(), "sleep:30;"+c.Script(), c.Gz)
	default:
		cv = f.Exchange(id, c.URLPath(), c.Script(), c.Gz)
	}
	view, ok := f.Counter.View(id)
	o := Obs{Status: cv.Status, Gz: cv.Gzipped, Commits: view.Commits, RawLen: len(cv.Raw), AfterOK: cv.AfterOK,
		Err: cv.Err, Escaped: view.Panicked}
	if o.Commits == nil {
		o.Commits = []int{}
	}
	if !ok && o.Err == "" {
		o.Err = "handler did not finish"
	}
	if cv.AfterErr != "" && o.Err == "" && !cv.AfterOK {
		o.Err = cv.AfterErr
	}
	// undecodable: labelled gzip but not a gzip stream, or a gzip stream without the label
	o.Decodable = !strings.HasPrefix(cv.Body, "UNDECODABLE-GZIP") && !(!cv.Gzipped && strings.Contains(cv.Body, "\x1f\x8b\x08"))
	if o.Decodable {
		o.Body = Tokens(cv.Body)
	} else {
		o.Body = []string{"GARBLED"}
	}
	if len(o.Body) > 0 && strings.HasPrefix(o.Body[len(o.Body)-1], "?") {
		o.BodyText = trunc(cv.Body, 200)
	}
	if cv.Header != nil {
		o.XKeep, o.XRemove, o.XAdded = cv.Header.Get("X-Keep"), cv.Header.Get("X-Remove"), cv.Header.Get("X-Added")
	}
	if f.Cfg.Has("log") {
		o.Lines = f.linesFor(id)
	}
	if o.Lines == nil {
		o.Lines = []ObsLine{}
	}
	return o
}

// linesFor reads what was appended to the access log since the last call and returns the
// lines of request id (the fixture serves one case at a time).
func (f *Fixture) linesFor(id string) []ObsLine {
	var out []ObsLine
	b, err := os.ReadFile(f.AccessLog(0))
	if err != nil {
		return out
	}
	if f.logOff > len(b) {
		f.logOff = 0
	}
	chunk := string(b[f.logOff:])
	f.logOff = len(b)
	for _, l := range strings.Split(chunk, "\n") {
		p := strings.Split(l, " ")
		if len(p) != 3 || p[2] != id {
			continue
		}
		st, e1 := strconv.Atoi(p[0])
		sz, e2 := strconv.Atoi(p[1])
		ol := ObsLine{Status: st, Size: sz}
		if e1 != nil || e2 != nil {
			ol.Raw = l
		}
		out = append(out, ol)
	}
	return out
}

// ---- the declarative predicates of Middleware.tla, on the observation -------------------------

func noBody(s int) bool { return s == 204 || s == 304 }

func eqToks(a, b []string) bool {
	if len(a) != len(b) {
		return false
	}
	for i := range a {
		if a[i] != b[i] {
			return false
		}
	}
	return true
}

// ViolationsC12 returns the clauses of C12 the observation violates (empty = holds).
func ViolationsC12(c Case, o Obs) []string {
	var v []string
	b := c.Eff
	// exactly one response, the connection stays in step, nothing escaped the server
	if o.Err != "" || !o.AfterOK || o.Escaped {
		v = append(v, "one-response")
	}
	// OneCommitP
	if b.K != "panicafter" && b.K != "writeret" && len(o.Commits) > 1 {
		v = append(v, "one-commit")
	}
	// ErrorGetsBodyP
	if b.K == "ret" && b.S >= 400 {
		ok := o.Status == b.S && len(o.Body) > 0 && o.Decodable
		if ok && c.EffErr() == "page" {
			want := "Pstar"
			if b.S == 404 {
				want = "P404"
			}
			ok = eqToks(o.Body, []string{want})
		}
		if !ok {
			v = append(v, "error-gets-body")
		}
	}
	// WrittenUnalteredP (+ the header clause: only configured header changes)
	if b.K == "write" || b.K == "hintwrite" {
		want := []string{"B"}
		if noBody(b.S) {
			want = []string{}
		}
		ok := o.Status == b.S && o.Decodable && eqToks(o.Body, want)
		if ok && c.Path != "st204" {
			ok = o.XKeep == "kept"
			if c.Cfg().Has("header") {
				ok = ok && o.XRemove == "" && o.XAdded == "by-header"
			} else {
				ok = ok && o.XRemove == "handler"
			}
		}
		if !ok {
			v = append(v, "written-unaltered")
		}
	}
	// PanicP
	if b.K == "panicbefore" && !(o.Status == 500 && len(o.Commits) == 1 && len(o.Body) > 0) {
		v = append(v, "panic-500")
	}
	if b.K == "panicafter" && !(o.Status == b.S || o.Status == 500) {
		v = append(v, "panic-500")
	}
	return v
}

// ViolationsC20 returns the violated clauses of the access-log half of C20 (one log, scope /).
func ViolationsC20(c Case, o Obs) []string {
	var v []string
	want := 0
	if c.Cfg().Has("log") {
		want = 1
	}
	if len(o.Lines) != want {
		v = append(v, "one-line-per-log")
	}
	if c.Eff.K != "panicafter" {
		for _, l := range o.Lines {
			if l.Raw != "" || l.Status != o.Status || l.Size != o.RawLen {
				v = append(v, "status-size-match-client")
				break
			}
		}
	}
	return v
}

// Drift reports where the observation differs from the operational model although no
// predicate is violated (recorded in the evidence, never a verdict).
func Drift(c Case, o Obs) string {
	var d []string
	if o.Status != c.Out.Status {
		d = append(d, fmt.Sprintf("status %d (model %d)", o.Status, c.Out.Status))
	}
	if o.Decodable != c.Out.Decodable {
		d = append(d, fmt.Sprintf("decodable %v (model %v)", o.Decodable, c.Out.Decodable))
	} else if o.Decodable && !eqToks(o.Body, c.Out.Body) {
		d = append(d, fmt.Sprintf("body %v (model %v)", o.Body, c.Out.Body))
	}
	if fmt.Sprint(o.Commits) != fmt.Sprint(c.Out.Commits) {
		d = append(d, fmt.Sprintf("commits %v (model %v)", o.Commits, c.Out.Commits))
	}
	if o.Decodable && c.Out.Decodable && o.Gz != c.Out.Gz && len(o.Body) > 0 {
		d = append(d, fmt.Sprintf("gzip %v (model %v)", o.Gz, c.Out.Gz))
	}
	return strings.Join(d, "; ")
}

// GroupByConfig orders cases so that all cases of one configuration are adjacent.
func GroupByConfig(cases []Case) [][]Case {
	m := map[string][]Case{}
	for _, c := range cases {
		k := c.CfgKey()
		m[k] = append(m[k], c)
	}
	keys := make([]string, 0, len(m))
	for k := range m {
		keys = append(keys, k)
	}
	sort.Strings(keys)
	out := make([][]Case, 0, len(keys))
	for _, k := range keys {
		out = append(out, m[k])
	}
	return out
}
