package c01

// The HTTP/2 clause of C01: a request that matches no site is answered 421 on HTTP/2 (404 on
// HTTP/1.1) and runs no site's handlers. A few site sets of the TLC table are started with
// `tls self_signed`; the client handshakes under the name of an existing site and then sends
// requests whose Host header is taken from the table.

import (
	"crypto/tls"
	"fmt"
	"io"
	"net/http"
	"strconv"
	"strings"

	"verifharness/hx"
)

func h2Casketfile(c *vcase, port int) string {
	var b strings.Builder
	for i, s := range c.Sites {
		fmt.Fprintf(&b, "%s {\n\tbind 127.0.0.1\n\ttls self_signed\n\theader / X-Site s%d\n\tstatus 204 /\n}\n", s.addr("port", port), i+1)
	}
	return b.String()
}

// h2Check runs one site set over TLS + HTTP/2 and HTTP/1.1; returns mismatches as text.
func h2Check(c *vcase) (int, []string, error) {
	port := hx.FreePort()
	s, err := start(h2Casketfile(c, port), port)
	if err != nil {
		return 0, nil, fmt.Errorf("h2 start: %v", err)
	}
	defer s.Stop()
	sni := renderHost(c.Sites[0].H)
	var bad []string
	n := 0
	for _, proto := range []string{"h2", "http/1.1"} {
		tr := &http.Transport{TLSClientConfig: &tls.Config{InsecureSkipVerify: true, ServerName: strings.Trim(sni, "[]"), NextProtos: []string{proto}}, ForceAttemptHTTP2: proto == "h2"}
		cl := &http.Client{Transport: tr, CheckRedirect: func(*http.Request, []*http.Request) error { return http.ErrUseLastResponse }}
		for i, h := range c.Hosts {
			host := renderHost(h)
			if host == "" {
				continue // HTTP/2 has no empty :authority
			}
			for j, p := range c.Paths {
				req, _ := http.NewRequest("GET", "https://127.0.0.1:"+strconv.Itoa(port)+strings.Join(p, ""), nil)
				req.Host = host
				resp, err := cl.Do(req)
				if err != nil {
					return n, bad, fmt.Errorf("h2 request: %v", err)
				}
				body, _ := io.ReadAll(resp.Body)
				resp.Body.Close()
				n++
				want := c.Table[i][j]
				wantProto := map[string]int{"h2": 2, "http/1.1": 1}[proto]
				if resp.ProtoMajor != wantProto {
					return n, bad, fmt.Errorf("negotiated HTTP/%d, wanted %s", resp.ProtoMajor, proto)
				}
				ok := false
				if want == 0 {
					code := 404
					if proto == "h2" {
						code = 421
					}
					ok = resp.StatusCode == code && resp.Header.Get("X-Site") == "" && strings.Contains(string(body), "is not served on this interface")
				} else {
					ok = resp.StatusCode == 204 && resp.Header.Get("X-Site") == "s"+strconv.Itoa(want)
				}
				if !ok {
					bad = append(bad, fmt.Sprintf("%s Host=%q path=%s: status=%d X-Site=%q, expected site index %d (0 = none: 421 on HTTP/2, 404 on HTTP/1.1)", proto, host, strings.Join(p, ""), resp.StatusCode, resp.Header.Get("X-Site"), want))
				}
			}
		}
		tr.CloseIdleConnections()
	}
	return n, bad, nil
}
