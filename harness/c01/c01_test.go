// C01 - virtual-host routing: replay of the routing tables TLC computed from VHost.tla
// (BestSite, proven equal to the stepwise model of vhostTrie.Match by TLC) against real
// casket instances started with casket.Start on a loopback listener.
package c01

import (
	"fmt"
	"math/rand"
	"regexp"
	"sort"
	"strconv"
	"strings"
	"sync"
	"testing"

	"github.com/tmpim/casket/caskethttp/httpserver"
	"verifharness/hx"
	_ "verifharness/probe"
)

type site struct {
	H  []string `json:"h"`
	P  []string `json:"p"`
	Fb bool     `json:"fb"`
}

type vcase struct {
	Sites []site     `json:"sites"`
	Hosts [][]string `json:"hosts"`
	Paths [][]string `json:"paths"`
	Table [][]int    `json:"table"`
	// replay only: restrict to one request / one rendering
	Only *only `json:"only,omitempty"`
}

type only struct {
	Form   string `json:"form"`
	Order  []int  `json:"order"`
	HostHd string `json:"host_header"`
	Path   string `json:"path"`
	Want   int    `json:"want"`
}

func renderHost(h []string) string {
	s := strings.Join(h, ".")
	if strings.Contains(s, ":") {
		return "[" + s + "]"
	}
	return s
}

func (s site) addr(form string, port int) string {
	h := renderHost(s.H)
	p := strings.Join(s.P, "")
	if p == "/" {
		p = ""
	}
	if form == "port" || h == "" {
		return h + ":" + strconv.Itoa(port) + p
	}
	return h + p
}

func (s site) name() string { return renderHost(s.H) + strings.Join(s.P, "") }

func casketfile(c *vcase, order []int, form string, port int) string {
	var b strings.Builder
	for _, i := range order {
		s := c.Sites[i]
		fmt.Fprintf(&b, "%s {\n\tbind 127.0.0.1\n\ttls off\n\theader / X-Site s%d\n\tstatus 204 /\n", s.addr(form, port), i+1)
		if s.Fb {
			b.WriteString("\tveriffallback\n")
		}
		b.WriteString("}\n")
	}
	if len(order) == 0 {
		// an instance needs at least one site to own the listener: a site nobody asks for
		fmt.Fprintf(&b, "unrelated.invalid:%d {\n\tbind 127.0.0.1\n\ttls off\n\tstatus 204 /\n}\n", port)
	}
	return b.String()
}

func start(cf string, port int) (*hx.Site, error) {
	var err error
	for try := 0; try < 3; try++ {
		var s *hx.Site
		s, err = hx.StartHTTP(cf, "")
		if err == nil {
			return s, nil
		}
		if !strings.Contains(err.Error(), "address already in use") {
			break
		}
	}
	return nil, err
}

// hostSpellings: canonical, upper case, with port, upper case with port
func hostSpellings(h string, port int) []string {
	p := ":" + strconv.Itoa(port)
	return []string{h, strings.ToUpper(h), h + p, strings.ToUpper(h) + p}
}

type obs struct {
	Status int    `json:"status"`
	Site   string `json:"x_site"`
	Body   string `json:"body,omitempty"`
}

func ask(rc *hx.RawConn, hostHd, path string) (obs, error) {
	r, err := rc.Get("GET", path, hostHd)
	if err != nil {
		return obs{}, err
	}
	o := obs{Status: r.Status, Site: r.Header.Get("X-Site")}
	if r.Status != 204 {
		o.Body = string(r.Body)
	}
	return o, nil
}

func okFor(o obs, want int) bool {
	if want == 0 {
		return o.Status == 404 && o.Site == "" && strings.Contains(o.Body, "is not served on this interface")
	}
	return o.Status == 204 && o.Site == "s"+strconv.Itoa(want)
}

// runConfig starts one rendering of the site set and sends the request battery.
// It returns the number of requests and the mismatches found (as replayable cases).
func runConfig(c *vcase, order []int, form string, port int, rnd *rand.Rand, full bool) (int, []vcase, []obs, error) {
	cf := casketfile(c, order, form, port)
	s, err := start(cf, port)
	if err != nil {
		return 0, nil, nil, fmt.Errorf("start failed for\n%s: %v", cf, err)
	}
	defer s.Stop()
	rc, err := hx.DialRaw("127.0.0.1:" + strconv.Itoa(port))
	if err != nil {
		return 0, nil, nil, err
	}
	defer rc.Close()
	n := 0
	var bad []vcase
	var badObs []obs
	try := func(hostHd, path string, want int) error {
		o, err := ask(rc, hostHd, path)
		if err != nil {
			return err
		}
		n++
		if !okFor(o, want) {
			cc := *c
			cc.Only = &only{Form: form, Order: order, HostHd: hostHd, Path: path, Want: want}
			bad = append(bad, cc)
			badObs = append(badObs, o)
		}
		return nil
	}
	if c.Only != nil {
		err := try(c.Only.HostHd, c.Only.Path, c.Only.Want)
		return n, bad, badObs, err
	}
	for i, h := range c.Hosts {
		sp := hostSpellings(renderHost(h), port)
		for j, p := range c.Paths {
			want := c.Table[i][j]
			path := strings.Join(p, "")
			if full {
				for _, hh := range sp {
					if err := try(hh, path, want); err != nil {
						return n, bad, badObs, err
					}
				}
			} else {
				if err := try(sp[0], path, want); err != nil {
					return n, bad, badObs, err
				}
				// a second spelling of the same request: Host in another letter case / with the
				// port, and (every other time) one letter of the path percent-encoded - the
				// request path is the decoded one
				p2 := path
				if rnd.Intn(2) == 0 {
					p2 = encodeOneLetter(path, rnd)
				}
				if err := try(sp[1+rnd.Intn(3)], p2, want); err != nil {
					return n, bad, badObs, err
				}
			}
		}
	}
	return n, bad, badObs, nil
}

// encodeOneLetter percent-encodes one letter of the path (an unreserved character: the decoded
// path is unchanged).
func encodeOneLetter(path string, rnd *rand.Rand) string {
	var idx []int
	for i := 0; i < len(path); i++ {
		if path[i] != '/' {
			idx = append(idx, i)
		}
	}
	if len(idx) == 0 {
		return path
	}
	i := idx[rnd.Intn(len(idx))]
	return path[:i] + fmt.Sprintf("%%%02X", path[i]) + path[i+1:]
}

func siteSetKey(c *vcase) string {
	var names []string
	for _, s := range c.Sites {
		n := s.name()
		if s.Fb {
			n += "(fallback)"
		}
		names = append(names, n)
	}
	sort.Strings(names)
	return strings.Join(names, ",")
}

var portRe = regexp.MustCompile(`:\d+$`)

func mmKey(c *vcase) string {
	return fmt.Sprintf("C01/sites={%s}/form=%s/host=%q/path=%s", siteSetKey(c), c.Only.Form, portRe.ReplaceAllString(strings.ToLower(c.Only.HostHd), ":PORT"), c.Only.Path)
}

func TestC01(t *testing.T) {
	hx.Quiet()
	res := hx.NewResult("TestC01", "one case = one set of <=K site addresses (host pattern x path prefix x fallback flag) from VHost.tla, rendered in 2+ declaration orders and 2 address forms, probed with 14 hosts x 8 paths x host spellings; non-trivial = site set with >=2 sites or a wildcard/fallback host")
	defer res.Write(t)

	if rp, ok := hx.LoadReplay[vcase](t); ok {
		replayOne(t, res, &rp)
		return
	}

	cases := hx.LoadCases[vcase](t, "VHost")
	rnd := hx.Rand()
	// quick: all site sets of size <= 1, a seeded sample of the larger ones
	var todo []int
	if hx.Thorough() {
		todo = hx.SampleIdx(rnd, len(cases), 20000)
	} else {
		var small, big []int
		for i := range cases {
			if len(cases[i].Sites) <= 1 {
				small = append(small, i)
			} else {
				big = append(big, i)
			}
		}
		todo = small
		for _, k := range hx.SampleIdx(rnd, len(big), 500) {
			todo = append(todo, big[k])
		}
	}
	res.AddExtra("site_sets_from_tlc", len(cases))
	res.AddExtra("site_sets_replayed", len(todo))

	type job struct{ idx int }
	jobs := make(chan int)
	var wg sync.WaitGroup
	var mu sync.Mutex
	requests := 0
	var infra error
	selftestHit := false
	for w := 0; w < 12; w++ {
		wg.Add(1)
		wrnd := rand.New(rand.NewSource(hx.Seed()*1000 + int64(w)))
		go func() {
			defer wg.Done()
			for idx := range jobs {
				c := &cases[idx]
				if hx.SelfTest() && len(c.Sites) > 0 {
					// corrupt the expectation: the binding must notice
					cc := *c
					cc.Table = append([][]int(nil), c.Table...)
					row := append([]int(nil), cc.Table[0]...)
					row[0] = (row[0] + 1) % (len(c.Sites) + 1)
					cc.Table[0] = row
					c = &cc
				}
				n := len(c.Sites)
				orders := [][]int{identity(n)}
				if n >= 2 {
					orders = append(orders, reversed(n))
				}
				if n >= 3 {
					orders = append(orders, wrnd.Perm(n))
				}
				for _, ord := range orders {
					port := hx.FreePort()
					nreq, bad, badObs, err := runConfig(c, ord, "port", port, wrnd, false)
					mu.Lock()
					requests += nreq
					if err != nil && infra == nil {
						infra = err
					}
					mu.Unlock()
					for k := range bad {
						if hx.SelfTest() {
							mu.Lock()
							selftestHit = true
							mu.Unlock()
							continue
						}
						confirm(res, &bad[k], badObs[k])
					}
				}
				nt := ""
				if n >= 2 || hasSpecial(c) {
					nt = siteSetKey(c)
				}
				res.Count(nt)
				if idx%97 == 0 {
					res.Sample(map[string]interface{}{"sites": siteSetKey(c), "casketfile": casketfile(c, identity(n), "port", 12345), "expected_table_rows_hosts_x_paths": c.Table})
				}
			}
		}()
	}
	for _, i := range todo {
		jobs <- i
	}
	close(jobs)
	wg.Wait()

	// second address form: sites declared without a port (httpserver.Port is process-global,
	// so this pass is serial); all site sets with an IP literal or catch-all host + a seeded sample
	nserial := 0
	if infra == nil && !hx.SelfTest() {
		port := hx.FreePort()
		oldPort := httpserver.Port
		httpserver.Port = strconv.Itoa(port)
		lim := 250
		if hx.Thorough() {
			lim = 3000
		}
		for _, idx := range todo {
			c := &cases[idx]
			if len(c.Sites) == 0 {
				continue
			}
			if !(hasIPLiteral(c) || rnd.Intn(10) == 0) || nserial >= lim {
				continue
			}
			nserial++
			n := len(c.Sites)
			ord := rnd.Perm(n)
			nreq, bad, badObs, err := runConfig(c, ord, "noport", port, rnd, false)
			requests += nreq
			if err != nil {
				infra = err
				break
			}
			for k := range bad {
				confirm(res, &bad[k], badObs[k])
			}
		}
		httpserver.Port = oldPort
	}
	// the HTTP/2 clause (421) on a few site sets over TLS
	if infra == nil && !hx.SelfTest() {
		nh2, lim := 0, 4
		if hx.Thorough() {
			lim = 40
		}
		h2req := 0
		for _, idx := range todo {
			c := &cases[idx]
			ok := len(c.Sites) >= 1 && len(c.Sites[0].H) >= 2 && c.Sites[0].H[0] != "*" && !hasIPLiteral(c)
			for _, st := range c.Sites {
				if st.H[0] == "" || st.Fb {
					ok = false
				}
			}
			if !ok || rnd.Intn(3) != 0 {
				continue
			}
			n, bad, err := h2Check(c)
			h2req += n
			if err != nil {
				infra = err
				break
			}
			for _, b := range bad {
				res.Add(hx.Mismatch{Key: "C01/h2/sites={" + siteSetKey(c) + "}/" + b[:strings.Index(b, ":")], What: b, Case: c})
			}
			if nh2++; nh2 >= lim {
				break
			}
		}
		res.AddExtra("tls_site_sets", nh2)
		res.AddExtra("tls_requests", h2req)
	}
	res.AddExtra("requests_sent", requests)
	res.AddExtra("noport_form_site_sets", nserial)
	if infra != nil {
		res.Infra = infra.Error()
	}
	if hx.SelfTest() && !selftestHit {
		res.Infra = "selftest: corrupted expectation was not noticed"
	}
	res.Replayed = res.Evaluations
}

func hasSpecial(c *vcase) bool {
	for _, s := range c.Sites {
		if s.Fb || s.H[0] == "*" || s.H[0] == "" || s.H[0] == "0" || s.H[0] == "::" {
			return true
		}
	}
	return false
}

func hasIPLiteral(c *vcase) bool {
	for _, s := range c.Sites {
		if strings.Contains(s.H[0], ":") || s.H[0] == "127" || s.H[0] == "0" {
			return true
		}
	}
	return false
}

// confirm re-runs a single mismatching request on a fresh instance; only a reproduced
// mismatch is reported.
func confirm(res *hx.Result, c *vcase, first obs) {
	port := hx.FreePort()
	old := httpserver.Port
	if c.Only.Form == "noport" {
		httpserver.Port = strconv.Itoa(port)
		defer func() { httpserver.Port = old }()
		// the Host spelling may carry the old port: re-point it
	}
	rnd := rand.New(rand.NewSource(1))
	_, bad, badObs, err := runConfig(c, c.Only.Order, c.Only.Form, port, rnd, false)
	if err != nil || len(bad) == 0 {
		return
	}
	want := "no site (404, no handler)"
	if c.Only.Want > 0 {
		want = "site " + c.Sites[c.Only.Want-1].name()
	}
	res.Add(hx.Mismatch{Key: mmKey(c), What: fmt.Sprintf("request Host=%q path=%s must be routed to %s; observed status=%d X-Site=%q", c.Only.HostHd, c.Only.Path, want, badObs[0].Status, badObs[0].Site),
		Case: c, Expected: c.Only.Want, Observed: badObs[0]})
	_ = first
}

func replayOne(t *testing.T, res *hx.Result, c *vcase) {
	if c.Only == nil {
		t.Fatalf("replay file has no single request")
	}
	port := hx.FreePort()
	if c.Only.Form == "noport" {
		httpserver.Port = strconv.Itoa(port)
	}
	_, bad, badObs, err := runConfig(c, c.Only.Order, c.Only.Form, port, rand.New(rand.NewSource(1)), false)
	res.Count("replay")
	res.Count("replay2")
	if err != nil {
		res.Infra = err.Error()
		return
	}
	if len(bad) > 0 {
		res.Add(hx.Mismatch{Key: mmKey(c), What: fmt.Sprintf("replayed: observed %+v want site index %d", badObs[0], c.Only.Want), Case: c, Observed: badObs[0]})
	}
}

func identity(n int) []int {
	o := make([]int, n)
	for i := range o {
		o[i] = i
	}
	return o
}

func reversed(n int) []int {
	o := make([]int, n)
	for i := range o {
		o[i] = n - 1 - i
	}
	return o
}
