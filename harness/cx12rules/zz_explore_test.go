package cx12rules

import (
	"fmt"
	"os"
	"path/filepath"
	"strings"
	"testing"

	"verifharness/hx"
)

// TestZZ is an experiment helper (not run by the driver): lines separated by ';' ('|' = line break
// inside a block), requests "METHOD target [X-Inner script]" separated by ';;'.
//
//	ZZ_LINES='header / -X-I;status 204 /a/b' ZZ_REQS='GET /a/f set:X-I=v;text:hi;;GET /a/b/' go test -tags verif -run TestZZ -v ./cx12rules/
func TestZZ(t *testing.T) {
	if os.Getenv("ZZ_LINES") == "" {
		t.Skip()
	}
	hx.Quiet()
	root := t.TempDir()
	for _, f := range []string{"index.html", "a/home.txt", "a/main.bin", "a/f.txt", "a/f.bin", "a/g.txt", "a/h", "a/h.txt", "a/b/main.bin", "a/b/k.bin"} {
		p := filepath.Join(root, f)
		os.MkdirAll(filepath.Dir(p), 0o755)
		os.WriteFile(p, []byte("FILE "+f), 0o644)
	}
	port := hx.FreePort()
	cf := fmt.Sprintf("127.0.0.1:%d {\n\troot %s\n\tbind 127.0.0.1\n\ttls off\n", port, root)
	for _, l := range strings.Split(os.Getenv("ZZ_LINES"), ";") {
		cf += "\t" + strings.ReplaceAll(l, "|", "\n\t") + "\n"
	}
	cf += "\tverifinner\n}\n"
	t.Log(cf)
	site, err := hx.StartHTTP(cf, "")
	if err != nil {
		t.Logf("START ERROR: %v", err)
		return
	}
	defer site.Stop()
	addr := fmt.Sprintf("127.0.0.1:%d", port)
	for _, rq := range strings.Split(os.Getenv("ZZ_REQS"), ";;") {
		f := strings.SplitN(rq, " ", 3)
		var hdr []string
		if len(f) == 3 {
			hdr = append(hdr, "X-Inner: "+f[2])
		}
		if id := os.Getenv("ZZ_RID"); id != "" {
			hdr = append(hdr, "X-Request-Id: "+id)
		}
		r, err := hx.OneShot(addr, f[0], f[1], addr, hdr...)
		if err != nil {
			t.Logf("%s -> ERR %v", rq, err)
			continue
		}
		delete(r.Header, "Date")
		t.Logf("%s -> %d %v body=%.120q", rq, r.Status, r.Header, string(r.Body))
	}
}
