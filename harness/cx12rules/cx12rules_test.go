// Extension of C12: the rule tables of the small response-shaping directives (specs/ResponseRules.tla).
//
// TLC enumerates sites = at most MaxLines lines from the pools of the spec (header, mime, status,
// request_id, index, ext, expvar, pprof, browse), runs the setups line by line, serves the 17-request
// battery step by step through the chain and emits, per site, whether the setups accept it and the
// expected answer to every request: status, who answered (file server + which file, the innermost
// handler, status rule, error fallback, listing, expvar, pprof, redirect), the path the innermost
// handler saw, the request id, and the value of every response header the model follows.
// This driver writes each site as a Casketfile (the pool lines carry their own text; fixture lines:
// root, bind, tls off, the test-only innermost directive verifinner, and - exactly when the site
// has a request_id line - an access log with the format "{request_id} {>X-Case}"), checks the
// setup verdict with casket.ValidateAndExecuteDirectives and casket.Start, sends the battery twice
// with raw HTTP/1.1 (second pass in reverse order on a second connection) and compares:
//
//	setup       accepted exactly when the model accepts (duplicates, arity)
//	answer      status, answering handler, body (token of the served file / INNER / error text ...)
//	status      a status rule answers exactly the paths under its base, longest base wins, nothing below is reached
//	index, ext  first existing index page / extension; the rewritten path is what the handlers below see
//	header      X-A X-B X-I X-Rid: all matching rules in written order, handler writes on top, deletions at commit
//	mime, content-type   Content-Type / X-Content-Type-Options
//	request-id  same id in the header placeholder, the handler's context and the log line; client id
//	            accepted iff configured and a UUID; fresh ids are v4 UUIDs, pairwise distinct
package cx12rules

import (
	"encoding/json"
	"fmt"
	"math/rand"
	"net"
	"net/http"
	"os"
	"path/filepath"
	"regexp"
	"sort"
	"strconv"
	"strings"
	"sync"
	"syscall"
	"testing"
	"time"

	"github.com/tmpim/casket"

	"verifharness/hx"
)

const module = "ResponseRules"

// ---------------------------------------------------------------- cases from TLC

type poolLine struct {
	ID   string   `json:"id"`
	D    string   `json:"d"`
	Text []string `json:"text"`
	Bad  string   `json:"bad"`
}

type reqJ struct {
	P     string `json:"p"`
	Inner string `json:"inner"`
	Cid   string `json:"cid"`
}

type scriptOp struct {
	K string `json:"k"`
	N string `json:"n"`
	V string `json:"v"`
}

type scriptJ struct {
	Ops []scriptOp `json:"ops"`
	Fin string     `json:"fin"`
}

// outJ is Out(...) of the spec: the expected answer to one request.
type outJ struct {
	Status  int                 `json:"status"`
	Kind    string              `json:"kind"` // file | inner | status | error | listing | expvar | pprof | redirect
	File    string              `json:"file"`
	Loc     string              `json:"loc"`
	Via     string              `json:"via"` // wrapper | outside
	Reached bool                `json:"reached"`
	Saw     string              `json:"saw"`
	Rid     string              `json:"rid"` // "" | cid:1 | fresh:<n>
	Fresh   bool                `json:"fresh"`
	Hdr     map[string][]string `json:"hdr"`
	Free    []string            `json:"free"` // header names whose value is modelled but not judged
	ExtK    int                 `json:"extk"`
	IdxK    int                 `json:"idxk"`
	Sel     int                 `json:"sel"`
	Mime    string              `json:"mime"`
}

type tcase struct {
	Kind    string              `json:"kind"` // head | site
	Reqs    []reqJ              `json:"reqs,omitempty"`
	Files   []string            `json:"files,omitempty"`
	Dirs    []string            `json:"dirs,omitempty"`
	Order   []string            `json:"order,omitempty"`
	Scripts map[string]scriptJ  `json:"scripts,omitempty"`
	Names   []string            `json:"names,omitempty"`
	Pool    []poolLine          `json:"pool,omitempty"`
	IDs     []string            `json:"ids,omitempty"` // site / ans: the site's lines, directive by directive in chain order
	Ok      bool                `json:"ok,omitempty"`  // site: the setups accept it
	X       int                 `json:"x,omitempty"`   // ans: number of the request (1-based)
	Out     *outJ               `json:"out,omitempty"` // ans: the expected answer
	Lines   map[string][]string `json:"-"`             // built here: directive -> its lines
	Exp     []outJ              `json:"-"`             // built here: the answers in battery order
}

// beh lets a replay file of this driver pass through TestC12 (which decodes every replay file as
// one of its own cases) as the trivial case "no wrapper, inner handler returns 200".
type beh struct {
	K string `json:"k"`
	S int    `json:"s"`
}

// rcase is what a replay file stores: the rendered rule lines of one site and one request.
type rcase struct {
	Clause string   `json:"clause"` // always starts with "responserules/"
	IDs    string   `json:"ids"`
	Text   []string `json:"text"` // Casketfile text of the pool lines, in file order
	Rid    bool     `json:"ridlog"`
	Files  []string `json:"files"`
	Dirs   []string `json:"dirs"`
	Ok     bool     `json:"ok"`
	ReqNo  int      `json:"reqno"`
	Req    *reqJ    `json:"req,omitempty"`
	Script string   `json:"script,omitempty"`
	Exp    *outJ    `json:"exp,omitempty"`
	// what TestC12 reads
	On     []string `json:"on"`
	Errors string   `json:"errors"`
	Path   string   `json:"path"`
	Beh    beh      `json:"beh"`
	Eff    beh      `json:"eff"`
}

func newRcase(clause, ids string, text []string, ridlog bool, fx *fixture, ok bool) rcase {
	return rcase{Clause: "responserules/" + clause, IDs: ids, Text: text, Rid: ridlog, Files: fx.files, Dirs: fx.dirs, Ok: ok,
		On: []string{}, Errors: "none", Path: "plain", Beh: beh{"ret", 200}, Eff: beh{"ret", 200}}
}

// ---------------------------------------------------------------- fixture

const (
	uuidCanon = "6ba7b810-9dad-41d1-80b4-00c04fd430c8"
	uuidURN   = "URN:UUID:6BA7B810-9DAD-41D1-80B4-00C04FD430C8"
	uuidJunk  = "not-a-uuid"
	innerBody = "INNER"
)

var v4re = regexp.MustCompile(`^[0-9a-f]{8}-[0-9a-f]{4}-4[0-9a-f]{3}-[89ab][0-9a-f]{3}-[0-9a-f]{12}$`)

func clientID(cid string) string {
	switch cid {
	case "v1":
		return uuidCanon
	case "V1URN":
		return uuidURN
	case "junk":
		return uuidJunk
	}
	return ""
}

type fixture struct {
	dir   string // scratch directory of this run
	root  string
	files []string
	dirs  []string
	token map[string]string // file path -> content token
	nsite int
	mu    sync.Mutex
}

func newFixture(t testing.TB, files, dirs []string) *fixture {
	dir, err := os.MkdirTemp(hx.Scratch(t), "cx12rules")
	if err != nil {
		t.Fatalf("fixture: %v", err)
	}
	fx := &fixture{dir: dir, root: filepath.Join(dir, "root"), files: files, dirs: dirs, token: map[string]string{}}
	os.MkdirAll(fx.root, 0o755)
	for _, d := range dirs {
		if err := os.MkdirAll(filepath.Join(fx.root, filepath.FromSlash(d)), 0o755); err != nil {
			t.Fatalf("fixture: %v", err)
		}
	}
	for _, f := range files {
		p := filepath.Join(fx.root, filepath.FromSlash(f))
		os.MkdirAll(filepath.Dir(p), 0o755)
		fx.token[f] = hx.Token("cx12rules", f)
		if err := os.WriteFile(p, []byte(fx.token[f]+"\n"), 0o644); err != nil {
			t.Fatalf("fixture: %v", err)
		}
	}
	return fx
}

func (fx *fixture) siteDir() string {
	fx.mu.Lock()
	fx.nsite++
	n := fx.nsite
	fx.mu.Unlock()
	d := filepath.Join(fx.dir, "site"+strconv.Itoa(n))
	os.MkdirAll(d, 0o755)
	return d
}

func lineText(text []string) string {
	if len(text) == 1 {
		return text[0]
	}
	return text[0] + "\n\t\t" + strings.Join(text[1:len(text)-1], "\n\t\t") + "\n\t" + text[len(text)-1]
}

// casketfile writes the site: the rule lines in the given order, the fixture lines at seeded
// positions - directive order does not depend on the place in the file (C09).
func casketfile(lines []string, root, logfile string, port int, rnd *rand.Rand) string {
	all := append([]string(nil), lines...)
	fixtures := []string{"root " + root, "bind 127.0.0.1", "tls off", "verifinner"}
	if logfile != "" {
		fixtures = append(fixtures, `log / `+logfile+` "{request_id} {>X-Case}"`)
	}
	for _, n := range fixtures {
		k := rnd.Intn(len(all) + 1)
		all = append(all[:k], append([]string{n}, all[k:]...)...)
	}
	var b strings.Builder
	fmt.Fprintf(&b, "127.0.0.1:%d {\n", port)
	for _, l := range all {
		b.WriteString("\t" + l + "\n")
	}
	b.WriteString("}\n")
	return b.String()
}

// freePort: own counter below the kernel's ephemeral range (many instances per second; a port handed
// out by ":0" can be taken by someone else before casket.Start); the caller retries on EADDRINUSE.
var portMu sync.Mutex
var portNext = 0

func freePort() (int, error) {
	portMu.Lock()
	defer portMu.Unlock()
	if portNext == 0 {
		portNext = 20000 + int(time.Now().UnixNano()%8000)
	}
	var err error
	for try := 0; try < 2000; try++ {
		portNext++
		if portNext >= 29900 {
			portNext = 20000
		}
		var ln net.Listener
		ln, err = net.Listen("tcp", "127.0.0.1:"+strconv.Itoa(portNext))
		if err == nil {
			ln.Close()
			return portNext, nil
		}
	}
	return 0, fmt.Errorf("no free port: %v", err)
}

// casket.Start / validation are for one goroutine at a time (LogRoller's unguarded global map, the event hooks)
var startMu sync.Mutex

// ---------------------------------------------------------------- one running site

// obs is everything the check looks at in one answer.
type obs struct {
	Status  int         `json:"status"`
	Header  http.Header `json:"header"`
	Body    string      `json:"body"`
	LogSeen bool        `json:"log_line_found"`
	LogID   string      `json:"log_request_id"`
}

type sent struct {
	idx  int // index into the battery
	pass int
}

func (c *checker) script(q reqJ) string {
	if c.replay {
		return c.replayScript
	}
	s, ok := c.scripts[q.Inner]
	if !ok || s.Fin == "next" {
		return ""
	}
	var ops []string
	for _, o := range s.Ops {
		ops = append(ops, o.K+":"+o.N+"="+o.V)
	}
	switch s.Fin {
	case "write":
		ops = append(ops, "text:"+innerBody)
	case "ret404":
		ops = append(ops, "ret:404")
	}
	return strings.Join(ops, ";")
}

// runSite loads the site and sends the requests idx of the battery in order and, when twice is set,
// again in reverse order on a second connection. startErr != nil: casket refused the site.
func (c *checker) runSite(lines []string, ridlog bool, idx []int, twice bool, rnd *rand.Rand) (pass1, pass2 []obs, cf string, startErr, infra error) {
	sdir := c.fx.siteDir()
	defer os.RemoveAll(sdir)
	logfile := ""
	if ridlog {
		logfile = filepath.Join(sdir, "access.log")
	}
	var site *hx.Site
	var port int
	var err error
	for try := 0; try < 10; try++ {
		port, err = freePort()
		if err != nil {
			return nil, nil, "", nil, err
		}
		cf = casketfile(lines, c.fx.root, logfile, port, rnd)
		startMu.Lock()
		site, err = hx.StartHTTP(cf, "")
		startMu.Unlock()
		if err == nil || !strings.Contains(err.Error(), "address already in use") {
			break
		}
	}
	if err != nil {
		if strings.Contains(err.Error(), "address already in use") {
			return nil, nil, cf, nil, err
		}
		return nil, nil, cf, err, nil
	}
	stopped := false
	defer func() {
		if !stopped {
			site.Stop()
		}
	}()
	addr := "127.0.0.1:" + strconv.Itoa(port)
	send := func(pass int, order []int) ([]obs, *hx.RawConn, error) {
		rc, err := hx.DialRaw(addr)
		if err != nil {
			return nil, nil, err
		}
		out := make([]obs, len(idx))
		for _, k := range order {
			q := c.battery[idx[k]]
			hdr := []string{fmt.Sprintf("X-Case: p%d-%d", pass, k)}
			if s := c.script(q); s != "" {
				hdr = append(hdr, "X-Inner: "+s)
			}
			if id := clientID(q.Cid); id != "" {
				hdr = append(hdr, "X-Request-Id: "+id)
			}
			r, err := rc.Get("GET", q.P, addr, hdr...)
			if err != nil { // the server may have closed the connection: once more on a new one
				rc.Close()
				if rc, err = hx.DialRaw(addr); err != nil {
					return nil, nil, err
				}
				if r, err = rc.Get("GET", q.P, addr, hdr...); err != nil {
					rc.Close()
					return nil, nil, fmt.Errorf("request %v: %v", q, err)
				}
			}
			out[k] = obs{Status: r.Status, Header: r.Header, Body: string(r.Body)}
		}
		return out, rc, nil
	}
	fwd := make([]int, len(idx))
	for k := range fwd {
		fwd[k] = k
	}
	var rc1, rc2 *hx.RawConn
	if pass1, rc1, err = send(1, fwd); err != nil {
		return nil, nil, cf, nil, err
	}
	if twice {
		rev := make([]int, len(idx))
		for k := range rev {
			rev[k] = len(idx) - 1 - k
		}
		if pass2, rc2, err = send(2, rev); err != nil {
			rc1.Close()
			return nil, nil, cf, nil, err
		}
	}
	// the server closes the idle keep-alive connections first: no TIME_WAIT on our side
	site.Stop()
	stopped = true
	rc1.Close()
	if rc2 != nil {
		rc2.Close()
	}
	if ridlog {
		b, err := os.ReadFile(logfile)
		if err != nil {
			return nil, nil, cf, nil, fmt.Errorf("access log: %v", err)
		}
		for _, ln := range strings.Split(string(b), "\n") {
			f := strings.Fields(ln)
			var id, tag string
			switch len(f) {
			case 2:
				id, tag = f[0], f[1]
			case 1: // empty id
				tag = f[0]
			default:
				continue
			}
			var p, k int
			if n, _ := fmt.Sscanf(tag, "p%d-%d", &p, &k); n != 2 || k < 0 || k >= len(idx) {
				continue
			}
			if p == 1 {
				pass1[k].LogSeen, pass1[k].LogID = true, id
			} else if p == 2 && pass2 != nil {
				pass2[k].LogSeen, pass2[k].LogID = true, id
			}
		}
	}
	return pass1, pass2, cf, nil, nil
}

// ---------------------------------------------------------------- judging one answer

func distinctive(v string) bool { return strings.Contains(v, "/x-") }

// observedID collects the request id from wherever it is visible and reports a disagreement.
func observedID(e outJ, o obs, ridlog bool) (id string, seen bool, what string) {
	if vs, ok := o.Header["X-Saw-Rid"]; ok && len(vs) == 1 {
		id, seen = vs[0], true
	}
	if ridlog {
		if !o.LogSeen {
			return id, seen, "the access log has no line for this request"
		}
		if seen && o.LogID != id {
			return id, seen, fmt.Sprintf("request id in the handler's context %q, in the log line %q", id, o.LogID)
		}
		id, seen = o.LogID, true
	}
	return id, seen, ""
}

// judge compares one observation with the model's outcome; clause "" = agrees.
func (c *checker) judge(q reqJ, e outJ, o obs, ridlog bool) (clause, what string) {
	answer := "answer"
	if e.Sel > 0 {
		answer = "status"
	}
	if o.Status != e.Status {
		return answer, fmt.Sprintf("status: want %d (%s), got %d", e.Status, e.Kind, o.Status)
	}
	saw, reached := o.Header["X-Saw-Path"]
	if reached != e.Reached {
		return answer, fmt.Sprintf("the innermost handler reached: want %v, got %v", e.Reached, reached)
	}
	if reached && (len(saw) != 1 || saw[0] != e.Saw) {
		cl := "answer"
		if e.ExtK > 0 || len(saw) != 1 || saw[0] != q.P { // rewritten, or must not have been
			cl = "ext"
		}
		return cl, fmt.Sprintf("path seen by the innermost handler: want %q, got %q", e.Saw, saw)
	}
	switch e.Kind {
	case "file":
		if !strings.Contains(o.Body, c.fx.token[e.File]) || c.fx.token[e.File] == "" {
			cl := "answer"
			if e.IdxK > 0 {
				cl = "index"
			} else if e.ExtK > 0 {
				cl = "ext"
			}
			got := "no file of the root"
			for f, tk := range c.fx.token {
				if strings.Contains(o.Body, tk) {
					got = f
				}
			}
			return cl, fmt.Sprintf("served file: want %s, got %s", e.File, got)
		}
	case "inner":
		if o.Body != innerBody {
			return answer, fmt.Sprintf("want the innermost handler's body, got %q", o.Body)
		}
	case "status":
		if o.Body != "" {
			return "status", fmt.Sprintf("a status rule below 400 answers without a body, got %q", o.Body)
		}
	case "error":
		if want := fmt.Sprintf("%d %s\n", e.Status, http.StatusText(e.Status)); o.Body != want {
			return answer, fmt.Sprintf("error body: want %q, got %q", want, o.Body)
		}
	case "listing":
		if !strings.Contains(strings.ToLower(o.Body), "<html") || !strings.Contains(o.Body, "main.bin") {
			return "index", fmt.Sprintf("want the directory listing, got %.80q", o.Body)
		}
	case "expvar":
		if !json.Valid([]byte(o.Body)) || !strings.Contains(o.Body, `"memstats"`) {
			return "fixed-path", fmt.Sprintf("want the expvar JSON document, got %.80q", o.Body)
		}
	case "pprof":
		if !strings.Contains(o.Body, filepath.Base(os.Args[0])) {
			return "fixed-path", fmt.Sprintf("want the process command line, got %.80q", o.Body)
		}
	case "redirect":
		if loc := o.Header.Get("Location"); loc != e.Loc {
			return answer, fmt.Sprintf("Location: want %q, got %q", e.Loc, loc)
		}
	default:
		return "model", "unknown kind " + e.Kind
	}
	// ---- request id
	id, seen, what := observedID(e, o, ridlog)
	if what != "" {
		return "request-id", what
	}
	if seen {
		switch {
		case e.Rid == "" && id != "":
			return "request-id", fmt.Sprintf("no request_id directive: want no id, got %q", id)
		case e.Rid == "cid:1" && id != uuidCanon:
			return "request-id", fmt.Sprintf("want the client's id %q (canonical form), got %q", uuidCanon, id)
		case e.Fresh && (!v4re.MatchString(id) || id == uuidCanon):
			return "request-id", fmt.Sprintf("want a fresh version-4 UUID, got %q (client sent %q)", id, clientID(q.Cid))
		}
	}
	// ---- headers
	free := map[string]bool{}
	for _, n := range e.Free {
		free[n] = true
	}
	for _, n := range c.names {
		if free[n] {
			continue
		}
		want, got := e.Hdr[n], o.Header[http.CanonicalHeaderKey(n)]
		cl := "header"
		switch n {
		case "Content-Type", "X-Content-Type-Options":
			cl = "content-type"
			if e.Mime != "" {
				cl = "mime"
			}
		case "X-Rid":
			cl = "request-id"
		}
		if len(want) != len(got) {
			return cl, fmt.Sprintf("%s: want %q, got %q", n, want, got)
		}
		for k := range want {
			switch {
			case want[k] == "~auto":
				if got[k] == "" || distinctive(got[k]) {
					return cl, fmt.Sprintf("%s: want a type chosen by net/http, got %q", n, got[k])
				}
			case n == "X-Rid" && (strings.HasPrefix(want[k], "fresh:") || want[k] == "cid:1"):
				if !seen || got[k] != id {
					return cl, fmt.Sprintf("%s (the {request_id} placeholder): %q, elsewhere in this request %q", n, got[k], id)
				}
			case want[k] != got[k]:
				return cl, fmt.Sprintf("%s: want %q, got %q", n, want, got)
			}
		}
	}
	return "", ""
}

// ---------------------------------------------------------------- the checker

type checker struct {
	res     *hx.Result
	fx      *fixture
	battery []reqJ
	scripts map[string]scriptJ
	names   []string
	order   []string
	pool    map[string]poolLine

	replay       bool // --replay: the one stored request with its stored script
	replayScript string

	mu      sync.Mutex
	infra   error
	stats   map[string]int
	caught  int // selftest: corruptions noticed
	planted int
}

func (c *checker) setInfra(err error) {
	c.mu.Lock()
	if c.infra == nil {
		c.infra = err
	}
	c.mu.Unlock()
}

func (c *checker) stat(k string) {
	c.mu.Lock()
	c.stats[k]++
	c.mu.Unlock()
}

func (c *checker) ids(tc *tcase) []string { return tc.IDs }

func siteKey(ids []string) string { return "site=" + strings.Join(ids, ",") }

// lines renders the site: lines of one directive keep their order, how the directives interleave is seeded.
func (c *checker) lines(tc *tcase, rnd *rand.Rand) []string {
	var queues [][]string
	for _, d := range c.order {
		var q []string
		for _, id := range tc.Lines[d] {
			q = append(q, lineText(c.pool[id].Text))
		}
		if len(q) > 0 {
			queues = append(queues, q)
		}
	}
	var out []string
	for len(queues) > 0 {
		k := rnd.Intn(len(queues))
		out = append(out, queues[k][0])
		if queues[k] = queues[k][1:]; len(queues[k]) == 0 {
			queues = append(queues[:k], queues[k+1:]...)
		}
	}
	return out
}

func reqKey(n int, q reqJ) string {
	return fmt.Sprintf("req=%d:%s:%s:%s", n+1, q.P, q.Inner, q.Cid)
}

func key(clause, site string, n int, q *reqJ) string {
	k := "C12/responserules/" + clause + "/" + site
	if q != nil {
		k += ";" + reqKey(n, *q)
	}
	return k
}

func validate(cf string) error {
	startMu.Lock()
	defer startMu.Unlock()
	return casket.ValidateAndExecuteDirectives(casket.CasketfileInput{Contents: []byte(cf), Filepath: "Casketfile", ServerTypeName: "http"}, nil, true)
}

// confirm runs the one request again, alone, on a fresh instance and reports the mismatch if it is still there.
func (c *checker) confirm(site string, lines []string, ridlog bool, n int, e outJ, rnd *rand.Rand) {
	q := c.battery[n]
	p1, _, cf, startErr, infra := c.runSite(lines, ridlog, []int{n}, false, rnd)
	if infra != nil {
		c.setInfra(infra)
		return
	}
	if startErr != nil {
		c.setInfra(fmt.Errorf("site started before and is refused now: %v\n%s", startErr, cf))
		return
	}
	clause, what := c.judge(q, e, p1[0], ridlog)
	if clause == "" {
		c.stat("not_reproduced")
		return
	}
	rc := newRcase(clause, site, lines, ridlog, c.fx, true)
	qq, ee := q, e
	rc.ReqNo, rc.Req, rc.Exp, rc.Script = n, &qq, &ee, c.script(q)
	c.res.Add(hx.Mismatch{Key: key(clause, site, n, &q), What: what + "\n" + cf, Case: rc, Expected: e, Observed: p1[0]})
}

// checkSetup: the setups accept exactly the sites the model accepts. Returns false when the site cannot be served.
func (c *checker) checkSetup(site string, lines []string, ridlog, ok bool, rnd *rand.Rand) {
	cf := casketfile(lines, c.fx.root, "", 1, rnd)
	if ridlog {
		cf = casketfile(lines, c.fx.root, filepath.Join(c.fx.dir, "unused.log"), 1, rnd)
	}
	verr := validate(cf)
	if (verr == nil) == ok {
		return
	}
	verr = validate(cf) // once more
	if (verr == nil) == ok {
		return
	}
	what := "the setups must refuse this site (duplicate extension / path, arity) but casket.ValidateAndExecuteDirectives accepts it"
	if ok {
		what = "the setups must accept this site but casket.ValidateAndExecuteDirectives refuses it: " + verr.Error()
	}
	c.res.Add(hx.Mismatch{Key: key("setup", site, 0, nil), What: what + "\n" + cf, Case: newRcase("setup", site, lines, ridlog, c.fx, ok),
		Expected: map[string]bool{"accepted": ok}, Observed: fmt.Sprint(verr)})
}

func (c *checker) corrupt(exp []outJ, rnd *rand.Rand) ([]outJ, int) {
	out := append([]outJ(nil), exp...)
	k := rnd.Intn(len(out))
	e := out[k]
	e.Hdr = map[string][]string{}
	for n, v := range out[k].Hdr {
		e.Hdr[n] = v
	}
	free := map[string]bool{}
	for _, n := range e.Free {
		free[n] = true
	}
	switch rnd.Intn(3) {
	case 0:
		e.Status++
	case 1:
		n := []string{"X-A", "X-B", "X-I"}[rnd.Intn(3)]
		if free[n] {
			e.Status++
		} else {
			e.Hdr[n] = append(append([]string(nil), e.Hdr[n]...), "planted")
		}
	default:
		if free["Content-Type"] {
			e.Status++
		} else {
			e.Hdr["Content-Type"] = []string{"planted/x-type"}
		}
	}
	out[k] = e
	return out, k
}

func (c *checker) checkSite(tc *tcase, rnd *rand.Rand, selftest bool) {
	ids := c.ids(tc)
	site := siteKey(ids)
	lines := c.lines(tc, rnd)
	ridlog := len(tc.Lines["request_id"]) > 0
	if !selftest {
		// after the instance was tried: a site that should not exist is reported with what it answers
		defer c.checkSetup(site, lines, ridlog, tc.Ok, rnd)
	}
	idx := make([]int, len(c.battery))
	for k := range idx {
		idx[k] = k
	}
	p1, p2, cf, startErr, infra := c.runSite(lines, ridlog, idx, true, rnd)
	if infra != nil {
		c.setInfra(infra)
		return
	}
	if !tc.Ok {
		c.stat("sites_refused")
		if startErr == nil && !selftest {
			if _, _, cf2, startErr2, infra2 := c.runSite(lines, ridlog, idx[:1], false, rnd); infra2 == nil && startErr2 == nil {
				var sts []string
				for k := range p1 {
					sts = append(sts, strconv.Itoa(p1[k].Status))
				}
				c.res.Add(hx.Mismatch{Key: key("setup", site, 0, nil), What: "the setups must refuse this site but casket.Start loads it; it answers the battery with " + strings.Join(sts, " ") + "\n" + cf2,
					Case: newRcase("setup", site, lines, ridlog, c.fx, false), Expected: "refused", Observed: "started"})
			}
		}
		return
	}
	if startErr != nil {
		if _, _, cf2, startErr2, _ := c.runSite(lines, ridlog, idx[:1], false, rnd); startErr2 != nil {
			c.res.Add(hx.Mismatch{Key: key("setup", site, 0, nil), What: "the setups must accept this site but casket.Start refuses it: " + startErr2.Error() + "\n" + cf2,
				Case: newRcase("setup", site, lines, ridlog, c.fx, true), Expected: "started", Observed: startErr2.Error()})
		}
		_ = cf
		return
	}
	c.stat("sites_served")
	if len(tc.Exp) != len(c.battery) {
		c.setInfra(fmt.Errorf("%s: %d expectations for %d requests", site, len(tc.Exp), len(c.battery)))
		return
	}
	exp := tc.Exp
	planted := -1
	if selftest {
		exp, planted = c.corrupt(tc.Exp, rnd)
		c.mu.Lock()
		c.planted++
		c.mu.Unlock()
	}
	freshIDs := map[int]map[string]int{1: {}, 2: {}}
	for k, q := range c.battery {
		e := exp[k]
		c.stat("kind_" + e.Kind)
		c.stat("via_" + e.Via)
		if e.Sel > 0 {
			c.stat("status_rule_answers")
		}
		if e.Sel > 1 {
			c.stat("status_rule_not_the_first")
		}
		if e.ExtK > 0 {
			c.stat("ext_rewrite")
		}
		if e.ExtK > 1 {
			c.stat("ext_rewrite_later_extension")
		}
		if e.IdxK > 1 {
			c.stat("index_later_page")
		}
		if e.Mime != "" {
			c.stat("mime_sets_type")
		}
		if len(e.Free) > 0 {
			c.stat("header_value_unjudged")
		}
		if e.Rid == "cid:1" {
			c.stat("rid_client")
		}
		if e.Fresh {
			c.stat("rid_fresh")
		}
		if len(e.Hdr["X-A"]) > 1 {
			c.stat("header_added_value")
		}
		if e.Kind == "error" && e.Via == "wrapper" {
			c.stat("error_page_through_the_wrapper")
		}
		if e.Via == "outside" && len(e.Hdr["X-I"]) > 0 && len(e.Free) > 0 {
			c.stat("fallback_keeps_deleted_name")
		}
		clause, _ := c.judge(q, e, p1[k], ridlog)
		if clause == "" {
			clause, _ = c.judge(q, e, p2[k], ridlog)
		}
		if k == planted {
			if clause != "" {
				c.mu.Lock()
				c.caught++
				c.mu.Unlock()
			}
			continue
		}
		if clause != "" {
			c.confirm(site, lines, ridlog, k, e, rnd)
			continue
		}
		if e.Fresh {
			for pass, po := range map[int][]obs{1: p1, 2: p2} {
				if id, seen, _ := observedID(e, po[k], ridlog); seen {
					if other, dup := freshIDs[pass][id]; dup {
						qq, ee := q, e
						rc := newRcase("request-id", site, lines, ridlog, c.fx, true)
						rc.ReqNo, rc.Req, rc.Exp = k, &qq, &ee
						c.res.Add(hx.Mismatch{Key: key("request-id", site, k, &q), What: fmt.Sprintf("two requests of one connection (%s and this one) got the same fresh id %q\n%s", reqKey(other, c.battery[other]), id, cf),
							Case: rc, Expected: "distinct fresh ids", Observed: id})
					}
					freshIDs[pass][id] = k
				}
			}
		}
	}
}

// ---------------------------------------------------------------- the test

func TestCx12Rules(t *testing.T) {
	hx.Quiet()
	res := hx.NewResult("TestCx12Rules", "one case = one site (<= MaxLines lines of the pools of ResponseRules.tla: header, mime, status, request_id, index, ext, expvar, pprof, browse; every site with <= 1 line (thorough: <= 2) and a hash-selected sample of the larger ones) validated and loaded with casket.Start and probed twice with the 17-request battery; verdicts: setup accepts exactly the modelled sites; status, answering handler, served file, path seen below, request id (handler context = header placeholder = log line) and every modelled response header equal the model's table; non-trivial = site with >= 2 lines")
	defer res.Write(t)

	// a replay file of another test of this property is not ours
	if p := hx.Replay(); p != "" {
		b, _ := os.ReadFile(p)
		var w struct {
			Case struct {
				Clause string `json:"clause"`
			} `json:"case"`
		}
		if json.Unmarshal(b, &w) != nil || !strings.HasPrefix(w.Case.Clause, "responserules/") {
			res.AddExtra("replay", "not a responserules case: skipped")
			return
		}
	}

	// certmagic logs two lines per instance through a logger bound to fd 2: keep them out of the go test log
	if os.Getenv("VERIF_VERBOSE") == "" {
		if dn, err := os.Create(filepath.Join(hx.Scratch(t), "cx12rules_stderr.log")); err == nil {
			if saved, err := syscall.Dup(2); err == nil {
				syscall.Dup2(int(dn.Fd()), 2)
				defer func() { syscall.Dup2(saved, 2); syscall.Close(saved); dn.Close(); os.Remove(dn.Name()) }()
			}
		}
	}

	c := &checker{res: res, stats: map[string]int{}, pool: map[string]poolLine{}}

	if rp, ok := hx.LoadReplay[rcase](t); ok {
		replayOne(t, c, &rp)
		return
	}

	var head *tcase
	bySite := map[string]*tcase{}
	var answers []*tcase
	hx.EachCase(t, module, func(line []byte) error {
		tc := new(tcase)
		if err := json.Unmarshal(line, tc); err != nil {
			return err
		}
		switch tc.Kind {
		case "head":
			head = tc
		case "site":
			bySite[siteKey(tc.IDs)] = tc
		case "ans":
			answers = append(answers, tc)
		}
		return nil
	})
	if head == nil || len(bySite) == 0 {
		res.Infra = "TLC emitted no head / no sites"
		return
	}
	c.battery, c.scripts, c.names, c.order = head.Reqs, head.Scripts, head.Names, head.Order
	sort.Strings(c.names)
	for _, l := range head.Pool {
		c.pool[l.ID] = l
	}
	var sites []*tcase
	for _, tc := range bySite {
		tc.Lines = map[string][]string{}
		for _, id := range tc.IDs {
			tc.Lines[c.pool[id].D] = append(tc.Lines[c.pool[id].D], id)
		}
		if tc.Ok {
			tc.Exp = make([]outJ, len(c.battery))
		}
		sites = append(sites, tc)
	}
	for _, a := range answers {
		tc := bySite[siteKey(a.IDs)]
		if tc == nil || !tc.Ok || a.Out == nil || a.X < 1 || a.X > len(c.battery) || tc.Exp[a.X-1].Kind != "" {
			res.Infra = fmt.Sprintf("answer CASE without its site, or twice: %s request %d", siteKey(a.IDs), a.X)
			return
		}
		tc.Exp[a.X-1] = *a.Out
	}
	for _, tc := range sites {
		for k := range tc.Exp {
			if tc.Exp[k].Kind == "" {
				res.Infra = fmt.Sprintf("%s: TLC emitted no answer for request %d", siteKey(tc.IDs), k+1)
				return
			}
		}
	}
	sort.Slice(sites, func(a, b int) bool { return siteKey(sites[a].IDs) < siteKey(sites[b].IDs) })
	c.fx = newFixture(t, head.Files, head.Dirs)
	defer os.RemoveAll(c.fx.dir)
	res.AddExtra("sites_from_tlc", len(sites))

	selftest := hx.SelfTest()
	todo := sites
	if selftest {
		var served []*tcase
		for _, tc := range sites {
			if tc.Ok && len(served) < 60 {
				served = append(served, tc)
			}
		}
		todo = served
	}

	// warm-up: the first instance of a process initialises certmagic etc.
	if _, _, cf, startErr, infra := c.runSite(nil, false, []int{0}, false, rand.New(rand.NewSource(1))); infra != nil || startErr != nil {
		res.Infra = fmt.Sprintf("cannot start the empty site: %v %v\n%s", infra, startErr, cf)
		return
	}

	workers := 10
	jobs := make(chan *tcase)
	var wg sync.WaitGroup
	for w := 0; w < workers; w++ {
		wg.Add(1)
		rnd := rand.New(rand.NewSource(hx.Seed()*7919 + int64(w)))
		go func() {
			defer wg.Done()
			for tc := range jobs {
				c.checkSite(tc, rnd, selftest)
				nt := ""
				if ids := c.ids(tc); len(ids) >= 2 {
					nt = siteKey(ids)
				}
				res.Count(nt)
			}
		}()
	}
	for k, tc := range todo {
		jobs <- tc
		if k%53 == 7 && tc.Ok {
			res.Sample(map[string]interface{}{"site": siteKey(c.ids(tc)), "lines": c.lines(tc, rand.New(rand.NewSource(1))), "request": reqKey(7, c.battery[7]), "expected": tc.Exp[7]})
		}
	}
	close(jobs)
	wg.Wait()

	if c.infra != nil {
		res.Infra = c.infra.Error()
	}
	res.AddExtra("stats", c.stats)
	res.AddExtra("requests_sent", c.stats["sites_served"]*2*len(c.battery))
	// non-vacuity of the binding itself: every kind of answer and every branch the clauses talk about was replayed
	if !selftest && res.Infra == "" {
		for _, k := range []string{"sites_refused", "sites_served", "kind_file", "kind_inner", "kind_status", "kind_error", "kind_listing", "kind_expvar",
			"kind_pprof", "kind_redirect", "via_wrapper", "via_outside", "status_rule_answers", "status_rule_not_the_first", "ext_rewrite",
			"ext_rewrite_later_extension", "index_later_page", "mime_sets_type", "header_value_unjudged", "rid_client", "rid_fresh", "header_added_value", "error_page_through_the_wrapper"} {
			if c.stats[k] == 0 {
				res.Infra = "vacuous replay: no case with " + k
			}
		}
	}
	if selftest {
		res.AddExtra("selftest_planted", c.planted)
		res.AddExtra("selftest_caught", c.caught)
		if c.caught != c.planted || c.planted == 0 {
			res.Infra = fmt.Sprintf("selftest: %d wrong expectations planted, %d noticed", c.planted, c.caught)
		}
	}
}

func replayOne(t *testing.T, c *checker, rc *rcase) {
	c.fx = newFixture(t, rc.Files, rc.Dirs)
	defer os.RemoveAll(c.fx.dir)
	rnd := hx.Rand()
	c.res.Count("replay")
	if rc.Req == nil { // a setup case
		c.checkSetup(rc.IDs, rc.Text, rc.Rid, rc.Ok, rnd)
		_, _, cf, startErr, infra := c.runSite(rc.Text, rc.Rid, nil, false, rnd)
		if infra != nil {
			c.res.Infra = infra.Error()
			return
		}
		if (startErr == nil) != rc.Ok && c.res.MismatchCount() == 0 {
			c.res.Add(hx.Mismatch{Key: key("setup", rc.IDs, 0, nil), What: fmt.Sprintf("setup: want accepted=%v, casket.Start says %v\n%s", rc.Ok, startErr, cf), Case: *rc})
		}
		return
	}
	if rc.Exp == nil {
		t.Fatalf("replay file has no expectation")
	}
	// the stored request, with its stored script, as a one-request battery
	c.battery = []reqJ{*rc.Req}
	c.scripts = map[string]scriptJ{}
	c.replay, c.replayScript = true, rc.Script
	for n := range rc.Exp.Hdr {
		c.names = append(c.names, n)
	}
	sort.Strings(c.names)
	p1, _, cf, startErr, infra := c.runSite(rc.Text, rc.Rid, []int{0}, false, rnd)
	if infra != nil || startErr != nil {
		c.res.Infra = fmt.Sprintf("replay: cannot serve the site: %v %v\n%s", infra, startErr, cf)
		return
	}
	if clause, what := c.judge(*rc.Req, *rc.Exp, p1[0], rc.Rid); clause != "" {
		c.res.Add(hx.Mismatch{Key: key(clause, rc.IDs, rc.ReqNo, rc.Req), What: what + "\n" + cf, Case: *rc, Expected: rc.Exp, Observed: p1[0]})
	}
}
