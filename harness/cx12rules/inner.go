// Package cx12rules binds specs/ResponseRules.tla (the rule tables of header, mime, status,
// request_id, index, ext, expvar, pprof) to the real middleware; it is an extension of property C12.
package cx12rules

import (
	"net/http"
	"strconv"
	"strings"

	"github.com/tmpim/casket"
	"github.com/tmpim/casket/caskethttp/httpserver"
)

// verifinner is a test-only directive: the innermost middleware of the site, registered at the end
// of the directive list (directly in front of the static file server). It is the "Inner" action of
// the specification. On every request it reports what the chain handed to it
//
//	X-Saw-Path  r.URL.Path            X-Saw-Rid  the request id found in the request context
//
// and then runs the script of the X-Inner request header (ops separated by ';'):
//
//	set:Name=Value   w.Header().Set      add:Name=Value   w.Header().Add      del:Name   w.Header().Del
//	text:S           w.Write(S)          ret:N            return (N, nil) without writing
//
// Without a script the next handler (the static file server) runs. The directive is registered by
// this package only: the directive list other checks look at is not changed.
func init() {
	httpserver.RegisterDevDirective("verifinner", "")
	casket.RegisterPlugin("verifinner", casket.Plugin{ServerType: "http", Action: func(c *casket.Controller) error {
		for c.Next() {
			if len(c.RemainingArgs()) > 0 {
				return c.ArgErr()
			}
		}
		httpserver.GetConfig(c).AddMiddleware(func(next httpserver.Handler) httpserver.Handler {
			return httpserver.HandlerFunc(func(w http.ResponseWriter, r *http.Request) (int, error) {
				h := w.Header()
				h["X-Saw-Path"] = []string{r.URL.Path}
				rid, _ := r.Context().Value(httpserver.RequestIDCtxKey).(string)
				h["X-Saw-Rid"] = []string{rid}
				script := r.Header.Get("X-Inner")
				if script == "" {
					return next.ServeHTTP(w, r)
				}
				for _, op := range strings.Split(script, ";") {
					name, arg := op, ""
					if i := strings.IndexByte(op, ':'); i >= 0 {
						name, arg = op[:i], op[i+1:]
					}
					switch name {
					case "set", "add":
						kv := strings.SplitN(arg, "=", 2)
						if len(kv) != 2 {
							continue
						}
						if name == "set" {
							h.Set(kv[0], kv[1])
						} else {
							h.Add(kv[0], kv[1])
						}
					case "del":
						h.Del(arg)
					case "text":
						w.Write([]byte(arg))
					case "ret":
						n, _ := strconv.Atoi(arg)
						return n, nil
					}
				}
				return 0, nil
			})
		})
		return nil
	}})
}
