// C16 extension - event emission and the `on` directive across the instance lifecycle, bound to
// specs/EventHooks.tla by trace validation (specs/EventHooksTrace.tla).
//
// TLC (EventHooksHist.tla, seeded simulation) emits histories over {start, API reload, SIGUSR1
// reload, stop, validate, certificate event} x configuration x failure stage, each ending with an
// exit script of real signals.  Every history runs in a child process of its own (the hook
// registry and the shutdown Once are process-global): the test binary re-executed, driven over
// stdin, reporting one ndjson event per observed step on fd 3.  In the child
//   - a server type "verifev" is registered through casket.RegisterServerType; its directives
//     are `verifevhook` (registers an observer hook through casket.RegisterEventHook, once per
//     server block - what a plugin directive like `on` does), casket's own `on` and `tls`
//     directives, and `verifevcfg` (callbacks, the scripted failure, one fake server on a real
//     loopback socket);
//   - one more observer hook is registered at process start (a plugin's init());
//   - the observers log (event, info, names in the registry at that moment: ListPlugins());
//   - `on` commands are a tiny shell script that appends a line to a file of the scratch
//     directory (blocking and `&` variants, exit status 0 / 3, or a command that does not exist);
//     casket's process log is parsed for the lines hook.Config.Hook and EmitEvent write
//     ("Blocking Command ...", "Nonblocking Command ...", "error on '...' hook"), which gives the
//     launch of every command - with the mode the code really chose - its place in the sequence;
//   - SIGUSR1 reloads go through a registered Casketfile loader and casket.TrapSignals, exactly
//     as in production; a second SIGUSR1 whose load fails tells when the first one is over (the
//     handler is sequential);
//   - certificate events call the OnEvent function casket's tls directive installed in the
//     certmagic configuration, as certmagic does after obtaining a certificate.
package cx16events

import (
	"bufio"
	"context"
	"encoding/json"
	"errors"
	"fmt"
	"io"
	"log"
	"math/rand"
	"net"
	"os"
	"os/exec"
	"path/filepath"
	"regexp"
	"sort"
	"strconv"
	"strings"
	"sync"
	"syscall"
	"testing"
	"time"

	"github.com/caddyserver/certmagic"
	"github.com/tmpim/casket"
	"github.com/tmpim/casket/casketfile"
	"github.com/tmpim/casket/caskettls"
	_ "github.com/tmpim/casket/onevent"
	"verifharness/hx"
)

const prefix = "C16/eventhooks/"

// ------------------------------------------------------------------------------- cases

type op struct {
	T string   `json:"t"`
	C string   `json:"c"`
	F string   `json:"f"`
	P int      `json:"p"`
	S []string `json:"s"`
}

type onSpec struct {
	E string `json:"e"`
	M string `json:"m"`
	O string `json:"o"`
}

type cfgSpec struct {
	Keys int      `json:"keys"`
	Ons  []onSpec `json:"ons"`
}

type hcase struct {
	Ops   []op               `json:"ops,omitempty"`
	Table map[string]cfgSpec `json:"table,omitempty"`
}

func (h hcase) key() string {
	var b strings.Builder
	for _, o := range h.Ops {
		switch o.T {
		case "exit":
			fmt.Fprintf(&b, "exit.%s", strings.Join(o.S, ","))
		case "stop":
			fmt.Fprintf(&b, "stop%d;", o.P)
		case "cert":
			fmt.Fprintf(&b, "cert%d.%s;", o.P, o.F)
		case "reload":
			fmt.Fprintf(&b, "reload%d.%s.%s;", o.P, o.C, o.F)
		default:
			fmt.Fprintf(&b, "%s.%s.%s;", o.T, o.C, o.F)
		}
	}
	return b.String()
}

var genOps = map[string]bool{"start": true, "reload": true, "usr1": true, "validate": true}

// ------------------------------------------------------------------------------- child: recorder

type event map[string]interface{}

type recorder struct {
	mu         sync.Mutex
	out        *os.File
	dir        string
	pendingBlk string         // name of the blocking command launched by the last cmdstart event
	ends       map[string]int // end lines of the command log accounted for so far, per name
	uuid       map[string][2]int
	nbLaunched int
}

var rec *recorder

// endLines counts the lines "end <name> <mode>" of the command log.
func endLines(dir string) (perName map[string]int, nb int) {
	perName = map[string]int{}
	b, _ := os.ReadFile(filepath.Join(dir, "cmds.log"))
	for _, ln := range strings.Split(string(b), "\n") {
		f := strings.Fields(ln)
		if len(f) == 3 && f[0] == "end" {
			perName[f[1]]++
			if f[2] == "n" {
				nb++
			}
		}
	}
	return
}

func (r *recorder) write(e event) {
	b, _ := json.Marshal(e)
	r.out.Write(append(b, '\n')) // one write per event: os.Exit may follow at any moment
}

// flushPending: the event about to be recorded comes after the last hook call returned; if that
// hook launched a blocking command, its line must be in the command log by now.
func (r *recorder) flushPending() {
	if r.pendingBlk == "" {
		return
	}
	name := r.pendingBlk
	r.pendingBlk = ""
	per, _ := endLines(r.dir)
	if per[name] > r.ends[name] {
		r.ends[name] = per[name]
		g, j := splitName(name)
		r.write(event{"ev": "cmdend", "g": g, "j": j})
	}
}

func (r *recorder) emit(e event) {
	r.mu.Lock()
	r.flushPending()
	r.write(e)
	r.mu.Unlock()
}

// aux records a message of the harness protocol (ready, ack): it comes from the command loop,
// which during a SIGUSR1 reload runs beside the goroutine that executes the hooks, so it says
// nothing about where that goroutine is
func (r *recorder) aux(e event) {
	e["x"] = 1
	r.mu.Lock()
	r.write(e)
	r.mu.Unlock()
}

func splitName(name string) (int, int) {
	var g, j int
	fmt.Sscanf(name, "g%d.%d", &g, &j)
	return g, j
}

var (
	reCmd = regexp.MustCompile(`\[INFO\] (Blocking|Nonblocking) Command "(.*)" with ID (\S+)`)
	reErr = regexp.MustCompile(`error on 'on-([^']+)' hook`)
)

// Write receives casket's process log, one line per call.
func (r *recorder) Write(p []byte) (int, error) {
	line := string(p)
	if m := reCmd.FindStringSubmatch(line); m != nil {
		f := strings.Fields(m[2]) // <command> <name> <mode> <outcome>
		if len(f) >= 4 {
			g, j := splitName(f[1])
			mode := "b"
			if m[1] == "Nonblocking" {
				mode = "n"
			}
			r.mu.Lock()
			r.flushPending()
			r.uuid[m[3]] = [2]int{g, j}
			r.write(event{"ev": "cmdstart", "g": g, "j": j, "mode": mode})
			if mode == "b" {
				r.pendingBlk = f[1]
			} else if f[3] != "nostart" {
				r.nbLaunched++
			}
			r.mu.Unlock()
		}
	} else if m := reErr.FindStringSubmatch(line); m != nil {
		r.mu.Lock()
		r.flushPending()
		if gj, ok := r.uuid[m[1]]; ok {
			r.write(event{"ev": "hookerr", "g": gj[0], "j": gj[1]})
		} else {
			r.write(event{"ev": "hookerr", "g": 0, "j": 0})
		}
		r.mu.Unlock()
	}
	return len(p), nil
}

// registry describes the hook registry as ListPlugins shows it: the observers by name, the
// hooks of `on` directives (named on-<uuid>) by their number.
func registry() (reg []event, non int) {
	names := casket.ListPlugins()["event_hooks"]
	sort.Strings(names)
	reg = []event{}
	for _, n := range names {
		switch {
		case n == "verif-plug":
			reg = append(reg, event{"k": "plug", "g": 0})
		case strings.HasPrefix(n, "verif-cfg-g"):
			g, _ := strconv.Atoi(strings.TrimPrefix(n, "verif-cfg-g"))
			reg = append(reg, event{"k": "cfg", "g": g})
		case strings.HasPrefix(n, "on-"):
			non++
		default:
			reg = append(reg, event{"k": n, "g": 0})
		}
	}
	return
}

var (
	genMu sync.Mutex
	genOf = map[*casket.Instance]int{}
	tlsOf = map[*casket.Instance]*caskettls.Config{}
)

func observer(kind string, g int) casket.EventHook {
	return func(ev casket.EventName, info interface{}) error {
		reg, non := registry()
		inf := event{"k": "other", "g": 0, "s": fmt.Sprint(info)}
		switch v := info.(type) {
		case nil:
			inf = event{"k": "nil", "g": 0, "s": ""}
		case *casket.Instance:
			genMu.Lock()
			inf = event{"k": "inst", "g": genOf[v], "s": ""}
			genMu.Unlock()
		case string:
			if strings.HasPrefix(v, "SIG") {
				inf = event{"k": "sig", "g": 0, "s": v}
			} else {
				var gg int
				fmt.Sscanf(v, "g%d.test", &gg)
				inf = event{"k": "name", "g": gg, "s": ""}
			}
		}
		rec.emit(event{"ev": "hook", "name": kind, "g": g, "hev": string(ev), "info": inf, "reg": reg, "non": non})
		return nil
	}
}

// ------------------------------------------------------------------------------- child: server type

type ectx struct {
	inst *casket.Instance
	tls  *caskettls.Config
	srv  *server
}

func (c *ectx) InspectServerBlocks(_ string, sb []casketfile.ServerBlock) ([]casketfile.ServerBlock, error) {
	return sb, nil
}

func (c *ectx) MakeServers() ([]casket.Server, error) {
	if c.srv == nil {
		return nil, nil
	}
	return []casket.Server{c.srv}, nil
}

type server struct {
	gen        int
	failListen bool
	stopCh     chan struct{}
	once       sync.Once
	mu         sync.Mutex
	ln         net.Listener
}

func (s *server) Address() string { return "verifev-g" + strconv.Itoa(s.gen) }
func (s *server) Listen() (net.Listener, error) {
	if s.failListen {
		rec.emit(event{"ev": "listen", "g": s.gen, "res": "err"})
		return nil, errors.New("scripted listen failure")
	}
	ln, err := net.Listen("tcp", "127.0.0.1:0")
	if err != nil {
		return nil, err
	}
	rec.emit(event{"ev": "listen", "g": s.gen, "res": "ok"})
	s.mu.Lock()
	s.ln = ln
	s.mu.Unlock()
	return ln.(*net.TCPListener), nil
}
func (s *server) WrapListener(ln net.Listener) net.Listener { return ln }
func (s *server) Serve(net.Listener) error                  { <-s.stopCh; return nil }
func (s *server) ListenPacket() (net.PacketConn, error)     { return nil, nil }
func (s *server) ServePacket(net.PacketConn) error          { return nil }
func (s *server) Stop() error {
	rec.emit(event{"ev": "stopsrv", "g": s.gen})
	s.once.Do(func() {
		close(s.stopCh)
		s.mu.Lock()
		if s.ln != nil {
			s.ln.Close()
		}
		s.mu.Unlock()
	})
	return nil
}

var (
	knobMu         sync.Mutex
	restartCbFails bool
)

func keyGen(key string) (int, error) {
	k := strings.TrimPrefix(key, "g")
	k = strings.TrimRight(k, "ab")
	return strconv.Atoi(k)
}

// verifevhook: a plugin directive that registers an event hook of its own, the way `on` does.
func setupHook(c *casket.Controller) error {
	gen, err := keyGen(c.Key)
	if err != nil {
		return fmt.Errorf("bad key %q", c.Key)
	}
	for c.Next() {
	}
	ctx := c.Context().(*ectx)
	genMu.Lock()
	genOf[ctx.inst] = gen
	tlsOf[ctx.inst] = ctx.tls
	genMu.Unlock()
	rec.emit(event{"ev": "dirhook", "g": gen, "key": c.ServerBlockKeyIndex + 1})
	return c.OncePerServerBlock(func() error {
		casket.RegisterEventHook("verif-cfg-g"+strconv.Itoa(gen), observer("cfg", gen))
		return nil
	})
}

// verifevcfg <fail>: callbacks, the scripted failure, the server.
func setupCfg(c *casket.Controller) error {
	gen, err := keyGen(c.Key)
	if err != nil {
		return fmt.Errorf("bad key %q", c.Key)
	}
	fail := "none"
	for c.Next() {
		args := c.RemainingArgs()
		if len(args) != 1 {
			return c.ArgErr()
		}
		fail = args[0]
	}
	if c.ServerBlockKeyIndex != 0 {
		return nil
	}
	if fail == "setup" {
		rec.emit(event{"ev": "late", "g": gen, "res": "err"})
		return errors.New("scripted setup failure")
	}
	rec.emit(event{"ev": "late", "g": gen, "res": "ok"})
	ctx := c.Context().(*ectx)
	ctx.srv = &server{gen: gen, failListen: fail == "listen", stopCh: make(chan struct{})}
	cb := func(kind string, failing func() bool) func() error {
		return func() error {
			f := failing != nil && failing()
			res := "ok"
			if f {
				res = "err"
			}
			rec.emit(event{"ev": "cb", "kind": kind, "g": gen, "res": res})
			if f {
				return errors.New("scripted " + kind + " callback failure")
			}
			return nil
		}
	}
	c.OnStartup(cb("startup", func() bool { return fail == "startupcb" }))
	c.OnRestart(cb("restart", func() bool {
		knobMu.Lock()
		defer knobMu.Unlock()
		v := restartCbFails
		restartCbFails = false
		return v
	}))
	c.OnRestartFailed(cb("restartfailed", nil))
	c.OnShutdown(cb("shutdown", nil))
	return nil
}

func init() {
	casket.RegisterServerType("verifev", casket.ServerType{
		Directives:   func() []string { return []string{"verifevhook", "on", "tls", "verifevcfg"} },
		DefaultInput: func() casket.Input { return casket.CasketfileInput{ServerTypeName: "verifev"} },
		NewContext: func(inst *casket.Instance) casket.Context {
			return &ectx{inst: inst, tls: &caskettls.Config{Manager: &certmagic.Config{}}}
		},
	})
	casket.RegisterPlugin("verifevhook", casket.Plugin{ServerType: "verifev", Action: setupHook})
	casket.RegisterPlugin("verifevcfg", casket.Plugin{ServerType: "verifev", Action: setupCfg})
	caskettls.RegisterConfigGetter("verifev", func(c *casket.Controller) *caskettls.Config {
		return c.Context().(*ectx).tls
	})
}

const hookScript = `#!/bin/sh
# $1 name, $2 mode (b blocking | n non-blocking), $3 outcome (ok | fail), $4 directory of the history
d="$4"
if [ "$2" = n ]; then
	# a non-blocking command stays alive until the harness releases it (bounded)
	i=0
	while [ ! -e "$d/rel" ] && [ $i -lt 600 ]; do sleep 0.005; i=$((i+1)); done
fi
echo "end $1 $2" >> "$d/cmds.log"
[ "$3" = fail ] && exit 3
exit 0
`

var onWord = map[string]string{"instancestartup": "startup", "shutdown": "shutdown", "certrenew": "certrenew"}

// casketfile renders the configuration of generation gen.
func casketfileText(dir string, gen int, cf cfgSpec, fail string) string {
	var b strings.Builder
	keys := fmt.Sprintf("g%da", gen)
	if cf.Keys == 2 {
		keys += fmt.Sprintf(", g%db", gen)
	}
	fmt.Fprintf(&b, "%s {\n\tverifevhook\n", keys)
	for j, o := range cf.Ons {
		// one script for all histories, written before the first child is forked (a script written
		// while other goroutines fork could be "text file busy" for the process that runs it)
		cmd := filepath.Join(filepath.Dir(dir), "hook.sh")
		if o.O == "nostart" {
			cmd = filepath.Join(dir, "no-such-command")
		}
		amp := ""
		if o.M == "n" {
			amp = " &"
		}
		word := onWord[o.E]
		if (gen+j)%2 == 0 {
			word = strings.ToUpper(word[:1]) + word[1:] // event names are matched case-insensitively
		}
		fmt.Fprintf(&b, "\ton %s %s g%d.%d %s %s %s%s\n", word, cmd, gen, j+1, o.M, o.O, dir, amp)
	}
	if fail == "onparse" {
		// what onParse refuses: an unknown event, the events `on` cannot name, a missing command
		bogus := []string{"on nosuchevent /bin/true", "on instancerestart /bin/true", "on instancestartup /bin/true", "on shutdown"}
		b.WriteString("\t" + bogus[gen%len(bogus)] + "\n")
	}
	f := fail
	if f == "restartcb" || f == "load" || f == "onparse" {
		f = "none"
	}
	fmt.Fprintf(&b, "\ttls off\n\tverifevcfg %s\n}\n", f)
	return b.String()
}

// ------------------------------------------------------------------------------- child: main loop

type command struct {
	C     string             `json:"c"`
	Op    op                 `json:"op"`
	Gen   int                `json:"gen"`
	Table map[string]cfgSpec `json:"table"`
}

var (
	loadMu   sync.Mutex
	loadKind = "first"
	loadIn   casket.Input
)

func loader(string) (casket.Input, error) {
	loadMu.Lock()
	kind, in := loadKind, loadIn
	loadMu.Unlock()
	switch kind {
	case "first":
		return in, nil
	case "probe":
		rec.emit(event{"ev": "load", "kind": "probe", "x": 1})
		return nil, errors.New("probe: no configuration")
	case "fail":
		rec.emit(event{"ev": "load", "res": "err"})
		return nil, errors.New("scripted load failure")
	}
	rec.emit(event{"ev": "load", "res": "ok"})
	return in, nil
}

func retEvent(res string) event {
	reg, non := registry()
	_, nb := endLines(rec.dir)
	return event{"ev": "ret", "res": res, "reg": reg, "non": non, "ninst": len(casket.Instances()), "nbdone": nb}
}

// TestCx16EventsChild is the child process; it does nothing unless VERIF_CX16EV_CHILD is set.
func TestCx16EventsChild(t *testing.T) {
	dir := os.Getenv("VERIF_CX16EV_CHILD")
	if dir == "" {
		t.Skip("child mode only")
	}
	hx.Quiet()
	syscall.CloseOnExec(3) // the `on` commands must not inherit the event pipe
	rec = &recorder{out: os.NewFile(3, "events"), dir: dir, ends: map[string]int{}, uuid: map[string][2]int{}}
	log.SetFlags(0)
	log.SetOutput(rec)
	var table map[string]cfgSpec
	// a plugin registers its hook in init(); casketmain installs the signal handlers in init()
	// and emits StartupEvent before it loads a configuration
	casket.RegisterEventHook("verif-plug", observer("plug", 0))
	casket.RegisterCasketfileLoader("verifev", casket.LoaderFunc(loader))
	casket.TrapSignals()
	for i := 0; i < 10; i++ {
		time.Sleep(3 * time.Millisecond) // the handler goroutines must reach signal.Notify
	}
	casket.EmitEvent(casket.StartupEvent, nil)
	rec.aux(event{"ev": "ready"})
	input := func(gen int, o op) casket.Input {
		txt := casketfileText(dir, gen, table[o.C], o.F)
		return casket.CasketfileInput{Contents: []byte(txt), Filepath: "verifev", ServerTypeName: "verifev"}
	}
	first := true
	sc := bufio.NewScanner(os.Stdin)
	sc.Buffer(make([]byte, 1<<16), 1<<22)
	for sc.Scan() {
		var c command
		if err := json.Unmarshal(sc.Bytes(), &c); err != nil {
			os.Exit(96)
		}
		resOf := func(err error) string {
			if err != nil {
				return "err"
			}
			return "ok"
		}
		at := func(p int) *casket.Instance {
			l := casket.Instances()
			if p < 1 || p > len(l) {
				os.Exit(95) // the history is not one the specification generates
			}
			return l[p-1]
		}
		switch c.C {
		case "table":
			table = c.Table
			rec.aux(event{"ev": "ack"})
		case "op":
			os.Remove(filepath.Join(dir, "rel"))
			rec.emit(event{"ev": "call", "op": c.Op})
			var err error
			switch c.Op.T {
			case "start":
				in := input(c.Gen, c.Op)
				if first {
					// the way casketmain obtains the first configuration: records the loader
					// that SIGUSR1 reloads will ask
					first = false
					loadMu.Lock()
					loadKind, loadIn = "first", in
					loadMu.Unlock()
					if l, lerr := casket.LoadCasketfile("verifev"); lerr == nil && l != nil {
						in = l
					}
				}
				_, err = casket.Start(in)
			case "reload":
				knobMu.Lock()
				restartCbFails = c.Op.F == "restartcb"
				knobMu.Unlock()
				_, err = at(c.Op.P).Restart(input(c.Gen, c.Op))
			case "stop":
				err = at(c.Op.P).Stop()
			case "validate":
				err = casket.ValidateAndExecuteDirectives(input(c.Gen, c.Op), nil, true)
			case "cert":
				genMu.Lock()
				inst := at(c.Op.P)
				cfg, g := tlsOf[inst], genOf[inst]
				genMu.Unlock()
				if cfg == nil || cfg.Manager.OnEvent == nil {
					rec.emit(event{"ev": "noonevent"})
					break
				}
				// what certmagic reports after obtaining a certificate
				data := map[string]interface{}{"identifier": fmt.Sprintf("g%d.test", g), "renewal": c.Op.F == "renew", "issuer": "verif"}
				name := "cert_obtained"
				if c.Op.F == "other" {
					name = "cert_obtaining"
				}
				err = cfg.Manager.OnEvent(context.Background(), name, data)
			}
			rec.emit(retEvent(resOf(err)))
		case "usr1begin":
			os.Remove(filepath.Join(dir, "rel"))
			knobMu.Lock()
			restartCbFails = c.Op.F == "restartcb"
			knobMu.Unlock()
			loadMu.Lock()
			loadKind, loadIn = "cfg", input(c.Gen, c.Op)
			if c.Op.F == "load" {
				loadKind = "fail"
			}
			loadMu.Unlock()
			rec.emit(event{"ev": "call", "op": c.Op})
			rec.aux(event{"ev": "ack"})
		case "probe":
			loadMu.Lock()
			loadKind = "probe"
			loadMu.Unlock()
			rec.aux(event{"ev": "ack"})
		case "snap":
			rec.emit(retEvent("?"))
		case "settle":
			// release the non-blocking commands and wait until each has written its line
			os.WriteFile(filepath.Join(dir, "rel"), nil, 0o644)
			rec.mu.Lock()
			want := rec.nbLaunched
			rec.mu.Unlock()
			nb := 0
			for i := 0; i < 2400; i++ {
				if _, nb = endLines(dir); nb >= want {
					break
				}
				time.Sleep(5 * time.Millisecond)
			}
			os.Remove(filepath.Join(dir, "rel"))
			rec.emit(event{"ev": "settle", "nbdone": nb})
		case "exitbegin":
			rec.emit(event{"ev": "call", "op": c.Op})
			rec.aux(event{"ev": "ack"})
		}
	}
	select {}
}

// ------------------------------------------------------------------------------- parent: one history

type child struct {
	cmd   *exec.Cmd
	stdin io.WriteCloser
	mu    sync.Mutex
	cond  *sync.Cond
	lines []string
	evs   []event
	eof   bool
	dir   string
}

func spawn(dir string) (*child, error) {
	if err := os.MkdirAll(dir, 0o755); err != nil {
		return nil, err
	}
	r, w, err := os.Pipe()
	if err != nil {
		return nil, err
	}
	cmd := exec.Command(os.Args[0], "-test.run=^TestCx16EventsChild$", "-test.timeout=0")
	hx.DieWithParent(cmd)
	cmd.Env = append(os.Environ(), "VERIF_CX16EV_CHILD="+dir, "VERIF_OUT=", "GOMAXPROCS=2")
	cmd.ExtraFiles = []*os.File{w}
	// what the child prints (a panic, a dump of the Go runtime) is kept for the diagnosis of an
	// exit that casket's signal handling does not explain
	if f, ferr := os.Create(filepath.Join(dir, "stderr.txt")); ferr == nil {
		cmd.Stderr = f
		defer f.Close()
	}
	stdin, err := cmd.StdinPipe()
	if err != nil {
		return nil, err
	}
	if err := cmd.Start(); err != nil {
		r.Close()
		w.Close()
		return nil, err
	}
	w.Close()
	c := &child{cmd: cmd, stdin: stdin, dir: dir}
	c.cond = sync.NewCond(&c.mu)
	go func() {
		sc := bufio.NewScanner(r)
		sc.Buffer(make([]byte, 1<<16), 1<<22)
		for sc.Scan() {
			ln := sc.Text()
			var e event
			if json.Unmarshal([]byte(ln), &e) != nil {
				continue
			}
			c.mu.Lock()
			c.lines = append(c.lines, ln)
			c.evs = append(c.evs, e)
			c.cond.Broadcast()
			c.mu.Unlock()
		}
		r.Close()
		c.mu.Lock()
		c.eof = true
		c.cond.Broadcast()
		c.mu.Unlock()
	}()
	return c, nil
}

// wait blocks until an event at index >= from satisfies pred (returns its index + 1), the child's
// event stream ends, or the time is up.
func (c *child) wait(from int, d time.Duration, pred func(event) bool) (int, bool) {
	deadline := time.Now().Add(d)
	timer := time.AfterFunc(d, func() { c.mu.Lock(); c.cond.Broadcast(); c.mu.Unlock() })
	defer timer.Stop()
	c.mu.Lock()
	defer c.mu.Unlock()
	i := from
	for {
		for ; i < len(c.evs); i++ {
			if pred(c.evs[i]) {
				return i + 1, true
			}
		}
		if c.eof || time.Now().After(deadline) {
			return i, false
		}
		c.cond.Wait()
	}
}

func (c *child) send(v interface{}) {
	b, _ := json.Marshal(v)
	c.stdin.Write(append(b, '\n'))
}

func (c *child) kill() {
	c.cmd.Process.Kill()
	c.cmd.Wait()
}

func is(name string) func(event) bool { return func(e event) bool { return e["ev"] == name } }

var sigNum = map[string]syscall.Signal{"TERM": syscall.SIGTERM, "INT": syscall.SIGINT, "QUIT": syscall.SIGQUIT}

type hang struct{ what string }

func (h hang) Error() string { return h.what }

type crash struct {
	code   int
	stderr string
}

func (c crash) Error() string { return fmt.Sprintf("exit code %d: %s", c.code, c.stderr) }

// runHistory executes one history in a fresh child process and returns the trace lines.
func runHistory(root string, id int, h hcase, table map[string]cfgSpec, rnd *rand.Rand) ([]string, error) {
	dir := filepath.Join(root, fmt.Sprintf("ev%d", id))
	defer os.RemoveAll(dir)
	c, err := spawn(dir)
	if err != nil {
		return nil, err
	}
	pos := 0
	ok := false
	if pos, ok = c.wait(0, 30*time.Second, is("ready")); !ok {
		c.kill()
		return nil, fmt.Errorf("child never became ready")
	}
	c.send(command{C: "table", Table: table})
	if pos, ok = c.wait(pos, 10*time.Second, is("ack")); !ok {
		c.kill()
		return nil, fmt.Errorf("child did not take the table")
	}
	gen := 0
	code := 0
	for _, o := range h.Ops {
		if genOps[o.T] {
			gen++
		}
		switch o.T {
		case "usr1":
			c.send(command{C: "usr1begin", Op: o, Gen: gen})
			if pos, ok = c.wait(pos, 10*time.Second, is("ack")); !ok {
				c.kill()
				return nil, fmt.Errorf("child did not acknowledge usr1begin")
			}
			c.cmd.Process.Signal(syscall.SIGUSR1)
			if pos, ok = c.wait(pos, 15*time.Second, func(e event) bool { return e["ev"] == "load" && e["kind"] == nil }); !ok {
				c.kill()
				return nil, hang{"SIGUSR1 was not handled (the loader was never asked)"}
			}
			// a second SIGUSR1 whose load fails: the handler is sequential, so once the loader
			// is asked again the first reload is over, restoring the hooks included
			c.send(command{C: "probe"})
			if pos, ok = c.wait(pos, 10*time.Second, is("ack")); !ok {
				c.kill()
				return nil, hang{"the child's command loop does not answer during a SIGUSR1 reload"}
			}
			probed := false
			for try := 0; try < 6 && !probed; try++ {
				c.cmd.Process.Signal(syscall.SIGUSR1)
				pos, probed = c.wait(pos, 5*time.Second, func(e event) bool { return e["ev"] == "load" && e["kind"] == "probe" })
			}
			if !probed {
				c.kill()
				return nil, hang{"the SIGUSR1 reload did not finish"}
			}
			c.send(command{C: "snap"})
			if pos, ok = c.wait(pos, 10*time.Second, is("ret")); !ok {
				c.kill()
				return nil, fmt.Errorf("child did not answer snap")
			}
		case "exit":
			c.send(command{C: "exitbegin", Op: o})
			if pos, ok = c.wait(pos, 10*time.Second, is("ack")); !ok {
				c.kill()
				return nil, fmt.Errorf("child did not acknowledge exitbegin")
			}
			for _, s := range o.S {
				if err := c.cmd.Process.Signal(sigNum[s]); err != nil {
					break
				}
				switch rnd.Intn(3) {
				case 0:
				case 1:
					time.Sleep(time.Duration(200+rnd.Intn(1500)) * time.Microsecond)
				case 2:
					time.Sleep(time.Duration(2+rnd.Intn(8)) * time.Millisecond)
				}
			}
			done := make(chan error, 1)
			go func() { done <- c.cmd.Wait() }()
			select {
			case werr := <-done:
				if ee, isExit := werr.(*exec.ExitError); isExit {
					code = ee.ExitCode()
				} else if werr != nil {
					return nil, werr
				}
			case <-time.After(20 * time.Second):
				c.cmd.Process.Kill()
				<-done
				return nil, hang{fmt.Sprintf("the process did not exit after signals %v", o.S)}
			}
			ints := 0
			for _, s := range o.S {
				if s == "INT" {
					ints++
				}
			}
			if code != 0 && !(code == 2 && ints >= 2) {
				// casket's handlers leave with 0 (TERM, QUIT, first INT) or 2 (second INT); anything
				// else is the signal's default action (-1: handlers not installed yet, a harness
				// race), a panic or a crash of the runtime
				b, _ := os.ReadFile(filepath.Join(dir, "stderr.txt"))
				if len(b) > 1200 {
					b = b[:1200]
				}
				return nil, crash{code: code, stderr: string(b)}
			}
		default:
			c.send(command{C: "op", Op: o, Gen: gen})
			if pos, ok = c.wait(pos, 25*time.Second, is("ret")); !ok {
				c.kill()
				return nil, hang{fmt.Sprintf("%s did not return", o.T)}
			}
		}
		if o.T != "exit" {
			c.send(command{C: "settle"})
			if pos, ok = c.wait(pos, 20*time.Second, is("settle")); !ok {
				c.kill()
				return nil, fmt.Errorf("child did not settle")
			}
		}
	}
	// the event stream is complete when the pipe is closed
	c.wait(pos, 5*time.Second, func(event) bool { return false })
	c.mu.Lock()
	lines := append([]string{}, c.lines...)
	evs := append([]event{}, c.evs...)
	c.mu.Unlock()
	// orphans: non-blocking commands launched by the shutdown event outlive the process; release
	// them and wait for their lines
	launched := 0
	for _, e := range evs {
		if e["ev"] == "cmdstart" && e["mode"] == "n" {
			g, j := int(e["g"].(float64)), int(e["j"].(float64))
			if cs, found := specOf(h, table, g); found && j >= 1 && j <= len(cs.Ons) && cs.Ons[j-1].O != "nostart" {
				launched++
			}
		}
	}
	os.WriteFile(filepath.Join(dir, "rel"), nil, 0o644)
	nb := 0
	limit := 1000
	if n := len(evs); code == 2 && n > 0 && evs[n-1]["ev"] == "cmdstart" {
		// killed between the log line and the launch: the last command may not exist
		limit = 60
	}
	for i := 0; i < limit; i++ {
		if _, nb = endLines(dir); nb >= launched {
			break
		}
		time.Sleep(5 * time.Millisecond)
	}
	var out []string
	for i, ln := range lines {
		if evs[i]["x"] != nil {
			continue
		}
		out = append(out, ln)
	}
	// the child accounts for the end of a blocking command when it records its next event; when
	// the launch is the last thing it recorded, the line of the command log is looked up here
	if n := len(evs); n > 0 && evs[n-1]["ev"] == "cmdstart" && evs[n-1]["mode"] == "b" {
		g, j := int(evs[n-1]["g"].(float64)), int(evs[n-1]["j"].(float64))
		ended := 0
		for _, e := range evs {
			if e["ev"] == "cmdend" && int(e["g"].(float64)) == g && int(e["j"].(float64)) == j {
				ended++
			}
		}
		if per, _ := endLines(dir); per[fmt.Sprintf("g%d.%d", g, j)] > ended {
			out = append(out, fmt.Sprintf(`{"ev":"cmdend","g":%d,"j":%d}`, g, j))
		}
	}
	out = append(out, fmt.Sprintf(`{"ev":"exit","code":%d,"nbdone":%d}`, code, nb))
	return out, nil
}

// specOf returns the configuration generation g of the history was loaded from.
func specOf(h hcase, table map[string]cfgSpec, g int) (cfgSpec, bool) {
	n := 0
	for _, o := range h.Ops {
		if genOps[o.T] {
			n++
			if n == g {
				cs, ok := table[o.C]
				return cs, ok
			}
		}
	}
	return cfgSpec{}, false
}

// ------------------------------------------------------------------------------- parent: the test

type outcome struct {
	h     hcase
	lines []string
}

// features of a history, for the stratified sample
func features(h hcase) []string {
	var f []string
	live := 0
	for i, o := range h.Ops {
		f = append(f, o.T+"/"+o.F)
		if o.C != "none" || genOps[o.T] {
			f = append(f, o.T+"/"+o.F+"/"+o.C)
		}
		if o.T == "exit" {
			f = append(f, "exit/"+strings.Join(o.S, ","))
			f = append(f, fmt.Sprintf("exit-live%d/%s", live, o.S[0]))
		}
		if i > 0 {
			p := h.Ops[i-1]
			f = append(f, p.T+"/"+p.F+">"+o.T+"/"+o.F)
		}
		if o.F == "none" {
			switch o.T {
			case "start":
				live++
			case "stop":
				live--
			}
		}
	}
	return f
}

func sample(cases []hcase, n int, rnd *rand.Rand) []hcase {
	if n >= len(cases) {
		return cases
	}
	perm := rnd.Perm(len(cases))
	seen := map[string]bool{}
	var picked []hcase
	taken := make([]bool, len(cases))
	// first pass: a history is taken when it shows something not seen yet
	for _, i := range perm {
		if len(picked) >= n {
			break
		}
		fresh := false
		for _, f := range features(cases[i]) {
			if !seen[f] {
				fresh = true
			}
		}
		if fresh {
			for _, f := range features(cases[i]) {
				seen[f] = true
			}
			picked = append(picked, cases[i])
			taken[i] = true
		}
	}
	for _, i := range perm {
		if len(picked) >= n {
			break
		}
		if !taken[i] {
			picked = append(picked, cases[i])
		}
	}
	return picked
}

func TestCx16Events(t *testing.T) {
	hx.Quiet()
	res := hx.NewResult("TestCx16Events", "one case = one history of operations over {start, API reload, SIGUSR1 reload, stop, validate, certificate event} x configuration (set of `on` hooks) x failure stage, ended by an exit script of real signals, drawn by TLC simulation from EventHooksHist.tla and executed in a child process against the real package casket; non-trivial = history in which at least one `on` command is launched")
	defer res.Write(t)

	var all []hcase
	var table map[string]cfgSpec
	if p := hx.Replay(); p != "" {
		// a replay file of this driver carries the history and the configuration table (TLC is
		// not run for a replay); anything else (a rejected trace, a case of another driver of
		// this property) is not for this driver
		var w struct {
			Case hcase `json:"case"`
		}
		b, _ := os.ReadFile(p)
		if json.Unmarshal(b, &w) != nil || len(w.Case.Ops) == 0 || w.Case.Table == nil || w.Case.Ops[0].C == "" {
			return
		}
		table = w.Case.Table
		all = []hcase{{Ops: w.Case.Ops}}
	} else {
		seen := map[string]bool{}
		for _, c := range hx.LoadCases[hcase](t, "EventHooksHist") {
			if c.Table != nil {
				table = c.Table
				continue
			}
			if k := c.key(); !seen[k] {
				seen[k] = true
				all = append(all, c)
			}
		}
	}
	if table == nil || len(all) == 0 {
		res.Infra = "no configuration table / no histories among the cases of EventHooksHist"
		return
	}
	sort.Slice(all, func(i, j int) bool { return all[i].key() < all[j].key() })
	rnd := hx.Rand()
	n := 200
	if hx.Thorough() {
		n = 3000
	}
	cases := all
	if hx.Replay() == "" {
		cases = sample(all, n, rnd)
	}
	res.AddExtra("histories_generated", len(all))

	root, err := os.MkdirTemp(hx.Scratch(t), "cx16events_")
	if err != nil {
		res.Infra = err.Error()
		return
	}
	defer os.RemoveAll(root)
	if err := os.WriteFile(filepath.Join(root, "hook.sh"), []byte(hookScript), 0o755); err != nil {
		res.Infra = err.Error()
		return
	}

	outs := make([]*outcome, len(cases))
	var mu sync.Mutex
	var wg sync.WaitGroup
	sem := make(chan struct{}, 8)
	for i, h := range cases {
		wg.Add(1)
		sem <- struct{}{}
		go func(i int, h hcase) {
			defer wg.Done()
			defer func() { <-sem }()
			r := rand.New(rand.NewSource(hx.Seed()*100003 + int64(i)))
			var lines []string
			var err error
			for try := 0; try < 3; try++ {
				lines, err = runHistory(root, i*4+try, h, table, r)
				if err == nil {
					break
				}
				if _, isHang := err.(hang); isHang && try >= 1 {
					break // a hang seen twice in a row is an observation
				}
				if cr, isCrash := err.(crash); isCrash && try >= 1 && strings.Contains(cr.stderr, "panic") {
					break // so is a panic
				}
			}
			mu.Lock()
			defer mu.Unlock()
			if err != nil {
				if hg, isHang := err.(hang); isHang {
					res.Add(hx.Mismatch{Key: prefix + "hang/" + h.key(), What: hg.what + " (twice in a row, fresh process each time)", Case: hcase{Ops: h.Ops, Table: table}})
				} else if cr, isCrash := err.(crash); isCrash && strings.Contains(cr.stderr, "panic") {
					res.Add(hx.Mismatch{Key: prefix + "crash/" + h.key(), What: "the process panicked (twice in a row, fresh process each time): " + cr.Error(), Case: hcase{Ops: h.Ops, Table: table}})
				} else if res.Infra == "" {
					res.Infra = "history " + h.key() + ": " + err.Error()
				}
				return
			}
			outs[i] = &outcome{h, lines}
		}(i, h)
	}
	wg.Wait()
	if res.Infra != "" {
		return
	}

	// traces: one file per 150 histories; every history starts with a script event carrying its key
	perFile := 250
	if hx.Thorough() {
		perFile = 1000
	}
	var tw *hx.TraceWriter
	nInFile, fileNo := 0, 0
	flush := func() {
		if tw != nil {
			tw.Close()
			res.Traces = append(res.Traces, hx.TraceFile{Spec: "eventhooks", File: tw.Path, Count: nInFile, Key: fmt.Sprintf("eventhooks/batch-%d", fileNo)})
			tw, nInFile = nil, 0
			fileNo++
		}
	}
	var genuine *outcome
	launchedAny, logLines := 0, 0
	for _, o := range outs {
		if o == nil {
			continue
		}
		if tw == nil {
			tw = hx.NewTrace(t, fmt.Sprintf("eventhooks_%d.ndjson", fileNo))
		}
		writeHistory(tw, o.h, o.lines)
		nInFile++
		nt := ""
		for _, ln := range o.lines {
			if strings.Contains(ln, `"ev":"cmdstart"`) {
				nt = o.h.key()
				logLines++
			}
		}
		if nt != "" {
			launchedAny++
			if genuine == nil || len(o.lines) > len(genuine.lines) {
				genuine = o
			}
		}
		res.Count(nt)
		if len(res.Samples) < 3 && nt != "" {
			res.Sample(map[string]interface{}{"history": o.h.Ops, "trace": o.lines})
		}
		if nInFile >= perFile {
			flush()
		}
	}
	flush()
	res.Replayed = res.Evaluations
	res.AddExtra("histories_with_commands", launchedAny)
	if hx.Replay() == "" && logLines == 0 {
		// every sample contains configurations with matching `on` hooks: no launch line at all
		// means the process log no longer carries what this binding reads (not a verdict)
		res.Infra = "no `on` command launch was seen in casket's process log: the log lines of onevent/hook changed?"
		return
	}
	if hx.SelfTest() {
		selfTest(t, res, genuine)
	}
}

func writeHistory(tw *hx.TraceWriter, h hcase, lines []string) {
	b, _ := json.Marshal(map[string]interface{}{"ev": "script", "key": "eventhooks/" + h.key()})
	tw.EmitRaw(b)
	for _, ln := range lines {
		tw.EmitRaw([]byte(ln))
	}
}

// selfTest corrupts a genuine trace in four ways and requires TLC to reject each (and to accept
// the genuine one in the same set-up).
func selfTest(t *testing.T, res *hx.Result, g *outcome) {
	if g == nil {
		res.Infra = "selftest: no trace with an `on` command to corrupt"
		return
	}
	find := func(lines []string, what string, last bool) int {
		at := -1
		for i, ln := range lines {
			if strings.Contains(ln, what) {
				at = i
				if !last {
					break
				}
			}
		}
		return at
	}
	type corruption struct {
		name string
		f    func([]string) []string
	}
	cs := []corruption{
		{"genuine", func(l []string) []string { return l }},
		// an observer hook that did not run for one emission
		{"missing-hook-run", func(l []string) []string {
			i := find(l, `"ev":"hook"`, true)
			if i < 0 {
				return nil
			}
			return append(append([]string{}, l[:i]...), l[i+1:]...)
		}},
		// an `on` command launched twice for one emission
		{"double-command", func(l []string) []string {
			i := find(l, `"ev":"cmdstart"`, false)
			if i < 0 {
				return nil
			}
			return append(append(append([]string{}, l[:i+1]...), l[i]), l[i+1:]...)
		}},
		// a command run in the other mode (blocking <-> non-blocking)
		{"wrong-mode", func(l []string) []string {
			i := find(l, `"ev":"cmdstart"`, false)
			if i < 0 {
				return nil
			}
			out := append([]string{}, l...)
			if strings.Contains(out[i], `"mode":"b"`) {
				out[i] = strings.Replace(out[i], `"mode":"b"`, `"mode":"n"`, 1)
			} else {
				out[i] = strings.Replace(out[i], `"mode":"n"`, `"mode":"b"`, 1)
			}
			return out
		}},
		// one hook too many in the registry when an operation returns
		{"hook-left-behind", func(l []string) []string {
			i := find(l, `"ev":"ret"`, true)
			if i < 0 {
				return nil
			}
			var e map[string]interface{}
			json.Unmarshal([]byte(l[i]), &e)
			e["non"] = e["non"].(float64) + 1
			b, _ := json.Marshal(e)
			out := append([]string{}, l...)
			out[i] = string(b)
			return out
		}},
	}
	for _, c := range cs {
		lines := c.f(g.lines)
		if lines == nil {
			res.Infra = "selftest: nothing to corrupt for " + c.name
			return
		}
		tw := hx.NewTrace(t, "selftest_eventhooks_"+c.name+".ndjson")
		writeHistory(tw, g.h, lines)
		tw.Close()
		rc, out := hx.RunTraceSpec(t, "EventHooksTrace", "EventHooksTrace.cfg", tw.Path)
		os.Remove(tw.Path)
		rejected := rc == 10 || rc == 12 || rc == 13
		switch {
		case c.name == "genuine" && rc != 0:
			res.Infra = fmt.Sprintf("selftest: genuine trace not accepted (rc=%d): %s", rc, out)
			return
		case c.name != "genuine" && !rejected:
			res.Infra = fmt.Sprintf("selftest: corruption %s NOT noticed (rc=%d): %s", c.name, rc, out)
			return
		}
		res.AddExtra("selftest_"+c.name, rc)
	}
}
