package c05

// First half of C05: the pool tables emitted by LoadBalance.tla replayed against
// staticUpstream.Select + every policy of policy.go, through upstreams built by
// proxy.NewStaticUpstreams from a real proxy block.

import (
	"fmt"
	"hash/fnv"
	"net/http"
	"reflect"
	"strconv"
	"strings"
	"sync"
	"sync/atomic"

	"github.com/tmpim/casket/casketfile"
	"github.com/tmpim/casket/caskethttp/proxy"
	"verifharness/hx"
)

// selCase is one CASE line of LoadBalance.tla (slots are 1-based, 0 = nil).
type selCase struct {
	N      int      `json:"n"`
	MC     int      `json:"mc"`
	MF     int      `json:"mf"`
	St     []string `json:"st"`
	Avail  []bool   `json:"avail"`
	First  int      `json:"first"`
	RR     []int    `json:"rr"`
	Hashed []int    `json:"hashed"`
	Least  []bool   `json:"least"`
	// replay only
	Only *selOnly `json:"only,omitempty"`
}

type selOnly struct {
	Policy string `json:"policy"`
	Clause string `json:"clause"`
	Res    int    `json:"residue"` // hash residue / robin residue, -1 if not applicable
}

// the concrete policies of the Casketfile and the model policy they realise
var concretePolicies = []struct{ name, block, model string }{
	{"first", "policy first", "first"},
	{"round_robin", "policy round_robin", "rr"},
	{"least_conn", "policy least_conn", "least_conn"},
	{"random", "policy random", "random"},
	{"default", "", "random"}, // no policy line: Random
	{"ip_hash", "policy ip_hash", "hashed"},
	{"uri_hash", "policy uri_hash", "hashed"},
	{"header", "policy header X-Key", "hashed"},
	{"header-lc", "policy header x-key", "hashed"}, // the name as an operator may spell it: header names are case-insensitive
	{"header2", "policy header X-Key X-Key2", "hashed"}, // values of several headers concatenated
	{"header-novalue", "policy header X-Key", "rr"},     // request without the header: package-global round robin
}

func fnv32a(s string) uint32 {
	h := fnv.New32a()
	h.Write([]byte(s))
	return h.Sum32()
}

// keyFor returns the k-th key of the given kind whose FNV-1a hash has residue res modulo n.
func keyFor(kind string, n, res, k int) string {
	found := 0
	for i := 0; ; i++ {
		var s string
		switch kind {
		case "ip":
			s = fmt.Sprintf("10.%d.%d.%d", (i>>16)&255, (i>>8)&255, i&255)
		case "uri":
			s = "/k" + strconv.Itoa(i) + "?q=1"
		default:
			s = "v" + strconv.Itoa(i)
		}
		if int(fnv32a(s)%uint32(n)) == res {
			if found == k {
				return s
			}
			found++
		}
	}
}

const fnvPrime, fnvPrimeInv = 16777619, 899433627 // 16777619 * 899433627 = 1 (mod 2^32)

var (
	edgeMu    sync.Mutex
	edgeFwd   = map[string]map[uint32]string{}
	edgeCache = map[string]string{}
)

// edgeKey returns a key of the given kind whose FNV-1a hash h has residue res modulo n and lies in
// the top n values of the 32-bit range (h + i overflows for some i < n). Found by meeting in the
// middle: 3 characters forward from the prefix, 4 characters backward from the target hash.
func edgeKey(kind string, n, res int) string {
	var target uint32
	found := false
	for d := 0; d < n; d++ {
		if t := uint32(0xFFFFFFFF) - uint32(d); int(t%uint32(n)) == res {
			target, found = t, true
		}
	}
	if !found {
		return ""
	}
	prefix := map[string]string{"ip": "h", "uri": "/e", "hdr": "e"}[kind]
	ck := fmt.Sprintf("%s/%d", kind, target)
	edgeMu.Lock()
	defer edgeMu.Unlock()
	if k, ok := edgeCache[ck]; ok {
		return k
	}
	const alpha = "abcdefghijklmnopqrstuvwxyz0123456789"
	fwd := edgeFwd[kind]
	if fwd == nil {
		fwd = map[uint32]string{}
		h0 := fnv32a(prefix)
		for _, a := range alpha {
			for _, b := range alpha {
				for _, c := range alpha {
					h := h0
					for _, x := range []rune{a, b, c} {
						h = (h ^ uint32(x)) * fnvPrime
					}
					fwd[h] = string([]rune{a, b, c})
				}
			}
		}
		edgeFwd[kind] = fwd
	}
	key := ""
search:
	for _, d := range alpha {
		h3 := (target * fnvPrimeInv) ^ uint32(d)
		for _, c := range alpha {
			h2 := (h3 * fnvPrimeInv) ^ uint32(c)
			for _, b := range alpha {
				h1 := (h2 * fnvPrimeInv) ^ uint32(b)
				for _, a := range alpha {
					h0 := (h1 * fnvPrimeInv) ^ uint32(a)
					if mid, ok := fwd[h0]; ok {
						key = prefix + mid + string([]rune{a, b, c, d})
						break search
					}
				}
			}
		}
	}
	if key != "" && fnv32a(key) != target {
		key = ""
	}
	edgeCache[ck] = key
	return key
}

// upstreamFor builds a real upstream from a proxy block with n backends.
func upstreamFor(n, mc, mf int, policyLine string, extra string, addrs []string) (proxy.Upstream, proxy.HostPool, error) {
	ups, err := proxy.NewStaticUpstreams(casketfile.NewDispenser("Casketfile", strings.NewReader(blockText(n, mc, mf, policyLine, extra, addrs))), "")
	if err != nil {
		return nil, nil, err
	}
	if len(ups) != 1 {
		return nil, nil, fmt.Errorf("expected one upstream, got %d", len(ups))
	}
	hv := reflect.ValueOf(ups[0])
	if hv.Kind() == reflect.Ptr {
		hv = hv.Elem()
	}
	f := hv.FieldByName("Hosts")
	if !f.IsValid() {
		return nil, nil, fmt.Errorf("upstream has no Hosts field")
	}
	pool, ok := f.Interface().(proxy.HostPool)
	if !ok || len(pool) != n {
		return nil, nil, fmt.Errorf("unexpected host pool (%d hosts for %d backends)", len(pool), n)
	}
	return ups[0], pool, nil
}

// blockText renders the proxy directive of a case.
func blockText(n, mc, mf int, policyLine string, extra string, addrs []string) string {
	var b strings.Builder
	b.WriteString("proxy /")
	for i := 0; i < n; i++ {
		if addrs != nil {
			b.WriteString(" " + addrs[i])
		} else {
			fmt.Fprintf(&b, " 127.0.0.1:%d", 20001+i) // never contacted by Select
		}
	}
	b.WriteString(" {\n")
	if policyLine != "" {
		b.WriteString("\t" + policyLine + "\n")
	}
	if mc > 0 {
		fmt.Fprintf(&b, "\tmax_conns %d\n", mc)
	}
	fmt.Fprintf(&b, "\tmax_fails %d\n", mf)
	b.WriteString(extra)
	b.WriteString("}\n")
	return b.String()
}

// setSituation puts a backend into one of the situations of LoadBalance.tla!HostOf.
func setSituation(h *proxy.UpstreamHost, s string, mf int) {
	var u, f int32
	var c int64
	switch s {
	case "h0", "up":
	case "h1":
		f, c = int32(mf-1), 1
	case "full":
		c = 2
	case "failed":
		f = int32(mf)
	case "unhealthy":
		u = 1
	default:
		panic("situation " + s)
	}
	atomic.StoreInt32(&h.Unhealthy, u)
	atomic.StoreInt32(&h.Fails, f)
	atomic.StoreInt64(&h.Conns, c)
}

// the other situation with the same availability (LoadBalance.tla!Perturb)
func perturbed(s string, mc int) []string {
	availS := map[string]bool{"h0": true, "h1": true, "full": mc == 0, "failed": false, "unhealthy": false}
	var out []string
	for _, t := range []string{"h0", "h1", "full", "failed", "unhealthy"} {
		if t != s && availS[t] == availS[s] {
			out = append(out, t)
		}
	}
	return out
}

func slotOf(pool proxy.HostPool, h *proxy.UpstreamHost) int {
	if h == nil {
		return 0
	}
	for i, x := range pool {
		if x == h {
			return i + 1
		}
	}
	return -1
}

func selRequest(kind, key string, port int) *http.Request {
	uri := "/"
	if kind == "uri" {
		uri = key
	}
	r, _ := http.NewRequest("GET", "http://site.test"+uri, nil)
	r.RequestURI = uri
	r.RemoteAddr = "192.0.2.7:" + strconv.Itoa(port)
	switch kind {
	case "ip":
		r.RemoteAddr = key + ":" + strconv.Itoa(port)
	case "hdr":
		r.Header.Set("X-Key", key)
	case "hdr2":
		// the header policy concatenates the values of all configured names
		r.Header.Set("X-Key", key[:len(key)/2])
		r.Header.Set("X-Key2", key[len(key)/2:])
	}
	return r
}

func anyAvail(av []bool) bool {
	for _, a := range av {
		if a {
			return true
		}
	}
	return false
}

type selViolation struct {
	policy, clause string
	res            int
	what           string
	observed       interface{}
}

// selEnv caches one upstream per (n, mc, concrete policy) for a worker.
type selEnv struct {
	ups   map[string]proxy.Upstream
	pools map[string]proxy.HostPool
	// a policy block the (repaired) setup refuses is simply not a configuration
	refused map[string]string
}

func newSelEnv() *selEnv {
	return &selEnv{ups: map[string]proxy.Upstream{}, pools: map[string]proxy.HostPool{}, refused: map[string]string{}}
}

func (e *selEnv) get(n, mc, mf int, polName, polLine string, fresh bool) (proxy.Upstream, proxy.HostPool, error) {
	k := fmt.Sprintf("%d/%d/%d/%s", n, mc, mf, polName)
	if !fresh {
		if u, ok := e.ups[k]; ok {
			return u, e.pools[k], nil
		}
	}
	u, p, err := upstreamFor(n, mc, mf, polLine, "", nil)
	if err != nil {
		return nil, nil, err
	}
	if !fresh {
		e.ups[k], e.pools[k] = u, p
	}
	return u, p, nil
}

func applyCase(pool proxy.HostPool, c *selCase, st []string) {
	for i, h := range pool {
		setSituation(h, st[i], c.MF)
	}
}

// checkSelect evaluates the declarative clauses of the statement for one pool and one concrete policy.
// drift counts selections that satisfy the clauses but differ from the operational model.
func checkSelect(e *selEnv, c *selCase, pi int, fresh bool, onlyClause string, onlyRes int, count func(string)) (viol []selViolation, drift int, err error) {
	cp := concretePolicies[pi]
	up, pool, err := e.get(c.N, c.MC, c.MF, cp.name, cp.block, fresh)
	if err != nil {
		return nil, 0, err
	}
	some := anyAvail(c.Avail)
	okSel := func(s int) string { // ReturnsAvailable
		if s < 0 {
			return "returned a host that is not in the pool"
		}
		if s == 0 {
			if some {
				return "returned nil although a backend is available"
			}
			return ""
		}
		if !c.Avail[s-1] {
			return fmt.Sprintf("returned unavailable backend %d (%s)", s, c.St[s-1])
		}
		return ""
	}
	add := func(clause string, res int, what string, obs interface{}) {
		if onlyClause != "" && (clause != onlyClause || res != onlyRes) {
			return
		}
		viol = append(viol, selViolation{cp.name, clause, res, what, obs})
	}
	port := 40000
	switch {
	case cp.model == "first":
		applyCase(pool, c, c.St)
		s := slotOf(pool, up.Select(selRequest("", "", port)))
		count(fmt.Sprintf("%s/%d/%v", cp.name, c.N, c.Avail))
		if w := okSel(s); w != "" {
			add("available", -1, w, s)
		} else if some {
			first := 0
			for i, a := range c.Avail {
				if a {
					first = i + 1
					break
				}
			}
			if s != first {
				add("first-earliest", -1, fmt.Sprintf("first returned backend %d, the earliest available one is %d", s, first), s)
			}
		}
		if s != c.First {
			drift++
		}
	case cp.model == "random":
		applyCase(pool, c, c.St)
		for k := 0; k < 6; k++ {
			s := slotOf(pool, up.Select(selRequest("", "", port+k)))
			if w := okSel(s); w != "" {
				add("available", -1, w, s)
				break
			}
		}
		count(fmt.Sprintf("%s/%d/%v", cp.name, c.N, c.Avail))
	case cp.model == "least_conn":
		applyCase(pool, c, c.St)
		for k := 0; k < 6; k++ {
			s := slotOf(pool, up.Select(selRequest("", "", port+k)))
			if w := okSel(s); w != "" {
				add("available", -1, w, s)
				break
			}
			if s > 0 && !c.Least[s-1] {
				add("least-loaded", -1, fmt.Sprintf("least_conn returned backend %d (%s) although an available backend has fewer connections", s, c.St[s-1]), s)
				break
			}
		}
		count(fmt.Sprintf("%s/%d/%v/%v", cp.name, c.N, c.Avail, c.Least))
	case cp.model == "rr":
		kind := ""
		// all available: learn where the robin stands (the selected slot is robin+1 mod n, i.e. residue = slot-1 after the call)
		for r0 := 0; r0 < c.N; r0++ {
			if onlyClause != "" && onlyRes != r0 && onlyRes != -1 {
				continue
			}
			for i := range pool {
				setSituation(pool[i], "h0", c.MF)
			}
			// bring the robin residue to r0: a selection on an all-available pool of n > 1 returns slot (robin+1) mod n
			if c.N > 1 {
				for guard := 0; guard < 2*c.N+2; guard++ {
					s := slotOf(pool, up.Select(selRequest(kind, "", port)))
					if s-1 == r0 { // robin residue is now r0
						break
					}
				}
			}
			applyCase(pool, c, c.St)
			visits := make([]int, c.N+1)
			rounds := 2*c.N + 1
			bad := false
			for k := 0; k < rounds; k++ {
				s := slotOf(pool, up.Select(selRequest(kind, "", port+k)))
				if w := okSel(s); w != "" {
					add("available", r0, w, s)
					bad = true
					break
				}
				if k == 0 && s != c.RR[r0] && cp.name == "round_robin" {
					drift++
				}
				if s > 0 {
					visits[s]++
				}
				// RREven: at every point of the run two available backends differ by at most one visit
				if cp.name == "round_robin" {
					lo, hi := 1<<30, -1
					for b := 1; b <= c.N; b++ {
						if c.Avail[b-1] {
							if visits[b] < lo {
								lo = visits[b]
							}
							if visits[b] > hi {
								hi = visits[b]
							}
						}
					}
					if hi-lo > 1 {
						add("rr-even", r0, fmt.Sprintf("after %d consecutive selections the visits of available backends are %v", k+1, visits[1:]), visits[1:])
						bad = true
						break
					}
				}
			}
			count(fmt.Sprintf("%s/%d/%v/%d", cp.name, c.N, c.Avail, r0))
			if bad {
				continue
			}
		}
	case cp.model == "hashed":
		kind := map[string]string{"ip_hash": "ip", "uri_hash": "uri", "header": "hdr", "header-lc": "hdr", "header2": "hdr2"}[cp.name]
		kk := kind
		if kk == "hdr2" {
			kk = "hdr"
		}
		// every residue twice: with an ordinary key, and with a key whose 32-bit hash lies within
		// n of 2^32 (any arithmetic on the hash before the reduction modulo n must not wrap)
		for resx := 0; resx < 2*c.N; resx++ {
			res := resx % c.N
			if onlyClause != "" && onlyRes != res {
				continue
			}
			applyCase(pool, c, c.St)
			key := keyFor(kk, c.N, res, (c.N+len(c.St[0]))%3)
			if resx >= c.N {
				if key = edgeKey(kk, c.N, res); key == "" {
					continue
				}
			}
			s := slotOf(pool, up.Select(selRequest(kind, key, port)))
			count(fmt.Sprintf("%s/%d/%v/%d", cp.name, c.N, c.Avail, res))
			if w := okSel(s); w != "" {
				add("available", res, w+fmt.Sprintf(" (key %q, hash residue %d)", key, res), s)
				continue
			}
			if s != c.Hashed[res] {
				drift++
			}
			// Sticky: the same key again (another client port), and again after counters moved without changing availability
			s2 := slotOf(pool, up.Select(selRequest(kind, key, port+1)))
			if s2 != s {
				add("sticky", res, fmt.Sprintf("key %q went to backend %d and then to backend %d with nothing changed", key, s, s2), []int{s, s2})
				continue
			}
			for b := 0; b < c.N; b++ {
				stuck := true
				for _, t := range perturbed(c.St[b], c.MC) {
					st2 := append([]string(nil), c.St...)
					st2[b] = t
					applyCase(pool, c, st2)
					s3 := slotOf(pool, up.Select(selRequest(kind, key, port+2)))
					if w := okSel(s3); w != "" {
						add("available", res, w+fmt.Sprintf(" (key %q, hash residue %d, backend %d in situation %s)", key, res, b+1, t), s3)
						stuck = false
						break
					}
					if s3 != s {
						add("sticky", res, fmt.Sprintf("key %q went to backend %d, and to backend %d after backend %d changed from %s to %s (availability unchanged)", key, s, s3, b+1, c.St[b], t), []int{s, s3})
						stuck = false
						break
					}
				}
				if !stuck {
					break
				}
			}
		}
	}
	return viol, drift, nil
}

func selKey(c *selCase, v selViolation) string {
	r := ""
	if v.res >= 0 {
		r = fmt.Sprintf("/residue=%d", v.res)
	}
	return fmt.Sprintf("C05/select/%s/policy=%s/n=%d/max_conns=%d/pool=%s%s", v.clause, v.policy, c.N, c.MC, strings.Join(c.St, ","), r)
}

func policyIndex(name string) int {
	for i, p := range concretePolicies {
		if p.name == name {
			return i
		}
	}
	return -1
}

// confirmSelect reproduces a violation on a fresh upstream and reports it.
func confirmSelect(res *hx.Result, c *selCase, v selViolation) bool {
	e := newSelEnv()
	pi := policyIndex(v.policy)
	again, _, err := checkSelect(e, c, pi, true, v.clause, v.res, func(string) {})
	if err != nil || len(again) == 0 {
		return false
	}
	cc := *c
	cc.Only = &selOnly{Policy: v.policy, Clause: v.clause, Res: v.res}
	res.Add(hx.Mismatch{Key: selKey(c, v), What: fmt.Sprintf("policy %s on pool %v (max_conns %d, max_fails %d): %s", v.policy, c.St, c.MC, c.MF, again[0].what),
		Case: map[string]interface{}{"kind": "select", "select": cc}, Expected: map[string]interface{}{"available": c.Avail}, Observed: again[0].observed})
	return true
}
