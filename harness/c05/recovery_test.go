package c05

import (
	"fmt"
	"net"
	"net/http"
	"net/http/httptest"
	"sync"
	"sync/atomic"
	"time"

	"github.com/tmpim/casket/caskethttp/httpserver"
	"github.com/tmpim/casket/caskethttp/proxy"
	"verifharness/hx"
)

// Recovery part: LBRetry.tla!FailsAccounted says every counted failure has its own pending expiry
// (fails[b] = number of pending timers of b), so once fail_timeout has passed after the last failure
// every backend's count is back at zero, and LBRetry.tla!HealthyAnswers then demands an answer from a
// backend that is healthy again. The retry part runs with fail_timeout 60s (nothing expires inside one
// request); here the timeout is short and several fail/recover rounds follow each other on one pool.
//
// The oracle does not depend on timing: it polls until every count is zero (generous bound, 12 x
// fail_timeout) and only then sends the request that must be answered.

type recoverCase struct {
	N      int    `json:"n"`
	MF     int    `json:"mf"`
	Policy string `json:"policy"`
	Rounds int    `json:"rounds"`
}

const recoverFailTimeout = 500 * time.Millisecond

func recoverCases() []recoverCase {
	var cs []recoverCase
	for _, pol := range []string{"policy first", "policy round_robin", "policy least_conn", "policy ip_hash"} {
		for n := 1; n <= 2; n++ {
			for mf := 1; mf <= 3; mf++ {
				cs = append(cs, recoverCase{N: n, MF: mf, Policy: pol, Rounds: 2})
			}
		}
	}
	return cs
}

type recoverObs struct {
	Round  int     `json:"round"`
	Phase  string  `json:"phase"`
	Status int     `json:"status"`
	Fails  []int32 `json:"fails"`
}

// runRecover returns "" when the pool behaved, else what went wrong (and the observation).
func runRecover(c *recoverCase) (string, *recoverObs, error) {
	var failing int32
	var backends []*httptest.Server
	var addrs []string
	for i := 0; i < c.N; i++ {
		s := httptest.NewServer(http.HandlerFunc(func(w http.ResponseWriter, r *http.Request) {
			if atomic.LoadInt32(&failing) != 0 {
				if hj, ok := w.(http.Hijacker); ok {
					if conn, _, err := hj.Hijack(); err == nil {
						if tc, ok := conn.(*net.TCPConn); ok {
							tc.SetLinger(0)
						}
						conn.Close()
						return
					}
				}
				panic(http.ErrAbortHandler)
			}
			w.Write([]byte("ok"))
		}))
		defer s.Close()
		backends = append(backends, s)
		addrs = append(addrs, s.Listener.Addr().String())
	}
	extra := fmt.Sprintf("\ttry_duration %s\n\ttry_interval %s\n\tfail_timeout %s\n", tryDuration, tryInterval, recoverFailTimeout)
	up, pool, err := upstreamFor(c.N, 0, c.MF, c.Policy, extra, addrs)
	if err != nil {
		return "", nil, fmt.Errorf("proxy block refused: %v", err)
	}
	defer up.Stop()
	p := &proxy.Proxy{Next: httpserver.EmptyNext, Upstreams: []proxy.Upstream{up}}
	do := func() int {
		req := httptest.NewRequest("POST", "http://front.example/x", nil)
		req.RemoteAddr = "10.9.8.7:4242"
		rec := httptest.NewRecorder()
		st, _ := p.ServeHTTP(rec, req)
		if st == 0 {
			st = rec.Code
		}
		return st
	}
	counts := func() []int32 {
		f := make([]int32, len(pool))
		for i, h := range pool {
			f[i] = atomic.LoadInt32(&h.Fails)
		}
		return f
	}
	for round := 1; round <= c.Rounds; round++ {
		atomic.StoreInt32(&failing, 1)
		if st := do(); st != 502 {
			return fmt.Sprintf("round %d: every backend resets the connection, the client got %d instead of 502", round, st), &recoverObs{round, "failing", st, counts()}, nil
		}
		atomic.StoreInt32(&failing, 0)
		deadline := time.Now().Add(12 * recoverFailTimeout)
		zero := false
		for !zero && time.Now().Before(deadline) {
			zero = true
			for _, f := range counts() {
				if f != 0 {
					zero = false
				}
			}
			if !zero {
				time.Sleep(20 * time.Millisecond)
			}
		}
		if !zero {
			return fmt.Sprintf("round %d: counted failures did not all expire within %v of the last failure (fail_timeout %v): Fails=%v", round, 12*recoverFailTimeout, recoverFailTimeout, counts()),
				&recoverObs{round, "expiry", 0, counts()}, nil
		}
		for _, f := range counts() {
			if f < 0 {
				return fmt.Sprintf("round %d: a failure count went negative: Fails=%v", round, counts()), &recoverObs{round, "expiry", 0, counts()}, nil
			}
		}
		if st := do(); st != 200 {
			return fmt.Sprintf("round %d: every backend is healthy again and fail_timeout has passed, the client got %d instead of 200 (Fails=%v)", round, st, counts()),
				&recoverObs{round, "recovered", st, counts()}, nil
		}
	}
	return "", nil, nil
}

func recoverKey(c *recoverCase) string {
	return fmt.Sprintf("C05/recover/%s/n=%d/mf=%d/rounds=%d", c.Policy, c.N, c.MF, c.Rounds)
}

// reportRecover executes the scenario (again) and reports what it shows.
func reportRecover(res *hx.Result, c *recoverCase) {
	what2, o2, err2 := runRecover(c)
	if err2 != nil || what2 == "" {
		return
	}
	res.Add(hx.Mismatch{Key: recoverKey(c), What: fmt.Sprintf("proxy block {%s, max_fails %d, %d backends, fail_timeout %v}: %s", c.Policy, c.MF, c.N, recoverFailTimeout, what2),
		Case: replayCase{Kind: "recover", Recover: c}, Expected: "502 while every backend fails; all counts 0 after fail_timeout; 200 afterwards", Observed: o2})
}

func runRecoverAll(res *hx.Result) {
	cases := recoverCases()
	res.AddExtra("recovery_scenarios", len(cases))
	var wg sync.WaitGroup
	var mu sync.Mutex
	var infra error
	for i := range cases {
		wg.Add(1)
		go func(c *recoverCase) {
			defer wg.Done()
			res.Count(recoverKey(c))
			if hx.SelfTest() {
				return
			}
			what, _, err := runRecover(c)
			if err != nil {
				mu.Lock()
				infra = err
				mu.Unlock()
				return
			}
			if what != "" {
				reportRecover(res, c) // confirmed by a second execution
			}
		}(&cases[i])
	}
	wg.Wait()
	if infra != nil && res.Infra == "" {
		res.Infra = infra.Error()
	}
}
