package c05

// Second half of C05: every finished behaviour of LBRetry.tla replayed through
// Proxy.ServeHTTP (behind a real net/http server) against raw TCP backends that fail
// or answer per the fault pattern of the behaviour.

import (
	"bufio"
	"bytes"
	"crypto/sha1"
	"encoding/hex"
	"fmt"
	"io"
	"math/rand"
	"net"
	"net/http"
	"net/http/httptest"
	"sort"
	"strings"
	"sync"
	"sync/atomic"
	"time"

	"github.com/tmpim/casket/caskethttp/httpserver"
	"github.com/tmpim/casket/caskethttp/proxy"
	"verifharness/hx"
)

// retryCase is one CASE line of LBRetry.tla.
type retryCase struct {
	N          int      `json:"n"`
	Pol        string   `json:"pol"`
	K0         int      `json:"k0"`
	MF         int      `json:"mf"`
	Ini        []string `json:"ini"`
	Rel        []bool   `json:"rel"`
	OK         []bool   `json:"ok"`
	B          []int    `json:"b"`
	Status     int      `json:"status"`
	D          int      `json:"d"`
	MustAnswer bool     `json:"mustanswer"`
	// concretisation (chosen from the seed, stored for replay)
	Conc *retryConc `json:"conc,omitempty"`
}

type retryConc struct {
	Policy     string `json:"policy"`    // concrete policy line
	Kind       string `json:"kind"`      // key kind for hashed policies
	Key        string `json:"key"`       // the key (uri / header value)
	BodyLen    int    `json:"body_len"`  // request body length
	Chunked    bool   `json:"chunked"`   // transfer framing of the client request
	FailMode   string `json:"fail_mode"` // "rst-after-body" | "rst-before-body" | "rst-mid-body"
	SlowUpload bool   `json:"slow_upload,omitempty"`
	Rules      bool   `json:"rules"` // base path + query on the targets, without, header_upstream rules
	Site       bool   `json:"site"`  // through a real casket site (casket.Start) instead of Proxy.ServeHTTP behind net/http
	Clause     string `json:"clause,omitempty"`
}

const (
	tryInterval = 15 * time.Millisecond
	tryDuration = 150 * time.Millisecond // >= (model D + 1) attempts with a wide margin
)

type arrival struct {
	B       int    `json:"backend"`
	Attempt int    `json:"attempt"`
	Answer  bool   `json:"answered"`
	Line    string `json:"request"` // method + path + query + the headers the rules touch
	BodyLen int    `json:"body_len"`
	BodySum string `json:"body_sha1"`
	BodyErr string `json:"body_err,omitempty"`
	ReadAll bool   `json:"body_read"`
}

// backendSet is a group of raw TCP backends shared by the cases of one worker.
type backendSet struct {
	lns   []net.Listener
	addrs []string

	mu       sync.Mutex
	script   *retryCase
	counter  int
	arrivals []arrival
}

func newBackendSet(n int) (*backendSet, error) {
	bs := &backendSet{}
	for i := 0; i < n; i++ {
		ln, err := net.Listen("tcp", "127.0.0.1:0")
		if err != nil {
			return nil, err
		}
		bs.lns = append(bs.lns, ln)
		bs.addrs = append(bs.addrs, ln.Addr().String())
		go bs.serve(i+1, ln)
	}
	return bs, nil
}

func (bs *backendSet) close() {
	for _, l := range bs.lns {
		l.Close()
	}
}

func (bs *backendSet) arm(c *retryCase) {
	bs.mu.Lock()
	bs.script, bs.counter, bs.arrivals = c, 0, nil
	bs.mu.Unlock()
}

func (bs *backendSet) seen() []arrival {
	bs.mu.Lock()
	defer bs.mu.Unlock()
	return append([]arrival(nil), bs.arrivals...)
}

func (bs *backendSet) serve(b int, ln net.Listener) {
	for {
		c, err := ln.Accept()
		if err != nil {
			return
		}
		go bs.handle(b, c)
	}
}

func reqLine(r *http.Request) string {
	var hs []string
	for _, h := range []string{"X-Add", "X-Set", "X-Forwarded-For", "X-Key"} {
		if v, ok := r.Header[h]; ok {
			hs = append(hs, h+"="+strings.Join(v, "|"))
		}
	}
	return r.Method + " " + r.URL.EscapedPath() + "?" + r.URL.RawQuery + " " + strings.Join(hs, " ")
}

func (bs *backendSet) handle(b int, c net.Conn) {
	defer c.Close()
	c.SetDeadline(time.Now().Add(10 * time.Second))
	req, err := http.ReadRequest(bufio.NewReader(c))
	if err != nil {
		return
	}
	bs.mu.Lock()
	sc := bs.script
	if sc == nil {
		bs.mu.Unlock()
		return
	}
	bs.counter++
	j := bs.counter
	answer := (b <= len(sc.Rel) && sc.Rel[b-1]) || (j <= len(sc.OK) && sc.OK[j-1])
	early := !answer && sc.Conc.FailMode == "rst-before-body"
	mid := !answer && sc.Conc.FailMode == "rst-mid-body"
	bs.mu.Unlock()
	a := arrival{B: b, Attempt: j, Answer: answer, Line: reqLine(req)}
	if mid {
		// the backend dies while the body is being uploaded: it reads the first 64 KiB and resets
		io.ReadFull(req.Body, make([]byte, 64<<10))
	} else if !early {
		body, rerr := io.ReadAll(req.Body)
		sum := sha1.Sum(body)
		a.BodyLen, a.BodySum, a.ReadAll = len(body), hex.EncodeToString(sum[:8]), true
		if rerr != nil {
			a.BodyErr = rerr.Error()
		}
	}
	bs.mu.Lock()
	if bs.script == sc {
		bs.arrivals = append(bs.arrivals, a)
	}
	bs.mu.Unlock()
	if !answer {
		if tc, ok := c.(*net.TCPConn); ok {
			tc.SetLinger(0) // reset
		}
		return
	}
	fmt.Fprintf(c, "HTTP/1.1 200 OK\r\nContent-Length: %d\r\nX-Backend: %d\r\nConnection: close\r\n\r\nbackend-%d", len("backend-")+1, b, b)
}

// front is a real net/http server whose handler is the proxy middleware of the current case.
type front struct {
	srv *httptest.Server
	cur atomic.Value // *proxy.Proxy
}

func newFront() *front {
	f := &front{}
	f.srv = httptest.NewServer(http.HandlerFunc(func(w http.ResponseWriter, r *http.Request) {
		p := f.cur.Load().(*proxy.Proxy)
		status, _ := p.ServeHTTP(w, r)
		if status >= 400 { // what httpserver.Server does with an error status of the middleware chain
			w.Header().Set("X-Proxy-Status", "returned")
			w.WriteHeader(status)
		}
	}))
	return f
}

func bodyOf(n int) []byte {
	b := make([]byte, n)
	for i := range b {
		b[i] = byte('a' + (i*7+i/251)%26)
	}
	return b
}

// concretise picks the free choices of a case from the seed.
func concretise(c *retryCase, rnd *rand.Rand) {
	if c.Conc != nil {
		return
	}
	cc := &retryConc{}
	switch c.Pol {
	case "first":
		cc.Policy = "policy first"
	case "rr":
		cc.Policy = "policy round_robin"
	case "any":
		cc.Policy = []string{"policy random", "policy least_conn", ""}[rnd.Intn(3)]
	case "hashed":
		// ip_hash sees the loopback client address: usable when its residue is the wanted one
		opts := []string{"uri", "hdr"}
		if int(fnv32a("127.0.0.1")%uint32(c.N)) == c.K0 {
			opts = append(opts, "ip", "ip")
		}
		cc.Kind = opts[rnd.Intn(len(opts))]
		switch cc.Kind {
		case "ip":
			cc.Policy = "policy ip_hash"
		case "uri":
			cc.Policy = "policy uri_hash"
		case "hdr":
			cc.Policy = "policy header X-Key"
			cc.Key = keyFor("hdr", c.N, c.K0, rnd.Intn(3))
		}
	}
	cc.BodyLen = []int{0, 1, 70000, 32 * 1024}[rnd.Intn(4)]
	cc.Chunked = cc.BodyLen > 0 && rnd.Intn(2) == 0
	cc.FailMode = "rst-after-body"
	switch rnd.Intn(8) {
	case 0, 1:
		cc.FailMode = "rst-before-body"
	case 2:
		// a body far larger than the socket buffers, so that the failing backend goes away in
		// the middle of the upload
		cc.FailMode = "rst-mid-body"
		cc.BodyLen = 4 << 20
		cc.Chunked = rnd.Intn(2) == 0
	}
	cc.Rules = rnd.Intn(2) == 0
	cc.SlowUpload = cc.BodyLen > 0 && cc.FailMode != "rst-mid-body" && rnd.Intn(6) == 0
	c.Conc = cc
}

func (c *retryCase) uri() string {
	if c.Conc.Kind == "uri" {
		// the URI is the key: find one with the wanted residue
		for i := 0; ; i++ {
			u := fmt.Sprintf("/api/x%d?q=1", i)
			if int(fnv32a(u)%uint32(c.N)) == c.K0 {
				return u
			}
		}
	}
	return "/api/x?q=1"
}

type retryObs struct {
	Status   int       `json:"status"`
	Body     string    `json:"body"`
	Elapsed  string    `json:"elapsed"`
	Arrivals []arrival `json:"arrivals"`
	elapsed  time.Duration
}

type retryEnv struct {
	bs *backendSet
	fr *front
}

func newRetryEnv(maxN int) (*retryEnv, error) {
	bs, err := newBackendSet(maxN)
	if err != nil {
		return nil, err
	}
	return &retryEnv{bs: bs, fr: newFront()}, nil
}

func (e *retryEnv) close() { e.bs.close(); e.fr.srv.Close() }

// runRetry performs the request of one case and returns what client and backends saw.
func (e *retryEnv) runRetry(c *retryCase) (*retryObs, error) {
	cc := c.Conc
	var addrs []string
	for i := 0; i < c.N; i++ {
		a := e.bs.addrs[i]
		if cc.Rules {
			a = "http://" + a + "/base?k=v"
		}
		addrs = append(addrs, a)
	}
	extra := fmt.Sprintf("\ttry_duration %s\n\ttry_interval %s\n\tfail_timeout 60s\n", tryDuration, tryInterval)
	if cc.Rules {
		extra += "\twithout /api\n\theader_upstream +X-Add one\n\theader_upstream X-Set two\n"
	}
	frontAddr := e.fr.srv.Listener.Addr().String()
	if cc.Site {
		// the whole server: Casketfile -> casket.Start -> httpserver.Server -> proxy middleware
		var site *hx.Site
		var err error
		for try := 0; try < 12; try++ {
			port := hx.FreePort()
			frontAddr = fmt.Sprintf("127.0.0.1:%d", port)
			site, err = hx.StartHTTP(fmt.Sprintf(":%d {\n\tbind 127.0.0.1\n\ttls off\n%s}\n", port, hx.Indent(blockText(c.N, 1, c.MF, cc.Policy, extra, addrs))), "")
			if err == nil || !strings.Contains(err.Error(), "address already in use") {
				break
			}
		}
		if err != nil {
			return nil, fmt.Errorf("site refused: %v", err)
		}
		defer site.Stop()
		return e.request(c, frontAddr)
	}
	up, pool, err := upstreamFor(c.N, 1, c.MF, cc.Policy, extra, addrs)
	if err != nil {
		return nil, fmt.Errorf("proxy block refused: %v", err)
	}
	defer up.Stop()
	// round robin: bring the robin residue to k0 (a selection on the all-available pool returns slot robin+1 mod n)
	if c.Pol == "rr" && c.N > 1 {
		probe, _ := http.NewRequest("GET", "http://x/", nil)
		for g := 0; g < 2*c.N+2; g++ {
			if slotOf(pool, up.Select(probe))-1 == c.K0 {
				break
			}
		}
	}
	for i, h := range pool {
		setSituation(h, "h0", c.MF)
		switch c.Ini[i] {
		case "unhealthy":
			atomic.StoreInt32(&h.Unhealthy, 1)
		case "failed":
			atomic.StoreInt32(&h.Fails, int32(c.MF))
		case "full":
			atomic.StoreInt64(&h.Conns, 1) // max_conns 1
		}
	}
	e.fr.cur.Store(&proxy.Proxy{Next: httpserver.EmptyNext, Upstreams: []proxy.Upstream{up}})
	return e.request(c, frontAddr)
}

// request sends the client request of the case to the front and collects what everybody saw.
func (e *retryEnv) request(c *retryCase, frontAddr string) (*retryObs, error) {
	cc := c.Conc
	e.bs.arm(c)
	defer e.bs.arm(nil)

	body := bodyOf(cc.BodyLen)
	var raw bytes.Buffer
	method := "GET"
	if cc.BodyLen > 0 {
		method = "POST"
	}
	fmt.Fprintf(&raw, "%s %s HTTP/1.1\r\nHost: site.test\r\nConnection: close\r\n", method, c.uri())
	if cc.Kind == "hdr" {
		fmt.Fprintf(&raw, "X-Key: %s\r\n", cc.Key)
	}
	if cc.Chunked {
		raw.WriteString("Transfer-Encoding: chunked\r\n\r\n")
		for off := 0; off < len(body); off += 9000 {
			end := off + 9000
			if end > len(body) {
				end = len(body)
			}
			fmt.Fprintf(&raw, "%x\r\n", end-off)
			raw.Write(body[off:end])
			raw.WriteString("\r\n")
		}
		raw.WriteString("0\r\n\r\n")
	} else {
		if cc.BodyLen > 0 {
			fmt.Fprintf(&raw, "Content-Length: %d\r\n", len(body))
		}
		raw.WriteString("\r\n")
		raw.Write(body)
	}
	rc, err := hx.DialRaw(frontAddr)
	if err != nil {
		return nil, err
	}
	defer rc.Close()
	t0 := time.Now()
	var resp *hx.RawResp
	if cc.SlowUpload && cc.BodyLen > 0 {
		// the client's upload alone takes longer than try_duration: the retry window is for the
		// attempts, a healthy backend must still be reached
		resp, err = rc.DoSlow(method, raw.Bytes(), raw.Len()-cc.BodyLen/2-1, tryDuration+tryDuration/2)
	} else {
		resp, err = rc.Do(method, raw.Bytes())
	}
	el := time.Since(t0)
	if err != nil {
		return nil, fmt.Errorf("client: %v", err)
	}
	// the Conns decrement and the arrival record of the last attempt are done before the response ends
	return &retryObs{Status: resp.Status, Body: string(resp.Body), Elapsed: el.String(), elapsed: el, Arrivals: e.bs.seen()}, nil
}

type retryViolation struct {
	clause string
	what   string
}

// judgeRetry evaluates the sentences of the statement on one observation.
func judgeRetry(c *retryCase, o *retryObs) []retryViolation {
	var v []retryViolation
	add := func(cl, f string, a ...interface{}) { v = append(v, retryViolation{cl, fmt.Sprintf(f, a...)}) }
	body := bodyOf(c.Conc.BodyLen)
	sum := sha1.Sum(body)
	want := hex.EncodeToString(sum[:8])
	// availability bookkeeping of the harness itself (fail_timeout is far longer than the request)
	fails := make([]int, c.N+1)
	for i, s := range c.Ini {
		if s == "failed" {
			fails[i+1] = c.MF
		}
	}
	answered := 0
	for k, a := range o.Arrivals {
		if a.B < 1 || a.B > c.N {
			add("attempt-unavailable", "attempt %d went to backend %d which is not in the pool", k+1, a.B)
			continue
		}
		if s := c.Ini[a.B-1]; s == "unhealthy" || s == "full" || fails[a.B] >= c.MF {
			add("attempt-unavailable", "attempt %d went to backend %d which was unavailable (%s, %d counted failures, max_fails %d)", k+1, a.B, s, fails[a.B], c.MF)
		}
		if a.ReadAll && (a.BodyLen != len(body) || a.BodySum != want || a.BodyErr != "") {
			add("body-incomplete", "attempt %d (backend %d) received %d body bytes (%s) instead of the %d original ones", k+1, a.B, a.BodyLen, a.BodyErr, len(body))
		}
		if k > 0 && a.Line != o.Arrivals[0].Line {
			add("attempt-differs", "attempt %d carried %q, attempt 1 carried %q", k+1, a.Line, o.Arrivals[0].Line)
		}
		if a.Answer {
			answered++
			if k != len(o.Arrivals)-1 {
				add("answer-not-final", "backend %d answered attempt %d but %d more attempts followed", a.B, k+1, len(o.Arrivals)-1-k)
			}
		} else {
			fails[a.B]++
		}
	}
	switch {
	case o.Status == 200:
		last := arrival{}
		if len(o.Arrivals) > 0 {
			last = o.Arrivals[len(o.Arrivals)-1]
		}
		if !last.Answer || o.Body != fmt.Sprintf("backend-%d", last.B) {
			add("answer-origin", "client got 200 %q but the last attempt (backend %d, answered=%v) did not produce it", o.Body, last.B, last.Answer)
		}
	case o.Status == 502:
		if answered > 0 {
			add("answer-lost", "a backend answered but the client got 502")
		}
		if o.elapsed < tryDuration {
			add("502-early", "502 after %v although try_duration is %v", o.elapsed.Round(time.Millisecond), tryDuration)
		}
	default:
		add("status", "client got status %d (neither a backend's answer nor 502)", o.Status)
	}
	if c.MustAnswer && o.Status != 200 {
		add("healthy-not-answering", "a backend healthy throughout exists (reliable %v, initial %v) but the client got %d after attempts to %v", c.Rel, c.Ini, o.Status, backendsOf(o.Arrivals))
	}
	return v
}

func backendsOf(as []arrival) []int {
	var out []int
	for _, a := range as {
		out = append(out, a.B)
	}
	return out
}

func retryKey(c *retryCase, clause string) string {
	rel := []string{}
	for i, r := range c.Rel {
		if r {
			rel = append(rel, fmt.Sprint(i+1))
		}
	}
	pat := make([]string, len(c.OK))
	for i, ok := range c.OK {
		pat[i] = map[bool]string{true: "ok", false: "fail"}[ok]
	}
	pol := strings.TrimPrefix(c.Conc.Policy, "policy ")
	if pol == "" {
		pol = "default"
	}
	extra := ""
	if c.Pol == "hashed" || c.Pol == "rr" {
		extra = fmt.Sprintf("/k0=%d", c.K0)
	}
	opts := []string{fmt.Sprintf("body=%d", c.Conc.BodyLen)}
	if c.Conc.Chunked {
		opts = append(opts, "chunked")
	}
	if c.Conc.Rules {
		opts = append(opts, "rules")
	}
	opts = append(opts, c.Conc.FailMode)
	if c.Conc.Site {
		opts = append(opts, "site")
	}
	sort.Strings(opts[1:])
	return fmt.Sprintf("C05/retry/%s/policy=%s/n=%d/max_fails=%d/initial=%s/reliable={%s}/pattern=%s%s/%s", clause, strings.ReplaceAll(pol, " ", "_"), c.N, c.MF,
		strings.Join(c.Ini, ","), strings.Join(rel, ","), strings.Join(pat, ","), extra, strings.Join(opts, ","))
}
