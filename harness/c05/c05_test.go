// C05 - load balancing finds an available backend whenever one exists; retries.
//
// TLC has checked LoadBalance.tla / LBRetry.tla (the loops of policy.go, staticUpstream.Select and
// the retry loop of Proxy.ServeHTTP, action by action) against the declarative sentences of the
// statement and emitted (a) one CASE per pool with the table of selections and (b) one CASE per
// finished retry behaviour. This driver builds every pool / behaviour with the real code
// (proxy.NewStaticUpstreams from a proxy block, Upstream.Select, Proxy.ServeHTTP behind a real
// net/http server, raw TCP backends) and evaluates the declarative sentences on what the code did.
// A selection that satisfies them but differs from the operational model is only counted as drift.
package c05

import (
	"encoding/json"
	"fmt"
	"math/rand"
	"sync"
	"testing"

	"verifharness/hx"
)

type replayCase struct {
	Kind    string       `json:"kind"`
	Select  *selCase     `json:"select,omitempty"`
	Retry   *retryCase   `json:"retry,omitempty"`
	Recover *recoverCase `json:"recover,omitempty"`
}

func TestC05(t *testing.T) {
	hx.Quiet()
	res := hx.NewResult("TestC05", "select: one case = one pool (n backends x 5 situations x max_conns) from LoadBalance.tla asked through every concrete policy "+
		"(first, round_robin, least_conn, random, default, ip_hash, uri_hash, header x2, header without value) with keys for every hash residue / every robin position; "+
		"retry: one case = one finished behaviour of LBRetry.tla (pool, initial situations, reliable set, fault pattern) replayed through Proxy.ServeHTTP; "+
		"recovery: fail/recover rounds with a short fail_timeout (LBRetry.tla!FailsAccounted: every counted failure expires; then a healthy backend answers); "+
		"non-trivial = distinct (policy, pool availability, residue) resp. distinct retry behaviour with at least one failing attempt or unavailable backend")
	defer res.Write(t)

	if rp, ok := hx.LoadReplay[replayCase](t); ok {
		replayOne(t, res, &rp)
		return
	}
	runSelect(t, res)
	runNoName(t, res)
	runRetryAll(t, res)
	runRecoverAll(res)
	res.Replayed = res.Evaluations
}

// ---------------------------------------------------------------- select part

func runSelect(t *testing.T, res *hx.Result) {
	cases := hx.LoadCases[selCase](t, "LoadBalance")
	res.AddExtra("select_pools_from_tlc", len(cases))
	var mu sync.Mutex
	drift := map[string]int{}
	selftestHit := false
	var infra error
	jobs := make(chan int)
	var wg sync.WaitGroup
	for w := 0; w < 8; w++ {
		wg.Add(1)
		go func() {
			defer wg.Done()
			env := newSelEnv()
			for idx := range jobs {
				c := &cases[idx]
				if hx.SelfTest() {
					// corrupt the expectation: declare the backend the model selects unavailable
					if c.First == 0 {
						continue
					}
					cc := *c
					cc.Avail = append([]bool(nil), c.Avail...)
					cc.Avail[c.First-1] = false
					c = &cc
				}
				for pi := range concretePolicies {
					viol, d, err := checkSelect(env, c, pi, false, "", -1, res.Count)
					if err != nil {
						mu.Lock()
						if infra == nil {
							infra = fmt.Errorf("policy %s: %v", concretePolicies[pi].name, err)
						}
						mu.Unlock()
						continue
					}
					if d > 0 {
						mu.Lock()
						drift[concretePolicies[pi].name] += d
						mu.Unlock()
					}
					for _, v := range viol {
						if hx.SelfTest() {
							mu.Lock()
							selftestHit = true
							mu.Unlock()
							continue
						}
						confirmSelect(res, c, v)
					}
				}
				if idx%997 == 0 {
					res.Sample(map[string]interface{}{"kind": "select", "pool": c.St, "max_conns": c.MC, "max_fails": c.MF, "available": c.Avail,
						"model_first": c.First, "model_round_robin_by_robin": c.RR, "model_hashed_by_residue": c.Hashed, "least_loaded": c.Least})
				}
			}
		}()
	}
	for i := range cases {
		jobs <- i
	}
	close(jobs)
	wg.Wait()
	res.AddExtra("model_drift_select", drift)
	if infra != nil {
		res.Infra = infra.Error()
	}
	if hx.SelfTest() && !selftestHit && res.Infra == "" {
		res.Infra = "selftest: corrupted availability table was not noticed by the select replay"
	}
}

// runNoName: "policy header" without a header name. A configuration the setup refuses is not a
// configuration; one it accepts must select available backends like every other policy.
func runNoName(t *testing.T, res *hx.Result) {
	if hx.SelfTest() {
		return
	}
	try := func() (string, bool) {
		up, pool, err := upstreamFor(3, 0, 1, "policy header", "", nil)
		if err != nil {
			return "refused at setup: " + err.Error(), true
		}
		for k := 0; k < 4; k++ {
			r := selRequest("hdr", fmt.Sprintf("v%d", k), 40000+k)
			if k == 3 {
				r = selRequest("", "", 40000)
			}
			if s := slotOf(pool, up.Select(r)); s <= 0 {
				return fmt.Sprintf("accepted at setup, but Select returns nil with all 3 backends available (request %d)", k+1), false
			}
		}
		return "accepted and selecting", true
	}
	what, ok := try()
	res.Count("header-noname")
	res.AddExtra("policy_header_without_name", what)
	if !ok {
		if what2, ok2 := try(); !ok2 {
			res.Add(hx.Mismatch{Key: "C05/select/available/policy=header(no name)/n=3/pool=h0,h0,h0", What: "policy header without a header name: " + what2,
				Case: map[string]interface{}{"kind": "noname"}})
		}
	}
}

// ---------------------------------------------------------------- retry part

func runRetryAll(t *testing.T, res *hx.Result) {
	cases := hx.LoadCases[retryCase](t, "LBRetry")
	res.AddExtra("retry_behaviours_from_tlc", len(cases))
	maxN := 1
	for i := range cases {
		if cases[i].N > maxN {
			maxN = cases[i].N
		}
	}
	// a seeded sample of the behaviours that need no injected backend state is also run through a whole
	// casket site (Casketfile -> casket.Start -> httpserver.Server -> proxy middleware)
	var eligible []int
	for i := range cases {
		if !anyNot(cases[i].Ini, "up") && (cases[i].Pol != "rr" || cases[i].K0 == 0) {
			eligible = append(eligible, i)
		}
	}
	nsite := 60
	if hx.Thorough() {
		nsite = 600
	}
	viaSite := map[int]bool{}
	for _, k := range hx.SampleIdx(hx.Rand(), len(eligible), nsite) {
		viaSite[eligible[k]] = true
	}
	res.AddExtra("retry_behaviours_also_through_casket_site", len(viaSite))
	var mu sync.Mutex
	drift := 0
	selftestHit := false
	var infra error
	jobs := make(chan int)
	var wg sync.WaitGroup
	workers := 12
	for w := 0; w < workers; w++ {
		wg.Add(1)
		go func() {
			defer wg.Done()
			env, err := newRetryEnv(maxN)
			if err != nil {
				mu.Lock()
				infra = err
				mu.Unlock()
				for range jobs {
				}
				return
			}
			defer env.close()
			for idx := range jobs {
				c := cases[idx]
				// a function of (seed, case) - not of which worker happens to take the case -, so
				// that two runs with one seed ask the same questions
				concretise(&c, rand.New(rand.NewSource(hx.Seed()*1000003+int64(idx)*7919+1)))
				if hx.SelfTest() {
					// corrupt the expectation: the body the backends must receive is one byte longer
					o, err := env.runRetry(&c)
					if err == nil && len(o.Arrivals) > 0 && o.Arrivals[0].ReadAll {
						c2 := c
						cc := *c.Conc
						cc.BodyLen++
						c2.Conc = &cc
						if len(judgeRetry(&c2, o)) > 0 {
							mu.Lock()
							selftestHit = true
							mu.Unlock()
						}
					}
					continue
				}
				o, err := env.runRetry(&c)
				if err != nil {
					mu.Lock()
					if infra == nil {
						infra = fmt.Errorf("retry case %d: %v", idx, err)
					}
					mu.Unlock()
					continue
				}
				nt := ""
				if len(c.OK) != 1 || !c.OK[0] || anyNot(c.Ini, "up") {
					nt = fmt.Sprintf("%s/%d/%d/%v/%v/%v/%d", c.Pol, c.N, c.MF, c.Ini, c.Rel, c.OK, c.K0)
				}
				res.Count(nt)
				if (c.Pol != "any" && !sameInts(backendsOf(o.Arrivals), c.B, len(c.OK))) || (c.Pol != "any" && o.Status != c.Status) {
					mu.Lock()
					drift++
					mu.Unlock()
				}
				for _, v := range judgeRetry(&c, o) {
					confirmRetry(res, env, &c, v)
				}
				if viaSite[idx] {
					c2 := c
					conc := *c.Conc
					conc.Site = true
					c2.Conc = &conc
					o2, err := env.runRetry(&c2)
					if err != nil {
						mu.Lock()
						if infra == nil {
							infra = fmt.Errorf("retry case %d through a site: %v", idx, err)
						}
						mu.Unlock()
						continue
					}
					res.Count(nt + "/site")
					for _, v := range judgeRetry(&c2, o2) {
						confirmRetry(res, env, &c2, v)
					}
				}
				if idx%487 == 0 {
					res.Sample(map[string]interface{}{"kind": "retry", "case": c, "observed_status": o.Status, "observed_attempts": backendsOf(o.Arrivals), "elapsed": o.Elapsed})
				}
			}
		}()
	}
	for i := range cases {
		if hx.SelfTest() && i%40 != 0 {
			continue
		}
		jobs <- i
	}
	close(jobs)
	wg.Wait()
	res.AddExtra("model_drift_retry", drift)
	if infra != nil && res.Infra == "" {
		res.Infra = infra.Error()
	}
	if hx.SelfTest() && !selftestHit && res.Infra == "" {
		res.Infra = "selftest: corrupted body expectation was not noticed by the retry replay"
	}
}

func anyNot(xs []string, v string) bool {
	for _, x := range xs {
		if x != v {
			return true
		}
	}
	return false
}

// sameInts: the first n observed attempts went where the model went
func sameInts(obs, model []int, n int) bool {
	if len(obs) < n || len(model) < n {
		return false
	}
	for i := 0; i < n; i++ {
		if obs[i] != model[i] {
			return false
		}
	}
	return true
}

// confirmRetry re-runs the case on a fresh proxy instance; only a reproduced violation is reported.
func confirmRetry(res *hx.Result, env *retryEnv, c *retryCase, v retryViolation) bool {
	o, err := env.runRetry(c)
	if err != nil {
		return false
	}
	for _, v2 := range judgeRetry(c, o) {
		if v2.clause == v.clause {
			cc := *c
			conc := *c.Conc
			conc.Clause = v.clause
			cc.Conc = &conc
			res.Add(hx.Mismatch{Key: retryKey(c, v.clause), What: fmt.Sprintf("proxy block {%s, max_fails %d, %d backends %v, reliable %v}: %s", c.Conc.Policy, c.MF, c.N, c.Ini, c.Rel, v2.what),
				Case: replayCase{Kind: "retry", Retry: &cc}, Expected: map[string]interface{}{"must_answer": c.MustAnswer, "model_status": c.Status, "model_attempts": c.B}, Observed: o})
			return true
		}
	}
	return false
}

// ---------------------------------------------------------------- replay of a stored case

func replayOne(t *testing.T, res *hx.Result, rc *replayCase) {
	res.Count("replay")
	switch rc.Kind {
	case "select":
		c := rc.Select
		if c == nil || c.Only == nil {
			res.Infra = "replay file has no select case"
			return
		}
		pi := policyIndex(c.Only.Policy)
		if pi < 0 {
			res.Infra = "replay: unknown policy " + c.Only.Policy
			return
		}
		viol, _, err := checkSelect(newSelEnv(), c, pi, true, c.Only.Clause, c.Only.Res, func(string) {})
		if err != nil {
			res.Infra = err.Error()
			return
		}
		for _, v := range viol {
			confirmSelect(res, c, v)
		}
	case "noname":
		runNoName(t, res)
	case "retry":
		c := rc.Retry
		if c == nil || c.Conc == nil {
			res.Infra = "replay file has no retry case"
			return
		}
		env, err := newRetryEnv(c.N)
		if err != nil {
			res.Infra = err.Error()
			return
		}
		defer env.close()
		o, err := env.runRetry(c)
		if err != nil {
			res.Infra = err.Error()
			return
		}
		for _, v := range judgeRetry(c, o) {
			if c.Conc.Clause == "" || v.clause == c.Conc.Clause {
				confirmRetry(res, env, c, v)
			}
		}
	case "recover":
		if rc.Recover == nil {
			res.Infra = "replay file has no recovery scenario"
			return
		}
		reportRecover(res, rc.Recover)
	default:
		b, _ := json.Marshal(rc)
		res.Infra = "replay: unknown case kind in " + string(b)
	}
}
