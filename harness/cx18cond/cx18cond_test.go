// C18 extension - validators, conditional and range requests of the static file server
// (specs/StaticCond.tla, notes/StaticCond.md).
//
// Every case TLC emitted is one resource /wN/f.txt with a set of precompressed siblings
// (.gz/.br/.zst with controlled mtimes and sizes, distinct position-dependent content per file and
// version) on a real casket instance with three sites over one root (no gzip directive, `gzip`,
// `gzip { min_length 35 }`), asked over raw HTTP/1.1:
//
//	step 1   GET with Accept-Encoding ae1                       -> the "previous answer"
//	change   the files are rewritten / removed / added as the case says (os.Chtimes for the times)
//	step 2   the conditional / range request, its If-None-Match / If-Match / If-Range /
//	         If-Modified-Since / If-Unmodified-Since values taken from the REAL first answer
//	step 2h  the same request as HEAD
//
// Judged per case (keys C18/staticcond/<clause>/<input>):
//
//	ValidatorPerRepresentation     two answers that differ in Content-Encoding share a strong ETag (text
//	                               equal), or a precondition answered as if the stored tag named the
//	                               representation now selected although it is another file
//	ValidatorStable                the tag of an untouched file changed between the requests
//	ConditionalConsistent          If-None-Match / If-Modified-Since: 304 exactly when the model says the
//	                               stored representation is still the one selected; else 200 + new bytes
//	PreconditionConsistent         If-Match / If-Unmodified-Since: 200 or 412 (no body)
//	RangeOfSelectedRepresentation  206: the bytes of the representation named by the answer's own
//	                               Content-Encoding, Content-Range first-last/total of that
//	                               representation, strong ETag, never re-coded; multipart parts; 416
//	IfRangeSafe                    If-Range: a range only for the representation the validator names
//	HeadEqualsGet                  HEAD: status and ETag, Content-Encoding, Content-Type, Vary,
//	                               Last-Modified, Content-Range, Accept-Ranges as for GET, no body
//	LengthCorrect                  the answer can be read to its end and Content-Length = bytes received
//	VaryWhenNegotiated             an encoded 200/206 carries Vary: Accept-Encoding
//	TypeAndCoding                  200: Content-Type of the ORIGINAL's extension, Content-Encoding names
//	                               the one coding applied, body = the whole selected representation
//
// Not judged (free choices / cosmetic, counted in the result as observations): Vary on identity answers,
// the W/ prefix and Content-Encoding of a 304, Content-Length of a HEAD answer that would be compressed
// on the fly, which headers a 416 keeps, the text of ETag and Last-Modified.
package cx18cond

import (
	"bytes"
	"compress/gzip"
	"encoding/json"
	"fmt"
	"io"
	"mime"
	"mime/multipart"
	"os"
	"path/filepath"
	"sort"
	"strconv"
	"strings"
	"sync"
	"testing"
	"time"

	"verifharness/hx"
)

const module = "StaticCond"

// ---------------------------------------------------------------- cases (as emitted by StaticCond.tla)

type fileJ struct {
	Ex   bool `json:"ex"`
	Mt   int  `json:"mt"`
	Ver  int  `json:"ver"`
	Size int  `json:"size"`
}

type crJ struct {
	Kind  string `json:"kind"` // none | range | star
	A     int    `json:"a"`
	B     int    `json:"b"`
	Total int    `json:"total"`
}

type bodyJ struct {
	Kind  string  `json:"kind"` // none | bytes | multi | err
	Src   string  `json:"src"`
	Ver   int     `json:"ver"`
	Parts [][]int `json:"parts"`
	Otf   bool    `json:"otf"` // written through the gzip stream of the middleware
}

type respJ struct {
	Status int    `json:"status"`
	CE     string `json:"ce"` // none | gzip | br | zstd
	CL     int    `json:"cl"` // -1: none set by the handlers
	Weak   bool   `json:"weak"`
	HasTag bool   `json:"hastag"`
	LM     int    `json:"lm"`
	Vary   bool   `json:"vary"`
	CT     string `json:"ct"` // none | text | multipart | err
	CR     crJ    `json:"cr"`
	AR     bool   `json:"ar"`
	Body   bodyJ  `json:"body"`
	Sel    string `json:"sel"`
}

type caseJ struct {
	Kind    string           `json:"kind,omitempty"` // "staticcond" (set here; tells a replay file of this driver from TestC18's)
	Fam     string           `json:"fam"`
	Site    string           `json:"site"`
	World   map[string]fileJ `json:"world"`
	After   map[string]fileJ `json:"after"`
	AE1     string           `json:"ae1"`
	Chg     string           `json:"chg"`
	AE2     string           `json:"ae2"`
	Cond    string           `json:"cond"`
	Rng     string           `json:"rng"`
	Ifr     string           `json:"ifr"`
	Twin    bool             `json:"twin"`
	R1      respJ            `json:"r1"`
	R2      respJ            `json:"r2"`
	SameTag bool             `json:"sametag"`
	SameRep bool             `json:"samerep"`
}

var fileNames = []string{"id", "gz", "br", "zst"}
var fileExt = map[string]string{"id": "", "gz": ".gz", "br": ".br", "zst": ".zst"}

func (c *caseJ) worldText() string {
	var parts []string
	for _, f := range fileNames[1:] {
		if w := c.World[f]; w.Ex {
			parts = append(parts, fmt.Sprintf("%s@%d:%d", f, w.Mt, w.Size))
		}
	}
	if len(parts) == 0 {
		return "none"
	}
	return strings.Join(parts, ",")
}

func (c *caseJ) input() string {
	return fmt.Sprintf("site=%s/sibs=%s/ae1=%s/chg=%s/ae2=%s/cond=%s/rng=%s/ifr=%s", c.Site, c.worldText(), c.AE1, c.Chg, c.AE2, c.Cond, c.Rng, c.Ifr)
}

// key is the canonical identity of a failing case. A shared entity-tag is identified by the two files
// that share it and by whether they agree in mtime (second) and size - the one situation casket's
// calculateEtag cannot tell apart (findings/C18.json) - not by the request that exposed it.
func key(clause string, c *caseJ) string {
	if clause == "ValidatorPerRepresentation" {
		a, b := c.R1.Sel, c.R2.Sel
		fa, fb := c.World[a], c.After[b]
		if a > b {
			a, b = b, a
		}
		stat := "different-stat"
		if fa.Mt == fb.Mt && fa.Size == fb.Size {
			stat = "same-second-same-size"
		}
		return "C18/staticcond/" + clause + "/" + a + "+" + b + "/" + stat
	}
	return "C18/staticcond/" + clause + "/" + c.input()
}

// ---------------------------------------------------------------- content, times

const alpha = "ABCDEFGHIJKLMNOPQRSTUVWXYZabcdefghijklmnopqrstuvwxyz012345678" // 61 characters

// content gives every (file, version) its own position-dependent bytes (period 61 > every size used).
func content(file string, ver, size int) []byte {
	idx := 0
	for i, f := range fileNames {
		if f == file {
			idx = i
		}
	}
	off := idx*13 + ver*29
	b := make([]byte, size)
	for k := range b {
		b[k] = alpha[(k*7+off)%61]
	}
	return b
}

var t0 = time.Unix(1700000000, 0)

func tick(mt int) time.Time { return t0.Add(time.Duration(mt) * 10 * time.Second) }

const oldDate = "Mon, 01 Jan 2001 00:00:00 GMT"

func gunzipExact(b []byte) ([]byte, error) {
	br := bytes.NewReader(b)
	zr, err := gzip.NewReader(br)
	if err != nil {
		return nil, err
	}
	zr.Multistream(false)
	out, err := io.ReadAll(zr)
	if err != nil {
		return nil, err
	}
	if br.Len() != 0 {
		return out, fmt.Errorf("%d bytes after the gzip stream", br.Len())
	}
	return out, nil
}

// ---------------------------------------------------------------- fixture

type fixture struct {
	site  *hx.Site
	root  string
	ports map[string]int
}

func startFixture(root string) (*fixture, error) {
	var err error
	for try := 0; try < 4; try++ {
		f := &fixture{root: root, ports: map[string]int{"plain": hx.StablePort(), "gzip": hx.StablePort(), "gzipmin": hx.StablePort()}}
		cf := fmt.Sprintf("cx18.test:%d {\n\tbind 127.0.0.1\n\ttls off\n\troot %s\n}\n"+
			"cx18.test:%d {\n\tbind 127.0.0.1\n\ttls off\n\troot %s\n\tgzip\n}\n"+
			"cx18.test:%d {\n\tbind 127.0.0.1\n\ttls off\n\troot %s\n\tgzip {\n\t\tmin_length 35\n\t}\n}\n",
			f.ports["plain"], root, f.ports["gzip"], root, f.ports["gzipmin"], root)
		f.site, err = hx.StartHTTP(cf, "")
		if err == nil {
			return f, nil
		}
		if !strings.Contains(err.Error(), "address already in use") {
			break
		}
	}
	return nil, fmt.Errorf("start failed: %v", err)
}

// worker owns a directory below the root and one keep-alive connection per site.
type worker struct {
	fx    *fixture
	dir   string // file system
	url   string // /wN/f.txt
	conns map[string]*hx.RawConn
	cur   map[string]fileJ
}

func newWorker(fx *fixture, name string) (*worker, error) {
	w := &worker{fx: fx, dir: filepath.Join(fx.root, name), url: "/" + name + "/f.txt", conns: map[string]*hx.RawConn{}, cur: map[string]fileJ{}}
	return w, os.MkdirAll(w.dir, 0o755)
}

func (w *worker) close() {
	for _, c := range w.conns {
		c.Close()
	}
	os.RemoveAll(w.dir)
}

// setWorld makes the directory hold exactly these files (content by file and version, mtime by tick).
func (w *worker) setWorld(world map[string]fileJ) error {
	for _, f := range fileNames {
		want, have := world[f], w.cur[f]
		if want == have {
			continue
		}
		p := filepath.Join(w.dir, "f.txt"+fileExt[f])
		if !want.Ex {
			if err := os.Remove(p); err != nil && !os.IsNotExist(err) {
				return err
			}
		} else {
			if err := os.WriteFile(p, content(f, want.Ver, want.Size), 0o644); err != nil {
				return err
			}
			if err := os.Chtimes(p, tick(want.Mt), tick(want.Mt)); err != nil {
				return err
			}
		}
		w.cur[f] = want
	}
	return nil
}

type obs struct {
	Status int      `json:"status"`
	CE     string   `json:"content_encoding,omitempty"`
	CL     string   `json:"content_length,omitempty"`
	ETag   string   `json:"etag,omitempty"`
	LM     string   `json:"last_modified,omitempty"`
	Vary   string   `json:"vary,omitempty"`
	CT     string   `json:"content_type,omitempty"`
	CR     string   `json:"content_range,omitempty"`
	AR     string   `json:"accept_ranges,omitempty"`
	Len    int      `json:"body_len"`
	Head   string   `json:"body_head,omitempty"`
	Err    string   `json:"err,omitempty"`
	Req    []string `json:"request,omitempty"`
	body   []byte
}

func (w *worker) ask(site, method string, hdr []string) obs {
	var last obs
	for try := 0; try < 2; try++ {
		rc := w.conns[site]
		if rc == nil {
			var err error
			rc, err = hx.DialRaw("127.0.0.1:" + strconv.Itoa(w.fx.ports[site]))
			if err != nil {
				return obs{Err: "dial: " + err.Error()}
			}
			w.conns[site] = rc
		}
		r, err := rc.Get(method, w.url, "cx18.test", hdr...)
		if err != nil {
			rc.Close()
			delete(w.conns, site)
			last = obs{Err: "io: " + err.Error()}
			continue // the server may have closed the keep-alive connection: once more, fresh
		}
		o := obs{Status: r.Status, CE: strings.ToLower(strings.Join(r.Header.Values("Content-Encoding"), ",")), CL: r.Header.Get("Content-Length"),
			ETag: r.Header.Get("Etag"), LM: r.Header.Get("Last-Modified"), Vary: strings.Join(r.Header.Values("Vary"), ","),
			CT: r.Header.Get("Content-Type"), CR: r.Header.Get("Content-Range"), AR: r.Header.Get("Accept-Ranges"),
			Len: len(r.Body), body: r.Body, Err: r.Err, Req: append([]string{method}, hdr...)}
		if n := len(r.Body); n > 0 {
			if n > 32 {
				n = 32
			}
			o.Head = fmt.Sprintf("%q", r.Body[:n])
		}
		if r.Err != "" || strings.EqualFold(r.Header.Get("Connection"), "close") {
			rc.Close()
			delete(w.conns, site)
		}
		return o
	}
	return last
}

func aeHeader(ae string) []string {
	if ae == "absent" {
		return nil
	}
	return []string{"Accept-Encoding: " + ae}
}

var rangeText = map[string]string{"r2_11": "bytes=2-11", "r5_": "bytes=5-", "rm7": "bytes=-7", "r0_0": "bytes=0-0",
	"r10_999": "bytes=10-999", "multi": "bytes=0-3,10-13", "r999_": "bytes=999-"}

// secondRequest builds the header lines of the second request from the validators of the real first answer.
func secondRequest(c *caseJ, first obs) []string {
	h := aeHeader(c.AE2)
	switch c.Cond {
	case "inm":
		h = append(h, "If-None-Match: "+first.ETag)
	case "ims":
		h = append(h, "If-Modified-Since: "+first.LM)
	case "imsold":
		h = append(h, "If-Modified-Since: "+oldDate)
	case "im":
		h = append(h, "If-Match: "+first.ETag)
	case "imbogus":
		h = append(h, `If-Match: "nomatch"`)
	case "ius":
		h = append(h, "If-Unmodified-Since: "+first.LM)
	case "iusold":
		h = append(h, "If-Unmodified-Since: "+oldDate)
	}
	if c.Rng != "none" {
		h = append(h, "Range: "+rangeText[c.Rng])
	}
	switch c.Ifr {
	case "etag":
		h = append(h, "If-Range: "+first.ETag)
	case "date":
		h = append(h, "If-Range: "+first.LM)
	}
	return h
}

// ---------------------------------------------------------------- judging

type verdict struct {
	clause, what string
}

func opaque(etag string) string { return strings.TrimPrefix(etag, "W/") }
func strong(etag string) bool   { return etag != "" && !strings.HasPrefix(etag, "W/") }

func ceName(ce string) string {
	if ce == "none" {
		return ""
	}
	return ce
}

func hasVary(v string) bool {
	for _, t := range strings.Split(v, ",") {
		if strings.EqualFold(strings.TrimSpace(t), "Accept-Encoding") {
			return true
		}
	}
	return false
}

// expectedBytes returns the bytes of the body the model describes (before any on-the-fly coding).
func expectedBytes(b bodyJ, part int) []byte {
	full := content(b.Src, b.Ver, 64)
	p := b.Parts[part]
	if p[0] < 0 || p[1] >= len(full) || p[0] > p[1] {
		return nil
	}
	return full[p[0] : p[1]+1]
}

// dateFree: the second request carries a date validator and the files changed in a way for which casket's
// choice (dates are the ORIGINAL's mtime, whichever file is served) is not the only defensible one. Determined
// are: nothing changed, and "the original is what is served and it was rewritten".
func dateFree(c *caseJ) bool {
	if !(c.Cond == "ims" || c.Cond == "ius" || c.Ifr == "date") || c.Chg == "none" {
		return false
	}
	return !(c.Chg == "orig" && c.R2.Sel == "id")
}

func dateAlternative(c *caseJ, status int) bool {
	switch {
	case c.Cond == "ims":
		return status == 200 || status == 304
	case c.Cond == "ius":
		return status == 200 || status == 412
	}
	return status == 200 || status == 206 || status == 416
}

// statusClause names the property a wrong status (or wrong bytes of the answer) of the second request violates.
func statusClause(c *caseJ) string {
	switch {
	case c.Ifr != "none":
		return "IfRangeSafe"
	case c.Cond == "inm" || c.Cond == "ims" || c.Cond == "imsold":
		return "ConditionalConsistent"
	case c.Cond != "none":
		return "PreconditionConsistent"
	case c.Rng != "none":
		return "RangeOfSelectedRepresentation"
	}
	return "TypeAndCoding"
}

// judgeAnswer compares one GET answer with the model's. clause = the property the answer's status and bytes belong to.
func judgeAnswer(e respJ, o obs, world map[string]fileJ, clause string) []verdict {
	var v []verdict
	add := func(cl, f string, a ...interface{}) { v = append(v, verdict{cl, fmt.Sprintf(f, a...)}) }
	if o.Err != "" {
		add("LengthCorrect", "the answer cannot be read to its end: %s (status %d, Content-Length %q, %d bytes received)", o.Err, o.Status, o.CL, o.Len)
		return v
	}
	if o.CL != "" && o.Status != 304 {
		if n, err := strconv.Atoi(o.CL); err != nil || n != len(o.body) {
			add("LengthCorrect", "Content-Length %q but %d bytes received (status %d)", o.CL, len(o.body), o.Status)
		}
	}
	if o.Status != e.Status {
		add(clause, "status %d, the model says %d", o.Status, e.Status)
		return v
	}
	switch e.Status {
	case 200, 206:
		bc := clause
		if e.Status == 206 {
			bc = "RangeOfSelectedRepresentation"
		}
		if o.CE != ceName(e.CE) {
			add(bc, "Content-Encoding %q, the model says %q", o.CE, ceName(e.CE))
			return v
		}
		if o.CE != "" && !hasVary(o.Vary) {
			add("VaryWhenNegotiated", "Content-Encoding %q without Vary: Accept-Encoding (Vary %q)", o.CE, o.Vary)
		}
		if o.ETag == "" {
			add("ValidatorStable", "no ETag on a %d", o.Status)
		}
		body := o.body
		if e.Body.Otf {
			dec, err := gunzipExact(o.body)
			if err != nil {
				add(bc, "body is not one complete gzip stream: %v", err)
				return v
			}
			body = dec
		}
		switch e.Body.Kind {
		case "bytes":
			if want := expectedBytes(e.Body, 0); !bytes.Equal(body, want) {
				add(bc, "body %.40q, expected bytes %d-%d of %s version %d = %.40q", body, e.Body.Parts[0][0], e.Body.Parts[0][1], e.Body.Src, e.Body.Ver, want)
			}
			if !strings.HasPrefix(o.CT, "text/plain") {
				add("TypeAndCoding", "Content-Type %q: not the type of the original's extension .txt", o.CT)
			}
			if e.Status == 206 {
				want := fmt.Sprintf("bytes %d-%d/%d", e.CR.A, e.CR.B, e.CR.Total)
				if o.CR != want {
					add(bc, "Content-Range %q, expected %q", o.CR, want)
				}
				if !strong(o.ETag) {
					add(bc, "a 206 with the weak validator %s", o.ETag)
				}
			}
		case "multi":
			mt, params, err := mime.ParseMediaType(o.CT)
			if err != nil || mt != "multipart/byteranges" {
				add(bc, "Content-Type %q of a multi-range answer", o.CT)
				return v
			}
			mr := multipart.NewReader(bytes.NewReader(body), params["boundary"])
			total := world[e.Body.Src].Size
			for k := range e.Body.Parts {
				p, err := mr.NextPart()
				if err != nil {
					add(bc, "part %d missing: %v", k, err)
					return v
				}
				pb, _ := io.ReadAll(p)
				if want := expectedBytes(e.Body, k); !bytes.Equal(pb, want) {
					add(bc, "part %d is %.40q, expected %.40q", k, pb, want)
				}
				wantCR := fmt.Sprintf("bytes %d-%d/%d", e.Body.Parts[k][0], e.Body.Parts[k][1], total)
				if got := p.Header.Get("Content-Range"); got != wantCR {
					add(bc, "part %d Content-Range %q, expected %q", k, got, wantCR)
				}
			}
			if _, err := mr.NextPart(); err != io.EOF {
				add(bc, "more parts than ranges asked for")
			}
		}
	case 304:
		if len(o.body) != 0 {
			add(clause, "a 304 with %d body bytes", len(o.body))
		}
		if o.ETag == "" {
			add(clause, "a 304 without ETag")
		}
	case 412:
		if len(o.body) != 0 {
			// through the gzip middleware the (empty) body is an empty gzip stream: allowed when labelled
			if dec, err := gunzipExact(o.body); !(o.CE == "gzip" && err == nil && len(dec) == 0) {
				add(clause, "a 412 with %d body bytes %.40q (Content-Encoding %q)", len(o.body), o.body, o.CE)
			}
		}
	case 416:
		if want := fmt.Sprintf("bytes */%d", e.CR.Total); o.CR != want {
			add("RangeOfSelectedRepresentation", "416 with Content-Range %q, expected %q", o.CR, want)
		}
	}
	return v
}

func ctNoBoundary(ct string) string {
	if i := strings.Index(ct, "boundary="); i >= 0 {
		return ct[:i]
	}
	return ct
}

// judgeHead: HEAD = GET without body, same status and representation headers.
func judgeHead(g, h obs, otf bool, st *stats) []verdict {
	var v []verdict
	add := func(f string, a ...interface{}) { v = append(v, verdict{"HeadEqualsGet", fmt.Sprintf(f, a...)}) }
	if h.Err != "" {
		add("the HEAD answer cannot be read: %s", h.Err)
		return v
	}
	if h.Status != g.Status {
		add("HEAD status %d, GET status %d", h.Status, g.Status)
		return v
	}
	if len(h.body) != 0 {
		add("HEAD answer with %d body bytes", len(h.body))
	}
	type pair struct{ n, a, b string }
	for _, p := range []pair{{"ETag", g.ETag, h.ETag}, {"Content-Encoding", g.CE, h.CE}, {"Content-Type", ctNoBoundary(g.CT), ctNoBoundary(h.CT)},
		{"Vary", g.Vary, h.Vary}, {"Last-Modified", g.LM, h.LM}, {"Content-Range", g.CR, h.CR}, {"Accept-Ranges", g.AR, h.AR}} {
		if p.a != p.b {
			add("%s: GET %q, HEAD %q", p.n, p.a, p.b)
		}
	}
	if g.CL != h.CL && (g.Status == 200 || g.Status == 206) {
		if otf || g.CL == "" {
			// net/http computes the length of an on-the-fly compressed answer from what the handler wrote;
			// for HEAD that is the empty gzip stream. Cosmetic: observation, not judged.
			st.inc("observation_head_content_length_differs_under_on_the_fly_gzip")
		} else {
			add("Content-Length: GET %q, HEAD %q", g.CL, h.CL)
		}
	}
	return v
}

// ---------------------------------------------------------------- one case

type stats struct {
	mu sync.Mutex
	m  map[string]int
}

func (s *stats) inc(k string) {
	if s == nil {
		return
	}
	s.mu.Lock()
	s.m[k]++
	s.mu.Unlock()
}

type outcome struct {
	verdicts   []verdict
	o1, o2, oh obs
	infra      string
}

// corruptModel plants a wrong expectation (selftest): the model's second answer is changed.
func corruptModel(c *caseJ) {
	e := &c.R2
	switch {
	case e.Status == 200 || e.Status == 206:
		if len(e.Body.Parts) > 0 && e.Body.Kind != "none" {
			e.Body.Parts = [][]int{{e.Body.Parts[0][0] + 1, e.Body.Parts[0][1]}}
			if e.Body.Parts[0][0] > e.Body.Parts[0][1] {
				e.Body.Parts[0][0] -= 2
			}
			e.Body.Kind = "bytes"
			return
		}
		e.Status = 304
	case e.Status == 304:
		e.Status = 200
	case e.Status == 412:
		e.Status = 200
	case e.Status == 416:
		e.CR.Total++
	}
}

func runCase(w *worker, c *caseJ, st *stats) outcome {
	var out outcome
	if err := w.setWorld(c.World); err != nil {
		out.infra = "files: " + err.Error()
		return out
	}
	o1 := w.ask(c.Site, "GET", aeHeader(c.AE1))
	out.o1 = o1
	if strings.HasPrefix(o1.Err, "dial:") || strings.HasPrefix(o1.Err, "io:") {
		out.infra = o1.Err
		return out
	}
	for _, v := range judgeAnswer(c.R1, o1, c.World, "TypeAndCoding") {
		out.verdicts = append(out.verdicts, verdict{v.clause, "first answer: " + v.what})
	}
	if o1.Status != 200 || o1.ETag == "" || o1.LM == "" {
		if len(out.verdicts) == 0 {
			out.verdicts = append(out.verdicts, verdict{"TypeAndCoding", fmt.Sprintf("first answer: status %d ETag %q Last-Modified %q", o1.Status, o1.ETag, o1.LM)})
		}
		return out
	}
	if err := w.setWorld(c.After); err != nil {
		out.infra = "files: " + err.Error()
		return out
	}
	h2 := secondRequest(c, o1)
	o2 := w.ask(c.Site, "GET", h2)
	out.o2 = o2
	if strings.HasPrefix(o2.Err, "dial:") || strings.HasPrefix(o2.Err, "io:") {
		out.infra = o2.Err
		return out
	}
	var vs []verdict
	if dateFree(c) && o2.Status != c.R2.Status && o2.Err == "" && dateAlternative(c, o2.Status) {
		// a date validator that follows the served file instead of the original: free choice, not judged
		st.inc("model_drift_date_validator")
	} else {
		vs = judgeAnswer(c.R2, o2, c.After, statusClause(c))
	}
	// validators, judged on the two real answers
	shared := false
	if o2.ETag != "" {
		same := opaque(o2.ETag) == opaque(o1.ETag)
		switch {
		case same && !c.SameTag:
			shared = true
			vs = append(vs, verdict{"ValidatorPerRepresentation", fmt.Sprintf("the first answer (%s) and the second (%s, status %d) carry the same entity-tag %s although the file selected now is another one",
				orIdentity(o1.CE), orIdentity(o2.CE), o2.Status, opaque(o1.ETag))})
		case !same && c.SameTag:
			vs = append(vs, verdict{"ValidatorStable", fmt.Sprintf("entity-tag %s, then %s, for the same untouched file", o1.ETag, o2.ETag)})
		}
		if (o2.Status == 200 || o2.Status == 206) && o1.CE != o2.CE && strong(o1.ETag) && o1.ETag == o2.ETag {
			shared = true
			vs = append(vs, verdict{"ValidatorPerRepresentation", fmt.Sprintf("Content-Encoding %q and %q share the strong ETag %s", o1.CE, o2.CE, o1.ETag)})
		}
	}
	if shared {
		// whatever else went wrong in this case follows from the shared tag
		for k := range vs {
			vs[k].clause = "ValidatorPerRepresentation"
		}
	}
	out.verdicts = append(out.verdicts, vs...)
	// the same request as HEAD
	oh := w.ask(c.Site, "HEAD", h2)
	out.oh = oh
	if strings.HasPrefix(oh.Err, "dial:") || strings.HasPrefix(oh.Err, "io:") {
		out.infra = oh.Err
		return out
	}
	if o2.Err == "" {
		out.verdicts = append(out.verdicts, judgeHead(o2, oh, c.R2.Body.Otf, st)...)
	}
	// observations (never judged)
	if st != nil && len(vs) == 0 {
		st.inc(fmt.Sprintf("status_%d", o2.Status))
		if c.R2.Body.Otf && o2.Status == 200 {
			st.inc("compressed_on_the_fly")
		}
		if o2.CE != "" && !c.R2.Body.Otf && (o2.Status == 200 || o2.Status == 206) {
			st.inc("sibling_served")
		}
		if c.Chg != "none" {
			st.inc("files_changed_between_requests")
		}
		if o2.Status == 200 && o2.CE == "" && !hasVary(o2.Vary) && len(c.worldText()) > 4 {
			st.inc("observation_identity_answer_of_negotiated_resource_without_vary")
		}
		if o2.Status == 304 && strings.HasPrefix(o2.ETag, "W/") != strings.HasPrefix(o1.ETag, "W/") {
			st.inc("observation_304_tag_weakness_differs_from_200")
		}
		if o2.Status == 304 && c.Cond == "ims" && c.Chg == "sel" {
			st.inc("observation_if_modified_since_does_not_see_a_rewritten_sibling")
		}
		if strings.HasPrefix(o2.ETag, "W/") != c.R2.Weak && o2.ETag != "" {
			st.inc("model_drift_weak_flag")
		}
	}
	return out
}

func orIdentity(ce string) string {
	if ce == "" {
		return "identity"
	}
	return ce
}

func describe(c *caseJ, o outcome, v verdict) string {
	return fmt.Sprintf("%s: %s. Files %s (after the change %q: %s); first request %v -> %d Content-Encoding %q ETag %s; second %v -> %d Content-Encoding %q Content-Length %q Content-Range %q ETag %s body %d bytes %s %s",
		v.clause, v.what, c.worldText(), c.Chg, afterText(c), o.o1.Req, o.o1.Status, o.o1.CE, o.o1.ETag, o.o2.Req, o.o2.Status, o.o2.CE, o.o2.CL, o.o2.CR, o.o2.ETag, o.o2.Len, o.o2.Head, o.o2.Err)
}

func afterText(c *caseJ) string {
	var parts []string
	for _, f := range fileNames {
		if a := c.After[f]; a.Ex {
			parts = append(parts, fmt.Sprintf("%s@%d:%d v%d", f, a.Mt, a.Size, a.Ver))
		}
	}
	return strings.Join(parts, ",")
}

// ---------------------------------------------------------------- driver

type checker struct {
	res     *hx.Result
	root    string
	st      *stats
	mu      sync.Mutex
	infra   string
	cfx     *fixture // fresh instance for confirmations (started on first use)
	cn      int
	planted int
	caught  int

	reported map[string]bool
}

func (k *checker) setInfra(s string) {
	k.mu.Lock()
	if k.infra == "" {
		k.infra = s
	}
	k.mu.Unlock()
}

// confirm re-runs a failing case on a fresh instance, fresh directory and fresh connections; only what
// fails again (same clause) is reported.
func (k *checker) confirm(c *caseJ, first outcome) {
	k.mu.Lock()
	defer k.mu.Unlock()
	fresh := false
	for _, v := range first.verdicts {
		if !k.reported[key(v.clause, c)] {
			fresh = true
		}
	}
	if !fresh {
		return // every key of this case is reported already (one shared tag shows in many requests)
	}
	if k.cfx == nil {
		croot := filepath.Join(k.root, "confirm")
		os.MkdirAll(croot, 0o755)
		fx, err := startFixture(croot)
		if err != nil {
			if k.infra == "" {
				k.infra = err.Error()
			}
			return
		}
		k.cfx = fx
	}
	k.cn++
	w, err := newWorker(k.cfx, fmt.Sprintf("c%d", k.cn))
	if err != nil {
		return
	}
	defer w.close()
	again := runCase(w, c, nil)
	if again.infra != "" {
		return
	}
	seen := map[string]bool{}
	for _, v := range again.verdicts {
		if seen[v.clause] {
			continue
		}
		for _, v1 := range first.verdicts {
			if v1.clause == v.clause {
				seen[v.clause] = true
				k.reported[key(v.clause, c)] = true
				cc := *c
				cc.Kind = "staticcond"
				k.res.Add(hx.Mismatch{Key: key(v.clause, c), What: describe(c, again, v), Case: cc,
					Expected: map[string]interface{}{"first": c.R1, "second": c.R2, "same_tag": c.SameTag},
					Observed: map[string]interface{}{"first": again.o1, "second": again.o2, "head": again.oh}})
				break
			}
		}
	}
}

func TestCx18Cond(t *testing.T) {
	hx.Quiet()
	res := hx.NewResult("TestCx18Cond", "one case = a resource with a set of precompressed siblings (.gz/.br/.zst: older / same second / newer than the original, own or shared size) on a site without gzip, with gzip, with gzip min_length, asked twice over raw HTTP/1.1: a plain GET, then - after the files were rewritten / removed / added or left alone - the conditional or range request built from the validators of the real first answer (If-None-Match, If-Modified-Since, If-Match, If-Unmodified-Since, Range single/suffix/open/clamped/multi/unsatisfiable, If-Range tag/date), and the same once more as HEAD; status, which representation, which byte interval, Content-Range, Content-Encoding, Content-Length against StaticCond.tla, validators judged on the two real answers; non-trivial = second answer is not a plain 200")
	defer res.Write(t)

	// a replay file of the other driver of this property is not ours
	if p := hx.Replay(); p != "" {
		b, _ := os.ReadFile(p)
		var w struct {
			Case struct {
				Kind string `json:"kind"`
			} `json:"case"`
		}
		if json.Unmarshal(b, &w) != nil || w.Case.Kind != "staticcond" {
			res.AddExtra("replay", "not a staticcond case: skipped")
			return
		}
	}

	root := filepath.Join(hx.Scratch(t), "cx18cond")
	if err := os.MkdirAll(root, 0o755); err != nil {
		res.Infra = err.Error()
		return
	}
	defer os.RemoveAll(root)
	k := &checker{res: res, root: root, st: &stats{m: map[string]int{}}, reported: map[string]bool{}}
	defer func() {
		if k.cfx != nil {
			k.cfx.site.Stop()
		}
	}()

	if rc, ok := hx.LoadReplay[caseJ](t); ok {
		res.Count("replay")
		k.confirmReplay(&rc)
		if k.infra != "" {
			res.Infra = k.infra
		}
		return
	}

	cases := hx.LoadCases[caseJ](t, module)
	if len(cases) == 0 {
		res.Infra = "TLC emitted no cases"
		return
	}
	sort.SliceStable(cases, func(a, b int) bool { return cases[a].input() < cases[b].input() })
	res.AddExtra("cases_from_tlc", len(cases))

	fx, err := startFixture(filepath.Join(root, "main"))
	if err != nil {
		res.Infra = err.Error()
		return
	}
	defer fx.site.Stop()
	os.MkdirAll(fx.root, 0o755)

	selftest := hx.SelfTest()
	const nworkers = 12
	var wg sync.WaitGroup
	next := make(chan int)
	for n := 0; n < nworkers; n++ {
		wg.Add(1)
		go func(n int) {
			defer wg.Done()
			w, err := newWorker(fx, fmt.Sprintf("w%d", n))
			if err != nil {
				k.setInfra(err.Error())
				for range next {
				}
				return
			}
			defer w.close()
			for idx := range next {
				c := cases[idx]
				if selftest {
					if (idx+int(hx.Seed()))%5 != 0 || dateFree(&c) {
						continue // (the status of a date validator after a change is partly a free choice: not planted there)
					}
					corruptModel(&c)
					k.mu.Lock()
					k.planted++
					k.mu.Unlock()
					if o := runCase(w, &c, nil); len(o.verdicts) > 0 {
						k.mu.Lock()
						k.caught++
						k.mu.Unlock()
					}
					continue
				}
				o := runCase(w, &c, k.st)
				if o.infra != "" {
					k.setInfra(o.infra)
					continue
				}
				nt := ""
				if c.R2.Status != 200 || c.Chg != "none" {
					nt = c.input()
				}
				res.Count(nt)
				if idx%2999 == 7 {
					res.Sample(map[string]interface{}{"case": c.input(), "first": o.o1, "second": o.o2, "head": o.oh, "model_second": c.R2})
				}
				if len(o.verdicts) > 0 {
					k.confirm(&c, o)
				}
			}
		}(n)
	}
	for idx := range cases {
		next <- idx
	}
	close(next)
	wg.Wait()

	for _, n := range hx.SortedKeys(k.st.m) {
		res.AddExtra(n, k.st.m[n])
	}
	res.Replayed = res.Evaluations
	switch {
	case k.infra != "":
		res.Infra = k.infra
	case selftest:
		res.AddExtra("selftest_planted", k.planted)
		res.AddExtra("selftest_caught", k.caught)
		if k.planted == 0 || k.caught != k.planted {
			res.Infra = fmt.Sprintf("selftest: %d wrong expectations planted, %d noticed", k.planted, k.caught)
		}
	default:
		for _, need := range []string{"status_200", "status_206", "status_304", "status_412", "status_416", "compressed_on_the_fly", "sibling_served", "files_changed_between_requests"} {
			if k.st.m[need] == 0 {
				res.Infra = "vacuous replay: no agreeing case with " + need
			}
		}
	}
}

// confirmReplay runs exactly the stored case on a fresh instance and reports every clause it violates.
func (k *checker) confirmReplay(c *caseJ) {
	croot := filepath.Join(k.root, "replay")
	os.MkdirAll(croot, 0o755)
	fx, err := startFixture(croot)
	if err != nil {
		k.infra = err.Error()
		return
	}
	defer fx.site.Stop()
	w, err := newWorker(fx, "r0")
	if err != nil {
		k.infra = err.Error()
		return
	}
	defer w.close()
	o := runCase(w, c, nil)
	if o.infra != "" {
		k.infra = o.infra
		return
	}
	seen := map[string]bool{}
	for _, v := range o.verdicts {
		if seen[v.clause] {
			continue
		}
		seen[v.clause] = true
		cc := *c
		cc.Kind = "staticcond"
		k.res.Add(hx.Mismatch{Key: key(v.clause, c), What: describe(c, o, v), Case: cc,
			Expected: map[string]interface{}{"first": c.R1, "second": c.R2, "same_tag": c.SameTag},
			Observed: map[string]interface{}{"first": o.o1, "second": o.o2, "head": o.oh}})
	}
}
