package cx18cond

import (
	"fmt"
	"os"
	"path/filepath"
	"strings"
	"testing"
	"time"

	"verifharness/hx"
)

func TestZZExplore(t *testing.T) {
	if os.Getenv("ZZ") == "" {
		t.Skip()
	}
	hx.Quiet()
	root := t.TempDir()
	orig := strings.Repeat("ORIGINAL-identity-bytes-0123456789 ", 8)
	os.WriteFile(filepath.Join(root, "f.txt"), []byte(orig), 0o644)
	os.WriteFile(filepath.Join(root, "f.txt.gz"), []byte(strings.Repeat("GZ", 60)), 0o644)
	os.WriteFile(filepath.Join(root, "f.txt.br"), []byte(strings.Repeat("BR", 50)), 0o644)
	os.WriteFile(filepath.Join(root, "noext"), []byte(orig), 0o644)
	os.WriteFile(filepath.Join(root, "noext.gz"), []byte("\x1f\x8b\x08"+strings.Repeat("GZ", 60)), 0o644)
	t0 := time.Unix(1700000000, 0)
	os.Chtimes(filepath.Join(root, "f.txt"), t0, t0)
	os.Chtimes(filepath.Join(root, "f.txt.gz"), t0.Add(10*time.Second), t0.Add(10*time.Second))
	os.Chtimes(filepath.Join(root, "f.txt.br"), t0.Add(20*time.Second), t0.Add(20*time.Second))
	p1, p2 := hx.StablePort(), hx.StablePort()
	cf := fmt.Sprintf("c.test:%d {\n\tbind 127.0.0.1\n\ttls off\n\troot %s\n\tgzip\n}\nc.test:%d {\n\tbind 127.0.0.1\n\ttls off\n\troot %s\n}\n", p1, root, p2, root)
	s, err := hx.StartHTTP(cf, "")
	if err != nil {
		t.Fatal(err)
	}
	defer s.Stop()
	show := func(port int, method, path string, hdr ...string) *hx.RawResp {
		r, err := hx.OneShot(fmt.Sprintf("127.0.0.1:%d", port), method, path, "c.test", hdr...)
		if err != nil {
			fmt.Printf("  ERR %v\n", err)
			return nil
		}
		fmt.Printf("== port=%d %s %s %v\n   -> %d err=%q len=%d body=%.40q\n", port-p1, method, path, hdr, r.Status, r.Err, len(r.Body), r.Body)
		for _, k := range []string{"Etag", "Last-Modified", "Vary", "Content-Type", "Content-Encoding", "Content-Length", "Content-Range", "Accept-Ranges", "Transfer-Encoding"} {
			if v := r.Header.Values(k); len(v) > 0 {
				fmt.Printf("   %s: %q\n", k, v)
			}
		}
		return r
	}
	os.WriteFile(filepath.Join(root, "g.txt"), []byte(orig), 0o644)
	os.Chtimes(filepath.Join(root, "g.txt"), t0, t0)
	for _, port := range []int{p1} {
		r := show(port, "GET", "/g.txt", "Accept-Encoding: gzip")
		et := r.Header.Get("Etag")
		lm := r.Header.Get("Last-Modified")
		show(port, "HEAD", "/g.txt", "Accept-Encoding: gzip")
		show(port, "GET", "/g.txt", "Accept-Encoding: gzip", "If-None-Match: "+et)
		show(port, "GET", "/g.txt", "Accept-Encoding: gzip", "If-Modified-Since: "+lm)
		show(port, "GET", "/g.txt", "Accept-Encoding: gzip", "If-Match: "+et)
		show(port, "GET", "/g.txt", "Accept-Encoding: gzip", "If-Match: "+strings.TrimPrefix(et, "W/"))
		show(port, "GET", "/g.txt", "Accept-Encoding: gzip", "Range: bytes=2-11")
		show(port, "HEAD", "/g.txt", "Accept-Encoding: gzip", "Range: bytes=2-11")
		show(port, "GET", "/g.txt", "Accept-Encoding: gzip", "Range: bytes=2-11", "If-Range: "+et)
		show(port, "GET", "/g.txt", "Accept-Encoding: gzip", "Range: bytes=2-11", "If-Range: "+lm)
		show(port, "GET", "/g.txt", "Accept-Encoding: gzip", "Range: bytes=0-3,10-13")
		show(port, "GET", "/g.txt", "Accept-Encoding: gzip", "Range: bytes=5000-")
		show(port, "GET", "/g.txt", "Accept-Encoding: gzip", "If-Unmodified-Since: Mon, 01 Jan 2001 00:00:00 GMT")
	}
}
