package c13

// Concurrent phase of C13: the statement holds for every request, also when several are in
// flight: 16 workers send requests to a responder that answers each with its own 300 000-byte
// body in 60 000-byte stdout records (larger than any buffer the client reads into); every
// client must receive exactly the bytes of its own request's responder.

import (
	"bytes"
	"fmt"
	"strconv"
	"sync"

	"verifharness/hx"
)

func concurrentBody(id, n int) []byte {
	b := make([]byte, n)
	for i := range b {
		b[i] = byte('A' + (id*7+i/1000+i)%53)
	}
	return b
}

func concurrentRun(workers, per, size int) (requests, corrupted int, first string, err error) {
	rsp, err := hx.StartFcgiResponder(func(c *hx.FcgiConv) []hx.FcgiOut {
		env, _ := c.Env()
		id, _ := strconv.Atoi(env["X_ID"])
		payload := append([]byte("Content-Type: application/octet-stream\r\n\r\n"), concurrentBody(id, size)...)
		var out []hx.FcgiOut
		for off := 0; off < len(payload); off += 60000 {
			end := off + 60000
			if end > len(payload) {
				end = len(payload)
			}
			out = append(out, hx.FcgiOut{Type: hx.FcgiStdout, Content: payload[off:end], Pad: (8 - (end-off)%8) % 8})
		}
		out = append(out, hx.FcgiOut{Type: hx.FcgiStdout}, hx.FcgiEndRequest())
		return out
	}, nil)
	if err != nil {
		return 0, 0, "", err
	}
	defer rsp.Close()
	var wg sync.WaitGroup
	var mu sync.Mutex
	for w := 0; w < workers; w++ {
		wg.Add(1)
		go func(w int) {
			defer wg.Done()
			for i := 0; i < per; i++ {
				id := w*per + i + 1
				v := doClient(rsp.Addr, map[string]string{"REQUEST_METHOD": "GET", "SCRIPT_FILENAME": "/x.php", "X_ID": strconv.Itoa(id)}, nil)
				want := concurrentBody(id, size)
				mu.Lock()
				requests++
				if v.Err != "" || v.Panic != "" || !bytes.Equal(v.body, want) {
					corrupted++
					if first == "" {
						first = fmt.Sprintf("request %d of %d concurrent ones: err=%q panic=%q got %d bytes, first difference at %d (expected %d bytes of its own responder's output)", id, workers, v.Err, v.Panic, len(v.body), firstDiff(v.body, want), len(want))
					}
				}
				mu.Unlock()
			}
		}(w)
	}
	wg.Wait()
	return
}

func concurrentPhase(res *hx.Result) {
	workers, per := 16, 10
	if hx.Thorough() {
		per = 60
	}
	n, bad, first, err := concurrentRun(workers, per, 300000)
	if err != nil {
		res.Infra = "concurrent phase: " + err.Error()
		return
	}
	res.AddExtra("concurrent_requests", n)
	for i := 0; i < n; i++ {
		res.Count("")
	}
	res.Count("concurrent-large-records")
	if bad > 0 {
		// once more, on a fresh responder, before it is reported
		n2, bad2, first2, err2 := concurrentRun(workers, per, 300000)
		if err2 == nil && bad2 > 0 {
			res.Add(hx.Mismatch{Key: "C13/resp/concurrent/body-not-own-responders", What: fmt.Sprintf("%d of %d (again %d of %d) concurrent requests did not receive exactly their responder's body; e.g. %s / %s", bad, n, bad2, n2, first, first2),
				Case: map[string]interface{}{"workers": workers, "per_worker": per, "body": 300000, "record": 60000}})
		}
	}
}
