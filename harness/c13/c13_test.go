// C13 - FastCGI requests and responses cross the wire intact.
//
// Binding of specs/FastCGI.tla, FastCGITrace.tla and FcgiRoute.tla to the real code:
//
//   - request direction: every (pairs, body) case TLC enumerated is sent by the REAL client
//     (fastcgi.Dial + FCGIClient.Request) to the harness's byte-level responder, which decodes what
//     a standard-conforming responder would see (compared here with what was sent) and logs every
//     record header -> ndjson -> validated by TLC against FastCGITrace.tla. A sample of the cases
//     and an env battery also go through a running casket instance (casket.Start, raw HTTP/1.1),
//     with Go's net/http/fcgi child as the second responder.
//   - response direction: every framing TLC enumerated is played by the scripted responder; the
//     view of the client (direct, and through casket for a sample) is compared with the model.
//   - routing: the decision table of FcgiRoute.tla is replayed against casket instances whose
//     root holds the model's file tree.
package c13

import (
	"bytes"
	"encoding/json"
	"fmt"
	"io"
	"math/rand"
	"net"
	"net/http"
	"net/http/fcgi"
	"os"
	"path/filepath"
	"sort"
	"strconv"
	"strings"
	"sync"
	"testing"
	"time"

	"github.com/tmpim/casket/caskethttp/fastcgi"
	"verifharness/hx"
)

// ---------------------------------------------------------------------------- cases

type scriptRec struct {
	T string   `json:"t"`
	U []string `json:"u"`
}

// fcase is one CASE line of FastCGI.tla (kind req or resp).
type fcase struct {
	Kind string `json:"kind"`
	// req
	Pairs [][2]int `json:"pairs,omitempty"`
	Body  int      `json:"body"`
	Lo    int      `json:"lo,omitempty"`
	Hi    int      `json:"hi,omitempty"`
	// resp
	Status    bool        `json:"status,omitempty"`
	Script    []scriptRec `json:"script,omitempty"`
	Pad       string      `json:"pad,omitempty"`
	Headers   []string    `json:"headers,omitempty"`
	BodyUnits []string    `json:"bodyunits,omitempty"`
	ErrUnits  []string    `json:"errunits,omitempty"`
	// concretisation (filled by the harness; stored in replay files)
	Seed int64  `json:"seed,omitempty"`
	Via  string `json:"via,omitempty"` // "client" (FCGIClient directly) | "casket" (through a running instance)
}

// rcase is one CASE line of FcgiRoute.tla.
type rcase struct {
	Rpath    []string `json:"rpath"`
	Ext      []string `json:"ext"`
	Split    []string `json:"split"`
	Index    bool     `json:"index"`
	Exc      []string `json:"exc"`    // the first rule's `except` (relative to its path), empty = none
	Second   bool     `json:"second"` // a second rule, for /a, written after the first (same ext / split)
	Req      []string `json:"req"`
	Result   string   `json:"result"`
	Fpath    []string `json:"fpath"`
	Script   []string `json:"script"`
	Info     []string `json:"info"`
	Under    bool     `json:"under"`
	Existing bool     `json:"existing"`
}

// anyCase is what goes into a mismatch / replay file.
type anyCase struct {
	F   *fcase   `json:"f,omitempty"`
	R   *rcase   `json:"r,omitempty"`
	Env *envCase `json:"env,omitempty"`
}

const maxWrite = 65500

// how long the real client may wait for the responder (loopback: answers are immediate; a client
// that never terminates a stream is noticed after this long)
const clientTimeout = 4 * time.Second

// bailOut: with this many distinct mismatches the verdict is settled; the remaining cases are skipped
const bailOut = 40

// ---------------------------------------------------------------------------- concretisation of sizes

func keyOf(i, klen int) string {
	// distinct, upper-case, header-safe names of exactly klen bytes
	b := bytes.Repeat([]byte{'K'}, klen)
	b[0] = byte('A' + i)
	for j := 1; j < klen; j++ {
		b[j] = byte('A' + (j*7+i)%26)
	}
	return string(b)
}

func valOf(i, vlen int) string {
	b := make([]byte, vlen)
	for j := range b {
		b[j] = byte('a' + (j*11+i*3+j/251)%26)
	}
	return string(b)
}

func bodyOf(n int) []byte {
	b := make([]byte, n)
	for j := range b {
		b[j] = byte((j*31 + j/65500 + 7) % 251)
	}
	return b
}

func (c *fcase) paramMap() map[string]string {
	m := map[string]string{}
	for i, p := range c.Pairs {
		m[keyOf(i, p[0])] = valOf(i, p[1])
	}
	return m
}

func pairsKey(p [][2]int) string {
	var s []string
	for _, x := range p {
		s = append(s, fmt.Sprintf("%d:%d", x[0], x[1]))
	}
	return strings.Join(s, ",")
}

// ---------------------------------------------------------------------------- the request direction, direct client

type traceEv struct {
	Ev    string   `json:"ev"`
	Pairs [][2]int `json:"pairs,omitempty"`
	Body  *int     `json:"body,omitempty"`
	T     string   `json:"t,omitempty"`
	N     *int     `json:"n,omitempty"`
	Pad   *int     `json:"pad,omitempty"`
}

func ip(i int) *int { return &i }

// convEvents renders one recorded connection as the events FastCGITrace.tla consumes.
func convEvents(pairs [][2]int, body int, conv *hx.FcgiConv) []traceEv {
	if pairs == nil {
		pairs = [][2]int{}
	}
	evs := []traceEv{{Ev: "case", Pairs: pairs, Body: ip(body)}}
	for _, r := range conv.Recs {
		evs = append(evs, traceEv{Ev: "rec", T: hx.FcgiTypeName(r.Type), N: ip(r.N), Pad: ip(r.Pad)})
	}
	if conv.Garbage != "" {
		// a record the responder could not frame: no action of the specification matches it
		evs = append(evs, traceEv{Ev: "garbage", T: conv.Garbage})
	}
	evs = append(evs, traceEv{Ev: "eof"})
	return evs
}

func (e traceEv) MarshalJSON() ([]byte, error) {
	m := map[string]interface{}{"ev": e.Ev}
	switch e.Ev {
	case "case":
		m["pairs"] = e.Pairs
		m["body"] = *e.Body
	case "rec":
		m["t"], m["n"], m["pad"] = e.T, *e.N, *e.Pad
	case "garbage":
		m["t"] = e.T
	}
	return json.Marshal(m)
}

// okResponse is what the responder answers in the request-direction cases.
func okResponse(*hx.FcgiConv) []hx.FcgiOut {
	return []hx.FcgiOut{
		{Type: hx.FcgiStdout, Content: []byte("Status: 200 OK\r\nContent-Type: text/plain\r\n\r\nok"), Pad: 1},
		{Type: hx.FcgiStdout},
		hx.FcgiEndRequest(),
	}
}

// station is one responder with a channel of finished connections (one client at a time).
type station struct {
	r     *hx.FcgiResponder
	convs chan *hx.FcgiConv
	mu    sync.Mutex
	next  func(*hx.FcgiConv) []hx.FcgiOut
}

func newStation() (*station, error) {
	s := &station{convs: make(chan *hx.FcgiConv, 16)}
	r, err := hx.StartFcgiResponder(func(c *hx.FcgiConv) []hx.FcgiOut {
		s.mu.Lock()
		f := s.next
		s.mu.Unlock()
		if f == nil {
			f = okResponse
		}
		return f(c)
	}, func(c *hx.FcgiConv) { s.convs <- c })
	if err != nil {
		return nil, err
	}
	s.r = r
	return s, nil
}

func (s *station) script(f func(*hx.FcgiConv) []hx.FcgiOut) { s.mu.Lock(); s.next = f; s.mu.Unlock() }

func (s *station) wait() (*hx.FcgiConv, error) {
	select {
	case c := <-s.convs:
		return c, nil
	case <-time.After(40 * time.Second):
		return nil, fmt.Errorf("responder saw no finished connection within 40s")
	}
}

type clientView struct {
	Status  int         `json:"status"`
	Header  http.Header `json:"header,omitempty"`
	BodyLen int         `json:"body_len"`
	BodySum string      `json:"body_sum,omitempty"`
	Stderr  string      `json:"stderr,omitempty"`
	Err     string      `json:"err,omitempty"`
	Panic   string      `json:"panic,omitempty"`
	body    []byte
}

// doClient runs one request of the real client against addr.
func doClient(addr string, params map[string]string, body io.Reader) (v clientView) {
	defer func() {
		if p := recover(); p != nil {
			v.Panic = fmt.Sprint(p)
		}
	}()
	c, err := fastcgi.Dial("tcp", addr)
	if err != nil {
		v.Err = "dial: " + err.Error()
		return
	}
	defer c.Close()
	c.SetReadTimeout(clientTimeout)
	c.SetSendTimeout(clientTimeout)
	resp, err := c.Request(params, body)
	if err != nil && err != io.EOF {
		v.Err = "request: " + err.Error()
		return
	}
	v.Status = resp.StatusCode
	v.Header = resp.Header
	b, err := io.ReadAll(resp.Body)
	if err != nil {
		v.Err = "body: " + err.Error()
	}
	v.body = b
	v.BodyLen = len(b)
	v.Stderr = fastcgi.VerifStderr(c)
	return
}

// judgeReq compares what the responder decoded with what was sent; "" = fine.
func judgeReq(c *fcase, sent map[string]string, body []byte, conv *hx.FcgiConv) (clause, what string) {
	if conv.Garbage != "" {
		return "framing", conv.Garbage
	}
	if conv.PairsErr != "" {
		return "params", "name-value stream does not decode: " + conv.PairsErr
	}
	got, dup := conv.Env()
	if dup > 0 {
		return "params", fmt.Sprintf("%d names sent twice", dup)
	}
	for k, v := range sent {
		g, ok := got[k]
		fits := 8+len(k)+len(v) <= maxWrite
		switch {
		case fits && !ok:
			return "params", fmt.Sprintf("pair with %d-byte name and %d-byte value did not arrive", len(k), len(v))
		case fits && g != v:
			return "params", fmt.Sprintf("value of the pair (%d,%d) arrived changed (%d bytes)", len(k), len(v), len(g))
		case !fits && ok && !strings.HasPrefix(v, g):
			return "params", fmt.Sprintf("oversized pair (%d,%d) arrived with a value that is not a prefix of the original", len(k), len(v))
		}
	}
	for k := range got {
		if _, ok := sent[k]; !ok {
			return "params", fmt.Sprintf("responder received a %d-byte name that was never sent", len(k))
		}
	}
	if !bytes.Equal(conv.Stdin, body) {
		return "stdin", fmt.Sprintf("stdin stream carried %d bytes, request body has %d (equal=%v)", len(conv.Stdin), len(body), false)
	}
	if conv.ParamsEnded != 1 || conv.StdinEnded != 1 || conv.AfterEnd != 0 {
		return "framing", fmt.Sprintf("stream terminators: params x%d stdin x%d, %d records after the end", conv.ParamsEnded, conv.StdinEnded, conv.AfterEnd)
	}
	return "", ""
}

type reqOutcome struct {
	clause, what string
	view         clientView
	conv         *hx.FcgiConv
}

func runReqDirect(st *station, c *fcase) (reqOutcome, error) {
	sent := c.paramMap()
	body := bodyOf(c.Body)
	st.script(okResponse)
	v := doClient(st.r.Addr, sent, bytes.NewReader(body))
	if v.Panic != "" {
		// the connection was opened: drain its record
		st.wait()
		return reqOutcome{clause: "panic", what: "FCGIClient.Request panicked: " + v.Panic, view: v}, nil
	}
	conv, err := st.wait()
	if err != nil {
		return reqOutcome{}, err
	}
	if v.Err != "" {
		return reqOutcome{clause: "client-error", what: v.Err, view: v, conv: conv}, nil
	}
	cl, what := judgeReq(c, sent, body, conv)
	if cl == "" && (v.Status != 200 || string(v.body) != "ok") {
		cl, what = "response", fmt.Sprintf("client saw status %d body %q for the fixed answer", v.Status, v.body)
	}
	return reqOutcome{clause: cl, what: what, view: v, conv: conv}, nil
}

func reqKey(c *fcase, clause string) string {
	// a name that cannot fit a record together with its two length headers is the whole story
	for _, p := range c.Pairs {
		if p[0] > maxWrite-8 && (clause == "panic" || clause == "status") {
			return fmt.Sprintf("C13/req/%s/via=%s/name-length=%d", clause, c.Via, p[0])
		}
	}
	return fmt.Sprintf("C13/req/%s/via=%s/pairs=[%s]/body=%d", clause, c.Via, pairsKey(c.Pairs), c.Body)
}

// ---------------------------------------------------------------------------- the response direction

var statusCodes = []int{201, 404, 500, 403}

type concreteResp struct {
	outs    []hx.FcgiOut
	status  int
	headers map[string]string // expected header -> value
	body    []byte
	errToks []string // stderr payloads, in order
	errAll  string
}

// concretise turns the abstract framing into bytes. Record boundaries between stdout chunks are
// moved by up to two bytes (seeded) so that they fall inside lines and inside CRLFs.
func concretise(c *fcase) *concreteResp {
	rnd := rand.New(rand.NewSource(c.Seed))
	cr := &concreteResp{headers: map[string]string{}}
	cr.status = 200
	unit := map[string][]byte{}
	if c.Status {
		cr.status = statusCodes[rnd.Intn(len(statusCodes))]
		unit["S"] = []byte(fmt.Sprintf("Status: %d %s\r\n", cr.status, http.StatusText(cr.status)))
	}
	tok := fmt.Sprintf("u%d", rnd.Intn(1<<30))
	unit["H"] = []byte("Content-Type: text/x-verif\r\nX-Unit: " + tok + "\r\n")
	cr.headers["Content-Type"] = "text/x-verif"
	cr.headers["X-Unit"] = tok
	unit["N"] = []byte("\r\n")
	sizes := []int{1, 2, 7, 8, 9, 100, 4093, 20000}
	alone := map[string]bool{} // body units that travel in a record of their own
	for _, r := range c.Script {
		if r.T == "out" && len(r.U) == 1 {
			alone[r.U[0]] = true
		}
	}
	for _, b := range []string{"b1", "b2", "b3"} {
		n := sizes[rnd.Intn(len(sizes))]
		if alone[b] && rnd.Intn(4) == 0 {
			n = 65535 // a record with the largest content length the header can express
		}
		blk := make([]byte, n)
		for j := range blk {
			blk[j] = byte('0' + (j+len(b)*3+int(b[1]))%43)
		}
		// make the body look like a header block now and then: must not be re-parsed
		if n >= 100 && rnd.Intn(3) == 0 {
			copy(blk, "\r\nStatus: 599 body\r\n\r\n")
		}
		unit[b] = blk
		cr.body = append(cr.body, blk...)
	}
	// a stderr unit of the model stands for a burst of stderr records, one line each: usually one,
	// now and then more than the 100 empty reads bufio tolerates (a responder logging a long trace)
	burst := map[string]int{}
	for _, e := range []string{"e1", "e2", "e3"} {
		k := []int{1, 1, 1, 1, 2, 120, 350, 1}[rnd.Intn(8)]
		burst[e] = k
		id := rnd.Intn(1 << 30)
		var b []byte
		for i := 0; i < k; i++ {
			b = append(b, fmt.Sprintf("STDERR-%s-%d-%d\n", e, id, i)...)
		}
		unit[e] = b
	}
	// payloads per record
	type prec struct {
		t       string
		payload []byte
	}
	var recs []prec
	for _, r := range c.Script {
		var p []byte
		for _, u := range r.U {
			if r.T == "err" {
				lines := strings.SplitAfter(string(unit[u]), "\n")
				lines = lines[:len(lines)-1]
				cr.errToks = append(cr.errToks, strings.TrimSuffix(lines[0], "\n"), strings.TrimSuffix(lines[len(lines)-1], "\n"))
				cr.errAll += string(unit[u])
				if burst[u] > 1 {
					for _, ln := range lines {
						recs = append(recs, prec{"err", []byte(ln)})
					}
					continue
				}
			}
			p = append(p, unit[u]...)
		}
		if r.T == "err" && len(p) == 0 && len(r.U) > 0 {
			continue // went out as a burst
		}
		recs = append(recs, prec{r.T, p})
	}
	// shift boundaries between consecutive non-empty stdout payloads
	prev := -1
	for i := range recs {
		if recs[i].t != "out" || len(recs[i].payload) == 0 {
			continue
		}
		if prev >= 0 {
			d := rnd.Intn(5) - 2
			a, b := recs[prev].payload, recs[i].payload
			if d > 0 && len(b) > d && len(a)+d <= 65535 {
				recs[prev].payload = append(append([]byte{}, a...), b[:d]...)
				recs[i].payload = b[d:]
			} else if d < 0 && len(a) > -d && len(b)-d <= 65535 {
				recs[i].payload = append(append([]byte{}, a[len(a)+d:]...), b...)
				recs[prev].payload = a[:len(a)+d]
			}
		}
		prev = i
	}
	first := true
	for _, r := range recs {
		var typ uint8
		switch r.t {
		case "out":
			typ = hx.FcgiStdout
		case "err":
			typ = hx.FcgiStderr
		case "end":
			cr.outs = append(cr.outs, hx.FcgiEndRequest())
			continue
		}
		pad := 0
		switch c.Pad {
		case "seven":
			pad = 7
		case "align":
			pad = -len(r.payload) & 7
		case "max":
			pad = 1
			if first {
				pad = 255
			}
		}
		first = false
		o := hx.FcgiOut{Type: typ, Content: r.payload, Pad: pad}
		// the model's records are what the responder hands to its transport; where the transport
		// cuts the byte stream is not the responder's business: now and then inside a record header
		if rnd.Intn(5) == 0 {
			o.CutAfter = 1 + rnd.Intn(7)
		}
		cr.outs = append(cr.outs, o)
	}
	return cr
}

func scriptKey(c *fcase) string {
	var s []string
	for _, r := range c.Script {
		s = append(s, r.T+"("+strings.Join(r.U, "")+")")
	}
	return strings.Join(s, "")
}

func respKey(c *fcase, clause string) string {
	return fmt.Sprintf("C13/resp/%s/via=%s/status=%v/pad=%s/script=%s", clause, c.Via, c.Status, c.Pad, scriptKey(c))
}

// judgeResp compares the client's view with the model's expectation for the framing.
func judgeResp(cr *concreteResp, v clientView, viaCasket bool, errlog string) (clause, what string) {
	if v.Panic != "" {
		return "panic", "client panicked: " + v.Panic
	}
	if v.Err != "" {
		return "client-error", v.Err
	}
	if v.Status != cr.status {
		return "status", fmt.Sprintf("client got status %d, the responder said %d", v.Status, cr.status)
	}
	for k, want := range cr.headers {
		if got := v.Header.Get(k); got != want {
			return "headers", fmt.Sprintf("header %s: client got %q, the responder sent %q", k, got, want)
		}
	}
	if !bytes.Equal(v.body, cr.body) {
		return "body", fmt.Sprintf("client got a %d-byte body, the responder sent %d bytes (first difference at %d)", len(v.body), len(cr.body), firstDiff(v.body, cr.body))
	}
	for _, t := range cr.errToks {
		if bytes.Contains(v.body, []byte(t)) || headerContains(v.Header, t) {
			return "stderr-leak", "stderr output reached the client"
		}
	}
	if !viaCasket {
		if v.Stderr != cr.errAll {
			return "stderr-log", fmt.Sprintf("client collected %q from stderr, the responder wrote %q", v.Stderr, cr.errAll)
		}
	} else {
		for _, t := range cr.errToks {
			if !strings.Contains(errlog, t) {
				return "stderr-log", fmt.Sprintf("stderr output %q is missing from the error log", t)
			}
		}
	}
	return "", ""
}

func firstDiff(a, b []byte) int {
	n := len(a)
	if len(b) < n {
		n = len(b)
	}
	for i := 0; i < n; i++ {
		if a[i] != b[i] {
			return i
		}
	}
	return n
}

func headerContains(h http.Header, t string) bool {
	for k, vs := range h {
		if strings.Contains(k, t) {
			return true
		}
		for _, v := range vs {
			if strings.Contains(v, t) {
				return true
			}
		}
	}
	return false
}

func runRespDirect(st *station, c *fcase) (string, string, clientView, error) {
	cr := concretise(c)
	st.script(func(*hx.FcgiConv) []hx.FcgiOut { return cr.outs })
	v := doClient(st.r.Addr, map[string]string{"REQUEST_METHOD": "GET", "SCRIPT_NAME": "/x"}, nil)
	if _, err := st.wait(); err != nil {
		return "", "", v, err
	}
	cl, what := judgeResp(cr, v, false, "")
	return cl, what, v, nil
}

// ---------------------------------------------------------------------------- through a running casket instance

// stack is a casket instance with a fastcgi rule pointing at a scripted responder.
type stack struct {
	site   *hx.Site
	addr   string
	root   string
	errlog string
	resp   *hx.FcgiResponder
	mu     sync.Mutex
	plans  map[string]func(*hx.FcgiConv) []hx.FcgiOut
	convs  map[string]chan *hx.FcgiConv
}

func chars(s []string) string { return strings.Join(s, "") }

// upstream != "" replaces the scripted responder as the rule's FastCGI address.
func startStack(t testing.TB, rpath, ext, split string, index bool, files map[string]string, extra, upstream string) (*stack, error) {
	s := &stack{plans: map[string]func(*hx.FcgiConv) []hx.FcgiOut{}, convs: map[string]chan *hx.FcgiConv{}}
	dir, err := os.MkdirTemp(hx.Scratch(t), "c13root_")
	if err != nil {
		return nil, err
	}
	s.root = filepath.Join(dir, "root")
	s.errlog = filepath.Join(dir, "errors.log")
	os.MkdirAll(s.root, 0o755)
	for name, content := range files {
		p := filepath.Join(s.root, filepath.FromSlash(name))
		os.MkdirAll(filepath.Dir(p), 0o755)
		if err := os.WriteFile(p, []byte(content), 0o644); err != nil {
			return nil, err
		}
	}
	caseOf := func(c *hx.FcgiConv) string {
		env, _ := c.Env()
		return env["HTTP_X_CASE"]
	}
	s.resp, err = hx.StartFcgiResponder(func(c *hx.FcgiConv) []hx.FcgiOut {
		s.mu.Lock()
		f := s.plans[caseOf(c)]
		if f == nil && len(s.plans) == 1 {
			for _, only := range s.plans {
				f = only
			}
		}
		s.mu.Unlock()
		if f == nil {
			f = echoResponse
		}
		return f(c)
	}, func(c *hx.FcgiConv) {
		s.mu.Lock()
		ch := s.convs[caseOf(c)]
		if ch == nil && len(s.convs) == 1 {
			// the case id did not survive the wire (params undecodable): requests through one
			// instance are sequential, so this is the pending one
			for _, only := range s.convs {
				ch = only
			}
		}
		s.mu.Unlock()
		if ch != nil {
			ch <- c
		}
	})
	if err != nil {
		return nil, err
	}
	var b strings.Builder
	port := hx.FreePort()
	fmt.Fprintf(&b, "fcgi.test:%d {\n\tbind 127.0.0.1\n\ttls off\n\troot %s\n\terrors %s\n", port, s.root, s.errlog)
	if upstream == "" {
		upstream = s.resp.Addr
	}
	fmt.Fprintf(&b, "\tfastcgi %s %s {\n", rpath, upstream)
	if ext != "" {
		fmt.Fprintf(&b, "\t\text %s\n", ext)
	}
	if split != "" {
		fmt.Fprintf(&b, "\t\tsplit %s\n", split)
	}
	if index {
		b.WriteString("\t\tindex index.php\n")
	}
	// extra: lines for inside the rule's block; after a NUL, lines for the site after the block
	// (@UP@ stands for the responder's address)
	after := ""
	if i := strings.IndexByte(extra, 0); i >= 0 {
		extra, after = extra[:i], strings.ReplaceAll(extra[i+1:], "@UP@", upstream)
	}
	b.WriteString(extra)
	b.WriteString("\t\tread_timeout 4s\n\t\tsend_timeout 4s\n")
	b.WriteString("\t}\n" + after + "}\n")
	for try := 0; try < 3; try++ {
		s.site, err = hx.StartHTTP(b.String(), "")
		if err == nil || !strings.Contains(err.Error(), "address already in use") {
			break
		}
	}
	if err != nil {
		s.resp.Close()
		return nil, fmt.Errorf("casket.Start: %v\n%s", err, b.String())
	}
	s.addr = "127.0.0.1:" + strconv.Itoa(port)
	return s, nil
}

func (s *stack) stop() {
	s.site.Stop()
	s.resp.Close()
	os.RemoveAll(filepath.Dir(s.root))
}

// plan registers the answer for one case id and returns the channel its connection record arrives on.
func (s *stack) plan(id string, f func(*hx.FcgiConv) []hx.FcgiOut) chan *hx.FcgiConv {
	ch := make(chan *hx.FcgiConv, 4)
	s.mu.Lock()
	s.plans[id] = f
	s.convs[id] = ch
	s.mu.Unlock()
	return ch
}

func (s *stack) unplan(id string) {
	s.mu.Lock()
	delete(s.plans, id)
	delete(s.convs, id)
	s.mu.Unlock()
}

// echoResponse reports what the responder saw as JSON (routing and env checks).
func echoResponse(c *hx.FcgiConv) []hx.FcgiOut {
	env, _ := c.Env()
	rep := map[string]interface{}{"responder": true, "script_name": env["SCRIPT_NAME"], "path_info": env["PATH_INFO"], "stdin_len": len(c.Stdin)}
	b, _ := json.Marshal(rep)
	return []hx.FcgiOut{
		{Type: hx.FcgiStdout, Content: append([]byte("Status: 200 OK\r\nContent-Type: application/json\r\nX-Responder: yes\r\n\r\n"), b...)},
		{Type: hx.FcgiStdout},
		hx.FcgiEndRequest(),
	}
}

func rawRequest(addr, method, target string, hdr []string, body []byte, chunked bool) (*hx.RawResp, error) {
	rc, err := hx.DialRaw(addr)
	if err != nil {
		return nil, err
	}
	defer rc.Close()
	var b bytes.Buffer
	fmt.Fprintf(&b, "%s %s HTTP/1.1\r\nHost: fcgi.test\r\nConnection: close\r\n", method, target)
	for _, h := range hdr {
		b.WriteString(h + "\r\n")
	}
	if chunked {
		b.WriteString("Transfer-Encoding: chunked\r\n\r\n")
		for off := 0; off < len(body); {
			n := 30000
			if len(body)-off < n {
				n = len(body) - off
			}
			fmt.Fprintf(&b, "%x\r\n", n)
			b.Write(body[off : off+n])
			b.WriteString("\r\n")
			off += n
		}
		b.WriteString("0\r\n\r\n")
	} else {
		if body != nil {
			fmt.Fprintf(&b, "Content-Length: %d\r\n", len(body))
		}
		b.WriteString("\r\n")
		b.Write(body)
	}
	return rc.Do(method, b.Bytes())
}

func readLog(p string) string {
	b, _ := os.ReadFile(p)
	return string(b)
}

func waitConv(ch chan *hx.FcgiConv) (*hx.FcgiConv, error) {
	select {
	case c := <-ch:
		return c, nil
	case <-time.After(20 * time.Second):
		return nil, fmt.Errorf("no finished FastCGI connection within 20s")
	}
}

var caseSeq struct {
	sync.Mutex
	n int
}

func newCaseID() string {
	caseSeq.Lock()
	defer caseSeq.Unlock()
	caseSeq.n++
	return "c" + strconv.Itoa(caseSeq.n)
}

// runRespCasket plays one framing for a request that goes through the casket instance.
func runRespCasket(s *stack, c *fcase) (string, string, clientView, error) {
	cr := concretise(c)
	id := newCaseID()
	ch := s.plan(id, func(*hx.FcgiConv) []hx.FcgiOut { return cr.outs })
	defer s.unplan(id)
	r, err := rawRequest(s.addr, "GET", "/app/x.php", []string{"X-Case: " + id}, nil, false)
	if err != nil {
		return "", "", clientView{}, err
	}
	if _, err := waitConv(ch); err != nil {
		return "", "", clientView{}, err
	}
	v := clientView{Status: r.Status, Header: r.Header, BodyLen: len(r.Body), body: r.Body, Err: r.Err}
	// the error log is written after the response: give it a moment when stderr is expected
	log := ""
	for try := 0; try < 100; try++ {
		log = readLog(s.errlog)
		ok := true
		for _, t := range cr.errToks {
			if !strings.Contains(log, t) {
				ok = false
			}
		}
		if ok {
			break
		}
		time.Sleep(10 * time.Millisecond)
	}
	cl, what := judgeResp(cr, v, true, log)
	return cl, what, v, nil
}

// runReqCasket sends a (pairs, body) case as request headers / body through the casket instance.
// A pair (k, v) becomes the header whose CGI name HTTP_... has k bytes.
func runReqCasket(s *stack, c *fcase) (reqOutcome, [][2]int, error) {
	id := newCaseID()
	ch := s.plan(id, okResponse)
	defer s.unplan(id)
	hdr := []string{"X-Case: " + id}
	sent := map[string]string{}
	for i, p := range c.Pairs {
		if p[0] < 7 {
			continue // HTTP_ + at least two characters
		}
		name := keyOf(i, p[0]-5) // HTTP_ prefix
		val := valOf(i, p[1])
		hdr = append(hdr, name+": "+val)
		sent["HTTP_"+name] = val
	}
	body := bodyOf(c.Body)
	r, err := rawRequest(s.addr, "POST", "/app/x.php", hdr, body, false)
	if err != nil {
		return reqOutcome{}, nil, err
	}
	if r.Status != 200 {
		// the middleware did not complete the exchange (a recovered panic answers 500)
		select {
		case <-ch:
		case <-time.After(200 * time.Millisecond):
		}
		return reqOutcome{clause: "status", what: fmt.Sprintf("casket answered %d to a request that must reach the responder", r.Status), view: clientView{Status: r.Status}}, nil, nil
	}
	conv, err := waitConv(ch)
	if err != nil {
		return reqOutcome{}, nil, err
	}
	// what the responder saw: all our HTTP_ pairs + variables we do not predict here
	got, _ := conv.Env()
	full := map[string]string{}
	for k, v := range got {
		full[k] = v
	}
	for k, v := range sent {
		full[k] = v
	}
	cl, what := judgeReq(c, full, body, conv)
	var pairs [][2]int
	for _, k := range hx.SortedKeys(full) {
		pairs = append(pairs, [2]int{len(k), len(full[k])})
	}
	return reqOutcome{clause: cl, what: what, conv: conv, view: clientView{Status: r.Status}}, pairs, nil
}

// ---------------------------------------------------------------------------- env battery (casket + two responders)

type envCase struct {
	Method  string      `json:"method"`
	Target  string      `json:"target"`
	Headers [][2]string `json:"headers"`
	BodyLen int         `json:"body_len"`
	Chunked bool        `json:"chunked,omitempty"`
	Script  string      `json:"script"`
	Info    string      `json:"info"`
	Child   bool        `json:"child"` // answered by Go's net/http/fcgi child instead of the scripted responder

	corruptExpectation bool // --selftest only
}

func envKey(e *envCase, clause string) string {
	var hs []string
	for _, h := range e.Headers {
		hs = append(hs, fmt.Sprintf("%s(%d)", h[0], len(h[1])))
	}
	resp := "scripted"
	if e.Child {
		resp = "gochild"
	}
	return fmt.Sprintf("C13/env/%s/responder=%s/%s %s/headers=%s/body=%d/chunked=%v", clause, resp, e.Method, e.Target, strings.Join(hs, ","), e.BodyLen, e.Chunked)
}

func cgiName(h string) string {
	return "HTTP_" + strings.NewReplacer(" ", "_", "-", "_").Replace(strings.ToUpper(h))
}

// expectedEnv: the CGI variables the statement names, derived from the request independently of casket.
func expectedEnv(e *envCase) map[string]string {
	exp := map[string]string{}
	byName := map[string][]string{}
	for _, h := range e.Headers {
		n := cgiName(h[0])
		byName[n] = append(byName[n], h[1])
	}
	for n, vs := range byName {
		exp[n] = strings.Join(vs, ", ")
	}
	exp["HTTP_HOST"] = "fcgi.test"
	exp["HTTP_CONNECTION"] = "close"
	exp["REQUEST_METHOD"] = e.Method
	path, query := e.Target, ""
	if i := strings.Index(e.Target, "?"); i >= 0 {
		path, query = e.Target[:i], e.Target[i+1:]
	}
	_ = path
	exp["QUERY_STRING"] = query
	exp["REQUEST_URI"] = e.Target
	exp["SERVER_PROTOCOL"] = "HTTP/1.1"
	exp["SCRIPT_NAME"] = e.Script
	exp["PATH_INFO"] = e.Info
	exp["VERIF_FIXED"] = "fixed value"
	exp["VERIF_METHOD"] = "m=" + e.Method
	if e.BodyLen >= 0 && !e.Chunked && e.Method != "GET" && e.Method != "HEAD" {
		exp["CONTENT_LENGTH"] = strconv.Itoa(e.BodyLen)
		exp["HTTP_CONTENT_LENGTH"] = strconv.Itoa(e.BodyLen)
	}
	for _, h := range e.Headers {
		if strings.EqualFold(h[0], "Content-Type") {
			exp["CONTENT_TYPE"] = h[1]
		}
	}
	return exp
}

const envExtra = "\t\tenv VERIF_FIXED \"fixed value\"\n\t\tenv VERIF_METHOD m={method}\n"

type childReport struct {
	Method string              `json:"method"`
	Header map[string][]string `json:"header"`
	Host   string              `json:"host"`
	URI    string              `json:"uri"`
	Env    map[string]string   `json:"env"`
	Body   int                 `json:"body"`
	BodyOK bool                `json:"body_ok"`
}

// startChild runs Go's net/http/fcgi responder: it reports what it was given.
func startChild() (net.Listener, error) {
	ln, err := net.Listen("tcp", "127.0.0.1:0")
	if err != nil {
		return nil, err
	}
	go fcgi.Serve(ln, http.HandlerFunc(func(w http.ResponseWriter, r *http.Request) {
		b, _ := io.ReadAll(r.Body)
		rep := childReport{Method: r.Method, Header: r.Header, Host: r.Host, URI: r.RequestURI, Env: fcgi.ProcessEnv(r), Body: len(b), BodyOK: bytes.Equal(b, bodyOf(len(b)))}
		w.Header().Set("Content-Type", "application/json")
		w.Header().Set("X-Responder", "gochild")
		json.NewEncoder(w).Encode(rep)
	}))
	return ln, nil
}

func envBattery(thorough bool, rnd *rand.Rand) []envCase {
	var out []envCase
	targets := []struct{ t, script, info string }{
		{"/app/x.php", "/app/x.php", ""},
		{"/app/x.php/extra/path?a=1&b=%20c", "/app/x.php", "/extra/path"},
		{"/app/X.PHP/i.php?q", "/app/X.PHP", "/i.php"},
		{"/app/nofile.php?x=y", "/app/nofile.php", ""},
		{"/app/d/", "/app/d/index.php", ""},
	}
	headerSets := [][][2]string{
		{},
		{{"X-One", "1"}, {"X-Two-Words", "two words"}, {"Accept", "text/html, */*;q=0.1"}},
		{{"X-Multi", "a"}, {"X-Multi", "b"}, {"Cookie", "k=v; k2=v2"}, {"User-Agent", "verif/1.0 (x)"}},
		{{"Content-Type", "application/x-verif; charset=utf-8"}, {"X-Under_Score", "u"}, {"Authorization", "Basic Zm9vOmJhcg=="}},
		{{"X-Empty", ""}, {"X-Long", strings.Repeat("v", 127)}, {"X-Longer", strings.Repeat("w", 128)}, {"X-Utf8", "gr\xc3\xbc\xc3\x9fe"}},
		// HTTP_X_EDGE has 11 bytes: 8+11+65481 = 65500 fits exactly, must arrive complete
		{{"X-Edge", strings.Repeat("e", 65481)}},
	}
	bodies := []int{0, 1, 65500, 65501, 131001}
	if thorough {
		bodies = append(bodies, 7, 8, 65499, 65535, 65536, 196501)
	}
	methods := []string{"GET", "POST", "PUT", "HEAD", "OPTIONS", "DELETE"}
	for ti, tg := range targets {
		for hi, hs := range headerSets {
			m := methods[(ti+hi)%len(methods)]
			bl := -1
			if m == "POST" || m == "PUT" || m == "DELETE" {
				bl = bodies[(ti*3+hi)%len(bodies)]
			}
			out = append(out, envCase{Method: m, Target: tg.t, Headers: hs, BodyLen: bl, Script: tg.script, Info: tg.info, Child: (ti+hi)%2 == 1})
		}
	}
	// every body size through both responders, with and without Content-Length
	for i, bl := range bodies {
		for _, child := range []bool{false, true} {
			out = append(out, envCase{Method: "POST", Target: "/app/x.php?b=" + strconv.Itoa(bl), Headers: [][2]string{{"Content-Type", "application/octet-stream"}}, BodyLen: bl, Script: "/app/x.php", Child: child})
			if bl > 0 && (thorough || i%2 == 0) {
				out = append(out, envCase{Method: "POST", Target: "/app/x.php?c=" + strconv.Itoa(bl), Headers: [][2]string{{"X-Chunked", "yes"}}, BodyLen: bl, Chunked: true, Script: "/app/x.php", Child: child})
			}
		}
	}
	_ = rnd
	return out
}

type envStacks struct {
	scripted *stack
	child    *stack
	childLn  net.Listener
}

var envFiles = map[string]string{"app/x.php": "<?php SOURCE-LEAK x ?>", "app/X.PHP": "<?php SOURCE-LEAK X ?>", "app/d/index.php": "<?php SOURCE-LEAK idx ?>"}

func startEnvStacks(t testing.TB) (*envStacks, error) {
	es := &envStacks{}
	var err error
	es.scripted, err = startStack(t, "/app", ".php", ".php", true, envFiles, envExtra, "")
	if err != nil {
		return nil, err
	}
	es.childLn, err = startChild()
	if err != nil {
		return nil, err
	}
	// second instance: same rule, but the upstream is Go's fcgi child
	es.child, err = startStack(t, "/app", ".php", ".php", true, envFiles, envExtra, es.childLn.Addr().String())
	if err != nil {
		return nil, err
	}
	return es, nil
}

func (es *envStacks) stop() {
	if es.scripted != nil {
		es.scripted.stop()
	}
	if es.child != nil {
		es.child.stop()
	}
	if es.childLn != nil {
		es.childLn.Close()
	}
}

// runEnv performs one env case; it returns the failing clause ("" = fine), the recorded
// connection (scripted responder only) and the pairs the trace specification should expect.
func runEnv(es *envStacks, e *envCase) (string, string, *hx.FcgiConv, [][2]int, error) {
	var hdr []string
	for _, h := range e.Headers {
		hdr = append(hdr, h[0]+": "+h[1])
	}
	var body []byte
	if e.BodyLen >= 0 {
		body = bodyOf(e.BodyLen)
	}
	exp := expectedEnv(e)
	if e.corruptExpectation {
		exp["VERIF_FIXED"] = "not what the Casketfile says"
	}
	if e.Child {
		r, err := rawRequestChild(es, e, hdr, body)
		if err != nil {
			return "", "", nil, nil, err
		}
		if r.Status != 200 || r.Header.Get("X-Responder") != "gochild" {
			return "route", fmt.Sprintf("status %d, not answered by the responder", r.Status), nil, nil, nil
		}
		if e.Method == "HEAD" {
			return "", "", nil, nil, nil
		}
		var rep childReport
		if err := json.Unmarshal(r.Body, &rep); err != nil {
			return "child-report", "unreadable report from the Go fcgi child: " + err.Error(), nil, nil, nil
		}
		if rep.Method != e.Method {
			return "method", fmt.Sprintf("the Go fcgi child saw method %q", rep.Method), nil, nil, nil
		}
		want := http.Header{}
		for _, h := range e.Headers {
			want.Add(strings.ReplaceAll(h[0], "_", "-"), h[1])
		}
		for k, vs := range want {
			if k == "Content-Type" || k == "Content-Length" {
				continue // net/http/cgi maps CONTENT_TYPE and HTTP_CONTENT_TYPE onto the same header
			}
			if got := strings.Join(rep.Header[http.CanonicalHeaderKey(k)], ", "); got != strings.Join(vs, ", ") {
				return "headers", fmt.Sprintf("the Go fcgi child saw header %s = %.80q, the request had %.80q", k, got, strings.Join(vs, ", ")), nil, nil, nil
			}
		}
		if rep.Env["VERIF_FIXED"] != exp["VERIF_FIXED"] || rep.Env["VERIF_METHOD"] != exp["VERIF_METHOD"] {
			return "config-env", fmt.Sprintf("configured env entries arrived as %q / %q", rep.Env["VERIF_FIXED"], rep.Env["VERIF_METHOD"]), nil, nil, nil
		}
		wantBody := 0
		if body != nil && e.Method != "HEAD" && e.Method != "OPTIONS" {
			wantBody = len(body)
		}
		if rep.Body != wantBody || !rep.BodyOK {
			return "stdin", fmt.Sprintf("the Go fcgi child read %d body bytes (identical=%v), the request carried %d", rep.Body, rep.BodyOK, wantBody), nil, nil, nil
		}
		return "", "", nil, nil, nil
	}
	s := es.scripted
	id := newCaseID()
	ch := s.plan(id, echoResponse)
	defer s.unplan(id)
	r, err := rawRequest(s.addr, e.Method, e.Target, append(hdr, "X-Case: "+id), body, e.Chunked)
	if err != nil {
		return "", "", nil, nil, err
	}
	if r.Status != 200 || r.Header.Get("X-Responder") != "yes" {
		select {
		case <-ch:
		case <-time.After(200 * time.Millisecond):
		}
		return "route", fmt.Sprintf("status %d, not answered by the responder", r.Status), nil, nil, nil
	}
	conv, err := waitConv(ch)
	if err != nil {
		return "", "", nil, nil, err
	}
	got, _ := conv.Env()
	exp["HTTP_X_CASE"] = id
	// expected pair sizes for the trace: predicted variables as predicted, the others as received
	var pairs [][2]int
	for _, k := range hx.SortedKeys(got) {
		v := got[k]
		if w, ok := exp[k]; ok {
			v = w
		}
		pairs = append(pairs, [2]int{len(k), len(v)})
	}
	for k, w := range exp {
		if _, ok := got[k]; !ok {
			pairs = append(pairs, [2]int{len(k), len(w)}) // predicted but not received
		}
	}
	for k, want := range exp {
		g, ok := got[k]
		if !ok {
			return "vars", fmt.Sprintf("variable %s is missing (expected %.80q)", k, want), conv, pairs, nil
		}
		if g != want {
			return "vars", fmt.Sprintf("variable %s = %.80q, derived from the request: %.80q", k, g, want), conv, pairs, nil
		}
	}
	for k := range got {
		if strings.HasPrefix(k, "HTTP_") {
			if _, ok := exp[k]; !ok {
				return "vars", fmt.Sprintf("variable %s does not correspond to any request header", k), conv, pairs, nil
			}
		}
	}
	wantBody := []byte{}
	if body != nil && e.Method != "HEAD" && e.Method != "OPTIONS" {
		wantBody = body
	}
	if !bytes.Equal(conv.Stdin, wantBody) {
		return "stdin", fmt.Sprintf("responder read %d body bytes, the request carried %d", len(conv.Stdin), len(wantBody)), conv, pairs, nil
	}
	return "", "", conv, pairs, nil
}

func rawRequestChild(es *envStacks, e *envCase, hdr []string, body []byte) (*hx.RawResp, error) {
	return rawRequest(es.child.addr, e.Method, e.Target, hdr, body, e.Chunked)
}

// ---------------------------------------------------------------------------- routing

var routeFiles = map[string]string{
	"a/x.php":       "<?php SOURCE-LEAK /a/x.php ?>",
	"a/X.PHP":       "<?php SOURCE-LEAK /a/X.PHP ?>",
	"a/x.txt":       "plain text /a/x.txt",
	"x.php":         "<?php SOURCE-LEAK /x.php ?>",
	"ab/x.php":      "<?php SOURCE-LEAK /ab/x.php ?>",
	"b/x.php":       "<?php SOURCE-LEAK /b/x.php ?>",
	"a/d/index.php": "<?php SOURCE-LEAK /a/d/index.php ?>",
}

type routeObs struct {
	Status    int    `json:"status"`
	Responder bool   `json:"responder"`
	Leak      bool   `json:"source_leaked"`
	Script    string `json:"script_name"`
	Info      string `json:"path_info"`
}

func cfgKey(c *rcase) string {
	k := fmt.Sprintf("rule=%s/ext=%s/split=%s/index=%v", chars(c.Rpath), chars(c.Ext), chars(c.Split), c.Index)
	if len(c.Exc) > 0 {
		k += "/except=" + chars(c.Exc)
	}
	if c.Second {
		k += "/second=/a"
	}
	return k
}

// routeExtra renders the except line and the second rule of a route case (see startStack's extra).
func routeExtra(c *rcase) string {
	in, after := "", ""
	if len(c.Exc) > 0 {
		in = "\t\texcept " + chars(c.Exc) + "\n"
	}
	if c.Second {
		after = "\tfastcgi /a @UP@ {\n"
		if e := chars(c.Ext); e != "" {
			after += "\t\text " + e + "\n"
		}
		if sp := chars(c.Split); sp != "" {
			after += "\t\tsplit " + sp + "\n"
		}
		after += "\t\tread_timeout 4s\n\t\tsend_timeout 4s\n\t}\n"
	}
	return in + "\x00" + after
}

func routeKey(c *rcase, clause string) string {
	return fmt.Sprintf("C13/route/%s/%s/req=%q", clause, cfgKey(c), chars(c.Req))
}

func askRoute(s *stack, c *rcase) (routeObs, error) {
	target := strings.ReplaceAll(chars(c.Req), " ", "%20")
	r, err := rawRequest(s.addr, "GET", target, nil, nil, false)
	if err != nil {
		return routeObs{}, err
	}
	o := routeObs{Status: r.Status, Responder: r.Header.Get("X-Responder") == "yes", Leak: bytes.Contains(r.Body, []byte("SOURCE-LEAK"))}
	if o.Responder {
		var rep struct {
			Script string `json:"script_name"`
			Info   string `json:"path_info"`
		}
		json.Unmarshal(r.Body, &rep)
		o.Script, o.Info = rep.Script, rep.Info
	}
	return o, nil
}

// judgeRoute: the statement's clauses; drift = disagreement with the operational model that the
// statement does not decide.
func judgeRoute(c *rcase, o routeObs) (clause, what string, drift bool) {
	if c.Under && c.Existing && !o.Responder {
		return "static-script", fmt.Sprintf("existing script %s under the rule was not sent to the responder (status %d, source leaked=%v)", chars(c.Req), o.Status, o.Leak), false
	}
	if o.Responder && c.Result == "responder" {
		wantScript := chars(c.Script)
		if o.Script != wantScript || o.Info != chars(c.Info) {
			if len(c.Split) == 0 {
				return "", "", true // no split string configured: the statement does not decide the names
			}
			return "split", fmt.Sprintf("SCRIPT_NAME=%q PATH_INFO=%q, split at %q gives %q / %q", o.Script, o.Info, chars(c.Split), wantScript, chars(c.Info)), false
		}
	}
	if o.Responder != (c.Result == "responder") {
		return "", "", true
	}
	return "", "", false
}

// ---------------------------------------------------------------------------- the test

func TestC13(t *testing.T) {
	hx.Quiet()
	res := hx.NewResult("TestC13", "request cases = every sorted sequence of <=MaxPairs (name,value) length pairs from the boundary set x body length of FastCGI.tla, sent by the real FCGIClient (and a sample as HTTP headers/body through casket) to a byte-level responder whose record log TLC validates; response cases = every framing (splits, stderr interleavings, terminators, padding profile, Status present/absent) played to the real client; route cases = every (rule, request) of FcgiRoute.tla against casket instances; env battery through casket with the scripted responder and Go's net/http/fcgi child; non-trivial = anything but the empty request / single-record answer")
	defer res.Write(t)

	if p := hx.Replay(); p != "" && !filepath.IsAbs(p) {
		// ./check hands the path over as typed; the test runs in harness/c13
		if _, err := os.Stat(p); err != nil {
			os.Setenv("VERIF_REPLAY", filepath.Join("..", "..", p))
		}
	}
	if rp, ok := hx.LoadReplay[anyCase](t); ok {
		replayOne(t, res, &rp)
		return
	}

	if !hx.SelfTest() {
		concurrentPhase(res)
	}
	rnd := hx.Rand()
	all := hx.LoadCases[fcase](t, "FastCGI")
	routes := hx.LoadCases[rcase](t, "FcgiRoute")
	var reqs, resps []*fcase
	for i := range all {
		c := &all[i]
		c.Via = "client"
		c.Seed = hx.Seed()*1000003 + int64(i)
		if c.Kind == "req" {
			reqs = append(reqs, c)
		} else {
			resps = append(resps, c)
		}
	}
	res.AddExtra("req_cases_from_tlc", len(reqs))
	res.AddExtra("resp_cases_from_tlc", len(resps))
	res.AddExtra("route_cases_from_tlc", len(routes))

	tw := hx.NewTrace(t, "fcgi_wire.ndjson")
	var twMu sync.Mutex
	ntraces := 0
	emit := func(evs []traceEv) {
		twMu.Lock()
		for _, e := range evs {
			tw.Emit(e)
		}
		ntraces++
		twMu.Unlock()
	}
	var infraMu sync.Mutex
	var infra error
	setInfra := func(err error) {
		infraMu.Lock()
		if infra == nil {
			infra = err
		}
		infraMu.Unlock()
	}
	selfHits := map[string]bool{}
	var selfMu sync.Mutex
	selfHit := func(k string) { selfMu.Lock(); selfHits[k] = true; selfMu.Unlock() }
	unaligned := 0

	// ---- 1. request direction, real client -> byte-level responder (all cases)
	{
		jobs := make(chan *fcase)
		var wg sync.WaitGroup
		for w := 0; w < 12; w++ {
			wg.Add(1)
			go func() {
				defer wg.Done()
				st, err := newStation()
				if err != nil {
					setInfra(err)
					for range jobs {
					}
					return
				}
				defer st.r.Close()
				for c := range jobs {
					if res.MismatchCount() >= bailOut {
						continue
					}
					out, err := runReqDirect(st, c)
					if err != nil {
						setInfra(err)
						continue
					}
					nt := ""
					if len(c.Pairs) > 0 || c.Body > 0 {
						nt = "req:" + pairsKey(c.Pairs) + "/" + strconv.Itoa(c.Body)
					}
					res.Count(nt)
					if out.conv != nil {
						// whatever the comparison below says: TLC judges the records independently
						for _, r := range out.conv.Recs {
							if (r.N+r.Pad)%8 != 0 {
								twMu.Lock()
								unaligned++
								twMu.Unlock()
							}
						}
						emit(convEvents(c.Pairs, c.Body, out.conv))
					}
					if out.clause != "" {
						// reproduce once more on a fresh responder
						st2, err := newStation()
						if err != nil {
							setInfra(err)
							continue
						}
						out2, err := runReqDirect(st2, c)
						st2.r.Close()
						if err == nil && out2.clause == out.clause {
							res.Add(hx.Mismatch{Key: reqKey(c, out.clause), What: out.what, Case: anyCase{F: c}, Expected: "responder receives exactly the pairs and the body; client sees the fixed answer", Observed: out2.view})
						}
					}
				}
			}()
		}
		for _, c := range reqs {
			jobs <- c
		}
		close(jobs)
		wg.Wait()
	}

	// ---- 2. response direction, scripted framings -> real client (all cases)
	{
		jobs := make(chan *fcase)
		var wg sync.WaitGroup
		for w := 0; w < 12; w++ {
			wg.Add(1)
			go func() {
				defer wg.Done()
				st, err := newStation()
				if err != nil {
					setInfra(err)
					for range jobs {
					}
					return
				}
				defer st.r.Close()
				for c := range jobs {
					if res.MismatchCount() >= bailOut {
						continue
					}
					cc := c
					if hx.SelfTest() {
						// corrupt the expectation: pretend the responder sent a Status header / none
						x := *c
						x.Status = !x.Status
						if x.Status {
							// the script has no S unit: the model would expect the code of S
						}
						cc = &x
					}
					cl, what, v, err := runRespDirectExpect(st, c, cc)
					if err != nil {
						setInfra(err)
						continue
					}
					nt := ""
					if len(c.Script) > 2 {
						nt = "resp:" + scriptKey(c) + "/" + c.Pad + "/" + strconv.FormatBool(c.Status)
					}
					res.Count(nt)
					if cl != "" {
						if hx.SelfTest() {
							selfHit("resp")
							continue
						}
						cl2, _, v2, err := runRespDirect(st, c)
						if err == nil && cl2 == cl {
							res.Add(hx.Mismatch{Key: respKey(c, cl), What: what, Case: anyCase{F: c}, Expected: expectedView(c), Observed: v2})
						}
						_ = v
					}
				}
			}()
		}
		for _, c := range resps {
			jobs <- c
		}
		close(jobs)
		wg.Wait()
	}

	// ---- 3. through a running casket instance: sample of request and response cases, env battery
	if infra == nil {
		es, err := startEnvStacks(t)
		if err != nil {
			setInfra(err)
		} else {
			nreq, nresp := 60, 150
			if hx.Thorough() {
				nreq, nresp = 600, 3000
			}
			// request cases: always the ones with a boundary-length name
			var pick []*fcase
			for _, c := range reqs {
				for _, p := range c.Pairs {
					if p[0] >= 65492 && len(c.Pairs) == 1 && c.Body == 0 {
						pick = append(pick, c)
					}
				}
			}
			for _, k := range hx.SampleIdx(rnd, len(reqs), nreq) {
				pick = append(pick, reqs[k])
			}
			for _, c0 := range pick {
				if res.MismatchCount() >= bailOut {
					break
				}
				c := *c0
				c.Via = "casket"
				out, pairs, err := runReqCasket(es.scripted, &c)
				if err != nil {
					setInfra(err)
					break
				}
				res.Count("casket-req:" + pairsKey(c.Pairs) + "/" + strconv.Itoa(c.Body))
				if out.conv != nil {
					emit(convEvents(pairs, c.Body, out.conv))
				}
				if out.clause != "" {
					out2, _, err := runReqCasket(es.scripted, &c)
					if err == nil && out2.clause == out.clause {
						res.Add(hx.Mismatch{Key: reqKey(&c, out.clause), What: out.what, Case: anyCase{F: &c}, Expected: "every request header arrives as HTTP_* with its value, the body on stdin", Observed: out2.view})
					}
				}
			}
			for _, k := range hx.SampleIdx(rnd, len(resps), nresp) {
				if res.MismatchCount() >= bailOut {
					break
				}
				c := *resps[k]
				c.Via = "casket"
				cl, what, v, err := runRespCasket(es.scripted, &c)
				if err != nil {
					setInfra(err)
					break
				}
				res.Count("casket-resp:" + scriptKey(&c) + "/" + c.Pad)
				if cl != "" {
					cl2, _, v2, err := runRespCasket(es.scripted, &c)
					if err == nil && cl2 == cl {
						res.Add(hx.Mismatch{Key: respKey(&c, cl), What: what, Case: anyCase{F: &c}, Expected: expectedView(&c), Observed: v2})
					}
					_ = v
				}
			}
			bat := envBattery(hx.Thorough(), rnd)
			for i := range bat {
				if res.MismatchCount() >= bailOut {
					break
				}
				e := bat[i]
				if hx.SelfTest() && i == 0 {
					e.Info = e.Info + "/corrupted-expectation" // scripted responder: PATH_INFO is compared
				}
				if hx.SelfTest() && i == 1 {
					e.corruptExpectation = true // Go fcgi child: the configured env entry it reports is compared
				}
				cl, what, conv, pairs, err := runEnv(es, &e)
				if err != nil {
					setInfra(err)
					break
				}
				res.Count("env:" + envKey(&e, ""))
				if i < 2 {
					res.Sample(map[string]interface{}{"env_case": e, "verdict": cl})
				}
				if conv != nil && !(hx.SelfTest() && i < 2) { // (the corrupted expectations stay out of the genuine trace)
					bl := 0
					if e.BodyLen > 0 && e.Method != "HEAD" && e.Method != "OPTIONS" {
						bl = e.BodyLen
					}
					emit(convEvents(pairs, bl, conv))
				}
				if cl != "" {
					if hx.SelfTest() {
						if e.Child {
							selfHit("envchild")
						} else {
							selfHit("env")
						}
						continue
					}
					cl2, _, _, _, err := runEnv(es, &e)
					if err == nil && cl2 == cl {
						res.Add(hx.Mismatch{Key: envKey(&e, cl), What: what, Case: anyCase{Env: &e}, Expected: "CGI variables derived from the request, body bytes exact"})
					}
				}
			}
			es.stop()
		}
	}

	// ---- 4. routing table of FcgiRoute.tla against casket instances
	drift := 0
	var driftSample []string
	if infra == nil {
		byCfg := map[string][]*rcase{}
		for i := range routes {
			k := cfgKey(&routes[i])
			byCfg[k] = append(byCfg[k], &routes[i])
		}
		keys := hx.SortedKeys(byCfg)
		var wg sync.WaitGroup
		sem := make(chan struct{}, 8)
		var dmu sync.Mutex
		for _, k := range keys {
			cs := byCfg[k]
			wg.Add(1)
			sem <- struct{}{}
			go func() {
				defer wg.Done()
				defer func() { <-sem }()
				c0 := cs[0]
				s, err := startStack(t, chars(c0.Rpath), chars(c0.Ext), chars(c0.Split), c0.Index, routeFiles, routeExtra(c0), "")
				if err != nil {
					setInfra(err)
					return
				}
				defer s.stop()
				for n, c := range cs {
					if res.MismatchCount() >= bailOut {
						break
					}
					cc := c
					if hx.SelfTest() && n == 0 {
						x := *c
						x.Under, x.Existing = true, true // corrupted expectation: "must reach the responder"
						if x.Result == "responder" {
							x.Script = append([]string{"/", "z"}, x.Script...)
						}
						cc = &x
					}
					o, err := askRoute(s, c)
					if err != nil {
						setInfra(err)
						return
					}
					nt := ""
					if c.Existing || c.Result == "responder" {
						nt = "route:" + cfgKey(c) + chars(c.Req)
					}
					res.Count(nt)
					cl, what, dr := judgeRoute(cc, o)
					if dr {
						dmu.Lock()
						drift++
						if len(driftSample) < 5 {
							driftSample = append(driftSample, fmt.Sprintf("%s req=%q model=%s observed responder=%v status=%d", cfgKey(c), chars(c.Req), c.Result, o.Responder, o.Status))
						}
						dmu.Unlock()
					}
					if cl != "" {
						if hx.SelfTest() {
							selfHit("route")
							continue
						}
						o2, err := askRoute(s, c)
						cl2, _, _ := judgeRoute(c, o2)
						if err == nil && cl2 == cl {
							res.Add(hx.Mismatch{Key: routeKey(c, cl), What: what, Case: anyCase{R: c}, Expected: map[string]string{"result": c.Result, "script": chars(c.Script), "info": chars(c.Info)}, Observed: o2})
						}
					}
				}
			}()
		}
		wg.Wait()
	}
	res.AddExtra("model_drift_route_decisions", drift)
	if len(driftSample) > 0 {
		res.AddExtra("model_drift_route_samples", driftSample)
	}
	res.AddExtra("model_drift_unaligned_records", unaligned)
	if res.MismatchCount() >= bailOut {
		res.AddExtra("bailed_out", fmt.Sprintf("stopped after %d distinct mismatches; remaining cases skipped", res.MismatchCount()))
	}

	tw.Close()
	res.Traces = append(res.Traces, hx.TraceFile{Spec: "fcgiwire", File: tw.Path, Count: ntraces, Key: "wire-records"})
	res.AddExtra("recorded_connections", ntraces)
	res.Replayed = res.Evaluations
	if len(reqs) > 0 {
		res.Sample(map[string]interface{}{"request_case": reqs[len(reqs)/2], "meaning": "pairs are (name length, value length); the real client sends them and the body to the byte-level responder"})
	}
	if len(resps) > 0 {
		res.Sample(map[string]interface{}{"response_case": resps[len(resps)/2]})
	}

	if hx.SelfTest() {
		// a recorded trace with one record event dropped must be rejected by FastCGITrace
		bad := filepath.Join(hx.Scratch(t), "selftest_dropped.ndjson")
		if err := dropOneEvent(tw.Path, bad); err != nil {
			res.Infra = "selftest: " + err.Error()
			return
		}
		rc, tail := hx.RunTraceSpec(t, "FastCGITrace", "FastCGITrace.cfg", bad)
		os.Remove(bad)
		if rc != 10 && rc != 12 && rc != 13 {
			res.Infra = fmt.Sprintf("selftest: trace with a dropped record event was not rejected (tlc rc=%d): %s", rc, tail)
			return
		}
		for _, k := range []string{"resp", "env", "envchild", "route"} {
			if !selfHits[k] {
				res.Infra = "selftest: corrupted expectation of the " + k + " binding was not noticed"
				return
			}
		}
		res.AddExtra("selftest", "corrupted resp/env/route expectations noticed; trace with a dropped event rejected by TLC (rc="+strconv.Itoa(rc)+")")
	}
	if infra != nil {
		res.Infra = infra.Error()
	}
}

// runRespDirectExpect plays the framing of c and judges it against the expectation of exp
// (exp differs from c only in --selftest).
func runRespDirectExpect(st *station, c, exp *fcase) (string, string, clientView, error) {
	if c == exp {
		return runRespDirect(st, c)
	}
	cr := concretise(c)
	st.script(func(*hx.FcgiConv) []hx.FcgiOut { return cr.outs })
	v := doClient(st.r.Addr, map[string]string{"REQUEST_METHOD": "GET"}, nil)
	if _, err := st.wait(); err != nil {
		return "", "", v, err
	}
	want := *cr
	if exp.Status != c.Status {
		want.status = cr.status + 1
	}
	cl, what := judgeResp(&want, v, false, "")
	return cl, what, v, nil
}

func expectedView(c *fcase) map[string]interface{} {
	cr := concretise(c)
	return map[string]interface{}{"status": cr.status, "headers": cr.headers, "body_len": len(cr.body), "stderr_to_log_only": cr.errToks}
}

// dropOneEvent copies a trace without the first params/stdin record event of a non-empty stream.
func dropOneEvent(src, dst string) error {
	b, err := os.ReadFile(src)
	if err != nil {
		return err
	}
	lines := strings.Split(strings.TrimRight(string(b), "\n"), "\n")
	dropped := false
	var out []string
	for _, l := range lines {
		if !dropped && strings.Contains(l, `"ev":"rec"`) && strings.Contains(l, `"t":"params"`) && !strings.Contains(l, `"n":0,`) {
			dropped = true
			continue
		}
		out = append(out, l)
	}
	if !dropped {
		return fmt.Errorf("no record event to drop in %d trace lines", len(lines))
	}
	return os.WriteFile(dst, []byte(strings.Join(out, "\n")+"\n"), 0o644)
}

// ---------------------------------------------------------------------------- replay of one stored case

func replayOne(t *testing.T, res *hx.Result, c *anyCase) {
	res.Count("replay")
	res.Count("replay2")
	switch {
	case c.F != nil && c.F.Kind == "req" && c.F.Via != "casket":
		st, err := newStation()
		if err != nil {
			res.Infra = err.Error()
			return
		}
		defer st.r.Close()
		out, err := runReqDirect(st, c.F)
		if err != nil {
			res.Infra = err.Error()
			return
		}
		if out.clause != "" {
			res.Add(hx.Mismatch{Key: reqKey(c.F, out.clause), What: out.what, Case: c, Observed: out.view})
		}
	case c.F != nil && c.F.Kind == "resp" && c.F.Via != "casket":
		st, err := newStation()
		if err != nil {
			res.Infra = err.Error()
			return
		}
		defer st.r.Close()
		cl, what, v, err := runRespDirect(st, c.F)
		if err != nil {
			res.Infra = err.Error()
			return
		}
		if cl != "" {
			res.Add(hx.Mismatch{Key: respKey(c.F, cl), What: what, Case: c, Expected: expectedView(c.F), Observed: v})
		}
	case c.F != nil:
		es, err := startEnvStacks(t)
		if err != nil {
			res.Infra = err.Error()
			return
		}
		defer es.stop()
		if c.F.Kind == "req" {
			out, _, err := runReqCasket(es.scripted, c.F)
			if err != nil {
				res.Infra = err.Error()
				return
			}
			if out.clause != "" {
				res.Add(hx.Mismatch{Key: reqKey(c.F, out.clause), What: out.what, Case: c, Observed: out.view})
			}
		} else {
			cl, what, v, err := runRespCasket(es.scripted, c.F)
			if err != nil {
				res.Infra = err.Error()
				return
			}
			if cl != "" {
				res.Add(hx.Mismatch{Key: respKey(c.F, cl), What: what, Case: c, Expected: expectedView(c.F), Observed: v})
			}
		}
	case c.Env != nil:
		es, err := startEnvStacks(t)
		if err != nil {
			res.Infra = err.Error()
			return
		}
		defer es.stop()
		cl, what, _, _, err := runEnv(es, c.Env)
		if err != nil {
			res.Infra = err.Error()
			return
		}
		if cl != "" {
			res.Add(hx.Mismatch{Key: envKey(c.Env, cl), What: what, Case: c})
		}
	case c.R != nil:
		s, err := startStack(t, chars(c.R.Rpath), chars(c.R.Ext), chars(c.R.Split), c.R.Index, routeFiles, routeExtra(c.R), "")
		if err != nil {
			res.Infra = err.Error()
			return
		}
		defer s.stop()
		o, err := askRoute(s, c.R)
		if err != nil {
			res.Infra = err.Error()
			return
		}
		if cl, what, _ := judgeRoute(c.R, o); cl != "" {
			res.Add(hx.Mismatch{Key: routeKey(c.R, cl), What: what, Case: c, Observed: o})
		}
	default:
		t.Fatalf("replay file holds no C13 case")
	}
}

var _ = sort.Strings
