package cx04tunnel

// The two raw TCP endpoints around the proxy (a client and a backend that speak just enough HTTP
// to get to the point where the bytes matter), the recorder that gives every observation its place
// in the trace, and the fixture (one backend listener, casket sites started on demand).

import (
	"bufio"
	"bytes"
	"encoding/json"
	"errors"
	"fmt"
	"io"
	"net"
	"net/http"
	"strings"
	"sync"
	"syscall"
	"time"

	"verifharness/hx"
)

const patience = 3 * time.Second

// ---- payload: a model byte is a block of real bytes that names itself ---------------------------

func patByte(id, j int) byte { return byte((id*17 + j*5) % 127) }

// payload renders model bytes from..to of one direction.
func payload(from, to, block int) []byte {
	var b []byte
	for id := from; id <= to; id++ {
		b = append(b, 0x80|byte(id))
		for j := 1; j < block; j++ {
			b = append(b, patByte(id, j))
		}
	}
	return b
}

type decoder struct {
	block, cur, pos int
}

// feed returns the ids of the blocks completed by p; bad describes the first byte that cannot be
// part of any block the other side wrote (the id -9 is logged in its place).
func (d *decoder) feed(p []byte) (ids []int, bad string) {
	for _, b := range p {
		if d.pos == 0 {
			if b < 0x80 {
				if bad == "" {
					bad = fmt.Sprintf("byte %#02x where a block should start", b)
				}
				ids = append(ids, -9)
				continue
			}
			d.cur, d.pos = int(b&0x7f), 1
		} else {
			if want := patByte(d.cur, d.pos); b != want {
				if bad == "" {
					bad = fmt.Sprintf("byte %d of block %d is %#02x, was written as %#02x", d.pos, d.cur, b, want)
				}
			}
			d.pos++
		}
		if d.pos >= d.block {
			ids = append(ids, d.cur)
			d.pos = 0
		}
	}
	return
}

// ---- recorder ------------------------------------------------------------------------------------

type seenT struct {
	Crecv    []int  `json:"crecv"`
	Brecv    []int  `json:"brecv"`
	Chead    int    `json:"chead"`
	Ceof     bool   `json:"ceof"`
	Beof     bool   `json:"beof"`
	Cend     bool   `json:"cend"`
	Full     bool   `json:"full"`
	Upg      string `json:"upg"`
	Con      string `json:"con"`
	Host     string `json:"host"`
	Returned bool   `json:"returned"`
}

type recorder struct {
	mu     sync.Mutex
	events []json.RawMessage
	now    seenT  // what the endpoints have seen so far (Full / Returned unused)
	bad    string // a decoder met bytes nobody wrote
	cshut  string // how the client / the backend shut its side ("" = not yet)
	bshut  string
	frozen bool // the exchange is being torn down by the harness: nothing more is recorded
}

func newRecorder() *recorder {
	return &recorder{now: seenT{Upg: "-", Con: "-", Host: "-"}}
}

// log appends one event; upd (may be nil) changes the observables under the same lock.
func (r *recorder) log(upd func(s *seenT), ev string, kv ...interface{}) {
	r.logR(nil, upd, ev, kv...)
}

// logR is log for an endpoint's reader: what a reader gets after its side has closed the
// connection (*gone, set under the recorder's lock together with the cshut / bshut event) is not
// an observation of that endpoint any more.
func (r *recorder) logR(gone *bool, upd func(s *seenT), ev string, kv ...interface{}) {
	m := map[string]interface{}{"ev": ev}
	for i := 0; i+1 < len(kv); i += 2 {
		m[kv[i].(string)] = kv[i+1]
	}
	b, _ := json.Marshal(m)
	r.mu.Lock()
	if !r.frozen && !(gone != nil && *gone) {
		if upd != nil {
			upd(&r.now)
		}
		r.events = append(r.events, b)
	}
	r.mu.Unlock()
}

func (r *recorder) freeze() { r.mu.Lock(); r.frozen = true; r.mu.Unlock() }

func (r *recorder) snapshot() seenT {
	r.mu.Lock()
	defer r.mu.Unlock()
	s := r.now
	s.Crecv = append([]int{}, r.now.Crecv...)
	s.Brecv = append([]int{}, r.now.Brecv...)
	return s
}

func (r *recorder) take() []json.RawMessage {
	r.mu.Lock()
	defer r.mu.Unlock()
	ev := r.events
	r.events = nil
	return ev
}

func howEnded(err error) string {
	if err == io.EOF || errors.Is(err, io.ErrUnexpectedEOF) {
		return "eof"
	}
	if errors.Is(err, syscall.ECONNRESET) || errors.Is(err, syscall.EPIPE) {
		return "reset"
	}
	return "eof"
}

// ---- client ----------------------------------------------------------------------------------------

type client struct {
	conn   net.Conn
	rec    *recorder
	block  int
	sent   int  // model bytes written
	closed bool // we closed the connection ourselves (guarded by rec.mu)
	done   chan struct{}
}

func (c *client) isClosed() bool { c.rec.mu.Lock(); defer c.rec.mu.Unlock(); return c.closed }

// reader parses the response head, then returns every read as one crecv event.
func (c *client) reader() {
	defer close(c.done)
	br := bufio.NewReaderSize(c.conn, 64<<10)
	resp, err := http.ReadResponse(br, &http.Request{Method: "GET"})
	if err != nil {
		if !c.isClosed() {
			c.rec.logR(&c.closed, func(s *seenT) { s.Ceof = true }, "ceof", "how", howEnded(err))
		}
		return
	}
	c.rec.logR(&c.closed, func(s *seenT) { s.Chead = resp.StatusCode }, "chead", "st", resp.StatusCode,
		"upgrade", resp.Header.Get("Upgrade"), "connection", resp.Header.Get("Connection"), "accept", resp.Header.Get("Sec-WebSocket-Accept"), "xb", resp.Header.Get("X-Backend"))
	dec := &decoder{block: c.block}
	buf := make([]byte, 32<<10)
	var src io.Reader = br
	if resp.StatusCode != 101 {
		src = resp.Body
	}
	for {
		n, err := src.Read(buf)
		if n > 0 {
			ids, bad := dec.feed(buf[:n])
			if len(ids) > 0 {
				c.rec.logR(&c.closed, func(s *seenT) { s.Crecv = append(s.Crecv, ids...) }, "crecv", "ids", ids)
			}
			if bad != "" {
				c.rec.mu.Lock()
				if c.rec.bad == "" {
					c.rec.bad = "client: " + bad
				}
				c.rec.mu.Unlock()
			}
		}
		if err != nil {
			if c.isClosed() {
				return
			}
			if resp.StatusCode != 101 && err == io.EOF {
				c.rec.logR(&c.closed, func(s *seenT) { s.Cend = true }, "cend")
				return
			}
			c.rec.logR(&c.closed, func(s *seenT) { s.Ceof = true }, "ceof", "how", howEnded(err))
			return
		}
	}
}

func (c *client) shut(how string) {
	c.rec.mu.Lock()
	if how == "closed" {
		c.closed = true
	}
	c.rec.mu.Unlock()
	if how == "half" {
		c.conn.(*net.TCPConn).CloseWrite()
	} else {
		c.conn.Close()
	}
}

// ---- backend ---------------------------------------------------------------------------------------

type bconn struct {
	conn   net.Conn
	br     *bufio.Reader
	req    *http.Request
	rec    *recorder
	block  int
	sent   int
	frame  string // framing of an ordinary answer
	status int
	closed bool // guarded by rec.mu
	done   chan struct{}
}

func (b *bconn) isClosed() bool { b.rec.mu.Lock(); defer b.rec.mu.Unlock(); return b.closed }

func (b *bconn) reader() {
	defer close(b.done)
	if b.status != 101 {
		// an ordinary exchange: the connection stays an HTTP connection; the proxy may keep it
		// and send later requests (probes) over it
		for {
			req, err := http.ReadRequest(b.br)
			if err != nil {
				if !b.isClosed() {
					b.rec.logR(&b.closed, func(s *seenT) { s.Beof = true }, "beof", "how", howEnded(err))
				}
				return
			}
			resp := "HTTP/1.1 200 OK\r\nContent-Length: 2\r\n\r\nok"
			if !strings.HasPrefix(req.Header.Get("X-Case"), "probe") {
				resp = "HTTP/1.1 599 unexpected\r\nContent-Length: 0\r\n\r\n"
			}
			if _, err := io.WriteString(b.conn, resp); err != nil {
				return
			}
		}
	}
	dec := &decoder{block: b.block}
	buf := make([]byte, 32<<10)
	for {
		n, err := b.br.Read(buf)
		if n > 0 {
			ids, bad := dec.feed(buf[:n])
			if len(ids) > 0 {
				b.rec.logR(&b.closed, func(s *seenT) { s.Brecv = append(s.Brecv, ids...) }, "brecv", "ids", ids)
			}
			if bad != "" {
				b.rec.mu.Lock()
				if b.rec.bad == "" {
					b.rec.bad = "backend: " + bad
				}
				b.rec.mu.Unlock()
			}
		}
		if err != nil {
			if !b.isClosed() {
				b.rec.logR(&b.closed, func(s *seenT) { s.Beof = true }, "beof", "how", howEnded(err))
			}
			return
		}
	}
}

func (b *bconn) shut(how string) {
	b.rec.mu.Lock()
	if how == "closed" {
		b.closed = true
	}
	b.rec.mu.Unlock()
	if how == "half" {
		b.conn.(*net.TCPConn).CloseWrite()
	} else {
		b.conn.Close()
	}
}

// body frames body bytes of an ordinary answer.
func (b *bconn) body(p []byte) []byte {
	if b.frame != "chunked" || len(p) == 0 {
		return p
	}
	var w bytes.Buffer
	fmt.Fprintf(&w, "%x\r\n", len(p))
	w.Write(p)
	w.WriteString("\r\n")
	return w.Bytes()
}

// ---- fixture ---------------------------------------------------------------------------------------

type arrival struct {
	b   *bconn
	err error
}

type fixture struct {
	ln      net.Listener
	baddr   string
	mu      sync.Mutex
	waiting map[string]chan arrival
	sites   map[string]*siteT
	nextID  int
}

type siteT struct {
	hs    *hx.Site
	addr  string
	host  string
	probe *hx.RawConn
}

var startMu sync.Mutex

func newFixture() (*fixture, error) {
	ln, err := net.Listen("tcp", "127.0.0.1:0")
	if err != nil {
		return nil, err
	}
	fx := &fixture{ln: ln, baddr: ln.Addr().String(), waiting: map[string]chan arrival{}, sites: map[string]*siteT{}}
	go func() {
		for {
			c, err := ln.Accept()
			if err != nil {
				return
			}
			go fx.serve(c)
		}
	}()
	return fx, nil
}

// serve reads request heads: probes are answered on the spot, the request of a case is handed to
// the case that waits for it (together with the connection and whatever was read behind the head).
func (fx *fixture) serve(c net.Conn) {
	br := bufio.NewReaderSize(c, 64<<10)
	for {
		c.SetReadDeadline(time.Now().Add(60 * time.Second))
		req, err := http.ReadRequest(br)
		if err != nil {
			c.Close()
			return
		}
		id := req.Header.Get("X-Case")
		if strings.HasPrefix(id, "probe") {
			if _, err := io.WriteString(c, "HTTP/1.1 200 OK\r\nContent-Length: 2\r\n\r\nok"); err != nil {
				c.Close()
				return
			}
			continue
		}
		c.SetReadDeadline(time.Time{})
		fx.mu.Lock()
		ch := fx.waiting[id]
		delete(fx.waiting, id)
		fx.mu.Unlock()
		if ch == nil {
			io.WriteString(c, "HTTP/1.1 599 nobody waits\r\nContent-Length: 0\r\nConnection: close\r\n\r\n")
			c.Close()
			return
		}
		ch <- arrival{b: &bconn{conn: c, br: br, req: req, done: make(chan struct{})}}
		return
	}
}

func (fx *fixture) expect(id string) chan arrival {
	ch := make(chan arrival, 1)
	fx.mu.Lock()
	fx.waiting[id] = ch
	fx.mu.Unlock()
	return ch
}

func (fx *fixture) newID() string {
	fx.mu.Lock()
	defer fx.mu.Unlock()
	fx.nextID++
	return fmt.Sprintf("t%d", fx.nextID)
}

func siteKey(preset, transp bool, mc int) string {
	return fmt.Sprintf("p%d.t%d.mc%d", b2i(preset), b2i(transp), mc)
}

func b2i(b bool) int {
	if b {
		return 1
	}
	return 0
}

func (fx *fixture) site(preset, transp bool, mc int) (*siteT, error) {
	k := siteKey(preset, transp, mc)
	fx.mu.Lock()
	s := fx.sites[k]
	fx.mu.Unlock()
	if s != nil {
		return s, nil
	}
	var blk strings.Builder
	fmt.Fprintf(&blk, "proxy / %s {\n", fx.baddr)
	if preset {
		blk.WriteString("\twebsocket\n")
	}
	if transp {
		blk.WriteString("\ttransparent\n")
	}
	if mc > 0 {
		fmt.Fprintf(&blk, "\tmax_conns %d\n", mc)
	}
	blk.WriteString("}\n")
	startMu.Lock()
	defer startMu.Unlock()
	var hs *hx.Site
	var err error
	var port int
	for try := 0; try < 5; try++ {
		port = hx.StablePort()
		hs, err = hx.StartHTTP(fmt.Sprintf(":%d {\n\tbind 127.0.0.1\n\ttls off\n%s}\n", port, hx.Indent(blk.String())), "")
		if err == nil {
			break
		}
	}
	if err != nil {
		return nil, err
	}
	s = &siteT{hs: hs, addr: fmt.Sprintf("127.0.0.1:%d", port), host: fmt.Sprintf("tunnel.test:%d", port)}
	fx.mu.Lock()
	fx.sites[k] = s
	fx.mu.Unlock()
	return s, nil
}

// probe sends one more request to the site: with max_conns 1 it is refused (502) exactly while the
// backend's in-flight count is up.
func (s *siteT) doProbe() (full bool, err error) {
	for try := 0; try < 2; try++ {
		if s.probe == nil {
			if s.probe, err = hx.DialRaw(s.addr); err != nil {
				return false, err
			}
		}
		var r *hx.RawResp
		r, err = s.probe.Get("GET", "/probe", s.host, "X-Case: probe", "User-Agent: v", "Accept-Encoding: identity")
		if err != nil {
			s.probe.Close()
			s.probe = nil
			continue
		}
		switch r.Status {
		case 200:
			return false, nil
		case 502:
			return true, nil
		}
		return false, fmt.Errorf("probe answered %d", r.Status)
	}
	return false, err
}

func (fx *fixture) close() {
	fx.ln.Close()
	// the servers close the kept-alive probe connections first (no TIME_WAIT on our side)
	for _, s := range fx.sites {
		s.hs.Stop()
		if s.probe != nil {
			s.probe.Close()
		}
	}
}
