// C10 - Casketfile parsing is total, terminating and structure-preserving.
//
// Four bindings, one per specification (see notes/C10.md):
//
//	Lexer.tla         every class string up to length N with the tokens and lines the lexer
//	                  state machine yields -> casketfile.NewDispenser / Next / Val / Line
//	ImportGraph.tla   every import graph over files and snippets -> files on disk ->
//	                  casketfile.Parse: terminates; cyclic => error, acyclic => the expansion
//	ParserTotal.tla   every short token string -> casketfile.Parse: terminates, no panic,
//	                  errors name file:line, result independent of insignificant layout
//	CasketGrammar.tla well-formed configurations split over snippets and imported files with
//	                  layout choices -> files on disk -> casketfile.Parse == the generating AST
//
// All calls into the parser are made in worker processes (child_test.go) under a deadline.
package c10

import (
	"fmt"
	"os"
	"strings"
	"sync"
	"testing"
	"time"

	"verifharness/hx"
)

const nWorkers = 8

func deadline() time.Duration {
	if s := os.Getenv("VERIF_C10_DEADLINE"); s != "" {
		if d, err := time.ParseDuration(s); err == nil {
			return d
		}
	}
	return 6 * time.Second
}

// replayCase is what a replay file carries: the part and the failing job.
type replayCase struct {
	Part  string      `json:"part"`
	Lex   *lexReplay  `json:"lex,omitempty"`
	Graph *graphCase  `json:"graph,omitempty"`
	Total *totalCase  `json:"total,omitempty"`
	Gram  *gramReplay `json:"gram,omitempty"`
}

type ctx struct {
	t    *testing.T
	res  *hx.Result
	pool *pool
	dir  string // scratch root for files
	mu   sync.Mutex
	// selftest bookkeeping: part -> corrupted expectation noticed
	stHit map[string]bool
	infra []string
}

func (c *ctx) infraf(format string, a ...interface{}) {
	c.mu.Lock()
	if len(c.infra) < 5 {
		c.infra = append(c.infra, fmt.Sprintf(format, a...))
	}
	c.mu.Unlock()
}

func (c *ctx) hit(part string) {
	c.mu.Lock()
	c.stHit[part] = true
	c.mu.Unlock()
}

// parallel runs fn(i) for i in [0,n) on nWorkers goroutines.
func parallel(n int, fn func(i int)) {
	var wg sync.WaitGroup
	ch := make(chan int, 64)
	for w := 0; w < nWorkers; w++ {
		wg.Add(1)
		go func() {
			defer wg.Done()
			for i := range ch {
				fn(i)
			}
		}()
	}
	for i := 0; i < n; i++ {
		ch <- i
	}
	close(ch)
	wg.Wait()
}

func TestC10(t *testing.T) {
	hx.Quiet()
	res := hx.NewResult("TestC10", "cases = (a) every character-class string up to length N from Lexer.tla in several concrete spellings, with and without BOM; (b) every import graph over <=4 files/snippets from ImportGraph.tla; (c) every token-kind string up to length N from ParserTotal.tla in two layouts; (d) generated configurations from CasketGrammar.tla (exhaustive small + simulated large) with seeded token spellings; non-trivial = lexer input with a quote, backslash or '#', cyclic or multi-level import graph, token string with a brace/import/snippet, configuration with an import or a nested block")
	defer res.Write(t)
	// the generated configurations are many small files: keep them on tmpfs when there is one
	dir, err := os.MkdirTemp("/dev/shm", "verif_c10_")
	if err != nil {
		if dir, err = os.MkdirTemp(hx.Scratch(t), "c10files"); err != nil {
			t.Fatal(err)
		}
	}
	defer os.RemoveAll(dir)
	c := &ctx{t: t, res: res, pool: newPool(nWorkers, deadline()), dir: dir, stHit: map[string]bool{}}
	defer c.pool.close()

	if rp, ok := hx.LoadReplay[replayCase](t); ok {
		c.replay(&rp)
		c.finish()
		return
	}
	t0 := time.Now()
	c.lexerPart()
	res.AddExtra("lexer_s", time.Since(t0).Seconds())
	t0 = time.Now()
	c.importGraphPart()
	res.AddExtra("imports_s", time.Since(t0).Seconds())
	t0 = time.Now()
	c.parserTotalPart()
	res.AddExtra("parser_total_s", time.Since(t0).Seconds())
	if !hx.SelfTest() {
		c.envPart()
	}
	t0 = time.Now()
	c.grammarPart()
	res.AddExtra("grammar_s", time.Since(t0).Seconds())
	c.finish()
}

func (c *ctx) finish() {
	c.res.AddExtra("worker_processes_started", c.pool.spawned)
	c.res.AddExtra("worker_processes_killed_at_deadline", c.pool.killed)
	if len(c.infra) > 0 {
		c.res.Infra = strings.Join(c.infra, "; ")
	}
	if hx.SelfTest() && c.res.Infra == "" {
		for _, part := range selftestParts {
			if !c.stHit[part] {
				c.res.Infra = "selftest: corrupted expectation was not noticed in part " + part
				break
			}
		}
	}
	c.res.Replayed = c.res.Evaluations
}

var selftestParts = []string{"lexer", "imports", "parser-total", "grammar"}

func (c *ctx) replay(rp *replayCase) {
	c.res.Count("replay")
	switch rp.Part {
	case "lexer":
		if rp.Lex != nil {
			c.lexReplayOne(rp.Lex)
		}
	case "imports":
		if rp.Graph != nil {
			c.graphConfirm(rp.Graph, "replay", false)
		}
	case "parser-total":
		if rp.Total != nil {
			c.totalConfirm(rp.Total, "")
		}
	case "grammar":
		if rp.Gram != nil {
			c.gramConfirm(rp.Gram, "replay", false)
		}
	default:
		c.infraf("replay file names unknown part %q", rp.Part)
	}
}

// placeholders until the parts exist
