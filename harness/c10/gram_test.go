package c10

import (
	"crypto/sha1"
	"encoding/json"
	"fmt"
	"math/rand"
	"os"
	"path/filepath"
	"regexp"
	"sort"
	"strings"
	"sync/atomic"
	"time"

	"verifharness/hx"
)

// ---- the case format of CasketGrammar.tla ------------------------------------------------

type gLine struct {
	K  string   // keys | dir | close | imp
	N  string   // dir: class of the first token; keys: separator style
	T  int      // imp: target fragment (1-based document index)
	A  []string // classes of the arguments / keys
	O  bool     // "{" at the end of the line
	Ly int      // layout code
}

func (l *gLine) UnmarshalJSON(b []byte) error {
	var raw []json.RawMessage
	if err := json.Unmarshal(b, &raw); err != nil {
		return err
	}
	if len(raw) != 6 {
		return fmt.Errorf("line tuple has %d members", len(raw))
	}
	for i, dst := range []interface{}{&l.K, &l.N, &l.T, &l.A, &l.O, &l.Ly} {
		if err := json.Unmarshal(raw[i], dst); err != nil {
			return err
		}
	}
	return nil
}

type gDoc struct {
	Kind  string  `json:"kind"` // snip | file | subfile | glob | root
	Lines []gLine `json:"lines"`
	Eol   string  `json:"eol"`
	Cut   int     `json:"cut"`
}

type gOpts struct {
	Nobrace  bool   `json:"nobrace"`
	Snipfile bool   `json:"snipfile"`
	Topsplit int    `json:"topsplit"`
	Eol      string `json:"eol"`
}

type gBlock struct {
	Keys  [2]int     `json:"keys"`  // (document, line) of the keys line
	Units [][][2]int `json:"units"` // per directive: the (document, line) of all its lines
}

type gramCase struct {
	Docs []gDoc   `json:"docs"`
	Opts gOpts    `json:"opts"`
	Exp  []gBlock `json:"exp"`
}

// gramReplay is a rendered configuration: the files and what Parse must return.
type gramReplay struct {
	Files    map[string]string `json:"files"`    // path relative to the configuration directory -> content
	Valid    []string          `json:"valid"`    // validDirectives handed to Parse (nil = any)
	Expected []xBlock          `json:"expected"` // the generating structure
	Shape    string            `json:"shape"`    // human-readable summary of the structure
}

// xBlock is an expected server block; a token may have two admissible texts (see nameTok).
type xBlock struct {
	Keys []string          `json:"keys"`
	Dirs map[string][]xTok `json:"dirs"`
}

type xTok struct {
	Text string `json:"text"`
	Alt  string `json:"alt,omitempty"` // admissible alternative (the unexpanded placeholder of a directive NAME token)
}

// ---- concrete spellings of the token classes ----------------------------------------------

var argPool = map[string][]string{
	"w":  {"v1", "/srv/www", "example.com:443", "*.txt", "a=b", "über", "-flag", "10s", "x;y", "a,b", "http://u/p?q=1&r=2", "}x", "x{", "$HOME", "%TEMP%"},
	"wq": {"v1", "/srv/www", "plain", "import", "(q)", "a,b", "{$}", "0"},
	"sp": {"two words", " lead", "trail ", "a\tb", "many   blanks", "a { b", "} x", "import x"},
	"ml": {"line1\nline2", "a\n\nb", "\nstart", "end\n", "a\n}\nb", "a\n{", "x\nimport y", "one\n  two\n    three"},
	"em": {""},
	"qt": {`say "hi"`, `"`, `a"b`, `""`, `"x" "y"`, `he said "{" `},
	"hs": {"a#b", "#start", "x #y", "#"},
	"bs": {`C:\dir\file`, `\d+\.php$`, `a\\b`, `\n`, `^/(.*)\.(jpg|png)$`},
	"ph": {"{path}", "{uri}/x", "a{b}c", "{>X-Hdr}", "{rewrite_path}?{query}", "{}"},
	"ev": {"{$VERIF_E}", "pre{$VERIF_E}post", "{%VERIF_W%}", "{$VERIF_E}{%VERIF_W%}", "{$VERIF_UNSET_VARIABLE}x", "{$VERIF_UNSET_VARIABLE}", "{$VERIF_E}/{$VERIF_E}", "/{%VERIF_W%}/{path}"},
	"im": {"import"},
	"cm": {"x,", ",", "a,b,"},
	"pa": {"(s1)", "(paren)", "()"},
}

// classes whose spelling is always written in quotes / may be written either way
var alwaysQuoted = map[string]bool{"wq": true, "sp": true, "ml": true, "em": true, "qt": true, "hs": true}

var namePool = map[string][]string{
	"d1": {"d1"}, "d2": {"d2"}, "dE": {"{%VERIF_DIR%}", "{$VERIF_DIR}"}, "dq": {"d1", "d2"},
}

var keyPool = map[string][]string{
	"k1": {"a.test", "localhost"}, "k2": {"b.test:8080", ":2015"}, "k3": {"http://c.test/path", "*.wild.test"},
	"kE": {"{$VERIF_HOST}", "{%VERIF_HOST%}:8443"},
}

var envRe = regexp.MustCompile(`\{\$([A-Z_]+)\}|\{%([A-Z_]+)%\}`)

// expandEnv is the documented meaning of {$NAME} / {%NAME%}: replaced by the variable's value.
func expandEnv(s string) string {
	return envRe.ReplaceAllStringFunc(s, func(m string) string {
		name := strings.Trim(m, "{}$%")
		return childEnv[name]
	})
}

func needsQuotes(s string) bool {
	return s == "" || strings.ContainsAny(s, " \t\n\r\v\f#\"") || s == "{" || s == "}"
}

// quote prints a token text as a quoted Casketfile token (only \" is an escape).
func quote(s string) string {
	if strings.Contains(s, `\"`) || strings.HasSuffix(s, `\`) {
		panic("text cannot be written as a quoted token: " + s)
	}
	return `"` + strings.ReplaceAll(s, `"`, `\"`) + `"`
}

// ---- rendering ------------------------------------------------------------------------------

type renderer struct {
	c     *gramCase
	rnd   *rand.Rand
	texts map[[3]int]string // (doc, line, pos) -> token text as meant by the writer; pos 0 = first token
	files map[string]string
	shape []string
}

func (r *renderer) pick(pool []string) string { return pool[r.rnd.Intn(len(pool))] }

// tokText fixes the spelling of every token slot once (a fragment imported twice is the same text twice).
func (r *renderer) tokText(d, l, pos int) string {
	k := [3]int{d, l, pos}
	if t, ok := r.texts[k]; ok {
		return t
	}
	ln := &r.c.Docs[d-1].Lines[l-1]
	var t string
	switch {
	case ln.K == "keys":
		t = r.pick(keyPool[ln.A[pos]])
	case pos == 0:
		t = r.pick(namePool[ln.N])
	default:
		t = r.pick(argPool[ln.A[pos-1]])
	}
	r.texts[k] = t
	return t
}

func (r *renderer) written(d, l, pos int) string {
	ln := &r.c.Docs[d-1].Lines[l-1]
	t := r.tokText(d, l, pos)
	cls := ""
	switch {
	case ln.K == "keys":
	case pos == 0:
		if ln.N == "dq" {
			cls = "wq"
		}
	default:
		cls = ln.A[pos-1]
	}
	if alwaysQuoted[cls] || needsQuotes(t) {
		return quote(t)
	}
	if cls == "bs" && r.rnd.Intn(2) == 0 {
		return quote(t)
	}
	return t
}

// docFile returns the file a document's lines are written into (relative path).
func (r *renderer) docFile(d int) string {
	doc := &r.c.Docs[d-1]
	switch doc.Kind {
	case "file":
		return fmt.Sprintf("f%d.conf", d)
	case "subfile":
		return fmt.Sprintf("sub/f%d.conf", d)
	case "glob":
		return fmt.Sprintf("g%d/1.conf", d) // (and 2.conf)
	case "snip":
		if r.c.Opts.Snipfile {
			return "snips.conf"
		}
	}
	return "Casketfile"
}

func relTo(fromFile, to string) string {
	rel, err := filepath.Rel(filepath.Dir(fromFile), to)
	if err != nil {
		panic(err)
	}
	return rel
}

// importArg is what is written after "import" in a line that lives in hostFile.
func (r *renderer) importArg(hostFile string, target int) string {
	doc := &r.c.Docs[target-1]
	switch doc.Kind {
	case "snip":
		return fmt.Sprintf("s%d", target)
	case "glob":
		return relTo(hostFile, fmt.Sprintf("g%d/*.conf", target))
	}
	return relTo(hostFile, r.docFile(target))
}

func eolOf(s string) string {
	if s == "crlf" {
		return "\r\n"
	}
	return "\n"
}

// lines renders document d's lines [from,to) at nesting depth dp into b; hostFile is where they end up.
func (r *renderer) lines(b *strings.Builder, d, from, to, dp int, hostFile, eol string, nobrace bool) int {
	doc := &r.c.Docs[d-1]
	for i := from; i < to; i++ {
		ln := &doc.Lines[i]
		if ln.K == "close" {
			dp--
			if dp == 0 && nobrace {
				continue // the single server block has no braces
			}
		}
		ind := strings.Repeat("\t", dp)
		sep := " "
		tail := ""
		switch ln.Ly {
		case 1:
			tail = " # note { } \"quoted\" import x"
		case 2:
			b.WriteString(eol)
		case 3:
			b.WriteString(ind + "# comment line: import nothing }" + eol)
		case 4:
			sep, tail, ind = " \t  ", "  \t", ind+"  "
		case 5:
			ind = ""
		}
		var toks []string
		switch ln.K {
		case "keys":
			for p := range ln.A {
				w := r.written(d, i+1, p)
				if p < len(ln.A)-1 {
					switch ln.N {
					case "cm":
						w += ","
					case "cn":
						w += "," + eol + ind // the next address may follow on the next line
					}
				}
				toks = append(toks, w)
			}
			if !nobrace {
				toks = append(toks, "{")
			}
		case "dir":
			toks = append(toks, r.written(d, i+1, 0))
			for p := range ln.A {
				toks = append(toks, r.written(d, i+1, p+1))
			}
			if ln.O {
				toks = append(toks, "{")
			}
		case "close":
			toks = []string{"}"}
		case "imp":
			toks = []string{"import", r.importArg(hostFile, ln.T)}
		}
		line := ""
		for k, w := range toks {
			if k > 0 && !strings.HasSuffix(toks[k-1], eol+ind) {
				line += sep
			}
			line += w
		}
		b.WriteString(ind + line + tail + eol)
		if ln.K == "keys" || (ln.K == "dir" && ln.O) {
			dp++
		}
	}
	return dp
}

// render lays the documents out over files.
func (r *renderer) render() {
	c := r.c
	root := len(c.Docs)
	r.files = map[string]string{}
	// fragments
	var snips strings.Builder
	snipEol := eolOf(c.Opts.Eol)
	for d := 1; d < root; d++ {
		doc := &c.Docs[d-1]
		eol := eolOf(doc.Eol)
		var b strings.Builder
		switch doc.Kind {
		case "snip":
			host := r.docFile(d)
			fmt.Fprintf(&snips, "(s%d) {%s", d, snipEol)
			r.lines(&snips, d, 0, len(doc.Lines), 1, host, snipEol, false)
			snips.WriteString("}" + snipEol)
		case "glob":
			dp := r.lines(&b, d, 0, doc.Cut, 1, r.docFile(d), eol, false)
			r.files[fmt.Sprintf("g%d/1.conf", d)] = b.String()
			b.Reset()
			r.lines(&b, d, doc.Cut, len(doc.Lines), dp, r.docFile(d), eol, false)
			r.files[fmt.Sprintf("g%d/2.conf", d)] = b.String()
		default:
			r.lines(&b, d, 0, len(doc.Lines), 1, r.docFile(d), eol, false)
			r.files[r.docFile(d)] = b.String()
		}
	}
	// the root: snippet definitions first (inline or in snips.conf), then the server blocks,
	// the last Topsplit of them in conf.d/blocks.conf
	eol := eolOf(c.Opts.Eol)
	rd := &c.Docs[root-1]
	var main strings.Builder
	if snips.Len() > 0 {
		if c.Opts.Snipfile {
			r.files["snips.conf"] = snips.String()
			main.WriteString("import snips.conf" + eol)
		} else {
			main.WriteString(snips.String())
		}
	}
	split := len(rd.Lines)
	if c.Opts.Topsplit > 0 {
		seen := 0
		for i := len(rd.Lines) - 1; i >= 0; i-- {
			if rd.Lines[i].K == "keys" {
				seen++
				if seen == c.Opts.Topsplit {
					split = i
					break
				}
			}
		}
	}
	r.lines(&main, root, 0, split, 0, "Casketfile", eol, c.Opts.Nobrace)
	if split < len(rd.Lines) {
		var b strings.Builder
		r.lines(&b, root, split, len(rd.Lines), 0, "conf.d/blocks.conf", eol, false)
		r.files["conf.d/blocks.conf"] = b.String()
		main.WriteString("import conf.d/blocks.conf" + eol)
	}
	r.files["Casketfile"] = main.String()
	// some files end without a line break; no file is left with zero bytes (importing a
	// zero-byte file is reported as "EOF" by doSingleImport - outside the domain of the property)
	for _, name := range sortedKeys(r.files) {
		if t := strings.TrimRight(r.files[name], "\r\n"); t != "" && r.rnd.Intn(3) == 0 {
			r.files[name] = t
		}
		if r.files[name] == "" {
			r.files[name] = "\n"
		}
	}
}

func sortedKeys(m map[string]string) []string {
	ks := make([]string, 0, len(m))
	for k := range m {
		ks = append(ks, k)
	}
	sort.Strings(ks)
	return ks
}

// expected turns the specification's Expected (line references) into token texts.
func (r *renderer) expected() []xBlock {
	var out []xBlock
	for _, eb := range r.c.Exp {
		xb := xBlock{Keys: []string{}, Dirs: map[string][]xTok{}}
		kl := &r.c.Docs[eb.Keys[0]-1].Lines[eb.Keys[1]-1]
		for p := range kl.A {
			xb.Keys = append(xb.Keys, expandEnv(r.tokText(eb.Keys[0], eb.Keys[1], p)))
		}
		for _, unit := range eb.Units {
			name := expandEnv(r.tokText(unit[0][0], unit[0][1], 0))
			for ui, ref := range unit {
				ln := &r.c.Docs[ref[0]-1].Lines[ref[1]-1]
				if ln.K == "close" {
					xb.Dirs[name] = append(xb.Dirs[name], xTok{Text: "}"})
					continue
				}
				first := r.tokText(ref[0], ref[1], 0)
				t := xTok{Text: expandEnv(first)}
				if ui == 0 && t.Text != first {
					// the token of the directive NAME: the statement speaks of the directive's argument
					// tokens; Parse files the directive under the expanded name and keeps the name token as written
					t.Alt = first
				}
				xb.Dirs[name] = append(xb.Dirs[name], t)
				for p := range ln.A {
					xb.Dirs[name] = append(xb.Dirs[name], xTok{Text: expandEnv(r.tokText(ref[0], ref[1], p+1))})
				}
				if ln.O {
					xb.Dirs[name] = append(xb.Dirs[name], xTok{Text: "{"})
				}
			}
		}
		out = append(out, xb)
	}
	return out
}

func (c *gramCase) shape() string {
	var parts []string
	for d := range c.Docs {
		doc := &c.Docs[d]
		s := doc.Kind + "["
		for _, l := range doc.Lines {
			switch l.K {
			case "keys":
				s += "K" + fmt.Sprint(len(l.A)) + l.N + " "
			case "dir":
				s += l.N + "(" + strings.Join(l.A, ",") + ")"
				if l.O {
					s += "{"
				}
				s += " "
			case "close":
				s += "} "
			case "imp":
				s += fmt.Sprintf("import:%d ", l.T)
			}
		}
		parts = append(parts, strings.TrimSpace(s)+"]")
	}
	o := c.Opts
	return strings.Join(parts, " ") + fmt.Sprintf(" nobrace=%v snipfile=%v topsplit=%d", o.Nobrace, o.Snipfile, o.Topsplit)
}

func renderCase(c *gramCase, rnd *rand.Rand) *gramReplay {
	r := &renderer{c: c, rnd: rnd, texts: map[[3]int]string{}}
	r.render()
	gr := &gramReplay{Files: r.files, Expected: r.expected(), Shape: c.shape()}
	if rnd.Intn(2) == 0 {
		gr.Valid = []string{"d1", "d2", "d3"}
	}
	return gr
}

// ---- judging ----------------------------------------------------------------------------------

func judgeGram(gr *gramReplay, r jobResult) (clause, what string) {
	if r.Hang {
		return "nonterminating", "casketfile.Parse did not return within the deadline"
	}
	o := r.Parse[0]
	if o.Panic != "" {
		return "panic", "casketfile.Parse panicked: " + firstLines(o.Panic, 3)
	}
	if o.Err != "" {
		return "rejected", "a well-formed configuration was rejected: " + o.Err
	}
	if len(o.Blocks) != len(gr.Expected) {
		return "blocks", fmt.Sprintf("%d server blocks written, %d returned", len(gr.Expected), len(o.Blocks))
	}
	for i, xb := range gr.Expected {
		ob := o.Blocks[i]
		if fmt.Sprintf("%q", xb.Keys) != fmt.Sprintf("%q", ob.Keys) {
			return "keys", fmt.Sprintf("block %d: keys written %q, returned %q", i+1, xb.Keys, ob.Keys)
		}
		if len(ob.Dirs) != len(xb.Dirs) {
			return "directives", fmt.Sprintf("block %d: directives written %v, returned %v", i+1, dirNames(xb.Dirs), sortedDirNames(ob.Dirs))
		}
		for name, want := range xb.Dirs {
			got, ok := ob.Dirs[name]
			if !ok {
				return "directives", fmt.Sprintf("block %d: directive %q missing; returned %v", i+1, name, sortedDirNames(ob.Dirs))
			}
			if len(got) != len(want) {
				return "tokens", fmt.Sprintf("block %d directive %q: tokens written %q, returned %q", i+1, name, xTexts(want), got)
			}
			for k := range want {
				if got[k] != want[k].Text && !(want[k].Alt != "" && got[k] == want[k].Alt) {
					return "tokens", fmt.Sprintf("block %d directive %q token %d: written %q, returned %q (all: %q vs %q)", i+1, name, k+1, want[k].Text, got[k], xTexts(want), got)
				}
			}
		}
	}
	return "", ""
}

func xTexts(x []xTok) []string {
	out := make([]string, len(x))
	for i := range x {
		out[i] = x[i].Text
	}
	return out
}

func dirNames(m map[string][]xTok) []string {
	var ks []string
	for k := range m {
		ks = append(ks, k)
	}
	sort.Strings(ks)
	return ks
}

func sortedDirNames(m map[string][]string) []string {
	var ks []string
	for k := range m {
		ks = append(ks, k)
	}
	sort.Strings(ks)
	return ks
}

func (gr *gramReplay) digest() string {
	h := sha1.New()
	for _, name := range sortedKeys(gr.Files) {
		fmt.Fprintf(h, "%s\x00%s\x00", name, gr.Files[name])
	}
	fmt.Fprintf(h, "%v", gr.Valid)
	return fmt.Sprintf("%x", h.Sum(nil))[:12]
}

var gramWriteNs, gramParseNs int64

// runGram writes the imported files below a fresh directory and parses the Casketfile (whose
// text travels with the job: Parse takes the root as a reader anyway).
func (c *ctx) runGram(gr *gramReplay, tag string) (jobResult, error) {
	dir := filepath.Join(c.dir, "cfg_"+tag)
	t0 := time.Now()
	made := map[string]bool{}
	for name, content := range gr.Files {
		if name == "Casketfile" {
			continue
		}
		p := filepath.Join(dir, name)
		if d := filepath.Dir(p); !made[d] {
			if err := os.MkdirAll(d, 0o755); err != nil {
				return jobResult{}, err
			}
			made[d] = true
		}
		if err := os.WriteFile(p, []byte(content), 0o644); err != nil {
			return jobResult{}, err
		}
	}
	t1 := time.Now()
	r := c.pool.do(job{Kind: "parse", File: filepath.Join(dir, "Casketfile"), Texts: []string{gr.Files["Casketfile"]}, Valid: gr.Valid})
	t2 := time.Now()
	if len(made) > 0 {
		os.RemoveAll(dir)
	}
	atomic.AddInt64(&gramWriteNs, int64(t1.Sub(t0)+time.Since(t2)))
	atomic.AddInt64(&gramParseNs, int64(t2.Sub(t1)))
	return r, nil
}

func (c *ctx) grammarPart() {
	type src struct {
		module string
		max    int
	}
	lim := 25000
	if hx.Thorough() {
		lim = 1 << 30
	}
	rnd := hx.Rand()
	seed := hx.Seed()
	total := 0
	for _, s := range []src{{"CasketGrammar", lim}, {"CasketGrammarSim", 1 << 30}} {
		if hx.CasesPath(s.module) == "" {
			continue
		}
		cases := hx.LoadCases[gramCase](c.t, s.module)
		c.res.AddExtra("configurations_from_tlc_"+s.module, len(cases))
		todo := hx.SampleIdx(rnd, len(cases), s.max)
		total += len(todo)
		corrupted := -1
		if hx.SelfTest() && s.module == "CasketGrammar" {
			for _, i := range todo {
				if len(cases[i].Exp) > 0 && len(cases[i].Exp[0].Units) >= 2 {
					corrupted = i
					break
				}
			}
		}
		parallel(len(todo), func(k int) {
			i := todo[k]
			cs := &cases[i]
			crnd := rand.New(rand.NewSource(seed*15485863 + int64(i)*31 + int64(len(s.module))))
			gr := renderCase(cs, crnd)
			if i == corrupted {
				// corrupt the expectation: swap the first two directives' first tokens' texts
				for name, toks := range gr.Expected[0].Dirs {
					toks[0].Text += "-selftest"
					toks[0].Alt = ""
					gr.Expected[0].Dirs[name] = toks
					break
				}
			}
			r, err := c.runGram(gr, fmt.Sprintf("%s_%d", s.module, i))
			if err != nil {
				c.infraf("grammar files: %v", err)
				return
			}
			nt := ""
			if len(gr.Files) > 1 || strings.Contains(gr.Shape, "{") {
				nt = "cfg:" + gr.digest()
			}
			c.res.Count(nt)
			if k%2503 == 5 {
				c.res.Sample(map[string]interface{}{"part": "grammar", "shape": gr.Shape, "files": gr.Files, "expected": gr.Expected})
			}
			if r.Fail != "" || r.Died != "" {
				c.infraf("grammar worker: %s%s", r.Fail, r.Died)
				return
			}
			if cl, _ := judgeGram(gr, r); cl != "" {
				c.gramConfirm(gr, fmt.Sprintf("%s_%d_again", s.module, i), i == corrupted)
			}
		})
	}
	c.res.AddExtra("configurations_parsed", total)
	c.res.AddExtra("grammar_file_io_cpu_s", float64(atomic.LoadInt64(&gramWriteNs))/1e9)
	c.res.AddExtra("grammar_parse_wait_cpu_s", float64(atomic.LoadInt64(&gramParseNs))/1e9)
}

func (c *ctx) gramConfirm(gr *gramReplay, tag string, corrupted bool) {
	r, err := c.runGram(gr, tag)
	if err != nil || r.Fail != "" || r.Died != "" {
		c.infraf("grammar confirm: %v %s%s", err, r.Fail, r.Died)
		return
	}
	cl, what := judgeGram(gr, r)
	if cl == "" {
		return
	}
	if corrupted {
		c.hit("grammar")
		return
	}
	var obs interface{} = "no return within " + c.pool.timeout.String()
	if !r.Hang {
		obs = r.Parse[0]
	}
	c.res.Add(hx.Mismatch{Key: "C10/grammar/" + cl + "/cfg=" + gr.digest(), What: gr.Shape + ": " + what,
		Case: replayCase{Part: "grammar", Gram: gr}, Expected: gr.Expected, Observed: obs})
}
