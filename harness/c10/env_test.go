package c10

// Environment placeholders: "{$NAME}" and "{%NAME%}" are replaced by their values wherever they
// stand in a token - several per token, adjacent ones, values shorter and longer than the
// placeholder text, unset variables (empty). A deterministic battery (the generated grammar cases
// only pick one spelling per token by seed).

import (
	"fmt"
	"os"
	"path/filepath"
	"strings"

	"verifharness/hx"
)

func expandEnvRef(s string) string {
	for name, val := range childEnv {
		s = strings.ReplaceAll(s, "{$"+name+"}", val)
		s = strings.ReplaceAll(s, "{%"+name+"%}", val)
	}
	s = strings.ReplaceAll(s, "{$VERIF_UNSET_VARIABLE}", "")
	s = strings.ReplaceAll(s, "{%VERIF_UNSET_VARIABLE%}", "")
	return s
}

func (c *ctx) envPart() {
	forms := []string{
		"{$VERIF_E}", "pre{$VERIF_E}post", "{%VERIF_W%}", "{$VERIF_E}{%VERIF_W%}", "{$VERIF_E}{$VERIF_E}",
		"{$VERIF_E}/{$VERIF_E}", "{$VERIF_E}:{$VERIF_DIR}", "a{$VERIF_UNSET_VARIABLE}b{$VERIF_E}c", "{$VERIF_UNSET_VARIABLE}x{$VERIF_UNSET_VARIABLE}y{$VERIF_E}",
		"{%VERIF_W%}-{%VERIF_W%}", "{$VERIF_HOST}.{$VERIF_E}.{$VERIF_DIR}", "x{$VERIF_E}{$VERIF_E}{$VERIF_E}y", "{$VERIF_DIR}{$VERIF_E}", "{%VERIF_E%}{$VERIF_W}",
	}
	dir, err := os.MkdirTemp(hx.Scratch(c.t), "c10env")
	if err != nil {
		c.infraf("env part: %v", err)
		return
	}
	defer os.RemoveAll(dir)
	for _, f := range forms {
		want := expandEnvRef(f)
		// once as a server block key, once as a directive argument
		text := fmt.Sprintf("k%s {\n\tdir a%s %s\n}\n", f, f, f)
		r := c.pool.do(job{Kind: "parse", Texts: []string{text}, File: filepath.Join(dir, "Casketfile")})
		c.res.Count("env/" + f)
		if r.Fail != "" || r.Hang || r.Died != "" || len(r.Parse) != 1 {
			c.res.Add(hx.Mismatch{Key: "C10/env/no-result/" + f, What: fmt.Sprintf("parsing a token with the placeholders %q did not come back: hang=%v died=%q fail=%q", f, r.Hang, r.Died, r.Fail)})
			continue
		}
		o := r.Parse[0]
		got := "<error: " + o.Err + o.Panic + ">"
		if o.Err == "" && o.Panic == "" && len(o.Blocks) == 1 && len(o.Blocks[0].Keys) == 1 && len(o.Blocks[0].Dirs["dir"]) == 3 {
			got = o.Blocks[0].Keys[0] + " | " + strings.Join(o.Blocks[0].Dirs["dir"][1:], " ")
		}
		if exp := "k" + want + " | a" + want + " " + want; got != exp {
			c.res.Add(hx.Mismatch{Key: "C10/env/replaced/" + f, What: fmt.Sprintf("environment placeholders in %q (key \"k…\", arguments \"a…\" and bare) must be replaced by their values: expected %q, parsed %q", f, exp, got),
				Expected: exp, Observed: got})
		}
	}
}
