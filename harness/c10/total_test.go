package c10

import (
	"fmt"
	"math/rand"
	"os"
	"path/filepath"
	"reflect"
	"strings"

	"verifharness/hx"
)

// totalCase is one state of ParserTotal.tla: a token-kind string, two letters per token.
type totalCase struct {
	S        string `json:"s"`
	Unclosed bool   `json:"unclosed"`
	Layout   int    `json:"layout,omitempty"` // replay: the second layout used
}

var totalWords = map[byte]string{
	'w': "alpha", 'c': "beta,", 'o': "{", 'x': "}", 'i': "import", 'p': "(s)", 's': "s",
	'f': "inc.conf", 'q': `""`, 'e': "{$VERIF_E}",
	'z': "{$VERIF_UNSET_VARIABLE}", // the placeholder of a variable that is not set: expands to nothing
}

// layouts of insignificant white space: [same-line separator, line break]
var totalLayouts = [][2]string{
	{" ", "\n"},         // canonical
	{"\t", "\r\n"},      // tabs, CRLF
	{"  ", "\n\n"},      // blank lines
	{" ", " # note\n"},  // trailing comments
	{" \t ", "\n\t"},    // indentation
	{" ", "\n# x {\n "}, // comment lines (with a brace inside the comment)
}

func (tc *totalCase) text(layout int) string {
	l := totalLayouts[layout]
	var b strings.Builder
	for i := 0; i+1 < len(tc.S); i += 2 {
		if i > 0 {
			if tc.S[i+1] == 'n' {
				b.WriteString(l[1])
			} else {
				b.WriteString(l[0])
			}
		}
		b.WriteString(totalWords[tc.S[i]])
	}
	if len(tc.S) > 0 && layout%2 == 1 {
		b.WriteString(l[1]) // some layouts end with a line break, some do not
	}
	return b.String()
}

func judgeTotalOne(o parseOut, dir string) (clause, what string) {
	if o.Panic != "" {
		return "panic", "casketfile.Parse panicked: " + firstLines(o.Panic, 3)
	}
	if o.Err != "" {
		m := fileLineRe.FindStringSubmatch(o.Err)
		if m == nil {
			return "error-without-position", "the error does not name a file and line: " + o.Err
		}
		if !strings.HasPrefix(m[1], dir) {
			return "error-without-position", "the error names a file that is not part of the configuration: " + o.Err
		}
		return "", ""
	}
	for _, b := range o.Blocks {
		if len(b.Keys) == 0 {
			return "block-without-key", "Parse returned a server block without keys"
		}
	}
	return "", ""
}

func judgeTotal(r jobResult, dir string) (clause, what string) {
	if r.Hang {
		return "nonterminating", "casketfile.Parse did not return within the deadline"
	}
	for _, o := range r.Parse {
		if cl, w := judgeTotalOne(o, dir); cl != "" {
			return cl, w
		}
	}
	a, b := r.Parse[0], r.Parse[1]
	if (a.Err == "") != (b.Err == "") {
		return "layout", fmt.Sprintf("the outcome depends on insignificant layout: canonical layout -> err=%q, other layout -> err=%q", a.Err, b.Err)
	}
	if a.Err == "" && !reflect.DeepEqual(a.Blocks, b.Blocks) {
		return "layout", fmt.Sprintf("the blocks depend on insignificant layout: %v vs %v", a.Blocks, b.Blocks)
	}
	return "", ""
}

func (c *ctx) totalDir() (string, error) {
	dir := filepath.Join(c.dir, "total")
	if err := os.MkdirAll(dir, 0o755); err != nil {
		return "", err
	}
	return dir, os.WriteFile(filepath.Join(dir, "inc.conf"), []byte("dirf argf\n"), 0o644)
}

func (c *ctx) runTotal(tc *totalCase, dir string, layout int) jobResult {
	return c.pool.do(job{Kind: "parse", File: filepath.Join(dir, "Casketfile"), Texts: []string{tc.text(0), tc.text(layout)}})
}

func (c *ctx) parserTotalPart() {
	cases := hx.LoadCases[totalCase](c.t, "ParserTotal")
	c.res.AddExtra("token_strings_from_tlc", len(cases))
	dir, err := c.totalDir()
	if err != nil {
		c.infraf("parser-total fixture: %v", err)
		return
	}
	seed := hx.Seed()
	selftest := hx.SelfTest()
	errors, oks := 0, 0
	parallel(len(cases), func(i int) {
		tc := &cases[i]
		rnd := rand.New(rand.NewSource(seed*104729 + int64(i)))
		layout := 1 + rnd.Intn(len(totalLayouts)-1)
		r := c.runTotal(tc, dir, layout)
		nt := ""
		if strings.ContainsAny(tc.S, "oxip") {
			nt = "tok:" + tc.S
		}
		c.res.Count(nt)
		if i%9973 == 11 {
			c.res.Sample(map[string]interface{}{"part": "parser-total", "tokens": tc.S, "text": tc.text(0), "other_layout": tc.text(layout)})
		}
		if r.Fail != "" || r.Died != "" {
			c.infraf("parser-total worker: %s%s", r.Fail, r.Died)
			return
		}
		if !r.Hang {
			c.mu.Lock()
			if r.Parse[0].Err != "" {
				errors++
			} else {
				oks++
			}
			c.mu.Unlock()
			if selftest && i == 4242%len(cases) {
				// corrupt the observation's counterpart: pretend the other layout must fail
				r.Parse[1].Err = ""
				r.Parse[1].Blocks = append(r.Parse[1].Blocks, block{Keys: []string{"selftest"}})
				if cl, _ := judgeTotal(r, dir); cl != "" {
					c.hit("parser-total")
				}
				return
			}
		}
		if cl, _ := judgeTotal(r, dir); cl != "" {
			tt := *tc
			tt.Layout = layout
			c.totalConfirm(&tt, dir)
		}
	})
	c.res.AddExtra("token_strings_parsed_ok", oks)
	c.res.AddExtra("token_strings_rejected_with_file_line", errors)
}

func (c *ctx) totalConfirm(tc *totalCase, dir string) {
	if dir == "" {
		var err error
		if dir, err = c.totalDir(); err != nil {
			c.infraf("parser-total fixture: %v", err)
			return
		}
	}
	if tc.Layout <= 0 || tc.Layout >= len(totalLayouts) {
		tc.Layout = 1
	}
	r := c.runTotal(tc, dir, tc.Layout)
	if r.Fail != "" || r.Died != "" {
		c.infraf("parser-total confirm: %s%s", r.Fail, r.Died)
		return
	}
	cl, what := judgeTotal(r, dir)
	if cl == "" {
		return
	}
	key := "C10/total/" + cl + "/tokens=" + tc.S
	if cl == "layout" {
		key += fmt.Sprintf("/layout=%d", tc.Layout)
	}
	var obs interface{} = "no return within " + c.pool.timeout.String()
	if !r.Hang {
		obs = r.Parse
	}
	c.res.Add(hx.Mismatch{Key: key, What: fmt.Sprintf("text %q: %s", tc.text(0), what), Case: replayCase{Part: "parser-total", Total: tc},
		Expected: "returns in bounded time with server blocks or an error naming file:line, the same for every insignificant layout", Observed: obs})
}
