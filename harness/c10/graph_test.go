package c10

import (
	"fmt"
	"math/rand"
	"os"
	"path/filepath"
	"reflect"
	"regexp"
	"strings"
	"sync/atomic"

	"verifharness/hx"
)

// graphCase is one terminal state of ImportGraph.tla.
type graphCase struct {
	Files  []string   `json:"files"`
	Snips  []string   `json:"snips"`
	G      [][]string `json:"g"` // import targets of node i (files first, then snippets), in order
	Cyclic bool       `json:"cyclic"`
	Exp    []string   `json:"exp"`              // markers of the textual inclusion (acyclic graphs)
	Layout int        `json:"layout,omitempty"` // replay: the layout variant that failed
}

func (g *graphCase) nodes() []string { return append(append([]string{}, g.Files...), g.Snips...) }

func (g *graphCase) canon() string {
	var parts []string
	for i, n := range g.nodes() {
		parts = append(parts, n+">"+strings.Join(g.G[i], ","))
	}
	return strings.Join(parts, ";")
}

func graphTarget(y string) string {
	switch {
	case y == "F1":
		return "Casketfile"
	case strings.HasPrefix(y, "F"):
		return y + ".conf"
	}
	return y
}

// layouts: 0 = tabs + LF, 1 = CRLF + spaces, 2 = comments and blank lines
func graphBody(g *graphCase, i int, layout int) string {
	x := g.nodes()[i]
	ind, eol := "\t", "\n"
	switch layout {
	case 1:
		ind, eol = "  ", "\r\n"
	case 2:
		ind, eol = "    ", "  # trailing comment\n\n"
	}
	var b strings.Builder
	b.WriteString(ind + "m b" + x + eol)
	for _, y := range g.G[i] {
		b.WriteString(ind + "import " + graphTarget(y) + eol)
	}
	b.WriteString(ind + "m e" + x + eol)
	return b.String()
}

// write renders the graph into dir and returns the path of the root Casketfile.
func (g *graphCase) write(dir string, layout int) (string, error) {
	if err := os.MkdirAll(dir, 0o755); err != nil {
		return "", err
	}
	eol := "\n"
	if layout == 1 {
		eol = "\r\n"
	}
	var root strings.Builder
	nf := len(g.Files)
	for k, s := range g.Snips {
		root.WriteString("(" + s + ") {" + eol + graphBody(g, nf+k, layout) + "}" + eol)
	}
	root.WriteString("site {" + eol + graphBody(g, 0, layout) + "}" + eol)
	rootPath := filepath.Join(dir, "Casketfile")
	if err := os.WriteFile(rootPath, []byte(root.String()), 0o644); err != nil {
		return "", err
	}
	for i := 1; i < nf; i++ {
		if err := os.WriteFile(filepath.Join(dir, g.Files[i]+".conf"), []byte(graphBody(g, i, layout)), 0o644); err != nil {
			return "", err
		}
	}
	return rootPath, nil
}

func (g *graphCase) expectedBlocks() []block {
	toks := []string{}
	for _, m := range g.Exp {
		toks = append(toks, "m", m)
	}
	return []block{{Keys: []string{"site"}, Dirs: map[string][]string{"m": toks}}}
}

// an error "naming a file and line": <file>:<line> - ...
var fileLineRe = regexp.MustCompile(`^(.+?):(\d+) - `)

// judgeGraph returns "" if the observation satisfies the property for this graph.
func judgeGraph(g *graphCase, r jobResult) (clause, what string) {
	if r.Hang {
		return "nonterminating", "casketfile.Parse did not return within the deadline"
	}
	o := r.Parse[0]
	if o.Panic != "" {
		return "panic", "casketfile.Parse panicked: " + firstLines(o.Panic, 3)
	}
	if g.Cyclic {
		if o.Err == "" {
			return "cycle-accepted", "an import cycle reachable from the Casketfile must be reported as an error; Parse returned success"
		}
		if !fileLineRe.MatchString(o.Err) {
			return "error-without-position", "the error does not name a file and line: " + o.Err
		}
		return "", ""
	}
	if o.Err != "" {
		return "acyclic-rejected", "acyclic imports must parse; Parse returned: " + o.Err
	}
	if !reflect.DeepEqual(o.Blocks, g.expectedBlocks()) {
		return "inclusion", fmt.Sprintf("the tokens differ from the textual inclusion of the imports: want %v, observed %v", g.expectedBlocks(), o.Blocks)
	}
	return "", ""
}

func (c *ctx) runGraph(g *graphCase, layout int, tag string) (jobResult, error) {
	dir := filepath.Join(c.dir, "g_"+tag)
	rootPath, err := g.write(dir, layout)
	if err != nil {
		return jobResult{}, err
	}
	defer os.RemoveAll(dir)
	return c.pool.do(job{Kind: "parse", File: rootPath, Disk: true}), nil
}

func (c *ctx) importGraphPart() {
	var cases []graphCase
	for _, m := range []string{"ImportGraph", "ImportGraph2"} {
		if hx.CasesPath(m) != "" {
			cases = append(cases, hx.LoadCases[graphCase](c.t, m)...)
		}
	}
	c.res.AddExtra("import_graphs_from_tlc", len(cases))
	seed := hx.Seed()
	corrupted := -1
	if hx.SelfTest() {
		for i := range cases {
			if !cases[i].Cyclic && len(cases[i].Exp) > 2 {
				cases[i].Exp = append(append([]string{}, cases[i].Exp[:1]...), cases[i].Exp[2:]...) // drop one expected marker
				corrupted = i
				break
			}
		}
	}
	var hangs, skipped, cyclic int64
	parallel(len(cases), func(i int) {
		g := &cases[i]
		if g.Cyclic {
			atomic.AddInt64(&cyclic, 1)
			if atomic.LoadInt64(&hangs) >= 6 {
				atomic.AddInt64(&skipped, 1) // enough non-terminating parses seen: each one costs a deadline
				return
			}
		}
		rnd := rand.New(rand.NewSource(seed*7919 + int64(i)))
		layout := rnd.Intn(3)
		r, err := c.runGraph(g, layout, fmt.Sprint(i))
		if err != nil {
			c.infraf("import graph files: %v", err)
			return
		}
		nt := ""
		if g.Cyclic || len(g.Exp) > 4 {
			nt = "graph:" + g.canon()
		}
		c.res.Count(nt)
		if i%1231 == 7 {
			c.res.Sample(map[string]interface{}{"part": "imports", "graph": g.canon(), "cyclic": g.Cyclic, "expected_markers": g.Exp})
		}
		if r.Fail != "" || r.Died != "" {
			c.infraf("import graph worker: %s%s", r.Fail, r.Died)
			return
		}
		if clause, _ := judgeGraph(g, r); clause != "" {
			if clause == "nonterminating" {
				atomic.AddInt64(&hangs, 1)
			}
			gg := *g
			gg.Layout = layout
			c.graphConfirm(&gg, fmt.Sprintf("%d_again", i), i == corrupted)
		}
	})
	c.res.AddExtra("import_graphs_cyclic", cyclic)
	if skipped > 0 {
		c.res.AddExtra("import_graphs_skipped_after_6_hangs", skipped)
	}
}

func (c *ctx) graphConfirm(g *graphCase, tag string, corrupted bool) {
	r, err := c.runGraph(g, g.Layout, tag)
	if err != nil || r.Fail != "" || r.Died != "" {
		c.infraf("import graph confirm: %v %s%s", err, r.Fail, r.Died)
		return
	}
	clause, what := judgeGraph(g, r)
	if clause == "" {
		return
	}
	if corrupted {
		c.hit("imports")
		return
	}
	var obs interface{} = "no return within " + c.pool.timeout.String()
	if !r.Hang {
		obs = r.Parse[0]
	}
	c.res.Add(hx.Mismatch{Key: "C10/imports/" + clause + "/graph=" + g.canon(), What: "import graph " + g.canon() + ": " + what,
		Case: replayCase{Part: "imports", Graph: g}, Expected: map[string]interface{}{"cyclic_so_error": g.Cyclic, "markers": g.Exp}, Observed: obs})
}
