package c10

import (
	"fmt"
	"math/rand"
	"reflect"
	"strings"

	"verifharness/hx"
)

// lexCase is one terminal state of Lexer.tla: the input as a string of class letters and
// the tokens (texts over the same letters) and token lines the state machine produced.
type lexCase struct {
	I string   `json:"i"`
	T []string `json:"t"`
	L []int    `json:"l"`
}

type lexReplay struct {
	Case     lexCase `json:"case"`
	Spelling string  `json:"spelling"`
}

// spelling maps the class letters of Lexer.tla to concrete characters.
type spelling struct {
	Name    string
	S, A, C string
	BOM     bool
}

var spellings = []spelling{
	{Name: "space", S: " ", A: "x", C: "{"},
	{Name: "tab", S: "\t", A: "é", C: "}"},
	{Name: "nbsp", S: "\u00a0", A: ",", C: "{"},
	{Name: "vt", S: "\v", A: "日", C: "}"},
	{Name: "ff", S: "\f", A: "x", C: ","},
	{Name: "nel", S: "\u0085", A: "\U0001F600", C: "{"},
	{Name: "emsp", S: "\u2003", A: "a", C: "}"},
	{Name: "space+bom", S: " ", A: "x", C: "{", BOM: true},
	{Name: "tab+bom", S: "\t", A: "é", C: "}", BOM: true},
	{Name: "bomchar+bom", S: " ", A: "\ufeff", C: "{", BOM: true}, // a BOM that is not the first rune is an ordinary character
	{Name: "vt+bom", S: "\v", A: "日", C: ",", BOM: true},
}

func spellingByName(n string) *spelling {
	for i := range spellings {
		if spellings[i].Name == n {
			return &spellings[i]
		}
	}
	return nil
}

func (sp *spelling) text(classes string) string {
	var b strings.Builder
	for _, ch := range classes {
		switch ch {
		case 's':
			b.WriteString(sp.S)
		case 'n':
			b.WriteByte('\n')
		case 'r':
			b.WriteByte('\r')
		case 'q':
			b.WriteByte('"')
		case 'b':
			b.WriteByte('\\')
		case 'h':
			b.WriteByte('#')
		case 'a':
			b.WriteString(sp.A)
		case 'c':
			b.WriteString(sp.C)
		default:
			panic("unknown class " + string(ch))
		}
	}
	return b.String()
}

func (sp *spelling) input(classes string) string {
	if sp.BOM {
		return "\ufeff" + sp.text(classes)
	}
	return sp.text(classes)
}

func (sp *spelling) expected(c *lexCase) lexOut {
	o := lexOut{T: []string{}, L: []int{}}
	for i, t := range c.T {
		o.T = append(o.T, sp.text(t))
		o.L = append(o.L, c.L[i])
	}
	return o
}

func lexSame(want, got lexOut) bool {
	return got.Panic == "" && reflect.DeepEqual(want.T, got.T) && reflect.DeepEqual(want.L, got.L)
}

func lexKey(classes, spell string) string {
	return fmt.Sprintf("C10/lexer/input=%s/spelling=%s", classes, spell)
}

func (c *ctx) lexerPart() {
	cases := hx.LoadCases[lexCase](c.t, "Lexer")
	c.res.AddExtra("lexer_cases_from_tlc", len(cases))
	if hx.CasesPath("LexerSim") != "" { // longer strings from random simulation of the same machine
		sim := hx.LoadCases[lexCase](c.t, "LexerSim")
		c.res.AddExtra("lexer_simulated_cases_from_tlc", len(sim))
		cases = append(cases, sim...)
	}
	seed := hx.Seed()
	corrupted := -1
	if hx.SelfTest() {
		for i := range cases {
			if len(cases[i].T) >= 2 {
				cc := cases[i]
				cc.L = append([]int(nil), cc.L...)
				cc.L[1]++ // corrupt one expected token line
				cases[i] = cc
				corrupted = i
				break
			}
		}
	}
	calls := 0
	var callsMu = &c.mu
	parallel(len(cases), func(i int) {
		cs := &cases[i]
		rnd := rand.New(rand.NewSource(seed*1000003 + int64(i)))
		var use []*spelling
		if hx.Thorough() {
			for k := range spellings {
				use = append(use, &spellings[k])
			}
		} else {
			use = append(use, &spellings[0], &spellings[1+rnd.Intn(6)], &spellings[7+rnd.Intn(4)])
		}
		j := job{Kind: "lex"}
		for _, sp := range use {
			j.Texts = append(j.Texts, sp.input(cs.I))
		}
		r := c.pool.do(j)
		nt := ""
		if strings.ContainsAny(cs.I, "qbh") {
			nt = "lex:" + cs.I
		}
		c.res.Count(nt)
		if i%4099 == 0 {
			c.res.Sample(map[string]interface{}{"part": "lexer", "classes": cs.I, "input": use[0].input(cs.I), "expected_tokens": use[0].expected(cs).T, "expected_lines": cs.L})
		}
		callsMu.Lock()
		calls += len(use)
		callsMu.Unlock()
		if r.Fail != "" || r.Died != "" {
			c.infraf("lexer worker: %s%s", r.Fail, r.Died)
			return
		}
		if r.Hang {
			// find the spelling that does not come back
			for _, sp := range use {
				c.lexConfirm(cs, sp, i == corrupted)
			}
			return
		}
		for k, sp := range use {
			if !lexSame(sp.expected(cs), r.Lex[k]) {
				c.lexConfirm(cs, sp, i == corrupted)
			}
		}
	})
	c.res.AddExtra("lexer_calls", calls)
}

// lexConfirm re-runs one input in a fresh call and reports a reproduced disagreement.
func (c *ctx) lexConfirm(cs *lexCase, sp *spelling, corrupted bool) {
	r := c.pool.do(job{Kind: "lex", Texts: []string{sp.input(cs.I)}})
	want := sp.expected(cs)
	switch {
	case r.Fail != "" || r.Died != "":
		c.infraf("lexer worker: %s%s", r.Fail, r.Died)
		return
	case r.Hang:
		if corrupted {
			return
		}
		c.res.Add(hx.Mismatch{Key: lexKey(cs.I, sp.Name) + "/hang", What: fmt.Sprintf("the lexer did not terminate within %v on input %q", c.pool.timeout, sp.input(cs.I)),
			Case: replayCase{Part: "lexer", Lex: &lexReplay{Case: *cs, Spelling: sp.Name}}, Expected: want, Observed: "no return"})
		return
	case lexSame(want, r.Lex[0]):
		return
	}
	if corrupted {
		c.hit("lexer")
		return
	}
	what := fmt.Sprintf("input %q must lex to tokens %q on lines %v; observed %q on lines %v", sp.input(cs.I), want.T, want.L, r.Lex[0].T, r.Lex[0].L)
	if r.Lex[0].Panic != "" {
		what = fmt.Sprintf("input %q: the lexer panicked: %s", sp.input(cs.I), r.Lex[0].Panic)
	}
	c.res.Add(hx.Mismatch{Key: lexKey(cs.I, sp.Name), What: what,
		Case: replayCase{Part: "lexer", Lex: &lexReplay{Case: *cs, Spelling: sp.Name}}, Expected: want, Observed: r.Lex[0]})
}

func (c *ctx) lexReplayOne(lr *lexReplay) {
	sp := spellingByName(lr.Spelling)
	if sp == nil {
		c.infraf("replay: unknown spelling %q", lr.Spelling)
		return
	}
	c.lexConfirm(&lr.Case, sp, false)
}
