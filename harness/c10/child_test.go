// Worker processes for C10.
//
// "The parser terminates" is part of the statement, and a goroutine that spins inside
// casketfile.Parse cannot be stopped from outside. Every call of the lexer / parser is
// therefore made in a child process (the test binary re-executed with VERIF_C10_CHILD=1,
// jobs as JSON lines on stdin, results as JSON lines on fd 3). A child that does not
// answer within the deadline is killed: that is the observation "did not terminate" for
// exactly the job it was working on, not a time-out of the harness.
package c10

import (
	"bufio"
	"encoding/json"
	"fmt"
	"os"
	"os/exec"
	"runtime/debug"
	"strings"
	"sync"
	"testing"
	"time"

	"github.com/tmpim/casket/casketfile"

	"verifharness/hx"
)

// the environment the child runs the parser in (placeholders used by the generated configurations)
var childEnv = map[string]string{
	"VERIF_HOST": "env.test",
	"VERIF_E":    "val",
	"VERIF_W":    "winval",
	"VERIF_DIR":  "d3",
	"VERIF_INC":  "inc.conf",
}

type job struct {
	ID    int      `json:"id"`
	Kind  string   `json:"kind"`            // "lex" | "parse"
	Texts []string `json:"texts,omitempty"` // lex: the inputs; parse: the inputs, all parsed under File
	File  string   `json:"file,omitempty"`  // parse: file name handed to casketfile.Parse (absolute)
	Disk  bool     `json:"disk,omitempty"`  // parse: read the text from File instead of Texts
	Valid []string `json:"valid,omitempty"` // parse: validDirectives (nil = any)
}

type lexOut struct {
	T     []string `json:"t"`
	L     []int    `json:"l"`
	Panic string   `json:"panic,omitempty"`
}

type block struct {
	Keys []string            `json:"keys"`
	Dirs map[string][]string `json:"dirs"`
}

type parseOut struct {
	Blocks []block `json:"blocks"`
	Err    string  `json:"err,omitempty"`
	Panic  string  `json:"panic,omitempty"`
}

type jobResult struct {
	ID    int        `json:"id"`
	Lex   []lexOut   `json:"lex,omitempty"`
	Parse []parseOut `json:"parse,omitempty"`
	Fail  string     `json:"fail,omitempty"` // the child could not do the job (infrastructure)
	Hang  bool       `json:"hang,omitempty"` // set by the parent: no answer within the deadline
	Died  string     `json:"died,omitempty"` // set by the parent: the child went away (fatal error, OOM ...)
}

// ---------------------------------------------------------------- child side

func lexOne(text string) (out lexOut) {
	out.T, out.L = []string{}, []int{}
	defer func() {
		if r := recover(); r != nil {
			out.Panic = fmt.Sprint(r)
		}
	}()
	d := casketfile.NewDispenser("Casketfile", strings.NewReader(text))
	for d.Next() {
		out.T = append(out.T, d.Val())
		out.L = append(out.L, d.Line())
	}
	return
}

func parseOne(file string, text string, valid []string) (out parseOut) {
	defer func() {
		if r := recover(); r != nil {
			out.Panic = fmt.Sprintf("%v\n%s", r, firstLines(string(debug.Stack()), 14))
		}
	}()
	blocks, err := casketfile.Parse(file, strings.NewReader(text), valid)
	if err != nil {
		out.Err = err.Error()
		if out.Err == "" {
			out.Err = "(empty error message)"
		}
	}
	out.Blocks = []block{}
	for _, b := range blocks {
		bb := block{Keys: append([]string{}, b.Keys...), Dirs: map[string][]string{}}
		for d, toks := range b.Tokens {
			ts := make([]string, len(toks))
			for i, t := range toks {
				ts[i] = t.Text
			}
			bb.Dirs[d] = ts
		}
		out.Blocks = append(out.Blocks, bb)
	}
	return
}

func firstLines(s string, n int) string {
	ls := strings.Split(s, "\n")
	if len(ls) > n {
		ls = ls[:n]
	}
	return strings.Join(ls, "\n")
}

// TestC10Child is the worker loop; it does nothing unless started by the pool.
func TestC10Child(t *testing.T) {
	if os.Getenv("VERIF_C10_CHILD") != "1" {
		t.Skip("worker entry point of TestC10")
	}
	for k, v := range childEnv {
		os.Setenv(k, v)
	}
	out := os.NewFile(3, "results")
	w := bufio.NewWriter(out)
	sc := bufio.NewScanner(os.Stdin)
	sc.Buffer(make([]byte, 1<<20), 1<<26)
	for sc.Scan() {
		var j job
		var r jobResult
		if err := json.Unmarshal(sc.Bytes(), &j); err != nil {
			r.Fail = "bad job: " + err.Error()
		} else {
			r.ID = j.ID
			switch j.Kind {
			case "lex":
				for _, s := range j.Texts {
					r.Lex = append(r.Lex, lexOne(s))
				}
			case "parse":
				texts := j.Texts
				if j.Disk {
					b, err := os.ReadFile(j.File)
					if err != nil {
						r.Fail = err.Error()
					}
					texts = []string{string(b)}
				}
				for _, s := range texts {
					r.Parse = append(r.Parse, parseOne(j.File, s, j.Valid))
				}
			default:
				r.Fail = "unknown job kind " + j.Kind
			}
		}
		b, _ := json.Marshal(&r)
		w.Write(b)
		w.WriteByte('\n')
		w.Flush()
	}
	os.Exit(0)
}

// ---------------------------------------------------------------- parent side

type worker struct {
	cmd   *exec.Cmd
	in    *bufio.Writer
	inC   interface{ Close() error }
	lines chan []byte // one result line each; closed when the child goes away
}

type pool struct {
	free    chan *worker
	timeout time.Duration
	mu      sync.Mutex
	spawned int
	killed  int
	nextID  int
}

func newPool(n int, timeout time.Duration) *pool {
	p := &pool{free: make(chan *worker, n), timeout: timeout}
	for i := 0; i < n; i++ {
		p.free <- nil // spawned lazily
	}
	return p
}

func (p *pool) spawn() (*worker, error) {
	cmd := exec.Command(os.Args[0], "-test.run=^TestC10Child$", "-test.timeout=0")
	hx.DieWithParent(cmd)
	cmd.Env = append(os.Environ(), "VERIF_C10_CHILD=1", "GOMAXPROCS=2", "VERIF_OUT=", "GOMEMLIMIT=1GiB")
	stdin, err := cmd.StdinPipe()
	if err != nil {
		return nil, err
	}
	pr, pw, err := os.Pipe()
	if err != nil {
		return nil, err
	}
	cmd.ExtraFiles = []*os.File{pw}
	cmd.Stdout, cmd.Stderr = nil, nil
	if err := cmd.Start(); err != nil {
		pr.Close()
		pw.Close()
		return nil, err
	}
	pw.Close()
	w := &worker{cmd: cmd, in: bufio.NewWriter(stdin), inC: stdin, lines: make(chan []byte, 4)}
	go func() {
		sc := bufio.NewScanner(pr)
		sc.Buffer(make([]byte, 1<<20), 1<<26)
		for sc.Scan() {
			w.lines <- append([]byte(nil), sc.Bytes()...)
		}
		close(w.lines)
		pr.Close()
	}()
	p.mu.Lock()
	p.spawned++
	p.mu.Unlock()
	return w, nil
}

func (w *worker) kill() {
	w.inC.Close()
	w.cmd.Process.Kill()
	go w.cmd.Wait()
}

// do runs one job in some worker process and waits for its answer (or the deadline).
func (p *pool) do(j job) jobResult {
	w := <-p.free
	p.mu.Lock()
	p.nextID++
	j.ID = p.nextID
	p.mu.Unlock()
	var err error
	if w == nil {
		if w, err = p.spawn(); err != nil {
			p.free <- nil
			return jobResult{ID: j.ID, Fail: "cannot start worker: " + err.Error()}
		}
	}
	b, _ := json.Marshal(&j)
	w.in.Write(b)
	w.in.WriteByte('\n')
	if err := w.in.Flush(); err != nil {
		w.kill()
		p.free <- nil
		return jobResult{ID: j.ID, Died: "write to worker: " + err.Error()}
	}
	tm := time.NewTimer(p.timeout)
	defer tm.Stop()
	select {
	case line, ok := <-w.lines:
		if !ok {
			w.kill()
			p.free <- nil
			return jobResult{ID: j.ID, Died: "worker process exited while working on the job"}
		}
		var r jobResult
		if err := json.Unmarshal(line, &r); err != nil || r.ID != j.ID {
			w.kill()
			p.free <- nil
			return jobResult{ID: j.ID, Fail: fmt.Sprintf("protocol error: %v (id %d, want %d)", err, r.ID, j.ID)}
		}
		p.free <- w
		return r
	case <-tm.C:
		w.kill()
		p.mu.Lock()
		p.killed++
		p.mu.Unlock()
		p.free <- nil
		return jobResult{ID: j.ID, Hang: true}
	}
}

// close stops all workers (call when no job is in flight).
func (p *pool) close() {
	for i := 0; i < cap(p.free); i++ {
		if w := <-p.free; w != nil {
			w.inC.Close()
			done := make(chan struct{})
			go func() { w.cmd.Wait(); close(done) }()
			select {
			case <-done:
			case <-time.After(2 * time.Second):
				w.cmd.Process.Kill()
			}
		}
	}
}
