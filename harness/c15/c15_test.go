// C15 - automatic HTTPS is applied exactly to qualifying sites, with redirects.
//
// Replay of the configurations TLC enumerated from specs/AutoHTTPS.tla against the real code,
// without sockets and without ACME: the case's Casketfile is executed by the real parser,
// InspectServerBlocks (standardizeAddress) and the real bind/tls/header setup functions through
// casket.VerifC15Execute (parsing callbacks skipped); httpserver.VerifC15AutoHTTPS then runs the
// stages activateHTTPS is composed of (markQualifiedForAutoHTTPS, enableAutoHTTPS(cfgs,false),
// makePlaintextRedirects) and MakeServers, handing back a snapshot of every site's address and
// TLS flags after each stage. Each snapshot is compared with the state of the specification
// after the corresponding action; the servers of the HTTP port are then asked the requests of
// the specification's response table through Server.ServeHTTP.
package c15

import (
	"bufio"
	"bytes"
	"crypto/ecdsa"
	"crypto/elliptic"
	"crypto/rand"
	"crypto/x509"
	"crypto/x509/pkix"
	"encoding/json"
	"encoding/pem"
	"fmt"
	"math/big"
	mrand "math/rand"
	"net"
	"net/http"
	"net/http/httptest"
	"os"
	"path/filepath"
	"reflect"
	"strconv"
	"strings"
	"sync"
	"testing"
	"time"

	"github.com/caddyserver/certmagic"
	"github.com/tmpim/casket"
	"github.com/tmpim/casket/caskethttp/httpserver"
	"verifharness/hx"
)

// ---- the case as TLC prints it ------------------------------------------------------------

type decl struct {
	Scheme string `json:"scheme"`
	Host   string `json:"host"`
	Port   string `json:"port"`
	Path   string `json:"path"`
	TLS    string `json:"tls"`
	Bind   string `json:"bind"`
}

type ccase struct {
	Moved  bool            `json:"moved"`
	Decl   []decl          `json:"decl"`
	Err    string          `json:"err"`
	Dir    [][]interface{} `json:"dir"`    // full flags per site after the directives
	Mark   []bool          `json:"mark"`   // managed flag per site
	Enable [][]interface{} `json:"enable"` // scheme, port, enabled
	Redir  [][]interface{} `json:"redir"`  // full flags of the synthesised sites
	Final  [][]interface{} `json:"final"`  // scheme, port, enabled (all sites)
	Resp   [][]interface{} `json:"resp"`   // bind, request host, path token, answering site, kind, target port

	// replay / selftest only
	Share bool   `json:"share,omitempty"` // render two sites with equal tls and bind as one block
	Upper bool   `json:"upper,omitempty"` // spell DNS hosts with upper-case letters
	Only  *probe `json:"only,omitempty"`  // restrict the request battery to one request
}

type probe struct {
	Bind string `json:"bind"`
	Host string `json:"host_header"`
	URI  string `json:"uri"`
	By   int    `json:"by"`
	Kind string `json:"kind"`
	TP   string `json:"tp"`
}

// asite is the abstract view of one site configuration (the fields of the spec's cfg records
// that can be observed from outside the redirect closure).
type asite struct {
	Scheme, Host, Port, Path, Bind string
	En, Mg, Mn, Ss, Nr, Od         bool
	Em                             string
	Syn                            bool
}

func fullFlags(f []interface{}) asite {
	s := func(i int) string { v, _ := f[i].(string); return v }
	b := func(i int) bool { v, _ := f[i].(bool); return v }
	return asite{Scheme: s(0), Host: s(1), Port: s(2), Path: s(3), Bind: s(4), En: b(5), Mg: b(6), Mn: b(7), Ss: b(8),
		Nr: b(9), Od: b(10), Em: s(11), Syn: b(12)}
}

func applyBrief(a asite, f []interface{}) asite {
	a.Scheme, _ = f[0].(string)
	a.Port, _ = f[1].(string)
	a.En, _ = f[2].(bool)
	return a
}

// expected snapshots after each stage, rebuilt from the deltas TLC printed
func (c *ccase) expected() (dir, mark, enable, redir, final []asite) {
	for _, f := range c.Dir {
		dir = append(dir, fullFlags(f))
	}
	for i, a := range dir {
		if i < len(c.Mark) {
			a.Mg = c.Mark[i]
		}
		mark = append(mark, a)
	}
	for i, a := range mark {
		if i < len(c.Enable) {
			a = applyBrief(a, c.Enable[i])
		}
		enable = append(enable, a)
	}
	redir = append(redir, enable...)
	for _, f := range c.Redir {
		redir = append(redir, fullFlags(f))
	}
	if len(c.Final) == len(redir) {
		for i, a := range redir {
			final = append(final, applyBrief(a, c.Final[i]))
		}
	}
	return
}

// ---- concretisation -------------------------------------------------------------------------

type ports struct{ http, https int }

var (
	stdPorts   = ports{80, 443}
	movedPorts = ports{18080, 18443}
)

func (c *ccase) ports() ports {
	if c.Moved {
		return movedPorts
	}
	return stdPorts
}

func (p ports) render(tok string) string {
	switch tok {
	case "H":
		return strconv.Itoa(p.http)
	case "S":
		return strconv.Itoa(p.https)
	case "dflt":
		return httpserver.DefaultPort
	}
	return tok
}

func (p ports) abstract(port string) string {
	switch port {
	case strconv.Itoa(p.http):
		return "H"
	case strconv.Itoa(p.https):
		return "S"
	case httpserver.DefaultPort:
		return "dflt"
	}
	return port
}

func bracket(h string) string {
	if strings.Contains(h, ":") {
		return "[" + h + "]"
	}
	return h
}

func (d decl) address(p ports, upper bool) string {
	h := bracket(d.Host)
	if upper {
		h = strings.ToUpper(h)
	}
	s := ""
	if d.Scheme != "" {
		s = d.Scheme + "://"
	}
	s += h
	if d.Port != "" {
		s += ":" + p.render(d.Port)
	}
	return s + d.Path
}

func (d decl) String() string {
	return fmt.Sprintf("%s{tls=%s,bind=%s}", d.address(ports{-1, -2}, false), d.TLS, d.Bind)
}

// canonical identity of a configuration (no port numbers: H and S stay symbolic)
func (c *ccase) ident() string {
	var parts []string
	for _, d := range c.Decl {
		s := d.Scheme
		if s != "" {
			s += "://"
		}
		s += bracket(d.Host)
		if d.Port != "" {
			s += ":" + d.Port
		}
		s += d.Path
		parts = append(parts, fmt.Sprintf("%s{tls=%s,bind=%s}", s, d.TLS, d.Bind))
	}
	m := "std"
	if c.Moved {
		m = "moved"
	}
	return m + "/" + strings.Join(parts, "+")
}

type fixtures struct{ cert, key, loadDir string }

var (
	fixOnce sync.Once
	fix     fixtures
	fixErr  error
)

func getFixtures(t testing.TB) (fixtures, error) {
	fixOnce.Do(func() {
		dir, err := os.MkdirTemp(hx.Scratch(t), "c15fix")
		if err != nil {
			fixErr = err
			return
		}
		key, err := ecdsa.GenerateKey(elliptic.P256(), rand.Reader)
		if err != nil {
			fixErr = err
			return
		}
		tmpl := &x509.Certificate{SerialNumber: big.NewInt(15), Subject: pkix.Name{CommonName: "c15 fixture"},
			NotBefore: time.Now().Add(-time.Hour), NotAfter: time.Now().Add(240 * time.Hour),
			DNSNames:  []string{"fixture.site.org"},
			KeyUsage:  x509.KeyUsageDigitalSignature, ExtKeyUsage: []x509.ExtKeyUsage{x509.ExtKeyUsageServerAuth}}
		der, err := x509.CreateCertificate(rand.Reader, tmpl, tmpl, &key.PublicKey, key)
		if err != nil {
			fixErr = err
			return
		}
		kb, err := x509.MarshalECPrivateKey(key)
		if err != nil {
			fixErr = err
			return
		}
		certPEM := pem.EncodeToMemory(&pem.Block{Type: "CERTIFICATE", Bytes: der})
		keyPEM := pem.EncodeToMemory(&pem.Block{Type: "EC PRIVATE KEY", Bytes: kb})
		fix = fixtures{cert: filepath.Join(dir, "cert.pem"), key: filepath.Join(dir, "key.pem"), loadDir: filepath.Join(dir, "load")}
		if fixErr = os.WriteFile(fix.cert, certPEM, 0o600); fixErr != nil {
			return
		}
		if fixErr = os.WriteFile(fix.key, keyPEM, 0o600); fixErr != nil {
			return
		}
		if fixErr = os.Mkdir(fix.loadDir, 0o700); fixErr != nil {
			return
		}
		fixErr = os.WriteFile(filepath.Join(fix.loadDir, "bundle.pem"), append(append([]byte{}, certPEM...), keyPEM...), 0o600)
	})
	return fix, fixErr
}

const askURL = "http://127.0.0.1:9/allowed"

func tlsLines(v string, fx fixtures) string {
	switch v {
	case "absent":
		return ""
	case "off":
		return "\ttls off\n"
	case "email":
		return "\ttls hostmaster@site.org\n"
	case "selfsigned":
		return "\ttls self_signed\n"
	case "manual":
		return fmt.Sprintf("\ttls %s %s\n", fx.cert, fx.key)
	case "load":
		return fmt.Sprintf("\ttls {\n\t\tload %s\n\t}\n", fx.loadDir)
	case "ondemand":
		return fmt.Sprintf("\ttls {\n\t\task %s\n\t}\n", askURL)
	case "manualod":
		return fmt.Sprintf("\ttls %s %s {\n\t\task %s\n\t}\n", fx.cert, fx.key, askURL)
	case "noredir":
		return "\ttls {\n\t\tno_redirect\n\t}\n"
	}
	panic("unknown tls variant " + v)
}

// shared: render the two sites as one server block with two keys
func (c *ccase) shared() bool {
	return c.Share && len(c.Decl) == 2 && c.Decl[0].TLS == c.Decl[1].TLS && c.Decl[0].Bind == c.Decl[1].Bind
}

func (c *ccase) casketfile(fx fixtures) string {
	p := c.ports()
	var b strings.Builder
	body := func(d decl, marker string) {
		if d.Bind != "" {
			fmt.Fprintf(&b, "\tbind %s\n", d.Bind)
		}
		b.WriteString(tlsLines(d.TLS, fx))
		if marker != "" {
			fmt.Fprintf(&b, "\theader / X-Site %s\n", marker)
		}
	}
	if c.shared() {
		// one block, two keys: the situation MakeServers' "TLS disabled for explicitly-HTTP sites"
		// exists for; both sites carry the same marker
		fmt.Fprintf(&b, "%s, %s {\n", c.Decl[0].address(p, c.Upper), c.Decl[1].address(p, c.Upper))
		body(c.Decl[0], "shared")
		b.WriteString("}\n")
		return b.String()
	}
	for i, d := range c.Decl {
		fmt.Fprintf(&b, "%s {\n", d.address(p, c.Upper && i == 0))
		body(d, "s"+strconv.Itoa(i+1))
		b.WriteString("}\n")
	}
	return b.String()
}

func (c *ccase) abstractSite(s httpserver.VerifC15Site) asite {
	p := c.ports()
	em := s.ACMEEmail
	if em != "" && em != "off" && em != "self_signed" {
		em = "addr"
	}
	return asite{Scheme: s.Scheme, Host: s.Host, Port: p.abstract(s.Port), Path: s.Path, Bind: s.ListenHost,
		En: s.Enabled, Mg: s.Managed, Mn: s.Manual, Ss: s.SelfSigned, Nr: s.NoRedirect, Od: s.OnDemand, Em: em, Syn: !s.Declared}
}

func (c *ccase) abstractAll(ss []httpserver.VerifC15Site) []asite {
	out := make([]asite, 0, len(ss))
	for _, s := range ss {
		out = append(out, c.abstractSite(s))
	}
	return out
}

// ---- one evaluation ---------------------------------------------------------------------------

type finding struct {
	clause   string // parse-error | directives | managed | enable | redirect-sites | servers | final | response
	detail   string // canonical detail for the key (no run-dependent text)
	what     string
	expected interface{}
	observed interface{}
	only     *probe
}

func classifyErr(err error) string {
	if err == nil {
		return ""
	}
	s := err.Error()
	switch {
	case strings.Contains(s, "scheme and port violate convention"):
		return "convention"
	case strings.Contains(s, "duplicate site key"), strings.Contains(s, "duplicate site address"):
		return "dup"
	case strings.Contains(s, "cannot multiplex"):
		return "mix"
	case strings.Contains(s, "self-signed: certificate has no names"):
		return "nonames"
	}
	return "other: " + s
}

var hostSpellCount = 4

// spellings of the Host header for an abstract request host
func hostSpellings(rh string, p ports) []string {
	h := bracket(rh)
	return []string{h, strings.ToUpper(h), h + ":" + strconv.Itoa(p.http), h + ":9999"}
}

func hostOnly(hostHeader string) string {
	// what "the same host" means for a Location: the Host header without its port,
	// an IPv6 literal keeps its brackets
	if strings.HasPrefix(hostHeader, "[") {
		if i := strings.Index(hostHeader, "]"); i > 0 {
			return hostHeader[:i+1]
		}
	}
	if i := strings.LastIndex(hostHeader, ":"); i >= 0 {
		return hostHeader[:i]
	}
	return hostHeader
}

var uris = map[string][]string{
	"root": {"/", "/?", "/x/y.html?q=1&r=2", "//d//s", "/%2e%2e/a%20b?x=%2F&y=%3f", "/x?next=http://zzz.org/"},
	"deep": {"/p", "/p/x?q=1", "/p/%2e%2e/z", "/pq/r"},
}

// serve sends one request as it would be read off the wire; abs selects the absolute-form
// request-target (RFC 7230 5.3.2: "GET http://host/path HTTP/1.1"), which a server must accept
// and which names the same host, path and query as the origin-form with that Host header.
func serve(hs *httpserver.Server, hostHeader, uri string, abs bool) (*httptest.ResponseRecorder, error) {
	target := uri
	if abs {
		target = "http://" + hostHeader + uri
	}
	raw := "GET " + target + " HTTP/1.1\r\nHost: " + hostHeader + "\r\nUser-Agent: c15\r\n\r\n"
	req, err := http.ReadRequest(bufio.NewReader(strings.NewReader(raw)))
	if err != nil {
		return nil, err
	}
	req.RemoteAddr = "192.0.2.7:40000"
	rec := httptest.NewRecorder()
	hs.ServeHTTP(rec, req)
	return rec, nil
}

type observed struct {
	Status   int    `json:"status"`
	Location string `json:"location"`
	XSite    string `json:"x_site"`
}

func checkResponse(c *ccase, pr probe, rec *httptest.ResponseRecorder) (bool, string, observed) {
	o := observed{Status: rec.Code, Location: rec.Header().Get("Location"), XSite: rec.Header().Get("X-Site")}
	switch pr.Kind {
	case "redirect":
		want := "https://" + hostOnly(pr.Host)
		if pr.TP != "" {
			want += ":" + c.ports().render(pr.TP)
		}
		want += pr.URI
		return o.Status == http.StatusMovedPermanently && o.Location == want && o.XSite == "", "301 Location: " + want, o
	case "site":
		marker := "s" + strconv.Itoa(pr.By)
		if c.shared() {
			marker = "shared"
		}
		return o.XSite == marker && o.Status != http.StatusMovedPermanently, "answered by the declared plaintext site " + marker + " (no redirect)", o
	default:
		return o.Status == http.StatusNotFound && o.XSite == "" && o.Location == "", "404, no such site", o
	}
}

func serverAddr(bind string, port int) string {
	a, err := net.ResolveTCPAddr("tcp", net.JoinHostPort(bind, strconv.Itoa(port)))
	if err != nil {
		return net.JoinHostPort(bind, strconv.Itoa(port))
	}
	return a.String()
}

// evaluate runs the case against the real code. full: every host spelling and URI; otherwise a seeded choice.
func evaluate(c *ccase, fx fixtures, rnd *mrand.Rand, full bool) (fs []finding, nreq int, infra error) {
	p := c.ports()
	if certmagic.HTTPPort != p.http || certmagic.HTTPSPort != p.https {
		return nil, 0, fmt.Errorf("harness: port mode not set for case %s", c.ident())
	}
	cf := c.casketfile(fx)
	inst, ctx, err := casket.VerifC15Execute(casket.CasketfileInput{Contents: []byte(cf), Filepath: "Casketfile", ServerTypeName: "http"}, true)
	defer func() {
		if inst != nil {
			inst.ShutdownCallbacks()
		}
	}()
	got := classifyErr(err)
	wantParse := c.Err
	if wantParse == "mix" {
		wantParse = ""
	}
	if got != wantParse {
		return []finding{{clause: "parse-error", what: fmt.Sprintf("loading the site addresses: expected error class %q, observed %q", wantParse, got),
			expected: wantParse, observed: got}}, 0, nil
	}
	if err != nil {
		return nil, 0, nil
	}
	st, err := httpserver.VerifC15AutoHTTPS(ctx)
	if err != nil {
		return []finding{{clause: "enable", what: "enableAutoHTTPS returned an error: " + err.Error(), observed: err.Error()}}, 0, nil
	}
	dir, mark, enable, redir, final := c.expected()
	cmp := func(clause string, want []asite, have []httpserver.VerifC15Site) bool {
		h := c.abstractAll(have)
		if reflect.DeepEqual(want, h) {
			return true
		}
		what := fmt.Sprintf("site list after stage %q differs from the specification", clause)
		detail := ""
		if len(want) != len(h) {
			what += fmt.Sprintf(": %d sites expected, %d observed", len(want), len(h))
			detail = fmt.Sprintf("count=%d", len(h))
		} else {
			for i := range want {
				if want[i] != h[i] {
					what += fmt.Sprintf(": site %d expected %+v observed %+v", i+1, want[i], h[i])
					detail = fmt.Sprintf("site=%d", i+1)
					break
				}
			}
		}
		fs = append(fs, finding{clause: clause, detail: detail, what: what, expected: want, observed: h})
		return false
	}
	if !cmp("directives", dir, st.Directives) || !cmp("managed", mark, st.Marked) || !cmp("enable", enable, st.Enabled) ||
		!cmp("redirect-sites", redir, st.Redirects) {
		return fs, 0, nil
	}
	gotSrv := classifyErr(st.ServerErr)
	wantSrv := ""
	if c.Err == "mix" {
		wantSrv = "mix"
	}
	if gotSrv != wantSrv {
		return []finding{{clause: "servers", what: fmt.Sprintf("MakeServers: expected error class %q, observed %q", wantSrv, gotSrv), expected: wantSrv, observed: gotSrv}}, 0, nil
	}
	if st.ServerErr != nil {
		return nil, 0, nil
	}
	if !cmp("final", final, st.Final) {
		return fs, 0, nil
	}
	// requests on the listeners of the HTTP port
	servers := map[string]*httpserver.Server{}
	for _, s := range st.Servers {
		if hs, ok := s.(*httpserver.Server); ok {
			servers[hs.Address()] = hs
		}
	}
	ask := func(pr probe) {
		hs := servers[serverAddr(pr.Bind, p.http)]
		if hs == nil {
			fs = append(fs, finding{clause: "response", detail: "no-listener", what: fmt.Sprintf("no server for the HTTP port on bind host %q", pr.Bind), only: &pr})
			return
		}
		for _, abs := range []bool{false, true} {
			rec, err := serve(hs, pr.Host, pr.URI, abs)
			if err != nil {
				infra = fmt.Errorf("harness request %q %q: %v", pr.Host, pr.URI, err)
				return
			}
			nreq++
			ok, want, o := checkResponse(c, pr, rec)
			if !ok {
				pp := pr
				form, suffix := "origin-form", ""
				if abs {
					form, suffix = "absolute-form", "/form=abs"
				}
				fs = append(fs, finding{clause: "response", detail: fmt.Sprintf("host=%s/uri=%s%s", strings.Replace(pr.Host, ":"+strconv.Itoa(p.http), ":H", 1), pr.URI, suffix),
					what: fmt.Sprintf("request Host=%q %s (%s request-target) on the HTTP port (bind %q): expected %s; observed status=%d Location=%q X-Site=%q", pr.Host, pr.URI, form, pr.Bind, want, o.Status, o.Location, o.XSite),
					expected: want, observed: o, only: &pp})
				break
			}
		}
	}
	if c.Only != nil {
		ask(*c.Only)
		return fs, nreq, infra
	}
	for _, r := range c.Resp {
		bind, _ := r[0].(string)
		rh, _ := r[1].(string)
		pt, _ := r[2].(string)
		byf, _ := r[3].(float64)
		kind, _ := r[4].(string)
		tp, _ := r[5].(string)
		sp := hostSpellings(rh, p)
		us := uris[pt]
		if !full {
			sp = []string{sp[0], sp[1+rnd.Intn(len(sp)-1)]}
			i := rnd.Intn(len(us))
			us = []string{us[i], us[(i+1+rnd.Intn(len(us)-1))%len(us)]}
		}
		for _, h := range sp {
			for _, u := range us {
				ask(probe{Bind: bind, Host: h, URI: u, By: int(byf), Kind: kind, TP: tp})
				if len(fs) > 0 || infra != nil {
					return fs, nreq, infra
				}
			}
		}
	}
	return fs, nreq, infra
}

func mmKey(c *ccase, f finding) string {
	k := "C15/" + f.clause + "/" + c.ident()
	if f.detail != "" {
		k += "/" + f.detail
	}
	return k
}

func nontrivial(c *ccase) string {
	if c.Err != "" || len(c.Redir) > 0 || len(c.Decl) > 1 {
		return c.ident()
	}
	for _, d := range c.Decl {
		if d.TLS != "absent" || d.Scheme != "" || d.Port != "" || d.Bind != "" {
			return c.ident()
		}
	}
	return ""
}

func setPorts(p ports) { certmagic.HTTPPort, certmagic.HTTPSPort = p.http, p.https }

func TestC15(t *testing.T) {
	hx.Quiet()
	res := hx.NewResult("TestC15", "one case = one Casketfile of 1-2 site addresses (scheme x host class x port x path, tls variant, bind) enumerated by TLC from AutoHTTPS.tla, "+
		"in the standard (80/443) or a moved HTTP/HTTPS port setting; compared: the site list with all TLS flags after the directives, after markQualifiedForAutoHTTPS, "+
		"enableAutoHTTPS, makePlaintextRedirects and MakeServers, the error class of rejected configurations, and status/Location/answering site of requests "+
		"(several Host spellings and URIs) sent to every HTTP-port server; non-trivial = anything but a bare port-less host without tls directive")
	defer res.Write(t)
	defer setPorts(movedPorts)

	fx, err := getFixtures(t)
	if err != nil {
		res.Infra = "fixtures: " + err.Error()
		return
	}
	os.Setenv("CASKETPATH", filepath.Join(hx.Scratch(t), "c15assets"))

	if rp, ok := hx.LoadReplay[ccase](t); ok {
		setPorts(rp.ports())
		for i := 0; i < 2; i++ {
			res.Count("replay" + strconv.Itoa(i))
		}
		fs, _, infra := evaluate(&rp, fx, mrand.New(mrand.NewSource(1)), true)
		if infra != nil {
			res.Infra = infra.Error()
			return
		}
		for _, f := range fs {
			res.Add(hx.Mismatch{Key: mmKey(&rp, f), What: "replayed: " + f.what, Case: rp, Expected: f.expected, Observed: f.observed})
		}
		return
	}

	cases := hx.LoadCases[ccase](t, "AutoHTTPS")
	res.AddExtra("configurations_from_tlc", len(cases))
	rnd := hx.Rand()
	// rendering choices per case (seeded)
	for i := range cases {
		cases[i].Share = rnd.Intn(2) == 0
		cases[i].Upper = rnd.Intn(3) == 0
	}

	var (
		mu          sync.Mutex
		requests    int
		infra       error
		selftestHit int
		selftested  int
	)
	full := hx.Thorough()
	stats := map[string]int{}
	runBatch := func(idx []int) {
		jobs := make(chan int)
		var wg sync.WaitGroup
		for w := 0; w < 12; w++ {
			wg.Add(1)
			wrnd := mrand.New(mrand.NewSource(hx.Seed()*1000 + int64(w)))
			go func() {
				defer wg.Done()
				for i := range jobs {
					c := &cases[i]
					if hx.SelfTest() {
						cc, ok := corrupt(c, i)
						if !ok {
							continue
						}
						mu.Lock()
						selftested++
						mu.Unlock()
						fs, _, _ := evaluate(cc, fx, wrnd, true)
						if len(fs) > 0 {
							mu.Lock()
							selftestHit++
							mu.Unlock()
						}
						continue
					}
					fs, n, inf := evaluate(c, fx, wrnd, full)
					mu.Lock()
					requests += n
					if inf != nil && infra == nil {
						infra = inf
					}
					mu.Unlock()
					res.Count(nontrivial(c))
					tally(c, &mu, stats)
					if i%4001 == 0 {
						res.Sample(map[string]interface{}{"configuration": c.ident(), "casketfile": c.casketfile(fixtures{"cert.pem", "key.pem", "loaddir"}),
							"expected_error": c.Err, "expected_managed": c.Mark, "expected_final_scheme_port_tls": c.Final, "expected_responses": c.Resp})
					}
					for _, f := range fs {
						confirm(res, c, f, fx)
					}
				}
			}()
		}
		for _, i := range idx {
			jobs <- i
		}
		close(jobs)
		wg.Wait()
	}
	var std, moved []int
	for i := range cases {
		if cases[i].Moved {
			moved = append(moved, i)
		} else {
			std = append(std, i)
		}
	}
	setPorts(stdPorts)
	runBatch(std)
	setPorts(movedPorts)
	runBatch(moved)

	res.AddExtra("requests_to_http_port_servers", requests)
	res.AddExtra("case_statistics", stats)
	res.AddExtra("configurations_standard_ports", len(std))
	res.AddExtra("configurations_moved_ports", len(moved))
	res.Replayed = res.Evaluations
	if infra != nil {
		res.Infra = infra.Error()
	}
	if hx.SelfTest() {
		res.AddExtra("selftest_corrupted", selftested)
		res.AddExtra("selftest_noticed", selftestHit)
		if selftested == 0 || selftestHit != selftested {
			res.Infra = fmt.Sprintf("selftest: %d corrupted expectations, only %d noticed", selftested, selftestHit)
		}
	}
}

// corrupt flips one expected field of the case (selftest): which field depends on the index.
func corrupt(c *ccase, i int) (*ccase, bool) {
	b, _ := json.Marshal(c)
	var cc ccase
	if err := json.NewDecoder(bytes.NewReader(b)).Decode(&cc); err != nil {
		return nil, false
	}
	switch i % 4 {
	case 0: // managed flag
		if c.Err != "" || len(cc.Mark) == 0 {
			return nil, false
		}
		cc.Mark[0] = !cc.Mark[0]
	case 1: // one redirect site more or less
		if c.Err != "" {
			return nil, false
		}
		if len(cc.Redir) > 0 {
			cc.Redir = cc.Redir[:len(cc.Redir)-1]
			cc.Final = cc.Final[:len(cc.Final)-1]
		} else {
			return nil, false
		}
	case 2: // the port in Location
		found := false
		for _, r := range cc.Resp {
			if r[4] == "redirect" {
				if r[5] == "" {
					r[5] = "8080"
				} else {
					r[5] = ""
				}
				found = true
				break
			}
		}
		if !found {
			return nil, false
		}
	case 3: // error class
		if c.Err != "" {
			return nil, false
		}
		cc.Err = "convention"
	}
	return &cc, true
}

// confirm re-runs the case in isolation (fresh instance, fresh fixtures are not needed); only a
// reproduced finding is reported.
func confirm(res *hx.Result, c *ccase, f finding, fx fixtures) {
	cc := *c
	cc.Only = f.only
	fs, _, infra := evaluate(&cc, fx, mrand.New(mrand.NewSource(1)), true)
	if infra != nil {
		return
	}
	for _, g := range fs {
		if g.clause == f.clause && g.detail == f.detail {
			res.Add(hx.Mismatch{Key: mmKey(c, g), What: g.what + "\n" + cc.casketfile(fixtures{"cert.pem", "key.pem", "loaddir"}), Case: cc, Expected: g.expected, Observed: g.observed})
			return
		}
	}
}

// tally records how often the interesting situations occur among the replayed cases
// (a guard against vacuous passes: every class must be populated).
func tally(c *ccase, mu *sync.Mutex, st map[string]int) {
	mu.Lock()
	defer mu.Unlock()
	if c.Err != "" {
		st["rejected:"+c.Err]++
		return
	}
	st["accepted"]++
	for _, m := range c.Mark {
		if m {
			st["sites_managed"]++
		} else {
			st["sites_not_managed"]++
		}
	}
	st["redirect_sites"] += len(c.Redir)
	if len(c.Redir) == 0 {
		st["configs_without_redirect_site"]++
	}
	for _, r := range c.Resp {
		k, _ := r[4].(string)
		st["responses_"+k]++
	}
}
