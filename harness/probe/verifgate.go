package probe

// verifgate <gen> [failstartup|panicsetup]: registers OnStartup / OnShutdown callbacks on the instance
// that call the harness's Gate function (callback gates: the harness can observe, and act
// inside, the two windows of a reload that nothing else exposes) and optionally fail startup.

import (
	"errors"
	"strconv"
	"sync"

	"github.com/tmpim/casket"
	"github.com/tmpim/casket/caskethttp/httpserver"
)

var (
	gateMu sync.RWMutex
	gateFn func(point string, gen int)
)

// SetGate installs the function called from the callbacks ("startup", "shutdown").
func SetGate(f func(point string, gen int)) { gateMu.Lock(); gateFn = f; gateMu.Unlock() }

func callGate(point string, gen int) {
	gateMu.RLock()
	f := gateFn
	gateMu.RUnlock()
	if f != nil {
		f(point, gen)
	}
}

func init() {
	httpserver.RegisterDevDirective("verifgate", "")
	casket.RegisterPlugin("verifgate", casket.Plugin{ServerType: "http", Action: func(c *casket.Controller) error {
		gen, fail := 0, false
		for c.Next() {
			args := c.RemainingArgs()
			if len(args) < 1 {
				return c.ArgErr()
			}
			var err error
			gen, err = strconv.Atoi(args[0])
			if err != nil {
				return c.Err("verifgate: bad generation")
			}
			fail = len(args) > 1 && args[1] == "failstartup"
			if len(args) > 1 && args[1] == "panicsetup" {
				var m map[string]int
				m["scripted panic in a directive's setup function"] = gen
			}
		}
		c.OnStartup(func() error {
			callGate("startup", gen)
			if fail {
				return errors.New("scripted startup failure")
			}
			return nil
		})
		c.OnShutdown(func() error {
			callGate("shutdown", gen)
			return nil
		})
		c.OnRestartFailed(func() error {
			callGate("restartfailed", gen)
			return nil
		})
		return nil
	}})
}
