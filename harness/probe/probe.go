// Package probe registers test-only directives through casket's public plugin API.
//
//	veriffallback            marks the site as a designated fallback site (SiteConfig.FallbackSite)
package probe

import (
	"github.com/tmpim/casket"
	"github.com/tmpim/casket/caskethttp/httpserver"
)

func init() {
	httpserver.RegisterDevDirective("veriffallback", "")
	casket.RegisterPlugin("veriffallback", casket.Plugin{
		ServerType: "http",
		Action: func(c *casket.Controller) error {
			for c.Next() {
			}
			httpserver.GetConfig(c).FallbackSite = true
			return nil
		},
	})
}
