package probe

// verifprobe: a test-only innermost middleware whose behaviour is scripted per request by the
// X-Probe request header (ops separated by ';'):
//
//	hdr:Name=Value   set a response header          status:N     WriteHeader(N)
//	write:N          write N pattern bytes           text:S       write the literal S
//	sleep:MS         sleep MS milliseconds       sleepctx:MS  the same, but give up (499) when the request context is cancelled
//	flush            http.Flusher.Flush              read:K       read the request body in chunks of K
//	report           write {"read":n,"err":"…","sum":"…"} (JSON) as the body (status 200 unless set)
//	ret:S            return (S, nil)                 reterr:S     return (S, error "probe error")
//	panic[:err|abort|runtime]   panic with a string / an error / http.ErrAbortHandler / a run-time error            next         call the next handler and return its result
//
// Without the header (or with verifprobe not in the path scope) the next handler runs.
// Usage in a Casketfile:  verifprobe [path]

import (
	"crypto/sha1"
	"encoding/hex"
	"encoding/json"
	"errors"
	"io"
	"net/http"
	"strconv"
	"strings"
	"time"

	"github.com/tmpim/casket"
	"github.com/tmpim/casket/caskethttp/httpserver"
)

func init() {
	httpserver.RegisterDevDirective("verifprobe", "")
	casket.RegisterPlugin("verifprobe", casket.Plugin{ServerType: "http", Action: setupProbe})
}

func setupProbe(c *casket.Controller) error {
	scope := "/"
	for c.Next() {
		args := c.RemainingArgs()
		if len(args) > 0 {
			scope = args[0]
		}
	}
	httpserver.GetConfig(c).AddMiddleware(func(next httpserver.Handler) httpserver.Handler {
		return probeHandler{next: next, scope: scope}
	})
	return nil
}

type probeHandler struct {
	next  httpserver.Handler
	scope string
}

// Pattern returns the n deterministic bytes "write:N" produces.
func Pattern(n int) []byte {
	b := make([]byte, n)
	for i := range b {
		b[i] = byte('a' + i%26)
	}
	return b
}

func (p probeHandler) ServeHTTP(w http.ResponseWriter, r *http.Request) (int, error) {
	script := r.Header.Get("X-Probe")
	if script == "" || !httpserver.Path(r.URL.Path).Matches(p.scope) {
		return p.next.ServeHTTP(w, r)
	}
	var nread int64
	var rerr error
	h := sha1.New()
	for _, op := range strings.Split(script, ";") {
		name, arg := op, ""
		if i := strings.IndexByte(op, ':'); i >= 0 {
			name, arg = op[:i], op[i+1:]
		}
		switch name {
		case "hdr":
			kv := strings.SplitN(arg, "=", 2)
			if len(kv) == 2 {
				w.Header().Add(kv[0], kv[1])
			}
		case "status":
			n, _ := strconv.Atoi(arg)
			w.WriteHeader(n)
		case "write":
			n, _ := strconv.Atoi(arg)
			w.Write(Pattern(n))
		case "text":
			w.Write([]byte(arg))
		case "sleep":
			ms, _ := strconv.Atoi(arg)
			time.Sleep(time.Duration(ms) * time.Millisecond)
		case "sleepctx":
			// like a handler that watches the request context (proxy, fastcgi, websocket do)
			ms, _ := strconv.Atoi(arg)
			select {
			case <-time.After(time.Duration(ms) * time.Millisecond):
			case <-r.Context().Done():
				return 499, r.Context().Err()
			}
		case "flush":
			if f, ok := w.(http.Flusher); ok {
				f.Flush()
			}
		case "read":
			k, _ := strconv.Atoi(arg)
			if k <= 0 {
				k = 512
			}
			buf := make([]byte, k)
			for rerr == nil {
				var n int
				n, rerr = r.Body.Read(buf)
				nread += int64(n)
				h.Write(buf[:n])
			}
		case "report":
			e := ""
			if rerr != nil && rerr != io.EOF {
				e = rerr.Error()
			}
			b, _ := json.Marshal(map[string]interface{}{"read": nread, "err": e, "sum": hex.EncodeToString(h.Sum(nil)),
				"is_max_bytes": rerr == httpserver.ErrMaxBytesExceeded})
			w.Header().Set("Content-Type", "application/json")
			w.Write(b)
		case "ret":
			n, _ := strconv.Atoi(arg)
			return n, nil
		case "reterr":
			n, _ := strconv.Atoi(arg)
			return n, errors.New("probe error")
		case "panic":
			switch arg {
			case "err":
				panic(errors.New("probe panic (error value)"))
			case "abort":
				panic(http.ErrAbortHandler)
			case "runtime":
				var m map[string]int
				m["x"] = 1 // assignment to entry in nil map: a runtime.Error
			}
			panic("probe panic")
		case "next":
			return p.next.ServeHTTP(w, r)
		}
	}
	return 0, nil
}
