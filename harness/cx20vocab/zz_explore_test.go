package cx20vocab

import (
	"bufio"
	"crypto/tls"
	"fmt"
	"io"
	"net"
	"net/http"
	"os"
	"strings"
	"testing"
	"time"
)

// TestZZ is an experiment helper (not run by the driver): raw request heads separated by ';;', line
// breaks written as '|'; a head starting with "tls12:" / "tls13:" / "tls13c:" (client certificate) goes to the TLS listener.
//
//	ZZ_NAMES=path,uri ZZ_REQS='GET / HTTP/1.1|Host: a.test||' go test -tags verif -run TestZZ -v ./cx20vocab/
func TestZZ(t *testing.T) {
	if os.Getenv("ZZ_REQS") == "" {
		t.Skip()
	}
	names := strings.Split(os.Getenv("ZZ_NAMES"), ",")
	fx, err := startFixture(t, names)
	if err != nil {
		t.Fatalf("fixture: %v", err)
	}
	defer fx.stop()
	if os.Getenv("ZZ_SHOW") != "" {
		t.Log(fx.casketfile)
	}
	for _, rq := range strings.Split(os.Getenv("ZZ_REQS"), ";;") {
		addr := fmt.Sprintf("127.0.0.1:%d", fx.plainPort)
		var c net.Conn
		if strings.HasPrefix(rq, "tls") {
			f := strings.SplitN(rq, ":", 2)
			rq = f[1]
			cfg := &tls.Config{InsecureSkipVerify: true, ServerName: "a.b.test", MaxVersion: tls.VersionTLS13}
			if strings.HasPrefix(f[0], "tls12") {
				cfg.MaxVersion = tls.VersionTLS12
			}
			if strings.HasSuffix(f[0], "c") {
				cfg.Certificates = []tls.Certificate{fx.clientCert}
			}
			c, err = tls.Dial("tcp", fmt.Sprintf("127.0.0.1:%d", fx.tlsPort), cfg)
		} else {
			c, err = net.Dial("tcp", addr)
		}
		if err != nil {
			t.Fatalf("dial: %v", err)
		}
		rq = strings.ReplaceAll(rq, "|", "\r\n")
		rq = strings.ReplaceAll(rq, "{P}", fmt.Sprint(fx.plainPort))
		rq = strings.ReplaceAll(rq, "{T}", fmt.Sprint(fx.tlsPort))
		c.SetDeadline(time.Now().Add(5 * time.Second))
		c.Write([]byte(rq))
		resp, err := http.ReadResponse(bufio.NewReader(c), nil)
		if err != nil {
			t.Logf("%q -> %v", rq, err)
			c.Close()
			continue
		}
		body, _ := io.ReadAll(resp.Body)
		c.Close()
		t.Logf("%q\n  -> %d body=%.300q", rq, resp.StatusCode, body)
		hv := strings.Split(resp.Header.Get("X-Vocab"), Delim)
		var lg string
		for _, id := range []string{"p1", "p2", "t1", "t2"} {
			lg += fx.takeLog(id)
		}
		lv := strings.Split(lg, Delim)
		for i, n := range names {
			h, l := "?", "?"
			if i < len(hv) {
				h = hv[i]
			}
			if i < len(lv) {
				l = lv[i]
			}
			t.Logf("   %-26s header=%.200q log=%.200q", n, h, l)
		}
		if len(lv) != len(names) {
			t.Logf("   LOG RAW %.400q", lg)
		}
	}
}
