// Extension of C20: the placeholder vocabulary of httpserver.Replacer (specs/ReplacerVocab.tla).
//
// TLC enumerates abstract exchanges (request line and target form, headers, cookies, credentials, TLS
// state, rewrite / path scope, request body, script of the innermost handler) and emits for each the
// value every placeholder must expand to - in the `log` format (after the response, marker "-") and in
// a `header` rule (before the response exists, marker ""). Here every exchange is rendered to its exact
// bytes and sent to a real instance whose sites carry ALL placeholders in their log format and in a
// header rule; the access-log line and the response header are split at the delimiter and compared
// field by field. Values only the harness knows (ports, certificate fields, clock readings) are
// symbolic tokens "@..." in the model and are resolved / judged as intervals here.
package cx20vocab

import (
	"bufio"
	"bytes"
	"crypto/sha1"
	"crypto/sha256"
	"crypto/tls"
	"encoding/base64"
	"encoding/hex"
	"encoding/json"
	"encoding/pem"
	"fmt"
	"io"
	"math/rand"
	"net"
	"net/http"
	"net/http/httptest"
	"net/http/httputil"
	"net/url"
	"os"
	"path/filepath"
	"regexp"
	"sort"
	"strconv"
	"strings"
	"sync"
	"syscall"
	"testing"
	"time"

	"github.com/tmpim/casket/caskethttp/httpserver"
	"github.com/tmpim/casket/caskettls"

	"verifharness/hx"
)

const module = "ReplacerVocab"

// ---------------------------------------------------------------- cases

type exch struct {
	Conn    string `json:"conn"`
	UA      string `json:"ua"`
	Ver     string `json:"ver"`
	M       string `json:"m"`
	Form    string `json:"form"`
	Host    string `json:"host"`
	Path    string `json:"path"`
	Query   string `json:"query"`
	XIn     string `json:"xin"`
	Cookie  string `json:"cookie"`
	Auth    string `json:"auth"`
	Body    string `json:"body"`
	CType   string `json:"ctype"`
	Chunked bool   `json:"chunked"`
	Inner   string `json:"inner"`
}

func (x exch) key() string {
	return fmt.Sprintf("%s/HTTP-%s/%s/%s/host=%s/path=%s/query=%s/xin=%s/cookie=%s/auth=%s/body=%s/ctype=%s/chunked=%v/ua=%s/inner=%s",
		x.Conn, x.Ver, x.M, x.Form, x.Host, x.Path, x.Query, x.XIn, x.Cookie, x.Auth, x.Body, x.CType, x.Chunked, x.UA, x.Inner)
}

func (x exch) trivial() bool {
	return x.Conn == "P" && x.Form == "origin" && x.M == "GET" && (x.Path == "/x" || x.Path == "/") && x.Query == "-" && x.XIn == "-" &&
		x.Cookie == "-" && x.Auth == "-" && x.Body == "-" && x.Inner == "plain"
}

type hline struct {
	N string   `json:"n"`
	V []string `json:"v"`
}

type script struct {
	Read   bool       `json:"read"`
	Sleep  int        `json:"sleep"`
	Status int        `json:"status"`
	XResp  [][]string `json:"xresp"`
	Text   string     `json:"text"`
	Ret    int        `json:"ret"`
}

type diff struct {
	I int      `json:"i"`
	V []string `json:"v"`
}

type readJ struct {
	Ran  bool     `json:"ran"`
	Data []string `json:"data"`
	Err  string   `json:"err"`
}

type vocabJ struct {
	Fixed  []string `json:"fixed"`
	Prefix []string `json:"prefix"`
	Names  []string `json:"names"`
}

type vcase struct {
	X        exch       `json:"x"`
	Site     string     `json:"site"`
	Target   []string   `json:"target"`
	HostHdr  []string   `json:"hosthdr"`
	Headers  []hline    `json:"headers"`
	Body     []string   `json:"body"`
	Script   script     `json:"script"`
	Log      [][]string `json:"log"`
	HdrDiff  []diff     `json:"hdrdiff"`
	Status   int        `json:"status"`
	XResp    []string   `json:"xresp"`
	Read     readJ      `json:"read"`
	Proxied  bool       `json:"proxied"`
	Up       []string   `json:"up"`
	Busy     int        `json:"busy"` // milliseconds the scripted handler sleeps (0 when it does not run)
	Vocab    *vocabJ    `json:"vocab,omitempty"`
}

// A replay file is handed to every driver of the property. TestC20 decodes it as one of its own kinds of cases: the
// members on / errors / beh / eff make it the trivial case "no wrapper, inner handler returns 200" there (no member
// "path": two of its kinds disagree about that member's type). TestCx20LogSink takes it for a history: capunit = 8 and
// no operations make that the empty history.
type beh struct {
	K string `json:"k"`
	S int    `json:"s"`
}

type rcase struct {
	Clause string `json:"clause"` // always starts with "replacervocab/"
	vcase
	Names   []string `json:"names"`
	On      []string `json:"on"`
	Errors  string   `json:"errors"`
	Beh     beh      `json:"beh"`
	Eff     beh      `json:"eff"`
	CapUnit int      `json:"capunit"`
}

func newRcase(clause string, c *vcase, names []string) rcase {
	return rcase{Clause: "replacervocab/" + clause, vcase: *c, Names: names, On: []string{}, Errors: "none", Beh: beh{"ret", 200}, Eff: beh{"ret", 200}, CapUnit: 8}
}

// ---------------------------------------------------------------- VocabularyComplete (source cross-check)

func repoDir() string {
	if d := os.Getenv("VERIF_REPO"); d != "" {
		return d
	}
	return "/repo"
}

var (
	caseRe   = regexp.MustCompile(`case "\{([^"}]*)\}"`)
	prefixRe = regexp.MustCompile(`key\[1\] == '(.)'`)
	hasPfxRe = regexp.MustCompile(`strings\.HasPrefix\(key, "\{([a-z_]+)"\)`)
)

// vocabularyCheck compares the model's vocabulary with the source of getSubstitution. missing = in the
// model, no longer handled by the code (a regression of casket); unknown = handled by the code, not
// modelled (the model is out of date).
func vocabularyCheck(v *vocabJ) (missing, unknown []string, err error) {
	b, err := os.ReadFile(filepath.Join(repoDir(), "caskethttp/httpserver/replacer.go"))
	if err != nil {
		return nil, nil, err
	}
	src := string(b)
	i := strings.Index(src, "func (r *replacer) getSubstitution(")
	if i < 0 {
		return nil, nil, fmt.Errorf("getSubstitution not found in replacer.go")
	}
	src = src[i:]
	if j := strings.Index(src[1:], "\nfunc "); j > 0 {
		src = src[:j+1]
	}
	inSrc := map[string]bool{}
	for _, m := range caseRe.FindAllStringSubmatch(src, -1) {
		inSrc["fixed:"+m[1]] = true
	}
	for _, m := range prefixRe.FindAllStringSubmatch(src, -1) {
		inSrc["prefix:"+m[1]] = true
	}
	for _, m := range hasPfxRe.FindAllStringSubmatch(src, -1) {
		inSrc["prefix:"+m[1]] = true
	}
	inModel := map[string]bool{}
	for _, n := range v.Fixed {
		inModel["fixed:"+n] = true
	}
	for _, n := range v.Prefix {
		inModel["prefix:"+n] = true
	}
	for k := range inModel {
		if !inSrc[k] {
			missing = append(missing, k)
		}
	}
	for k := range inSrc {
		if !inModel[k] {
			unknown = append(unknown, k)
		}
	}
	sort.Strings(missing)
	sort.Strings(unknown)
	return missing, unknown, nil
}

// ---------------------------------------------------------------- concretisation

// a User-Agent longer than any in-tree limit on that header (637 bytes)
var uaLong = "LongAgent/1.0 (" + strings.Repeat("compatible; token-0123456789; ", 20) + "end)"

const uaFirefox = "Mozilla/5.0 (X11; Linux x86_64; rv:99.0) Gecko/20100101 Firefox/99.0"

var fillBytes = func() []byte {
	b := make([]byte, 102400-25)
	for i := range b {
		b[i] = "fill0123456789abcdefghijklmnopqrstuvwxyz"[i%40]
	}
	return b
}()

func probeScript(s script) string {
	var ops []string
	if s.Read {
		ops = append(ops, "read:4096")
	}
	if s.Sleep > 0 {
		ops = append(ops, "sleep:"+strconv.Itoa(s.Sleep))
	}
	if s.Ret != 0 {
		ops = append(ops, "ret:"+strconv.Itoa(s.Ret))
		return strings.Join(ops, ";")
	}
	for _, v := range s.XResp {
		ops = append(ops, "hdr:X-Resp="+strings.Join(v, ""))
	}
	if s.Status != 200 {
		ops = append(ops, "status:"+strconv.Itoa(s.Status))
	}
	if s.Text == "@report" {
		ops = append(ops, "report")
	} else {
		ops = append(ops, "text:"+s.Text)
	}
	return strings.Join(ops, ";")
}

func authValue(id string) string {
	switch id {
	case "good":
		return base64.StdEncoding.EncodeToString([]byte(authUser + ":" + authPass))
	case "bad":
		return base64.StdEncoding.EncodeToString([]byte("mallory:x"))
	case "lf":
		return base64.StdEncoding.EncodeToString([]byte("a\nb:x"))
	}
	return ""
}

// world is what the symbolic tokens stand for in one exchange.
type world struct {
	port     int // listener
	cport    int // client side of the connection
	clen     int
	probe    string
	cipher   string
	fx       *fixture
	status   int
	size     int
	hostname string
	ua       string // which User-Agent of the model ("firefox", "long")
}

// resolve turns a token sequence of the model into text. where = "log" | "header" | "wire" (request bytes).
func (w *world) resolve(toks []string, where string) string {
	var b strings.Builder
	for _, t := range toks {
		if !strings.HasPrefix(t, "@") {
			b.WriteString(t)
			continue
		}
		switch {
		case t == "@port":
			b.WriteString(strconv.Itoa(w.port))
		case t == "@cport":
			b.WriteString(strconv.Itoa(w.cport))
		case t == "@clen":
			b.WriteString(strconv.Itoa(w.clen))
		case t == "@probe":
			b.WriteString(w.probe)
		case t == "@ua":
			if w.ua == "long" {
				b.WriteString(uaLong)
			} else {
				b.WriteString(uaFirefox)
			}
		case t == "@fill":
			b.Write(fillBytes)
		case t == "@hostname":
			b.WriteString(w.hostname)
		case t == "@remote":
			b.WriteString("127.0.0.1")
		case t == "@remote.masked":
			b.WriteString("127.0.0.0")
		case t == "@env":
			b.WriteString(envValue)
		case t == "@appname":
			b.WriteString(appName)
		case t == "@status":
			b.WriteString(strconv.Itoa(w.status))
		case t == "@size":
			b.WriteString(strconv.Itoa(w.size))
		case t == "@cipher":
			b.WriteString(w.cipher)
		case strings.HasPrefix(t, "@b64."):
			b.WriteString(authValue(t[5:]))
		case strings.HasPrefix(t, "@cert."):
			// text of the certificate the model cannot know; raw DER may contain CR / LF bytes: in a log entry they are
			// written as \r \n, in a response header net/http turns them into spaces
			s := w.fx.certField(t[6:])
			switch where {
			case "log":
				s = strings.NewReplacer("\r", "\\r", "\n", "\\n").Replace(s)
			case "header":
				s = strings.NewReplacer("\r", " ", "\n", " ").Replace(s)
			}
			b.WriteString(s)
		default:
			b.WriteString("<unresolved " + t + ">")
		}
	}
	return b.String()
}

func (fx *fixture) certField(f string) string {
	c := fx.clientX509
	switch f {
	case "escaped":
		return url.QueryEscape(string(pem.EncodeToMemory(&pem.Block{Type: "CERTIFICATE", Bytes: c.Raw})))
	case "fingerprint":
		return fmt.Sprintf("%x", sha256.Sum256(c.Raw))
	case "i_dn":
		return c.Issuer.String()
	case "s_dn":
		return c.Subject.String()
	case "raw":
		return string(c.Raw)
	case "serial":
		return fmt.Sprintf("%x", c.SerialNumber)
	case "v_end":
		return c.NotAfter.UTC().Format("Jan 02 15:04:05 2006 MST")
	case "v_start":
		return c.NotBefore.UTC().Format("Jan 02 15:04:05 2006 MST")
	case "v_remain":
		return strconv.FormatInt(int64(c.NotAfter.Sub(time.Now().UTC()).Seconds()/86400), 10)
	}
	return "<unknown certificate field " + f + ">"
}

// cipherName: the name casket gives the suite of a connection (its own table for the configurable suites, Go's
// name for the TLS 1.3 ones, which are not configurable)
func cipherName(id uint16) string {
	for k, v := range caskettls.SupportedCiphersMap {
		if v == id {
			return k
		}
	}
	return tls.CipherSuiteName(id)
}

// ---------------------------------------------------------------- connections

type client struct {
	c     net.Conn
	br    *bufio.Reader
	cport int
	state *tls.ConnectionState
}

func (fx *fixture) dial(kind string) (*client, error) {
	d := &net.Dialer{Timeout: 5 * time.Second}
	if kind == "P" {
		c, err := d.Dial("tcp", fmt.Sprintf("127.0.0.1:%d", fx.plainPort))
		if err != nil {
			return nil, err
		}
		return &client{c: c, br: bufio.NewReaderSize(c, 64<<10), cport: c.LocalAddr().(*net.TCPAddr).Port}, nil
	}
	cfg := &tls.Config{InsecureSkipVerify: true, ServerName: "a.b.test", MinVersion: tls.VersionTLS12, MaxVersion: tls.VersionTLS13, NextProtos: []string{"http/1.1"}}
	if strings.HasPrefix(kind, "T12") {
		cfg.MaxVersion = tls.VersionTLS12
	}
	if strings.HasSuffix(kind, "c") {
		cfg.Certificates = []tls.Certificate{fx.clientCert}
	}
	c, err := tls.DialWithDialer(d, "tcp", fmt.Sprintf("127.0.0.1:%d", fx.tlsPort), cfg)
	if err != nil {
		return nil, err
	}
	st := c.ConnectionState()
	return &client{c: c, br: bufio.NewReaderSize(c, 64<<10), cport: c.NetConn().LocalAddr().(*net.TCPAddr).Port, state: &st}, nil
}

// conn returns the keep-alive connection of that kind (dialled on demand).
func (fx *fixture) conn(kind string) (*client, error) {
	if cl := fx.conns[kind]; cl != nil {
		return cl, nil
	}
	cl, err := fx.dial(kind)
	if err != nil {
		return nil, err
	}
	fx.conns[kind] = cl
	return cl, nil
}

func (fx *fixture) drop(kind string) {
	if cl := fx.conns[kind]; cl != nil {
		cl.c.Close()
		delete(fx.conns, kind)
	}
}

// ---------------------------------------------------------------- one exchange

type observed struct {
	Status   int      `json:"status"`
	XVocab   []string `json:"xvocab,omitempty"`
	XResp    string   `json:"xresp"`
	SawUp    string   `json:"saw_up,omitempty"`
	Body     string   `json:"body"`
	LogRaw   string   `json:"log_raw,omitempty"`
	LogField []string `json:"-"`
	Before   time.Time
	After    time.Time
	Err      string `json:"err,omitempty"`
	w        *world
}

func clip(s string, n int) string {
	if len(s) > n {
		return s[:n] + fmt.Sprintf("...(%d bytes)", len(s))
	}
	return s
}

// render builds the exact request bytes of a case. The header lines are sent in an order chosen by seed (lines of
// one name keep their order): the dump of {request} sorts them.
func render(c *vcase, w *world, rnd *rand.Rand) []byte {
	var body bytes.Buffer
	for _, p := range c.Body {
		body.WriteString(w.resolve([]string{p}, "wire"))
	}
	w.clen = body.Len()
	w.probe = probeScript(c.Script)
	var b bytes.Buffer
	fmt.Fprintf(&b, "%s %s HTTP/%s\r\n", c.X.M, w.resolve(c.Target, "wire"), c.X.Ver)
	host := "Host: other.test" // absolute-form: the target's host wins
	if c.X.Form != "absolute" {
		host = "Host: " + w.resolve(c.HostHdr, "wire")
	}
	// groups of lines with the same name (they keep their order); the Host line is not always the first
	groups := [][]string{{host}}
	for i := 0; i < len(c.Headers); {
		j := i
		var g []string
		for j < len(c.Headers) && c.Headers[j].N == c.Headers[i].N {
			g = append(g, c.Headers[j].N+": "+w.resolve(c.Headers[j].V, "wire"))
			j++
		}
		groups = append(groups, g)
		i = j
	}
	if c.X.Chunked {
		groups = append(groups, []string{"Transfer-Encoding: chunked"})
	}
	if rnd.Intn(2) == 0 {
		rnd.Shuffle(len(groups), func(i, j int) { groups[i], groups[j] = groups[j], groups[i] })
	} else {
		rnd.Shuffle(len(groups)-1, func(i, j int) { groups[i+1], groups[j+1] = groups[j+1], groups[i+1] })
	}
	var lines []string
	for _, g := range groups {
		lines = append(lines, g...)
	}
	for _, l := range lines {
		b.WriteString(l + "\r\n")
	}
	b.WriteString("\r\n")
	if c.X.Chunked {
		raw := body.Bytes()
		cut := 1 + rnd.Intn(len(raw))
		for _, part := range [][]byte{raw[:cut], raw[cut:]} {
			if len(part) > 0 {
				fmt.Fprintf(&b, "%x\r\n%s\r\n", len(part), part)
			}
		}
		b.WriteString("0\r\n\r\n")
	} else {
		b.Write(body.Bytes())
	}
	return b.Bytes()
}

func (fx *fixture) exchange(c *vcase, rnd *rand.Rand) observed {
	var o observed
	for attempt := 0; attempt < 2; attempt++ {
		cl, err := fx.conn(c.X.Conn)
		if err != nil {
			o.Err = "dial: " + err.Error()
			return o
		}
		w := &world{port: fx.plainPort, cport: cl.cport, fx: fx, hostname: fx.hostname, ua: c.X.UA}
		if c.X.Conn != "P" {
			w.port = fx.tlsPort
			w.cipher = cipherName(cl.state.CipherSuite)
		}
		o = observed{w: w}
		raw := render(c, w, rnd)
		fx.drainLog(c.Site)
		o.Before = time.Now()
		cl.c.SetDeadline(time.Now().Add(20 * time.Second))
		if _, err := cl.c.Write(raw); err != nil {
			fx.drop(c.X.Conn)
			o.Err = "write: " + err.Error()
			continue // a keep-alive connection the server has closed meanwhile: once more on a fresh one
		}
		resp, err := readResponse(cl.br, c.X.M)
		o.After = time.Now()
		if err != nil {
			fx.drop(c.X.Conn)
			o.Err = "read: " + clip(err.Error(), 200)
			if attempt == 0 && strings.Contains(err.Error(), "EOF") {
				continue
			}
			return o
		}
		if resp.closed || c.X.Ver == "1.0" {
			fx.drop(c.X.Conn)
		}
		o.Err = ""
		o.Status = resp.status
		o.Body = string(resp.body)
		w.status, w.size = resp.status, len(resp.body)
		if v, ok := resp.header["X-Vocab"]; ok && len(v) == 1 {
			o.XVocab = strings.Split(v[0], Delim)
		}
		o.XResp = strings.Join(resp.header["X-Resp"], ",")
		o.SawUp = strings.Join(resp.header["X-Saw-Up-Body"], ",")
		o.LogRaw = fx.waitLog(c.Site)
		return o
	}
	return o
}

// rawResponse is one HTTP/1.x response read without net/http's client: a header value may carry any byte but CR and
// LF ({tls_client_raw_cert} is the DER certificate), which http.ReadResponse refuses.
type rawResponse struct {
	status int
	header map[string][]string
	body   []byte
	closed bool
}

func readResponse(br *bufio.Reader, method string) (*rawResponse, error) {
	line, err := br.ReadString('\n')
	if err != nil {
		return nil, err
	}
	f := strings.SplitN(strings.TrimRight(line, "\r\n"), " ", 3)
	if len(f) < 2 || !strings.HasPrefix(f[0], "HTTP/1.") {
		return nil, fmt.Errorf("malformed status line %q", clip(line, 80))
	}
	r := &rawResponse{header: map[string][]string{}}
	if r.status, err = strconv.Atoi(f[1]); err != nil {
		return nil, fmt.Errorf("malformed status line %q", clip(line, 80))
	}
	r.closed = f[0] == "HTTP/1.0"
	for {
		l, err := br.ReadString('\n')
		if err != nil {
			return nil, err
		}
		l = strings.TrimSuffix(strings.TrimSuffix(l, "\n"), "\r")
		if l == "" {
			break
		}
		i := strings.IndexByte(l, ':')
		if i < 0 {
			return nil, fmt.Errorf("malformed header line %q", clip(l, 80))
		}
		k := http.CanonicalHeaderKey(l[:i])
		r.header[k] = append(r.header[k], strings.Trim(l[i+1:], " \t"))
	}
	if strings.EqualFold(strings.Join(r.header["Connection"], ","), "close") {
		r.closed = true
	}
	switch {
	case method == "HEAD" || r.status == 204 || r.status == 304:
	case strings.Contains(strings.ToLower(strings.Join(r.header["Transfer-Encoding"], ",")), "chunked"):
		if r.body, err = io.ReadAll(httputil.NewChunkedReader(br)); err != nil {
			return nil, err
		}
		for { // trailer section
			l, err := br.ReadString('\n')
			if err != nil {
				return nil, err
			}
			if strings.TrimRight(l, "\r\n") == "" {
				break
			}
		}
	case len(r.header["Content-Length"]) == 1:
		n, err := strconv.Atoi(r.header["Content-Length"][0])
		if err != nil {
			return nil, fmt.Errorf("malformed Content-Length")
		}
		r.body = make([]byte, n)
		if _, err := io.ReadFull(br, r.body); err != nil {
			return nil, err
		}
	default:
		if r.body, err = io.ReadAll(br); err != nil {
			return nil, err
		}
		r.closed = true
	}
	return r, nil
}

// ---------------------------------------------------------------- judging

type verdict struct {
	clause string // "" = fine
	name   string
	what   string
	exp    string
	got    string
}

func clauseOf(name string) string {
	switch {
	case strings.HasPrefix(name, "tls_"):
		return "tls-fields-exact"
	case strings.HasPrefix(name, "when") || strings.HasPrefix(name, "latency"):
		return "time-monotone"
	case name == "request_body":
		return "value-equals-function"
	}
	return "value-equals-function"
}

var uuidRe = regexp.MustCompile(`^[0-9a-f]{8}-[0-9a-f]{4}-[0-9a-f]{4}-[0-9a-f]{4}-[0-9a-f]{12}$`)

// parseWhen reads a {when*} value; gran is the granularity of the format.
func parseWhen(name, v string) (t time.Time, gran time.Duration, err error) {
	switch name {
	case "when":
		t, err = time.Parse("02/Jan/2006:15:04:05 -0700", v)
		return t, time.Second, err
	case "when_iso":
		t, err = time.Parse("2006-01-02T15:04:05Z", v)
		return t, time.Second, err
	case "when_iso_local":
		t, err = time.ParseInLocation("2006-01-02T15:04:05", v, time.Local)
		return t, time.Second, err
	case "when_unix":
		n, e := strconv.ParseInt(v, 10, 64)
		return time.Unix(n, 0), time.Second, e
	case "when_unix_ms":
		n, e := strconv.ParseInt(v, 10, 64)
		return time.UnixMilli(n), time.Millisecond, e
	}
	return t, 0, fmt.Errorf("not a clock placeholder")
}

// judgeField compares one placeholder value. hdrWhen carries the header rule's readings to the entry's.
func judgeField(name string, exp []string, got string, where string, o *observed, c *vcase, clock map[string]time.Time) (bool, string) {
	if len(exp) == 1 && strings.HasPrefix(exp[0], "@") {
		switch exp[0] {
		case "@when", "@when_iso", "@when_iso_local", "@when_unix", "@when_unix_ms":
			t, gran, err := parseWhen(name, got)
			if err != nil {
				return false, "a time in the format of {" + name + "}"
			}
			clock[where+":"+name] = t
			lo, hi := o.Before.Truncate(gran), o.After
			if where == "log" {
				lo = o.Before.Add(time.Duration(c.Busy) * time.Millisecond).Truncate(gran)
			}
			if t.Before(lo) || t.After(hi) {
				return false, fmt.Sprintf("a reading of the clock between %s and %s", lo.Format(time.RFC3339Nano), hi.Format(time.RFC3339Nano))
			}
			return true, ""
		case "@latency":
			d, err := time.ParseDuration(got)
			busy := time.Duration(c.Busy) * time.Millisecond
			if err != nil || d < busy-time.Millisecond || d > o.After.Sub(o.Before)+time.Millisecond {
				return false, fmt.Sprintf("a duration between %v and %v", busy, o.After.Sub(o.Before))
			}
			return true, ""
		case "@latency_ms":
			n, err := strconv.ParseInt(got, 10, 64)
			busy := int64(c.Busy)
			if err != nil || n < busy-1 || n > o.After.Sub(o.Before).Milliseconds()+1 {
				return false, fmt.Sprintf("milliseconds between %d and %d", busy, o.After.Sub(o.Before).Milliseconds())
			}
			return true, ""
		case "@reqid":
			if !uuidRe.MatchString(got) {
				return false, "a UUID"
			}
			return true, ""
		case "@cert.v_remain":
			a := o.w.fx.certField("v_remain")
			if got == a {
				return true, ""
			}
			return false, a
		}
	}
	want := o.w.resolve(exp, where)
	if got == want {
		return true, ""
	}
	return false, want
}

// judge compares everything the model says about one exchange with what was observed.
func (fx *fixture) judge(c *vcase, o *observed, names []string) []verdict {
	var out []verdict
	add := func(clause, name, what, exp, got string) {
		out = append(out, verdict{clause, name, what, clip(exp, 300), clip(got, 300)})
	}
	if o.Err != "" {
		return []verdict{{clause: "infra", what: o.Err}}
	}
	if o.Status != c.Status {
		add("status", "", fmt.Sprintf("the client got status %d, the model says %d", o.Status, c.Status), strconv.Itoa(c.Status), strconv.Itoa(o.Status))
		return out
	}
	if o.XResp != strings.Join(c.XResp, "") {
		add("response-headers", "", fmt.Sprintf("response header X-Resp is %q, the handler set %q", o.XResp, strings.Join(c.XResp, "")), strings.Join(c.XResp, ""), o.XResp)
	}
	// BodyUntouched: what the innermost handler read
	if c.Read.Ran {
		var rep struct {
			Read  int    `json:"read"`
			Sum   string `json:"sum"`
			IsMax bool   `json:"is_max_bytes"`
		}
		if err := json.Unmarshal([]byte(o.Body), &rep); err != nil {
			add("body-untouched", "", "the handler's report is not JSON: "+clip(o.Body, 100), "", o.Body)
		} else {
			var data bytes.Buffer
			for _, p := range c.Read.Data {
				data.WriteString(o.w.resolve([]string{p}, "wire"))
			}
			sum := sha1.Sum(data.Bytes())
			if rep.Read != data.Len() || rep.Sum != hex.EncodeToString(sum[:]) || rep.IsMax != (c.Read.Err == "max") {
				add("body-untouched", "", fmt.Sprintf("the handler at the end of the chain read %d bytes (sha1 %s, too-large error %v); the request carried %d bytes of which it must get %d (sha1 %s, too-large error %v)",
					rep.Read, rep.Sum, rep.IsMax, o.w.clen, data.Len(), hex.EncodeToString(sum[:]), c.Read.Err == "max"),
					fmt.Sprintf("%d bytes", data.Len()), fmt.Sprintf("%d bytes", rep.Read))
			}
		}
	}
	// the header_upstream rule of the proxy, as the backend received it
	if c.Proxied {
		if want := o.w.resolve(c.Up, "header"); o.SawUp != want {
			add("body-untouched", "request_body", fmt.Sprintf("proxy: the backend received X-Up-Body %q, the header_upstream rule \"[{request_body}]\" must give %q", clip(o.SawUp, 200), clip(want, 200)), want, o.SawUp)
		}
	}
	clock := map[string]time.Time{}
	// the header rule
	if len(o.XVocab) != len(names)+1 || o.XVocab[len(names)] != "END" {
		add("value-equals-function", "", fmt.Sprintf("response header X-Vocab has %d fields, the rule has %d", len(o.XVocab), len(names)+1), "", clip(strings.Join(o.XVocab, Delim), 300))
	} else {
		hexp := make([][]string, len(names))
		copy(hexp, c.Log)
		for _, d := range c.HdrDiff {
			hexp[d.I-1] = d.V
		}
		for i, n := range names {
			if ok, want := judgeField(n, hexp[i], o.XVocab[i], "header", o, c, clock); !ok {
				add(clauseOf(n), n, fmt.Sprintf("header rule: {%s} expanded to %q, the model says %q", n, clip(o.XVocab[i], 200), clip(want, 200)), want, o.XVocab[i])
			}
		}
	}
	// the log entry: exactly one line
	lg := o.LogRaw
	if lg == "" {
		add("one-line", "", "no access-log entry was written for the request", "one line", "")
		return out
	}
	if strings.Count(lg, "\n") != 1 || !strings.HasSuffix(lg, "\n") {
		add("log-safe", "", fmt.Sprintf("the access-log entry of one request is spread over %d lines: %q", strings.Count(lg, "\n"), clip(lg, 300)), "one line", clip(lg, 300))
		return out
	}
	fields := strings.Split(strings.TrimSuffix(lg, "\n"), Delim)
	if len(fields) != len(names)+1 || fields[len(names)] != "END" {
		add("value-equals-function", "", fmt.Sprintf("the access-log entry has %d fields, the format has %d", len(fields), len(names)+1), "", clip(lg, 300))
		return out
	}
	for i, n := range names {
		if strings.ContainsAny(fields[i], "\r") {
			add("log-safe", n, fmt.Sprintf("log entry: {%s} put a raw CR into the entry: %q", n, clip(fields[i], 200)), "", fields[i])
			continue
		}
		if ok, want := judgeField(n, c.Log[i], fields[i], "log", o, c, clock); !ok {
			add(clauseOf(n), n, fmt.Sprintf("log entry: {%s} expanded to %q, the model says %q", n, clip(fields[i], 200), clip(want, 200)), want, fields[i])
		}
	}
	// TimeMonotone across the two expansions: the header rule ran before the handler, the entry was written after it
	for _, n := range []string{"when", "when_iso", "when_iso_local", "when_unix", "when_unix_ms"} {
		h, okh := clock["header:"+n]
		l, okl := clock["log:"+n]
		if okh && okl && l.Before(h) {
			add("time-monotone", n, fmt.Sprintf("{%s} of the log entry (%v) lies before {%s} of the header rule (%v)", n, l, n, h), "", "")
		}
	}
	if hm, ok1 := clock["header:when_unix_ms"]; ok1 && c.Busy > 0 {
		if lm, ok2 := clock["log:when_unix_ms"]; ok2 && lm.Sub(hm) < time.Duration(c.Busy)*time.Millisecond {
			add("time-monotone", "when_unix_ms", fmt.Sprintf("the handler slept %d ms between the header rule and the log entry, their {when_unix_ms} differ by %v", c.Busy, lm.Sub(hm)), "", "")
		}
	}
	// {request_id}: one id per request, the same in both expansions
	for i, n := range names {
		if n == "request_id" && len(o.XVocab) > i && len(fields) > i && o.XVocab[i] != fields[i] {
			add("value-equals-function", n, fmt.Sprintf("{request_id} is %q in the header rule and %q in the log entry of the same request", o.XVocab[i], fields[i]), o.XVocab[i], fields[i])
		}
	}
	return out
}

// ---------------------------------------------------------------- the direct part: the {$ENV} forms

// The Casketfile parser expands {$NAME} itself when the file is loaded, so a format that comes from a Casketfile never
// reaches the run-time branch; it is exercised through the exported API.
func directEnv(res *hx.Result) {
	os.Setenv(envName, envValue)
	os.Unsetenv(envName + "_UNSET")
	r := httptest.NewRequest("GET", "http://a.b.test/x", nil)
	rep := httpserver.NewReplacer(r, nil, "-")
	for _, tc := range [][2]string{
		{"{$" + envName + "}", envValue},
		{"{$" + envName + "=dflt}", envValue},
		{"{$" + envName + "_UNSET=dflt}", "dflt"}, // "check for a default value"
		{"{$" + envName + "_UNSET}", ""},
	} {
		res.Count("direct:" + tc[0])
		if got := rep.Replace(tc[0]); got != tc[1] {
			res.Add(hx.Mismatch{Key: "C20/replacervocab/value-equals-function/direct/" + tc[0], What: fmt.Sprintf("Replace(%q) = %q, want %q", tc[0], got, tc[1]), Expected: tc[1], Observed: got})
		}
	}
}

// ---------------------------------------------------------------- the test

func quietStderr(t *testing.T) func() {
	if os.Getenv("VERIF_VERBOSE") != "" {
		return func() {}
	}
	dn, err := os.Create(filepath.Join(hx.Scratch(t), "cx20vocab_stderr.log"))
	if err != nil {
		return func() {}
	}
	saved, err := syscall.Dup(2)
	if err != nil {
		dn.Close()
		return func() {}
	}
	syscall.Dup2(int(dn.Fd()), 2)
	return func() { syscall.Dup2(saved, 2); syscall.Close(saved); dn.Close(); os.Remove(dn.Name()) }
}

var startMu sync.Mutex

func TestCx20Vocab(t *testing.T) {
	hx.Quiet()
	res := hx.NewResult("TestCx20Vocab", "one case = one abstract exchange of ReplacerVocab.tla (connection: plaintext / TLS 1.2 / 1.3 with and without client certificate; request-target form, path spelling incl. %0A %0D %2F %25 %20, query, Host spelling, repeated headers, cookies, credentials, body x content type x limit, path scope, rewrite, script of the innermost handler), rendered to its exact bytes and sent to a real instance whose sites carry ALL placeholders in the log format and in a header rule; the access-log line and the response header are split and compared field by field, clock fields as intervals; non-trivial = anything but a plain GET /x")
	defer res.Write(t)

	if p := hx.Replay(); p != "" {
		b, _ := os.ReadFile(p)
		var w struct {
			Case struct {
				Clause string `json:"clause"`
			} `json:"case"`
		}
		if json.Unmarshal(b, &w) != nil || !strings.HasPrefix(w.Case.Clause, "replacervocab/") {
			res.AddExtra("replay", "not a replacervocab case: skipped")
			return
		}
	}
	defer quietStderr(t)()

	confirmOn := func(c *vcase, names []string, seed int64) ([]verdict, *observed, error) {
		startMu.Lock()
		fx, err := startFixture(t, names)
		startMu.Unlock()
		if err != nil {
			return nil, nil, err
		}
		defer fx.stop()
		// (a primer request, so that the case is not the first one of its connection)
		o := fx.exchange(c, rand.New(rand.NewSource(seed)))
		return fx.judge(c, &o, names), &o, nil
	}

	if rp, ok := hx.LoadReplay[rcase](t); ok {
		res.Count("replay")
		res.Replayed = 1
		for k := 0; k < 2; k++ {
			vs, o, err := confirmOn(&rp.vcase, rp.Names, int64(k+1))
			if err != nil {
				res.Infra = err.Error()
				return
			}
			hit := false
			for _, v := range vs {
				if "replacervocab/"+v.clause+"/"+v.name == rp.Clause {
					hit = true
					if k == 1 {
						res.Add(hx.Mismatch{Key: "C20/" + rp.Clause + "/" + rp.X.key(), What: "replayed: " + v.what, Case: rp, Expected: v.exp, Observed: o})
					}
				}
			}
			if !hit {
				return
			}
		}
		return
	}

	all := hx.LoadCases[vcase](t, module)
	var vocab *vocabJ
	var cases []vcase
	for i := range all {
		if all[i].Vocab != nil {
			vocab = all[i].Vocab
		} else {
			cases = append(cases, all[i])
		}
	}
	if vocab == nil || len(cases) == 0 {
		res.Infra = "ReplacerVocab emitted no vocabulary or no exchange"
		return
	}
	names := vocab.Names
	res.AddExtra("cases_from_tlc", len(cases))
	res.AddExtra("placeholders", len(names))

	// VocabularyComplete
	missing, unknown, err := vocabularyCheck(vocab)
	if err != nil {
		res.Infra = "vocabulary check: " + err.Error()
		return
	}
	if len(unknown) > 0 {
		res.Infra = "specs/ReplacerVocab.tla is out of date: getSubstitution handles placeholders the model does not know: " + strings.Join(unknown, ", ")
		return
	}
	for _, m := range missing {
		res.Add(hx.Mismatch{Key: "C20/replacervocab/vocabulary-complete/" + m, What: "placeholder " + m + " of the vocabulary is no longer handled by getSubstitution (caskethttp/httpserver/replacer.go)"})
	}
	res.Count("vocabulary")

	directEnv(res)

	sort.SliceStable(cases, func(i, j int) bool { return cases[i].X.key() < cases[j].X.key() })
	rnd := hx.Rand()
	rnd.Shuffle(len(cases), func(i, j int) { cases[i], cases[j] = cases[j], cases[i] })
	if hx.SelfTest() && len(cases) > 300 {
		cases = cases[:300]
	}

	nw := 6
	if len(cases) < 200 {
		nw = 2
	}
	var fxs []*fixture
	for w := 0; w < nw; w++ {
		fx, err := startFixture(t, names)
		if err != nil {
			res.Infra = err.Error()
			for _, f := range fxs {
				f.stop()
			}
			return
		}
		fxs = append(fxs, fx)
	}
	defer func() {
		for _, f := range fxs {
			f.stop()
		}
	}()

	var mu sync.Mutex
	var infra string
	compared, reruns, unreproduced, selfHits, selfTried := 0, 0, 0, 0, 0
	deadline := time.Now().Add(8 * time.Minute)
	var wg sync.WaitGroup
	for w := 0; w < nw; w++ {
		wg.Add(1)
		go func(w int) {
			defer wg.Done()
			fx := fxs[w]
			wr := rand.New(rand.NewSource(hx.Seed()*7919 + int64(w)))
			for i := w; i < len(cases); i += nw {
				mu.Lock()
				stop := infra != ""
				mu.Unlock()
				if stop || time.Now().After(deadline) {
					return
				}
				c := cases[i]
				corrupted := ""
				if hx.SelfTest() && i%10 == 0 {
					// corrupt one expectation: the value of a placeholder in the log entry (i/10 walks through the vocabulary)
					k := (i / 10) % len(names)
					c.Log = append([][]string(nil), c.Log...)
					c.Log[k] = append([]string{"CORRUPT"}, c.Log[k]...)
					corrupted = names[k]
				}
				o := fx.exchange(&c, wr)
				vs := fx.judge(&c, &o, names)
				nt := c.X.key()
				if c.X.trivial() {
					nt = ""
				}
				res.Count(nt)
				mu.Lock()
				compared += 2 * len(names)
				mu.Unlock()
				if i%997 == 1 {
					res.Sample(map[string]interface{}{"exchange": c.X.key(), "site": c.Site, "status": o.Status, "log_entry": clip(o.LogRaw, 400)})
				}
				if corrupted != "" {
					mu.Lock()
					selfTried++
					for _, v := range vs {
						if v.name == corrupted {
							selfHits++
							break
						}
					}
					mu.Unlock()
					continue
				}
				if len(vs) == 0 {
					continue
				}
				if vs[0].clause == "infra" {
					// once more; a fixture that cannot be talked to is no verdict
					o = fx.exchange(&c, wr)
					vs = fx.judge(&c, &o, names)
					if len(vs) > 0 && vs[0].clause == "infra" {
						mu.Lock()
						infra = "cannot talk to the fixture: " + vs[0].what + " (" + c.X.key() + ")"
						mu.Unlock()
						return
					}
					if len(vs) == 0 {
						continue
					}
				}
				if hx.SelfTest() {
					continue
				}
				// reproduce on a fresh instance before it counts
				mu.Lock()
				reruns++
				tooMany := reruns > 60
				mu.Unlock()
				if tooMany {
					for _, v := range vs {
						res.Add(hx.Mismatch{Key: "C20/replacervocab/" + v.clause + "/" + v.name + "/" + c.X.key(), What: v.what + " (not re-run: more than 60 disagreements in this run)", Case: newRcase(v.clause+"/"+v.name, &c, names), Expected: v.exp, Observed: v.got})
					}
					continue
				}
				vs2, _, err := confirmOn(&c, names, hx.Seed()+int64(i))
				if err != nil {
					mu.Lock()
					infra = err.Error()
					mu.Unlock()
					return
				}
				again := map[string]verdict{}
				for _, v := range vs2 {
					again[v.clause+"/"+v.name] = v
				}
				for _, v := range vs {
					v2, ok := again[v.clause+"/"+v.name]
					if !ok {
						mu.Lock()
						unreproduced++
						mu.Unlock()
						res.AddExtra("unreproduced:"+v.clause+"/"+v.name+"/"+c.X.key(), v.what)
						continue
					}
					res.Add(hx.Mismatch{Key: "C20/replacervocab/" + v.clause + "/" + v.name + "/" + c.X.key(), What: v2.what, Case: newRcase(v.clause+"/"+v.name, &c, names), Expected: v2.exp, Observed: v2.got})
				}
			}
		}(w)
	}
	wg.Wait()
	res.Replayed = res.Evaluations
	res.AddExtra("placeholder_values_compared", compared)
	res.AddExtra("reruns", reruns)
	res.AddExtra("unreproduced", unreproduced)
	if infra != "" && res.Infra == "" {
		res.Infra = infra
	}
	if time.Now().After(deadline) && res.Infra == "" {
		res.Infra = "the replay did not finish within its own deadline (machine too slow?)"
	}
	if hx.SelfTest() && res.Infra == "" {
		res.AddExtra("selftest_corrupted", selfTried)
		res.AddExtra("selftest_noticed", selfHits)
		if selfTried == 0 || selfHits < selfTried {
			res.Infra = fmt.Sprintf("selftest: corrupted expectation noticed in only %d of %d cases", selfHits, selfTried)
		}
	}
}
