package cx20vocab

import (
	"crypto/ecdsa"
	"crypto/elliptic"
	"crypto/rand"
	"crypto/tls"
	"crypto/x509"
	"crypto/x509/pkix"
	"crypto/sha1"
	"encoding/hex"
	"encoding/json"
	"fmt"
	"io"
	"math/big"
	"net"
	"net/http"
	"os"
	"path/filepath"
	"strings"
	"testing"
	"time"

	"github.com/tmpim/casket"

	"verifharness/hx"
	_ "verifharness/probe"
)

// Delim separates the placeholders in the log format and in the value of the header rule.
const Delim = "|~|"

const appName = "CasketVerif"

// envName / envValue: the environment variable behind {$VERIF_CX20_ENV}
const (
	envName  = "VERIF_CX20_ENV"
	envValue = "env-value"
)

// The site set of specs/ReplacerVocab.tla:
//
//	P (plaintext)  p1 :port        p2 :port/base  (path scope, log with ipmask)
//	T (TLS)        t1 :port        t2 :port/base  tls self_signed, clients request
//
// every site: request_id, log / <file> "<all placeholders>", rewrite ^/rw/(.*)$ -> /nw/{1}?rq=1,
// header / X-Vocab "<all placeholders>", basicauth /auth, limits body /lim,
// proxy /px <backend> { header_upstream X-Up-Body "[{request_body}]" }, verifprobe.
type fixture struct {
	dir        string
	casketfile string
	site       *hx.Site
	plainPort  int
	tlsPort    int
	logs       map[string]string // site id -> access log file
	offs       map[string]int64
	names      []string
	clientCert tls.Certificate
	clientX509 *x509.Certificate
	conns      map[string]*client // one keep-alive connection per kind (P, T12, T12c, T13, T13c)
	files      map[string]*os.File
	hostname   string
	backend    *http.Server // what `proxy /px` forwards to: reports the body it received
	backendLn  net.Listener
}

// backendHandler reads the forwarded request's body and reports it the way verifprobe's "read;report" does; the value of
// the header_upstream rule comes back as a response header.
func backendHandler(w http.ResponseWriter, r *http.Request) {
	h := sha1.New()
	n, err := io.Copy(h, r.Body)
	e := ""
	if err != nil {
		e = err.Error()
	}
	b, _ := json.Marshal(map[string]interface{}{"read": n, "err": e, "sum": hex.EncodeToString(h.Sum(nil)), "is_max_bytes": false})
	w.Header().Set("X-Saw-Up-Body", r.Header.Get("X-Up-Body"))
	w.Header().Set("Content-Type", "application/json")
	w.Write(b)
}

const (
	authUser = "alice"
	authPass = "s3cret"
	bodyLim  = 25 // limits body /lim (LIM of the model)
)

func makeClientCert() (tls.Certificate, *x509.Certificate, error) {
	key, err := ecdsa.GenerateKey(elliptic.P256(), rand.Reader)
	if err != nil {
		return tls.Certificate{}, nil, err
	}
	tpl := &x509.Certificate{
		SerialNumber: big.NewInt(0x1f2e3d4c5b),
		Subject:      pkix.Name{CommonName: "cx20 client, one", Organization: []string{"Verif+Co"}},
		NotBefore:    time.Now().Add(-36 * time.Hour).Truncate(time.Second),
		NotAfter:     time.Now().Add(91 * 24 * time.Hour).Truncate(time.Second),
		KeyUsage:     x509.KeyUsageDigitalSignature,
		ExtKeyUsage:  []x509.ExtKeyUsage{x509.ExtKeyUsageClientAuth},
	}
	der, err := x509.CreateCertificate(rand.Reader, tpl, tpl, &key.PublicKey, key)
	if err != nil {
		return tls.Certificate{}, nil, err
	}
	c, err := x509.ParseCertificate(der)
	if err != nil {
		return tls.Certificate{}, nil, err
	}
	return tls.Certificate{Certificate: [][]byte{der}, PrivateKey: key, Leaf: c}, c, nil
}

func format(names []string) string {
	parts := make([]string, len(names))
	for i, n := range names {
		parts[i] = "{" + n + "}"
	}
	return strings.Join(parts, Delim) + Delim + "END"
}

func startFixture(t testing.TB, names []string) (*fixture, error) {
	hx.Quiet()
	// a local time zone that is not UTC, so that {when} / {when_iso_local} (local) and {when_iso} (UTC) differ
	time.Local = time.FixedZone("VRF", 5*3600+1800)
	casket.AppName = appName
	os.Setenv(envName, envValue)
	dir, err := os.MkdirTemp(hx.Scratch(t), "cx20vocab")
	if err != nil {
		return nil, err
	}
	fx := &fixture{dir: dir, logs: map[string]string{}, offs: map[string]int64{}, names: names, conns: map[string]*client{}, files: map[string]*os.File{}}
	fx.hostname, _ = os.Hostname()
	for {
		if fx.clientCert, fx.clientX509, err = makeClientCert(); err != nil {
			return nil, err
		}
		if !strings.Contains(string(fx.clientX509.Raw), Delim) { // the raw certificate is one of the values
			break
		}
	}
	root := filepath.Join(dir, "root")
	os.MkdirAll(root, 0o755)
	fx.backendLn = hx.ListenFresh()
	fx.backend = &http.Server{Handler: http.HandlerFunc(backendHandler)}
	go fx.backend.Serve(fx.backendLn)
	var lastErr error
	for try := 0; try < 4; try++ {
		fx.plainPort, fx.tlsPort = hx.StablePort(), hx.StablePort()
		fx.casketfile = fx.render(root)
		fx.site, lastErr = hx.StartHTTP(fx.casketfile, "")
		if lastErr == nil || !strings.Contains(lastErr.Error(), "address already in use") {
			break
		}
	}
	if lastErr != nil {
		fx.stop()
		return nil, fmt.Errorf("casket.Start: %v", lastErr)
	}
	return fx, nil
}

func (fx *fixture) render(root string) string {
	var b strings.Builder
	f := format(fx.names)
	site := func(id, key, tlsLine string, scoped bool) {
		fx.logs[id] = filepath.Join(fx.dir, id+".log")
		fmt.Fprintf(&b, "%s {\n\tbind 127.0.0.1\n\troot %s\n\t%s\n", key, root, tlsLine)
		fmt.Fprintf(&b, "\tlimits {\n\t\tbody /lim %d\n\t}\n", bodyLim)
		b.WriteString("\trequest_id\n")
		if scoped {
			fmt.Fprintf(&b, "\tlog / %s \"%s\" {\n\t\tipmask 255.255.0.0\n\t}\n", fx.logs[id], f)
		} else {
			fmt.Fprintf(&b, "\tlog / %s \"%s\"\n", fx.logs[id], f)
		}
		b.WriteString("\trewrite {\n\t\tr ^/rw/(.*)$\n\t\tto /nw/{1}?rq=1\n\t}\n")
		fmt.Fprintf(&b, "\theader / X-Vocab \"%s\"\n", f)
		fmt.Fprintf(&b, "\tbasicauth /auth %s %s\n", authUser, authPass)
		fmt.Fprintf(&b, "\tproxy /px 127.0.0.1:%d {\n\t\theader_upstream X-Up-Body \"[{request_body}]\"\n\t}\n", fx.backendLn.Addr().(*net.TCPAddr).Port)
		b.WriteString("\tverifprobe\n}\n")
	}
	tlsLine := "tls self_signed {\n\t\tclients request\n\t\tno_redirect\n\t}" // (no redirect site on certmagic's HTTP port: several instances live in this process)
	site("p1", fmt.Sprintf(":%d", fx.plainPort), "", false)
	site("p2", fmt.Sprintf(":%d/base", fx.plainPort), "", true)
	site("t1", fmt.Sprintf("a.b.test:%d", fx.tlsPort), tlsLine, false)
	site("t2", fmt.Sprintf("a.b.test:%d/base", fx.tlsPort), tlsLine, true)
	return b.String()
}

func (fx *fixture) stop() {
	for k := range fx.conns {
		fx.drop(k)
	}
	if fx.site != nil {
		fx.site.Stop()
	}
	if fx.backend != nil {
		fx.backend.Close()
	}
	for _, f := range fx.files {
		f.Close()
	}
	os.RemoveAll(fx.dir)
}

// readNew returns what was appended to a site's access log since the last call.
func (fx *fixture) readNew(id string) string {
	f := fx.files[id]
	if f == nil {
		var err error
		if f, err = os.Open(fx.logs[id]); err != nil {
			return ""
		}
		fx.files[id] = f
	}
	var out []byte
	buf := make([]byte, 64<<10)
	for {
		n, err := f.ReadAt(buf, fx.offs[id])
		out = append(out, buf[:n]...)
		fx.offs[id] += int64(n)
		if err != nil || n == 0 {
			break
		}
	}
	return string(out)
}

func (fx *fixture) drainLog(id string) { fx.readNew(id) }

// waitLog waits for the entry of the request just answered (the log middleware writes it with one Println when the
// handler has returned; a large response reaches the client before that).
func (fx *fixture) waitLog(id string) string {
	var got string
	for i := 0; i < 1500; i++ {
		got += fx.readNew(id)
		if strings.HasSuffix(got, "\n") {
			return got
		}
		time.Sleep(2 * time.Millisecond)
	}
	return got
}

// takeLog returns what was appended to a site's access log since the last call.
func (fx *fixture) takeLog(id string) string {
	for i := 0; i < 50; i++ {
		b, err := os.ReadFile(fx.logs[id])
		if err == nil && int64(len(b)) > fx.offs[id] {
			out := string(b[fx.offs[id]:])
			fx.offs[id] = int64(len(b))
			return out
		}
		time.Sleep(2 * time.Millisecond)
	}
	return ""
}
