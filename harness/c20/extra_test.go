package c20

// Two further parts of C20 (added after fault seeding showed the gaps):
//  E: the authenticated user name is request text too ({user} comes from the Authorization header,
//     also for a failed login): it must appear verbatim in the log, never expanded;
//  F: a log's scope and except list are about the request as the client made it - a rewrite that
//     moves the request under (or out of) an excepted path must not lose (or add) the line.

import (
	"encoding/base64"
	"fmt"
	"os"
	"path/filepath"
	"strings"

	"verifharness/c12"
	"verifharness/hx"
)

func partUser(res *hx.Result, scratch string) error {
	dir, err := os.MkdirTemp(scratch, "c20user")
	if err != nil {
		return err
	}
	defer os.RemoveAll(dir)
	logf := filepath.Join(dir, "user.log")
	extra := fmt.Sprintf("\tbasicauth / bob secret\n\tlog / %s %s\n", logf, quoteCF("{user}|{status}"+sentinel))
	f, err := c12.StartFixture(c12.Cfg{Errors: "none"}, dir, extra)
	if err != nil {
		return err
	}
	defer f.Stop()
	rc, err := hx.DialRaw(f.Addr())
	if err != nil {
		return err
	}
	defer rc.Close()
	vals := append([][]string{}, advValues...)
	vals = append(vals, []string{"{", "$", "}"}, []string{"{", "h", "}"})
	var names []string
	for _, v := range vals {
		name := render(v)
		if len(v) == 3 && v[1] == "$" {
			name = "{$HOME}"
		}
		if len(v) == 3 && v[1] == "h" {
			name = "{host}"
		}
		names = append(names, name)
		r, err := rc.Get("GET", "/x", f.Addr(), "Authorization: Basic "+base64.StdEncoding.EncodeToString([]byte(name+":wrong")), "X-Probe: text:ok")
		if err != nil {
			res.Add(hx.Mismatch{Key: "C20/replacer/total/user=" + name, What: "no answer to a request whose user name is " + name + ": " + err.Error()})
			return nil
		}
		if r.Status != 401 {
			return fmt.Errorf("user part: status %d", r.Status)
		}
	}
	lines := c12.ReadLines(logf)
	for i, name := range names {
		want := name + "|401" + sentinel
		got := "<no line>"
		if i < len(lines) {
			got = lines[i]
		}
		res.Count("user/" + name)
		if got != want {
			res.Add(hx.Mismatch{Key: "C20/replacer/single-pass/log/{user}/value=" + name, What: fmt.Sprintf("the user name of the Authorization header (request text) must be logged verbatim by {user}: want %q got %q", want, got),
				Case: map[string]interface{}{"format": "{user}|{status}", "user": name}, Expected: want, Observed: got})
		}
	}
	return nil
}

func partRewriteExcept(res *hx.Result, scratch string) error {
	dir, err := os.MkdirTemp(scratch, "c20rw")
	if err != nil {
		return err
	}
	defer os.RemoveAll(dir)
	logf := filepath.Join(dir, "rw.log")
	extra := fmt.Sprintf("\trewrite /in /ex/target\n\trewrite /ex/src /out\n\tlog / %s %s {\n\t\texcept /ex\n\t}\n", logf, quoteCF("{>X-Id}|{status}"+sentinel))
	f, err := c12.StartFixture(c12.Cfg{Errors: "none"}, dir, extra)
	if err != nil {
		return err
	}
	defer f.Stop()
	rc, err := hx.DialRaw(f.Addr())
	if err != nil {
		return err
	}
	defer rc.Close()
	reqs := []struct {
		id, path string
		logged   bool
	}{{"a", "/in", true}, {"b", "/ex/src", false}, {"c", "/plain", true}, {"d", "/ex/y", false}, {"e", "/in", true}}
	for _, q := range reqs {
		r, err := rc.Get("GET", q.path, f.Addr(), "X-Id: "+q.id, "X-Probe: text:ok")
		if err != nil || r.Status != 200 {
			return fmt.Errorf("rewrite/except part: %v %+v", err, r)
		}
	}
	got := strings.Join(c12.ReadLines(logf), ",")
	var wantL []string
	for _, q := range reqs {
		if q.logged {
			wantL = append(wantL, q.id+"|200"+sentinel)
		}
		res.Count("rewrite-except/" + q.id)
	}
	if want := strings.Join(wantL, ","); got != want {
		res.Add(hx.Mismatch{Key: "C20/one-line-per-log/rewrite-vs-except", What: fmt.Sprintf("log / { except /ex } with rewrite /in -> /ex/target and /ex/src -> /out: requests /in,/ex/src,/plain,/ex/y,/in must log exactly %s, logged %s", want, got),
			Expected: want, Observed: got})
	}
	return nil
}
