// C20 - access logs are complete and accurate; placeholders expand once.
//
// Four replays against real casket sites (casket.Start, raw HTTP/1.1, innermost handler verifprobe):
//
//	A  Middleware.tla terminal states of every configuration with a log: one line per request,
//	   {status}/{size} equal to what the client received (shares harness/c12).
//	B  LogScope.tla: 1..3 log directives with path scopes and `except`; lines per log file.
//	C  Replacer.tla: every format of the model is put into a `header / X-Out-k "<format>"` rule and
//	   (a sample) into a `log` format; requests carry placeholder syntax in header, query and cookie.
//	D  the cases of A issued concurrently by 16 clients against one site.
package c20

import (
	"fmt"
	"math/rand"
	"net/url"
	"os"
	"path/filepath"
	"strconv"
	"strings"
	"sync"
	"testing"

	"verifharness/c12"
	"verifharness/hx"
)

// ---- B: LogScope ------------------------------------------------------------------------------

type sdir struct {
	Scope  []string   `json:"scope"`
	Except [][]string `json:"except"`
}

type scase struct {
	Dirs       []sdir   `json:"dirs"`
	Path       []string `json:"path"`
	Want       []int    `json:"want"`
	Firstmatch []int    `json:"firstmatch"`
}

func (d sdir) String() string {
	s := strings.Join(d.Scope, "")
	for _, e := range d.Except {
		s += "!" + strings.Join(e, "")
	}
	return s
}

func dirsKey(ds []sdir) string {
	var p []string
	for _, d := range ds {
		p = append(p, d.String())
	}
	return "[" + strings.Join(p, ",") + "]"
}

func scopeExtra(ds []sdir, dir string) string {
	var b strings.Builder
	for k, d := range ds {
		fmt.Fprintf(&b, "\tlog %s %s \"{>X-Case} {status} {size}\"", strings.Join(d.Scope, ""), filepath.Join(dir, "scope"+strconv.Itoa(k)+".log"))
		if len(d.Except) > 0 {
			b.WriteString(" {\n")
			for _, e := range d.Except {
				fmt.Fprintf(&b, "\t\texcept %s\n", strings.Join(e, ""))
			}
			b.WriteString("\t}")
		}
		b.WriteString("\n")
	}
	return b.String()
}

func countLines(file, id string) int {
	n := 0
	for _, l := range c12.ReadLines(file) {
		if strings.HasPrefix(l, id+" ") {
			n++
		}
	}
	return n
}

// runScope plays all request paths of one set of log directives; returns observed counts per case.
func runScope(scratch string, cases []scase) ([][]int, error) {
	dir, err := os.MkdirTemp(scratch, "c20scope")
	if err != nil {
		return nil, err
	}
	defer os.RemoveAll(dir)
	f, err := c12.StartFixture(c12.Cfg{Errors: "none"}, dir, scopeExtra(cases[0].Dirs, dir))
	if err != nil {
		return nil, err
	}
	rc, err := hx.DialRaw(f.Addr())
	if err != nil {
		f.Stop()
		return nil, err
	}
	for i, c := range cases {
		r, err := rc.Get("GET", strings.Join(c.Path, ""), f.Addr(), "X-Case: s"+strconv.Itoa(i), "X-Probe: text:ok")
		if err != nil || r.Status != 200 {
			rc.Close()
			f.Stop()
			return nil, fmt.Errorf("scope request %v: %v %+v", c.Path, err, r)
		}
	}
	rc.Close()
	out := make([][]int, len(cases))
	for i, c := range cases {
		out[i] = make([]int, len(c.Dirs))
		for k := range c.Dirs {
			out[i][k] = countLines(filepath.Join(dir, "scope"+strconv.Itoa(k)+".log"), "s"+strconv.Itoa(i))
		}
	}
	f.Stop() // (the log files are complete: every line is written before the response ends)
	return out, nil
}

func eqInts(a, b []int) bool {
	if len(a) != len(b) {
		return false
	}
	for i := range a {
		if a[i] != b[i] {
			return false
		}
	}
	return true
}

func scopeKey(c scase, got []int) string {
	class := "other"
	if eqInts(got, c.Firstmatch) {
		class = "first-matching-scope-only"
	}
	return fmt.Sprintf("C20/one-line-per-log/%s/logs=%s/path=%s", class, dirsKey(c.Dirs), strings.Join(c.Path, ""))
}

func partScope(t *testing.T, res *hx.Result, scratch string, rnd *rand.Rand) (int, error) {
	cases := hx.LoadCases[scase](t, "LogScope")
	groups := map[string][]scase{}
	for _, c := range cases {
		groups[dirsKey(c.Dirs)] = append(groups[dirsKey(c.Dirs)], c)
	}
	keys := hx.SortedKeys(groups)
	if hx.SelfTest() {
		keys = keys[:min(len(keys), 20)]
	}
	var mu sync.Mutex
	var infra error
	hits, firstOnly := 0, 0
	ch := make(chan string)
	var wg sync.WaitGroup
	for w := 0; w < 8; w++ {
		wg.Add(1)
		go func() {
			defer wg.Done()
			for k := range ch {
				g := groups[k]
				got, err := runScope(scratch, g)
				if err != nil {
					mu.Lock()
					infra = err
					mu.Unlock()
					continue
				}
				for i, c := range g {
					nt := ""
					if len(c.Dirs) > 1 || len(c.Dirs[0].Except) > 0 {
						nt = "scope:" + k + strings.Join(c.Path, "")
					}
					res.Count(nt)
					want := c.Want
					if hx.SelfTest() {
						want = append([]int(nil), c.Want...)
						want[0] = 1 - want[0]
					}
					if eqInts(got[i], want) {
						continue
					}
					if hx.SelfTest() {
						mu.Lock()
						hits++
						mu.Unlock()
						continue
					}
					// reproduce in isolation
					again, err := runScope(scratch, []scase{c})
					if err != nil || eqInts(again[0], c.Want) {
						continue
					}
					if eqInts(again[0], c.Firstmatch) {
						// the recorded finding (findings/C20.json): a handful of instances identify it, the rest is counted
						mu.Lock()
						firstOnly++
						skip := firstOnly > 20
						mu.Unlock()
						if skip {
							continue
						}
					}
					res.Add(hx.Mismatch{Key: scopeKey(c, again[0]),
						What: fmt.Sprintf("log directives %s, request %s: lines per log file %v, required %v (in scope and not excepted => exactly one)", k, strings.Join(c.Path, ""), again[0], c.Want),
						Case: c, Expected: c.Want, Observed: again[0]})
				}
				if rnd != nil && len(g) > 0 {
					res.Sample(map[string]interface{}{"part": "B LogScope", "logs": k, "casketfile_lines": scopeExtra(g[0].Dirs, "<dir>"), "path": strings.Join(g[0].Path, ""), "want": g[0].Want, "observed": got[0]})
				}
			}
		}()
	}
	for _, k := range keys {
		ch <- k
	}
	close(ch)
	wg.Wait()
	res.AddExtra("logscope_first_matching_scope_only_cases", firstOnly)
	res.AddExtra("logscope_cases", len(cases))
	res.AddExtra("logscope_sites", len(keys))
	return hits, infra
}

// ---- C: Replacer ------------------------------------------------------------------------------

type rcase struct {
	Fmt []string `json:"fmt"`
	Tpl []string `json:"tpl"`
}

var symText = map[string]string{"{": "{", "}": "}", "\\": "\\", "t": "t", "M": "method", ">H": ">X-In", "?q": "?q", "~c": "~c", "U": "nosuch", "G": "GET", "%": "%s"}

func render(syms []string) string {
	var b strings.Builder
	for _, s := range syms {
		b.WriteString(symText[s])
	}
	return b.String()
}

// fill substitutes the request values and the empty-value marker into a template of the model.
func fill(tpl []string, v, vc, marker string) string {
	var b strings.Builder
	for _, s := range tpl {
		switch s {
		case "@":
			b.WriteString(v)
		case "@c":
			b.WriteString(vc)
		case "-":
			b.WriteString(marker)
		default:
			b.WriteString(symText[s])
		}
	}
	return b.String()
}

var advValues = [][]string{{"t"}, {"{", "M", "}"}, {"{", ">H", "}"}, {"{", "U", "}"}, {"\\", "{"}, {"}"}, {"{"}, {"t", "\\"}, {"%"}}

const sentinel = "]"
const nLogFmt = 6 // formats per site that are also used as log formats

func quoteCF(s string) string { return "\"" + strings.ReplaceAll(s, "\"", "\\\"") + "\"" }

func replExtra(cs []rcase, dir string) string {
	var b strings.Builder
	for k, c := range cs {
		fmt.Fprintf(&b, "\theader / X-Out-%d %s\n", k, quoteCF(render(c.Fmt)+sentinel))
	}
	for k, c := range cs {
		if k >= nLogFmt {
			break
		}
		fmt.Fprintf(&b, "\tlog / %s %s\n", filepath.Join(dir, "fmt"+strconv.Itoa(k)+".log"), quoteCF(render(c.Fmt)+sentinel))
	}
	return b.String()
}

type replMismatch struct {
	c     rcase
	v     []string
	where string // "header" | "log"
	want  string
	got   string
}

// runRepl starts one site carrying the formats and sends one request per value.
func runRepl(scratch string, cs []rcase, values [][]string, corrupt bool) (int, []replMismatch, error) {
	dir, err := os.MkdirTemp(scratch, "c20repl")
	if err != nil {
		return 0, nil, err
	}
	defer os.RemoveAll(dir)
	f, err := c12.StartFixture(c12.Cfg{Errors: "none"}, dir, replExtra(cs, dir))
	if err != nil {
		return 0, nil, err
	}
	defer f.Stop()
	rc, err := hx.DialRaw(f.Addr())
	if err != nil {
		return 0, nil, err
	}
	defer rc.Close()
	var bad []replMismatch
	n := 0
	for vi, v := range values {
		vs := render(v)
		vcs := strings.ReplaceAll(vs, "\\", "")
		r, err := rc.Get("GET", "/x?q="+url.QueryEscape(vs), f.Addr(), "X-In: "+vs, "Cookie: c="+vcs, "X-Probe: text:ok")
		if err != nil {
			// no answer: the expansion did not terminate (Total) or the server died
			bad = append(bad, replMismatch{cs[0], v, "total", "an answer", "<no response: " + err.Error() + ">"})
			return n, bad, nil
		}
		if r.Status != 200 {
			return n, bad, fmt.Errorf("replacer request value %q: status %d", vs, r.Status)
		}
		for k, c := range cs {
			tpl := c.Tpl
			if corrupt && k == 0 {
				tpl = append([]string{"t"}, tpl...)
			}
			n++
			want := fill(tpl, vs, vcs, "") + sentinel
			if got := r.Header.Get("X-Out-" + strconv.Itoa(k)); got != want {
				bad = append(bad, replMismatch{c, v, "header", want, got})
			}
			if k < nLogFmt {
				n++
				want := fill(tpl, vs, vcs, "-") + sentinel
				lines := c12.ReadLines(filepath.Join(dir, "fmt"+strconv.Itoa(k)+".log"))
				got := "<no line>"
				if vi < len(lines) {
					got = lines[vi]
				}
				if got != want {
					bad = append(bad, replMismatch{c, v, "log", want, got})
				}
			}
		}
	}
	return n, bad, nil
}

func randValue(rnd *rand.Rand) []string {
	syms := []string{"{", "}", "\\", "t", "M", ">H", "?q", "~c", "U", "%"}
	n := 1 + rnd.Intn(6)
	v := make([]string, n)
	for i := range v {
		v[i] = syms[rnd.Intn(len(syms))]
	}
	return v
}

func partReplacer(t *testing.T, res *hx.Result, scratch string, rnd *rand.Rand) (int, error) {
	cases := hx.LoadCases[rcase](t, "Replacer")
	res.AddExtra("replacer_formats_from_tlc", len(cases))
	per := 60
	var idx []int
	if hx.Thorough() {
		idx = hx.SampleIdx(rnd, len(cases), len(cases))
	} else {
		idx = hx.SampleIdx(rnd, len(cases), 7500)
	}
	if hx.SelfTest() {
		idx = idx[:min(len(idx), 240)]
	}
	rnd.Shuffle(len(idx), func(i, j int) { idx[i], idx[j] = idx[j], idx[i] }) // which formats get a log too varies with the seed
	var jobs [][]rcase
	for i := 0; i < len(idx); i += per {
		var g []rcase
		for _, k := range idx[i:min(i+per, len(idx))] {
			g = append(g, cases[k])
		}
		jobs = append(jobs, g)
	}
	var mu sync.Mutex
	var infra error
	hits, evals := 0, 0
	aborted := false
	ch := make(chan int)
	var wg sync.WaitGroup
	for w := 0; w < 8; w++ {
		wg.Add(1)
		wr := rand.New(rand.NewSource(hx.Seed()*7919 + int64(w)))
		go func() {
			defer wg.Done()
			for j := range ch {
				mu.Lock()
				stop := aborted
				mu.Unlock()
				if stop {
					continue
				}
				values := append([][]string(nil), advValues...)
				for k := 0; k < 4; k++ {
					values = append(values, randValue(wr))
				}
				n, bad, err := runRepl(scratch, jobs[j], values, hx.SelfTest())
				mu.Lock()
				evals += n
				if err != nil {
					infra = err
				}
				mu.Unlock()
				for _, c := range jobs[j] {
					nt := ""
					if strings.Contains(render(c.Fmt), "{") {
						nt = "fmt:" + render(c.Fmt)
					}
					res.Count(nt)
				}
				for _, m := range bad {
					if hx.SelfTest() {
						mu.Lock()
						hits++
						mu.Unlock()
						continue
					}
					// reproduce with a site that carries only this format
					_, again, err := runRepl(scratch, []rcase{m.c}, [][]string{m.v}, false)
					if err != nil || len(again) == 0 {
						continue
					}
					a := again[0]
					if a.where == "total" {
						mu.Lock()
						aborted = true // every further site would hang as well
						mu.Unlock()
					}
					for _, x := range again {
						if x.where == m.where {
							a = x
						}
					}
					res.Add(hx.Mismatch{Key: fmt.Sprintf("C20/replacer/%s/format=%s/value=%s", a.where, render(m.c.Fmt), render(m.v)),
						What: fmt.Sprintf("format %q with request value %q expands (in a %s) to %q, the single-pass expansion is %q", render(m.c.Fmt), render(m.v), a.where, a.got, a.want),
						Case: map[string]interface{}{"fmt": m.c.Fmt, "tpl": m.c.Tpl, "value": m.v}, Expected: a.want, Observed: a.got})
				}
				if j == 0 && len(jobs[j]) > 0 {
					c := jobs[j][0]
					res.Sample(map[string]interface{}{"part": "C Replacer", "format": render(c.Fmt), "template_from_tlc": c.Tpl, "value": "{method}", "expected_header": fill(c.Tpl, "{method}", "{method}", "") + sentinel})
				}
			}
		}()
	}
	for j := range jobs {
		ch <- j
	}
	close(ch)
	wg.Wait()
	res.AddExtra("replacer_expansions_compared", evals)
	res.AddExtra("replacer_sites", len(jobs))
	return hits, infra
}

// ---- D: concurrent batches --------------------------------------------------------------------

func partConcurrent(res *hx.Result, scratch string, groups [][]c12.Case, rnd *rand.Rand) error {
	// three log-enabled configurations, all their cases at once from 16 clients
	var pick [][]c12.Case
	for _, want := range []string{"on={log}/errors=none", "on={log,gzip,header}/errors=default", "on={log,templates}/errors=page", "on={log,gzip,header,status,internal,templates}/errors=visible"} {
		for _, g := range groups {
			if strings.HasPrefix(g[0].CfgKey(), want+"/") {
				pick = append(pick, g)
			}
		}
	}
	total := 0
	for _, g := range pick {
		f, err := c12.StartFixture(g[0].Cfg(), scratch, "")
		if err != nil {
			return err
		}
		type obs struct {
			c  c12.Case
			id string
			cv c12.ClientView
		}
		rounds := 4
		out := make([]obs, 0, len(g)*rounds)
		var mu sync.Mutex
		var wg sync.WaitGroup
		ch := make(chan obs)
		for w := 0; w < 16; w++ {
			wg.Add(1)
			go func() {
				defer wg.Done()
				for o := range ch {
					o.cv = f.Exchange(o.id, o.c.URLPath(), o.c.Script(), o.c.Gz)
					mu.Lock()
					out = append(out, o)
					mu.Unlock()
				}
			}()
		}
		for rd := 0; rd < rounds; rd++ {
			for _, i := range rnd.Perm(len(g)) {
				ch <- obs{c: g[i], id: fmt.Sprintf("k%d-%d", rd, i)}
			}
		}
		close(ch)
		wg.Wait()
		for _, o := range out {
			f.Counter.View(o.id) // wait for the handler (and with it the log line)
		}
		lines := map[string][]string{}
		for _, l := range c12.ReadLines(f.AccessLog(0)) {
			p := strings.Split(l, " ")
			if len(p) == 3 {
				lines[p[2]] = append(lines[p[2]], l)
			}
		}
		f.Stop()
		for _, o := range out {
			total++
			res.Count("concurrent:" + o.c.Key())
			ls := lines[o.id]
			ok := len(ls) == 1
			if ok && o.c.Eff.K != "panicafter" {
				ok = ls[0] == fmt.Sprintf("%d %d %s", o.cv.Status, len(o.cv.Raw), o.id)
			}
			if hx.SelfTest() {
				continue
			}
			if !ok {
				res.Add(hx.Mismatch{Key: "C20/concurrent/" + o.c.Key(),
					What: fmt.Sprintf("16 concurrent clients: request %s got status %d with %d body bytes, access log lines for it: %q", o.c.Key(), o.cv.Status, len(o.cv.Raw), ls),
					Case: o.c, Observed: ls})
			}
		}
	}
	res.AddExtra("concurrent_requests", total)
	return nil
}

// ---- the test ------------------------------------------------------------------------------------

func TestC20(t *testing.T) {
	hx.Quiet()
	res := hx.NewResult("TestC20", "A: terminal states of Middleware.tla for every configuration with a log (line count, {status}/{size} vs client); B: LogScope.tla sets of 1..3 log directives (scope, except) x request paths; C: formats of Replacer.tla as header and log formats x adversarial + seeded request values; D: the cases of A from 16 concurrent clients; non-trivial = >=2 wrappers / >=2 logs or an except / a format with a brace")
	defer res.Write(t)
	scratch := hx.Scratch(t)
	rnd := hx.Rand()

	r := &c12.Runner{Res: res, Scratch: scratch, Drift: map[string]int{}, Check: c12.ViolationsC20, Prop: "C20"}

	if hx.Replay() != "" {
		replayOne(t, res, r, scratch)
		return
	}

	// A
	all := hx.LoadCases[c12.Case](t, "Middleware")
	var withLog []c12.Case
	for _, c := range all {
		if c.Cfg().Has("log") {
			withLog = append(withLog, c)
		}
	}
	groups := c12.GroupByConfig(withLog)
	npad := 1
	if hx.Thorough() {
		npad = 2
	}
	jobs := c12.Jobs(groups, rnd, npad)
	if hx.SelfTest() {
		jobs = jobs[:min(len(jobs), 8)]
	}
	res.AddExtra("middleware_cases_with_log", len(withLog))
	if hx.SelfTest() {
		// corrupt what the client "saw": shift the observed status through the check function
		r.Check = func(c c12.Case, o c12.Obs) []string { o.Status++; return c12.ViolationsC20(c, o) }
		for _, g := range jobs {
			// only configurations whose cases all have a line to compare
			r.RunGroup(g, true)
		}
	} else {
		r.RunAll(jobs, false)
	}
	nA := res.Evaluations
	hitsA := r.Hits

	// B, C
	hitsB, errB := partScope(t, res, scratch, rnd)
	nB := res.Evaluations - nA
	hitsC, errC := partReplacer(t, res, scratch, rnd)

	// D
	var errD error
	if !hx.SelfTest() {
		errD = partConcurrent(res, scratch, groups, rnd)
	}
	// E, F
	if !hx.SelfTest() {
		if err := partUser(res, scratch); err != nil && errD == nil {
			errD = err
		}
		if err := partRewriteExcept(res, scratch); err != nil && errD == nil {
			errD = err
		}
	}

	res.Replayed = res.Evaluations
	r.DriftReport()
	for _, e := range []error{r.Infra, errB, errC, errD} {
		if e != nil && res.Infra == "" {
			res.Infra = e.Error()
		}
	}
	if hx.SelfTest() && res.Infra == "" {
		switch {
		case hitsA < nA:
			res.Infra = fmt.Sprintf("selftest A: corrupted observation noticed in only %d of %d cases", hitsA, nA)
		case hitsB < nB:
			res.Infra = fmt.Sprintf("selftest B: corrupted expectation noticed in only %d of %d cases", hitsB, nB)
		case hitsC == 0:
			res.Infra = "selftest C: corrupted template was not noticed"
		}
	}
}

func replayOne(t *testing.T, res *hx.Result, r *c12.Runner, scratch string) {
	res.Count("replay1")
	res.Count("replay2")
	// the three kinds of stored cases are told apart by their members
	if c, ok := hx.LoadReplay[scase](t); ok && len(c.Dirs) > 0 {
		got, err := runScope(scratch, []scase{c})
		if err != nil {
			res.Infra = err.Error()
			return
		}
		if !eqInts(got[0], c.Want) {
			again, err := runScope(scratch, []scase{c})
			if err == nil && !eqInts(again[0], c.Want) {
				res.Add(hx.Mismatch{Key: scopeKey(c, again[0]), What: fmt.Sprintf("replayed: lines per log %v, required %v", again[0], c.Want), Case: c, Observed: again[0]})
			}
		}
		return
	}
	type rrep struct {
		Fmt   []string `json:"fmt"`
		Tpl   []string `json:"tpl"`
		Value []string `json:"value"`
	}
	if c, ok := hx.LoadReplay[rrep](t); ok && len(c.Fmt) > 0 {
		for k := 0; k < 2; k++ {
			_, bad, err := runRepl(scratch, []rcase{{Fmt: c.Fmt, Tpl: c.Tpl}}, [][]string{c.Value}, false)
			if err != nil {
				res.Infra = err.Error()
				return
			}
			if len(bad) == 0 {
				return
			}
			if k == 1 {
				a := bad[0]
				res.Add(hx.Mismatch{Key: fmt.Sprintf("C20/replacer/%s/format=%s/value=%s", a.where, render(c.Fmt), render(c.Value)), What: fmt.Sprintf("replayed: got %q want %q", a.got, a.want), Case: c, Observed: a.got})
			}
		}
		return
	}
	if c, ok := hx.LoadReplay[c12.Case](t); ok && c.Errors != "" {
		f, err := c12.StartFixture(c.Cfg(), scratch, "")
		if err != nil {
			res.Infra = err.Error()
			return
		}
		o := f.Run(c, "replay")
		f.Stop()
		for _, cl := range c12.ViolationsC20(c, o) {
			r.Confirm(c, cl, o)
		}
		return
	}
	res.Infra = "replay file not understood"
}
