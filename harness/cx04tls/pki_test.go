package cx04tls

// The certificates of the backends. Two authorities: CA1 is what the process trusts by default (its PEM file is
// named by SSL_CERT_FILE before the first TLS verification of the process), CA2 is trusted only by a rule that
// names its file in `ca_certificates`. A leaf is described abstractly the way BackendTLS.tla describes it: issuer,
// DNS names, IP addresses, expired or not.

import (
	"crypto/ecdsa"
	"crypto/elliptic"
	"crypto/rand"
	"crypto/tls"
	"crypto/x509"
	"crypto/x509/pkix"
	"encoding/pem"
	"fmt"
	"math/big"
	"net"
	"os"
	"path/filepath"
	"time"
)

type authority struct {
	cert *x509.Certificate
	key  *ecdsa.PrivateKey
	pem  []byte
	file string
}

type pki struct {
	dir      string
	ca1, ca2 *authority
	serial   int64
	leaves   map[string]*tls.Certificate // by certificate kind of the model
	// a client certificate (issued by CA2) for `tls_client`
	clientCertFile, clientKeyFile string
}

func newAuthority(dir, name string, serial int64) (*authority, error) {
	key, err := ecdsa.GenerateKey(elliptic.P256(), rand.Reader)
	if err != nil {
		return nil, err
	}
	now := time.Now()
	tpl := &x509.Certificate{SerialNumber: big.NewInt(serial), Subject: pkix.Name{CommonName: "cx04tls " + name},
		NotBefore: now.Add(-time.Hour), NotAfter: now.Add(240 * time.Hour), IsCA: true, BasicConstraintsValid: true,
		KeyUsage: x509.KeyUsageCertSign | x509.KeyUsageDigitalSignature}
	der, err := x509.CreateCertificate(rand.Reader, tpl, tpl, &key.PublicKey, key)
	if err != nil {
		return nil, err
	}
	cert, err := x509.ParseCertificate(der)
	if err != nil {
		return nil, err
	}
	a := &authority{cert: cert, key: key, pem: pem.EncodeToMemory(&pem.Block{Type: "CERTIFICATE", Bytes: der}), file: filepath.Join(dir, name+".pem")}
	if err := os.WriteFile(a.file, a.pem, 0o644); err != nil {
		return nil, err
	}
	return a, nil
}

// leafSpec: the abstract certificate of BackendTLS.tla.
type leafSpec struct {
	issuer  string // "ca1" | "ca2" | "self"
	names   []string
	ips     []string
	expired bool
}

func (p *pki) issue(s leafSpec, usage x509.ExtKeyUsage) (*tls.Certificate, []byte, []byte, error) {
	key, err := ecdsa.GenerateKey(elliptic.P256(), rand.Reader)
	if err != nil {
		return nil, nil, nil, err
	}
	p.serial++
	now := time.Now()
	tpl := &x509.Certificate{SerialNumber: big.NewInt(p.serial), Subject: pkix.Name{CommonName: fmt.Sprintf("leaf %d", p.serial)},
		NotBefore: now.Add(-2 * time.Hour), NotAfter: now.Add(240 * time.Hour),
		KeyUsage: x509.KeyUsageDigitalSignature, ExtKeyUsage: []x509.ExtKeyUsage{usage}, DNSNames: s.names}
	if s.expired {
		tpl.NotAfter = now.Add(-time.Hour)
	}
	for _, ip := range s.ips {
		tpl.IPAddresses = append(tpl.IPAddresses, net.ParseIP(ip))
	}
	var parent *x509.Certificate
	var signer *ecdsa.PrivateKey
	switch s.issuer {
	case "ca1":
		parent, signer = p.ca1.cert, p.ca1.key
	case "ca2":
		parent, signer = p.ca2.cert, p.ca2.key
	case "self":
		parent, signer = tpl, key
	default:
		return nil, nil, nil, fmt.Errorf("unknown issuer %q", s.issuer)
	}
	der, err := x509.CreateCertificate(rand.Reader, tpl, parent, &key.PublicKey, signer)
	if err != nil {
		return nil, nil, nil, err
	}
	kb, err := x509.MarshalECPrivateKey(key)
	if err != nil {
		return nil, nil, nil, err
	}
	certPEM := pem.EncodeToMemory(&pem.Block{Type: "CERTIFICATE", Bytes: der})
	keyPEM := pem.EncodeToMemory(&pem.Block{Type: "EC PRIVATE KEY", Bytes: kb})
	c, err := tls.X509KeyPair(certPEM, keyPEM)
	if err != nil {
		return nil, nil, nil, err
	}
	return &c, certPEM, keyPEM, nil
}

// newPKI makes both authorities and points the process's default roots at CA1 (and at nothing else).
// It must run before the first certificate verification of the process: crypto/x509 reads
// SSL_CERT_FILE / SSL_CERT_DIR once.
func newPKI(dir string) (*pki, error) {
	p := &pki{dir: dir, serial: 100, leaves: map[string]*tls.Certificate{}}
	var err error
	if p.ca1, err = newAuthority(dir, "ca1", 1); err != nil {
		return nil, err
	}
	if p.ca2, err = newAuthority(dir, "ca2", 2); err != nil {
		return nil, err
	}
	empty := filepath.Join(dir, "nocerts")
	if err := os.MkdirAll(empty, 0o755); err != nil {
		return nil, err
	}
	os.Setenv("SSL_CERT_FILE", p.ca1.file)
	os.Setenv("SSL_CERT_DIR", empty)
	// the upstream transports honour the proxy environment: none of that here
	for _, k := range []string{"HTTP_PROXY", "HTTPS_PROXY", "http_proxy", "https_proxy", "ALL_PROXY", "all_proxy"} {
		os.Unsetenv(k)
	}
	_, cp, kp, err := p.issue(leafSpec{issuer: "ca2", names: []string{"proxy.test"}}, x509.ExtKeyUsageClientAuth)
	if err != nil {
		return nil, err
	}
	p.clientCertFile, p.clientKeyFile = filepath.Join(dir, "client.pem"), filepath.Join(dir, "client.key")
	if err := os.WriteFile(p.clientCertFile, cp, 0o644); err != nil {
		return nil, err
	}
	if err := os.WriteFile(p.clientKeyFile, kp, 0o600); err != nil {
		return nil, err
	}
	return p, nil
}

// leaf returns (making it on first use) the certificate of one kind of the model.
func (p *pki) leaf(kind string, s leafSpec) (*tls.Certificate, error) {
	if c, ok := p.leaves[kind]; ok {
		return c, nil
	}
	c, _, _, err := p.issue(s, x509.ExtKeyUsageServerAuth)
	if err != nil {
		return nil, err
	}
	p.leaves[kind] = c
	return c, nil
}
