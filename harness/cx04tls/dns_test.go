package cx04tls

// Names without a network: a DNS responder on a loopback UDP port, and net.DefaultResolver pointed at it.
// casket's dialer (net.Dialer with no Resolver of its own) and the SRV look-ups of `srv://` upstreams
// (ReverseProxy.srvResolver = net.DefaultResolver, read when the upstream host is made) both go through
// net.DefaultResolver, so replacing that variable BEFORE the sites are loaded gives the harness the
// name space:   <anything>.test   A     127.0.0.1            (AAAA: no data)
//               s<port>.svc.test  SRV   0 0 <port> b.test.   (the port is spelled in the name)
// Names of /etc/hosts (localhost) keep resolving from the file.

import (
	"context"
	"net"
	"strconv"
	"strings"
	"sync"
	"sync/atomic"

	"golang.org/x/net/dns/dnsmessage"
)

type fakeDNS struct {
	pc      net.PacketConn
	addr    string
	queries atomic.Int64
	mu      sync.Mutex
	asked   map[string]int // lower-case name + "/" + type -> count
}

func startDNS() (*fakeDNS, error) {
	pc, err := net.ListenPacket("udp", "127.0.0.1:0")
	if err != nil {
		return nil, err
	}
	d := &fakeDNS{pc: pc, addr: pc.LocalAddr().String(), asked: map[string]int{}}
	go d.serve()
	net.DefaultResolver = &net.Resolver{PreferGo: true, Dial: func(ctx context.Context, network, address string) (net.Conn, error) {
		var nd net.Dialer
		return nd.DialContext(ctx, "udp", d.addr)
	}}
	return d, nil
}

func (d *fakeDNS) close() { d.pc.Close() }

func (d *fakeDNS) count(name, typ string) int {
	d.mu.Lock()
	defer d.mu.Unlock()
	return d.asked[strings.ToLower(name)+"/"+typ]
}

func (d *fakeDNS) serve() {
	buf := make([]byte, 1500)
	for {
		n, from, err := d.pc.ReadFrom(buf)
		if err != nil {
			return
		}
		var p dnsmessage.Parser
		hdr, err := p.Start(buf[:n])
		if err != nil {
			continue
		}
		q, err := p.Question()
		if err != nil {
			continue
		}
		d.queries.Add(1)
		name := strings.ToLower(strings.TrimSuffix(q.Name.String(), "."))
		d.mu.Lock()
		d.asked[name+"/"+strings.TrimPrefix(q.Type.String(), "Type")]++
		d.mu.Unlock()
		b := dnsmessage.NewBuilder(nil, dnsmessage.Header{ID: hdr.ID, Response: true, Authoritative: true, RecursionDesired: hdr.RecursionDesired, RecursionAvailable: true})
		b.EnableCompression()
		b.StartQuestions()
		b.Question(q)
		b.StartAnswers()
		rh := dnsmessage.ResourceHeader{Name: q.Name, Class: dnsmessage.ClassINET, TTL: 60}
		known := strings.HasSuffix(name, ".test")
		switch {
		case !known:
			// NXDOMAIN below
		case q.Type == dnsmessage.TypeA:
			b.AResource(rh, dnsmessage.AResource{A: [4]byte{127, 0, 0, 1}})
		case q.Type == dnsmessage.TypeSRV:
			label, _, _ := strings.Cut(name, ".")
			if port, err := strconv.Atoi(strings.TrimPrefix(label, "s")); err == nil && strings.HasSuffix(name, ".svc.test") {
				b.SRVResource(rh, dnsmessage.SRVResource{Priority: 0, Weight: 0, Port: uint16(port), Target: dnsmessage.MustNewName("b.test.")})
			}
		}
		msg, err := b.Finish()
		if err != nil {
			continue
		}
		if !known {
			msg[3] |= 3 // RCODE 3: no such name
		}
		d.pc.WriteTo(msg, from)
	}
}
