package cx04tls

// Recording backends. One listener per "personality" (certificate kind x ALPN ability x handshake manners); what
// happens after the handshake is scripted by the request itself (header X-Do). Every connection is recorded from the
// backend's side: the SNI and the ALPN offer of the ClientHello, whether the handshake completed (a proxy that does
// not accept the certificate aborts it with an alert), the negotiated protocol, a client certificate, every request
// (method, request-target, Host, headers, body) and when the peer closed.

import (
	"bufio"
	"bytes"
	"crypto/sha256"
	"crypto/tls"
	"crypto/x509"
	"encoding/hex"
	"fmt"
	"io"
	"net"
	"net/http"
	"os"
	"sort"
	"strconv"
	"strings"
	"sync"
	"time"

	"golang.org/x/net/http2"
)

type reqRec struct {
	ID     string      `json:"id"`
	Proto  string      `json:"proto"` // HTTP/1.1 | HTTP/2.0
	Method string      `json:"method"`
	URI    string      `json:"uri"`
	Host   string      `json:"host"`
	Header http.Header `json:"header"`
	BodyN  int         `json:"body_len"`
	BodyH  string      `json:"body_sha"`
	CL     int64       `json:"content_length"`
	TE     []string    `json:"transfer_encoding,omitempty"`
}

type connRec struct {
	Seq        int      `json:"seq"`
	Marker     string   `json:"marker,omitempty"`
	TLS        bool     `json:"tls"`          // the first byte looked like a TLS record
	SNI        string   `json:"sni"`          // "" = no server_name extension
	Offer      []string `json:"alpn_offer"`   // ALPN protocols the client offered
	HS         string   `json:"handshake"`    // "" (plain) | "pending" | "ok" | "failed: ..."
	Proto      string   `json:"alpn"`         // negotiated
	ClientCert bool     `json:"client_cert"`  // the client presented a certificate
	Bytes      int      `json:"plain_bytes"`  // bytes read on a connection that never became a request (muted hello)
	Reqs       []reqRec `json:"requests"`
	Closed     bool     `json:"peer_closed"`  // the peer closed (or reset) the connection
	Cancelled  []string `json:"cancelled,omitempty"` // h2: requests whose stream the peer reset
	ClosedAt   time.Time `json:"-"`
	AcceptedAt time.Time `json:"-"`
}

type personality struct {
	Cert   string // certificate kind of the model; "" = no TLS (plain HTTP backend)
	H2     bool   // the backend offers h2 in ALPN
	Mute   bool   // accepts the connection, reads, never answers (neither ServerHello nor HTTP)
	WantCC bool   // asks for a client certificate (and records whether one came)
}

func (p personality) String() string {
	s := p.Cert
	if s == "" {
		s = "plain"
	}
	if p.H2 {
		s += "+h2"
	}
	if p.Mute {
		s += "+mute"
	}
	if p.WantCC {
		s += "+cc"
	}
	return s
}

type backend struct {
	pers personality
	name string
	ln   net.Listener
	port int
	sock string // unix socket path ("" = TCP)
	cert *tls.Certificate
	cc   *x509.CertPool

	mu     sync.Mutex
	cond   *sync.Cond
	conns  []*connRec
	open   map[*connRec]net.Conn
	marked map[string]int // marker id -> seq of the marker connection
	holds  map[string]chan struct{}
	held   map[string]int
}

func newBackend(p personality, cert *tls.Certificate, cc *x509.CertPool, unixPath string) (*backend, error) {
	b := &backend{pers: p, name: p.String(), cert: cert, cc: cc, open: map[*connRec]net.Conn{}, marked: map[string]int{}, holds: map[string]chan struct{}{}, held: map[string]int{}}
	b.cond = sync.NewCond(&b.mu)
	var err error
	if unixPath != "" {
		os.Remove(unixPath)
		b.ln, err = net.Listen("unix", unixPath)
		b.sock = unixPath
		b.name += "@unix"
	} else {
		b.ln, err = net.Listen("tcp", "127.0.0.1:0")
		if err == nil {
			b.port = b.ln.Addr().(*net.TCPAddr).Port
		}
	}
	if err != nil {
		return nil, err
	}
	go b.acceptLoop()
	return b, nil
}

func (b *backend) acceptLoop() {
	for {
		c, err := b.ln.Accept()
		if err != nil {
			return
		}
		b.mu.Lock()
		rec := &connRec{Seq: len(b.conns) + 1, AcceptedAt: time.Now()}
		b.conns = append(b.conns, rec)
		b.open[rec] = c
		b.mu.Unlock()
		go b.serve(c, rec)
	}
}

func (b *backend) update(f func()) {
	b.mu.Lock()
	f()
	b.cond.Broadcast()
	b.mu.Unlock()
}

type peekConn struct {
	net.Conn
	br *bufio.Reader
}

func (p *peekConn) Read(b []byte) (int, error) { return p.br.Read(b) }

func (b *backend) serve(c net.Conn, rec *connRec) {
	defer func() {
		c.Close()
		b.update(func() {
			delete(b.open, rec)
			if rec.HS == "pending" {
				rec.HS = "failed: connection ended"
			}
			if !rec.Closed {
				rec.Closed, rec.ClosedAt = true, time.Now()
			}
		})
	}()
	br := bufio.NewReaderSize(c, 32<<10)
	c.SetReadDeadline(time.Now().Add(180 * time.Second))
	first, err := br.Peek(1)
	if err != nil {
		return
	}
	if first[0] == 0 { // the harness's own marker connection
		br.ReadByte()
		line, _ := br.ReadString('\n')
		id := strings.TrimSpace(line)
		b.update(func() { rec.Marker = id; b.marked[id] = rec.Seq })
		return
	}
	isTLS := first[0] == 0x16
	b.update(func() {
		rec.TLS = isTLS
		if isTLS && b.pers.Cert != "" {
			rec.HS = "pending"
		}
	})
	if b.pers.Mute {
		// swallow whatever comes, answer nothing, notice the close
		buf := make([]byte, 4096)
		for {
			n, err := br.Read(buf)
			b.update(func() { rec.Bytes += n })
			if err != nil {
				return
			}
		}
	}
	var conn net.Conn = &peekConn{Conn: c, br: br}
	if b.pers.Cert != "" {
		cfg := &tls.Config{MinVersion: tls.VersionTLS12,
			GetCertificate: func(h *tls.ClientHelloInfo) (*tls.Certificate, error) {
				b.update(func() { rec.SNI = h.ServerName; rec.Offer = append([]string(nil), h.SupportedProtos...) })
				return b.cert, nil
			}}
		if b.pers.H2 {
			cfg.NextProtos = []string{"h2", "http/1.1"}
		} else {
			cfg.NextProtos = []string{"http/1.1"}
		}
		if b.pers.WantCC {
			cfg.ClientAuth = tls.RequestClientCert
		}
		tc := tls.Server(conn, cfg)
		c.SetDeadline(time.Now().Add(60 * time.Second))
		if err := tc.Handshake(); err != nil {
			b.update(func() { rec.HS = "failed: " + err.Error() })
			return
		}
		// TLS 1.3: the client's verdict on our certificate arrives after our Handshake returned. Read the first
		// application byte before calling the handshake a success from this side.
		c.SetDeadline(time.Time{})
		st := tc.ConnectionState()
		one := make([]byte, 1)
		c.SetReadDeadline(time.Now().Add(180 * time.Second))
		n, err := tc.Read(one)
		if err != nil {
			msg := err.Error()
			if err == io.EOF {
				msg = "closed without a request"
				b.update(func() { rec.HS = "ok"; rec.Proto = st.NegotiatedProtocol; rec.ClientCert = len(st.PeerCertificates) > 0 })
				_ = msg
				return
			}
			b.update(func() { rec.HS = "failed: " + msg })
			return
		}
		b.update(func() { rec.HS = "ok"; rec.Proto = st.NegotiatedProtocol; rec.ClientCert = len(st.PeerCertificates) > 0 })
		conn = &prefixConn{Conn: tc, pre: one[:n]}
		if st.NegotiatedProtocol == "h2" {
			b.serveH2(conn, rec)
			return
		}
		br = bufio.NewReaderSize(conn, 32<<10)
	}
	b.serveH1(conn, br, rec)
}

type prefixConn struct {
	net.Conn
	pre []byte
}

func (p *prefixConn) Read(b []byte) (int, error) {
	if len(p.pre) > 0 {
		n := copy(b, p.pre)
		p.pre = p.pre[n:]
		return n, nil
	}
	return p.Conn.Read(b)
}

func record(r *http.Request, body []byte) reqRec {
	h := sha256.Sum256(body)
	rr := reqRec{ID: r.Header.Get("X-Case"), Proto: r.Proto, Method: r.Method, URI: r.RequestURI, Host: r.Host, Header: r.Header.Clone(),
		BodyN: len(body), BodyH: hex.EncodeToString(h[:8]), CL: r.ContentLength, TE: r.TransferEncoding}
	return rr
}

// act performs the scripted behaviour; it returns (status, header, body, mute).
func (b *backend) act(r *http.Request, rr reqRec) (int, http.Header, []byte, bool) {
	do := r.Header.Get("X-Do")
	hdr := http.Header{"X-Backend": {b.name}, "Content-Type": {"text/plain"}}
	switch {
	case strings.HasPrefix(do, "redirect:"):
		hdr.Set("Location", strings.TrimPrefix(do, "redirect:"))
		return http.StatusFound, hdr, []byte("moved"), false
	case do == "mute":
		return 0, nil, nil, true
	case strings.HasPrefix(do, "hold:"):
		g := strings.TrimPrefix(do, "hold:")
		b.mu.Lock()
		ch, ok := b.holds[g]
		if !ok {
			ch = make(chan struct{})
			b.holds[g] = ch
		}
		b.held[g]++
		b.cond.Broadcast()
		b.mu.Unlock()
		select {
		case <-ch:
		case <-time.After(30 * time.Second):
		}
	}
	return http.StatusOK, hdr, []byte("ok " + b.name + " " + rr.ID + " " + rr.BodyH + " " + strconv.Itoa(rr.BodyN)), false
}

func (b *backend) serveH1(c net.Conn, br *bufio.Reader, rec *connRec) {
	for {
		c.SetReadDeadline(time.Now().Add(180 * time.Second))
		r, err := http.ReadRequest(br)
		if err != nil {
			return
		}
		body, _ := io.ReadAll(r.Body)
		rr := record(r, body)
		b.update(func() { rec.Reqs = append(rec.Reqs, rr) })
		status, hdr, out, mute := b.act(r, rr)
		if mute {
			// never answer; notice when the peer gives up
			c.SetReadDeadline(time.Now().Add(180 * time.Second))
			br.Peek(1)
			return
		}
		var w bytes.Buffer
		fmt.Fprintf(&w, "HTTP/1.1 %d %s\r\n", status, http.StatusText(status))
		keys := make([]string, 0, len(hdr))
		for k := range hdr {
			keys = append(keys, k)
		}
		sort.Strings(keys)
		for _, k := range keys {
			for _, v := range hdr[k] {
				fmt.Fprintf(&w, "%s: %s\r\n", k, v)
			}
		}
		fmt.Fprintf(&w, "Content-Length: %d\r\n\r\n", len(out))
		w.Write(out)
		c.SetWriteDeadline(time.Now().Add(20 * time.Second))
		if _, err := c.Write(w.Bytes()); err != nil {
			return
		}
		if r.Close {
			// the proxy announced `Connection: close`: it is the one who closes; wait for it
			c.SetReadDeadline(time.Now().Add(180 * time.Second))
			br.Peek(1)
			return
		}
	}
}

func (b *backend) serveH2(c net.Conn, rec *connRec) {
	srv := &http2.Server{}
	srv.ServeConn(c, &http2.ServeConnOpts{Handler: http.HandlerFunc(func(w http.ResponseWriter, r *http.Request) {
		body, _ := io.ReadAll(r.Body)
		rr := record(r, body)
		b.update(func() { rec.Reqs = append(rec.Reqs, rr) })
		status, hdr, out, mute := b.act(r, rr)
		if mute {
			<-r.Context().Done()
			b.update(func() { rec.Cancelled = append(rec.Cancelled, rr.ID) })
			return
		}
		for k, v := range hdr {
			w.Header()[k] = v
		}
		w.Header().Set("Content-Length", strconv.Itoa(len(out)))
		w.WriteHeader(status)
		w.Write(out)
	})})
}

// mark makes a marker connection and waits until the backend has seen it: every connection made before (accepted by
// the kernel in order) is then registered. It returns the number of connections registered before the marker.
func (b *backend) mark(id string) (int, error) {
	var c net.Conn
	var err error
	if b.sock != "" {
		c, err = net.DialTimeout("unix", b.sock, 5*time.Second)
	} else {
		c, err = net.DialTimeout("tcp", "127.0.0.1:"+strconv.Itoa(b.port), 5*time.Second)
	}
	if err != nil {
		return 0, err
	}
	defer c.Close()
	if _, err := c.Write(append([]byte{0}, []byte(id+"\n")...)); err != nil {
		return 0, err
	}
	deadline := time.Now().Add(10 * time.Second)
	b.mu.Lock()
	defer b.mu.Unlock()
	for {
		if seq, ok := b.marked[id]; ok {
			return seq, nil
		}
		if time.Now().After(deadline) {
			return 0, fmt.Errorf("backend %s never saw marker %s", b.name, id)
		}
		b.waitLocked(50 * time.Millisecond)
	}
}

// waitLocked waits for the next update or for d, whichever comes first (b.mu held).
func (b *backend) waitLocked(d time.Duration) {
	t := time.AfterFunc(d, func() { b.mu.Lock(); b.cond.Broadcast(); b.mu.Unlock() })
	b.cond.Wait()
	t.Stop()
}

// window returns copies of the connection records with from < Seq < to that are not markers, after every one of
// them has left the state "pending" (bounded wait).
func (b *backend) window(from, to int, settle time.Duration) []connRec {
	deadline := time.Now().Add(settle)
	b.mu.Lock()
	defer b.mu.Unlock()
	for {
		pending := false
		for _, r := range b.conns {
			if r.Seq > from && r.Seq < to && r.Marker == "" && r.HS == "pending" {
				pending = true
			}
		}
		if !pending || time.Now().After(deadline) {
			break
		}
		b.waitLocked(20 * time.Millisecond)
	}
	var out []connRec
	for _, r := range b.conns {
		if r.Seq > from && r.Seq < to && r.Marker == "" {
			cp := *r
			cp.Reqs = append([]reqRec(nil), r.Reqs...)
			cp.Cancelled = append([]string(nil), r.Cancelled...)
			out = append(out, cp)
		}
	}
	return out
}

// until waits (bounded) for pred to hold on the records of the window; pred runs under the lock.
func (b *backend) until(from int, d time.Duration, pred func(recs []*connRec) bool) bool {
	deadline := time.Now().Add(d)
	b.mu.Lock()
	defer b.mu.Unlock()
	for {
		var recs []*connRec
		for _, r := range b.conns {
			if r.Seq > from && r.Marker == "" {
				recs = append(recs, r)
			}
		}
		if pred(recs) {
			return true
		}
		if time.Now().After(deadline) {
			return false
		}
		b.waitLocked(20 * time.Millisecond)
	}
}

// waitHeld waits until n requests of hold group g are parked at the backend.
func (b *backend) waitHeld(g string, n int, d time.Duration) bool {
	deadline := time.Now().Add(d)
	b.mu.Lock()
	defer b.mu.Unlock()
	for b.held[g] < n {
		if time.Now().After(deadline) {
			return false
		}
		b.waitLocked(20 * time.Millisecond)
	}
	return true
}

func (b *backend) release(g string) {
	b.mu.Lock()
	ch, ok := b.holds[g]
	if !ok {
		ch = make(chan struct{})
		b.holds[g] = ch
	}
	select {
	case <-ch:
	default:
		close(ch)
	}
	b.mu.Unlock()
}

func (b *backend) seq() int {
	b.mu.Lock()
	defer b.mu.Unlock()
	return len(b.conns)
}

func (b *backend) close() {
	b.ln.Close()
	b.mu.Lock()
	for _, c := range b.open {
		c.Close()
	}
	for _, ch := range b.holds {
		select {
		case <-ch:
		default:
			close(ch)
		}
	}
	b.mu.Unlock()
	if b.sock != "" {
		os.Remove(b.sock)
	}
}
