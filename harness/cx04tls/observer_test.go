package cx04tls

// veriftlsobs: a test-only directive that sits directly in front of `proxy` in the middleware chain and records, per
// X-Case id, what the proxy handler returned: the status and the error VALUE (so that the error class - which x509 /
// tls / net error the transport reported - is read from its type, not from a log text).

import (
	"context"
	"crypto/tls"
	"crypto/x509"
	"errors"
	"io"
	"net"
	"net/http"
	"os"
	"strings"
	"sync"
	"syscall"

	"github.com/tmpim/casket"
	"github.com/tmpim/casket/caskethttp/httpserver"
)

type handlerOutcome struct {
	Status int
	Err    error
	Class  string
}

var (
	obsMu  sync.Mutex
	obsGot = map[string][]handlerOutcome{}
)

func init() {
	httpserver.RegisterDevDirective("veriftlsobs", "proxy")
	casket.RegisterPlugin("veriftlsobs", casket.Plugin{
		ServerType: "http",
		Action: func(c *casket.Controller) error {
			for c.Next() {
			}
			httpserver.GetConfig(c).AddMiddleware(func(next httpserver.Handler) httpserver.Handler {
				return httpserver.HandlerFunc(func(w http.ResponseWriter, r *http.Request) (int, error) {
					id := r.Header.Get("X-Case")
					status, err := next.ServeHTTP(w, r)
					if id != "" {
						obsMu.Lock()
						obsGot[id] = append(obsGot[id], handlerOutcome{Status: status, Err: err, Class: classify(err)})
						obsMu.Unlock()
					}
					return status, err
				})
			})
			return nil
		},
	})
}

func takeOutcomes(id string) []handlerOutcome {
	obsMu.Lock()
	defer obsMu.Unlock()
	g := obsGot[id]
	delete(obsGot, id)
	return g
}

// classify maps the error a proxy attempt ended with onto the error classes of BackendTLS.tla.
func classify(err error) string {
	if err == nil {
		return ""
	}
	var hn x509.HostnameError
	var ua x509.UnknownAuthorityError
	var ci x509.CertificateInvalidError
	var cve *tls.CertificateVerificationError
	var rh tls.RecordHeaderError
	var ne net.Error
	var op *net.OpError
	msg := err.Error()
	switch {
	case errors.As(err, &hn):
		return "verify-name"
	case errors.As(err, &ua):
		return "verify-authority"
	case errors.As(err, &ci):
		if ci.Reason == x509.Expired {
			return "verify-expired"
		}
		return "verify-invalid"
	case errors.As(err, &cve):
		return "verify-other"
	case errors.Is(err, context.Canceled):
		return "canceled"
	case strings.Contains(msg, "TLS handshake timeout"):
		return "handshake-timeout"
	case errors.As(err, &rh) || strings.Contains(msg, "server gave HTTP response to HTTPS client"):
		return "not-tls"
	case errors.Is(err, io.EOF) || errors.Is(err, io.ErrUnexpectedEOF) || errors.Is(err, syscall.ECONNRESET):
		return "eof"
	case errors.Is(err, syscall.ECONNREFUSED):
		return "dial-refused"
	case errors.As(err, &op) && op.Op == "dial" && op.Timeout():
		return "dial-timeout"
	case errors.Is(err, os.ErrDeadlineExceeded) || (errors.As(err, &ne) && ne.Timeout()):
		return "timeout"
	case strings.Contains(msg, "no hosts available") || strings.Contains(msg, "max_conns"):
		return "no-host"
	case strings.Contains(msg, "malformed HTTP response") || strings.Contains(msg, "first record does not look like a TLS handshake"):
		return "not-tls"
	case strings.Contains(msg, "remote error: tls:"):
		return "remote-alert"
	case strings.Contains(msg, "no such host") || strings.Contains(msg, "server misbehaving"):
		return "resolve"
	}
	return "other: " + msg
}
