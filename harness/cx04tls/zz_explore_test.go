package cx04tls

// TestZZ: experiment helper (skipped unless ZZ=1): prints what the real code does for a handful of rules.

import (
	"encoding/json"
	"fmt"
	"os"
	"strings"
	"testing"
	"time"

	"verifharness/hx"
)

func TestZZ(t *testing.T) {
	if os.Getenv("ZZ") == "" {
		t.Skip("experiment helper")
	}
	hx.Quiet()
	fx, err := newFixture(t.TempDir())
	if err != nil {
		t.Fatal(err)
	}
	defer fx.close()
	get := func(p personality) *backend {
		b, err := fx.backend(p, false)
		if err != nil {
			t.Fatal(err)
		}
		return b
	}
	good := get(personality{Cert: "good"})
	goodh2 := get(personality{Cert: "good", H2: true})
	other := get(personality{Cert: "other"})
	self := get(personality{Cert: "self"})
	ca2 := get(personality{Cert: "ca2"})
	exp := get(personality{Cert: "expired"})
	nameonly := get(personality{Cert: "nameonly"})
	mute := get(personality{Cert: "good", Mute: true})
	port := hx.FreePort()
	rules := []string{
		fmt.Sprintf("proxy /good https://b.test:%d", good.port),
		fmt.Sprintf("proxy /goodip https://127.0.0.1:%d", good.port),
		fmt.Sprintf("proxy /h2 https://b.test:%d", goodh2.port),
		fmt.Sprintf("proxy /h2k0 https://b.test:%d {\n keepalive 0\n}", goodh2.port),
		fmt.Sprintf("proxy /other https://b.test:%d", other.port),
		fmt.Sprintf("proxy /othertr https://b.test:%d {\n transparent\n}", other.port),
		fmt.Sprintf("proxy /otherins https://b.test:%d {\n insecure_skip_verify\n}", other.port),
		fmt.Sprintf("proxy /self https://b.test:%d", self.port),
		fmt.Sprintf("proxy /ca2 https://b.test:%d", ca2.port),
		fmt.Sprintf("proxy /ca2ok https://b.test:%d {\n ca_certificates %s\n}", ca2.port, fx.pki.ca2.file),
		fmt.Sprintf("proxy /goodca2 https://b.test:%d {\n ca_certificates %s\n}", good.port, fx.pki.ca2.file),
		fmt.Sprintf("proxy /exp https://b.test:%d", exp.port),
		fmt.Sprintf("proxy /nameonlyip https://127.0.0.1:%d", nameonly.port),
		fmt.Sprintf("proxy /srv srv+https://s%d.svc.test", good.port),
		fmt.Sprintf("proxy /mute https://b.test:%d", mute.port),
		fmt.Sprintf("proxy /mutek https://b.test:%d {\n keepalive 3\n}", mute.port),
		fmt.Sprintf("proxy /plain2tls http://b.test:%d", good.port),
		fmt.Sprintf("proxy /k0 https://b.test:%d {\n keepalive 0\n}", good.port),
	}
	text := fmt.Sprintf(":%d {\n bind 127.0.0.1\n tls off\n veriftlsobs\n%s\n}\n", port, hx.Indent(strings.Join(rules, "\n")))
	site, err := hx.StartHTTP(text, "")
	if err != nil {
		t.Fatalf("start: %v\n%s", err, text)
	}
	defer site.Stop()
	addr := fmt.Sprintf("127.0.0.1:%d", port)
	show := func(path string, b *backend, hdr ...string) {
		from := b.seq()
		id := "zz" + strings.ReplaceAll(path, "/", "_")
		t0 := time.Now()
		resp, err := hx.OneShot(addr, "GET", path+"/x?q=1", "other.test", append(hdr, "X-Case: "+id)...)
		el := time.Since(t0)
		st := 0
		loc := ""
		if resp != nil {
			st = resp.Status
			loc = resp.Header.Get("Location")
		}
		to, _ := b.mark(id)
		recs := b.window(from, to, 2*time.Second)
		js, _ := json.Marshal(recs)
		outs := takeOutcomes(id)
		cl := ""
		if len(outs) > 0 {
			cl = fmt.Sprintf("%d %s (%v)", outs[0].Status, outs[0].Class, outs[0].Err)
		}
		fmt.Printf("== %s: status=%d err=%v loc=%q in %v handler=%s\n   backend: %s\n", path, st, err, loc, el.Round(time.Millisecond), cl, js)
	}
	show("/good", good)
	show("/good", good)
	show("/goodip", good)
	show("/h2", goodh2)
	show("/h2", goodh2)
	show("/h2k0", goodh2)
	show("/other", other)
	show("/othertr", other)
	show("/otherins", other)
	show("/other", other)
	show("/self", self)
	show("/ca2", ca2)
	show("/ca2ok", ca2)
	show("/goodca2", good)
	show("/exp", exp)
	show("/nameonlyip", nameonly)
	show("/srv", good)
	show("/plain2tls", good)
	show("/k0", good)
	show("/k0", good)
	show("/good", good, "X-Do: redirect:https://other.test:1/")
	if os.Getenv("ZZ") == "slow" {
		show("/mutek", mute)
		show("/mute", mute)
	}
	fmt.Println("dns queries:", fx.dns.queries.Load())
}
