package cx04tls

import (
	"crypto/x509"
	"fmt"
	"net"
	"path/filepath"
	"sync"
	"syscall"
	"time"
)

// the certificate kinds of BackendTLS.tla (CertOf there must say the same)
var certSpecs = map[string]leafSpec{
	"good":     {issuer: "ca1", names: []string{"b.test", "*.svc.test"}, ips: []string{"127.0.0.1"}},
	"nameonly": {issuer: "ca1", names: []string{"b.test"}},
	"iponly":   {issuer: "ca1", ips: []string{"127.0.0.1"}},
	"other":    {issuer: "ca1", names: []string{"other.test"}, ips: []string{"127.0.0.2"}},
	"expired":  {issuer: "ca1", names: []string{"b.test", "*.svc.test"}, ips: []string{"127.0.0.1"}, expired: true},
	"self":     {issuer: "self", names: []string{"b.test", "*.svc.test"}, ips: []string{"127.0.0.1"}},
	"ca2":      {issuer: "ca2", names: []string{"b.test", "*.svc.test"}, ips: []string{"127.0.0.1"}},
}

type fixture struct {
	dir string
	pki *pki
	dns *fakeDNS

	mu       sync.Mutex
	backends map[string]*backend
	ccPool   *x509.CertPool
	nsock    int

	holePort, refusePort int
	holeFd, refuseFd     int
	holeFill             []net.Conn
}

func newFixture(dir string) (*fixture, error) {
	p, err := newPKI(dir)
	if err != nil {
		return nil, fmt.Errorf("pki: %v", err)
	}
	d, err := startDNS()
	if err != nil {
		return nil, fmt.Errorf("dns: %v", err)
	}
	fx := &fixture{dir: dir, pki: p, dns: d, backends: map[string]*backend{}, ccPool: x509.NewCertPool()}
	fx.ccPool.AddCert(p.ca2.cert)
	return fx, nil
}

// backend returns (starting it on first use) the backend of a personality; unix = on a unix socket.
func (fx *fixture) backend(p personality, unix bool) (*backend, error) {
	return fx.backendKey(p, unix, "")
}

// backendKey: own != "" asks for a backend of its own (not shared with other cases).
func (fx *fixture) backendKey(p personality, unix bool, own string) (*backend, error) {
	key := p.String() + own
	if unix {
		key += "@unix"
	}
	fx.mu.Lock()
	defer fx.mu.Unlock()
	if b, ok := fx.backends[key]; ok {
		return b, nil
	}
	var b *backend
	var err error
	sock := ""
	if unix {
		fx.nsock++
		sock = filepath.Join(fx.dir, fmt.Sprintf("b%d.sock", fx.nsock))
	}
	if p.Cert == "" {
		b, err = newBackend(p, nil, nil, sock)
	} else {
		spec, ok := certSpecs[p.Cert]
		if !ok {
			return nil, fmt.Errorf("unknown certificate kind %q", p.Cert)
		}
		leaf, lerr := fx.pki.leaf(p.Cert, spec)
		if lerr != nil {
			return nil, lerr
		}
		b, err = newBackend(p, leaf, fx.ccPool, sock)
	}
	if err != nil {
		return nil, err
	}
	fx.backends[key] = b
	return b, nil
}

// loopbackSocket binds a TCP socket on 127.0.0.1; with listen it gets an accept queue of length `backlog`.
func loopbackSocket(listen bool, backlog int) (fd, port int, err error) {
	fd, err = syscall.Socket(syscall.AF_INET, syscall.SOCK_STREAM, 0)
	if err != nil {
		return 0, 0, err
	}
	if err = syscall.Bind(fd, &syscall.SockaddrInet4{Addr: [4]byte{127, 0, 0, 1}}); err != nil {
		syscall.Close(fd)
		return 0, 0, err
	}
	if listen {
		if err = syscall.Listen(fd, backlog); err != nil {
			syscall.Close(fd)
			return 0, 0, err
		}
	}
	sa, err := syscall.Getsockname(fd)
	if err != nil {
		syscall.Close(fd)
		return 0, 0, err
	}
	return fd, sa.(*syscall.SockaddrInet4).Port, nil
}

// blackhole returns a loopback port on which connection attempts get no answer at all: a listening socket whose
// accept queue is full (nobody accepts) - further SYNs are dropped.
func (fx *fixture) blackhole() (int, error) {
	fx.mu.Lock()
	defer fx.mu.Unlock()
	if fx.holePort != 0 {
		return fx.holePort, nil
	}
	fd, port, err := loopbackSocket(true, 0)
	if err != nil {
		return 0, err
	}
	addr := fmt.Sprintf("127.0.0.1:%d", port)
	for n := 0; n < 8; n++ {
		c, err := net.DialTimeout("tcp", addr, 250*time.Millisecond)
		if err != nil {
			fx.holeFd, fx.holePort = fd, port
			return port, nil
		}
		fx.holeFill = append(fx.holeFill, c)
	}
	syscall.Close(fd)
	return 0, fmt.Errorf("cannot fill an accept queue on this kernel: connects keep succeeding")
}

// refuser returns a loopback port that is taken (bound) but not listening: connects are refused at once.
func (fx *fixture) refuser() (int, error) {
	fx.mu.Lock()
	defer fx.mu.Unlock()
	if fx.refusePort != 0 {
		return fx.refusePort, nil
	}
	fd, port, err := loopbackSocket(false, 0)
	if err != nil {
		return 0, err
	}
	fx.refuseFd, fx.refusePort = fd, port
	return port, nil
}

func (fx *fixture) close() {
	fx.mu.Lock()
	defer fx.mu.Unlock()
	for _, c := range fx.holeFill {
		c.Close()
	}
	if fx.holePort != 0 {
		syscall.Close(fx.holeFd)
	}
	if fx.refusePort != 0 {
		syscall.Close(fx.refuseFd)
	}
	for _, b := range fx.backends {
		b.close()
	}
	fx.dns.close()
}
