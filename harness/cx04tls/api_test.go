package cx04tls

// The setup through the package's API: proxy.NewStaticUpstreams on the rule text, then the transport that
// NewHost built for the rule's host is read field by field (space "opts" of BackendTLS.tla).

import (
	"crypto/tls"
	"crypto/x509"
	"fmt"
	"net"
	"net/http"
	"reflect"
	"strings"
	"time"
	"unsafe"

	"github.com/tmpim/casket/casketfile"
	"github.com/tmpim/casket/caskethttp/proxy"
)

type builtTransport struct {
	Kind      string   `json:"kind"`
	Skip      bool     `json:"skip"`
	Roots     []string `json:"roots"`
	CC        bool     `json:"cc"`
	DisableKA bool     `json:"disableKA"`
	MaxIdle   int      `json:"maxIdle"`
	HS        int      `json:"hs"`
	Expect    int      `json:"expect"`
	RespWait  int      `json:"response_header_timeout"`
	Dial      int      `json:"dial"`
	FD        int      `json:"fd"`
	H2        bool     `json:"h2"`
	HostRules []string `json:"hostrules"`
	Preset    bool     `json:"preset"`
	Ws        bool     `json:"ws"`
	Health    *hcJ     `json:"health,omitempty"`
}

// rootsOf names the authorities of the harness a TLS configuration trusts (nil RootCAs = the process's default roots,
// which SSL_CERT_FILE points at CA1).
func (fx *fixture) rootsOf(cfg *tls.Config) []string {
	if cfg == nil || cfg.RootCAs == nil {
		return []string{"ca1"}
	}
	var out []string
	for name, a := range map[string]*authority{"ca1": fx.pki.ca1, "ca2": fx.pki.ca2} {
		if _, err := a.cert.Verify(x509.VerifyOptions{Roots: cfg.RootCAs}); err == nil {
			out = append(out, name)
		}
	}
	return out
}

func ms(d time.Duration) int { return int(d / time.Millisecond) }

func (fx *fixture) inspect(u proxy.Upstream, rule ruleJ) (*builtTransport, error) {
	hosts := proxy.VerifHealthHosts(u)
	if len(hosts) != 1 {
		return nil, fmt.Errorf("%d hosts for one upstream", len(hosts))
	}
	h := hosts[0]
	rp := h.ReverseProxy
	bt := &builtTransport{}
	var cfg *tls.Config
	switch t := rp.Transport.(type) {
	case *http.Transport:
		cfg = t.TLSClientConfig
		bt.DisableKA, bt.MaxIdle = t.DisableKeepAlives, t.MaxIdleConnsPerHost
		bt.HS, bt.Expect, bt.RespWait = ms(t.TLSHandshakeTimeout), ms(t.ExpectContinueTimeout), ms(t.ResponseHeaderTimeout)
		_, bt.H2 = t.TLSNextProto["h2"]
		switch {
		case t.Proxy == nil:
			bt.Kind = "unix"
		case t.ExpectContinueTimeout != 0:
			bt.Kind = "custom"
		default:
			bt.Kind = "default"
		}
	default:
		v := reflect.ValueOf(rp.Transport)
		if v.Kind() != reflect.Ptr || !strings.Contains(v.Type().String(), "http3") {
			return nil, fmt.Errorf("unknown transport type %T", rp.Transport)
		}
		bt.Kind = "quic"
		if f := v.Elem().FieldByName("TLSClientConfig"); f.IsValid() && !f.IsNil() {
			cfg, _ = f.Interface().(*tls.Config)
		}
	}
	if cfg != nil {
		bt.Skip = cfg.InsecureSkipVerify
		bt.CC = len(cfg.Certificates) > 0
	}
	bt.Roots = fx.rootsOf(cfg)
	// the dialer (unexported): timeout and fallback delay
	if f := reflect.ValueOf(rp).Elem().FieldByName("dialer"); f.IsValid() && f.Kind() == reflect.Ptr && !f.IsNil() {
		d := (*net.Dialer)(unsafe.Pointer(f.Pointer()))
		bt.Dial, bt.FD = ms(d.Timeout), ms(d.FallbackDelay)
	} else {
		return nil, fmt.Errorf("ReverseProxy has no dialer field any more")
	}
	for _, v := range h.UpstreamHeaders["Host"] {
		switch v {
		case "{host}":
			bt.HostRules = append(bt.HostRules, "client")
		case fixedHost:
			bt.HostRules = append(bt.HostRules, "fixed")
		case "{>X-Name}":
			bt.HostRules = append(bt.HostRules, "xname")
		default:
			bt.HostRules = append(bt.HostRules, v)
		}
	}
	_, bt.Preset = h.UpstreamHeaders["X-Real-Ip"]
	_, bt.Ws = h.UpstreamHeaders["Upgrade"]
	// the health-check client
	hv := reflect.ValueOf(u)
	if hv.Kind() == reflect.Ptr {
		if hc := hv.Elem().FieldByName("HealthCheck"); hc.IsValid() {
			path := hc.FieldByName("Path").String()
			if path != "" {
				hj := &hcJ{On: true}
				if cl, ok := hc.FieldByName("Client").Interface().(http.Client); ok {
					if t, ok := cl.Transport.(*http.Transport); ok {
						if t.TLSClientConfig != nil {
							hj.Skip = t.TLSClientConfig.InsecureSkipVerify
							hj.CC = len(t.TLSClientConfig.Certificates) > 0
						}
						hj.Roots = fx.rootsOf(t.TLSClientConfig)
					}
				}
				bt.Health = hj
			}
		}
	}
	return bt, nil
}

// build loads the (single) rule of an opts case; it returns the error of the setup or the transport it built.
func (fx *fixture) build(c *caseJ, tgt target) (*builtTransport, error, error) {
	text := fx.ruleText(c, 1, tgt)
	ups, err := proxy.NewStaticUpstreams(casketfile.NewDispenser("Casketfile", strings.NewReader(text)), "")
	defer func() {
		for _, u := range ups {
			u.Stop()
		}
	}()
	if err != nil {
		return nil, err, nil
	}
	if len(ups) != 1 {
		return nil, nil, fmt.Errorf("%d upstreams from one rule", len(ups))
	}
	bt, ierr := fx.inspect(ups[0], c.Rules[0])
	return bt, nil, ierr
}

// diffTransport: "" or what differs between the model's transport and the built one.
func diffTransport(c *caseJ, bt *builtTransport) string {
	w := c.Trans[0]
	var bad []string
	add := func(f string, a ...interface{}) { bad = append(bad, fmt.Sprintf(f, a...)) }
	if bt.Kind != w.Kind {
		add("transport kind %s, model %s", bt.Kind, w.Kind)
	}
	if bt.Skip != w.Skip {
		add("InsecureSkipVerify %v, model %v", bt.Skip, w.Skip)
	}
	if !sameSet(bt.Roots, w.Roots) {
		add("trusted roots %v, model %v", bt.Roots, w.Roots)
	}
	if bt.CC != w.CC {
		add("client certificate %v, model %v", bt.CC, w.CC)
	}
	if w.Kind != "quic" {
		if bt.DisableKA != w.DisableKA || bt.MaxIdle != w.MaxIdle {
			add("DisableKeepAlives %v MaxIdleConnsPerHost %d, model %v %d", bt.DisableKA, bt.MaxIdle, w.DisableKA, w.MaxIdle)
		}
		if bt.HS != w.HS {
			add("TLSHandshakeTimeout %d ms, model %d", bt.HS, w.HS)
		}
		if bt.Expect != w.Expect {
			add("ExpectContinueTimeout %d ms, model %d", bt.Expect, w.Expect)
		}
		if bt.RespWait != 0 {
			add("ResponseHeaderTimeout %d ms, model: unset", bt.RespWait)
		}
		if bt.H2 != w.H2 {
			add("h2 configured %v, model %v", bt.H2, w.H2)
		}
	}
	if bt.Dial != w.Dial {
		add("dial timeout %d ms, model %d", bt.Dial, w.Dial)
	}
	if (w.Kind == "custom" || w.Kind == "default") && bt.FD != w.FD {
		add("fallback delay %d ms, model %d", bt.FD, w.FD)
	}
	if strings.Join(bt.HostRules, ",") != strings.Join(c.Hostrules[0], ",") {
		add("Host lines %v, model %v", bt.HostRules, c.Hostrules[0])
	}
	if bt.Preset != c.Preset[0] || bt.Ws != c.Wsrule[0] {
		add("presets transparent=%v websocket=%v, model %v %v", bt.Preset, bt.Ws, c.Preset[0], c.Wsrule[0])
	}
	hw := c.Hc[0]
	switch {
	case hw.On != (bt.Health != nil):
		add("health check on=%v, model %v", bt.Health != nil, hw.On)
	case hw.On:
		if bt.Health.Skip != hw.Skip || !sameSet(bt.Health.Roots, hw.Roots) || bt.Health.CC != hw.CC {
			add("health-check client skip=%v roots=%v client-cert=%v, model %v %v %v", bt.Health.Skip, bt.Health.Roots, bt.Health.CC, hw.Skip, hw.Roots, hw.CC)
		}
	}
	return strings.Join(bad, "; ")
}
