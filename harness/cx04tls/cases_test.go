package cx04tls

// The CASE records of BackendTLS.tla and their concretisation: Casketfile text, request bytes.

import (
	"bytes"
	"crypto/sha256"
	"encoding/hex"
	"fmt"
	"strings"
)

type beJ struct {
	Cert  string `json:"cert"`
	H2    bool   `json:"h2"`
	Mute  bool   `json:"mute"`
	Reach string `json:"reach"`
	Unix  bool   `json:"unix"`
}

type ruleJ struct {
	Site int      `json:"site"`
	Sch  string   `json:"sch"`
	Host string   `json:"host"`
	Opts []string `json:"opts"`
}

type reqJ struct {
	Rule  int    `json:"rule"`
	Chost string `json:"chost"`
	Xname string `json:"xname"`
	Ws    bool   `json:"ws"`
	Do    string `json:"do"`
	M     string `json:"m"`
	Body  string `json:"body"`
	Hop   bool   `json:"hop"`
}

type transJ struct {
	Kind      string   `json:"kind"`
	Skip      bool     `json:"skip"`
	Roots     []string `json:"roots"`
	CC        bool     `json:"cc"`
	DisableKA bool     `json:"disableKA"`
	MaxIdle   int      `json:"maxIdle"`
	Limit     int      `json:"limit"`
	HS        int      `json:"hs"`
	Expect    int      `json:"expect"`
	Dial      int      `json:"dial"`
	FD        int      `json:"fd"`
	H2        bool     `json:"h2"`
}

type hcJ struct {
	On    bool     `json:"on"`
	State string   `json:"state"`
	Skip  bool     `json:"skip"`
	Roots []string `json:"roots"`
	CC    bool     `json:"cc"`
}

type connJ struct {
	TLS   bool     `json:"tls"`
	SNI   string   `json:"sni"`
	Offer []string `json:"offer"`
	Ver   string   `json:"ver"`
	HS    string   `json:"hs"`
	Proto string   `json:"proto"`
	CC    bool     `json:"cc"`
	Seen  bool     `json:"seen"`
	Hij   bool     `json:"hij"`
}

type wantJ struct {
	Res       string   `json:"res"` // relay | fail | held
	Status    int      `json:"status"`
	Cls       []string `json:"cls"`
	Reused    bool     `json:"reused"`
	Host      string   `json:"host"` // up | client | fixed | xname
	Wait      int      `json:"wait"` // ms the proxy may spend before it answers
	Phase     string   `json:"phase"`
	Delivered bool     `json:"delivered"`
	Conn      connJ    `json:"conn"`
}

type caseJ struct {
	ID        string     `json:"id"`
	Space     string     `json:"space"`
	Refused   bool       `json:"refused"`
	Be        beJ        `json:"be"`
	Rules     []ruleJ    `json:"rules"`
	Script    [][]reqJ   `json:"script"`
	Trans     []transJ   `json:"trans"`
	Hostrules [][]string `json:"hostrules"`
	Preset    []bool     `json:"preset"`
	Wsrule    []bool     `json:"wsrule"`
	Hc        []hcJ      `json:"hc"`
	Want      [][]wantJ  `json:"want"`
	Idle      []int      `json:"idle"`

	idx int // position in the run: names the rule paths
}

// rcase is what a mismatch stores for --replay.
type rcase struct {
	Clause string `json:"clause"`
	Case   caseJ  `json:"case"`
	Batch  int    `json:"batch"`
	K      int    `json:"k"`
}

const (
	healthPath = "/verif-health"
	fixedHost  = "fixed.test"
	otherHost  = "other.test"
	siteHost   = "site.test"
)

// target is where the upstreams of a case point.
type target struct {
	port int    // TCP port (backend, blackhole or refusing socket)
	sock string // unix socket path
}

func upText(r ruleJ, t target) string {
	switch r.Sch {
	case "unix":
		return "unix:" + t.sock
	case "srv", "srv+https":
		return fmt.Sprintf("%s://s%d.svc.test", r.Sch, t.port)
	}
	return fmt.Sprintf("%s://%s:%d", r.Sch, r.Host, t.port)
}

// authority: what `outreq.Host = nameURL.Host` makes the backend read when no Host line rewrites it.
func upAuthority(r ruleJ, t target) string {
	switch r.Sch {
	case "unix":
		return "socket"
	case "srv", "srv+https":
		return fmt.Sprintf("s%d.svc.test", t.port)
	}
	return fmt.Sprintf("%s:%d", r.Host, t.port)
}

func sniText(r ruleJ, t target, abstract string) string {
	if abstract == "svc" {
		return fmt.Sprintf("s%d.svc.test", t.port)
	}
	return abstract
}

func (fx *fixture) optText(o string) string {
	switch o {
	case "skip":
		return "insecure_skip_verify"
	case "ca2":
		return "ca_certificates " + fx.pki.ca2.file
	case "ca12":
		return "ca_certificates " + fx.pki.ca1.file + " " + fx.pki.ca2.file
	case "cabad":
		return "ca_certificates " + fx.dir + "/no-such-file.pem"
	case "ka0", "ka1", "ka2", "ka3":
		return "keepalive " + o[2:]
	case "kaneg":
		return "keepalive -1"
	case "kabad":
		return "keepalive many"
	case "to300":
		return "timeout 300ms"
	case "tobad":
		return "timeout soon"
	case "fd100":
		return "fallback_delay 100ms"
	case "transparent", "websocket":
		return o
	case "hostfixed":
		return "header_upstream Host " + fixedHost
	case "hostx":
		return "header_upstream Host {>X-Name}"
	case "cc":
		return "tls_client " + fx.pki.clientCertFile + " " + fx.pki.clientKeyFile
	case "ccbad":
		return "tls_client " + fx.dir + "/no-such-cert.pem " + fx.dir + "/no-such-key.pem"
	case "mc1":
		return "max_conns 1"
	case "hc":
		return "health_check " + healthPath + "\nhealth_check_interval 10m\nhealth_check_timeout 5s"
	}
	return "unknown_option_" + o
}

func rulePath(c *caseJ, r int) string { return fmt.Sprintf("/k%dr%d", c.idx, r) }

func (fx *fixture) ruleText(c *caseJ, r int, t target) string {
	rule := c.Rules[r-1]
	var b strings.Builder
	fmt.Fprintf(&b, "proxy %s %s", rulePath(c, r), upText(rule, t))
	if len(rule.Opts) > 0 {
		b.WriteString(" {\n")
		for _, o := range rule.Opts {
			for _, l := range strings.Split(fx.optText(o), "\n") {
				b.WriteString("\t" + l + "\n")
			}
		}
		b.WriteString("}")
	}
	return b.String()
}

// concrete request

type wireReq struct {
	id     string
	raw    []byte
	method string
	uri    string
	host   string
	body   []byte
	loc    string
}

func bodyOf(kind string, seed int64) []byte {
	switch kind {
	case "small":
		return []byte("hello=world")
	case "big", "chunked":
		n := 40000
		if kind == "chunked" {
			n = 33001
		}
		b := make([]byte, n)
		x := uint64(seed)*2654435761 + 12345
		for i := range b {
			x = x*6364136223846793005 + 1442695040888963407
			b[i] = "abcdefghijklmnopqrstuvwxyz012345"[x>>59]
		}
		return b
	}
	return nil
}

func sha8(b []byte) string {
	h := sha256.Sum256(b)
	return hex.EncodeToString(h[:8])
}

func buildReq(c *caseJ, rq reqJ, id string, canary string, seed int64) wireReq {
	w := wireReq{id: id, method: rq.M}
	w.uri = rulePath(c, rq.Rule) + "/p/a%2Fb?q=1&r=%26x"
	w.host = siteHost
	if rq.Chost == "other" {
		w.host = otherHost
	}
	w.body = bodyOf(rq.Body, seed)
	var b bytes.Buffer
	fmt.Fprintf(&b, "%s %s HTTP/1.1\r\nHost: %s\r\nX-Case: %s\r\nX-E2e: v\r\nUser-Agent: cx04tls\r\nAccept-Encoding: identity\r\n", rq.M, w.uri, w.host, id)
	switch rq.Do {
	case "redirect":
		w.loc = canary
		fmt.Fprintf(&b, "X-Do: redirect:%s\r\n", canary)
	case "mute":
		b.WriteString("X-Do: mute\r\n")
	case "hold":
		fmt.Fprintf(&b, "X-Do: hold:%s\r\n", strings.SplitN(id, ".", 2)[0])
	}
	if rq.Xname != "" {
		fmt.Fprintf(&b, "X-Name: %s\r\n", otherHost)
	}
	if rq.Ws {
		b.WriteString("Connection: Upgrade\r\nUpgrade: websocket\r\n")
	} else if rq.Hop {
		b.WriteString("Keep-Alive: timeout=5\r\nProxy-Connection: keep-alive\r\nConnection: X-Hop\r\nX-Hop: 1\r\n")
	}
	switch rq.Body {
	case "small", "big":
		fmt.Fprintf(&b, "Content-Type: application/octet-stream\r\nContent-Length: %d\r\n\r\n", len(w.body))
		b.Write(w.body)
	case "chunked":
		b.WriteString("Content-Type: application/octet-stream\r\nTransfer-Encoding: chunked\r\n\r\n")
		rest := w.body
		for _, n := range []int{1, 16384, len(w.body)} {
			if n > len(rest) {
				n = len(rest)
			}
			if n == 0 {
				continue
			}
			fmt.Fprintf(&b, "%x\r\n", n)
			b.Write(rest[:n])
			b.WriteString("\r\n")
			rest = rest[n:]
		}
		b.WriteString("0\r\n\r\n")
	default:
		b.WriteString("\r\n")
	}
	w.raw = b.Bytes()
	return w
}
