// Package cx04tls binds specs/BackendTLS.tla (extension of property C04) to the real code: the connection from the
// reverse proxy to its backends - transports, TLS verification, keep-alive, time-outs - is exercised through real
// casket sites in front of TLS backends of the harness's own (own authorities, own name service), and the setup
// through proxy.NewStaticUpstreams. See notes/BackendTLS.md.
package cx04tls

import (
	"encoding/json"
	"fmt"
	"math/rand"
	"os"
	"path/filepath"
	"sort"
	"strings"
	"sync"
	"syscall"
	"testing"
	"time"

	"verifharness/hx"
)

const module = "BackendTLS"

func key(clause, id string, b, k int) string {
	s := "C04/backendtls/" + clause + "/" + id
	if b > 0 {
		s += fmt.Sprintf("/%d.%d", b, k)
	}
	return s
}

type checker struct {
	res     *hx.Result
	fx      *fixture
	mu      sync.Mutex
	stats   map[string]int
	confirm map[string]int
	infra   string
	planted int
	caught  int
}

func (c *checker) stat(k string, n int) { c.mu.Lock(); c.stats[k] += n; c.mu.Unlock() }
func (c *checker) setInfra(s string) {
	c.mu.Lock()
	if c.infra == "" {
		c.infra = s
	}
	c.mu.Unlock()
}

// slow: a case whose bound is too long for this tier (10 s handshake time-outs: thorough only; 30 s connects: never)
func slow(c *caseJ) bool {
	for _, b := range c.Want {
		for _, w := range b {
			if w.Wait >= 30000 || (w.Wait >= 10000 && !hx.Thorough()) {
				return true
			}
		}
	}
	return false
}

// place decides which backend (or dead end) the upstreams of a case point at.
func (c *checker) place(cs *caseJ) (*caseRun, error) {
	cr := &caseRun{c: cs}
	switch cs.Be.Reach {
	case "blackhole":
		p, err := c.fx.blackhole()
		cr.tgt = target{port: p}
		return cr, err
	case "down":
		p, err := c.fx.refuser()
		cr.tgt = target{port: p}
		return cr, err
	}
	cert := cs.Be.Cert
	if cert == "none" {
		cert = ""
	}
	p := personality{Cert: cert, H2: cs.Be.H2, Mute: cs.Be.Mute, WantCC: cert != ""}
	own := ""
	if cs.Be.Mute {
		own = fmt.Sprintf("#%d", cs.idx) // these run in parallel: a listener each
	}
	b, err := c.fx.backendKey(p, cs.Be.Unix, own)
	if err != nil {
		return nil, err
	}
	cr.be, cr.tgt = b, target{port: b.port, sock: b.sock}
	return cr, nil
}

// startSites loads one casket instance with two catch-all sites holding the rules of all given cases.
func (c *checker) startSites(crs []*caseRun) (*hx.Site, *env, string, error) {
	e := &env{fx: c.fx, slack: 8 * time.Second}
	var rules [3][]string
	for _, cr := range crs {
		for r := range cr.c.Rules {
			s := cr.c.Rules[r].Site
			rules[s] = append(rules[s], c.fx.ruleText(cr.c, r+1, cr.tgt))
		}
	}
	var text strings.Builder
	for s := 1; s <= 2; s++ {
		e.port[s] = hx.FreePort()
		e.addr[s] = fmt.Sprintf("127.0.0.1:%d", e.port[s])
		fmt.Fprintf(&text, ":%d {\n\tbind 127.0.0.1\n\ttls off\n\tveriftlsobs\n%s}\n", e.port[s], hx.Indent(strings.Join(rules[s], "\n")))
	}
	can, err := c.fx.backendKey(personality{Cert: "good", WantCC: true}, false, "#canary")
	if err != nil {
		return nil, nil, "", err
	}
	e.canary, e.canaryURL = can, fmt.Sprintf("https://canary.test:%d/gone?x=1", can.port)
	site, err := hx.StartHTTP(text.String(), "")
	if err != nil {
		return nil, nil, text.String(), err
	}
	return site, e, text.String(), nil
}

// healthSettle waits until the first health round of every health-checked rule has reached its backend.
func healthSettle(crs []*caseRun, before map[*backend]int) {
	need := map[*backend]int{}
	for _, cr := range crs {
		if cr.be == nil {
			continue
		}
		for _, h := range cr.c.Hc {
			if h.On {
				need[cr.be]++
			}
		}
	}
	for b, n := range need {
		from := before[b]
		b.until(from, 8*time.Second, func(rs []*connRec) bool {
			done := 0
			for _, r := range rs {
				if r.HS != "pending" && (r.HS != "" || len(r.Reqs) > 0 || r.Closed) {
					done++
				}
			}
			return done >= n
		})
	}
	if len(need) > 0 {
		time.Sleep(150 * time.Millisecond) // the worker stores the verdict after the response came back
	}
}

func important(f finding) bool { return f.clause != "drift" && f.clause != "infra" }

func sig(f finding) string { return fmt.Sprintf("%s/%d.%d", f.clause, f.batch, f.k) }

// confirmCase replays a case on a fresh instance that holds nothing but its own rules.
func (c *checker) confirmCase(cs *caseJ, seed int64) ([]finding, error) {
	cc := *cs
	cr, err := c.place(&cc)
	if err != nil {
		return nil, err
	}
	before := map[*backend]int{}
	if cr.be != nil {
		before[cr.be] = cr.be.seq()
	}
	site, e, text, err := c.startSites([]*caseRun{cr})
	if err != nil {
		return nil, fmt.Errorf("confirmation instance: %v\n%s", err, text)
	}
	defer site.Stop()
	healthSettle([]*caseRun{cr}, before)
	return e.runCase(cr, seed, nil), nil
}

func (c *checker) report(cs *caseJ, fs []finding, seed int64) {
	var imp []finding
	for _, f := range fs {
		switch f.clause {
		case "drift":
			c.stat("drift: "+f.what, 1)
		case "infra":
			c.setInfra(f.what)
		default:
			imp = append(imp, f)
		}
	}
	if len(imp) == 0 {
		return
	}
	c.mu.Lock()
	n := c.confirm[imp[0].clause]
	c.confirm[imp[0].clause]++
	c.mu.Unlock()
	if n >= 12 {
		c.stat("unconfirmed_beyond_limit", 1)
		return
	}
	again, err := c.confirmCase(cs, seed)
	if err != nil {
		c.setInfra(err.Error())
		return
	}
	seen := map[string]finding{}
	for _, f := range again {
		if important(f) {
			seen[sig(f)] = f
		}
	}
	for _, f := range imp {
		if g, ok := seen[sig(f)]; ok {
			c.res.Add(hx.Mismatch{Key: key(f.clause, cs.ID, f.batch, f.k), What: g.what, Case: rcase{Clause: "backendtls/" + f.clause, Case: *cs, Batch: f.batch, K: f.k}, Expected: g.exp, Observed: g.obs})
		} else {
			c.stat("not_reproduced: "+f.clause, 1)
		}
	}
}

func loadCases(t *testing.T) []*caseJ {
	all := hx.LoadCases[caseJ](t, module)
	byID := map[string]*caseJ{}
	var out []*caseJ
	for k := range all {
		cs := &all[k]
		if old, ok := byID[cs.ID]; ok {
			// the interleavings of a burst end in several terminal states: the emitted record must not depend on them
			a, _ := json.Marshal(old.Want)
			b, _ := json.Marshal(cs.Want)
			if string(a) != string(b) || fmt.Sprint(old.Idle) != fmt.Sprint(cs.Idle) {
				t.Fatalf("case %q is emitted with two different expectations", cs.ID)
			}
			continue
		}
		byID[cs.ID] = cs
		out = append(out, cs)
	}
	sort.Slice(out, func(a, b int) bool { return out[a].ID < out[b].ID })
	for k, cs := range out {
		cs.idx = k + 1
	}
	return out
}

func TestCx04TLS(t *testing.T) {
	hx.Quiet()
	res := hx.NewResult("TestCx04TLS", "one case = one Casketfile of <= 2 proxy rules towards one backend + a script of requests (BackendTLS.tla: spaces verify / conn / silent / relay) or one block of option lines (space opts); served cases: all rules live in two real casket sites, the backends are TLS / h2 / plain / unix listeners of the harness with certificates from its own authorities (default roots through SSL_CERT_FILE, names through a DNS responder of its own), and per request the client's answer, the error value the proxy handler returned and the backend's view (SNI, ALPN offer, handshake completed or aborted, client certificate, request read, connection closed) are compared with the model; opts cases: proxy.NewStaticUpstreams, the transport of the host field by field; non-trivial = the expected outcome is not a plain relay on a fresh connection")
	defer res.Write(t)

	if p := hx.Replay(); p != "" {
		b, _ := os.ReadFile(p)
		var w struct {
			Case struct {
				Clause string `json:"clause"`
			} `json:"case"`
		}
		if json.Unmarshal(b, &w) != nil || !strings.HasPrefix(w.Case.Clause, "backendtls/") {
			res.AddExtra("replay", "not a backendtls case: skipped")
			return
		}
	}
	if os.Getenv("VERIF_VERBOSE") == "" {
		if dn, err := os.Create(filepath.Join(hx.Scratch(t), "cx04tls_stderr.log")); err == nil {
			if saved, err := syscall.Dup(2); err == nil {
				syscall.Dup2(int(dn.Fd()), 2)
				defer func() { syscall.Dup2(saved, 2); syscall.Close(saved); dn.Close() }()
			}
		}
	}
	dir, err := os.MkdirTemp(hx.Scratch(t), "cx04tls")
	if err != nil {
		res.Infra = err.Error()
		return
	}
	defer os.RemoveAll(dir)
	fx, err := newFixture(dir)
	if err != nil {
		res.Infra = "fixture: " + err.Error()
		return
	}
	defer fx.close()
	c := &checker{res: res, fx: fx, stats: map[string]int{}, confirm: map[string]int{}}
	seed := hx.Seed()

	if rp, ok := hx.LoadReplay[rcase](t); ok {
		replayOne(c, &rp, seed)
		return
	}

	cases := loadCases(t)
	selftest := hx.SelfTest()
	var opts, served []*caseJ
	for _, cs := range cases {
		switch {
		case cs.Space == "opts":
			opts = append(opts, cs)
		case slow(cs):
			c.stat("served_cases_left_to_the_other_tier_or_too_slow", 1)
		default:
			served = append(served, cs)
		}
	}
	res.AddExtra("cases", map[string]int{"all": len(cases), "served": len(served), "opts": len(opts)})
	if len(served) == 0 || len(opts) == 0 {
		res.Infra = "TLC emitted no served / opts cases"
		return
	}

	// 1. the setup, through the API
	t0 := time.Now()
	c.checkOpts(opts, selftest, seed)
	tOpts := time.Since(t0)

	// 2. the served cases: one instance, two sites
	var crs []*caseRun
	before := map[*backend]int{}
	for _, cs := range served {
		cr, err := c.place(cs)
		if err != nil {
			res.Infra = "backend: " + err.Error()
			return
		}
		if cr.be != nil {
			before[cr.be] = 0
		}
		crs = append(crs, cr)
	}
	for b := range before {
		before[b] = b.seq()
	}
	site, e, text, err := c.startSites(crs)
	if err != nil {
		// a rule the model accepts and casket refuses? load them one by one to find it
		bad := 0
		for _, cr := range crs {
			if s1, _, t1, e1 := c.startSites([]*caseRun{cr}); e1 != nil {
				bad++
				res.Add(hx.Mismatch{Key: key("setup", cr.c.ID, 0, 0), What: "the model accepts these rules, casket.Start refuses them: " + e1.Error() + "\n" + t1,
					Case: rcase{Clause: "backendtls/setup", Case: *cr.c}})
				if bad > 5 {
					break
				}
			} else {
				s1.Stop()
			}
		}
		if bad == 0 {
			res.Infra = fmt.Sprintf("cannot start the instance with all rules although each case loads alone: %v (%d bytes of Casketfile)", err, len(text))
		}
		return
	}
	tStart := time.Since(t0) - tOpts
	healthSettle(crs, before)
	groups := map[string][]*caseRun{}
	var gmu sync.Mutex
	gtime := map[string]string{}
	for _, cr := range crs {
		g := "dead:" + cr.c.Be.Reach + fmt.Sprint(cr.c.idx%4)
		if cr.be != nil {
			g = cr.be.name
			if cr.c.Be.Mute {
				g += fmt.Sprint(cr.c.idx)
			}
		}
		groups[g] = append(groups[g], cr)
	}
	var wg sync.WaitGroup
	sem := make(chan struct{}, 32)
	for _, g := range hx.SortedKeys(groups) {
		wg.Add(1)
		go func(list []*caseRun) {
			defer wg.Done()
			sem <- struct{}{}
			defer func() { <-sem }()
			rnd := rand.New(rand.NewSource(seed*7919 + int64(list[0].c.idx)))
			g0 := time.Now()
			defer func() {
				gmu.Lock()
				gtime[fmt.Sprintf("%s (%d cases)", list[0].c.Be.Cert+map[bool]string{true: "+h2"}[list[0].c.Be.H2]+map[bool]string{true: "@unix"}[list[0].c.Be.Unix]+"/"+list[0].c.Be.Reach, len(list))] = time.Since(g0).Round(time.Millisecond).String()
				gmu.Unlock()
			}()
			for _, cr := range list {
				var mut func(b, k int, w *wantJ, idle *int)
				plantedHere := false
				if selftest && rnd.Intn(6) == 0 {
					pb, pk, how := rnd.Intn(len(cr.c.Script)), 0, rnd.Intn(4)
					mut = func(b, k int, w *wantJ, idle *int) {
						if b != pb || k != pk {
							return
						}
						plantedHere = true
						switch {
						case how == 0 && w.Res == "relay":
							w.Res, w.Status, w.Cls, w.Delivered = "fail", 502, []string{"verify-name"}, false
						case how == 0:
							w.Res, w.Status, w.Cls, w.Delivered = "relay", 200, nil, true
						case how == 1 && w.Delivered:
							w.Host = map[string]string{"up": "fixed", "client": "up", "fixed": "client", "xname": "up"}[w.Host]
						case how == 2 && w.Conn.Seen && w.Conn.TLS && !w.Reused && cr.c.Be.Cert != "none" && !cr.c.Be.Mute:
							w.Conn.SNI = map[string]string{"": "b.test", "b.test": "", "svc": "b.test"}[w.Conn.SNI]
						case how == 3 && *idle > 0:
							*idle = *idle - 1
						default:
							if w.Res == "relay" {
								w.Status = 200 + 102 - (w.Status - 200)
							} else {
								w.Res, w.Status, w.Cls, w.Delivered = "relay", 200, nil, true
							}
						}
					}
				}
				fs := e.runCase(cr, seed, mut)
				c.count(cr.c)
				if selftest {
					if plantedHere {
						c.mu.Lock()
						c.planted++
						hit := false
						for _, f := range fs {
							if important(f) {
								hit = true
								break
							}
						}
						if hit {
							c.caught++
						} else {
							c.stats["selftest_missed: "+cr.c.ID] = 1
						}
						c.mu.Unlock()
					}
					continue
				}
				c.report(cr.c, fs, seed)
			}
		}(groups[g])
	}
	wg.Wait()
	// nobody ever went where a redirect pointed
	if n := e.canary.seq(); n != 0 {
		recs := e.canary.window(0, n+1, time.Second)
		res.Add(hx.Mismatch{Key: key("redirect", "canary", 0, 0), What: fmt.Sprintf("%d connections reached the host named in the Location of a relayed 302", n), Observed: recs})
	}
	site.Stop()
	c.stat("served_cases", len(crs))
	res.AddExtra("dns_queries", fx.dns.queries.Load())
	res.AddExtra("timing", map[string]interface{}{"opts": tOpts.Round(time.Millisecond).String(), "start": tStart.Round(time.Millisecond).String(), "total": time.Since(t0).Round(time.Millisecond).String(), "groups": gtime})

	if c.infra != "" {
		res.Infra = c.infra
	}
	res.AddExtra("stats", c.stats)
	if !selftest && res.Infra == "" {
		need := []string{"refused_verification", "relayed_after_opt_out", "relayed_verified", "neighbour_opted_out", "h2_backend", "ip_literal", "srv_upstream",
			"host_rewritten", "upgrade_request", "redirect_relayed", "burst", "keepalive_0", "dial_timeout", "dial_refused", "held_then_released",
			"unix_upstream", "health_checked", "opts_refused", "opts_built"}
		if hx.Thorough() {
			need = append(need, "handshake_timeout")
		}
		for _, k := range need {
			if c.stats[k] == 0 {
				res.Infra = "vacuous replay: no case with " + k
			}
		}
	}
	if selftest {
		res.AddExtra("selftest_planted", c.planted)
		res.AddExtra("selftest_caught", c.caught)
		if c.caught != c.planted || c.planted == 0 {
			res.Infra = fmt.Sprintf("selftest: %d wrong expectations planted, %d noticed", c.planted, c.caught)
		}
	}
}

// count classifies a served case for the vacuity guard and the evidence.
func (c *checker) count(cs *caseJ) {
	nontrivial := ""
	tags := map[string]bool{}
	for b, batch := range cs.Want {
		if len(batch) > 1 {
			tags["burst"] = true
		}
		for k, w := range batch {
			rq := cs.Script[b][k]
			rule := cs.Rules[rq.Rule-1]
			tr := cs.Trans[rq.Rule-1]
			switch {
			case w.Res == "fail" && len(w.Cls) > 0 && strings.HasPrefix(w.Cls[0], "verify-"):
				tags["refused_verification"] = true
				if len(cs.Rules) > 1 {
					for r2, o := range cs.Trans {
						if r2 != rq.Rule-1 && o.Skip {
							tags["neighbour_opted_out"] = true
						}
					}
				}
			case w.Res == "relay" && tr.Skip && rule.Sch != "http":
				tags["relayed_after_opt_out"] = true
			case w.Res == "relay" && w.Conn.Ver == "yes":
				tags["relayed_verified"] = true
			}
			if w.Res == "fail" {
				for _, cl := range w.Cls {
					tags[strings.ReplaceAll(cl, "-", "_")] = true
				}
			}
			if w.Res == "held" {
				tags["held_then_released"] = true
			}
			if w.Conn.Proto == "h2" {
				tags["h2_backend"] = true
			}
			if rule.Host == "127.0.0.1" && w.Conn.TLS {
				tags["ip_literal"] = true
			}
			if strings.HasPrefix(rule.Sch, "srv") {
				tags["srv_upstream"] = true
			}
			if rule.Sch == "unix" {
				tags["unix_upstream"] = true
			}
			if w.Delivered && w.Host != "up" {
				tags["host_rewritten"] = true
			}
			if w.Conn.Hij {
				tags["upgrade_request"] = true
			}
			if w.Res == "relay" && w.Status == 302 {
				tags["redirect_relayed"] = true
			}
			if tr.Limit == 0 && w.Res == "relay" {
				tags["keepalive_0"] = true
			}
			if cs.Hc[rq.Rule-1].On {
				tags["health_checked"] = true
			}
			if w.Res != "relay" || w.Reused {
				nontrivial = cs.ID
			}
			c.res.Count(nontrivial)
		}
	}
	for k := range tags {
		c.stat(k, 1)
	}
}

// checkOpts: space "opts" - every block through proxy.NewStaticUpstreams.
func (c *checker) checkOpts(opts []*caseJ, selftest bool, seed int64) {
	port, err := c.fx.refuser()
	if err != nil {
		c.setInfra(err.Error())
		return
	}
	tgt := target{port: port, sock: filepath.Join(c.fx.dir, "nobody.sock")}
	rnd := rand.New(rand.NewSource(seed))
	sampled := 0
	for _, cs := range opts {
		c.res.Count(func() string {
			if cs.Refused || len(cs.Rules[0].Opts) > 0 {
				return cs.ID
			}
			return ""
		}())
		want := *cs
		plant := selftest && rnd.Intn(9) == 0
		if plant {
			c.planted++
			if cs.Refused || rnd.Intn(3) == 0 {
				want.Refused = !cs.Refused
			} else {
				tr := append([]transJ(nil), cs.Trans...)
				switch rnd.Intn(3) {
				case 0:
					tr[0].Skip = !tr[0].Skip
				case 1:
					if tr[0].Kind == "quic" { // (no handshake time-out to compare there)
						tr[0].CC = !tr[0].CC
					} else {
						tr[0].HS = 10000 - tr[0].HS
					}
				default:
					tr[0].Dial += 1
				}
				want.Trans = tr
			}
		}
		diff := ""
		again := func() string {
			bt, setupErr, ierr := c.fx.build(cs, tgt)
			switch {
			case ierr != nil:
				c.setInfra("inspect: " + ierr.Error())
				return ""
			case (setupErr != nil) != want.Refused:
				return fmt.Sprintf("the setup returned %v, the model refuses the block: %v", setupErr, want.Refused)
			case setupErr != nil:
				return ""
			}
			return diffTransport(&want, bt)
		}
		if want.Refused != cs.Refused && !cs.Refused {
			// (a planted refusal of an accepted block)
			diff = again()
		} else {
			diff = again()
		}
		if cs.Refused {
			c.stat("opts_refused", 1)
		} else {
			c.stat("opts_built", 1)
		}
		if plant {
			if diff != "" {
				c.caught++
			}
			continue
		}
		if selftest || diff == "" {
			if diff == "" && sampled < 2 && len(cs.Rules[0].Opts) == 2 && !cs.Refused {
				sampled++
				c.res.Sample(map[string]interface{}{"block": c.fx.ruleText(cs, 1, tgt), "transport": cs.Trans[0]})
			}
			continue
		}
		if d2 := again(); d2 != "" { // a fresh call says the same
			clause := "transport"
			if strings.HasPrefix(d2, "the setup returned") {
				clause = "setup"
			}
			c.res.Add(hx.Mismatch{Key: key(clause, cs.ID, 0, 0), What: d2 + "\n" + c.fx.ruleText(cs, 1, tgt), Case: rcase{Clause: "backendtls/" + clause, Case: *cs}, Expected: cs.Trans})
		}
	}
}

func replayOne(c *checker, rc *rcase, seed int64) {
	c.res.Count("replay")
	cs := &rc.Case
	if cs.idx == 0 {
		cs.idx = 1
	}
	if cs.Space == "opts" {
		c.checkOpts([]*caseJ{cs}, false, seed)
	} else if rc.Clause == "backendtls/setup" {
		cr, err := c.place(cs)
		if err != nil {
			c.res.Infra = err.Error()
			return
		}
		if s, _, text, err := c.startSites([]*caseRun{cr}); err != nil {
			c.res.Add(hx.Mismatch{Key: key("setup", cs.ID, 0, 0), What: "casket.Start refuses: " + err.Error() + "\n" + text, Case: *rc})
		} else {
			s.Stop()
		}
	} else {
		fs, err := c.confirmCase(cs, seed)
		if err != nil {
			c.res.Infra = err.Error()
			return
		}
		for _, f := range fs {
			if important(f) {
				c.res.Add(hx.Mismatch{Key: key(f.clause, cs.ID, f.batch, f.k), What: f.what, Case: rcase{Clause: "backendtls/" + f.clause, Case: *cs, Batch: f.batch, K: f.k}, Expected: f.exp, Observed: f.obs})
			}
		}
	}
	if c.infra != "" {
		c.res.Infra = c.infra
	}
}
