package cx04tls

// Running one case against a live casket instance and judging what the client, the proxy handler and the backend saw.

import (
	"bufio"
	"fmt"
	"io"
	"net"
	"net/http"
	"sort"
	"strconv"
	"strings"
	"sync"
	"sync/atomic"
	"time"
)

type env struct {
	fx        *fixture
	addr      [3]string // addr[1], addr[2]: the two sites
	port      [3]int
	canary    *backend
	canaryURL string
	slack     time.Duration
}

type caseRun struct {
	c   *caseJ
	be  *backend // nil: nothing listens (blackhole, refusing socket)
	tgt target
}

type finding struct {
	clause string
	what   string
	batch  int
	k      int
	exp    interface{}
	obs    interface{}
}

type clientObs struct {
	status   int
	hdr      http.Header
	body     []byte
	err      error
	timedOut bool
	elapsed  time.Duration
}

var markSeq atomic.Int64

func nextMark() string { return "m" + strconv.FormatInt(markSeq.Add(1), 10) }

// send writes the request on a fresh connection and waits up to patience for a response.
func send(addr string, w wireReq, patience func() time.Duration) (clientObs, net.Conn) {
	var o clientObs
	c, err := net.DialTimeout("tcp", addr, 5*time.Second)
	if err != nil {
		o.err = err
		return o, nil
	}
	t0 := time.Now()
	c.SetWriteDeadline(time.Now().Add(10 * time.Second))
	if _, err := c.Write(w.raw); err != nil {
		o.err = err
		c.Close()
		return o, nil
	}
	c.SetReadDeadline(time.Now().Add(patience()))
	br := bufio.NewReader(c)
	resp, err := http.ReadResponse(br, &http.Request{Method: w.method})
	o.elapsed = time.Since(t0)
	if err != nil {
		if ne, ok := err.(net.Error); ok && ne.Timeout() {
			o.timedOut = true
			return o, c // the caller decides when the client gives up
		}
		o.err = err
		c.Close()
		return o, nil
	}
	o.status, o.hdr = resp.StatusCode, resp.Header
	c.SetReadDeadline(time.Now().Add(10 * time.Second))
	o.body, _ = io.ReadAll(resp.Body)
	resp.Body.Close()
	c.Close()
	return o, nil
}

func contains(l []string, x string) bool {
	for _, y := range l {
		if y == x {
			return true
		}
	}
	return false
}

func sameSet(a, b []string) bool {
	x := append([]string(nil), a...)
	y := append([]string(nil), b...)
	sort.Strings(x)
	sort.Strings(y)
	return strings.Join(x, ",") == strings.Join(y, ",")
}

// classOK: the error class the handler reported is one the model admits. The two "wrong protocol" classes and a bare
// EOF are one family: which of them comes out depends on what the confused peer happens to write back.
func classOK(got string, want []string) bool {
	proto := map[string]bool{"not-tls": true, "bad-response": true, "eof": true, "remote-alert": true}
	for _, w := range want {
		if got == w || (proto[w] && proto[got]) {
			return true
		}
	}
	return false
}

func (e *env) hostText(cr *caseRun, rq reqJ, abstract string) string {
	switch abstract {
	case "client":
		if rq.Chost == "other" {
			return otherHost
		}
		return siteHost
	case "fixed":
		return fixedHost
	case "xname":
		return otherHost
	}
	return upAuthority(cr.c.Rules[rq.Rule-1], cr.tgt)
}

// checkSeen compares the request the backend read with what the model (and ProxyRelay.tla) says it reads.
func (e *env) checkSeen(cr *caseRun, rq reqJ, want wantJ, w wireReq, rr reqRec, rec connRec) string {
	var bad []string
	add := func(f string, a ...interface{}) { bad = append(bad, fmt.Sprintf(f, a...)) }
	if rr.Method != w.method {
		add("method %q, sent %q", rr.Method, w.method)
	}
	if rr.URI != w.uri {
		add("request-target %q, sent %q", rr.URI, w.uri)
	}
	if h := e.hostText(cr, rq, want.Host); rr.Host != h {
		add("Host %q, want %q (%s)", rr.Host, h, want.Host)
	}
	if rr.BodyN != len(w.body) || rr.BodyH != sha8(w.body) {
		add("body %d bytes %s, sent %d bytes %s", rr.BodyN, rr.BodyH, len(w.body), sha8(w.body))
	}
	wantProto := "HTTP/1.1"
	if rec.Proto == "h2" {
		wantProto = "HTTP/2.0"
	}
	if rr.Proto != wantProto {
		add("request protocol %s on a connection that negotiated %q", rr.Proto, rec.Proto)
	}
	if v := rr.Header.Get("X-E2e"); v != "v" {
		add("X-E2e %q", v)
	}
	if v := rr.Header.Get("X-Forwarded-For"); v != "127.0.0.1" {
		add("X-Forwarded-For %q", v)
	}
	if rq.Hop {
		for _, h := range []string{"Keep-Alive", "Proxy-Connection", "X-Hop"} {
			if _, ok := rr.Header[h]; ok {
				add("hop-by-hop header %s arrived", h)
			}
		}
	}
	r := rq.Rule - 1
	if cr.c.Preset[r] {
		// (the value of X-Forwarded-Port comes from the client's Host: ProxyRelay's business)
		if rr.Header.Get("X-Real-Ip") != "127.0.0.1" || rr.Header.Get("X-Forwarded-Proto") != "http" || rr.Header.Get("X-Forwarded-Port") == "" {
			add("transparent preset headers: X-Real-Ip %q X-Forwarded-Proto %q X-Forwarded-Port %q", rr.Header.Get("X-Real-Ip"), rr.Header.Get("X-Forwarded-Proto"), rr.Header.Get("X-Forwarded-Port"))
		}
	} else if _, ok := rr.Header["X-Real-Ip"]; ok {
		add("X-Real-Ip without the transparent preset")
	}
	up := rr.Header.Get("Upgrade")
	if rq.Ws && cr.c.Wsrule[r] {
		if !strings.EqualFold(up, "websocket") || !strings.Contains(strings.ToLower(rr.Header.Get("Connection")), "upgrade") {
			add("upgrade headers lost: Upgrade %q Connection %q", up, rr.Header.Get("Connection"))
		}
	} else if up != "" {
		add("Upgrade %q arrived without the websocket preset", up)
	}
	if rq.Body == "none" && rq.M == "GET" && (rr.CL > 0 || len(rr.TE) > 0) {
		add("a body was announced for a bodiless request (Content-Length %d, Transfer-Encoding %v)", rr.CL, rr.TE)
	}
	return strings.Join(bad, "; ")
}

// checkConn compares a connection the backend registered with the model's record of the attempt.
func (e *env) checkConn(cr *caseRun, rq reqJ, want connJ, rec connRec) (clause, what string) {
	rule := cr.c.Rules[rq.Rule-1]
	if cr.be.pers.Cert == "" {
		// a plain backend does not parse a ClientHello; all it can say is what the first byte looked like
		if rec.TLS != want.TLS {
			return "conn", fmt.Sprintf("first byte looked like TLS: %v, model: %v", rec.TLS, want.TLS)
		}
		return "", ""
	}
	if rec.TLS != want.TLS {
		return "conn", fmt.Sprintf("first byte looked like TLS: %v, model: %v", rec.TLS, want.TLS)
	}
	if !want.TLS || cr.be.pers.Mute {
		return "", ""
	}
	if s := sniText(rule, cr.tgt, want.SNI); rec.SNI != s {
		return "sni", fmt.Sprintf("the ClientHello named %q, the upstream is written %q (want SNI %q)", rec.SNI, upText(rule, cr.tgt), s)
	}
	if !sameSet(rec.Offer, want.Offer) {
		return "conn", fmt.Sprintf("ALPN offer %v, model %v", rec.Offer, want.Offer)
	}
	switch want.HS {
	case "ok":
		if rec.HS != "ok" {
			return "conn", fmt.Sprintf("handshake from the backend's side: %q, model: completed", rec.HS)
		}
		p := rec.Proto
		if p == "" {
			p = "http/1.1"
		}
		if p != want.Proto {
			return "conn", fmt.Sprintf("negotiated %q, model %q", rec.Proto, want.Proto)
		}
		if rec.ClientCert != want.CC {
			return "conn", fmt.Sprintf("client certificate presented: %v, model: %v", rec.ClientCert, want.CC)
		}
	case "failed":
		if rec.HS == "ok" {
			if len(rec.Reqs) > 0 {
				return "verified", "a handshake the proxy had to abort completed and carried a request"
			}
			return "verified", "a handshake the proxy had to abort completed"
		}
	}
	return "", ""
}

// runCase plays the script of one case; mut (may be nil) may corrupt an expectation (selftest).
func (e *env) runCase(cr *caseRun, seed int64, mut func(b, k int, w *wantJ, idle *int)) []finding {
	var out []finding
	c := cr.c
	caseFrom := 0
	if cr.be != nil {
		caseFrom = cr.be.seq()
	}
	for b, batch := range c.Script {
		wants := make([]wantJ, len(batch))
		copy(wants, c.Want[b])
		idle := c.Idle[b]
		if mut != nil {
			for k := range wants {
				mut(b, k, &wants[k], &idle)
			}
		}
		from := 0
		if cr.be != nil {
			from = cr.be.seq()
		}
		ids := make([]string, len(batch))
		wires := make([]wireReq, len(batch))
		group := fmt.Sprintf("c%db%d-%s", c.idx, b+1, nextMark())
		for k, rq := range batch {
			ids[k] = fmt.Sprintf("%s.%d", group, k+1)
			wires[k] = buildReq(c, rq, ids[k], e.canaryURL, seed+int64(c.idx*31+b*7+k))
		}
		obs := make([]clientObs, len(batch))
		pending := make([]net.Conn, len(batch))
		var wg sync.WaitGroup
		for k := range batch {
			wg.Add(1)
			go func(k int) {
				defer wg.Done()
				site := c.Rules[batch[k].Rule-1].Site
				patience := func() time.Duration {
					if wants[k].Res != "held" {
						return time.Duration(wants[k].Wait)*time.Millisecond + e.slack
					}
					if cr.be == nil || !wants[k].Delivered {
						return 1200 * time.Millisecond
					}
					// once the backend has the request, a proxy that is going to answer by itself has every reason to
					id := ids[k]
					cr.be.until(from, 5*time.Second, func(recs []*connRec) bool {
						for _, r := range recs {
							for _, q := range r.Reqs {
								if q.ID == id {
									return true
								}
							}
						}
						return false
					})
					return 600 * time.Millisecond
				}
				obs[k], pending[k] = send(e.addr[site], wires[k], patience)
			}(k)
		}
		if len(batch) > 1 && cr.be != nil {
			// a burst: the backend answers when all have arrived
			if !cr.be.waitHeld(group, len(batch), 10*time.Second) {
				out = append(out, finding{clause: "idle", what: fmt.Sprintf("a burst of %d requests did not reach the backend together", len(batch)), batch: b + 1})
			}
			cr.be.release(group)
		}
		wg.Wait()
		// held requests: the client gives up now
		for k := range batch {
			if pending[k] != nil {
				pending[k].Close()
			}
		}
		var recs []connRec
		if cr.be != nil {
			to, err := cr.be.mark(nextMark())
			if err != nil {
				out = append(out, finding{clause: "infra", what: err.Error(), batch: b + 1})
				return out
			}
			recs = cr.be.window(from, to, 3*time.Second)
		}
		used := make([]bool, len(recs))
		for k, rq := range batch {
			w, o := wants[k], obs[k]
			add := func(clause, what string, exp, ob interface{}) {
				out = append(out, finding{clause: clause, what: what, batch: b + 1, k: k + 1, exp: exp, obs: ob})
			}
			// --- the client
			got := "relay"
			switch {
			case o.timedOut:
				got = "held"
			case o.err != nil:
				got = "error: " + o.err.Error()
			case o.status == http.StatusBadGateway:
				got = "fail"
			}
			if got == "relay" && o.hdr.Get("X-Backend") == "" {
				got = fmt.Sprintf("answered %d by casket itself", o.status)
			}
			if got != w.Res {
				clause := "outcome"
				switch {
				case got == "relay" && w.Res == "fail" && len(w.Cls) > 0 && strings.HasPrefix(w.Cls[0], "verify-"):
					clause = "verified"
				case got == "held" || w.Res == "held":
					clause = "silent"
				}
				add(clause, fmt.Sprintf("the client got: %s (status %d after %v); model: %s %v", got, o.status, o.elapsed.Round(time.Millisecond), w.Res, w.Cls), w, got)
			} else {
				switch w.Res {
				case "relay":
					wantBody := fmt.Sprintf("ok %s %s %s %d", cr.be.name, ids[k], sha8(wires[k].body), len(wires[k].body))
					if o.status != w.Status {
						add("redirect", fmt.Sprintf("status %d, the backend sent %d", o.status, w.Status), w.Status, o.status)
					} else if w.Status == http.StatusFound {
						if o.hdr.Get("Location") != wires[k].loc || string(o.body) != "moved" {
							add("redirect", fmt.Sprintf("the 302 was not relayed as it came: Location %q body %q", o.hdr.Get("Location"), o.body), wires[k].loc, o.hdr.Get("Location"))
						}
					} else if string(o.body) != wantBody || o.hdr.Get("X-Backend") != cr.be.name {
						add("intact", fmt.Sprintf("response body %q from %q, want %q", o.body, o.hdr.Get("X-Backend"), wantBody), wantBody, string(o.body))
					}
				case "fail":
					if lim := time.Duration(w.Wait)*time.Millisecond + e.slack; o.elapsed > lim {
						add("silent", fmt.Sprintf("502 after %v, bound %d ms", o.elapsed, w.Wait), w.Wait, o.elapsed.String())
					}
				}
			}
			// --- the proxy handler (status and error value it returned)
			var ho []handlerOutcome
			for try := 0; try < 150; try++ {
				if ho = takeOutcomes(ids[k]); len(ho) > 0 || got != w.Res {
					break
				}
				time.Sleep(20 * time.Millisecond)
			}
			if got == w.Res {
				switch {
				case len(ho) != 1:
					add("outcome", fmt.Sprintf("the proxy handler returned %d times for one request", len(ho)), 1, len(ho))
				case w.Res == "relay" && (ho[0].Err != nil || ho[0].Status != 0):
					add("outcome", fmt.Sprintf("relayed, but the handler returned %d %v", ho[0].Status, ho[0].Err), 0, ho[0].Status)
				case w.Res == "fail" && (ho[0].Status != w.Status || !classOK(ho[0].Class, w.Cls)):
					add("outcome", fmt.Sprintf("the handler returned %d, error class %q (%v); model: %d, one of %v", ho[0].Status, ho[0].Class, ho[0].Err, w.Status, w.Cls), w.Cls, ho[0].Class)
				case w.Res == "held" && (ho[0].Status != w.Status || !classOK(ho[0].Class, w.Cls)):
					add("silent", fmt.Sprintf("after the client left the handler returned %d %q (%v); model: %d %v", ho[0].Status, ho[0].Class, ho[0].Err, w.Status, w.Cls), w.Cls, ho[0].Class)
				}
			}
			if cr.be == nil {
				continue
			}
			// --- the backend: which request arrived, on which connection
			var hitRec *connRec
			var hit *reqRec
			nhit := 0
			for ri := range recs {
				for qi := range recs[ri].Reqs {
					if recs[ri].Reqs[qi].ID == ids[k] {
						hitRec, hit = &recs[ri], &recs[ri].Reqs[qi]
						nhit++
						used[ri] = true
					}
				}
			}
			if nhit == 0 {
				// perhaps on a connection from before this batch (a reused one)
				for _, r := range cr.be.window(caseFrom, from+1, 0) {
					for qi := range r.Reqs {
						if r.Reqs[qi].ID == ids[k] {
							rc := r
							hitRec, hit = &rc, &rc.Reqs[qi]
							nhit++
						}
					}
				}
			}
			switch {
			case w.Delivered && nhit != 1:
				if got == w.Res {
					add("intact", fmt.Sprintf("the backend read the request %d times", nhit), 1, nhit)
				}
			case !w.Delivered && nhit > 0:
				cl := "outcome"
				if len(w.Cls) > 0 && strings.HasPrefix(w.Cls[0], "verify-") {
					cl = "verified"
				}
				add(cl, fmt.Sprintf("the backend read a request the model says never reaches it (%v)", w.Cls), 0, nhit)
			case w.Delivered:
				if bad := e.checkSeen(cr, rq, w, wires[k], *hit, *hitRec); bad != "" {
					add("intact", "the backend read: "+bad, nil, *hit)
				}
			}
			// the connection attempt of this request
			if len(batch) == 1 {
				var fresh []int
				for ri := range recs {
					fresh = append(fresh, ri)
				}
				switch {
				case w.Reused:
					if len(fresh) > 0 {
						add("drift", "the model reuses an idle connection, the proxy dialled", 0, len(fresh))
					}
				case !w.Conn.Seen:
					if len(fresh) > 0 {
						add("outcome", "a connection reached the backend although the model says none can", 0, len(fresh))
					}
				case len(fresh) != 1:
					if got == w.Res {
						add("redirect", fmt.Sprintf("%d connections reached the backend for one request", len(fresh)), 1, len(fresh))
					}
				default:
					if cl, what := e.checkConn(cr, rq, w.Conn, recs[fresh[0]]); cl != "" {
						add(cl, what, w.Conn, recs[fresh[0]])
					}
				}
			}
		}
		if cr.be == nil {
			continue
		}
		if len(batch) > 1 {
			// a burst: every connection of the window is one of the burst's, all alike
			if len(recs) != len(batch) {
				out = append(out, finding{clause: "drift", what: fmt.Sprintf("%d connections for a burst of %d", len(recs), len(batch)), batch: b + 1})
			}
			for ri := range recs {
				if cl, what := e.checkConn(cr, batch[0], wants[0].Conn, recs[ri]); cl != "" {
					out = append(out, finding{clause: cl, what: what, batch: b + 1, exp: wants[0].Conn, obs: recs[ri]})
				}
			}
		}
		// --- what is kept open now
		open := -1
		ok := cr.be.until(caseFrom, 3*time.Second, func(rs []*connRec) bool {
			open = 0
			for _, r := range rs {
				if !r.Closed {
					open++
				}
			}
			return open <= idle
		})
		if !ok {
			out = append(out, finding{clause: "idle", what: fmt.Sprintf("%d connections of this rule are open at the backend after batch %d, the rule allows %d idle", open, b+1, idle), batch: b + 1, exp: idle, obs: open})
		} else if open < idle {
			out = append(out, finding{clause: "drift", what: fmt.Sprintf("fewer idle connections (%d) than the model keeps (%d)", open, idle), batch: b + 1})
		}
		// --- a held request leaves nothing behind
		for k := range batch {
			if wants[k].Res == "held" && obs[k].timedOut {
				id := ids[k]
				gone := cr.be.until(from, 3*time.Second, func(rs []*connRec) bool {
					for _, r := range rs {
						for _, q := range r.Reqs {
							if q.ID == id && !r.Closed && !contains(r.Cancelled, id) {
								return false
							}
						}
						if r.HS == "pending" {
							return false
						}
					}
					return true
				})
				if !gone {
					out = append(out, finding{clause: "silent", what: "the client left; 3 s later the connection to the silent backend is still open (h2: the stream not reset)", batch: b + 1, k: k + 1})
				}
			}
		}
	}
	return out
}
