// Extension of C02 (notes/TemplateJail.md): what a rendered page can pull in through casket's
// template context (caskethttp/httpserver/tplcontext.go) - replay of the cases TLC emits from
// specs/TemplateJail.tla against the real code.
//
// The fixture is the abstract tree of TemplateJail.tla materialised on disk from the "tree"
// case TLC prints (file contents = the model's Content(n), every file holds a unique token,
// also the file OUTSIDE the root and the Casketfile the site is loaded from).  Every page /
// call / document case becomes a file under root/pg and is run twice:
//
//	site    a real instance (casket.Start) with `templates /pg .html` and `markdown /pg
//	        { templatedir ...; template t1 ... }`, raw HTTP/1.1 requests
//	direct  httpserver.Context (or markdown's Data) executed with text/template, Root = a
//	        recording wrapper of http.Dir(root): which files were opened, how many at once
//
// Verdict = the declarative predicates of the module on the observation: tokens in the body
// must belong to files the page names inside the root (IncludeInsideRoot,
// RenderedOutputIsTemplateOutput), listings must be the entries of a directory the page names
// (FilesListsOnlyDirEntries), opened files lie under the root, a cyclic page ends with an error
// within the deadline and with boundedly many open files (NestedIncludeTerminates), no call and
// no document panics or hangs (ContextFunctionsTotal).  Differences from the operational model
// that satisfy the predicates (status, exact output sequence, opened set) are model drift.
package cx02tpl

import (
	"bytes"
	"encoding/json"
	"fmt"
	"math"
	"math/rand"
	"net/http"
	"net/url"
	"os"
	"path/filepath"
	"regexp"
	"sort"
	"strconv"
	"strings"
	"sync"
	"testing"
	"text/template"
	"time"

	"github.com/tmpim/casket/caskethttp/httpserver"
	"github.com/tmpim/casket/caskethttp/markdown"

	"verifharness/hx"
)

const ns = "cx02tpl"

// ---- cases emitted by TLC ---------------------------------------------------------------

type item struct {
	K    string   `json:"k"`
	Path []string `json:"path"`
	Arg  string   `json:"arg"`
	Node []string `json:"node"`
}

type outItem struct {
	K     string   `json:"k"`
	Node  []string `json:"node"`
	Names []string `json:"names"`
	Val   string   `json:"val"`
}

type treeFile struct {
	Node   []string `json:"node"`
	Items  []item   `json:"items"`
	Parses bool     `json:"parses"`
}

type lsDir struct {
	Node  []string `json:"node"`
	Names []string `json:"names"`
}

type docT struct {
	Fm     string `json:"fm"`
	Title  string `json:"title"`
	Tpl    string `json:"tpl"`
	Author string `json:"author"`
	X      string `json:"x"`
}

type tcase struct {
	T string `json:"t"`
	// tree
	Files  []treeFile `json:"files,omitempty"`
	Dirs   [][]string `json:"dirs,omitempty"`
	Hidden [][]string `json:"hidden,omitempty"`
	// page
	Via     string     `json:"via,omitempty"`
	Items   []item     `json:"items,omitempty"`
	St      int        `json:"st,omitempty"`
	Err     string     `json:"err,omitempty"`
	Out     []outItem  `json:"out,omitempty"`
	Opened  [][]string `json:"opened,omitempty"`
	HW      int        `json:"hw,omitempty"`
	Allowed [][]string `json:"allowed,omitempty"`
	Cyc     bool       `json:"cyc,omitempty"`
	LsDirs  []lsDir    `json:"lsdirs,omitempty"`
	// doc
	Doc *docT `json:"doc,omitempty"`
	Dst *docT `json:"dst,omitempty"`
	// call
	Fn    string   `json:"fn,omitempty"`
	Toks  []string `json:"toks,omitempty"`
	Num   []int    `json:"num,omitempty"`
	Known bool     `json:"known,omitempty"`
	Pred  []string `json:"pred,omitempty"`
	// replay files carry the tree and the way the case was run
	Tree *tcase `json:"tree,omitempty"`
	Mode string `json:"mode,omitempty"`
	idx  int
}

func nodeName(n []string) string { return strings.Join(n, "/") }

// ---- concretisation -------------------------------------------------------------------------

// curBase is the directory of the fixture the texts are rendered for ("ABSF" / "ABSD" name absolute paths)
var curBase = "/nonexistent"

func segText(s string) string {
	switch s {
	case "NUL":
		return "\x00"
	case "U2":
		return "é"
	case "ABSF":
		return strings.TrimPrefix(curBase, "/") + "/out/f"
	case "ABSD":
		return strings.TrimPrefix(curBase, "/") + "/out"
	}
	return s
}

// keyText spells a name for mismatch keys (no run-dependent text)
func keyText(segs []string) string {
	out := make([]string, len(segs))
	for i, s := range segs {
		switch s {
		case "ABSF":
			out[i] = "{abs}/out/f"
		case "ABSD":
			out[i] = "{abs}/out"
		default:
			out[i] = segText(s)
		}
	}
	return strconv.Quote(strings.Join(out, "/"))
}

func joinSegs(segs []string, sep string) string {
	out := make([]string, len(segs))
	for i, s := range segs {
		out[i] = segText(s)
	}
	return strings.Join(out, sep)
}

func itemText(it item) string {
	name := strconv.Quote(joinSegs(it.Path, "/"))
	switch it.K {
	case "lit":
		return hx.Token(ns, nodeName(it.Node))
	case "inc":
		if it.Arg != "" {
			return fmt.Sprintf("{{.Include %s %q}}", name, it.Arg)
		}
		return fmt.Sprintf("{{.Include %s}}", name)
	case "files":
		return fmt.Sprintf("<ls>{{range .Files %s}}<e>{{.}}</e>{{end}}</ls>", name)
	case "md":
		return fmt.Sprintf("{{.Markdown %s}}", name)
	case "args":
		return "{{range .Args}}<arg>{{.}}</arg>{{end}}"
	case "body":
		return "{{.Doc.body}}"
	}
	panic("unknown item kind " + it.K)
}

func itemsText(items []item) string {
	var b strings.Builder
	for _, it := range items {
		b.WriteString(itemText(it))
	}
	return b.String()
}

// pageText is the template a page case stands for (markdown's named template starts with the body).
func pageText(c *tcase) string {
	if c.Via == "markdown" {
		return "[[{{.Doc.body}}" + itemsText(c.Items) + "]]"
	}
	return "[[" + itemsText(c.Items) + "]]"
}

// popsAbs: "ABSF" / "ABSD" stand for several real segments, the model knows them as one: a name that walks
// back over them with ".." means something else on disk than in the model and is not replayed
func popsAbs(c *tcase) bool {
	for _, it := range c.Items {
		abs := false
		for _, s := range it.Path {
			if s == "ABSF" || s == "ABSD" {
				abs = true
			} else if s == ".." && abs {
				return true
			}
		}
	}
	return false
}

func pageKey(c *tcase) string {
	var parts []string
	for _, it := range c.Items {
		s := it.K + ":" + keyText(it.Path)
		if it.Arg != "" {
			s += "+arg"
		}
		parts = append(parts, s)
	}
	return c.Via + "/" + strings.Join(parts, ",")
}

const maxInt = math.MaxInt64

func numText(n int) string {
	switch n {
	case 99:
		return strconv.Itoa(maxInt)
	case -99:
		return strconv.Itoa(math.MinInt64)
	}
	return strconv.Itoa(n)
}

// callReq is how a call case reaches the code: the template text and the request-derived values.
type callReq struct {
	Text       string
	Host       string
	Cookie     string
	HeaderVal  string
	Query      string
	RemoteAddr string
	SiteOK     bool // can be sent through a real site
}

func callOf(c *tcase) callReq {
	s := joinSegs(c.Toks, "")
	q := strconv.Quote(s)
	r := callReq{SiteOK: true}
	switch c.Fn {
	case "Truncate":
		r.Text = fmt.Sprintf("{{.Truncate %s %s}}", q, numText(c.Num[0]))
	case "StripExt":
		r.Text = fmt.Sprintf("{{.StripExt %s}}", q)
	case "Ext":
		r.Text = fmt.Sprintf("{{.Ext %s}}", q)
	case "StripHTML":
		r.Text = fmt.Sprintf("{{.StripHTML %s}}", q)
	case "Map":
		var args []string
		for _, t := range c.Toks {
			if t == "1" {
				args = append(args, "1")
			} else {
				args = append(args, strconv.Quote(t))
			}
		}
		r.Text = "{{.Map " + strings.Join(args, " ") + "}}"
		if len(args) == 0 {
			r.Text = "{{.Map}}"
		}
	case "RandomString":
		r.Text = fmt.Sprintf("{{.RandomString %s %s}}", numText(c.Num[0]), numText(c.Num[1]))
	case "Replace":
		find := ""
		if len(c.Toks) > 0 {
			find = c.Toks[0]
		}
		r.Text = fmt.Sprintf("{{.Replace %s %q \"X\"}}", q, find)
	case "Split":
		sep := ""
		if len(c.Toks) > 0 {
			sep = c.Toks[len(c.Toks)-1]
		}
		r.Text = fmt.Sprintf("{{.Join (.Split %s %q) \"+\"}}{{.ToUpper %s}}{{.ToLower %s}}{{.Slice %s 1}}", q, sep, q, q, q)
	case "Now":
		r.Text = fmt.Sprintf("{{.Now %s}}", q)
	case "Cookie":
		r.Text, r.Cookie = `{{.Cookie "a"}}`, s
	case "Header":
		r.Text, r.HeaderVal = `{{.Header "X-T"}}`, s
	case "Host":
		r.Text, r.Host = `{{.Host}}|{{.Port}}`, s
	case "URI":
		r.Text, r.Query = `{{.URI}}|{{.Method}}`, s
	case "PathMatches":
		r.Text = fmt.Sprintf("{{.PathMatches %s}}", q)
	case "IP":
		r.Text, r.RemoteAddr, r.SiteOK = `{{.IP}}`, s, false
	default:
		panic("unknown call " + c.Fn)
	}
	return r
}

func callKey(c *tcase) string {
	k := c.Fn + "/" + strconv.Quote(joinSegs(c.Toks, ""))
	for _, n := range c.Num {
		k += "/" + numText(n)
	}
	return k
}

// docText renders a document case in its front matter syntax.
func docText(c *tcase, bodyTok string) string {
	d := c.Doc
	syntax := d.Fm
	if syntax == "open" {
		syntax = []string{"yaml", "toml", "json"}[c.idx%3]
	}
	type kv struct{ k, kind string }
	fields := []kv{{"title", d.Title}, {"template", d.Tpl}, {"author", d.Author}, {"x", d.X}}
	val := func(f kv, toml bool) (string, bool) {
		switch f.kind {
		case "-":
			return "", false
		case "str":
			return map[string]string{"title": `"TITLE-x"`, "author": `"AUTH-x"`, "x": `"XVAL-x"`}[f.k], true
		case "int":
			return "7", true
		case "t1", "nope":
			return strconv.Quote(f.kind), true
		case "list":
			return `["a", "b"]`, true
		case "map":
			if toml {
				return "", false // written as a table at the end
			}
			return `{"k": "v"}`, true
		}
		panic("kind " + f.kind)
	}
	var b strings.Builder
	switch syntax {
	case "none":
		return "BODY " + bodyTok + "\n"
	case "empty":
		return ""
	case "yaml":
		b.WriteString("---\n")
		for _, f := range fields {
			if v, ok := val(f, false); ok {
				fmt.Fprintf(&b, "%s: %s\n", f.k, v)
			}
		}
		if d.Fm != "open" {
			b.WriteString("---\n")
		}
	case "toml":
		b.WriteString("+++\n")
		for _, f := range fields {
			if v, ok := val(f, true); ok {
				fmt.Fprintf(&b, "%s = %s\n", f.k, v)
			}
		}
		if d.X == "map" {
			b.WriteString("[x]\nk = \"v\"\n")
		}
		if d.Fm != "open" {
			b.WriteString("+++\n")
		}
	case "json":
		var parts []string
		for _, f := range fields {
			if v, ok := val(f, false); ok {
				parts = append(parts, fmt.Sprintf("%q: %s", f.k, v))
			}
		}
		b.WriteString("{" + strings.Join(parts, ", "))
		if d.Fm != "open" {
			b.WriteString("}")
		}
		b.WriteString("\n")
	}
	b.WriteString("BODY " + bodyTok + "\n")
	return b.String()
}

func docKey(c *tcase) string {
	d := c.Doc
	return fmt.Sprintf("fm=%s/title=%s/template=%s/author=%s/x=%s", d.Fm, d.Title, d.Tpl, d.Author, d.X)
}

// ---- fixture ------------------------------------------------------------------------------------

type fixture struct {
	base, root string
	tree       *tcase
	tokenNode  map[string]string // token -> "root/f", "out/f", "page"
	site       *hx.Site
	addr       string
}

func (f *fixture) close() {
	if f.site != nil {
		f.site.Stop()
	}
	os.RemoveAll(f.base)
}

// newTree writes the model's file system below a fresh directory.
func newTree(dir string, tree *tcase) (*fixture, error) {
	base, err := os.MkdirTemp(dir, "cx02tpl")
	if err != nil {
		return nil, err
	}
	if base, err = filepath.EvalSymlinks(base); err != nil {
		return nil, err
	}
	f := &fixture{base: base, root: filepath.Join(base, "root"), tree: tree, tokenNode: map[string]string{}}
	curBase = base
	for _, d := range tree.Dirs {
		if err := os.MkdirAll(filepath.Join(base, filepath.Join(d...)), 0o755); err != nil {
			return nil, err
		}
	}
	for _, tf := range tree.Files {
		n := nodeName(tf.Node)
		f.tokenNode[hx.Token(ns, n)] = n
		text := itemsText(tf.Items)
		if n == "root/Casketfile" {
			text = "# " + text + "\n" // replaced by the real Casketfile when the site is started
		}
		if n == "root/s/index.md" {
			text = "---\ntemplate: tsum\n---\n" + text + "\n" // the directory index of the "index" family
		}
		if !tf.Parses {
			text += "{{ .Broken"
		}
		if err := os.WriteFile(filepath.Join(base, n), []byte(text), 0o644); err != nil {
			return nil, err
		}
	}
	f.tokenNode[hx.Token(ns, "page")] = "page"
	return f, nil
}

func (f *fixture) casketfileHead() string {
	return "# " + hx.Token(ns, "root/Casketfile") + "\n"
}

// the named template the documents select with `template: t1`
const docTemplate = `T1[{{.Doc.title}}|{{.Doc.x}}|{{.Meta.author}}|{{.Doc.body}}]`

// the template of the directory index root/s/index.md: the entries, then a summary of every regular file
const sumTemplate = `[[{{.Doc.body}}<ls>{{range .Files}}<e>{{.Name}}</e>{{end}}</ls>{{range .Files}}{{if not .IsDir}}{{if ne .Name "index.md"}}{{.Summarize 9}}{{end}}{{end}}{{end}}]]`

// what a confirmation run renders before the case it confirms: a defect that needs a previous render
// (a pooled buffer that is not reset) must still show on a fresh instance
const primerPage = `{{.Include "n2" "P"}}{{.Markdown "d/n"}}{{.Include "f"}}`

// context functions without arguments worth enumerating: one smoke page
const miscPage = `[[{{.Method}}|{{.ToLower "A"}}|{{.IsMITM}}|{{.TLSVersion}}|{{.AddLink "</x>; rel=preload"}}|{{.NowDate.Year}}|{{len .Env}}|{{.ServerIP}}|{{.IP}}|{{.StripHTML .URI}}]]`

func (f *fixture) writePage(name, text string) error {
	return os.WriteFile(filepath.Join(f.root, "pg", name), []byte(text), 0o644)
}

// startSite loads the Casketfile that lies inside the root (so the static file server hides it).
func (f *fixture) startSite() error {
	if err := f.writePage("doc1.html", docTemplate); err != nil {
		return err
	}
	if err := f.writePage("misc.html", miscPage); err != nil {
		return err
	}
	if err := f.writePage("sum.html", sumTemplate); err != nil {
		return err
	}
	if err := f.writePage("primer.html", primerPage); err != nil {
		return err
	}
	if err := f.writePage("t0.html", "T0"); err != nil { // the glob must match something
		return err
	}
	var lastErr error
	for try := 0; try < 4; try++ {
		port := hx.FreePort()
		cf := f.casketfileHead() + fmt.Sprintf(":%d {\n\tbind 127.0.0.1\n\ttls off\n\troot %s\n\terrors visible\n\ttemplates /pg .html\n\tmarkdown /pg {\n\t\ttemplatedir %s\n\t\ttemplate t1 pg/doc1.html\n\t\tcss /f\n\t\tjs ../out/f\n\t}\n\tmarkdown /s {\n\t\ttemplate tsum pg/sum.html\n\t}\n}\n",
			port, f.root, filepath.Join(f.root, "pg", "t*.html"))
		cfp := filepath.Join(f.root, "Casketfile")
		if err := os.WriteFile(cfp, []byte(cf), 0o644); err != nil {
			return err
		}
		s, err := hx.StartHTTP(cf, cfp)
		if err == nil {
			f.site, f.addr = s, fmt.Sprintf("127.0.0.1:%d", port)
			return nil
		}
		lastErr = err
		if !strings.Contains(err.Error(), "address already in use") {
			break
		}
	}
	return lastErr
}

// ---- observation -----------------------------------------------------------------------------------

type obs struct {
	Mode     string   `json:"mode"`
	Status   int      `json:"status"` // 200 / 500 (direct: ok / error)
	Err      string   `json:"err,omitempty"`
	Body     string   `json:"body,omitempty"`
	Seq      []string `json:"seq"`    // tok:<node> ls:<names> arg:<v> body, in order of appearance
	Tokens   []string `json:"tokens"` // nodes whose token occurs
	Listings []string `json:"listings,omitempty"`
	Opened   []string `json:"opened,omitempty"` // direct: real paths opened, relative to the fixture base
	HW       int      `json:"hw,omitempty"`     // direct: most files open at once
	Panic    string   `json:"panic,omitempty"`
	Hang     bool     `json:"hang,omitempty"`
	Elapsed  string   `json:"elapsed,omitempty"`
	Leaked   int      `json:"still_open,omitempty"` // direct: files left open
}

var seqRe = regexp.MustCompile(`tk-[0-9a-f]{20}-kt|(?s:<ls>.*?</ls>)|<arg>[^<]*</arg>`)
var entRe = regexp.MustCompile(`<e>([^<]*)</e>`)

func clip(s string, n int) string {
	if len(s) > n {
		return s[:n/2] + " ... " + s[len(s)-n/2:]
	}
	return s
}

func (f *fixture) scan(o *obs, body string) {
	o.Body = clip(body, 700)
	seen := map[string]bool{}
	for _, m := range seqRe.FindAllString(body, -1) {
		switch {
		case strings.HasPrefix(m, "tk-"):
			n, ok := f.tokenNode[m]
			if !ok {
				n = "unknown:" + m
			}
			if n == "page" {
				o.Seq = append(o.Seq, "body")
			} else {
				o.Seq = append(o.Seq, "tok:"+n)
			}
			if !seen[n] {
				seen[n] = true
				o.Tokens = append(o.Tokens, n)
			}
		case strings.HasPrefix(m, "<ls>"):
			var names []string
			for _, e := range entRe.FindAllStringSubmatch(m, -1) {
				names = append(names, e[1])
			}
			sort.Strings(names)
			l := strings.Join(names, " ")
			o.Seq = append(o.Seq, "ls:"+l)
			o.Listings = append(o.Listings, l)
		default:
			o.Seq = append(o.Seq, "arg:"+m[5:len(m)-6])
		}
	}
	sort.Strings(o.Tokens)
}

// recFS records what the template context opens through Context.Root.
type recFS struct {
	inner  http.FileSystem
	mu     sync.Mutex
	opened map[string]bool
	cur    int
	hw     int
}

type recFile struct {
	http.File
	fs   *recFS
	once sync.Once
}

func (r *recFS) Open(name string) (http.File, error) {
	f, err := r.inner.Open(name)
	if err != nil {
		return nil, err
	}
	real := name
	if of, ok := f.(*os.File); ok {
		real = of.Name()
	}
	if p, err := filepath.EvalSymlinks(real); err == nil {
		real = p
	} else {
		real = filepath.Clean(real)
	}
	r.mu.Lock()
	r.opened[real] = true
	r.cur++
	if r.cur > r.hw {
		r.hw = r.cur
	}
	r.mu.Unlock()
	return &recFile{File: f, fs: r}, nil
}

func (f *recFile) Close() error {
	f.once.Do(func() { f.fs.mu.Lock(); f.fs.cur--; f.fs.mu.Unlock() })
	return f.File.Close()
}

// directJob is one execution of a template text with the real context (also the child's job line).
type directJob struct {
	Base, Root string
	Primer     string // executed first, result ignored (confirmation runs: a fresh process that has rendered one page before)
	Text       string
	Data       bool // markdown's Data instead of a plain Context
	BodyTok    string
	Host       string
	Cookie     string
	HeaderVal  string
	RequestURI string
	RemoteAddr string
	TimeoutMS  int
}

type directOut struct {
	StillOpen int // files not closed when the execution was over
	OK        bool
	Err       string
	Body      string
	Opened    []string
	HW        int
	Panic     string
	Hang      bool
	Elapsed   time.Duration
}

func runDirect(j *directJob) directOut {
	rfs := &recFS{inner: http.Dir(j.Root), opened: map[string]bool{}}
	u := &url.URL{Path: "/pg/x.html"}
	req := &http.Request{Method: "GET", URL: u, Header: http.Header{}, Host: "example.test:8080", RemoteAddr: "192.0.2.7:5555", RequestURI: "/pg/x.html"}
	if j.Host != "" {
		req.Host = j.Host
	}
	if j.Cookie != "" {
		req.Header.Set("Cookie", j.Cookie)
	}
	if j.HeaderVal != "" {
		req.Header.Set("X-T", j.HeaderVal)
	}
	if j.RequestURI != "" {
		req.RequestURI = j.RequestURI
	}
	if j.RemoteAddr != "" {
		req.RemoteAddr = j.RemoteAddr
	}
	ctx := httpserver.NewContextWithHeader(http.Header{})
	ctx.Root, ctx.Req, ctx.URL = rfs, req, u
	var dot interface{} = ctx
	if j.Data {
		dot = markdown.Data{Context: ctx, Doc: map[string]interface{}{"body": j.BodyTok}}
	}
	type result struct {
		body  string
		err   error
		panic string
	}
	done := make(chan result, 1)
	t0 := time.Now()
	go func() {
		var r result
		defer func() {
			if p := recover(); p != nil {
				r.panic = fmt.Sprint(p)
			}
			done <- r
		}()
		if j.Primer != "" {
			if ptpl, err := template.New("primer").Funcs(httpserver.TemplateFuncs).Parse(j.Primer); err == nil {
				var pbuf bytes.Buffer
				ptpl.Execute(&pbuf, dot)
			}
		}
		tpl, err := template.New("page").Funcs(httpserver.TemplateFuncs).Parse(j.Text)
		if err != nil {
			r.err = fmt.Errorf("page does not parse: %v", err)
			return
		}
		var buf bytes.Buffer
		r.err = tpl.Execute(&buf, dot)
		r.body = buf.String()
	}()
	var out directOut
	tmo := time.Duration(j.TimeoutMS) * time.Millisecond
	if tmo == 0 {
		tmo = 5 * time.Second
	}
	select {
	case r := <-done:
		out.OK, out.Body, out.Panic = r.err == nil && r.panic == "", r.body, r.panic
		if r.err != nil {
			out.Err = clip(r.err.Error(), 400)
		}
	case <-time.After(tmo):
		out.Hang = true
	}
	out.Elapsed = time.Since(t0)
	rfs.mu.Lock()
	if j.Primer != "" { // the primer's files are not the case's
		for _, n := range []string{"n2", "n1", "d/g", "d/n", "ls", "d", "f"} {
			delete(rfs.opened, filepath.Join(j.Root, n))
		}
	}
	out.HW = rfs.hw
	if !out.Hang {
		out.StillOpen = rfs.cur
	}
	for p := range rfs.opened {
		if rel, err := filepath.Rel(j.Base, p); err == nil {
			p = filepath.ToSlash(rel)
		}
		out.Opened = append(out.Opened, p)
	}
	rfs.mu.Unlock()
	sort.Strings(out.Opened)
	return out
}

func (f *fixture) directObs(d directOut) obs {
	o := obs{Mode: "direct", Status: 500, Err: d.Err, Opened: d.Opened, HW: d.HW, Panic: d.Panic, Hang: d.Hang, Elapsed: d.Elapsed.Round(time.Millisecond).String(), Leaked: d.StillOpen}
	if d.OK {
		o.Status = 200
		f.scan(&o, d.Body) // what a failed Execute had written is never sent: the buffer is dropped
	} else {
		o.Body = clip(d.Body, 300)
	}
	return o
}

// TestCx02TplChild runs direct jobs in a process of its own (cyclic pages: a runaway recursion
// cannot be stopped inside the harness process, and it would eat its file descriptors).
func TestCx02TplChild(t *testing.T) {
	hx.ServeChild(t, "TestCx02TplChild", func(job []byte) []byte {
		var j directJob
		if err := json.Unmarshal(job, &j); err != nil {
			return []byte(`{"Err":"bad job"}`)
		}
		b, _ := json.Marshal(runDirect(&j))
		return b
	})
}

// ---- judgement ----------------------------------------------------------------------------------------

type problem struct{ clause, what string }

const openBudget = 256 // far above tplcontext.go's bound, far below any descriptor limit

func contains(xs []string, x string) bool {
	for _, y := range xs {
		if x == y {
			return true
		}
	}
	return false
}

func allowedNodes(c *tcase) []string {
	var out []string
	for _, n := range c.Allowed {
		out = append(out, nodeName(n))
	}
	if c.Via == "markdown" {
		out = append(out, "page")
	}
	return out
}

func judgePage(c *tcase, o *obs) []problem {
	var ps []problem
	if o.Hang {
		cl := "hang"
		if c.Cyc {
			cl = "nested-terminates"
		}
		return []problem{{cl, "the render did not finish within the deadline (" + o.Elapsed + ")"}}
	}
	if o.Panic != "" {
		ps = append(ps, problem{"panic", "a panic escaped the template execution: " + clip(o.Panic, 200)})
	}
	if o.Status != 200 && o.Status != 500 && c.T != "index" { // an index request may be none of markdown's business
		ps = append(ps, problem{"status", fmt.Sprintf("the page is answered %d %s (neither rendered nor a template error)", o.Status, o.Err)})
	}
	allowed := allowedNodes(c)
	for _, n := range o.Tokens {
		switch {
		case contains(allowed, n):
		case !strings.HasPrefix(n, "root/") && n != "page":
			ps = append(ps, problem{"outside-root", "the body contains the content of " + n + ", a file outside the site root"})
		default:
			ps = append(ps, problem{"not-named", "the body contains the content of " + n + ", which no action of the page names"})
		}
	}
	for _, l := range o.Listings {
		ok := false
		for _, d := range c.LsDirs {
			names := append([]string{}, d.Names...)
			sort.Strings(names)
			if strings.Join(names, " ") == l {
				ok = true
			}
		}
		if !ok {
			ps = append(ps, problem{"listed", "the page lists [" + l + "], which is not the content of a directory it names inside the root"})
		}
	}
	for _, p := range o.Opened {
		if p != "root" && !strings.HasPrefix(p, "root/") {
			ps = append(ps, problem{"opened-outside", "the template context opened " + p + ", outside the site root"})
		}
	}
	if o.Leaked != 0 {
		ps = append(ps, problem{"fd-leak", fmt.Sprintf("%d of the files the template context opened were not closed when the render was over", o.Leaked)})
	}
	if o.Status == 200 && c.St == 200 {
		// "templates: .Include can now pass arguments to included file": what {{.Args}} shows in the included files
		var got, want []string
		for _, x := range o.Seq {
			if strings.HasPrefix(x, "arg:") {
				got = append(got, x)
			}
		}
		for _, x := range modelSeq(c) {
			if strings.HasPrefix(x, "arg:") {
				want = append(want, x)
			}
		}
		if strings.Join(got, ",") != strings.Join(want, ",") {
			ps = append(ps, problem{"args", fmt.Sprintf("the included files saw the arguments %v, the page passes %v", got, want)})
		}
	}
	if o.HW > openBudget {
		ps = append(ps, problem{"nested-bounded", fmt.Sprintf("%d files were open at once", o.HW)})
	}
	if c.Cyc && o.Status == 200 {
		ps = append(ps, problem{"nested-terminates", "a page whose includes form a cycle rendered without an error"})
	}
	return ps
}

func modelSeq(c *tcase) []string {
	var out []string
	for _, o := range c.Out {
		switch o.K {
		case "tok":
			out = append(out, "tok:"+nodeName(o.Node))
		case "ls":
			names := append([]string{}, o.Names...)
			sort.Strings(names)
			out = append(out, "ls:"+strings.Join(names, " "))
		case "arg":
			out = append(out, "arg:"+o.Val)
		case "body":
			if c.T == "index" {
				out = append(out, "tok:root/s/index.md")
			} else {
				out = append(out, "body")
			}
		}
	}
	return out
}

// an index request: the same predicates as a page (tokens of files of the listed directory, the listing)
func driftIndex(c *tcase, o *obs) string {
	if o.Status != c.St {
		return fmt.Sprintf("status %d (%s), model %d (%s)", o.Status, clip(o.Err, 160), c.St, c.Err)
	}
	if c.St == 200 {
		if got, want := strings.Join(o.Seq, ","), strings.Join(modelSeq(c), ","); got != want {
			return fmt.Sprintf("output %s, model %s", got, want)
		}
	}
	return ""
}

func driftPage(c *tcase, o *obs) string {
	if o.Status != c.St {
		return fmt.Sprintf("status %d (%s), model %d (%s)", o.Status, clip(o.Err+o.Body, 160), c.St, c.Err)
	}
	if c.St == 200 {
		if got, want := strings.Join(o.Seq, ","), strings.Join(modelSeq(c), ","); got != want {
			return fmt.Sprintf("output %s, model %s", got, want)
		}
	} else if len(o.Tokens) > 0 {
		return fmt.Sprintf("a failed render sent content: %v", o.Tokens)
	}
	if o.Mode == "direct" {
		var want []string
		for _, n := range c.Opened {
			want = append(want, nodeName(n))
		}
		sort.Strings(want)
		if strings.Join(want, ",") != strings.Join(o.Opened, ",") {
			return fmt.Sprintf("opened %v, model %v", o.Opened, want)
		}
		if !c.Cyc && o.HW != c.HW {
			return fmt.Sprintf("open at once %d, model %d", o.HW, c.HW)
		}
	}
	return ""
}

func judgeCall(c *tcase, o *obs) []problem {
	var ps []problem
	if o.Hang {
		return []problem{{"total", "the call did not return within the deadline"}}
	}
	if o.Panic != "" {
		ps = append(ps, problem{"total", "a panic escaped the template execution: " + clip(o.Panic, 200)})
	}
	if o.Mode == "site" && o.Status != 200 && o.Status != 500 && o.Status != 400 {
		ps = append(ps, problem{"total", fmt.Sprintf("the page is answered %d %s", o.Status, o.Err)})
	}
	if strings.Contains(o.Body, "[PANIC") {
		ps = append(ps, problem{"total", "the request ended in a panic: " + clip(o.Body, 200)})
	}
	return ps
}

func driftCall(c *tcase, o *obs, raw string) string {
	if o.Status == 400 {
		return "" // net/http refused the request line / Host header
	}
	if (c.St == 500) != (o.Status == 500) && (c.St == 500 || c.Known || c.Fn == "Map" || c.Fn == "RandomString") {
		return fmt.Sprintf("status %d (%s), model %d", o.Status, clip(o.Err+o.Body, 120), c.St)
	}
	if c.Known && o.Status == 200 {
		if want := joinSegs(c.Pred, ""); raw != "[["+want+"]]" {
			return fmt.Sprintf("value %q, model %q", raw, "[["+want+"]]")
		}
	}
	if c.Fn == "RandomString" && o.Status == 200 && !c.Known {
		if n := len(raw) - 4; n < c.Num[0] || n > c.Num[1] {
			return fmt.Sprintf("length %d outside [%d,%d]", n, c.Num[0], c.Num[1])
		}
	}
	return ""
}

func judgeDoc(c *tcase, o *obs) []problem {
	var ps []problem
	if strings.Contains(o.Body, "[PANIC") {
		ps = append(ps, problem{"doc-total", "the document made the handler panic: " + clip(o.Body, 240)})
	} else if o.Status != 200 && o.Status != 500 {
		ps = append(ps, problem{"doc-total", fmt.Sprintf("the document is answered %d %s", o.Status, o.Err)})
	}
	for _, n := range o.Tokens {
		if n != "page" {
			ps = append(ps, problem{"not-named", "the rendered document contains the content of " + n + " (css / js options only link)"})
		}
	}
	return ps
}

func driftDoc(c *tcase, o *obs, raw, stem string) string {
	if o.Status != c.St {
		return fmt.Sprintf("status %d (%s), model %d (%s)", o.Status, clip(raw, 160), c.St, c.Err)
	}
	if c.St != 200 {
		return ""
	}
	d := c.Dst
	if t1 := strings.HasPrefix(raw, "T1["); t1 != (d.Tpl == "t1") {
		return fmt.Sprintf("named template used: %v, model %q", t1, d.Tpl)
	}
	title := stem
	if d.Title == "str" {
		title = "TITLE-x"
	}
	if d.Tpl == "t1" {
		if !strings.HasPrefix(raw, "T1["+title+"|") {
			return fmt.Sprintf("title: %q, model %q", clip(raw, 80), title)
		}
	} else if !strings.Contains(raw, "<title>"+title+"</title>") {
		return fmt.Sprintf("title: model %q not in %q", title, clip(raw, 200))
	}
	if has := strings.Contains(raw, `<meta name="author" content="AUTH-x">`) || strings.Contains(raw, "|AUTH-x|"); has != (d.Author == "str") {
		return fmt.Sprintf("author meta present: %v, model %q", has, d.Author)
	}
	if c.Doc.Fm != "empty" && !contains(o.Tokens, "page") {
		return "the body of the document is missing"
	}
	return ""
}

// ---- the run --------------------------------------------------------------------------------------------

type runner struct {
	t     *testing.T
	res   *hx.Result
	fx    *fixture
	tree  *tcase
	pool  *hx.ProcPool
	mu    sync.Mutex
	infra string
	bads  map[string]*bad
	drift map[string]int
	dsamp []string
	agree map[string]int
	hid   int
	self  int

	perClause map[string]int
	seen      map[string]int

	confirming bool
	skipped    int
}

type bad struct {
	c    *tcase
	mode string
	p    problem
}

func (r *runner) setInfra(s string) {
	r.mu.Lock()
	if r.infra == "" {
		r.infra = s
	}
	r.mu.Unlock()
}

func indexTarget(c *tcase) string { return "/" + strings.Join(c.Toks, "/") + "/" }

func caseKey(c *tcase) string {
	switch c.T {
	case "page":
		return pageKey(c)
	case "call":
		return callKey(c)
	case "index":
		return "GET " + indexTarget(c)
	}
	return docKey(c)
}

func mmKey(c *tcase, clause string) string {
	return "C02/templatejail/" + clause + "/" + caseKey(c)
}

func (r *runner) record(c *tcase, mode string, ps []problem, dr string, kind string) {
	r.mu.Lock()
	defer r.mu.Unlock()
	if len(ps) > 0 {
		if hx.SelfTest() {
			r.self++
			return
		}
		for _, p := range ps {
			k := mmKey(c, p.clause)
			limit := 6 // a few witnesses per clause
			if p.clause == "nested-terminates" || p.clause == "hang" {
				limit = 2 // each confirmation waits for the deadline
			}
			group := p.clause
			if c.T == "doc" {
				group, limit = p.clause+"/"+c.Doc.Fm, 2 // every front matter syntax gets its witnesses
			}
			if _, ok := r.bads[k]; !ok && r.perClause[group] < limit {
				r.bads[k] = &bad{c, mode, p}
				r.perClause[group]++
			}
			r.seen[p.clause]++
		}
		return
	}
	if dr != "" {
		r.drift[kind]++
		if len(r.dsamp) < 10 {
			r.dsamp = append(r.dsamp, fmt.Sprintf("%s %s [%s]: %s", c.T, caseKey(c), mode, dr))
		}
		return
	}
	r.agree[kind]++
}

func (r *runner) directPage(c *tcase, child bool, fresh bool) obs {
	j := directJob{Base: r.fx.base, Root: r.fx.root, Text: pageText(c), Data: c.Via == "markdown", BodyTok: hx.Token(ns, "page"), TimeoutMS: 5000}
	if !child {
		return r.fx.directObs(runDirect(&j))
	}
	j.TimeoutMS = 60000 // the pool's deadline decides
	if fresh {
		j.Primer = primerPage
	}
	line, _ := json.Marshal(j)
	var out []byte
	var st string
	if fresh {
		out, st = r.pool.DoFresh(line)
	} else {
		out, st = r.pool.Do(line)
	}
	switch {
	case st == "hang":
		return obs{Mode: "direct", Hang: true, Elapsed: r.pool.Timeout.String()}
	case st != "":
		return obs{Mode: "direct", Status: -1, Err: "worker process: " + st, Panic: "the process executing the template ended (" + st + ")"}
	}
	var d directOut
	if err := json.Unmarshal(out, &d); err != nil {
		return obs{Mode: "direct", Status: -1, Err: "bad worker answer"}
	}
	return r.fx.directObs(d)
}

type siteClient struct {
	addr string
	rc   *hx.RawConn
}

func (s *siteClient) get(target, host string, hdr ...string) (*hx.RawResp, error) {
	var last error
	for try := 0; try < 3; try++ {
		if s.rc == nil {
			rc, err := hx.DialRaw(s.addr)
			if err != nil {
				last = err
				continue
			}
			s.rc = rc
		}
		r, err := s.rc.Get("GET", target, host, hdr...)
		if err != nil {
			s.rc.Close()
			s.rc = nil
			last = err
			continue
		}
		if r.Header.Get("Connection") == "close" || r.Status == 400 {
			s.rc.Close()
			s.rc = nil
		}
		return r, nil
	}
	return nil, last
}

func (s *siteClient) close() {
	if s.rc != nil {
		s.rc.Close()
	}
}

func (f *fixture) siteObs(r *hx.RawResp) obs {
	o := obs{Mode: "site", Status: r.Status}
	f.scan(&o, string(r.Body))
	if r.Status != 200 {
		o.Err = clip(string(r.Body), 200)
	}
	return o
}

func pageFile(c *tcase) string {
	if c.Via == "markdown" {
		return fmt.Sprintf("m%d.md", c.idx)
	}
	return fmt.Sprintf("p%d.html", c.idx)
}

// writeCaseFiles puts the page / call / document of a case below root/pg.
func (f *fixture) writeCaseFiles(c *tcase) error {
	switch c.T {
	case "page":
		if c.Via == "markdown" {
			if err := f.writePage(fmt.Sprintf("t%d.html", c.idx), pageText(c)); err != nil {
				return err
			}
			return f.writePage(pageFile(c), fmt.Sprintf("---\ntemplate: t%d.html\n---\n%s\n", c.idx, hx.Token(ns, "page")))
		}
		return f.writePage(pageFile(c), pageText(c))
	case "call":
		return f.writePage(fmt.Sprintf("c%d.html", c.idx), "[["+callOf(c).Text+"]]")
	case "doc":
		return f.writePage(fmt.Sprintf("d%d.md", c.idx), docText(c, hx.Token(ns, "page")))
	}
	return nil
}

func (r *runner) sitePage(cl *siteClient, c *tcase) (obs, error) {
	resp, err := cl.get("/pg/"+pageFile(c), cl.addr)
	if err != nil {
		return obs{}, err
	}
	return r.fx.siteObs(resp), nil
}

func (r *runner) siteCall(cl *siteClient, c *tcase) (obs, string, error) {
	cr := callOf(c)
	target := fmt.Sprintf("/pg/c%d.html", c.idx)
	if cr.Query != "" {
		target += "?" + strings.ReplaceAll(cr.Query, " ", "+")
	}
	host := cl.addr
	if c.Fn == "Host" {
		host = cr.Host
	}
	var hdr []string
	if cr.Cookie != "" {
		hdr = append(hdr, "Cookie: "+cr.Cookie)
	}
	if cr.HeaderVal != "" {
		hdr = append(hdr, "X-T: "+cr.HeaderVal)
	}
	resp, err := cl.get(target, host, hdr...)
	if err != nil {
		return obs{}, "", err
	}
	o := r.fx.siteObs(resp)
	return o, string(resp.Body), nil
}

func (r *runner) siteDoc(cl *siteClient, c *tcase) (obs, string, error) {
	resp, err := cl.get(fmt.Sprintf("/pg/d%d.md", c.idx), cl.addr)
	if err != nil {
		return obs{}, "", err
	}
	return r.fx.siteObs(resp), string(resp.Body), nil
}

func (r *runner) directCall(c *tcase) (obs, string) {
	cr := callOf(c)
	j := directJob{Base: r.fx.base, Root: r.fx.root, Text: "[[" + cr.Text + "]]", Host: cr.Host, Cookie: cr.Cookie, HeaderVal: cr.HeaderVal, RemoteAddr: cr.RemoteAddr, TimeoutMS: 5000}
	if cr.Query != "" {
		j.RequestURI = cr.Query
	}
	if r.confirming {
		j.Primer = primerPage
	}
	d := runDirect(&j)
	return r.fx.directObs(d), d.Body
}

func parallel(n int, jobs []*tcase, fn func(w int, c *tcase)) {
	ch := make(chan *tcase, 256)
	var wg sync.WaitGroup
	for w := 0; w < n; w++ {
		wg.Add(1)
		go func(w int) {
			defer wg.Done()
			for c := range ch {
				fn(w, c)
			}
		}(w)
	}
	for _, c := range jobs {
		ch <- c
	}
	close(ch)
	wg.Wait()
}

func pick(rnd *rand.Rand, xs []*tcase, n int) []*tcase {
	if n >= len(xs) {
		return xs
	}
	out := make([]*tcase, 0, n)
	for _, i := range hx.SampleIdx(rnd, len(xs), n) {
		out = append(out, xs[i])
	}
	return out
}

func TestCx02Tpl(t *testing.T) {
	hx.Quiet()
	res := hx.NewResult("TestCx02Tpl", "one evaluation = one case of TemplateJail.tla run once against the real code: a page (<= 2 template actions .Include/.Files/.Markdown with names of <= L segments over 18 spellings incl. '.', '..', '', '\\', NUL, the Casketfile, nested / cyclic / escaping template files; as a `templates` page or as markdown's named template) through a real site and through httpserver.Context directly, a context-function call with arguments from per-function token alphabets, a markdown document (front matter syntax x value kinds); non-trivial = the model opens a file, lists a directory, predicts a value or an error")
	defer res.Write(t)

	r := &runner{t: t, res: res, bads: map[string]*bad{}, drift: map[string]int{}, agree: map[string]int{}, perClause: map[string]int{}, seen: map[string]int{}}
	if rp, ok := hx.LoadReplay[tcase](t); ok {
		if rp.T == "" || rp.Tree == nil {
			return // a replay file of another test of this property
		}
		r.replayOne(&rp)
		return
	}

	all := hx.LoadCases[tcase](t, "TemplateJail")
	var pages, calls, docs, cyc, indexes []*tcase
	for i := range all {
		c := &all[i]
		c.idx = i
		switch c.T {
		case "tree":
			r.tree = c
		case "page":
			if popsAbs(c) {
				r.skipped++
			} else if c.Cyc {
				cyc = append(cyc, c)
			} else {
				pages = append(pages, c)
			}
		case "call":
			calls = append(calls, c)
		case "doc":
			docs = append(docs, c)
		case "index":
			indexes = append(indexes, c)
		}
	}
	if r.tree == nil || len(indexes) == 0 || len(pages) == 0 || len(calls) == 0 || len(docs) == 0 || len(cyc) == 0 {
		res.Infra = fmt.Sprintf("TLC cases incomplete: tree=%v pages=%d cyclic=%d calls=%d docs=%d", r.tree != nil, len(pages), len(cyc), len(calls), len(docs))
		return
	}
	if hx.SelfTest() {
		n := 0
		for _, c := range pages {
			if c.St == 200 && len(c.Allowed) > 0 && n < 50 {
				c.Allowed = nil // corrupt the expectation: the page names no file
				n++
			}
		}
	}
	rnd := hx.Rand()
	fx, err := newTree(hx.Scratch(t), r.tree)
	if err != nil {
		res.Infra = "cannot build the fixture: " + err.Error()
		return
	}
	r.fx = fx
	defer fx.close()
	r.pool = hx.NewProcPool(4, 10*time.Second, "TestCx02TplChild")
	defer r.pool.Close()

	// selection for the site (every case is run directly)
	sitePages, siteMd, siteCalls, siteCyc := 4000, 1500, 1500, 24
	if hx.Thorough() {
		sitePages, siteMd, siteCalls, siteCyc = 60000, 12000, 12000, 200
	}
	var tplPages, mdPages []*tcase
	for _, c := range pages {
		if c.Via == "markdown" {
			mdPages = append(mdPages, c)
		} else {
			tplPages = append(tplPages, c)
		}
	}
	var sitable []*tcase
	for _, c := range calls {
		if callOf(c).SiteOK {
			sitable = append(sitable, c)
		}
	}
	siteSel := append(append([]*tcase{}, pick(rnd, tplPages, sitePages)...), pick(rnd, mdPages, siteMd)...)
	siteCallSel := pick(rnd, sitable, siteCalls)
	siteCycSel := pick(rnd, cyc, siteCyc)
	for _, group := range [][]*tcase{siteSel, siteCallSel, siteCycSel, docs} {
		for _, c := range group {
			if err := fx.writeCaseFiles(c); err != nil {
				res.Infra = "cannot write the pages: " + err.Error()
				return
			}
		}
	}
	res.AddExtra("cases_from_tlc", map[string]int{"pages": len(pages), "cyclic_pages": len(cyc), "calls": len(calls), "docs": len(docs), "index_requests": len(indexes)})

	// 1. cyclic pages first, in worker processes: if nesting is not bounded the site must not see them
	cycOK, hangs := true, 0
	parallel(4, cyc, func(w int, c *tcase) {
		r.mu.Lock()
		skip := hangs >= 3 // as found every such page takes the whole deadline: three are enough
		r.mu.Unlock()
		if skip {
			return
		}
		o := r.directPage(c, true, false)
		if o.Hang {
			r.mu.Lock()
			hangs++
			r.mu.Unlock()
		}
		ps := judgePage(c, &o)
		if len(ps) > 0 {
			r.mu.Lock()
			cycOK = false
			r.mu.Unlock()
		}
		res.Count("cyc|" + pageKey(c))
		r.record(c, "direct", ps, driftPage(c, &o), "cyclic")
	})

	// 2. everything else directly
	parallel(8, pages, func(w int, c *tcase) {
		o := r.directPage(c, false, false)
		nt := ""
		if len(c.Opened) > 0 {
			nt = pageKey(c)
		}
		res.Count(nt)
		if contains(o.Tokens, "root/Casketfile") || strings.Contains(strings.Join(o.Listings, " "), "Casketfile") {
			r.mu.Lock()
			r.hid++
			r.mu.Unlock()
		}
		r.record(c, "direct", judgePage(c, &o), driftPage(c, &o), "page-"+map[int]string{200: "rendered", 500: "error"}[c.St])
	})
	parallel(8, calls, func(w int, c *tcase) {
		o, raw := r.directCall(c)
		nt := ""
		if c.Known || c.St == 500 {
			nt = "call|" + callKey(c)
		}
		res.Count(nt)
		r.record(c, "direct", judgeCall(c, &o), driftCall(c, &o, raw), "call")
	})

	// 3. through a real site
	if err := fx.startSite(); err != nil {
		res.Infra = "cannot start the site: " + err.Error()
		return
	}
	probe := &siteClient{addr: fx.addr}
	if resp, err := probe.get("/Casketfile", fx.addr); err == nil {
		res.AddExtra("static_GET_/Casketfile_status", resp.Status)
		if resp.Status != 404 {
			res.Infra = fmt.Sprintf("fixture: the static file server answers %d for the Casketfile (hide list not active?)", resp.Status)
		}
	}
	if resp, err := probe.get("/pg/misc.html?<b>", fx.addr); err != nil || resp.Status != 200 || !strings.HasPrefix(string(resp.Body), "[[GET|a|false||") {
		res.Infra = fmt.Sprintf("fixture: the page of miscellaneous context functions does not render: %v %+v", err, resp)
	}
	probe.close()
	siteRun := func(group []*tcase, fn func(cl *siteClient, c *tcase)) {
		clients := make([]*siteClient, 8)
		parallel(8, group, func(w int, c *tcase) {
			if clients[w] == nil {
				clients[w] = &siteClient{addr: fx.addr}
			}
			fn(clients[w], c)
		})
		for _, cl := range clients {
			if cl != nil {
				cl.close()
			}
		}
	}
	siteRun(siteSel, func(cl *siteClient, c *tcase) {
		o, err := r.sitePage(cl, c)
		if err != nil {
			r.setInfra(fmt.Sprintf("request for page %s failed: %v", pageKey(c), err))
			return
		}
		res.Count("site|" + pageKey(c))
		r.record(c, "site", judgePage(c, &o), driftPage(c, &o), "site-page-"+map[int]string{200: "rendered", 500: "error"}[c.St])
	})
	if cycOK {
		siteRun(siteCycSel, func(cl *siteClient, c *tcase) {
			o, err := r.sitePage(cl, c)
			if err != nil {
				r.setInfra(fmt.Sprintf("request for page %s failed: %v", pageKey(c), err))
				return
			}
			res.Count("site|" + pageKey(c))
			r.record(c, "site", judgePage(c, &o), driftPage(c, &o), "site-cyclic")
		})
	}
	siteRun(siteCallSel, func(cl *siteClient, c *tcase) {
		o, raw, err := r.siteCall(cl, c)
		if err != nil {
			r.setInfra(fmt.Sprintf("request for call %s failed: %v", callKey(c), err))
			return
		}
		res.Count("")
		r.record(c, "site", judgeCall(c, &o), driftCall(c, &o, raw), "site-call")
	})
	siteRun(docs, func(cl *siteClient, c *tcase) {
		o, raw, err := r.siteDoc(cl, c)
		if err != nil {
			r.setInfra(fmt.Sprintf("request for document %s failed: %v", docKey(c), err))
			return
		}
		res.Count("doc|" + docKey(c))
		r.record(c, "site", judgeDoc(c, &o), driftDoc(c, &o, raw, fmt.Sprintf("d%d", c.idx)), "doc")
	})

	siteRun(indexes, func(cl *siteClient, c *tcase) {
		resp, err := cl.get(indexTarget(c), cl.addr)
		if err != nil {
			r.setInfra(fmt.Sprintf("request %s failed: %v", caseKey(c), err))
			return
		}
		o := r.fx.siteObs(resp)
		nt := ""
		if c.St == 200 {
			nt = "index|" + indexTarget(c)
		}
		res.Count(nt)
		r.record(c, "site", judgePage(c, &o), driftIndex(c, &o), "index-"+map[int]string{200: "rendered", 404: "other", 500: "error"}[c.St])
	})

	// 4. confirmation in isolation, then the verdict
	for _, k := range hx.SortedKeys(r.bads) {
		r.confirm(r.bads[k])
	}
	res.Replayed = res.Evaluations
	total := 0
	for _, n := range r.drift {
		total += n
	}
	if len(r.seen) > 0 {
		res.AddExtra("cases_with_a_problem_by_clause", r.seen)
	}
	res.AddExtra("model_drift", r.drift)
	res.AddExtra("model_drift_samples", r.dsamp)
	res.AddExtra("exact_agreement_by_kind", r.agree)
	res.AddExtra("observation_pages_that_read_or_list_the_hidden_Casketfile", r.hid)
	res.AddExtra("pages_not_replayed_abs_path_popped_by_dotdot", r.skipped)
	sp, sk := r.pool.Stats()
	res.AddExtra("worker_processes", map[string]int{"spawned": sp, "killed": sk})
	if r.infra != "" {
		res.Infra = r.infra
		return
	}
	if res.Infra != "" {
		return
	}
	if hx.SelfTest() {
		res.AddExtra("selftest_noticed", r.self)
		if r.self == 0 {
			res.Infra = "selftest: corrupted expectation was not noticed"
		}
		return
	}
	if res.MismatchCount() == 0 {
		for _, k := range []string{"cyclic", "page-rendered", "page-error", "call", "site-page-rendered", "site-page-error", "site-cyclic", "site-call", "doc", "index-rendered", "index-other"} {
			if r.agree[k] == 0 {
				res.Infra = "vacuous: no case of kind '" + k + "' agreed with the model (fixture or scanner broken?)"
			}
		}
		if total*50 > res.Evaluations {
			res.Infra = fmt.Sprintf("the operational model no longer describes the code: %d of %d evaluations differ without violating a property, e.g. %v", total, res.Evaluations, r.dsamp)
		}
	}
}

// rerun executes one case in the given mode against a fresh fixture (fresh instance, fresh process for
// direct page runs) and returns the problems seen.
func (r *runner) rerun(c *tcase, mode string) ([]problem, *obs, error) {
	fx, err := newTree(hx.Scratch(r.t), r.tree)
	if err != nil {
		return nil, nil, err
	}
	defer fx.close()
	old := r.fx
	r.fx = fx
	defer func() {
		r.fx = old
		if old != nil {
			curBase = old.base
		}
	}()
	if mode == "direct" {
		switch c.T {
		case "page":
			o := r.directPage(c, true, true)
			return judgePage(c, &o), &o, nil
		case "call":
			o, _ := r.directCall(c)
			return judgeCall(c, &o), &o, nil
		}
		return nil, nil, nil
	}
	if err := fx.writeCaseFiles(c); err != nil {
		return nil, nil, err
	}
	if c.T == "page" && c.Cyc {
		// never hand a page to the in-process site that does not end in a process of its own
		o := r.directPage(c, true, true)
		if ps := judgePage(c, &o); len(ps) > 0 {
			return ps, &o, nil
		}
	}
	if err := fx.startSite(); err != nil {
		return nil, nil, err
	}
	cl := &siteClient{addr: fx.addr}
	defer cl.close()
	cl.get("/pg/primer.html", fx.addr)
	switch c.T {
	case "page":
		o, err := r.sitePage(cl, c)
		return judgePage(c, &o), &o, err
	case "call":
		o, _, err := r.siteCall(cl, c)
		return judgeCall(c, &o), &o, err
	case "index":
		resp, err := cl.get(indexTarget(c), cl.addr)
		if err != nil {
			return nil, nil, err
		}
		o := r.fx.siteObs(resp)
		return judgePage(c, &o), &o, nil
	default:
		o, _, err := r.siteDoc(cl, c)
		return judgeDoc(c, &o), &o, err
	}
}

func (r *runner) confirm(b *bad) {
	r.confirming = true
	defer func() { r.confirming = false }()
	ps, o, err := r.rerun(b.c, b.mode)
	if err != nil || o == nil {
		return
	}
	for _, p := range ps {
		cc := *b.c
		cc.Tree, cc.Mode = r.tree, b.mode
		r.res.Add(hx.Mismatch{Key: mmKey(b.c, p.clause), What: fmt.Sprintf("%s %s [%s]: %s", b.c.T, caseKey(b.c), b.mode, p.what),
			Case: &cc, Expected: map[string]interface{}{"model_status": b.c.St, "model_error": b.c.Err, "model_output": modelSeq(b.c), "files_the_page_names": allowedNodes(b.c)}, Observed: o})
	}
}

func (r *runner) replayOne(c *tcase) {
	if c.Tree == nil {
		r.t.Fatalf("replay file carries no tree")
	}
	r.tree = c.Tree
	r.pool = hx.NewProcPool(1, 10*time.Second, "TestCx02TplChild")
	defer r.pool.Close()
	r.res.Count("replay")
	r.res.Count("replay2")
	ps, o, err := r.rerun(c, c.Mode)
	if err != nil {
		r.res.Infra = "cannot run the replay: " + err.Error()
		return
	}
	if len(ps) > 0 {
		r.confirm(&bad{c, c.Mode, ps[0]})
	}
	_ = o
}
