package cx02tpl

import (
	"bytes"
	"fmt"
	"net/http"
	"net/http/httptest"
	"os"
	"path/filepath"
	"strings"
	"testing"
	"text/template"
	"time"

	"github.com/tmpim/casket/caskethttp/httpserver"
	"verifharness/hx"
)

// TestZZ is an experiment helper (not run by the driver):
//
//	ZZ_TPL='{{.Include "a.html"}}' go test -tags verif -run TestZZ -v ./cx02tpl/
func TestZZ(t *testing.T) {
	if os.Getenv("ZZ_TPL") == "" {
		t.Skip()
	}
	base := t.TempDir()
	root := filepath.Join(base, "root")
	os.MkdirAll(filepath.Join(root, "d"), 0o755)
	os.MkdirAll(filepath.Join(base, "out"), 0o755)
	os.WriteFile(filepath.Join(root, "f"), []byte("TOK-f"), 0o644)
	os.WriteFile(filepath.Join(root, "d", "g"), []byte("TOK-dg"), 0o644)
	os.WriteFile(filepath.Join(root, "Casketfile"), []byte("TOK-casketfile"), 0o644)
	os.WriteFile(filepath.Join(base, "out", "f"), []byte("TOK-out"), 0o644)
	os.WriteFile(filepath.Join(root, "self"), []byte(`S{{.Include "self"}}`), 0o644)
	os.WriteFile(filepath.Join(root, "args"), []byte(`A[{{index .Args 0}}]`), 0o644)
	for _, tp := range strings.Split(os.Getenv("ZZ_TPL"), ";;") {
		req := httptest.NewRequest("GET", "/x?y=1", nil)
		ctx := httpserver.Context{Root: http.Dir(root), Req: req, URL: req.URL}
		tpl, err := template.New("t").Parse(tp)
		if err != nil {
			t.Logf("%s -> PARSE %v", tp, err)
			continue
		}
		var buf bytes.Buffer
		t0 := time.Now()
		err = tpl.Execute(&buf, ctx)
		es := fmt.Sprint(err)
		if len(es) > 300 {
			es = es[:150] + " ... " + es[len(es)-150:]
		}
		out := buf.String()
		if len(out) > 200 {
			out = out[:200]
		}
		t.Logf("%s -> out=%q err=%s (%v)", tp, out, es, time.Since(t0))
	}
}

// TestZZSite: ZZ_LINES='templates|markdown /' ZZ_FILES='a.md=...;;t.html=...' ZZ_REQS='GET /a.md'
func TestZZSite(t *testing.T) {
	if os.Getenv("ZZ_LINES") == "" {
		t.Skip()
	}
	hx.Quiet()
	base := t.TempDir()
	root := filepath.Join(base, "root")
	os.MkdirAll(filepath.Join(root, "d"), 0o755)
	os.MkdirAll(filepath.Join(base, "out"), 0o755)
	os.WriteFile(filepath.Join(root, "f"), []byte("TOK-f"), 0o644)
	os.WriteFile(filepath.Join(root, "g"), []byte("TOK-rootg"), 0o644)
	os.WriteFile(filepath.Join(root, "d", "g"), []byte("TOK-dg"), 0o644)
	os.WriteFile(filepath.Join(base, "out", "f"), []byte("TOK-out"), 0o644)
	for _, f := range strings.Split(os.Getenv("ZZ_FILES"), ";;") {
		if kv := strings.SplitN(f, "=", 2); len(kv) == 2 {
			p := filepath.Join(root, kv[0])
			os.MkdirAll(filepath.Dir(p), 0o755)
			os.WriteFile(p, []byte(strings.ReplaceAll(kv[1], "|", "\n")), 0o644)
		}
	}
	port := hx.FreePort()
	cf := fmt.Sprintf("127.0.0.1:%d {\n\troot %s\n\tbind 127.0.0.1\n\ttls off\n", port, root)
	for _, l := range strings.Split(os.Getenv("ZZ_LINES"), ";") {
		cf += "\t" + strings.ReplaceAll(l, "|", "\n\t") + "\n"
	}
	cf += "}\n"
	cfp := filepath.Join(root, "Casketfile")
	os.WriteFile(cfp, []byte(cf), 0o644)
	site, err := hx.StartHTTP(cf, cfp)
	if err != nil {
		t.Logf("START ERROR: %v", err)
		return
	}
	defer site.Stop()
	addr := fmt.Sprintf("127.0.0.1:%d", port)
	for _, rq := range strings.Split(os.Getenv("ZZ_REQS"), ";") {
		f := strings.SplitN(rq, " ", 2)
		t0 := time.Now()
		r, err := hx.OneShot(addr, f[0], f[1], addr)
		if err != nil {
			t.Logf("%s -> ERR %v", rq, err)
			continue
		}
		b := string(r.Body)
		if len(b) > 600 {
			b = b[:600]
		}
		t.Logf("%s -> %d (%v) body=%q", rq, r.Status, time.Since(t0).Round(time.Millisecond), b)
	}
}
