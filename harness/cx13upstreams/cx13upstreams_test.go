// Package cx13upstreams binds specs/FcgiUpstreams.tla (C13 extension: upstream selection,
// connection life cycle and the three time-outs of the fastcgi middleware) to the real code.
//
// One case = one scenario TLC emitted: a fastcgi rule with n addresses (first argument + `upstream`
// lines) in front of a farm of scripted responders (hx.FcgiFarm: a port is up / refuses /
// never accepts; a connection answers, answers late, never answers, never reads, closes before
// or inside its answer, stalls inside its answer), connect/read/send time-outs, and 2-5 requests
// (scripts, one static file, one 8 MB upload).  A casket site is started for every scenario
// (casket.Start, so setup.go parses the rule), the requests are sent over raw HTTP/1.1
//   - one after the other: the client's view (status, which upstream answered, body class,
//     duration) is compared with the expectation TLC computed from the oracle of the spec;
//   - all at once (a sample): the schedule-independent part of the oracle is judged in Go;
//
// and in both cases the recorded trace (farm events + the client's start/end, one mutex) is
// handed to TLC, which validates it against FcgiUpstreamsTrace.tla with all invariants.
package cx13upstreams

import (
	"bufio"
	"bytes"
	"encoding/json"
	"fmt"
	"io"
	"net"
	"net/http"
	"os"
	"path/filepath"
	"strconv"
	"strings"
	"sync"
	"testing"
	"time"

	"verifharness/hx"
)

const (
	tick       = 50 * time.Millisecond  // one tick of the recorded clock
	unit       = 100 * time.Millisecond // one time unit of the model (= 2 ticks)
	slowDelay  = 100 * time.Millisecond // SD = 1 unit = 2 ticks (FcgiUpstreamsTrace.cfg)
	noReadHold = 900 * time.Millisecond // longer than every time-out
	lateOK     = 250 * time.Millisecond // how late an answer may be before the run counts as disturbed
	giveUp     = 4 * time.Second        // a request without an answer by then hangs
	bigBody    = 8 << 20
)

type expect struct {
	Up   int    `json:"up"`
	St   int    `json:"st"`
	Body string `json:"body"`
	Dur  int    `json:"dur"`
}

// scase is one CASE line of FcgiUpstreams.tla.
type scase struct {
	N      int        `json:"n"`
	Ports  []string   `json:"ports"`
	Beh    [][]string `json:"beh"`
	CT     int        `json:"ct"`
	RT     int        `json:"rt"`
	ST     int        `json:"st"`
	SD     int        `json:"sd"`
	Kinds  []string   `json:"kinds"`
	Seq    bool       `json:"seq"`
	Expect []expect   `json:"expect"`
	Conc   bool       `json:"conc"` // run with all requests in flight at once
}

func (c *scase) key() string {
	var beh []string
	for _, b := range c.Beh {
		beh = append(beh, strings.Join(b, "."))
	}
	var kinds []string
	for _, k := range c.Kinds {
		kinds = append(kinds, k[:1])
	}
	mode := "seq"
	if c.Conc {
		mode = "conc"
	}
	return fmt.Sprintf("n=%d/ports=%s/beh=%s/t=%d.%d.%d/kinds=%s/%s", c.N, strings.Join(c.Ports, ","), strings.Join(beh, "|"), c.CT, c.RT, c.ST, strings.Join(kinds, ""), mode)
}

// faulty: some port is not up or some scripted connection does not simply answer.
func (c *scase) faulty() bool {
	for _, p := range c.Ports {
		if p != "up" {
			return true
		}
	}
	for _, b := range c.Beh {
		for _, m := range b {
			if m != "ok" {
				return true
			}
		}
	}
	return false
}

// modeOf is the scripted mode of upstream u's k-th connection.
func (c *scase) modeOf(u, k int) string {
	if u >= 1 && u <= len(c.Beh) && k >= 1 && k <= len(c.Beh[u-1]) {
		return c.Beh[u-1][k-1]
	}
	return "ok"
}

// outcome is the oracle of the spec (Outcome in FcgiUpstreams.tla) - used for the runs with all
// requests in flight, where TLC cannot say beforehand which request meets which upstream.
func (c *scase) outcome(port, mode, kind string) expect {
	max := c.RT
	if c.ST > max {
		max = c.ST
	}
	switch {
	case kind == "static":
		return expect{St: 200, Body: "static"}
	case port == "refuse":
		return expect{St: 502, Body: "err"}
	case port == "blackhole":
		return expect{St: 502, Body: "err", Dur: c.CT}
	}
	switch mode {
	case "ok":
		return expect{St: 200, Body: "full"}
	case "slow":
		return expect{St: 200, Body: "full", Dur: c.SD}
	case "stall":
		return expect{St: 504, Body: "err", Dur: c.RT}
	case "noread":
		if kind == "big" {
			return expect{St: 504, Body: "err", Dur: max}
		}
		return expect{St: 504, Body: "err", Dur: c.RT}
	case "closeearly":
		return expect{St: 502, Body: "err"}
	case "closemid":
		return expect{St: 200, Body: "cut"}
	case "stallbody":
		return expect{St: 200, Body: "cut", Dur: c.RT}
	}
	return expect{St: -1, Body: "unknown mode " + mode}
}

// ---------------------------------------------------------------- one run

type obs struct {
	R     int           `json:"r"`
	St    int           `json:"st"`
	Body  string        `json:"body"` // full | cut | polluted | err | static | foreign | other | hang
	Up    int           `json:"up"`   // X-Up of the answer (0: none)
	Conn  int           `json:"conn"`
	Dur   time.Duration `json:"dur_ns"`
	Err   string        `json:"err,omitempty"`
	Shown string        `json:"shown,omitempty"`
}

type outcome struct {
	events  []hx.FarmEvent
	obs     []obs
	open    int
	infra   string
	clause  string // "" = the run agrees with the oracle
	what    string
	timing  bool // the disagreement is about durations only
	skipped bool
}

var startMu sync.Mutex

func startSite(dir string, addrs []string, c *scase) (*hx.Site, string, error) {
	var b strings.Builder
	var site *hx.Site
	var err error
	for try := 0; try < 3; try++ {
		port := hx.FreePort()
		b.Reset()
		fmt.Fprintf(&b, "fcgi.test:%d {\n\tbind 127.0.0.1\n\ttls off\n\troot %s\n", port, dir)
		fmt.Fprintf(&b, "\tfastcgi / %s {\n\t\text .php\n\t\tsplit .php\n", addrs[0])
		for _, a := range addrs[1:] {
			fmt.Fprintf(&b, "\t\tupstream %s\n", a)
		}
		fmt.Fprintf(&b, "\t\tconnect_timeout %dms\n\t\tread_timeout %dms\n\t\tsend_timeout %dms\n\t}\n}\n",
			int64(time.Duration(c.CT)*unit/time.Millisecond), int64(time.Duration(c.RT)*unit/time.Millisecond), int64(time.Duration(c.ST)*unit/time.Millisecond))
		startMu.Lock()
		site, err = hx.StartHTTP(b.String(), "")
		startMu.Unlock()
		if err == nil {
			return site, "127.0.0.1:" + strconv.Itoa(port), nil
		}
		if !strings.Contains(err.Error(), "address already in use") {
			break
		}
	}
	return nil, "", fmt.Errorf("casket.Start: %v\n%s", err, b.String())
}

var bigPayload = bytes.Repeat([]byte("0123456789abcdef"), bigBody/16)

// request sends one raw HTTP/1.1 request and classifies the answer.
func request(addr string, r int, kind string) (o obs) {
	o.R = r
	nc, err := net.DialTimeout("tcp", addr, 2*time.Second)
	if err != nil {
		o.Body, o.Err = "hang", "connect to casket: "+err.Error()
		return
	}
	defer nc.Close()
	var b bytes.Buffer
	switch kind {
	case "static":
		fmt.Fprintf(&b, "GET /s.txt HTTP/1.1\r\n")
	case "big":
		fmt.Fprintf(&b, "POST /x.php HTTP/1.1\r\nContent-Type: application/octet-stream\r\nContent-Length: %d\r\n", bigBody)
	default:
		fmt.Fprintf(&b, "GET /x.php HTTP/1.1\r\n")
	}
	fmt.Fprintf(&b, "Host: fcgi.test\r\nConnection: close\r\nX-Req: %d\r\n\r\n", r)
	nc.SetDeadline(time.Now().Add(giveUp))
	go func() {
		nc.Write(b.Bytes())
		if kind == "big" {
			nc.Write(bigPayload) // fails when casket stops reading: expected
		}
	}()
	resp, err := http.ReadResponse(bufio.NewReader(nc), &http.Request{Method: "GET"})
	if err != nil {
		o.Body, o.Err = "hang", "no answer from casket: "+err.Error()
		return
	}
	body, rerr := io.ReadAll(resp.Body)
	resp.Body.Close()
	o.St = resp.StatusCode
	o.Up, _ = strconv.Atoi(resp.Header.Get("X-Up"))
	o.Conn, _ = strconv.Atoi(resp.Header.Get("X-Conn"))
	want := fmt.Sprintf("up=%d conn=%d req=%d\n", o.Up, o.Conn, r)
	s := string(body)
	switch {
	case o.St >= 400 && o.Up == 0:
		o.Body = "err"
	case o.Up == 0 && s == "static\n":
		o.Body = "static"
	case o.Up == 0:
		o.Body = "other"
	case s == want:
		o.Body = "full"
	case s == want[:6]:
		o.Body = "cut"
	case strings.HasPrefix(s, want[:6]) && !strings.HasPrefix(want, s):
		if strings.HasPrefix(s, fmt.Sprintf("up=%d conn=%d req=", o.Up, o.Conn)) {
			o.Body = "foreign" // a complete answer, but to another request
		} else {
			o.Body = "polluted" // the backend's bytes followed by something the backend never sent
		}
	default:
		o.Body = "other"
	}
	if o.Body != "full" && o.Body != "static" && o.Body != "err" {
		o.Shown = s
		if len(o.Shown) > 80 {
			o.Shown = o.Shown[:80]
		}
		if rerr != nil {
			o.Err = rerr.Error()
		}
	}
	return
}

func run(t testing.TB, c *scase) (out outcome) {
	ups := make([]hx.FarmUpstream, c.N)
	for i := range ups {
		ups[i] = hx.FarmUpstream{Port: c.Ports[i], Script: c.Beh[i]}
	}
	dir, err := os.MkdirTemp(hx.Scratch(t), "cx13ups_")
	if err != nil {
		out.infra = err.Error()
		return
	}
	defer os.RemoveAll(dir)
	os.WriteFile(filepath.Join(dir, "s.txt"), []byte("static\n"), 0o644)
	farm, err := hx.StartFcgiFarm(ups, tick, slowDelay, noReadHold)
	if err != nil {
		out.infra = "farm: " + err.Error()
		return
	}
	defer farm.Close()
	site, addr, err := startSite(dir, farm.Addrs(), c)
	if err != nil {
		out.infra = err.Error()
		return
	}
	defer site.Stop()

	out.obs = make([]obs, len(c.Kinds))
	one := func(r int) {
		t0 := time.Now()
		farm.Log(hx.FarmEvent{Ev: "start", R: r})
		o := request(addr, r, c.Kinds[r-1])
		farm.Log(hx.FarmEvent{Ev: "end", R: r, St: o.St, M: o.Body})
		o.Dur = time.Since(t0)
		out.obs[r-1] = o
	}
	if c.Conc {
		var wg sync.WaitGroup
		for r := 1; r <= len(c.Kinds); r++ {
			wg.Add(1)
			go func(r int) { defer wg.Done(); one(r) }(r)
		}
		wg.Wait()
	} else {
		for r := 1; r <= len(c.Kinds); r++ {
			one(r)
		}
	}
	out.open = farm.WaitQuiet(3 * time.Second)
	farm.Log(hx.FarmEvent{Ev: "quiet", K: out.open})
	out.events = farm.Events()
	judge(c, &out)
	return
}

// ---------------------------------------------------------------- the Go-side judgement

func durOK(o obs, e expect) (early, late bool) {
	want := time.Duration(e.Dur) * unit
	return o.Dur < want-5*time.Millisecond, o.Dur > want+lateOK
}

func judge(c *scase, out *outcome) {
	fail := func(clause, f string, a ...interface{}) {
		if out.clause == "" || out.timing && clause != "timeout" {
			out.clause, out.what, out.timing = clause, fmt.Sprintf(f, a...), clause == "timeout"
		}
	}
	// what the farm saw: connection -> upstream / mode / request, begins per connection
	type cinfo struct {
		u, r, begins int
		mode         string
		closed       bool
	}
	conns := map[int]*cinfo{}
	connOf := map[int]int{}
	accepts := map[int]int{}
	for _, e := range out.events {
		switch e.Ev {
		case "accept":
			conns[e.C] = &cinfo{u: e.U, mode: e.M}
			accepts[e.U]++
		case "begin":
			ci := conns[e.C]
			ci.begins++
			if ci.begins > 1 || e.K != 1 {
				fail("shared-connection", "connection %d to upstream %d carried a second request (request %d after %d)", e.C, e.U, e.R, ci.r)
			}
			ci.r = e.R
			if prev, ok := connOf[e.R]; ok && prev != e.C {
				fail("shared-connection", "request %d was sent over connections %d and %d", e.R, prev, e.C)
			}
			connOf[e.R] = e.C
		case "close":
			conns[e.C].closed = true
		}
	}
	for _, o := range out.obs {
		if o.Body == "hang" {
			fail("hang", "request %d got no answer within %v (connect %d00ms, read %d00ms, send %d00ms): %s", o.R, giveUp, c.CT, c.RT, c.ST, o.Err)
		}
		if o.Body == "polluted" {
			fail("relayed-response-polluted", "request %d: the client got status %d and %q - the backend's partial body followed by text the backend never sent (the handler returned an error status after writing the header)", o.R, o.St, o.Shown)
		}
		if o.Body == "foreign" {
			fail("shared-connection", "request %d received the answer to another request: %q", o.R, o.Shown)
		}
	}
	if out.open != 0 {
		fail("fd-leak", "%d connection(s) to the backends still open 3 s after the last answer", out.open)
	}
	// rotation: forwarded requests / N, remainder to the first addresses
	fwd := 0
	for _, k := range c.Kinds {
		if k != "static" {
			fwd++
		}
	}
	refusedQuota, holeQuota := 0, 0
	for u := 1; u <= c.N; u++ {
		quota := fwd / c.N
		if u <= fwd%c.N {
			quota++
		}
		switch c.Ports[u-1] {
		case "up":
			if accepts[u] != quota {
				fail("rotation", "upstream %d of %d accepted %d connection(s) for %d forwarded requests; round robin gives it %d", u, c.N, accepts[u], fwd, quota)
			}
		case "refuse":
			refusedQuota += quota
		case "blackhole":
			holeQuota += quota
		}
	}
	// per request
	noConn := 0
	for i, o := range out.obs {
		r := i + 1
		kind := c.Kinds[i]
		var e expect
		if !c.Conc {
			e = c.Expect[i]
			if e.Up != 0 && c.Ports[e.Up-1] == "up" {
				ci := conns[connOf[r]]
				got := 0
				if ci != nil {
					got = ci.u
				} else if o.Up != 0 {
					got = o.Up
				}
				if got != e.Up && !(ci == nil && c.modeOfExpected(r) == "noread") {
					fail("rotation", "request %d (forwarded request no. %d) went to upstream %d, round robin over %d addresses says %d", r, c.fwdIndex(r), got, c.N, e.Up)
				}
			}
		} else {
			switch ci := conns[connOf[r]]; {
			case kind == "static":
				e = c.outcome("up", "ok", kind)
			case ci != nil:
				e = c.outcome("up", ci.mode, kind)
			case o.Up != 0:
				e = expect{St: -1, Body: "an answer from upstream without a recorded request"}
			default:
				// no connection seen: a dial that failed, or a responder that never reads
				noConn++
				e = expect{St: o.St, Body: "err", Dur: -1}
				if o.St != 502 && o.St != 504 {
					e.St = 502
				}
			}
		}
		if o.Body == "hang" || o.Body == "polluted" || o.Body == "foreign" {
			continue
		}
		if o.St != e.St || o.Body != e.Body {
			fail("outcome", "request %d (%s): the client got %d/%s, the upstream's behaviour gives %d/%s (%s)", r, kind, o.St, o.Body, e.St, e.Body, o.Shown)
			continue
		}
		if o.Up != 0 {
			if ci := conns[o.Conn]; ci == nil || ci.u != o.Up || ci.r != r {
				fail("shared-connection", "request %d was answered by connection %d of upstream %d, which the farm recorded for another request", r, o.Conn, o.Up)
			}
		}
		if e.Dur >= 0 {
			if early, late := durOK(o, e); early || late {
				fail("timeout", "request %d (%s) took %v; the time-outs (connect %d00ms, read %d00ms, send %d00ms) give %d00ms", r, kind, o.Dur.Round(time.Millisecond), c.CT, c.RT, c.ST, e.Dur)
			}
		}
	}
	if c.Conc {
		// requests without a recorded request on a connection: dial failures and noread connections
		noread := 0
		for _, ci := range conns {
			if ci.mode == "noread" {
				noread++
			}
		}
		if noConn != refusedQuota+holeQuota+noread {
			fail("rotation", "%d request(s) never reached a reading responder; the ports that refuse / never accept are due %d+%d of %d forwarded requests, %d connection(s) were never read", noConn, refusedQuota, holeQuota, fwd, noread)
		}
	}
	for cnum, ci := range conns {
		if !ci.closed && out.open == 0 {
			fail("fd-leak", "connection %d was never seen closed", cnum)
		}
	}
}

// fwdIndex: request r is the how-manieth forwarded request (sequential runs).
func (c *scase) fwdIndex(r int) int {
	n := 0
	for i := 0; i < r; i++ {
		if c.Kinds[i] != "static" {
			n++
		}
	}
	return n
}

func (c *scase) modeOfExpected(r int) string {
	p := c.fwdIndex(r)
	return c.modeOf((p-1)%c.N+1, (p-1)/c.N+1)
}

// ---------------------------------------------------------------- trace

func scriptEvent(c *scase) map[string]interface{} {
	return map[string]interface{}{"ev": "script", "t": 0, "key": c.key(), "n": c.N, "ports": c.Ports, "beh": c.Beh,
		"cto": c.CT * int(unit/tick), "rto": c.RT * int(unit/tick), "sto": c.ST * int(unit/tick), "sd": c.SD * int(unit/tick), "kinds": c.Kinds}
}

func emitTrace(tw *hx.TraceWriter, c *scase, evs []hx.FarmEvent) {
	tw.Emit(scriptEvent(c))
	for _, e := range evs {
		tw.Emit(e)
	}
}

// ---------------------------------------------------------------- the test

func TestCx13Upstreams(t *testing.T) {
	hx.Quiet()
	res := hx.NewResult("TestCx13Upstreams", "one case = one scenario of FcgiUpstreams.tla (a fastcgi rule with 1-3 addresses; per address the port is up / refuses / never accepts and its first connections answer, answer late, never answer, never read, close before or inside the answer, stall inside the answer; connect/read/send time-outs; 2-5 requests with at most one static file and one 8 MB upload) run against a casket site and a farm of scripted responders, sequentially (client view compared with the oracle TLC evaluated) and with all requests in flight; every recorded trace is validated by TLC against FcgiUpstreamsTrace.tla; non-trivial = a scenario with a fault")
	defer res.Write(t)
	if slowDelay != unit || int(unit/tick) != 2 {
		t.Fatalf("constants out of step with FcgiUpstreamsTrace.cfg")
	}

	var cases []scase
	if rp := hx.Replay(); rp != "" {
		if !filepath.IsAbs(rp) {
			if _, err := os.Stat(rp); err != nil {
				rp = filepath.Join("..", "..", rp)
			}
		}
		b, _ := os.ReadFile(rp)
		var w struct {
			Key  string `json:"key"`
			Case struct {
				Ups *scase `json:"ups"`
			} `json:"case"`
		}
		if json.Unmarshal(b, &w) != nil || !strings.HasPrefix(w.Key, "C13/fcgiups/") || w.Case.Ups == nil {
			return // a replay file of another part of C13
		}
		cases = []scase{*w.Case.Ups}
	} else {
		all := hx.LoadCases[scase](t, "FcgiUpstreams")
		rnd := hx.Rand()
		nseq, nconc := 60, 24
		if hx.Thorough() {
			nseq, nconc = 380, 160
		}
		// every scenario can be run both ways
		var faulty, healthy []scase
		for _, c := range all {
			if c.SD != 1 || len(c.Expect) != len(c.Kinds) || len(c.Ports) != c.N || len(c.Beh) != c.N {
				t.Fatalf("unexpected case shape: %+v", c)
			}
			if c.faulty() {
				faulty = append(faulty, c)
			} else {
				healthy = append(healthy, c)
			}
		}
		res.AddExtra("scenarios_from_tlc", len(all))
		// all fault-free scenarios (there are few), the rest sampled from the ones with a fault
		pick := func(n int, conc bool) {
			sel := append([]scase{}, healthy[:min(len(healthy), n/2)]...)
			for _, i := range hx.SampleIdx(rnd, len(faulty), n-len(sel)) {
				sel = append(sel, faulty[i])
			}
			for _, c := range sel {
				c.Conc = conc
				cases = append(cases, c)
			}
		}
		pick(nseq, false)
		pick(nconc, true)
	}

	if hx.SelfTest() {
		// corrupt the first expectation of every sequential case: must be noticed
		for i := range cases {
			if !cases[i].Conc && cases[i].N > 1 && cases[i].Kinds[0] != "static" {
				cases[i].Expect = append([]expect{}, cases[i].Expect...)
				cases[i].Expect[0].Up = cases[i].Expect[0].Up%cases[i].N + 1
			}
		}
	}

	outs := make([]outcome, len(cases))
	reruns, failing := 0, 0
	var mu sync.Mutex
	var wg sync.WaitGroup
	sem := make(chan struct{}, 10)
	for i := range cases {
		wg.Add(1)
		sem <- struct{}{}
		go func(i int) {
			defer wg.Done()
			defer func() { <-sem }()
			mu.Lock()
			settled := failing >= 12 && !hx.SelfTest()
			mu.Unlock()
			if settled {
				// the verdict is settled; keeps a broken tree from running into time-outs
				outs[i] = outcome{skipped: true}
				return
			}
			o := run(t, &cases[i])
			// a disagreement is reproduced on a fresh farm and site before it is reported; one
			// that is about durations only gets a third try (the box is shared)
			for try := 0; o.infra == "" && o.clause != "" && try < 2; try++ {
				mu.Lock()
				reruns++
				mu.Unlock()
				o2 := run(t, &cases[i])
				if o2.infra != "" || o2.clause == "" {
					o = o2
					break
				}
				if !(o.timing && o2.timing) {
					if o2.clause != o.clause {
						o2.what = o.what + " | second run: " + o2.what
					}
					o = o2
					break
				}
				o = o2
			}
			if o.clause != "" {
				mu.Lock()
				failing++
				mu.Unlock()
			}
			outs[i] = o
		}(i)
	}
	wg.Wait()
	res.AddExtra("reruns", reruns)

	tw := hx.NewTrace(t, "fcgiups.ndjson")
	ntraces := 0
	var firstTrace []hx.FarmEvent
	var firstCase *scase
	noticed := 0
	for i := range cases {
		c, o := &cases[i], outs[i]
		if o.skipped {
			continue
		}
		if o.infra != "" {
			if res.Infra == "" {
				res.Infra = "cx13upstreams " + c.key() + ": " + o.infra
			}
			continue
		}
		nt := ""
		if c.faulty() {
			nt = c.key()
		}
		res.Count(nt)
		if o.clause != "" {
			if hx.SelfTest() && o.clause == "rotation" {
				noticed++
				continue
			}
			res.Add(hx.Mismatch{Key: "C13/fcgiups/" + o.clause + "/" + c.key(), What: o.what, Case: map[string]interface{}{"ups": c},
				Expected: c.Expect, Observed: map[string]interface{}{"client": o.obs, "open": o.open, "events": tail(o.events, 60)}})
			continue // (the trace of a run that is reported is not handed on)
		}
		emitTrace(tw, c, o.events)
		ntraces++
		if firstTrace == nil && !c.Conc && strings.Contains(c.key(), "stall") {
			firstTrace, firstCase = o.events, c
		}
		if i%41 == 0 {
			res.Sample(map[string]interface{}{"case": c.key(), "client": o.obs, "trace_head": tail(o.events, 12)})
		}
	}
	tw.Close()
	res.Replayed = res.Evaluations
	if ntraces > 0 && !hx.SelfTest() {
		res.Traces = append(res.Traces, hx.TraceFile{Spec: "fcgiups", File: tw.Path, Count: ntraces})
	}

	if hx.SelfTest() {
		if noticed == 0 {
			res.Infra = "selftest: the corrupted round-robin expectations went unnoticed"
			return
		}
		res.Add(hx.Mismatch{Key: "C13/fcgiups/selftest/corrupted-expectation", What: fmt.Sprintf("selftest: %d corrupted round-robin expectations were noticed", noticed)})
		if firstTrace == nil {
			res.Infra = "selftest: no sequential trace with a stalled connection to corrupt"
			return
		}
		// (a) the unmodified trace must be accepted, (b) without the responder's "close" of the
		// first connection it must be rejected (NoFdLeak), (c) with a request's "end" moved to
		// another status it must be rejected
		variants := []struct {
			name   string
			mutate func([]hx.FarmEvent) []hx.FarmEvent
			reject bool
		}{
			{"unchanged", func(e []hx.FarmEvent) []hx.FarmEvent { return e }, false},
			{"close-dropped", func(e []hx.FarmEvent) []hx.FarmEvent {
				var out []hx.FarmEvent
				dropped := false
				for _, x := range e {
					if x.Ev == "close" && !dropped {
						dropped = true
						continue
					}
					out = append(out, x)
				}
				return out
			}, true},
			{"status-changed", func(e []hx.FarmEvent) []hx.FarmEvent {
				out := append([]hx.FarmEvent{}, e...)
				for i := range out {
					if out[i].Ev == "end" && out[i].St == 504 {
						out[i].St = 502
						break
					}
				}
				return out
			}, true},
		}
		for _, v := range variants {
			stw := hx.NewTrace(t, "fcgiups_selftest_"+v.name+".ndjson")
			emitTrace(stw, firstCase, v.mutate(firstTrace))
			stw.Close()
			rc, tl := hx.RunTraceSpec(t, "FcgiUpstreamsTrace", "FcgiUpstreamsTrace.cfg", stw.Path)
			rejected := rc == 10 || rc == 12 || rc == 13
			switch {
			case rejected != v.reject:
				res.Infra = fmt.Sprintf("selftest: trace variant %q: TLC exit %d (rejected=%v, expected %v): %s", v.name, rc, rejected, v.reject, tl)
				return
			case rejected:
				res.Add(hx.Mismatch{Key: "C13/fcgiups/selftest/" + v.name, What: fmt.Sprintf("selftest: the corrupted trace was rejected by FcgiUpstreamsTrace (TLC exit %d)", rc)})
			}
		}
	}
}

func tail(e []hx.FarmEvent, n int) []hx.FarmEvent {
	if len(e) > n {
		return e[:n]
	}
	return e
}
