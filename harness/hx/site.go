package hx

import (
	"bufio"
	"bytes"
	"fmt"
	"io"
	"log"
	"net"
	"net/http"
	"os"
	"strconv"
	"strings"
	"sync"
	"time"

	"github.com/caddyserver/certmagic"
	"github.com/tmpim/casket"
	_ "github.com/tmpim/casket/caskethttp" // registers the http server type and the standard directives
)

var quietOnce sync.Once

// Quiet silences casket's process log and start-up chatter and moves certmagic's
// HTTP/HTTPS ports away from 80/443 (we run as root: they would bind for real).
func Quiet() {
	quietOnce.Do(func() {
		casket.Quiet = true
		if os.Getenv("VERIF_VERBOSE") == "" {
			log.SetOutput(io.Discard)
		}
		// (a port pair of this process's own: several checks may run on the machine at once)
		certmagic.HTTPPort = quietPort(18080)
		certmagic.HTTPSPort = quietPort(18443)
	})
}

// IsQuietPort: p is one of the ports Quiet moved certmagic's HTTP / HTTPS ports to.
func IsQuietPort(p int) bool {
	Quiet()
	return p == certmagic.HTTPPort || p == certmagic.HTTPSPort || p == 18080 || p == 18443
}

// quietPort returns a loopback port below the ephemeral range that is free right now (the
// kernel never hands such a port to a connecting socket or to a ":0" listener), chosen from
// the process id so that concurrent processes start at different places; fallback if none.
func quietPort(fallback int) int {
	for i := 0; i < 4000; i++ {
		p := 14000 + (os.Getpid()*37+i*101+fallback)%4000
		ln, err := net.Listen("tcp", "127.0.0.1:"+strconv.Itoa(p))
		if err != nil {
			continue
		}
		ln.Close()
		return p
	}
	return fallback
}

var (
	portMu     sync.Mutex
	portsGiven = map[int]bool{} // the ports handed out most recently (a window, see remember)
	portRing   []int
)

// remember keeps the last 256 ports: long enough that two fixtures of one test never share a
// port, short enough that a test which allocates thousands of ports does not run out.
func remember(p int) {
	portsGiven[p] = true
	portRing = append(portRing, p)
	if len(portRing) > 256 {
		delete(portsGiven, portRing[0])
		portRing = portRing[1:]
	}
}

// FreePort returns a TCP port on 127.0.0.1 that was free a moment ago and that this process
// has not handed out before (the kernel likes to hand the port just released out again).
func FreePort() int {
	portMu.Lock()
	defer portMu.Unlock()
	var held []net.Listener
	defer func() {
		for _, l := range held {
			l.Close()
		}
	}()
	for {
		ln, err := net.Listen("tcp", "127.0.0.1:0")
		if err != nil {
			panic(err)
		}
		p := ln.Addr().(*net.TCPAddr).Port
		if portsGiven[p] {
			held = append(held, ln) // keep it busy so that the next try gets another one
			continue
		}
		remember(p)
		ln.Close()
		return p
	}
}

// ListenFresh opens a listener on a loopback port never handed out by FreePort.
func ListenFresh() net.Listener {
	portMu.Lock()
	defer portMu.Unlock()
	var held []net.Listener
	defer func() {
		for _, l := range held {
			l.Close()
		}
	}()
	for {
		ln, err := net.Listen("tcp", "127.0.0.1:0")
		if err != nil {
			panic(err)
		}
		p := ln.Addr().(*net.TCPAddr).Port
		if portsGiven[p] {
			held = append(held, ln)
			continue
		}
		remember(p)
		return ln
	}
}

// Site is a running casket instance (server type http).
type Site struct {
	Inst *casket.Instance
}

// StartHTTP loads a Casketfile text with casket.Start.
func StartHTTP(casketfile, path string) (*Site, error) {
	Quiet()
	if path == "" {
		path = "Casketfile"
	}
	inst, err := casket.Start(casket.CasketfileInput{Contents: []byte(casketfile), Filepath: path, ServerTypeName: "http"})
	if err != nil {
		return nil, err
	}
	return &Site{Inst: inst}, nil
}

// Addrs returns the loopback addresses (127.0.0.1:port) the instance listens on.
func (s *Site) Addrs() []string {
	var out []string
	for _, sl := range s.Inst.Servers() {
		a := sl.Addr()
		if a == nil {
			continue
		}
		_, port, err := net.SplitHostPort(a.String())
		if err == nil {
			out = append(out, "127.0.0.1:"+port)
		}
	}
	return out
}

// Stop shuts the instance down (servers, then shutdown callbacks).
func (s *Site) Stop() {
	if s == nil || s.Inst == nil {
		return
	}
	s.Inst.Stop()
	s.Inst.ShutdownCallbacks()
}

// RawResp is a fully read HTTP/1.1 response.
type RawResp struct {
	Status int
	Header http.Header
	Body   []byte
	Err    string
}

// RawConn is a persistent raw HTTP/1.1 client connection: the request bytes are exactly
// what the caller writes (no client-side normalisation of Host, path or headers).
type RawConn struct {
	c  net.Conn
	br *bufio.Reader
	// HalfClose: shut down the sending side after each request written
	HalfClose bool
}

func DialRaw(addr string) (*RawConn, error) {
	c, err := net.DialTimeout("tcp", addr, 5*time.Second)
	if err != nil {
		return nil, err
	}
	return &RawConn{c: c, br: bufio.NewReaderSize(c, 64<<10)}, nil
}

func (rc *RawConn) Close() { rc.c.Close() }

// Do writes raw request bytes and reads one response. method tells the reader whether a body follows.
func (rc *RawConn) Do(method string, raw []byte) (*RawResp, error) {
	rc.c.SetDeadline(time.Now().Add(20 * time.Second))
	if _, err := rc.c.Write(raw); err != nil {
		return nil, err
	}
	if rc.HalfClose {
		// the client is done sending (shutdown(SHUT_WR)) and waits for the answer, as nc and some
		// health checkers do
		if tc, ok := rc.c.(*net.TCPConn); ok {
			tc.CloseWrite()
		}
	}
	resp, err := http.ReadResponse(rc.br, &http.Request{Method: method})
	// interim responses (1xx other than 101) precede the real one
	for err == nil && resp.StatusCode >= 100 && resp.StatusCode < 200 && resp.StatusCode != http.StatusSwitchingProtocols {
		resp, err = http.ReadResponse(rc.br, &http.Request{Method: method})
	}
	if err != nil {
		return nil, err
	}
	body, err := io.ReadAll(resp.Body)
	resp.Body.Close()
	if err != nil {
		return &RawResp{Status: resp.StatusCode, Header: resp.Header, Body: body, Err: err.Error()}, nil
	}
	if resp.Trailer != nil {
		for k, v := range resp.Trailer {
			resp.Header["Trailer:"+k] = v
		}
	}
	return &RawResp{Status: resp.StatusCode, Header: resp.Header, Body: body}, nil
}

// Get sends "METHOD target HTTP/1.1" with the given Host and extra header lines.
func (rc *RawConn) Get(method, target, host string, hdr ...string) (*RawResp, error) {
	var b bytes.Buffer
	fmt.Fprintf(&b, "%s %s HTTP/1.1\r\nHost: %s\r\n", method, target, host)
	for _, h := range hdr {
		b.WriteString(h)
		b.WriteString("\r\n")
	}
	b.WriteString("\r\n")
	return rc.Do(method, b.Bytes())
}

// OneShot opens a fresh connection, performs one raw request and closes.
func OneShot(addr, method, target, host string, hdr ...string) (*RawResp, error) {
	rc, err := DialRaw(addr)
	if err != nil {
		return nil, err
	}
	defer rc.Close()
	hdr = append(hdr, "Connection: close")
	return rc.Get(method, target, host, hdr...)
}

// Indent indents every line of s with a tab (for Casketfile blocks).
func Indent(s string) string {
	lines := strings.Split(strings.TrimRight(s, "\n"), "\n")
	for i := range lines {
		lines[i] = "\t" + lines[i]
	}
	return strings.Join(lines, "\n") + "\n"
}
