package hx

import (
	"bytes"
	"io"
	"os"
	"os/exec"
	"path/filepath"
	"runtime"
	"strings"
	"testing"
)

// SpecsDir returns /verif/specs (found relative to this source file).
func SpecsDir() string {
	_, file, _, _ := runtime.Caller(0)
	return filepath.Join(filepath.Dir(file), "..", "..", "specs")
}

// RunTraceSpec runs TLC (one worker, under timeout) on a *Trace.tla module with the given
// ndjson file as trace.ndjson and returns TLC's exit code (0 accepted, 10/12/13 rejected)
// and the tail of its output. Used by --selftest to show that a corrupted trace is rejected;
// the verdict on genuine traces is always taken by ./check.
func RunTraceSpec(t testing.TB, module, cfg, traceFile string) (int, string) {
	dir, err := os.MkdirTemp(Scratch(t), "selftest_tlc_")
	if err != nil {
		t.Fatalf("mkdir: %v", err)
	}
	defer os.RemoveAll(dir)
	ents, err := os.ReadDir(SpecsDir())
	if err != nil {
		t.Fatalf("specs dir: %v", err)
	}
	for _, e := range ents {
		if e.IsDir() || !(strings.HasSuffix(e.Name(), ".tla") || strings.HasSuffix(e.Name(), ".cfg")) {
			continue
		}
		copyFile(t, filepath.Join(SpecsDir(), e.Name()), filepath.Join(dir, e.Name()))
	}
	copyFile(t, traceFile, filepath.Join(dir, "trace.ndjson"))
	cmd := exec.Command("timeout", "300", "tlc", "-workers", "1", "-metadir", filepath.Join(dir, "md"), "-config", cfg, module+".tla")
	cmd.Dir = dir
	var out bytes.Buffer
	cmd.Stdout = &out
	cmd.Stderr = &out
	rc := 0
	if err := cmd.Run(); err != nil {
		if ee, ok := err.(*exec.ExitError); ok {
			rc = ee.ExitCode()
		} else {
			return -1, err.Error()
		}
	}
	s := out.String()
	if len(s) > 1500 {
		s = s[len(s)-1500:]
	}
	return rc, s
}

func copyFile(t testing.TB, src, dst string) {
	in, err := os.Open(src)
	if err != nil {
		t.Fatalf("copy: %v", err)
	}
	defer in.Close()
	out, err := os.Create(dst)
	if err != nil {
		t.Fatalf("copy: %v", err)
	}
	defer out.Close()
	if _, err := io.Copy(out, in); err != nil {
		t.Fatalf("copy: %v", err)
	}
}
