package hx

// EmitRaw appends an already encoded JSON event to the trace.
func (tw *TraceWriter) EmitRaw(b []byte) {
	tw.mu.Lock()
	tw.w.Write(b)
	tw.w.WriteByte('\n')
	tw.N++
	tw.mu.Unlock()
}
