package hx

// ProcPool runs jobs in worker PROCESSES under a per-job deadline.
//
// Some properties say "terminates" / "never deadlocks". A goroutine that spins or blocks
// inside the code under test cannot be stopped from outside, a process can: the pool
// re-executes the running test binary (os.Args[0]) with -test.run=^<ChildTest>$ and the
// environment variable VERIF_CHILD=<ChildTest>; jobs travel as single JSON lines on the
// child's stdin, results as single lines on its fd 3 (so that anything the code under test
// prints to stdout/stderr cannot corrupt the protocol). A child that does not answer within
// the deadline is killed and the job is reported as Hang; a child that disappears is Died.
//
// Child side:   func TestXxxChild(t *testing.T) { hx.ServeChild(t, "TestXxxChild", handle) }
// Parent side:  p := hx.NewProcPool(8, 10*time.Second, "TestXxxChild", env...); defer p.Close()
//               out, st := p.Do(jobLine)           // st: "", "hang", "died", "fail: ..."
//               out, st := p.DoFresh(jobLine)      // same, in a brand-new process (confirmation in isolation)

import (
	"bufio"
	"fmt"
	"os"
	"os/exec"
	"sync"
	"syscall"
	"testing"
	"time"
)

type procWorker struct {
	cmd   *exec.Cmd
	in    *bufio.Writer
	inC   interface{ Close() error }
	lines chan []byte
	jobs  int
}

type ProcPool struct {
	free      chan *procWorker
	Timeout   time.Duration
	ChildTest string
	Env       []string
	MaxJobs   int // a worker is replaced after this many jobs (0 = never)
	Dir       string
	mu        sync.Mutex
	Spawned   int
	Killed    int
}

func NewProcPool(n int, timeout time.Duration, childTest string, env ...string) *ProcPool {
	p := &ProcPool{free: make(chan *procWorker, n), Timeout: timeout, ChildTest: childTest, Env: env}
	for i := 0; i < n; i++ {
		p.free <- nil
	}
	return p
}

// IsChild reports whether this process is a worker for childTest.
func IsChild(childTest string) bool { return os.Getenv("VERIF_CHILD") == childTest }

// ServeChild is the worker loop (returns immediately with t.Skip in a normal test run).
func ServeChild(t *testing.T, childTest string, handle func(job []byte) []byte) {
	if !IsChild(childTest) {
		t.Skip("worker entry point")
	}
	out := bufio.NewWriter(os.NewFile(3, "results"))
	sc := bufio.NewScanner(os.Stdin)
	sc.Buffer(make([]byte, 1<<20), 1<<26)
	for sc.Scan() {
		r := handle(sc.Bytes())
		out.Write(r)
		out.WriteByte('\n')
		out.Flush()
	}
	os.Exit(0)
}

// DieWithParent makes the kernel kill the child when the process that started it dies (a test
// binary that runs into its time-out cannot clean up: a worker spinning in a loop would stay for ever).
func DieWithParent(cmd *exec.Cmd) {
	if cmd.SysProcAttr == nil {
		cmd.SysProcAttr = &syscall.SysProcAttr{}
	}
	cmd.SysProcAttr.Pdeathsig = syscall.SIGKILL
}

func (p *ProcPool) spawn() (*procWorker, error) {
	cmd := exec.Command(os.Args[0], "-test.run=^"+p.ChildTest+"$", "-test.timeout=0")
	DieWithParent(cmd)
	cmd.Env = append(append(os.Environ(), "VERIF_CHILD="+p.ChildTest, "VERIF_OUT=", "GOMAXPROCS=2"), p.Env...)
	cmd.Dir = p.Dir
	stdin, err := cmd.StdinPipe()
	if err != nil {
		return nil, err
	}
	pr, pw, err := os.Pipe()
	if err != nil {
		return nil, err
	}
	cmd.ExtraFiles = []*os.File{pw}
	if err := cmd.Start(); err != nil {
		pr.Close()
		pw.Close()
		return nil, err
	}
	pw.Close()
	w := &procWorker{cmd: cmd, in: bufio.NewWriter(stdin), inC: stdin, lines: make(chan []byte, 4)}
	go func() {
		sc := bufio.NewScanner(pr)
		sc.Buffer(make([]byte, 1<<20), 1<<26)
		for sc.Scan() {
			w.lines <- append([]byte(nil), sc.Bytes()...)
		}
		close(w.lines)
		pr.Close()
	}()
	p.mu.Lock()
	p.Spawned++
	p.mu.Unlock()
	return w, nil
}

func (w *procWorker) kill() {
	w.inC.Close()
	w.cmd.Process.Kill()
	go w.cmd.Wait()
}

func (w *procWorker) retire() {
	w.inC.Close()
	go func() {
		done := make(chan struct{})
		go func() { w.cmd.Wait(); close(done) }()
		select {
		case <-done:
		case <-time.After(3 * time.Second):
			w.cmd.Process.Kill()
		}
	}()
}

func (p *ProcPool) run(w *procWorker, job []byte) (out []byte, status string, alive bool) {
	w.in.Write(job)
	w.in.WriteByte('\n')
	if err := w.in.Flush(); err != nil {
		w.kill()
		return nil, "died", false
	}
	w.jobs++
	tm := time.NewTimer(p.Timeout)
	defer tm.Stop()
	select {
	case line, ok := <-w.lines:
		if !ok {
			w.kill()
			return nil, "died", false
		}
		return line, "", true
	case <-tm.C:
		w.kill()
		p.mu.Lock()
		p.Killed++
		p.mu.Unlock()
		return nil, "hang", false
	}
}

// Do runs one job (one line, no line feed inside) in some worker.
func (p *ProcPool) Do(job []byte) ([]byte, string) {
	w := <-p.free
	if w != nil && p.MaxJobs > 0 && w.jobs >= p.MaxJobs {
		w.retire()
		w = nil
	}
	if w == nil {
		var err error
		if w, err = p.spawn(); err != nil {
			p.free <- nil
			return nil, fmt.Sprintf("fail: cannot start worker: %v", err)
		}
	}
	out, st, alive := p.run(w, job)
	if alive {
		p.free <- w
	} else {
		p.free <- nil
	}
	return out, st
}

// DoFresh runs one job in a process of its own (started for it, stopped afterwards).
func (p *ProcPool) DoFresh(job []byte) ([]byte, string) {
	w, err := p.spawn()
	if err != nil {
		return nil, fmt.Sprintf("fail: cannot start worker: %v", err)
	}
	out, st, alive := p.run(w, job)
	if alive {
		w.retire()
	}
	return out, st
}

// Close stops all idle workers (call when no job is in flight).
func (p *ProcPool) Close() {
	for i := 0; i < cap(p.free); i++ {
		if w := <-p.free; w != nil {
			w.retire()
		}
	}
}

func (p *ProcPool) Stats() (spawned, killed int) {
	p.mu.Lock()
	defer p.mu.Unlock()
	return p.Spawned, p.Killed
}
