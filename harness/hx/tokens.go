package hx

// Provenance tokens and request-path spellings shared by the file-serving properties
// (C02 keeps its own copy of an earlier version; C03 uses this file).

import (
	"archive/tar"
	"archive/zip"
	"bytes"
	"compress/gzip"
	"crypto/sha256"
	"encoding/hex"
	"io"
	"math/rand"
	"strings"
)

// Token returns the unique content token of a fixture file; ns separates properties.
func Token(ns, node string) string {
	h := sha256.Sum256([]byte(ns + ":" + node))
	return "tk-" + hex.EncodeToString(h[:10]) + "-kt"
}

// Gzip compresses b.
func Gzip(b []byte) []byte {
	var buf bytes.Buffer
	w := gzip.NewWriter(&buf)
	w.Write(b)
	w.Close()
	return buf.Bytes()
}

// ScanTokens records in found the nodes whose token occurs in b, looking through gzip, zip
// and tar layers (recursively); names receives archive entry names when non-nil.
func ScanTokens(b []byte, tokenToNode map[string]string, found map[string]bool, names *[]string) {
	scanTokens(b, tokenToNode, found, names, 0)
}

func scanTokens(b []byte, tokenToNode map[string]string, found map[string]bool, names *[]string, depth int) {
	for tk, n := range tokenToNode {
		if bytes.Contains(b, []byte(tk)) {
			found[n] = true
		}
	}
	if depth > 4 {
		return
	}
	if len(b) > 2 && b[0] == 0x1f && b[1] == 0x8b {
		if zr, err := gzip.NewReader(bytes.NewReader(b)); err == nil {
			if inner, _ := io.ReadAll(zr); len(inner) > 0 {
				scanTokens(inner, tokenToNode, found, names, depth+1)
			}
		}
	}
	if len(b) > 4 && b[0] == 'P' && b[1] == 'K' {
		if zr, err := zip.NewReader(bytes.NewReader(b), int64(len(b))); err == nil {
			for _, zf := range zr.File {
				if names != nil {
					*names = append(*names, zf.Name)
				}
				if rc, err := zf.Open(); err == nil {
					inner, _ := io.ReadAll(rc)
					rc.Close()
					scanTokens(inner, tokenToNode, found, nil, depth+1)
				}
			}
		}
	}
	if len(b) > 262 && string(b[257:262]) == "ustar" {
		tr := tar.NewReader(bytes.NewReader(b))
		for {
			h, err := tr.Next()
			if err != nil {
				break
			}
			if names != nil {
				*names = append(*names, h.Name)
			}
			inner, _ := io.ReadAll(tr)
			scanTokens(inner, tokenToNode, found, nil, depth+1)
		}
	}
}

const hexLower, hexUpper = "0123456789abcdef", "0123456789ABCDEF"

func pctEnc(c byte, rnd *rand.Rand) string {
	h := hexLower
	if rnd.Intn(2) == 0 {
		h = hexUpper
	}
	return "%" + string(h[c>>4]) + string(h[c&15])
}

// SpellPath renders a path given as segments ("/"+join(segs,"/"), plus a trailing slash when
// slash is set and there is a segment).  level 0 is the canonical spelling; otherwise
// characters and the inner separators are percent-encoded at random ('.' -> %2e, '/' -> %2F,
// letters -> %64 ...).  The first separator always stays a literal '/'.
func SpellPath(segs []string, slash bool, level int, rnd *rand.Rand) string {
	raw := segs
	if slash && len(segs) > 0 {
		raw = append(append([]string{}, segs...), "")
	}
	if len(raw) == 0 {
		return "/"
	}
	var b strings.Builder
	for i, s := range raw {
		if i == 0 || level == 0 || rnd.Intn(4) != 0 {
			b.WriteByte('/')
		} else {
			b.WriteString(pctEnc('/', rnd))
		}
		for k := 0; k < len(s); k++ {
			c := s[k]
			switch {
			case c == '\\' && (level == 0 || rnd.Intn(2) == 0):
				b.WriteString("%5C")
			case level > 0 && rnd.Intn(3) == 0:
				b.WriteString(pctEnc(c, rnd))
			default:
				b.WriteByte(c)
			}
		}
	}
	return b.String()
}
