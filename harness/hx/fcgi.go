package hx

// A byte-level, scriptable FastCGI responder. It parses the record stream a client sends
// exactly as the FastCGI specification frames it (8-byte header, contentLength, paddingLength),
// keeps every record header it saw (for trace validation by TLC), decodes the name-value pairs
// and the stdin stream, and answers with whatever records the script asks for - including
// deliberately odd framings (split points, padding, interleaved stderr, raw bytes).

import (
	"encoding/binary"
	"errors"
	"fmt"
	"io"
	"net"
	"sync"
	"time"
)

// FastCGI record types.
const (
	FcgiBegin  = 1
	FcgiAbort  = 2
	FcgiEnd    = 3
	FcgiParams = 4
	FcgiStdin  = 5
	FcgiStdout = 6
	FcgiStderr = 7
)

// FcgiRec is one record header as received.
type FcgiRec struct {
	Type uint8  `json:"type"`
	ID   uint16 `json:"id"`
	N    int    `json:"n"`
	Pad  int    `json:"pad"`
}

// FcgiConv is everything one connection of a client delivered.
type FcgiConv struct {
	Recs        []FcgiRec
	Pairs       [][2]string // decoded name-value pairs in wire order
	PairsErr    string      // params stream could not be decoded
	Stdin       []byte
	Garbage     string // framing broke: what was wrong
	ParamsEnded int    // number of empty params records
	StdinEnded  int    // number of empty stdin records
	AfterEnd    int    // records received after the stdin terminator
	ClosedClean bool   // the client closed the connection (EOF on a record boundary)
	Answered    bool
}

// Env returns the decoded pairs as a map (last one wins) and the number of duplicate names.
func (c *FcgiConv) Env() (map[string]string, int) {
	m := make(map[string]string, len(c.Pairs))
	dup := 0
	for _, p := range c.Pairs {
		if _, ok := m[p[0]]; ok {
			dup++
		}
		m[p[0]] = p[1]
	}
	return m, dup
}

// FcgiOut is one record the responder sends. Raw, if set, is written verbatim instead.
type FcgiOut struct {
	Type    uint8
	Content []byte
	Pad     int
	Raw     []byte
	// CutAfter > 0: the responder's write to the socket ends CutAfter bytes into this record (a
	// transport boundary, e.g. inside the 8-byte record header); the rest follows a moment later
	CutAfter int
}

// FcgiEndRequest is the closing record (appStatus 0, FCGI_REQUEST_COMPLETE).
func FcgiEndRequest() FcgiOut { return FcgiOut{Type: FcgiEnd, Content: make([]byte, 8)} }

// FcgiResponder listens on a loopback port.
type FcgiResponder struct {
	Addr string
	// Respond is called once the stdin stream is terminated; it returns the records to send.
	Respond func(c *FcgiConv) []FcgiOut
	// Done is called when the connection is finished (client closed or timed out).
	Done func(c *FcgiConv)
	// Linger is how long to wait for the client to close after the answer was sent.
	Linger time.Duration
	// CloseAfterAnswer closes the connection right after the answer was written (a backend that
	// announces more bytes than it sends then produces EOF instead of a read time-out).
	CloseAfterAnswer bool

	ln net.Listener
	wg sync.WaitGroup
}

// StartFcgiResponder starts accepting.
func StartFcgiResponder(respond func(c *FcgiConv) []FcgiOut, done func(c *FcgiConv)) (*FcgiResponder, error) {
	ln, err := net.Listen("tcp", "127.0.0.1:0")
	if err != nil {
		return nil, err
	}
	r := &FcgiResponder{Addr: ln.Addr().String(), Respond: respond, Done: done, ln: ln, Linger: 10 * time.Second}
	r.wg.Add(1)
	go func() {
		defer r.wg.Done()
		for {
			c, err := ln.Accept()
			if err != nil {
				return
			}
			r.wg.Add(1)
			go func() {
				defer r.wg.Done()
				r.serve(c)
			}()
		}
	}()
	return r, nil
}

func (r *FcgiResponder) Close() {
	r.ln.Close()
	r.wg.Wait()
}

// EncodeFcgiRecord builds the wire bytes of one record (pad bytes are 0xEE so that a client
// that leaks padding into the payload is noticed).
func EncodeFcgiRecord(typ uint8, id uint16, content []byte, pad int) []byte {
	b := make([]byte, 8, 8+len(content)+pad)
	b[0] = 1
	b[1] = typ
	binary.BigEndian.PutUint16(b[2:], id)
	binary.BigEndian.PutUint16(b[4:], uint16(len(content)))
	b[6] = uint8(pad)
	b = append(b, content...)
	for i := 0; i < pad; i++ {
		b = append(b, 0xEE)
	}
	return b
}

// DecodeFcgiPairs decodes a complete name-value stream.
func DecodeFcgiPairs(b []byte) ([][2]string, error) {
	var out [][2]string
	size := func() (int, error) {
		if len(b) == 0 {
			return 0, errors.New("truncated length")
		}
		if b[0]>>7 == 0 {
			n := int(b[0])
			b = b[1:]
			return n, nil
		}
		if len(b) < 4 {
			return 0, errors.New("truncated 4-byte length")
		}
		n := int(binary.BigEndian.Uint32(b) & 0x7fffffff)
		b = b[4:]
		return n, nil
	}
	for len(b) > 0 {
		kl, err := size()
		if err != nil {
			return out, err
		}
		vl, err := size()
		if err != nil {
			return out, err
		}
		if kl+vl > len(b) {
			return out, fmt.Errorf("pair of %d+%d bytes but only %d left", kl, vl, len(b))
		}
		out = append(out, [2]string{string(b[:kl]), string(b[kl : kl+vl])})
		b = b[kl+vl:]
	}
	return out, nil
}

func (r *FcgiResponder) serve(nc net.Conn) {
	defer nc.Close()
	conv := &FcgiConv{}
	defer func() {
		if r.Done != nil {
			r.Done(conv)
		}
	}()
	var params []byte
	var reqID uint16
	hdr := make([]byte, 8)
	nc.SetReadDeadline(time.Now().Add(30 * time.Second))
	for {
		if _, err := io.ReadFull(nc, hdr); err != nil {
			if err == io.EOF {
				conv.ClosedClean = true
			} else if conv.Garbage == "" && !conv.Answered {
				conv.Garbage = "connection ended inside a record header: " + err.Error()
			}
			return
		}
		rec := FcgiRec{Type: hdr[1], ID: binary.BigEndian.Uint16(hdr[2:]), N: int(binary.BigEndian.Uint16(hdr[4:])), Pad: int(hdr[6])}
		if hdr[0] != 1 {
			conv.Garbage = fmt.Sprintf("record %d: version byte %d", len(conv.Recs)+1, hdr[0])
			return
		}
		body := make([]byte, rec.N+rec.Pad)
		if _, err := io.ReadFull(nc, body); err != nil {
			conv.Garbage = fmt.Sprintf("record %d: announced %d+%d bytes, connection ended: %v", len(conv.Recs)+1, rec.N, rec.Pad, err)
			return
		}
		conv.Recs = append(conv.Recs, rec)
		content := body[:rec.N]
		if conv.StdinEnded > 0 {
			conv.AfterEnd++
			continue
		}
		switch rec.Type {
		case FcgiBegin:
			reqID = rec.ID
		case FcgiParams:
			if rec.N == 0 {
				conv.ParamsEnded++
				if conv.ParamsEnded == 1 {
					var err error
					conv.Pairs, err = DecodeFcgiPairs(params)
					if err != nil {
						conv.PairsErr = err.Error()
					}
				}
			} else {
				params = append(params, content...)
			}
		case FcgiStdin:
			if rec.N == 0 {
				conv.StdinEnded++
			} else {
				conv.Stdin = append(conv.Stdin, content...)
			}
		}
		if conv.StdinEnded == 1 && !conv.Answered {
			conv.Answered = true
			var outs []FcgiOut
			if r.Respond != nil {
				outs = r.Respond(conv)
			}
			var wire []byte
			var cuts []int
			for _, o := range outs {
				start := len(wire)
				if o.Raw != nil {
					wire = append(wire, o.Raw...)
				} else {
					wire = append(wire, EncodeFcgiRecord(o.Type, reqID, o.Content, o.Pad)...)
				}
				if o.CutAfter > 0 && start+o.CutAfter < len(wire) {
					cuts = append(cuts, start+o.CutAfter)
				}
			}
			nc.SetWriteDeadline(time.Now().Add(30 * time.Second))
			prev := 0
			for _, c := range cuts {
				nc.Write(wire[prev:c])
				prev = c
				time.Sleep(400 * time.Microsecond) // long enough for the reader to come back for more
			}
			nc.Write(wire[prev:])
			if r.CloseAfterAnswer {
				return
			}
			nc.SetReadDeadline(time.Now().Add(r.Linger))
		}
	}
}

// FcgiTypeName maps a received record type to the names the TLA+ wire observer uses.
func FcgiTypeName(t uint8) string {
	switch t {
	case FcgiBegin:
		return "begin"
	case FcgiParams:
		return "params"
	case FcgiStdin:
		return "stdin"
	}
	return "other"
}
