package hx

import (
	"io"
	"net/http"
	"time"
)

// DoSlow is Do with the request written in two parts and a pause in between (a client on a slow
// link: the upload takes at least pause).
func (rc *RawConn) DoSlow(method string, raw []byte, splitAt int, pause time.Duration) (*RawResp, error) {
	rc.c.SetDeadline(time.Now().Add(20*time.Second + pause))
	if splitAt <= 0 || splitAt >= len(raw) {
		splitAt = len(raw) / 2
	}
	if _, err := rc.c.Write(raw[:splitAt]); err != nil {
		return nil, err
	}
	time.Sleep(pause)
	if _, err := rc.c.Write(raw[splitAt:]); err != nil {
		return nil, err
	}
	resp, err := http.ReadResponse(rc.br, &http.Request{Method: method})
	// interim responses (1xx other than 101) precede the real one
	for err == nil && resp.StatusCode >= 100 && resp.StatusCode < 200 && resp.StatusCode != http.StatusSwitchingProtocols {
		resp, err = http.ReadResponse(rc.br, &http.Request{Method: method})
	}
	if err != nil {
		return nil, err
	}
	body, err := io.ReadAll(resp.Body)
	resp.Body.Close()
	if err != nil {
		return &RawResp{Status: resp.StatusCode, Header: resp.Header, Body: body, Err: err.Error()}, nil
	}
	return &RawResp{Status: resp.StatusCode, Header: resp.Header, Body: body}, nil
}
