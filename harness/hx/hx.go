// Package hx holds what every property driver shares: reading the cases TLC emitted,
// writing the result file the ./check driver consumes, seeds, and small helpers.
package hx

import (
	"bufio"
	"encoding/json"
	"fmt"
	"math/rand"
	"os"
	"path/filepath"
	"sort"
	"strconv"
	"sync"
	"testing"
)

// Mismatch is one disagreement between the real code and the specification / declarative property.
type Mismatch struct {
	Key      string      `json:"key"`  // canonical identity of the failing case (matched against known_findings.json)
	What     string      `json:"what"` // one line for humans
	Case     interface{} `json:"case,omitempty"`
	Expected interface{} `json:"expected,omitempty"`
	Observed interface{} `json:"observed,omitempty"`
	Test     string      `json:"test,omitempty"`
}

// TraceFile names an ndjson trace recorded from the real code, to be validated by TLC.
type TraceFile struct {
	Spec  string `json:"spec"` // name of the trace spec entry in props.py
	File  string `json:"file"`
	Count int    `json:"count"` // number of concatenated traces in the file
	Key   string `json:"key,omitempty"`
}

// Result is what a driver hands back to ./check.
type Result struct {
	Test        string                 `json:"test"`
	Evaluations int                    `json:"evaluations"`
	Distinct    int                    `json:"distinct_nontrivial"`
	Replayed    int                    `json:"replayed"`
	Rule        string                 `json:"rule"`
	Samples     []interface{}          `json:"samples"`
	Mismatches  []Mismatch             `json:"mismatches"`
	Traces      []TraceFile            `json:"traces"`
	Extra       map[string]interface{} `json:"extra,omitempty"`
	Infra       string                 `json:"infra,omitempty"`

	mu       sync.Mutex
	distinct map[string]struct{}
	mmKeys   map[string]int
}

func NewResult(test, rule string) *Result {
	return &Result{Test: test, Rule: rule, Extra: map[string]interface{}{}, distinct: map[string]struct{}{}, mmKeys: map[string]int{}}
}

// Count records one evaluated case; nontrivialKey=="" means trivial.
func (r *Result) Count(nontrivialKey string) {
	r.mu.Lock()
	r.Evaluations++
	if nontrivialKey != "" {
		r.distinct[nontrivialKey] = struct{}{}
	}
	r.mu.Unlock()
}

func (r *Result) Sample(s interface{}) {
	r.mu.Lock()
	if len(r.Samples) < 5 {
		r.Samples = append(r.Samples, s)
	}
	r.mu.Unlock()
}

// Add records a mismatch; at most 3 cases per key are kept (the key is the identity).
func (r *Result) Add(m Mismatch) {
	r.mu.Lock()
	defer r.mu.Unlock()
	r.mmKeys[m.Key]++
	if r.mmKeys[m.Key] > 1 || len(r.Mismatches) >= 200 {
		return
	}
	m.Test = r.Test
	r.Mismatches = append(r.Mismatches, m)
}

func (r *Result) MismatchCount() int { r.mu.Lock(); defer r.mu.Unlock(); return len(r.Mismatches) }

func (r *Result) AddExtra(k string, v interface{}) { r.mu.Lock(); r.Extra[k] = v; r.mu.Unlock() }

func (r *Result) Write(t testing.TB) {
	r.mu.Lock()
	defer r.mu.Unlock()
	r.Distinct = len(r.distinct)
	if r.Samples == nil {
		r.Samples = []interface{}{}
	}
	if r.Mismatches == nil {
		r.Mismatches = []Mismatch{}
	}
	if r.Traces == nil {
		r.Traces = []TraceFile{}
	}
	counts := map[string]int{}
	for k, v := range r.mmKeys {
		counts[k] = v
	}
	if len(counts) > 0 {
		r.Extra["mismatch_counts"] = counts
	}
	out := os.Getenv("VERIF_OUT")
	b, err := json.MarshalIndent(r, "", " ")
	if err != nil {
		t.Fatalf("marshal result: %v", err)
	}
	if out == "" {
		t.Logf("result: %s", b)
		return
	}
	if err := os.WriteFile(out, b, 0o644); err != nil {
		t.Fatalf("write result: %v", err)
	}
}

func Seed() int64 {
	s, err := strconv.ParseInt(os.Getenv("VERIF_SEED"), 10, 64)
	if err != nil {
		return 1
	}
	return s
}

func Rand() *rand.Rand { return rand.New(rand.NewSource(Seed())) }

func Tier() string {
	if os.Getenv("VERIF_TIER") == "thorough" {
		return "thorough"
	}
	return "quick"
}

func Thorough() bool { return Tier() == "thorough" }
func SelfTest() bool { return os.Getenv("VERIF_SELFTEST") == "1" }
func Replay() string { return os.Getenv("VERIF_REPLAY") }

// Scratch returns a directory for temporary files of this run.
func Scratch(t testing.TB) string {
	if d := os.Getenv("VERIF_SCRATCH"); d != "" {
		return d
	}
	return t.TempDir()
}

func TraceDir(t testing.TB) string {
	if d := os.Getenv("VERIF_TRACE_DIR"); d != "" {
		return d
	}
	return t.TempDir()
}

// CasesPath returns the file with the CASE lines TLC emitted for a spec module ("" if none).
func CasesPath(module string) string {
	return os.Getenv("VERIF_CASES_" + upper(module))
}

func upper(s string) string {
	b := []byte(s)
	for i, c := range b {
		if c >= 'a' && c <= 'z' {
			b[i] = c - 32
		}
	}
	return string(b)
}

// EachCase streams the ndjson cases of a module, decoding each line into a fresh value made by mk.
func EachCase(t testing.TB, module string, fn func(line []byte) error) int {
	p := CasesPath(module)
	if p == "" {
		t.Fatalf("no cases for module %s (VERIF_CASES_%s unset): run through ./check", module, upper(module))
	}
	f, err := os.Open(p)
	if err != nil {
		t.Fatalf("open cases: %v", err)
	}
	defer f.Close()
	sc := bufio.NewScanner(f)
	sc.Buffer(make([]byte, 1<<20), 1<<26)
	n := 0
	for sc.Scan() {
		b := sc.Bytes()
		if len(b) == 0 {
			continue
		}
		n++
		if err := fn(b); err != nil {
			t.Fatalf("case %d of %s: %v", n, module, err)
		}
	}
	if err := sc.Err(); err != nil {
		t.Fatalf("scan cases: %v", err)
	}
	return n
}

// LoadCases decodes all cases of a module into a slice of T.
func LoadCases[T any](t testing.TB, module string) []T {
	var out []T
	EachCase(t, module, func(line []byte) error {
		var v T
		if err := json.Unmarshal(line, &v); err != nil {
			return fmt.Errorf("%v in %s", err, line)
		}
		out = append(out, v)
		return nil
	})
	return out
}

// LoadReplay decodes the "case" member of a replay file written by ./check.
func LoadReplay[T any](t testing.TB) (T, bool) {
	var v T
	p := Replay()
	if p == "" {
		return v, false
	}
	b, err := os.ReadFile(p)
	if err != nil {
		t.Fatalf("read replay: %v", err)
	}
	var w struct {
		Case json.RawMessage `json:"case"`
	}
	if err := json.Unmarshal(b, &w); err != nil || w.Case == nil {
		t.Fatalf("replay file has no case: %v", err)
	}
	if err := json.Unmarshal(w.Case, &v); err != nil {
		t.Fatalf("replay case: %v", err)
	}
	return v, true
}

// TraceWriter writes ndjson events.
type TraceWriter struct {
	mu   sync.Mutex
	f    *os.File
	w    *bufio.Writer
	Path string
	N    int
}

func NewTrace(t testing.TB, name string) *TraceWriter {
	p := filepath.Join(TraceDir(t), name)
	f, err := os.Create(p)
	if err != nil {
		t.Fatalf("trace: %v", err)
	}
	return &TraceWriter{f: f, w: bufio.NewWriter(f), Path: p}
}

func (tw *TraceWriter) Emit(ev interface{}) {
	b, err := json.Marshal(ev)
	if err != nil {
		panic(err)
	}
	tw.mu.Lock()
	tw.w.Write(b)
	tw.w.WriteByte('\n')
	tw.N++
	tw.mu.Unlock()
}

func (tw *TraceWriter) Close() {
	tw.mu.Lock()
	tw.w.Flush()
	tw.f.Close()
	tw.mu.Unlock()
}

// SortedKeys returns the sorted keys of a string-keyed map.
func SortedKeys[V any](m map[string]V) []string {
	ks := make([]string, 0, len(m))
	for k := range m {
		ks = append(ks, k)
	}
	sort.Strings(ks)
	return ks
}

// Sample picks up to n elements of xs deterministically from rnd (all if n >= len).
func SampleIdx(rnd *rand.Rand, total, n int) []int {
	if n >= total {
		idx := make([]int, total)
		for i := range idx {
			idx[i] = i
		}
		return idx
	}
	p := rnd.Perm(total)[:n]
	sort.Ints(p)
	return p
}
