package hx

import (
	"net"
	"os"
	"strconv"
	"sync/atomic"
	"time"
)

// StablePort returns a TCP port on 127.0.0.1 that is free now and lies BELOW the kernel's
// ephemeral range (32768..60999 here). FreePort() hands out ephemeral ports: when the box is
// short of them (tens of thousands of TIME-WAIT sockets from other checks) the port just
// released is the first one the kernel gives to the next outgoing connection, and the
// instance that was to listen on it fails with "address already in use". Ports from
// 12000..31999 are never used as source ports, so only another listener can take them.
func StablePort() int {
	for i := 0; i < 20000; i++ {
		p := 12000 + int(atomic.AddUint32(&stableNext, 1))%20000
		ln, err := net.Listen("tcp", "127.0.0.1:"+strconv.Itoa(p))
		if err != nil {
			continue
		}
		ln.Close()
		return p
	}
	return FreePort()
}

var stableNext = uint32(os.Getpid()*7919) + uint32(time.Now().UnixNano()/1000)
