package hx

// FcgiFarm: several scriptable FastCGI responders ("upstreams") on loopback ports that log what
// they see - accept / begin (request arrived) / reqend (request complete) / answer / close (the
// client side closed) - with sequence numbers taken under ONE mutex, so that the events of all
// responders and of the test's own HTTP clients (Log) form one totally ordered trace for TLC
// (specs/FcgiUpstreamsTrace.tla). What every upstream does is scripted:
//
//	port mode   up         listening
//	            refuse     the port is bound but not listening: connect() is refused at once
//	            blackhole  listening with a full accept queue: connect() never completes
//	answer mode (one per accepted connection, in accept order; "ok" when the script is used up)
//	            ok         complete response (headers, body, end-of-request)
//	            slow       the same after SlowDelay
//	            stall      reads the request, never answers
//	            closeearly reads the request, closes its sending side without a byte
//	            closemid   headers and the start of the body, then closes its sending side inside a record
//	            stallbody  headers and the start of the body, then nothing more
//	            noread     never reads (a request larger than the socket buffers blocks the sender)
//
// The request id is taken from the CGI variable HTTP_X_REQ. A responder never closes its
// reading side before the client did, so "close" really is the client's close.

import (
	"encoding/binary"
	"fmt"
	"io"
	"net"
	"strconv"
	"sync"
	"syscall"
	"time"
)

// FarmEvent is one logged event (also the ndjson shape handed to TLC).
type FarmEvent struct {
	Seq int    `json:"seq"`
	Ev  string `json:"ev"`
	T   int    `json:"t"`  // ticks since the farm started
	U   int    `json:"u"`  // upstream 1..n (0: not an upstream event)
	C   int    `json:"c"`  // connection number (farm-wide, accept order)
	R   int    `json:"r"`  // request id
	M   string `json:"m"`  // answer mode / body class
	St  int    `json:"st"` // HTTP status seen by the client (end events)
	K   int    `json:"k"`  // number of BeginRequest records seen on the connection so far

	At time.Duration `json:"-"` // exact time since the farm started
}

// FarmUpstream describes one upstream of a farm.
type FarmUpstream struct {
	Port   string   // up | refuse | blackhole
	Script []string // answer modes of successive connections
}

type farmUp struct {
	FarmUpstream
	idx     int
	addr    string
	ln      net.Listener
	fd      int // raw socket (refuse / blackhole), -1 otherwise
	filler  net.Conn
	fillers []net.Conn
	nacc    int
}

// FcgiFarm is a set of scripted upstreams with one event log.
type FcgiFarm struct {
	Tick       time.Duration // length of one trace tick
	SlowDelay  time.Duration // what "slow" waits before answering
	NoReadHold time.Duration // how long "noread" keeps the connection unread before draining it
	MaxWait    time.Duration // upper bound for waiting on a client's close

	mu     sync.Mutex
	t0     time.Time
	seq    int
	nconn  int
	open   map[int]bool // connections accepted and not yet seen closed
	events []FarmEvent
	ups    []*farmUp
	wg     sync.WaitGroup
	closed bool
}

// StartFcgiFarm opens the ports. The clock of the trace starts now.
func StartFcgiFarm(ups []FarmUpstream, tick, slow, noReadHold time.Duration) (*FcgiFarm, error) {
	f := &FcgiFarm{Tick: tick, SlowDelay: slow, NoReadHold: noReadHold, MaxWait: 20 * time.Second, open: map[int]bool{}, t0: time.Now()}
	for i, u := range ups {
		fu := &farmUp{FarmUpstream: u, idx: i + 1, fd: -1}
		var err error
		switch u.Port {
		case "up":
			fu.ln, err = net.Listen("tcp", "127.0.0.1:0")
			if err == nil {
				fu.addr = fu.ln.Addr().String()
			}
		case "refuse", "blackhole":
			err = fu.rawSocket(u.Port == "blackhole")
		default:
			err = fmt.Errorf("unknown port mode %q", u.Port)
		}
		if err != nil {
			f.ups = append(f.ups, fu)
			f.Close()
			return nil, err
		}
		f.ups = append(f.ups, fu)
	}
	for _, fu := range f.ups {
		if fu.ln == nil {
			continue
		}
		f.wg.Add(1)
		go func(fu *farmUp) {
			defer f.wg.Done()
			for {
				c, err := fu.ln.Accept()
				if err != nil {
					return
				}
				f.wg.Add(1)
				go func() {
					defer f.wg.Done()
					f.serve(fu, c)
				}()
			}
		}(fu)
	}
	return f, nil
}

// rawSocket binds a loopback port without listening (connect is refused, the port stays ours)
// or listens with backlog 0 and fills the accept queue with one connection of our own (further
// SYNs are dropped: connect hangs until the caller's time-out).
func (fu *farmUp) rawSocket(blackhole bool) error {
	fd, err := syscall.Socket(syscall.AF_INET, syscall.SOCK_STREAM, 0)
	if err != nil {
		return err
	}
	fu.fd = fd
	if err := syscall.Bind(fd, &syscall.SockaddrInet4{Addr: [4]byte{127, 0, 0, 1}}); err != nil {
		return err
	}
	sa, err := syscall.Getsockname(fd)
	if err != nil {
		return err
	}
	fu.addr = "127.0.0.1:" + strconv.Itoa(sa.(*syscall.SockaddrInet4).Port)
	if !blackhole {
		return nil
	}
	if err := syscall.Listen(fd, 0); err != nil {
		return err
	}
	fu.filler, err = net.DialTimeout("tcp", fu.addr, 2*time.Second)
	if err != nil {
		return fmt.Errorf("blackhole filler: %v", err)
	}
	// make sure the queue really is full: a probe must not get through
	for i := 0; i < 3; i++ {
		probe, err := net.DialTimeout("tcp", fu.addr, 40*time.Millisecond)
		if err != nil {
			return nil
		}
		// one more slot was free (kernels differ by one): keep it as a further filler
		fu.fillers = append(fu.fillers, probe)
	}
	return fmt.Errorf("blackhole port still accepts connections")
}

// Addrs returns the upstream addresses in declaration order.
func (f *FcgiFarm) Addrs() []string {
	out := make([]string, len(f.ups))
	for i, u := range f.ups {
		out[i] = u.addr
	}
	return out
}

// Now returns the current trace tick.
func (f *FcgiFarm) Now() int { return int(time.Since(f.t0) / f.Tick) }

// Log appends an event (sequence number and tick are filled in) and returns it.
func (f *FcgiFarm) Log(e FarmEvent) FarmEvent {
	f.mu.Lock()
	defer f.mu.Unlock()
	return f.logLocked(e)
}

func (f *FcgiFarm) logLocked(e FarmEvent) FarmEvent {
	f.seq++
	e.Seq = f.seq
	e.At = time.Since(f.t0)
	e.T = int(e.At / f.Tick)
	f.events = append(f.events, e)
	return e
}

// Events returns a copy of the log.
func (f *FcgiFarm) Events() []FarmEvent {
	f.mu.Lock()
	defer f.mu.Unlock()
	return append([]FarmEvent(nil), f.events...)
}

// OpenConns is the number of accepted connections whose close by the client was not seen yet.
func (f *FcgiFarm) OpenConns() int {
	f.mu.Lock()
	defer f.mu.Unlock()
	return len(f.open)
}

// WaitQuiet waits until every accepted connection was closed by the client (or d passed) and
// returns the number still open.
func (f *FcgiFarm) WaitQuiet(d time.Duration) int {
	end := time.Now().Add(d)
	for {
		n := f.OpenConns()
		if n == 0 || time.Now().After(end) {
			return n
		}
		time.Sleep(2 * time.Millisecond)
	}
}

// Close shuts all ports and waits for the responders.
func (f *FcgiFarm) Close() {
	f.mu.Lock()
	f.closed = true
	f.mu.Unlock()
	for _, u := range f.ups {
		if u.ln != nil {
			u.ln.Close()
		}
		if u.filler != nil {
			u.filler.Close()
		}
		for _, p := range u.fillers {
			p.Close()
		}
		if u.fd >= 0 {
			syscall.Close(u.fd)
			u.fd = -1
		}
	}
	f.wg.Wait()
}

func farmOKBody(u, c, r int) []byte {
	return []byte(fmt.Sprintf("up=%d conn=%d req=%d\n", u, c, r))
}

func (f *FcgiFarm) serve(fu *farmUp, nc net.Conn) {
	defer nc.Close()
	f.mu.Lock()
	fu.nacc++
	mode := "ok"
	if fu.nacc <= len(fu.Script) {
		mode = fu.Script[fu.nacc-1]
	}
	f.nconn++
	c := f.nconn
	f.open[c] = true
	f.logLocked(FarmEvent{Ev: "accept", U: fu.idx, C: c, M: mode})
	f.mu.Unlock()
	sawClose := func() {
		f.mu.Lock()
		delete(f.open, c)
		f.logLocked(FarmEvent{Ev: "close", U: fu.idx, C: c})
		f.mu.Unlock()
	}
	nc.SetReadDeadline(time.Now().Add(f.MaxWait))
	if mode == "noread" {
		time.Sleep(f.NoReadHold)
		io.Copy(io.Discard, nc)
		sawClose()
		return
	}
	var params []byte
	var reqID uint16
	nbegin, req := 0, 0
	hdr := make([]byte, 8)
	paramsDone, stdinDone := false, false
	for {
		if _, err := io.ReadFull(nc, hdr); err != nil {
			sawClose()
			return
		}
		n, pad := int(binary.BigEndian.Uint16(hdr[4:])), int(hdr[6])
		body := make([]byte, n+pad)
		if _, err := io.ReadFull(nc, body); err != nil {
			sawClose()
			return
		}
		switch hdr[1] {
		case FcgiBegin:
			nbegin++
			reqID = binary.BigEndian.Uint16(hdr[2:])
			params, paramsDone, stdinDone, req = nil, false, false, 0
		case FcgiParams:
			if n > 0 {
				params = append(params, body[:n]...)
			} else if !paramsDone {
				paramsDone = true
				pairs, _ := DecodeFcgiPairs(params)
				for _, p := range pairs {
					if p[0] == "HTTP_X_REQ" {
						req, _ = strconv.Atoi(p[1])
					}
				}
				f.Log(FarmEvent{Ev: "begin", U: fu.idx, C: c, R: req, K: nbegin})
			}
		case FcgiStdin:
			if n == 0 && !stdinDone {
				stdinDone = true
				f.Log(FarmEvent{Ev: "reqend", U: fu.idx, C: c, R: req})
				f.answer(fu, nc, mode, c, req, reqID)
			}
		}
	}
}

// answer plays the connection's mode once the request is complete.
func (f *FcgiFarm) answer(fu *farmUp, nc net.Conn, mode string, c, req int, reqID uint16) {
	head := fmt.Sprintf("Content-Type: text/plain\r\nX-Up: %d\r\nX-Conn: %d\r\n\r\n", fu.idx, c)
	full := append([]byte(head), farmOKBody(fu.idx, c, req)...)
	halfClose := func() {
		if tc, ok := nc.(*net.TCPConn); ok {
			tc.CloseWrite()
		}
	}
	nc.SetWriteDeadline(time.Now().Add(f.MaxWait))
	switch mode {
	case "slow":
		time.Sleep(f.SlowDelay)
		fallthrough
	case "ok":
		var wire []byte
		wire = append(wire, EncodeFcgiRecord(FcgiStdout, reqID, full, (8-len(full)%8)%8)...)
		wire = append(wire, EncodeFcgiRecord(FcgiStdout, reqID, nil, 0)...)
		wire = append(wire, EncodeFcgiRecord(FcgiEnd, reqID, make([]byte, 8), 0)...)
		// the event is logged BEFORE the bytes leave: the client cannot have seen the answer earlier
		f.Log(FarmEvent{Ev: "answer", U: fu.idx, C: c, R: req, M: mode})
		nc.Write(wire)
	case "stall":
		f.Log(FarmEvent{Ev: "answer", U: fu.idx, C: c, R: req, M: mode})
	case "closeearly":
		f.Log(FarmEvent{Ev: "answer", U: fu.idx, C: c, R: req, M: mode})
		halfClose()
	case "closemid", "stallbody":
		// one complete stdout record with the headers and the first 6 bytes of the body, then a
		// record that announces the remainder plus 64 bytes of which only 3 bytes are sent
		part := append([]byte(head), farmOKBody(fu.idx, c, req)[:6]...)
		wire := EncodeFcgiRecord(FcgiStdout, reqID, part, 0)
		wire = append(wire, EncodeFcgiRecord(FcgiStdout, reqID, make([]byte, len(full)+64), 0)[:8]...)
		wire = append(wire, farmOKBody(fu.idx, c, req)[6:9]...)
		f.Log(FarmEvent{Ev: "answer", U: fu.idx, C: c, R: req, M: mode})
		nc.Write(wire)
		if mode == "closemid" {
			halfClose()
		}
	default:
		f.Log(FarmEvent{Ev: "answer", U: fu.idx, C: c, R: req, M: "unknown:" + mode})
	}
}
