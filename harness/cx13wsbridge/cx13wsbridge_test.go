// Package cx13wsbridge binds specs/WsBridge.tla (C13 extension: the `websocket` directive, which
// upgrades a connection and bridges it to a spawned command) to the real code.
//
// One case = one script TLC emitted at the sync grain of WsBridge.tla: a configuration (type,
// bufsize, how the command reacts to SIGINT / the end of stdin, whether the command exists), a
// request (kind of handshake, path, Host form, extra headers) and the steps of the two ends -
// messages of the client, writes of the command, close frame / FIN / RST, closed stdout, exit -
// each with what the outside can see once the server has nothing left to do (frames received,
// close code, end of stream, bytes on stdin, signals, process state, serveWS returned).
// A real site is started (casket.Start), the command is this test binary in child mode
// (child_test.go), the client speaks raw RFC 6455 (wsclient_test.go).  Before every step the
// harness waits until its observation equals the specification's; every exchange is recorded
// and validated by TLC against WsBridgeTrace.tla with all invariants.
package cx13wsbridge

import (
	"encoding/json"
	"fmt"
	"math/rand"
	"os"
	"path/filepath"
	"reflect"
	"sort"
	"strings"
	"sync"
	"testing"
	"time"

	"github.com/tmpim/casket"
	"verifharness/hx"
)

const (
	patience = 4 * time.Second
	siteHost = "ws.test"
)

// ---------------------------------------------------------------- cases

type frameT struct {
	K string `json:"k"`
	P []int  `json:"p"`
}

type closeT struct {
	Code int    `json:"code"`
	Why  string `json:"why"`
}

type seenT struct {
	Head   int      `json:"head"`
	Frames []frameT `json:"frames"`
	Cclose closeT   `json:"cclose"`
	Ceof   bool     `json:"ceof"`
	Stdin  []int    `json:"stdin"`
	Seof   bool     `json:"seof"`
	Sigs   []string `json:"sigs"`
	Ch     string   `json:"ch"`
	Ret    bool     `json:"ret"`
	Rst    int      `json:"rst"`
	Passed bool     `json:"passed"`
	Spawns int      `json:"spawns"`
}

type stepT struct {
	A    string `json:"a"`
	K    string `json:"k"`
	Arg  []int  `json:"arg"`
	Seen seenT  `json:"seen"`
}

type wcase struct {
	Scope string     `json:"scope"`
	Type  string     `json:"type"`
	Buf   int        `json:"buf"`
	Mode  string     `json:"mode"`
	Cmdok bool       `json:"cmdok"`
	Rk    string     `json:"rk"`
	Rpath string     `json:"rpath"`
	Rhost string     `json:"rhost"`
	Rhdrs []string   `json:"rhdrs"`
	Sel   int        `json:"sel"`
	Env   [][]string `json:"env"`
	Steps []stepT    `json:"steps"`
	Final seenT      `json:"final"`
	Dirty bool       `json:"dirty"`
}

func kindsStr(a []int) string {
	var b strings.Builder
	for _, k := range a {
		b.WriteByte("onsrlcx"[k])
	}
	return b.String()
}

func (c *wcase) key() string {
	var st []string
	for _, s := range c.Steps {
		x := s.A
		if s.A == "req" {
			extra := []string{}
			for _, h := range c.Rhdrs {
				if strings.HasPrefix(h, "X-") || h == "Proxy" {
					extra = append(extra, h)
				}
			}
			sort.Strings(extra)
			x += "(" + c.Rk + "," + c.Rpath + "," + c.Rhost + "," + strings.Join(extra, "+") + ")"
		} else if s.K != "" {
			x += "(" + s.K + ")"
		} else if len(s.Arg) > 0 || s.A == "csend" {
			x += "(" + kindsStr(s.Arg) + ")"
		}
		st = append(st, x)
	}
	ok := ""
	if !c.Cmdok {
		ok = "/nocmd"
	}
	return fmt.Sprintf("%s/type=%s/buf=%d/mode=%s%s/%s", c.Scope, c.Type, c.Buf, c.Mode, ok, strings.Join(st, "."))
}

func (c *wcase) hasStop() bool {
	for _, s := range c.Steps {
		if s.A == "stop" {
			return true
		}
	}
	return false
}

func (c *wcase) nontrivial() string {
	if c.Scope == "req" {
		return "req/" + c.Rk + "/" + c.Rpath
	}
	return c.key()
}

// canonEnv: the environment of the one request shape all traffic scripts use (their CASE lines
// leave it out; it is taken from the request-scope script with the same request).
var canonEnv [][]string

// group: the scripts TLC emitted with the same configuration and steps. Where the model has a
// race (the command sees the end of stdin and the interrupt in either order) they differ in what
// is seen; the real exchange must agree with one of them at every step.
type group struct {
	key  string
	alts []wcase
}

func groupCases(all []wcase) []*group {
	idx := map[string]*group{}
	var out []*group
	for _, c := range all {
		k := c.key()
		g := idx[k]
		if g == nil {
			g = &group{key: k}
			idx[k] = g
			out = append(out, g)
		}
		g.alts = append(g.alts, c)
	}
	return out
}

// ---------------------------------------------------------------- tokens <-> bytes

const (
	kORD = iota
	kNL
	kSP
	kCR
	kLEAD
	kCONT
	kBAD
)

// tokBytes spells a token sequence: an ordinary byte names its position in the stream.
func tokBytes(toks []int) []byte {
	out := make([]byte, len(toks))
	for i, t := range toks {
		k, pos := t/100, t%100
		switch k {
		case kORD:
			if pos <= 26 {
				out[i] = byte('A' + pos - 1)
			} else {
				out[i] = byte('a' + (pos-27)%26)
			}
		case kNL:
			out[i] = '\n'
		case kSP:
			out[i] = ' '
		case kCR:
			out[i] = '\r'
		case kLEAD:
			out[i] = 0xE2
		case kCONT:
			if i > 0 && toks[i-1]/100 == kLEAD {
				out[i] = 0x82
			} else {
				out[i] = 0xAC
			}
		case kBAD:
			out[i] = 0xFF
		}
	}
	return out
}

// mk numbers the bytes of a piece (kinds) behind `base` bytes already in the stream (Mk of the spec).
func mk(kinds []int, base int) []int {
	out := make([]int, len(kinds))
	for i, k := range kinds {
		out[i] = k*100 + base + i + 1
	}
	return out
}

// aligner maps received bytes back to the tokens of the stream they were cut from: forward
// alignment (ordinary bytes are unique; a byte that is not in the rest of the stream is foreign).
type aligner struct {
	toks  []int
	bytes []byte
	cur   int
}

func (a *aligner) extend(toks []int) {
	// bytes of continuation tokens depend on their left neighbour in the whole stream
	a.toks = append(a.toks, toks...)
	a.bytes = tokBytes(a.toks)
}

func (a *aligner) decode(p []byte) []int {
	out := make([]int, 0, len(p))
	for _, b := range p {
		found := -1
		for j := a.cur; j < len(a.bytes); j++ {
			if a.bytes[j] == b {
				found = j
				break
			}
		}
		if found < 0 {
			out = append(out, 9000+int(b))
			continue
		}
		out = append(out, a.toks[found])
		a.cur = found + 1
	}
	return out
}

// ---------------------------------------------------------------- sites

type siteKey struct {
	typ   string
	buf   int
	cmdok bool
}

type siteT struct {
	site *hx.Site
	addr string
	port int
	once sync.Once
}

// stop shuts the site down once (a script may have stopped it already).
func (s *siteT) stop() { s.once.Do(s.site.Stop) }

type world struct {
	t       testing.TB
	dir     string
	side    *sideServer
	mu      sync.Mutex
	sites   map[siteKey]*siteT
	startMu sync.Mutex
}

func (w *world) casketfile(port int, k siteKey) string {
	bin := os.Args[0]
	if !k.cmdok {
		bin = filepath.Join(w.dir, "no-such-command")
	}
	block := fmt.Sprintf("{\n\t\ttype %s\n", k.typ)
	if k.buf != 0 {
		block += fmt.Sprintf("\t\tbufsize %d\n", k.buf)
	}
	block += "\t}"
	var b strings.Builder
	fmt.Fprintf(&b, ":%d {\n\tbind 127.0.0.1\n\ttls off\n\troot %s\n\tverifwsouter\n\tverifwsinner\n", port, w.dir)
	fmt.Fprintf(&b, "\twebsocket /d \"%s wsbridge-child %s A 'x y' z\\ w\" %s\n", bin, w.side.Path, block)
	fmt.Fprintf(&b, "\twebsocket /d/g \"%s wsbridge-child %s B\" %s\n", bin, w.side.Path, block)
	b.WriteString("}\n")
	return b.String()
}

func (w *world) start(k siteKey) (*siteT, error) {
	var err error
	for try := 0; try < 3; try++ {
		port := hx.FreePort()
		w.startMu.Lock()
		var s *hx.Site
		s, err = hx.StartHTTP(w.casketfile(port, k), "")
		w.startMu.Unlock()
		if err == nil {
			return &siteT{site: s, addr: fmt.Sprintf("127.0.0.1:%d", port), port: port}, nil
		}
		if !strings.Contains(err.Error(), "address already in use") {
			break
		}
	}
	return nil, err
}

// shared returns the site all exchanges of one configuration use (several at a time).
func (w *world) shared(k siteKey) (*siteT, error) {
	w.mu.Lock()
	defer w.mu.Unlock()
	if s, ok := w.sites[k]; ok {
		return s, nil
	}
	s, err := w.start(k)
	if err != nil {
		return nil, err
	}
	w.sites[k] = s
	return s, nil
}

func (w *world) stopAll() {
	w.mu.Lock()
	defer w.mu.Unlock()
	for _, s := range w.sites {
		s.stop()
	}
	w.sites = map[siteKey]*siteT{}
}

// ---------------------------------------------------------------- one exchange

type outcome struct {
	events  []event
	clause  string // "" = the exchange agrees with the specification
	what    string
	infra   string
	skipped bool
	obs     seenT
	want    seenT
	at      int // step at which the disagreement was seen (len(steps) = final)
	hello   *sideMsg
	notes   map[string]int
	nalts   int
	final   seenT
	drift   bool // agrees with the statement, not with the operational model: counted, no trace
}

var pathText = map[string]string{"in": "/d/g/x", "glued": "/dx", "case": "/D/g", "other": "/nx/y"}

var extraHdr = map[string][]string{
	"X-Token":     {"X-Token: tok en=1"},
	"Proxy":       {"Proxy: http://proxy.invalid:3128"},
	"X-Multi":     {"X-Multi: a", "X-Multi: b"},
	"X-Dash-Name": {"X-Dash-Name: d-v"},
}

type runner struct {
	w     *world
	alts  []wcase // scripts with the same steps whose observations differ (races inside the model: all are accepted)
	live  []int   // the alternatives that still agree with what was observed
	c     *wcase
	st    *siteT
	ex    *exchange
	cl    *wsClient
	rnd   *rand.Rand
	sent  []string // header lines as sent (for the env / the inner comparison)
	uri   string
	host  string
	meth  string
	key   string
	cgone bool // the client has ended the connection itself (guarded by ex.mu)

	inAl, outAl aligner // stdin stream as it should arrive / stdout stream as written
	nin, nout   int     // bytes the client sent / the command wrote so far
}

func closeWhy(reason string) string {
	switch reason {
	case "EOF":
		return "EOF"
	case "bufio.Scanner: token too long":
		return "toolong"
	}
	return reason
}

// observe computes what the outside has seen so far (ex.mu held).
func (r *runner) observe() seenT {
	o := seenT{Frames: []frameT{}, Stdin: []int{}, Sigs: []string{}, Ch: "none", Rst: -1}
	inAl := aligner{toks: r.inAl.toks, bytes: r.inAl.bytes}
	outAl := aligner{toks: r.outAl.toks, bytes: r.outAl.bytes}
	for _, e := range r.ex.events {
		switch e["ev"] {
		case "chead":
			o.Head = e["st"].(int)
		case "inner":
			o.Passed = true
		case "spawn":
			o.Spawns++
			o.Ch = "run"
		case "pgone":
			o.Ch = "gone"
		case "frame":
			o.Frames = append(o.Frames, frameT{K: e["k"].(string), P: outAl.decode(e["raw"].([]byte))})
		case "cframe":
			o.Cclose = closeT{Code: e["code"].(int), Why: e["why"].(string)}
		case "ceof":
			o.Ceof = true
		case "stdin":
			o.Stdin = append(o.Stdin, inAl.decode(e["b"].([]byte))...)
		case "stdineof":
			o.Seof = true
		case "sig":
			o.Sigs = append(o.Sigs, e["s"].(string))
		case "ret":
			o.Ret = true
			o.Rst = e["st"].(int)
		}
	}
	return o
}

func normSeen(s seenT) seenT {
	if s.Frames == nil {
		s.Frames = []frameT{}
	}
	for i := range s.Frames {
		if s.Frames[i].P == nil {
			s.Frames[i].P = []int{}
		}
	}
	if s.Stdin == nil {
		s.Stdin = []int{}
	}
	if s.Sigs == nil {
		s.Sigs = []string{}
	}
	return s
}

// diff names the first clause in which the observation differs from the expectation.
func diff(o, w seenT) string {
	switch {
	case o.Head != w.Head:
		return "head"
	case o.Passed != w.Passed:
		return "next-handler"
	case o.Spawns != w.Spawns:
		return "spawn"
	case !reflect.DeepEqual(o.Frames, w.Frames):
		return "frames"
	case o.Cclose != w.Cclose:
		return "close-code"
	case o.Ceof != w.Ceof:
		return "end-of-stream"
	case !reflect.DeepEqual(o.Stdin, w.Stdin):
		return "stdin"
	case o.Seof != w.Seof:
		return "stdin-eof"
	case !reflect.DeepEqual(o.Sigs, w.Sigs):
		return "signals"
	case o.Ch != w.Ch:
		return "process"
	case o.Ret != w.Ret:
		return "returned"
	case o.Rst != w.Rst:
		return "status"
	}
	return ""
}

// await waits until the observation equals what one of the live alternatives says for step i
// (len(steps) = final); the alternatives that do not agree then are dropped. Returns the last
// observation and, on failure, the clause in which it differs from the first live alternative.
func (r *runner) await(i int) (seenT, seenT, string) {
	wantOf := func(j int) seenT {
		if i < len(r.alts[j].Steps) {
			return normSeen(r.alts[j].Steps[i].Seen)
		}
		return normSeen(r.alts[j].Final)
	}
	var last seenT
	var keep []int
	ok := r.ex.wait(patience, func() bool {
		last = r.observe()
		keep = keep[:0]
		for _, j := range r.live {
			if diff(last, wantOf(j)) == "" {
				keep = append(keep, j)
			}
		}
		return len(keep) > 0
	})
	if ok {
		r.live = append([]int{}, keep...)
		return last, wantOf(r.live[0]), ""
	}
	return last, wantOf(r.live[0]), diff(last, wantOf(r.live[0]))
}

func (r *runner) child() *childLink {
	r.ex.mu.Lock()
	defer r.ex.mu.Unlock()
	if len(r.ex.children) == 0 {
		return nil
	}
	return r.ex.children[0]
}

func (r *runner) reader() {
	for {
		f, err := r.cl.readFrame()
		r.ex.mu.Lock()
		if r.cgone {
			r.ex.mu.Unlock()
			return
		}
		if err != nil {
			how := "fin"
			if !strings.Contains(err.Error(), "EOF") {
				how = "reset"
			}
			r.ex.logLocked(event{"ev": "ceof", "how": how, "err": err.Error()})
			r.ex.mu.Unlock()
			return
		}
		switch f.Op {
		case opText, opBin:
			k := "text"
			if f.Op == opBin {
				k = "bin"
			}
			r.ex.logLocked(event{"ev": "frame", "k": k, "raw": f.Payload, "fin": f.Fin})
		case opClose:
			code, why := 0, ""
			if len(f.Payload) >= 2 {
				code = int(f.Payload[0])<<8 | int(f.Payload[1])
				why = closeWhy(string(f.Payload[2:]))
			}
			r.ex.logLocked(event{"ev": "cframe", "code": code, "why": why})
		case opPing:
			r.ex.logLocked(event{"ev": "ping"})
		default:
			r.ex.logLocked(event{"ev": "oddframe", "op": f.Op})
		}
		r.ex.mu.Unlock()
	}
}

// doReq dials, registers the exchange and performs the handshake.
func (r *runner) doReq() string {
	c := r.c
	cl, err := dialWS(r.st.addr)
	if err != nil {
		return "dial: " + err.Error()
	}
	r.cl = cl
	mode := c.Mode
	r.ex = newExchange(cl.localPort(), mode == "ign" || mode == "ignx", mode == "eofx" || mode == "ignx")
	r.uri = pathText[c.Rpath] + "?xport=" + cl.localPort() + "&q=a%20b"
	switch c.Rhost {
	case "name":
		r.host = siteHost
	case "nameport":
		r.host = fmt.Sprintf("%s:%d", siteHost, r.st.port)
	case "v6port":
		r.host = fmt.Sprintf("[::1]:%d", r.st.port)
	}
	var extra []string
	hs := []string{}
	for _, h := range c.Rhdrs {
		if lines, ok := extraHdr[h]; ok {
			extra = append(extra, lines...)
			hs = append(hs, h)
		}
	}
	sort.Strings(hs)
	text, _ := handshakeText(c.Rk, r.uri, r.host, extra)
	r.meth = strings.SplitN(text, " ", 2)[0]
	r.ex.log(event{"ev": "creq", "k": c.Rk, "p": c.Rpath, "h": c.Rhost, "hs": hs})
	resp, body, err := cl.handshake(c.Rk, r.uri, r.host, extra)
	if err != nil {
		return "handshake: " + err.Error()
	}
	// the header lines as they went out (handshake() generated a fresh key: read it back)
	r.sent = nil
	t2, _ := handshakeText(c.Rk, r.uri, r.host, extra)
	for _, ln := range strings.Split(t2, "\r\n")[1:] {
		if ln != "" {
			r.sent = append(r.sent, ln)
		}
	}
	for i, ln := range r.sent {
		if strings.HasPrefix(ln, "Sec-WebSocket-Key: ") {
			r.sent[i] = "Sec-WebSocket-Key: " + cl.key
		}
	}
	r.ex.mu.Lock()
	r.ex.logLocked(event{"ev": "chead", "st": resp.StatusCode})
	if resp.StatusCode == 101 {
		if resp.Header.Get("Sec-Websocket-Accept") != acceptFor(cl.key) || !strings.EqualFold(resp.Header.Get("Upgrade"), "websocket") {
			r.ex.logLocked(event{"ev": "badaccept"})
		}
	} else if resp.Header.Get("X-Inner") == "1" {
		var seen innerSeen
		same := json.Unmarshal(body, &seen) == nil && r.sameRequest(seen)
		r.ex.logLocked(event{"ev": "inner", "same": same, "seen": string(body)})
	}
	r.ex.mu.Unlock()
	if resp.StatusCode == 101 {
		go r.reader()
	}
	return ""
}

// sentHeaders: canonical name -> values, from the lines the client wrote (without Host).
func (r *runner) sentHeaders() map[string][]string {
	out := map[string][]string{}
	for _, ln := range r.sent {
		i := strings.Index(ln, ": ")
		name := strings.ToLower(ln[:i])
		if name == "host" {
			continue
		}
		out[name] = append(out[name], ln[i+2:])
	}
	return out
}

func (r *runner) sameRequest(s innerSeen) bool {
	if s.Method != r.meth || s.URI != r.uri || s.Host != r.host || portOf(s.Remote) != r.cl.localPort() {
		return false
	}
	want := r.sentHeaders()
	got := map[string][]string{}
	for k, v := range s.Header {
		got[strings.ToLower(k)] = v
	}
	return reflect.DeepEqual(want, got)
}

// wantEnv resolves the symbolic environment of the specification against this exchange.
func (r *runner) wantEnv() []string {
	hdr := r.sentHeaders()
	var out []string
	for _, p := range r.c.Env {
		name, sym := p[0], p[1]
		val := ""
		switch {
		case sym == "":
		case sym == "$gateway":
			val = casket.AppName + "-CGI/1.1"
		case sym == "$software":
			val = casket.AppName + "/" + casket.AppVersion
		case sym == "$query":
			val = r.uri[strings.Index(r.uri, "?")+1:]
		case sym == "$peerhost":
			val = "127.0.0.1"
		case sym == "$peerport":
			val = r.cl.localPort()
		case sym == "$method":
			val = r.meth
		case sym == "$uri":
			val = r.uri
		case sym == "$cmdpath":
			val = os.Args[0]
		case sym == "$hostname":
			val = siteHost
			if r.c.Rhost == "v6port" {
				val = "::1"
			}
		case sym == "$hostport":
			val = fmt.Sprint(r.st.port)
		case sym == "$proto":
			val = "HTTP/1.1"
		case strings.HasPrefix(sym, "$h:"):
			val = strings.Join(hdr[strings.ToLower(sym[3:])], ", ")
		default:
			val = "?unknown symbol " + sym
		}
		out = append(out, name+"="+val)
	}
	sort.Strings(out)
	return out
}

// checkChild judges what the command reported about itself; returns the spawn trace event.
func (r *runner) checkChild(h *sideMsg, out *outcome) event {
	want := r.wantEnv()
	got := append([]string{}, h.Env...)
	sort.Strings(got)
	var names []string
	for _, kv := range got {
		names = append(names, strings.SplitN(kv, "=", 2)[0])
	}
	valsok := reflect.DeepEqual(want, got)
	if !valsok && out.clause == "" {
		var miss, extra []string
		ws, gs := map[string]bool{}, map[string]bool{}
		for _, x := range want {
			ws[x] = true
		}
		for _, x := range got {
			gs[x] = true
			if !ws[x] {
				extra = append(extra, x)
			}
		}
		for _, x := range want {
			if !gs[x] {
				miss = append(miss, x)
			}
		}
		out.clause, out.what = "env", fmt.Sprintf("the command's environment differs from the documented variables computed from the request: missing %q, unexpected %q", miss, extra)
	}
	sel := 0
	var wantArgv []string
	if len(h.Argv) > 3 {
		switch h.Argv[3] {
		case "A":
			sel, wantArgv = 1, []string{os.Args[0], "wsbridge-child", r.w.side.Path, "A", "x y", "z w"}
		case "B":
			sel, wantArgv = 2, []string{os.Args[0], "wsbridge-child", r.w.side.Path, "B"}
		}
	}
	argvok := reflect.DeepEqual(h.Argv, wantArgv)
	if (!argvok || sel != r.c.Sel) && out.clause == "" {
		out.clause, out.what = "argv", fmt.Sprintf("the command was started as %q; entry %d of the site gives %q", h.Argv, r.c.Sel, wantArgv)
	}
	for fd, target := range h.Fds {
		ok := true
		switch fd {
		case "0", "1":
			ok = strings.HasPrefix(target, "pipe:")
		case "2":
			ok = target == "/dev/null"
		default:
			ok = strings.HasPrefix(target, "anon_inode:") // the Go runtime's own epoll / eventfd
		}
		if !ok && out.clause == "" {
			out.clause, out.what = "child-fds", fmt.Sprintf("descriptor %s of the command is %s (descriptors: %v)", fd, target, h.Fds)
		}
	}
	return event{"ev": "spawn", "names": names, "valsok": valsok, "argvok": argvok, "sel": sel}
}

func (r *runner) fail(out *outcome, at int, clause string, obs, want seenT) {
	out.clause, out.at, out.obs, out.want = clause, at, obs, normSeen(want)
	out.nalts = len(r.live)
	step := "at the end"
	if at < len(r.c.Steps) {
		step = fmt.Sprintf("before step %d (%s)", at+1, r.c.Steps[at].A)
	}
	out.what = fmt.Sprintf("%s %s: observed %s, the specification gives %s", clause, step, brief(obs), brief(normSeen(want)))
	if len(r.live) > 1 {
		out.what += fmt.Sprintf(" (or one of %d other outcomes of the same steps, none of which was observed)", len(r.live)-1)
	}
}

func brief(s seenT) string {
	extra := ""
	if len(s.Frames) > 12 {
		extra = fmt.Sprintf(" (+%d more frames)", len(s.Frames)-12)
		s.Frames = s.Frames[:12]
	}
	b, _ := json.Marshal(s)
	return string(b) + extra
}

// short cuts an observation down to what a report can carry.
func short(s seenT) seenT {
	if len(s.Frames) > 40 {
		s.Frames = s.Frames[:40]
	}
	return s
}

// run executes one script (with its alternatives) on site st (nil: a private site, started and stopped here).
func (w *world) run(g *group, st *siteT, seed int64) (out outcome) {
	out.notes = map[string]int{}
	c := &g.alts[0]
	if len(c.Env) == 0 && c.Final.Spawns > 0 {
		if canonEnv == nil {
			out.infra = "no request-scope script to take the environment of the standard request from"
			return
		}
		for j := range g.alts {
			g.alts[j].Env = canonEnv // (a replay file then carries it)
		}
	}
	r := &runner{w: w, c: c, alts: g.alts, st: st, rnd: rand.New(rand.NewSource(seed)), key: c.key()}
	for j := range g.alts {
		r.live = append(r.live, j)
	}
	if st == nil {
		s, err := w.start(siteKey{c.Type, c.Buf, c.Cmdok})
		if err != nil {
			out.infra = "casket.Start: " + err.Error()
			return
		}
		r.st = s
		defer s.stop()
	}
	defer func() {
		if r.ex != nil {
			r.ex.mu.Lock()
			r.cgone = true
			r.ex.mu.Unlock()
			out.events = r.ex.snapshot()
			r.ex.release()
		}
		if r.cl != nil {
			r.cl.closeRST()
		}
	}()
	spawnChecked := false
	for i := 0; i <= len(c.Steps); i++ {
		if r.ex != nil {
			obs, want, d := r.await(i)
			if d != "" && c.Scope == "req" && c.Sel != 0 && want.Head != 101 && want.Head != 0 && obs.Spawns == 0 && obs.Head == 200 && obs.Passed {
				// the code answers a request inside a websocket path that is no handshake itself (400 / 405);
				// handing it to the next handler untouched instead is as good: nothing says which
				out.notes["non-handshake-passed-on-instead-of-refused"]++
				out.drift = true
				return
			}
			if d != "" {
				r.fail(&out, i, d, obs, want)
				return
			}
			if !spawnChecked && want.Spawns > 0 {
				spawnChecked = true
				h := r.child().hello
				out.hello = &h
				ev := r.checkChild(&h, &out)
				// the spawn event carries the verdict on environment and arguments
				r.ex.mu.Lock()
				for _, e := range r.ex.events {
					if e["ev"] == "spawn" {
						for k, v := range ev {
							e[k] = v
						}
					}
				}
				r.ex.mu.Unlock()
				if out.clause != "" {
					out.at = i
					return
				}
			}
		}
		if i == len(c.Steps) {
			break
		}
		s := c.Steps[i]
		switch s.A {
		case "req":
			if e := r.doReq(); e != "" {
				out.infra = e
				return
			}
		case "csend":
			toks := mk(s.Arg, r.nin)
			r.nin += len(toks)
			arrive := append([]int{}, toks...)
			if c.Type == "lines" {
				arrive = append(arrive, kNL*100)
			}
			r.ex.mu.Lock()
			r.inAl.extend(arrive)
			r.ex.logLocked(event{"ev": "csend", "ids": toks})
			r.ex.mu.Unlock()
			op := opText
			if r.rnd.Intn(2) == 0 {
				op = opBin
			}
			r.cl.writeFrame(op, tokBytes(toks))
		case "cclose":
			r.ex.log(event{"ev": "cclose"})
			r.cl.writeClose(1000, "")
		case "cdrop":
			r.ex.mu.Lock()
			r.ex.logLocked(event{"ev": "cdrop", "how": s.K})
			r.cgone = true
			r.ex.mu.Unlock()
			if s.K == "rst" {
				r.cl.closeRST()
			} else {
				r.cl.closeFIN()
			}
		case "pwrite", "pwriteexit":
			ch := r.child()
			if ch == nil {
				out.infra = "script step " + s.A + " without a command"
				return
			}
			toks := mk(s.Arg, r.nout)
			r.nout += len(toks)
			r.ex.mu.Lock()
			r.outAl.extend(toks)
			r.ex.logLocked(event{"ev": "pwrite", "ids": toks})
			r.ex.mu.Unlock()
			ch.send(sideMsg{Op: "write", B: tokBytes(r.outAl.toks)[len(r.outAl.toks)-len(toks):]})
			if s.A == "pwriteexit" {
				ch.send(sideMsg{Op: "exit", Code: 3 * r.rnd.Intn(2)})
			}
		case "pcloseout":
			ch := r.child()
			if ch == nil {
				out.infra = "script step pcloseout without a command"
				return
			}
			r.ex.log(event{"ev": "pcloseout"})
			ch.send(sideMsg{Op: "closeout"})
		case "pexit":
			ch := r.child()
			if ch == nil {
				out.infra = "script step pexit without a command"
				return
			}
			ch.send(sideMsg{Op: "exit", Code: 3 * r.rnd.Intn(2)}) // (the command announces its exit: logged then)
		case "stop":
			r.ex.log(event{"ev": "stop"})
			r.st.stop()
		default:
			out.infra = "unknown step " + s.A
			return
		}
	}
	// everything expected has been seen: the process must be gone from the process table
	out.final = r.alts[r.live[0]].Final
	if c.Final.Ret && c.Final.Spawns > 0 {
		pid := r.child().hello.Pid
		state := "?"
		for t0 := time.Now(); time.Since(t0) < time.Second; time.Sleep(2 * time.Millisecond) {
			if state = procState(pid); state == "" {
				break
			}
		}
		if state == "" {
			r.ex.log(event{"ev": "reaped"})
		} else {
			r.ex.log(event{"ev": "unreaped", "state": state})
			out.clause, out.at = "not-reaped", len(c.Steps)
			out.what = fmt.Sprintf("serveWS has returned but the command (pid %d) is still in the process table, state %s", pid, state)
			return
		}
	}
	r.ex.log(event{"ev": "quiet"})
	for _, e := range r.ex.snapshot() {
		switch e["ev"] {
		case "badaccept":
			if out.clause == "" {
				out.clause, out.what = "handshake-answer", "the 101 answer does not carry the Sec-WebSocket-Accept of the key sent / Upgrade: websocket"
			}
		case "oddframe", "ping":
			out.notes[e["ev"].(string)]++
		case "ret":
			if e["host"] != e["host0"] {
				out.notes["request-host-changed-in-place"]++
			}
		case "frame":
			if e["k"] == "text" && !validUTF8(e["raw"].([]byte)) {
				out.notes["text-frame-not-utf8"]++
			}
			if e["fin"] == false {
				out.notes["fragmented-frame"]++
			}
		}
	}
	return
}

func validUTF8(b []byte) bool { return strings.ToValidUTF8(string(b), "�") == string(b) }

// ---------------------------------------------------------------- trace

// traceEvents turns the recorded events into the events of WsBridgeTrace.tla.
func traceEvents(c *wcase, evs []event) []event {
	out := []event{{"ev": "script", "key": c.key(), "scope": c.Scope, "type": c.Type, "buf": c.Buf, "mode": c.Mode, "cmdok": c.Cmdok}}
	inAl, outAl := aligner{}, aligner{}
	for _, e := range evs {
		switch e["ev"] {
		case "csend":
			toks := e["ids"].([]int)
			arrive := append([]int{}, toks...)
			if c.Type == "lines" {
				arrive = append(arrive, kNL*100)
			}
			inAl.extend(arrive)
			out = append(out, event{"ev": "csend", "ids": toks})
		case "pwrite":
			outAl.extend(e["ids"].([]int))
			out = append(out, event{"ev": "pwrite", "ids": e["ids"]})
		case "frame":
			out = append(out, event{"ev": "frame", "k": e["k"], "ids": outAl.decode(e["raw"].([]byte))})
		case "stdin":
			out = append(out, event{"ev": "stdin", "ids": inAl.decode(e["b"].([]byte))})
		case "inner":
			out = append(out, event{"ev": "inner", "same": e["same"]})
		case "ceof":
			out = append(out, event{"ev": "ceof", "how": e["how"]})
		case "ret":
			out = append(out, event{"ev": "ret", "st": e["st"]})
		case "spawn":
			if _, ok := e["names"]; !ok {
				out = append(out, event{"ev": "spawn", "names": []string{}, "valsok": false, "argvok": false, "sel": 0})
			} else {
				out = append(out, event{"ev": "spawn", "names": e["names"], "valsok": e["valsok"], "argvok": e["argvok"], "sel": e["sel"]})
			}
		case "creq", "chead", "cclose", "cdrop", "pcloseout", "pexit", "sig", "stdineof", "pgone", "cframe", "reaped", "stop", "quiet":
			out = append(out, e)
		}
	}
	return out
}

// ---------------------------------------------------------------- the test

func TestCx13WsBridge(t *testing.T) {
	hx.Quiet()
	res := hx.NewResult("TestCx13WsBridge", "one case = one script of WsBridge.tla at the sync grain (configuration type x bufsize x reaction of the command to SIGINT / end of stdin; request kind x path x Host form x extra headers; then messages of the client, writes of the command, close frame / FIN / RST, closed stdout, exit, Server.Stop) run against a casket site whose websocket command is the test binary in child mode and a raw RFC 6455 client; before every step the observation (frames, close code, end of stream, stdin bytes, signals, process, serveWS returned) must equal the specification's; environment, arguments and descriptors of the command are compared; every exchange is validated by TLC against WsBridgeTrace.tla; non-trivial = every bridged script, request shapes by kind and path")
	defer res.Write(t)

	dir, err := os.MkdirTemp(hx.Scratch(t), "cx13ws_")
	if err != nil {
		t.Fatal(err)
	}
	defer os.RemoveAll(dir)
	os.Setenv("VERIF_WS_SECRET", "the-server's-own-environment") // must not reach the command
	side, err := startSide(dir)
	if err != nil {
		res.Infra = "side channel: " + err.Error()
		return
	}
	defer side.Close()
	w := &world{t: t, dir: dir, side: side, sites: map[siteKey]*siteT{}}
	defer w.stopAll()

	var cases []*group
	var replayFree *freeCase
	if rp := hx.Replay(); rp != "" {
		if !filepath.IsAbs(rp) {
			if _, err := os.Stat(rp); err != nil {
				rp = filepath.Join("..", "..", rp)
			}
		}
		b, _ := os.ReadFile(rp)
		var rf struct {
			Key  string `json:"key"`
			Case struct {
				Ws      []wcase   `json:"ws"`
				WsSetup *scase    `json:"wssetup"`
				WsFree  *freeCase `json:"wsfree"`
			} `json:"case"`
		}
		if json.Unmarshal(b, &rf) == nil && strings.HasPrefix(rf.Key, "C13/wsbridge-setup/") && rf.Case.WsSetup != nil {
			setupPhase(t, res, dir, rf.Case.WsSetup)
			res.Replayed = res.Evaluations
			return
		}
		if json.Unmarshal(b, &rf) != nil || !strings.HasPrefix(rf.Key, "C13/wsbridge/") || (len(rf.Case.Ws) == 0 && rf.Case.WsFree == nil) {
			return // a replay file of another part of C13
		}
		if rf.Case.WsFree != nil {
			replayFree = rf.Case.WsFree
			canonEnv = rf.Case.WsFree.Env
		} else {
			cases = []*group{{key: rf.Case.Ws[0].key(), alts: rf.Case.Ws}}
		}
	} else {
		all := hx.LoadCases[wcase](t, "WsBridge")
		res.AddExtra("scripts_from_tlc", len(all))
		rnd := hx.Rand()
		nreq, nbr := 30, 100
		if hx.Thorough() {
			nreq, nbr = 300, 1000
		}
		var req, br []*group
		for _, g := range groupCases(all) {
			c := &g.alts[0]
			if canonEnv == nil && c.Scope == "req" && c.Rk == "ws" && c.Rhost == "name" && len(c.Rhdrs) == 4 && len(c.Env) > 0 {
				canonEnv = c.Env
			}
			if len(c.Steps) == 0 || c.Steps[0].A != "req" {
				continue // a script that only stops the server
			}
			if c.Scope == "req" {
				req = append(req, g)
			} else {
				br = append(br, g)
			}
		}
		res.AddExtra("distinct_scripts", len(req)+len(br))
		for _, i := range hx.SampleIdx(rnd, len(req), nreq) {
			cases = append(cases, req[i])
		}
		for _, i := range hx.SampleIdx(rnd, len(br), nbr) {
			cases = append(cases, br[i])
		}
	}

	corrupted := map[int]bool{}
	if hx.SelfTest() {
		// take the last frame / the interrupt out of some expectations: must be noticed
		n := 0
		for i, g := range cases {
			if n >= 6 || len(g.alts) != 1 || g.alts[0].Scope != "bridge" {
				continue
			}
			c := &g.alts[0]
			if len(c.Final.Frames) > 0 {
				c.Final.Frames = append([]frameT{}, c.Final.Frames[:len(c.Final.Frames)-1]...)
				corrupted[i] = true
				n++
			} else if len(c.Final.Sigs) > 0 {
				c.Final.Sigs = nil
				corrupted[i] = true
				n++
			}
		}
	}

	goBase, _ := wsGoroutines()
	pipeBase := pipeFds()

	outs := make([]outcome, len(cases))
	var mu sync.Mutex
	failing, reruns := 0, 0
	var rerunWhy []string
	var wg sync.WaitGroup
	sem := make(chan struct{}, 12)
	for i := range cases {
		wg.Add(1)
		sem <- struct{}{}
		go func(i int) {
			defer wg.Done()
			defer func() { <-sem }()
			g := cases[i]
			c := &g.alts[0]
			mu.Lock()
			settled := failing >= 10 && !hx.SelfTest()
			mu.Unlock()
			if settled {
				outs[i] = outcome{skipped: true}
				return
			}
			var st *siteT
			if !c.hasStop() {
				s, err := w.shared(siteKey{c.Type, c.Buf, c.Cmdok})
				if err != nil && !c.Cmdok {
					// a command that does not exist is refused when the first connection arrives; refusing
					// the site at load time instead would be as good: these scripts then have nothing to say
					outs[i] = outcome{skipped: true, notes: map[string]int{"missing-command-refused-at-load": 1}}
					return
				}
				if err != nil {
					outs[i] = outcome{infra: "casket.Start: " + err.Error()}
					return
				}
				st = s
			}
			o := w.run(g, st, hx.Seed()*7919+int64(i))
			if o.infra == "" && o.clause != "" && !corrupted[i] {
				// a disagreement is reproduced on a site of its own before it is reported
				mu.Lock()
				reruns++
				if len(rerunWhy) < 12 {
					rerunWhy = append(rerunWhy, o.clause+" "+c.key())
				}
				mu.Unlock()
				o2 := w.run(g, nil, hx.Seed()*7919+int64(i))
				if o2.infra == "" && o2.clause != "" && o2.clause != o.clause {
					o2.what = o.what + " | second run: " + o2.what
				}
				o = o2
			}
			if o.clause != "" {
				mu.Lock()
				failing++
				mu.Unlock()
			}
			outs[i] = o
		}(i)
	}
	wg.Wait()
	res.AddExtra("reruns", reruns)
	if len(rerunWhy) > 0 {
		res.AddExtra("first_runs_that_disagreed", rerunWhy)
	}

	// free runs (both ends act without waiting; judged by TLC on the trace)
	var frees []freeCase
	if rf := replayFree; rf != nil {
		frees = []freeCase{*rf}
	} else if hx.Replay() == "" {
		nfree := 10
		if hx.Thorough() {
			nfree = 120
		}
		frees = genFree(rand.New(rand.NewSource(hx.Seed()*31+7)), nfree)
	}
	fouts := make([]outcome, len(frees))
	for i := range frees {
		wg.Add(1)
		sem <- struct{}{}
		go func(i int) {
			defer wg.Done()
			defer func() { <-sem }()
			f := &frees[i]
			st, err := w.shared(siteKey{f.Type, f.Buf, true})
			if err != nil {
				fouts[i] = outcome{infra: "casket.Start: " + err.Error()}
				return
			}
			o := w.runFree(f, st)
			if o.infra == "" && o.clause != "" {
				o2 := w.runFree(f, st)
				if o2.infra == "" && o2.clause != "" && o2.clause != o.clause {
					o2.what = o.what + " | second run: " + o2.what
				}
				o = o2
			}
			fouts[i] = o
		}(i)
	}
	wg.Wait()
	if hx.Replay() == "" {
		setupPhase(t, res, dir, nil)
		// recorded, not judged: what a handshake from another origin gets (101 = any Origin is accepted)
		if st, err := w.shared(siteKey{"lines", 0, true}); err == nil {
			if cl, err := dialWS(st.addr); err == nil {
				ex := newExchange(cl.localPort(), false, false)
				if resp, _, err := cl.handshake("wsorigin", "/d/g?xport="+cl.localPort(), siteHost, nil); err == nil {
					res.AddExtra("handshake_with_foreign_origin_status", resp.StatusCode)
				}
				cl.closeRST()
				ex.wait(patience, func() bool { return countEv(ex.events, "ret") > 0 })
				ex.release()
			}
		}
	}

	// census: nothing of the websocket package is running any more, no pipe is left
	gLeft, which := 0, []string(nil)
	pLeft := 0
	for t0 := time.Now(); time.Since(t0) < 3*time.Second; time.Sleep(20 * time.Millisecond) {
		gLeft, which = wsGoroutines()
		pLeft = pipeFds() - pipeBase
		if gLeft <= goBase && pLeft <= 0 {
			break
		}
	}
	res.AddExtra("census", map[string]interface{}{"goroutines_in_websocket_package": gLeft, "pipes_left": pLeft})

	tw := hx.NewTrace(t, "wsbridge.ndjson")
	ntraces, noticed := 0, 0
	notes := map[string]int{}
	var firstTrace []event
	var firstCase *wcase
	anyFail := false
	for i := range cases {
		g, o := cases[i], outs[i]
		c := &g.alts[0]
		if o.skipped {
			for k, v := range o.notes {
				notes[k] += v
			}
			continue
		}
		if o.infra != "" {
			if res.Infra == "" {
				res.Infra = "cx13wsbridge " + c.key() + ": " + o.infra
			}
			continue
		}
		res.Count(c.nontrivial())
		for k, v := range o.notes {
			notes[k] += v
		}
		if o.clause != "" {
			if corrupted[i] {
				noticed++
				continue
			}
			anyFail = true
			res.Add(hx.Mismatch{Key: "C13/wsbridge/" + o.clause + "/" + c.key(), What: o.what, Case: map[string]interface{}{"ws": g.alts},
				Expected: o.want, Observed: map[string]interface{}{"seen": short(o.obs), "events": showEvents(o.events, 60)}})
			continue // (the trace of an exchange that is reported is not handed on)
		}
		if corrupted[i] || o.drift {
			continue
		}
		tev := traceEvents(c, o.events)
		for _, e := range tev {
			tw.Emit(e)
		}
		ntraces++
		if firstTrace == nil && c.Scope == "bridge" && len(o.final.Frames) > 0 && o.final.Spawns == 1 && o.final.Ch == "gone" {
			firstTrace, firstCase = tev, c
		}
		if i%97 == 0 {
			res.Sample(map[string]interface{}{"case": c.key(), "final": o.final, "trace": showEvents(tev, 40)})
		}
	}
	for i := range frees {
		f, o := &frees[i], fouts[i]
		if o.infra != "" {
			if res.Infra == "" {
				res.Infra = "cx13wsbridge " + f.key() + ": " + o.infra
			}
			continue
		}
		res.Count(f.key())
		if o.clause != "" {
			anyFail = true
			f.Env = canonEnv
			res.Add(hx.Mismatch{Key: "C13/wsbridge/" + o.clause + "/" + f.key(), What: o.what, Case: map[string]interface{}{"wsfree": f},
				Observed: map[string]interface{}{"events": showEvents(o.events, 80)}})
			continue
		}
		c := f.wcase()
		tev := traceEvents(c, o.events)
		tev[0]["key"] = f.key()
		for _, e := range tev {
			tw.Emit(e)
		}
		ntraces++
	}
	res.AddExtra("free_runs", len(frees))
	if b, err := os.ReadFile(filepath.Join(dir, "child.err")); err == nil && len(b) > 0 {
		// what commands said on their way out (exit 93 = the harness closed their side channel at the end of an exchange)
		var odd []string
		for _, ln := range strings.Split(string(b), "\n") {
			if ln != "" && !strings.Contains(ln, "exit 93") && len(odd) < 20 {
				odd = append(odd, ln)
			}
		}
		if len(odd) > 0 {
			res.AddExtra("child_stderr", odd)
		}
	}
	tw.Close()
	res.Replayed = res.Evaluations
	res.AddExtra("observed_not_judged", notes)
	if len(strays) > 0 {
		res.Add(hx.Mismatch{Key: "C13/wsbridge/spawn/stray-command", What: fmt.Sprintf("%d command(s) were started that belong to no connection of the harness (REMOTE_PORT / query unknown), e.g. %v", len(strays), strays[0].Env)})
	}
	if (gLeft > goBase || pLeft > 0) && !anyFail && !hx.SelfTest() {
		// reproduce in isolation: one more plain exchange, then count again
		probe := wcase{Scope: "bridge", Type: "lines", Mode: "dflt", Cmdok: true, Rk: "ws", Rpath: "in", Rhost: "name"}
		_ = probe
		res.Add(hx.Mismatch{Key: "C13/wsbridge/leak/at-rest", What: fmt.Sprintf("3 s after the last exchange %d goroutine(s) are still inside caskethttp/websocket (%v) and %d pipe descriptor(s) are left", gLeft-goBase, which, pLeft)})
	}
	if ntraces > 0 && !hx.SelfTest() {
		res.Traces = append(res.Traces, hx.TraceFile{Spec: "wsbridge", File: tw.Path, Count: ntraces})
	}

	if hx.SelfTest() {
		if noticed == 0 {
			res.Infra = "selftest: the corrupted expectations went unnoticed"
			return
		}
		res.Add(hx.Mismatch{Key: "C13/wsbridge/selftest/corrupted-expectation", What: fmt.Sprintf("selftest: %d corrupted expectations were noticed", noticed)})
		if firstTrace == nil {
			res.Infra = "selftest: no bridged trace with frames to corrupt"
			return
		}
		variants := []struct {
			name   string
			mutate func([]event) []event
			reject bool
		}{
			{"unchanged", func(e []event) []event { return e }, false},
			{"frame-twice", func(e []event) []event {
				var out []event
				dup := false
				for _, x := range e {
					out = append(out, x)
					if x["ev"] == "frame" && !dup {
						out = append(out, x)
						dup = true
					}
				}
				return out
			}, true},
			{"not-reaped", func(e []event) []event {
				var out []event
				for _, x := range e {
					if x["ev"] == "pgone" || x["ev"] == "pexit" || (x["ev"] == "sig") {
						continue // the command never ended ...
					}
					out = append(out, x) // ... and still serveWS returned and the harness says "reaped"
				}
				return out
			}, true},
		}
		for _, v := range variants {
			stw := hx.NewTrace(t, "wsbridge_selftest_"+v.name+".ndjson")
			for _, e := range v.mutate(firstTrace) {
				stw.Emit(e)
			}
			stw.Close()
			rc, tl := hx.RunTraceSpec(t, "WsBridgeTrace", "WsBridgeTrace.cfg", stw.Path)
			rejected := rc == 10 || rc == 12 || rc == 13
			switch {
			case rejected != v.reject:
				res.Infra = fmt.Sprintf("selftest: trace variant %q of %s: TLC exit %d (rejected=%v, expected %v): %s", v.name, firstCase.key(), rc, rejected, v.reject, tl)
				return
			case rejected:
				res.Add(hx.Mismatch{Key: "C13/wsbridge/selftest/" + v.name, What: fmt.Sprintf("selftest: the corrupted trace was rejected by WsBridgeTrace (TLC exit %d)", rc)})
			}
		}
	}
}

func showEvents(e []event, n int) []string {
	var out []string
	for i, x := range e {
		if i >= n {
			break
		}
		b, _ := json.Marshal(x)
		s := string(b)
		if len(s) > 300 {
			s = s[:300] + "..."
		}
		out = append(out, s)
	}
	return out
}
