package cx13wsbridge

// Fixture: two test-only directives around `websocket` (registered in this test binary only),
// the side-channel server the spawned children report to, and the per-exchange recorder.
//
//	verifwsouter  sits directly in front of `websocket`: reports when a request enters the
//	              directive and what ServeHTTP returned (status, error) - the only place where
//	              "serveWS has returned" can be seen from outside
//	verifwsinner  sits behind it: answers every request that `websocket` passes on with a JSON
//	              description of the request as it arrived (NonUpgradeUntouched)

import (
	"bytes"
	"encoding/json"
	"fmt"
	"net"
	"net/http"
	"os"
	"path/filepath"
	"runtime"
	"sort"
	"strconv"
	"strings"
	"sync"
	"time"

	"github.com/tmpim/casket"
	"github.com/tmpim/casket/caskethttp/httpserver"
)

func init() {
	if _, child := childMode(); child {
		return // the spawned child: its stdout is the bridge, RegisterDevDirective prints there
	}
	httpserver.RegisterDevDirective("verifwsouter", "websocket")
	casket.RegisterPlugin("verifwsouter", casket.Plugin{ServerType: "http", Action: func(c *casket.Controller) error {
		for c.Next() {
			c.RemainingArgs()
		}
		httpserver.GetConfig(c).AddMiddleware(func(next httpserver.Handler) httpserver.Handler { return outerHandler{next} })
		return nil
	}})
	httpserver.RegisterDevDirective("verifwsinner", "markdown")
	casket.RegisterPlugin("verifwsinner", casket.Plugin{ServerType: "http", Action: func(c *casket.Controller) error {
		for c.Next() {
			c.RemainingArgs()
		}
		httpserver.GetConfig(c).AddMiddleware(func(next httpserver.Handler) httpserver.Handler { return innerHandler{next} })
		return nil
	}})
}

type outerHandler struct{ next httpserver.Handler }

func portOf(addr string) string {
	_, p, err := net.SplitHostPort(addr)
	if err != nil {
		return addr
	}
	return p
}

func (h outerHandler) ServeHTTP(w http.ResponseWriter, r *http.Request) (int, error) {
	ex := lookupExchange(portOf(r.RemoteAddr))
	host0, remote0 := r.Host, r.RemoteAddr
	if ex != nil {
		ex.log(event{"ev": "enter"})
	}
	st, err := h.next.ServeHTTP(w, r)
	if ex != nil {
		e := event{"ev": "ret", "st": st, "err": "", "host": r.Host, "host0": host0, "remote": r.RemoteAddr, "remote0": remote0}
		if err != nil {
			e["err"] = err.Error()
		}
		ex.log(e)
	}
	return st, err
}

type innerHandler struct{ next httpserver.Handler }

type innerSeen struct {
	Method string      `json:"method"`
	URI    string      `json:"uri"`
	Path   string      `json:"path"`
	Host   string      `json:"host"`
	Remote string      `json:"remote"`
	Header http.Header `json:"header"`
}

func (h innerHandler) ServeHTTP(w http.ResponseWriter, r *http.Request) (int, error) {
	b, _ := json.Marshal(innerSeen{Method: r.Method, URI: r.RequestURI, Path: r.URL.Path, Host: r.Host, Remote: r.RemoteAddr, Header: r.Header})
	w.Header().Set("Content-Type", "application/json")
	w.Header().Set("X-Inner", "1")
	w.Header().Set("Content-Length", strconv.Itoa(len(b)))
	w.WriteHeader(200)
	w.Write(b)
	return 0, nil
}

// ---------------------------------------------------------------- recorder

type event map[string]interface{}

// exchange is one client connection and everything that happens around it.
type exchange struct {
	mu     sync.Mutex
	cond   *sync.Cond
	events []event
	port   string // the client's local port = REMOTE_PORT of the child = key of the exchange

	ignInt, eofExit bool
	children        []*childLink
	muted           bool // the harness has ended the exchange: nothing is logged any more
}

type childLink struct {
	hello sideMsg
	c     net.Conn
	enc   *json.Encoder
	wmu   sync.Mutex
	gone  bool // side channel closed
	said  bool // announced its own exit
}

func (cl *childLink) send(m sideMsg) {
	cl.wmu.Lock()
	cl.enc.Encode(m)
	cl.wmu.Unlock()
}

func newExchange(port string, ignInt, eofExit bool) *exchange {
	ex := &exchange{port: port, ignInt: ignInt, eofExit: eofExit}
	ex.cond = sync.NewCond(&ex.mu)
	exMu.Lock()
	exchanges[port] = ex
	exMu.Unlock()
	return ex
}

func (ex *exchange) release() {
	exMu.Lock()
	if exchanges[ex.port] == ex {
		delete(exchanges, ex.port)
	}
	exMu.Unlock()
	ex.mu.Lock()
	ex.muted = true
	kids := append([]*childLink{}, ex.children...)
	ex.mu.Unlock()
	for _, k := range kids {
		k.c.Close() // a child that is still there leaves when its side channel ends
	}
}

func (ex *exchange) log(e event) {
	ex.mu.Lock()
	if !ex.muted {
		ex.events = append(ex.events, e)
	}
	ex.cond.Broadcast()
	ex.mu.Unlock()
}

// logLocked appends with the mutex already held.
func (ex *exchange) logLocked(e event) {
	if !ex.muted {
		ex.events = append(ex.events, e)
	}
	ex.cond.Broadcast()
}

// wait blocks until pred (evaluated under the mutex) holds or d has passed.
func (ex *exchange) wait(d time.Duration, pred func() bool) bool {
	deadline := time.Now().Add(d)
	ex.mu.Lock()
	defer ex.mu.Unlock()
	for !pred() {
		left := time.Until(deadline)
		if left <= 0 {
			return false
		}
		t := time.AfterFunc(left, func() { ex.mu.Lock(); ex.cond.Broadcast(); ex.mu.Unlock() })
		ex.cond.Wait()
		t.Stop()
	}
	return true
}

func (ex *exchange) snapshot() []event {
	ex.mu.Lock()
	defer ex.mu.Unlock()
	return append([]event{}, ex.events...)
}

// count of events of a kind (mutex held by the caller of wait's pred, or via snapshot)
func countEv(evs []event, ev string) int {
	n := 0
	for _, e := range evs {
		if e["ev"] == ev {
			n++
		}
	}
	return n
}

var (
	exMu      sync.Mutex
	exchanges = map[string]*exchange{}
	strays    []sideMsg // children nobody was waiting for
)

func lookupExchange(port string) *exchange {
	exMu.Lock()
	defer exMu.Unlock()
	return exchanges[port]
}

// ---------------------------------------------------------------- side channel

type sideServer struct {
	ln   net.Listener
	Path string
}

func startSide(dir string) (*sideServer, error) {
	p := filepath.Join(dir, "side.sock")
	os.Remove(p)
	ln, err := net.Listen("unix", p)
	if err != nil {
		return nil, err
	}
	s := &sideServer{ln: ln, Path: p}
	go s.accept()
	return s, nil
}

func (s *sideServer) Close() { s.ln.Close(); os.Remove(s.Path) }

func envOf(env []string, name string) (string, bool) {
	for _, kv := range env {
		if strings.HasPrefix(kv, name+"=") {
			return kv[len(name)+1:], true
		}
	}
	return "", false
}

func (s *sideServer) accept() {
	for {
		c, err := s.ln.Accept()
		if err != nil {
			return
		}
		go s.serve(c)
	}
}

func (s *sideServer) serve(c net.Conn) {
	dec := json.NewDecoder(c)
	var hello sideMsg
	if dec.Decode(&hello) != nil || hello.Ev != "hello" {
		c.Close()
		return
	}
	port, _ := envOf(hello.Env, "REMOTE_PORT")
	ex := lookupExchange(port)
	if ex == nil {
		// identify the exchange by the query string as a second chance (REMOTE_PORT wrong)
		if q, ok := envOf(hello.Env, "QUERY_STRING"); ok {
			for _, kv := range strings.Split(q, "&") {
				if strings.HasPrefix(kv, "xport=") {
					ex = lookupExchange(kv[6:])
				}
			}
		}
	}
	if ex == nil {
		exMu.Lock()
		strays = append(strays, hello)
		exMu.Unlock()
		c.Close()
		return
	}
	cl := &childLink{hello: hello, c: c, enc: json.NewEncoder(c)}
	// the mode first: once the command is visible to the exchange it may be sent orders at once
	cl.send(sideMsg{Op: "mode", IgnInt: ex.ignInt, EofExit: ex.eofExit})
	ex.mu.Lock()
	ex.children = append(ex.children, cl)
	ex.logLocked(event{"ev": "spawn", "pid": hello.Pid})
	ex.mu.Unlock()
	for {
		var m sideMsg
		if err := dec.Decode(&m); err != nil {
			ex.mu.Lock()
			cl.gone = true
			how := "killed"
			if cl.said {
				how = "exit"
			}
			ex.logLocked(event{"ev": "pgone", "how": how})
			ex.mu.Unlock()
			c.Close()
			return
		}
		switch m.Ev {
		case "stdin":
			ex.log(event{"ev": "stdin", "b": m.B})
		case "stdineof":
			ex.mu.Lock()
			ex.logLocked(event{"ev": "stdineof"})
			if m.Dies {
				cl.said = true
				ex.logLocked(event{"ev": "pexit", "why": "eof"})
			}
			ex.mu.Unlock()
			cl.send(sideMsg{Op: "ack"})
		case "sig":
			ex.mu.Lock()
			ex.logLocked(event{"ev": "sig", "s": m.S})
			if m.Dies {
				cl.said = true
				ex.logLocked(event{"ev": "pexit", "why": "sig"})
			}
			ex.mu.Unlock()
			cl.send(sideMsg{Op: "ack"})
		case "exiting":
			ex.mu.Lock()
			cl.said = true
			ex.logLocked(event{"ev": "pexit", "why": m.S})
			ex.mu.Unlock()
			cl.send(sideMsg{Op: "ack"})
		case "wrote":
			ex.log(event{"ev": "wrote", "n": m.N, "err": m.Err})
		case "closedout":
			ex.log(event{"ev": "closedout"})
		}
	}
}

// ---------------------------------------------------------------- process / goroutine / descriptor census

// procState: "" = no such process (reaped), otherwise the state letter of /proc/<pid>/stat (Z = zombie).
func procState(pid int) string {
	b, err := os.ReadFile(fmt.Sprintf("/proc/%d/stat", pid))
	if err != nil {
		return ""
	}
	i := bytes.LastIndexByte(b, ')')
	if i < 0 || i+2 >= len(b) {
		return "?"
	}
	return string(b[i+2 : i+3])
}

// wsGoroutines: the goroutines that are inside casket's websocket package right now.
func wsGoroutines() (int, []string) {
	buf := make([]byte, 4<<20)
	buf = buf[:runtime.Stack(buf, true)]
	n := 0
	var which []string
	for _, g := range strings.Split(string(buf), "\n\n") {
		if strings.Contains(g, "casket/caskethttp/websocket.") {
			n++
			for _, fn := range []string{"serveWS", "pumpStdout", "pumpStdin", "pinger"} {
				if strings.Contains(g, "websocket."+fn+"(") {
					which = append(which, fn)
					break
				}
			}
		}
	}
	sort.Strings(which)
	return n, which
}

// pipeFds: how many descriptors of this process are pipes.
func pipeFds() int {
	n := 0
	for _, t := range listFds() {
		if strings.HasPrefix(t, "pipe:") {
			n++
		}
	}
	return n
}
