package cx13wsbridge

// The command the `websocket` directive spawns is this test binary itself, started as
//
//	<test binary> wsbridge-child <unix socket of the harness> [further arguments of the case]
//
// (TestMain diverts before the testing package looks at the arguments). The child reports who
// it is (pid, argv, environment, inherited descriptors) over the side channel, is told how to
// react to an interrupt and to the end of stdin, reports every read from stdin and every signal,
// and follows the commands of the harness: write these bytes to stdout, close stdout, exit.
// Whatever the child does of its own accord (die of a signal, leave at the end of stdin) it
// announces first and waits for the acknowledgement, so that the harness has logged the step
// before it can have any effect on the server.

import (
	"encoding/json"
	"fmt"
	"net"
	"os"
	"os/signal"
	"path/filepath"
	"sort"
	"strings"
	"sync"
	"syscall"
	"testing"
)

type sideMsg struct {
	Ev      string            `json:"ev,omitempty"` // child -> harness: hello stdin stdineof sig exiting wrote closedout
	Op      string            `json:"op,omitempty"` // harness -> child: mode write closeout exit ack
	Pid     int               `json:"pid,omitempty"`
	Argv    []string          `json:"argv,omitempty"`
	Env     []string          `json:"env,omitempty"`
	Fds     map[string]string `json:"fds,omitempty"`
	Cwd     string            `json:"cwd,omitempty"`
	B       []byte            `json:"b,omitempty"`
	N       int               `json:"n,omitempty"`
	Err     string            `json:"err,omitempty"`
	S       string            `json:"s,omitempty"`
	Code    int               `json:"code,omitempty"`
	Dies    bool              `json:"dies,omitempty"`
	IgnInt  bool              `json:"ignint,omitempty"`
	EofExit bool              `json:"eofexit,omitempty"`
}

// childMode: is this process the spawned command, and where is the side channel?
//
//	<binary> wsbridge-child <socket> ...     the socket is named
//	<dir>/wsbridge-child-<n> ...             (a symbolic link to the binary: a command without
//	                                         arguments) the socket is <dir>/side.sock
func childMode() (string, bool) {
	if len(os.Args) >= 3 && os.Args[1] == "wsbridge-child" {
		return os.Args[2], true
	}
	if strings.HasPrefix(filepath.Base(os.Args[0]), "wsbridge-child-") {
		return filepath.Join(filepath.Dir(os.Args[0]), "side.sock"), true
	}
	return "", false
}

func TestMain(m *testing.M) {
	if sock, ok := childMode(); ok {
		childMain(sock)
		os.Exit(0)
	}
	if _, spawned := os.LookupEnv("GATEWAY_INTERFACE"); spawned {
		os.Exit(94) // started by a websocket directive without the child marker: never run the tests from there
	}
	os.Exit(m.Run())
}

func listFds() map[string]string {
	out := map[string]string{}
	ents, err := os.ReadDir("/proc/self/fd")
	if err != nil {
		return out
	}
	for _, e := range ents {
		t, err := os.Readlink("/proc/self/fd/" + e.Name())
		if err != nil {
			continue // the descriptor of the directory listing itself
		}
		out[e.Name()] = t
	}
	return out
}

func childMain(sock string) {
	fds := listFds()
	// whatever the Go runtime has to say about this process (a crash) goes to a file next to the
	// socket instead of /dev/null; the exits below say why
	if f, err := os.OpenFile(filepath.Join(filepath.Dir(sock), "child.err"), os.O_CREATE|os.O_WRONLY|os.O_APPEND, 0o644); err == nil {
		syscall.Dup3(int(f.Fd()), 2, 0)
		f.Close()
	}
	exit := func(code int, why string) {
		fmt.Fprintf(os.Stderr, "child %d: exit %d: %s\n", os.Getpid(), code, why)
		os.Exit(code)
	}
	c, err := net.Dial("unix", sock)
	if err != nil {
		exit(90, "dial: "+err.Error())
	}
	var wmu sync.Mutex
	enc := json.NewEncoder(c)
	send := func(m sideMsg) {
		wmu.Lock()
		if err := enc.Encode(m); err != nil {
			exit(91, "send: "+err.Error())
		}
		wmu.Unlock()
	}
	// before anything is said: a signal that arrives before Notify would have its default action
	sigc := make(chan os.Signal, 8)
	signal.Notify(sigc, syscall.SIGINT, syscall.SIGTERM, syscall.SIGHUP, syscall.SIGQUIT)
	cwd, _ := os.Getwd()
	// the environment as it was handed over by exec (this binary's own init functions call
	// os.Setenv, which /proc/self/environ does not follow)
	var env []string
	if b, err := os.ReadFile("/proc/self/environ"); err == nil {
		for _, kv := range strings.Split(string(b), "\x00") {
			if kv != "" {
				env = append(env, kv)
			}
		}
	} else {
		env = append(env, "VERIF_NO_PROC_ENVIRON=1")
	}
	sort.Strings(env)
	send(sideMsg{Ev: "hello", Pid: os.Getpid(), Argv: os.Args, Env: env, Fds: fds, Cwd: cwd})
	dec := json.NewDecoder(c)
	var mode sideMsg
	if err := dec.Decode(&mode); err != nil || mode.Op != "mode" {
		exit(92, fmt.Sprintf("mode: %v %+v", err, mode))
	}
	acks := make(chan struct{}, 8)
	cmds := make(chan sideMsg, 64)
	go func() {
		for {
			var m sideMsg
			if err := dec.Decode(&m); err != nil {
				exit(93, "side channel: "+err.Error()) // the harness is gone: never outlive it
			}
			if m.Op == "ack" {
				acks <- struct{}{}
			} else {
				cmds <- m
			}
		}
	}()
	var amu sync.Mutex
	dying := false
	announce := func(m sideMsg) { // send and wait until the harness has logged it
		amu.Lock()
		if dying {
			select {} // the exit is announced already: nothing more is said
		}
		send(m)
		<-acks
		dying = m.Dies
		amu.Unlock()
	}

	go func() {
		for s := range sigc {
			name := map[os.Signal]string{syscall.SIGINT: "INT", syscall.SIGTERM: "TERM", syscall.SIGHUP: "HUP", syscall.SIGQUIT: "QUIT"}[s]
			dies := !(mode.IgnInt && s == syscall.SIGINT)
			announce(sideMsg{Ev: "sig", S: name, Dies: dies})
			if dies {
				os.Exit(130)
			}
		}
	}()

	go func() {
		buf := make([]byte, 64<<10)
		for {
			n, err := os.Stdin.Read(buf)
			if n > 0 {
				send(sideMsg{Ev: "stdin", B: append([]byte{}, buf[:n]...)})
			}
			if err != nil {
				announce(sideMsg{Ev: "stdineof", Err: err.Error(), Dies: mode.EofExit})
				if mode.EofExit {
					os.Exit(0)
				}
				return
			}
		}
	}()

	for m := range cmds {
		switch m.Op {
		case "write":
			n, err := os.Stdout.Write(m.B)
			r := sideMsg{Ev: "wrote", N: n}
			if err != nil {
				r.Err = err.Error()
			}
			send(r)
		case "closeout":
			os.Stdout.Close()
			send(sideMsg{Ev: "closedout"})
		case "exit":
			// told to leave: said first, like every exit (what the command still does in between -
			// seeing the end of stdin, taking a signal - it has then said before)
			announce(sideMsg{Ev: "exiting", S: "cmd", Dies: true})
			os.Exit(m.Code)
		}
	}
}
