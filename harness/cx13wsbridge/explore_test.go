package cx13wsbridge

import (
	"fmt"
	"os"
	"testing"
	"time"

	"verifharness/hx"
)

func TestExplore(t *testing.T) {
	if os.Getenv("WS_EXPLORE") == "" {
		t.Skip()
	}
	hx.Quiet()
	dir, _ := os.MkdirTemp("", "wsx_")
	defer os.RemoveAll(dir)
	side, err := startSide(dir)
	if err != nil {
		t.Fatal(err)
	}
	defer side.Close()
	typ := os.Getenv("WS_TYPE")
	if typ == "" {
		typ = "lines"
	}
	buf := os.Getenv("WS_BUF")
	if buf == "" {
		buf = "8"
	}
	port := hx.FreePort()
	cf := fmt.Sprintf("ws.test:%d {\n\tbind 127.0.0.1\n\ttls off\n\troot %s\n\tverifwsouter\n\tverifwsinner\n\twebsocket /ws \"%s wsbridge-child %s 'a b' c\" {\n\t\ttype %s\n\t\tbufsize %s\n\t}\n}\n", port, dir, os.Args[0], side.Path, typ, buf)
	site, err := hx.StartHTTP(cf, "")
	if err != nil {
		t.Fatal(err)
	}
	defer site.Stop()
	addr := fmt.Sprintf("127.0.0.1:%d", port)

	scen := os.Getenv("WS_SCEN")
	w, err := dialWS(addr)
	if err != nil {
		t.Fatal(err)
	}
	ex := newExchange(w.localPort(), os.Getenv("WS_IGN") != "", os.Getenv("WS_EOFEXIT") != "")
	defer ex.release()
	kind := os.Getenv("WS_KIND")
	if kind == "" {
		kind = "ws"
	}
	path := os.Getenv("WS_PATH")
	if path == "" {
		path = "/ws/x?q=1"
	}
	resp, body, err := w.handshake(kind, path, "ws.test", []string{"Proxy: evil", "X-Multi: a", "X-Multi: b"})
	if err != nil {
		t.Fatal(err)
	}
	fmt.Println("HEAD", resp.StatusCode, resp.Header, string(body))
	go func() {
		for {
			f, err := w.readFrame()
			if err != nil {
				ex.log(event{"ev": "ceof", "err": err.Error()})
				return
			}
			ex.log(event{"ev": "frame", "op": f.Op, "fin": f.Fin, "p": string(f.Payload)})
		}
	}()
	if resp.StatusCode == 101 {
		ex.wait(3*time.Second, func() bool { return len(ex.children) > 0 })
		fmt.Println("STRAYS", strays)
		for _, e := range ex.snapshot() {
			fmt.Println("EV0", e)
		}
		if len(ex.children) > 0 {
			h := ex.children[0].hello
			fmt.Println("ARGV", h.Argv[1:], "CWD", h.Cwd)
			fmt.Println("ENV", h.Env)
			fmt.Println("FDS", h.Fds)
		}
	}
	child := func() *childLink { return ex.children[0] }
	t0 := time.Now()
	switch scen {
	case "echo":
		w.writeFrame(opText, []byte("hello"))
		w.writeFrame(opBin, []byte("wor\nld"))
		time.Sleep(100 * time.Millisecond)
		child().send(sideMsg{Op: "write", B: []byte("  abc  \r\n\n de\xff\nlast")})
		time.Sleep(100 * time.Millisecond)
		child().send(sideMsg{Op: "write", B: []byte("0123456\n01234567\nafter\n")})
		time.Sleep(300 * time.Millisecond)
		w.writeClose(1000, "bye")
	case "pexit":
		child().send(sideMsg{Op: "write", B: []byte("tail")})
		child().send(sideMsg{Op: "exit", Code: 3})
	case "closeout":
		child().send(sideMsg{Op: "closeout"})
	case "drop":
		w.closeFIN()
	case "rst":
		w.closeRST()
	case "text":
		child().send(sideMsg{Op: "write", B: []byte("ab\xe2")})
		time.Sleep(100 * time.Millisecond)
		child().send(sideMsg{Op: "write", B: []byte("\x82")})
		time.Sleep(100 * time.Millisecond)
		child().send(sideMsg{Op: "write", B: []byte("\xacxyz0123456789")})
		time.Sleep(100 * time.Millisecond)
		child().send(sideMsg{Op: "write", B: []byte("\xe2\x82")})
		time.Sleep(100 * time.Millisecond)
		w.writeClose(1001, "")
	}
	ex.wait(5*time.Second, func() bool { return countEv(ex.events, "ret") > 0 })
	time.Sleep(200 * time.Millisecond)
	for _, e := range ex.snapshot() {
		fmt.Println("EV", e)
	}
	fmt.Println("elapsed", time.Since(t0))
	if len(ex.children) > 0 {
		fmt.Println("procstate", procState(child().hello.Pid))
	}
	n, which := wsGoroutines()
	fmt.Println("goroutines", n, which, "pipes", pipeFds())
}
