package cx13wsbridge

// Free runs: both ends act without waiting for each other - the command writes several pieces
// back to back (so that the pump's reads cut them anywhere), the client sends meanwhile, then
// one side ends the exchange at an arbitrary moment.  Nothing is compared step by step; the
// exchange must come to its end (serveWS returned, the command reaped), and the recorded trace
// is validated by TLC against WsBridgeTrace.tla with all invariants (order and content of the
// bytes each way, frame sizes, rune boundaries, close code, signal order, AlwaysReaped).

import (
	"fmt"
	"math/rand"
	"strings"
	"time"
)

type freeCase struct {
	Type string     `json:"type"`
	Buf  int        `json:"buf"`
	Mode string     `json:"mode"`
	Ops  []fop      `json:"ops"`
	End  string     `json:"end"` // cclose | cdrop-fin | cdrop-rst | pexit | pcloseout | pwriteexit
	Seed int64      `json:"seed"`
	Env  [][]string `json:"env,omitempty"` // filled in for a replay file
}

type fop struct {
	A     string `json:"a"` // csend | pwrite
	Kinds []int  `json:"kinds"`
}

func (f *freeCase) key() string {
	var st []string
	for _, o := range f.Ops {
		st = append(st, o.A+"("+kindsStr(o.Kinds)+")")
	}
	return fmt.Sprintf("free/type=%s/buf=%d/mode=%s/%s.%s", f.Type, f.Buf, f.Mode, strings.Join(st, "."), f.End)
}

func (f *freeCase) wcase() *wcase {
	return &wcase{Scope: "bridge", Type: f.Type, Buf: f.Buf, Mode: f.Mode, Cmdok: true, Rk: "ws", Rpath: "in", Rhost: "name",
		Rhdrs: []string{"Upgrade", "Connection", "Sec-Websocket-Key", "Sec-Websocket-Version"}, Sel: 1, Env: canonEnv}
}

var freeOutPieces = map[string][][]int{
	"lines":  {{kORD, kNL}, {kSP, kORD, kSP, kCR, kNL}, {kORD, kORD}, {kNL}, {kORD, kNL, kORD, kNL, kORD}, {kBAD, kORD, kNL}, {kORD, kORD, kORD, kORD, kORD, kNL}},
	"text":   {{kORD}, {kORD, kLEAD}, {kCONT}, {kCONT, kORD}, {kLEAD, kCONT, kCONT, kORD}, {kBAD, kORD}, {kORD, kORD, kORD, kLEAD, kCONT}, {kLEAD, kCONT, kCONT, kLEAD, kCONT, kCONT}},
	"binary": {{kORD}, {kORD, kNL, kLEAD}, {kORD, kORD, kORD, kORD, kORD, kORD, kORD}, {kBAD, kCONT}},
}
var freeInPieces = [][]int{{kORD}, {kORD, kNL, kORD}, {}, {kLEAD, kCONT, kCONT}, {kORD, kORD, kORD, kORD}}

func genFree(rnd *rand.Rand, n int) []freeCase {
	types := []string{"lines", "text", "binary"}
	bufs := []int{0, 2, 4, 6}
	modes := []string{"dflt", "eofx", "ign", "ignx"}
	ends := []string{"cclose", "cdrop-fin", "cdrop-rst", "pexit", "pcloseout", "pwriteexit"}
	var out []freeCase
	for i := 0; i < n; i++ {
		f := freeCase{Type: types[rnd.Intn(3)], Buf: bufs[rnd.Intn(4)], Mode: modes[rnd.Intn(4)], End: ends[rnd.Intn(len(ends))], Seed: rnd.Int63()}
		nops := 2 + rnd.Intn(5)
		total := 0
		for j := 0; j < nops; j++ {
			if rnd.Intn(3) == 0 {
				f.Ops = append(f.Ops, fop{"csend", freeInPieces[rnd.Intn(len(freeInPieces))]})
			} else {
				ps := freeOutPieces[f.Type]
				p := ps[rnd.Intn(len(ps))]
				if total+len(p) > 40 {
					continue
				}
				total += len(p)
				f.Ops = append(f.Ops, fop{"pwrite", p})
			}
		}
		out = append(out, f)
	}
	return out
}

// runFree executes one free run on site st; the outcome's clause is set when the exchange does not end.
func (w *world) runFree(f *freeCase, st *siteT) (out outcome) {
	out.notes = map[string]int{}
	c := f.wcase()
	if c.Env == nil {
		out.infra = "no request-scope script to take the environment of the standard request from"
		return
	}
	r := &runner{w: w, c: c, st: st, rnd: rand.New(rand.NewSource(f.Seed)), key: f.key()}
	defer func() {
		if r.ex != nil {
			r.ex.mu.Lock()
			r.cgone = true
			r.ex.mu.Unlock()
			out.events = r.ex.snapshot()
			r.ex.release()
		}
		if r.cl != nil {
			r.cl.closeRST()
		}
	}()
	if e := r.doReq(); e != "" {
		out.infra = e
		return
	}
	if !r.ex.wait(patience, func() bool { return len(r.ex.children) > 0 }) {
		out.clause, out.what = "spawn", "no command was started behind a completed handshake"
		return
	}
	ch := r.child()
	h := ch.hello
	ev := r.checkChild(&h, &out)
	r.ex.mu.Lock()
	for _, e := range r.ex.events {
		if e["ev"] == "spawn" {
			for k, v := range ev {
				e[k] = v
			}
		}
	}
	r.ex.mu.Unlock()
	if out.clause != "" {
		return
	}
	pwrite := func(kinds []int) {
		toks := mk(kinds, r.nout)
		r.ex.mu.Lock()
		if ch.said || ch.gone {
			r.ex.mu.Unlock()
			return // the command has announced its exit (interrupt / end of stdin): it writes no more
		}
		r.nout += len(toks)
		r.outAl.extend(toks)
		r.ex.logLocked(event{"ev": "pwrite", "ids": toks})
		r.ex.mu.Unlock()
		ch.send(sideMsg{Op: "write", B: tokBytes(r.outAl.toks)[len(r.outAl.toks)-len(toks):]})
	}
	for _, o := range f.Ops {
		switch o.A {
		case "csend":
			toks := mk(o.Kinds, r.nin)
			r.nin += len(toks)
			arrive := append([]int{}, toks...)
			if c.Type == "lines" {
				arrive = append(arrive, kNL*100)
			}
			r.ex.mu.Lock()
			r.inAl.extend(arrive)
			r.ex.logLocked(event{"ev": "csend", "ids": toks})
			r.ex.mu.Unlock()
			r.cl.writeFrame(opText+r.rnd.Intn(2), tokBytes(toks))
		case "pwrite":
			pwrite(o.Kinds)
		}
		switch r.rnd.Intn(4) {
		case 0:
			time.Sleep(time.Duration(r.rnd.Intn(300)) * time.Microsecond)
		case 1:
			time.Sleep(time.Duration(1+r.rnd.Intn(3)) * time.Millisecond)
		}
	}
	if r.rnd.Intn(2) == 0 {
		time.Sleep(time.Duration(r.rnd.Intn(4000)) * time.Microsecond)
	}
	switch f.End {
	case "cclose":
		r.ex.log(event{"ev": "cclose"})
		r.cl.writeClose(1000, "")
	case "cdrop-fin", "cdrop-rst":
		r.ex.mu.Lock()
		r.ex.logLocked(event{"ev": "cdrop", "how": f.End[6:]})
		r.cgone = true
		r.ex.mu.Unlock()
		if f.End == "cdrop-rst" {
			r.cl.closeRST()
		} else {
			r.cl.closeFIN()
		}
	case "pexit", "pwriteexit":
		if f.End == "pwriteexit" {
			pwrite(freeOutPieces[f.Type][0])
		}
		ch.send(sideMsg{Op: "exit", Code: 3 * r.rnd.Intn(2)}) // (the command announces its exit: logged then)
	case "pcloseout":
		r.ex.mu.Lock()
		if !(ch.said || ch.gone) {
			r.ex.logLocked(event{"ev": "pcloseout"})
			r.ex.mu.Unlock()
			ch.send(sideMsg{Op: "closeout"})
		} else {
			r.ex.mu.Unlock()
		}
	}
	// every ending leads to a returned serveWS and a reaped command
	if !r.ex.wait(patience+time.Second, func() bool { return countEv(r.ex.events, "ret") > 0 && countEv(r.ex.events, "pgone") > 0 }) {
		out.clause = "returned"
		out.what = fmt.Sprintf("4 s after %s the exchange has not ended: serveWS returned %v, command gone %v", f.End,
			countEv(r.ex.snapshot(), "ret") > 0, countEv(r.ex.snapshot(), "pgone") > 0)
		return
	}
	state := "?"
	for t0 := time.Now(); time.Since(t0) < time.Second; time.Sleep(2 * time.Millisecond) {
		if state = procState(h.Pid); state == "" {
			break
		}
	}
	if state != "" {
		out.clause, out.what = "not-reaped", fmt.Sprintf("serveWS has returned but the command (pid %d) is still in the process table, state %s", h.Pid, state)
		return
	}
	r.ex.log(event{"ev": "reaped"})
	// the server kills only after an interrupt that was ignored: a command that vanished without a
	// word otherwise did not die by casket's hand as far as anyone can tell (seen once on a loaded
	// box) - run again; reported when it happens twice in a row
	sig := false
	for _, e := range r.ex.snapshot() {
		if e["ev"] == "sig" {
			sig = true
		}
		if e["ev"] == "pgone" && e["how"] == "killed" && !(sig && (f.Mode == "ign" || f.Mode == "ignx")) {
			out.clause, out.what = "process-vanished", "the command disappeared without announcing its exit and without having been sent an interrupt it ignores"
			return
		}
	}
	// (what is still on its way to the harness - the last reads the command reported - has arrived
	// once the side channel is closed, which "pgone" says)
	if f.End != "cdrop-fin" && f.End != "cdrop-rst" {
		r.ex.wait(patience, func() bool { return countEv(r.ex.events, "ceof") > 0 })
	}
	r.ex.log(event{"ev": "quiet"})
	return
}
