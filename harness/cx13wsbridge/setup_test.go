package cx13wsbridge

// Replay of specs/WsBridgeSetup.tla: every `websocket` line shape TLC enumerated is written into
// a Casketfile and loaded with casket.Start.  Judged: the documented forms load and every
// endpoint they declare really is what the specification says - a connection to its path spawns
// that program with those arguments, and its output is framed by that type and bufsize; a line
// without arguments and an unknown option do not load.  Every other shape is run too and only
// compared with the model (drift is counted, not reported).

import (
	"fmt"
	"os"
	"path/filepath"
	"reflect"
	"strings"
	"sync"
	"testing"
	"time"

	"verifharness/hx"
)

type ssock struct {
	Path string   `json:"path"`
	Prog string   `json:"prog"`
	Args []string `json:"args"`
	Type string   `json:"type"`
	Buf  int      `json:"buf"`
}

type scase struct {
	Args     []string `json:"args"`
	Block    string   `json:"block"`
	Second   string   `json:"second"`
	Err      string   `json:"err"`
	Socks    []ssock  `json:"socks"`
	Doc      bool     `json:"doc"`
	Mustfail bool     `json:"mustfail"`
}

func (c *scase) key() string {
	return fmt.Sprintf("args=%s/block=%s/second=%s", strings.Join(c.Args, "."), c.Block, c.Second)
}

var blockText = map[string]string{
	"none": "", "empty": " {\n\t}", "respawn": " {\n\t\trespawn\n\t}", "text": " {\n\t\ttype text\n\t}", "typeonly": " {\n\t\ttype\n\t}",
	"bogustype": " {\n\t\ttype bogus\n\t}", "buf8": " {\n\t\tbufsize 8\n\t}", "bufbad": " {\n\t\tbufsize abc\n\t}", "bufneg": " {\n\t\tbufsize -1\n\t}",
	"junk": " {\n\t\tjunk\n\t}", "bin8": " {\n\t\trespawn\n\t\ttype binary\n\t\tbufsize 8\n\t}", "junk2": " {\n\t\ttype text\n\t\tjunk\n\t}",
}

// setupWorld: one directory with the side channel and the two commands (symbolic links to the test binary).
type setupWorld struct {
	dir  string
	side *sideServer
	prog [3]string // prog[1], prog[2]: the command of the first / second line
}

func (sw *setupWorld) word(kind string, line int) string {
	switch kind {
	case "P":
		return "/a"
	case "P2":
		return "/b"
	case "C":
		return sw.prog[line]
	case "Q":
		return fmt.Sprintf("\"%s 'a b' c\"", sw.prog[line])
	case "X":
		return "x"
	}
	return kind
}

func (sw *setupWorld) casketfile(port int, c *scase) string {
	var b strings.Builder
	fmt.Fprintf(&b, ":%d {\n\tbind 127.0.0.1\n\ttls off\n\troot %s\n\twebsocket", port, sw.dir)
	for _, a := range c.Args {
		b.WriteString(" " + sw.word(a, 1))
	}
	b.WriteString(blockText[c.Block] + "\n")
	switch c.Second {
	case "PC":
		fmt.Fprintf(&b, "\twebsocket /b %s\n", sw.word("C", 2))
	case "C":
		fmt.Fprintf(&b, "\twebsocket %s\n", sw.word("C", 2))
	case "PQb":
		fmt.Fprintf(&b, "\twebsocket /b %s%s\n", sw.word("Q", 2), blockText["buf8"])
	}
	b.WriteString("}\n")
	return b.String()
}

const probeOut = "0123456789"

// probeFrames: how 10 bytes without a newline, followed by the end of stdout, are framed.
func probeFrames(typ string, buf int) (frames []string, kind string, closeWhy string) {
	switch typ {
	case "lines":
		if buf != 0 && buf <= len(probeOut) {
			return nil, "text", "toolong"
		}
		return []string{probeOut}, "text", ""
	case "text", "binary":
		n := buf
		if n == 0 {
			n = 2048
		}
		if typ == "text" && n < 4 {
			n = 4
		}
		for s := probeOut; s != ""; {
			k := n
			if k > len(s) {
				k = len(s)
			}
			frames = append(frames, s[:k])
			s = s[k:]
		}
		if typ == "text" {
			return frames, "text", "EOF"
		}
		return frames, "bin", "EOF"
	}
	return nil, "", "" // an unknown type: pumpStdout does nothing
}

// probeSock connects to path, checks who answers and how its output is framed.
func (sw *setupWorld) probeSock(addr string, reqPath string, want ssock, wantLine int) string {
	cl, err := dialWS(addr)
	if err != nil {
		return "dial: " + err.Error()
	}
	defer cl.closeRST()
	ex := newExchange(cl.localPort(), false, false)
	defer ex.release()
	resp, _, err := cl.handshake("ws", reqPath+"?xport="+cl.localPort(), siteHost, nil)
	if err != nil {
		return "handshake: " + err.Error()
	}
	if resp.StatusCode != 101 {
		return fmt.Sprintf("answer %d to a websocket handshake on %s", resp.StatusCode, reqPath)
	}
	r := &runner{ex: ex, cl: cl}
	go r.reader()
	if !ex.wait(patience, func() bool { return len(ex.children) > 0 }) {
		return "no command was started for a connection to " + reqPath
	}
	ch := ex.children[0]
	wantArgv := append([]string{sw.prog[wantLine]}, want.Args...)
	if !reflect.DeepEqual(ch.hello.Argv, wantArgv) {
		return fmt.Sprintf("a connection to %s started %q; the endpoint is %q", reqPath, ch.hello.Argv, wantArgv)
	}
	ch.send(sideMsg{Op: "write", B: []byte(probeOut)})
	ch.send(sideMsg{Op: "exit"})
	if !ex.wait(patience, func() bool { return countEv(ex.events, "ceof") > 0 }) {
		return "the connection did not end after the command had left"
	}
	wantFrames, kind, why := probeFrames(want.Type, want.Buf)
	var got []string
	gotWhy := ""
	for _, e := range ex.snapshot() {
		switch e["ev"] {
		case "frame":
			if e["k"] != kind {
				return fmt.Sprintf("a %v frame from an endpoint of type %s", e["k"], want.Type)
			}
			got = append(got, string(e["raw"].([]byte)))
		case "cframe":
			gotWhy = e["why"].(string)
		}
	}
	if !reflect.DeepEqual(got, wantFrames) || gotWhy != why {
		return fmt.Sprintf("10 bytes and the end of stdout arrived as %q, close reason %q; type %s / bufsize %d give %q, %q", got, gotWhy, want.Type, want.Buf, wantFrames, why)
	}
	return ""
}

var reqPathOf = map[string]string{"/": "/zz/x", "P": "/a/x", "P2": "/b/x"}

// runSetup loads one case; returns clause/what ("" = agrees), whether the model drifted (unjudged shapes), infra.
func (sw *setupWorld) runSetup(c *scase) (clause, what string, drift bool, infra string) {
	var site *hx.Site
	var err error
	port := 0
	for try := 0; try < 3; try++ {
		port = hx.FreePort()
		setupStartMu.Lock()
		site, err = hx.StartHTTP(sw.casketfile(port, c), "")
		setupStartMu.Unlock()
		if err == nil || !strings.Contains(err.Error(), "address already in use") {
			break
		}
	}
	if site != nil {
		defer site.Stop()
	}
	loaded := err == nil
	switch {
	case c.Mustfail && loaded:
		return "accepted", "the site loaded; a websocket line without arguments / with an unknown option must be refused", false, ""
	case c.Mustfail:
		return "", "", false, ""
	case !c.Doc:
		return "", "", loaded != (c.Err == ""), ""
	case !loaded:
		return "refused", fmt.Sprintf("a documented form does not load: %v", err), false, ""
	}
	addr := fmt.Sprintf("127.0.0.1:%d", port)
	// every path of the site: the first endpoint whose path is a prefix answers
	line := func(i int) int {
		if i == 0 {
			return 1
		}
		return 2
	}
	for _, pk := range []string{"P", "P2", "/"} {
		sel := -1
		for i, s := range c.Socks {
			if s.Path == "/" || s.Path == pk {
				sel = i
				break
			}
		}
		if sel < 0 {
			continue
		}
		if msg := sw.probeSock(addr, reqPathOf[pk], c.Socks[sel], line(sel)); msg != "" {
			if strings.HasPrefix(msg, "dial:") || strings.HasPrefix(msg, "handshake:") {
				return "", "", false, msg
			}
			return "endpoint", fmt.Sprintf("endpoint %d (%s): %s", sel+1, c.Socks[sel].Path, msg), false, ""
		}
	}
	return "", "", false, ""
}

var setupStartMu sync.Mutex

func setupPhase(t testing.TB, res *hx.Result, dir string, only *scase) {
	sdir, err := os.MkdirTemp(dir, "s")
	if err != nil {
		res.Infra = err.Error()
		return
	}
	sw := &setupWorld{dir: sdir}
	for i := 1; i <= 2; i++ {
		sw.prog[i] = filepath.Join(sdir, fmt.Sprintf("wsbridge-child-%d", i))
		if err := os.Symlink(os.Args[0], sw.prog[i]); err != nil {
			res.Infra = "symlink: " + err.Error()
			return
		}
	}
	if sw.side, err = startSide(sdir); err != nil {
		res.Infra = "side channel: " + err.Error()
		return
	}
	defer sw.side.Close()

	var all, cases []scase
	if only != nil {
		cases = []scase{*only}
	} else {
		all = hx.LoadCases[scase](t, "WsBridgeSetup")
		rnd := hx.Rand()
		var judged, other []scase
		for _, c := range all {
			if c.Doc || c.Mustfail {
				judged = append(judged, c)
			} else {
				other = append(other, c)
			}
		}
		nj, no := 40, 60
		if hx.Thorough() {
			nj, no = len(judged), 700
		}
		for _, i := range hx.SampleIdx(rnd, len(judged), nj) {
			cases = append(cases, judged[i])
		}
		for _, i := range hx.SampleIdx(rnd, len(other), no) {
			cases = append(cases, other[i])
		}
	}
	if hx.SelfTest() {
		// a documented case gets another type: must be noticed
		for i := range cases {
			if cases[i].Doc && len(cases[i].Socks) > 0 && cases[i].Socks[0].Type == "lines" {
				cases[i].Socks = append([]ssock{}, cases[i].Socks...)
				cases[i].Socks[0].Type = "binary"
				cases[i].Block = "selftest:" + cases[i].Block
				break
			}
		}
	}
	type outT struct {
		clause, what, infra string
		drift               bool
	}
	outs := make([]outT, len(cases))
	var wg sync.WaitGroup
	sem := make(chan struct{}, 8)
	for i := range cases {
		wg.Add(1)
		sem <- struct{}{}
		go func(i int) {
			defer wg.Done()
			defer func() { <-sem }()
			c := cases[i]
			c.Block = strings.TrimPrefix(c.Block, "selftest:")
			o := outT{}
			o.clause, o.what, o.drift, o.infra = sw.runSetup(&c)
			if o.clause != "" && o.infra == "" {
				time.Sleep(50 * time.Millisecond)
				c2, w2, _, i2 := sw.runSetup(&c) // once more, on a site of its own anyway
				if i2 != "" || c2 == "" {
					o = outT{infra: i2}
				} else {
					o.clause, o.what = c2, w2
				}
			}
			outs[i] = o
		}(i)
	}
	wg.Wait()
	drift, ndoc := 0, 0
	for i, c := range cases {
		o := outs[i]
		if o.infra != "" {
			if res.Infra == "" {
				res.Infra = "cx13wsbridge setup " + c.key() + ": " + o.infra
			}
			continue
		}
		nt := ""
		if c.Doc || c.Mustfail {
			nt = "setup/" + c.key()
			ndoc++
		}
		res.Count(nt)
		if o.drift {
			drift++
		}
		if o.clause != "" {
			if strings.HasPrefix(c.Block, "selftest:") {
				res.Add(hx.Mismatch{Key: "C13/wsbridge-setup/selftest/corrupted-expectation", What: "selftest: the corrupted endpoint type was noticed: " + o.what})
				continue
			}
			res.Add(hx.Mismatch{Key: "C13/wsbridge-setup/" + o.clause + "/" + c.key(), What: o.what + "\n" + sw.casketfile(0, &c), Case: map[string]interface{}{"wssetup": c}, Expected: c.Socks})
		} else if strings.HasPrefix(c.Block, "selftest:") {
			res.Infra = "selftest: the corrupted endpoint type went unnoticed"
		}
	}
	res.AddExtra("setup", map[string]interface{}{"shapes_from_tlc": len(all), "run": len(cases), "judged": ndoc, "unjudged_shapes_where_the_model_differs": drift})
}
