package cx13wsbridge

// A raw RFC 6455 client: the handshake is written byte for byte by the harness, frames are
// encoded / decoded here (no library in between), so that the harness sees every frame the
// server sends - opcode, FIN bit, payload, close code and reason - and can end the connection
// in every way (close frame, FIN, RST).

import (
	"bufio"
	"crypto/rand"
	"crypto/sha1"
	"encoding/base64"
	"encoding/binary"
	"fmt"
	"io"
	"net"
	"net/http"
	"strings"
	"time"
)

const wsGUID = "258EAFA5-E914-47DA-95CA-C5AB0DC85B11"

const (
	opCont  = 0
	opText  = 1
	opBin   = 2
	opClose = 8
	opPing  = 9
	opPong  = 10
)

type wsFrame struct {
	Fin     bool
	Op      int
	Payload []byte
	Masked  bool
}

type wsClient struct {
	c   *net.TCPConn
	br  *bufio.Reader
	key string
}

func dialWS(addr string) (*wsClient, error) {
	c, err := net.DialTimeout("tcp", addr, 5*time.Second)
	if err != nil {
		return nil, err
	}
	return &wsClient{c: c.(*net.TCPConn), br: bufio.NewReaderSize(c, 64<<10)}, nil
}

func (w *wsClient) localPort() string {
	_, p, _ := net.SplitHostPort(w.c.LocalAddr().String())
	return p
}

// request kinds (the handshake as the client writes it)
//
//	ws       a complete RFC 6455 handshake
//	wsorigin the same with the Origin of another site (recorded, not judged)
//	wsmixed  the same with `Connection: keep-alive, Upgrade` and `Upgrade: WebSocket`
//	plain    an ordinary GET
//	post     a complete handshake, but POST
//	badver   Sec-WebSocket-Version: 8
//	nokey    no Sec-WebSocket-Key
//	noconn   Upgrade: websocket without Connection: Upgrade
func handshakeText(kind, target, host string, extra []string) (string, string) {
	kb := make([]byte, 16)
	rand.Read(kb)
	key := base64.StdEncoding.EncodeToString(kb)
	method := "GET"
	var h []string
	switch kind {
	case "ws":
		h = []string{"Upgrade: websocket", "Connection: Upgrade", "Sec-WebSocket-Key: " + key, "Sec-WebSocket-Version: 13"}
	case "wsorigin":
		h = []string{"Upgrade: websocket", "Connection: Upgrade", "Sec-WebSocket-Key: " + key, "Sec-WebSocket-Version: 13", "Origin: http://other.example"}
	case "wsmixed":
		h = []string{"Upgrade: WebSocket", "Connection: keep-alive, Upgrade", "Sec-WebSocket-Key: " + key, "Sec-WebSocket-Version: 13"}
	case "plain":
	case "post":
		method = "POST"
		h = []string{"Upgrade: websocket", "Connection: Upgrade", "Sec-WebSocket-Key: " + key, "Sec-WebSocket-Version: 13", "Content-Length: 0"}
	case "badver":
		h = []string{"Upgrade: websocket", "Connection: Upgrade", "Sec-WebSocket-Key: " + key, "Sec-WebSocket-Version: 8"}
	case "nokey":
		h = []string{"Upgrade: websocket", "Connection: Upgrade", "Sec-WebSocket-Version: 13"}
	case "noconn":
		h = []string{"Upgrade: websocket", "Sec-WebSocket-Key: " + key, "Sec-WebSocket-Version: 13"}
	default:
		panic("unknown request kind " + kind)
	}
	var b strings.Builder
	fmt.Fprintf(&b, "%s %s HTTP/1.1\r\n", method, target)
	if host != "" {
		fmt.Fprintf(&b, "Host: %s\r\n", host)
	}
	for _, l := range h {
		b.WriteString(l + "\r\n")
	}
	for _, l := range extra {
		b.WriteString(l + "\r\n")
	}
	b.WriteString("\r\n")
	return b.String(), key
}

// handshake writes the request and reads the response head (and, for an ordinary answer, the body).
func (w *wsClient) handshake(kind, target, host string, extra []string) (*http.Response, []byte, error) {
	text, key := handshakeText(kind, target, host, extra)
	w.key = key
	w.c.SetDeadline(time.Now().Add(10 * time.Second))
	defer w.c.SetDeadline(time.Time{})
	if _, err := io.WriteString(w.c, text); err != nil {
		return nil, nil, err
	}
	method := "GET"
	if kind == "post" {
		method = "POST"
	}
	resp, err := http.ReadResponse(w.br, &http.Request{Method: method})
	if err != nil {
		return nil, nil, err
	}
	if resp.StatusCode == http.StatusSwitchingProtocols {
		return resp, nil, nil
	}
	body, _ := io.ReadAll(resp.Body)
	resp.Body.Close()
	return resp, body, nil
}

func acceptFor(key string) string {
	h := sha1.Sum([]byte(key + wsGUID))
	return base64.StdEncoding.EncodeToString(h[:])
}

// writeFrame sends one masked frame.
func (w *wsClient) writeFrame(op int, payload []byte) error {
	var hdr []byte
	hdr = append(hdr, 0x80|byte(op))
	n := len(payload)
	switch {
	case n < 126:
		hdr = append(hdr, 0x80|byte(n))
	case n < 65536:
		hdr = append(hdr, 0x80|126, byte(n>>8), byte(n))
	default:
		hdr = append(hdr, 0x80|127)
		var l [8]byte
		binary.BigEndian.PutUint64(l[:], uint64(n))
		hdr = append(hdr, l[:]...)
	}
	var mask [4]byte
	rand.Read(mask[:])
	hdr = append(hdr, mask[:]...)
	out := make([]byte, 0, len(hdr)+n)
	out = append(out, hdr...)
	for i, c := range payload {
		out = append(out, c^mask[i%4])
	}
	w.c.SetWriteDeadline(time.Now().Add(10 * time.Second))
	_, err := w.c.Write(out)
	return err
}

func (w *wsClient) writeClose(code int, reason string) error {
	p := []byte{byte(code >> 8), byte(code)}
	p = append(p, reason...)
	return w.writeFrame(opClose, p)
}

// readFrame reads one frame (no deadline: the caller closes the connection to end a reader).
func (w *wsClient) readFrame() (wsFrame, error) {
	var f wsFrame
	var h [2]byte
	if _, err := io.ReadFull(w.br, h[:]); err != nil {
		return f, err
	}
	f.Fin = h[0]&0x80 != 0
	f.Op = int(h[0] & 0x0f)
	f.Masked = h[1]&0x80 != 0
	n := uint64(h[1] & 0x7f)
	switch n {
	case 126:
		var l [2]byte
		if _, err := io.ReadFull(w.br, l[:]); err != nil {
			return f, err
		}
		n = uint64(binary.BigEndian.Uint16(l[:]))
	case 127:
		var l [8]byte
		if _, err := io.ReadFull(w.br, l[:]); err != nil {
			return f, err
		}
		n = binary.BigEndian.Uint64(l[:])
	}
	var mask [4]byte
	if f.Masked {
		if _, err := io.ReadFull(w.br, mask[:]); err != nil {
			return f, err
		}
	}
	if n > 64<<20 {
		return f, fmt.Errorf("frame of %d bytes", n)
	}
	f.Payload = make([]byte, n)
	if _, err := io.ReadFull(w.br, f.Payload); err != nil {
		return f, err
	}
	if f.Masked {
		for i := range f.Payload {
			f.Payload[i] ^= mask[i%4]
		}
	}
	return f, nil
}

// closeFIN closes the connection in the ordinary way (FIN); closeRST resets it.
func (w *wsClient) closeFIN() { w.c.Close() }
func (w *wsClient) closeRST() { w.c.SetLinger(0); w.c.Close() }
