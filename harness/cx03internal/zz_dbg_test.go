package cx03internal

import (
	"fmt"
	"testing"

	"verifharness/hx"
)

func TestDbg(t *testing.T) {
	hx.Quiet()
	fx, err := newFixture(t.TempDir(), 1, nil)
	if err != nil {
		t.Fatal(err)
	}
	defer fx.close()
	cl := &client{addr: fmt.Sprintf("127.0.0.1:%d", fx.port)}
	c := &icase{Part: "internal", Node: "ba", Sp: "plain", Method: "GET", Cxar: "-", Graph: map[string]beh{"ba": {"both", "f"}}, Status: 200, Body: []string{"f"}, Disc: []string{"ba"}, Final: "f",
		Hits: []hit{{Node: "ba", Method: "GET", Cxar: "-"}}, Marks: []string{"ba"}}
	o, h, err := runInternalFull(fx, cl, c)
	t.Logf("%+v %v %v", o.obs, h, err)
	fs, d := judgeInternal(c, o.obs, h, o.body)
	t.Logf("%v %v", fs, d)
}
