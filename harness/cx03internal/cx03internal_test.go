// C03 extension - the `internal` directive's X-Accel-Redirect mechanism (specs/InternalRedirect.tla)
// and basicauth rule lists (specs/AuthRules.tla): replay of the cases TLC emitted against real sites.
//
// Part I.  One real site: `internal /int`, `internal /b/priv`, `proxy /b <backend>`, static files
// /int/f and /pub/g.  TLC's terminal states are (client request, reachable redirect graph, expected
// client-visible outcome).  The graph travels with the request in an X-Graph header, which the proxy
// forwards - also on the re-issued requests -, so the harness-owned backend is stateless: it answers
// each backend path with a body, or with X-Accel-Redirect (empty body / body / chunked with an
// announced trailer, which makes the proxy Flush), and records what reached it.  Judged per case
// (keys C03/internalredirect/<clause>/<request and graph>):
//
//	accel-header      the response carries X-Accel-Redirect                (ClientNeverSeesAccelHeader)
//	direct-internal   a client request for an internal path (any spelling, any method, with or
//	                  without an X-Accel-Redirect REQUEST header) is not "404, backend untouched"
//	internal-content  a token of an internal path that the specification does not deliver
//	bounded           more than 1+10 handler calls / a cycle that does not end in 500 after exactly 11
//	discarded-trace   status, body token, Content-Encoding of a dropped response; a body that does not
//	                  match its framing (stale Content-Length)
//	final             status / body differ from the last handler's own response
//	reissue           the requests that reached the backend (paths, method, body only on the first)
//
// Not judged (recorded as model_drift): which other headers of a dropped response are carried over
// (the package's own test wants that), and the 502 of a re-issued POST whose body is already consumed.
//
// Part II.  One vhost per basicauth rule list (1..2 rules, several resources, exclude, realm), `proxy /`
// to the same backend with `header_upstream X-Auth-User {user}`.  Judged (C03/authrules/<clause>/...):
// reached-without-valid-credentials, valid-credentials-rejected, unprotected-rejected, options-checked,
// realm (WWW-Authenticate names the realm of a rule that protects the path and rejected), user-placeholder.
package cx03internal

import (
	"bytes"
	"encoding/base64"
	"encoding/json"
	"fmt"
	"io"
	"net"
	"net/http"
	"os"
	"path/filepath"
	"sort"
	"strconv"
	"strings"
	"sync"
	"sync/atomic"
	"testing"
	"time"

	"verifharness/hx"
)

const ns = "cx03internal"
const maxRedirects = 10 // internal.go maxRedirectCount, InternalRedirect.tla MaxRedirects
const reqBody = "payload"

// ---- cases ----------------------------------------------------------------------------------

type beh struct {
	K  string `json:"k"`
	To string `json:"to"`
}

type hit struct {
	Node   string `json:"node"`
	Method string `json:"method"`
	Body   bool   `json:"body"`
	Cxar   string `json:"cxar"`
	Broken bool   `json:"broken,omitempty"` // a truncated re-issued request (declared body already consumed)
}

type icase struct {
	Part    string         `json:"part,omitempty"`
	Node    string         `json:"node"`
	Sp      string         `json:"sp"`
	Method  string         `json:"method"`
	HasBody bool           `json:"hasBody"`
	Cxar    string         `json:"cxar"`
	Graph   map[string]beh `json:"graph"`
	Status  int            `json:"status"`
	Body    []string       `json:"body"`
	Hits    []hit          `json:"hits"`
	Marks   []string       `json:"marks"`
	Cl      string         `json:"cl"`
	Ce      string         `json:"ce"`
	Xar     string         `json:"xar"`
	Disc    []string       `json:"disc"`
	Calls   int            `json:"calls"`
	TooMany bool           `json:"tooMany"`
	Final   string         `json:"final"`
	Variant int            `json:"variant,omitempty"` // harness-level spelling variant of a direct request

	// part II (auth) members live in the same struct so that one replay file format serves both
	Rules      []rule  `json:"rules,omitempty"`
	Path       string  `json:"path,omitempty"`
	Creds      *creds  `json:"creds,omitempty"`
	Pass       bool    `json:"pass,omitempty"`
	WWW        string  `json:"www,omitempty"`
	User       string  `json:"user,omitempty"`
	Protecting []int   `json:"protecting,omitempty"`
	Accepting  []int   `json:"accepting,omitempty"`
	Form       int     `json:"form,omitempty"`
	Observed   *authOb `json:"-"`
}

type rule struct {
	User  string   `json:"user"`
	Pw    string   `json:"pw"`
	Res   []string `json:"res"`
	Ex    []string `json:"ex"`
	Realm string   `json:"realm"`
}

type creds struct {
	Kind string `json:"kind"`
	User string `json:"user"`
	Pw   string `json:"pw"`
}

var nodePath = map[string]string{"ba": "/b/a", "bc": "/b/c", "bp": "/b/priv/p", "bq": "/b/priv/q", "f": "/int/f", "g": "/pub/g", "nx": "/int/nx"}
var pathNode = func() map[string]string {
	m := map[string]string{}
	for n, p := range nodePath {
		m[p] = n
	}
	return m
}()
var internalNode = map[string]bool{"bp": true, "bq": true, "f": true, "nx": true}
var fsOf = map[string]int{"ba": 200, "bc": 201, "bp": 202, "bq": 404}
var dsOf = map[string]int{"ba": 403, "bc": 410, "bp": 418, "bq": 451}

func own(n string) string  { return hx.Token(ns, n) }
func drop(n string) string { return hx.Token(ns, "dropped-"+n) }

func graphText(g map[string]beh) string {
	var parts []string
	for _, n := range hx.SortedKeys(g) {
		b := g[n]
		if b.K == "unset" {
			continue
		}
		if b.K == "body" {
			parts = append(parts, n+"=body")
		} else {
			parts = append(parts, n+"="+b.K+":"+b.To)
		}
	}
	return strings.Join(parts, ",")
}

func (c *icase) target() string {
	p := nodePath[c.Node]
	switch c.Sp {
	case "dots":
		p = "/nx/.." + p
	case "dbl":
		p = "/" + p
	case "slash":
		p = "/." + p + "/"
	}
	if c.Sp == "plain" && internalNode[c.Node] {
		switch c.Variant % 4 {
		case 1: // Path.Matches folds case
			p = strings.ToUpper(p[:2]) + p[2:]
		case 2: // percent-encoded letter, decoded by net/http into URL.Path
			p = "/%" + fmt.Sprintf("%02x", p[1]) + p[2:]
		case 3:
			p = p + "?X-Accel-Redirect=" + nodePath["f"]
		}
	}
	return p
}

func (c *icase) key() string {
	k := c.Method + " " + c.target()
	if c.HasBody {
		k += " +body"
	}
	if c.Cxar != "-" {
		k += " +X-Accel-Redirect:" + nodePath[c.Cxar]
	}
	if g := graphText(c.Graph); g != "" {
		k += " [" + g + "]"
	}
	return k
}

// ---- backend --------------------------------------------------------------------------------

type authOb struct {
	Reached bool   `json:"reached"`
	User    string `json:"user"`
	HasUser bool   `json:"has_user"`
	Status  int    `json:"status"`
	WWW     string `json:"www"`
}

type backend struct {
	lns   []net.Listener
	srvs  []*http.Server
	mu    sync.Mutex
	hits  map[string][]hit
	auth  map[string]*authOb
	bad   map[string]string
	seed  int64
	nreqs int64
}

func newBackend(n int, seed int64) (*backend, error) {
	b := &backend{hits: map[string][]hit{}, auth: map[string]*authOb{}, bad: map[string]string{}, seed: seed}
	for i := 0; i < n; i++ {
		ln := hx.ListenFresh()
		srv := &http.Server{Handler: b}
		b.lns = append(b.lns, ln)
		b.srvs = append(b.srvs, srv)
		go srv.Serve(ln)
	}
	return b, nil
}

func (b *backend) addrs() []string {
	var out []string
	for _, ln := range b.lns {
		out = append(out, ln.Addr().String())
	}
	return out
}

func (b *backend) close() {
	for _, s := range b.srvs {
		s.Close()
	}
}

func (b *backend) take(id string) []hit {
	b.mu.Lock()
	defer b.mu.Unlock()
	h := b.hits[id]
	delete(b.hits, id)
	return h
}

func (b *backend) takeAuth(id string) *authOb {
	b.mu.Lock()
	defer b.mu.Unlock()
	a := b.auth[id]
	delete(b.auth, id)
	return a
}

func parseGraph(s string) map[string]beh {
	g := map[string]beh{}
	if s == "" {
		return g
	}
	for _, part := range strings.Split(s, ",") {
		kv := strings.SplitN(part, "=", 2)
		if len(kv) != 2 {
			continue
		}
		kt := strings.SplitN(kv[1], ":", 2)
		bh := beh{K: kt[0], To: "-"}
		if len(kt) == 2 {
			bh.To = kt[1]
		}
		g[kv[0]] = bh
	}
	return g
}

func (b *backend) ServeHTTP(w http.ResponseWriter, r *http.Request) {
	atomic.AddInt64(&b.nreqs, 1)
	id := r.Header.Get("X-Req-Id")
	body, _ := io.ReadAll(r.Body)
	if r.Header.Get("X-Part") == "auth" {
		_, has := r.Header["X-Auth-User"]
		b.mu.Lock()
		b.auth[id] = &authOb{Reached: true, User: r.Header.Get("X-Auth-User"), HasUser: has}
		b.mu.Unlock()
		w.Header().Set("Content-Type", "text/plain")
		io.WriteString(w, own("reached"))
		return
	}
	node := pathNode[r.URL.Path]
	h := hit{Node: node, Method: r.Method, Body: len(body) > 0, Cxar: "-"}
	if v := r.Header.Get("X-Accel-Redirect"); v != "" {
		h.Cxar = pathNode[v]
	}
	b.mu.Lock()
	b.hits[id] = append(b.hits[id], h)
	if len(body) > 0 && string(body) != reqBody {
		b.bad[id] = fmt.Sprintf("backend read body %q", body)
	}
	b.mu.Unlock()
	bh, ok := parseGraph(r.Header.Get("X-Graph"))[node]
	if !ok {
		w.WriteHeader(599) // a path the specification's graph never reaches
		io.WriteString(w, "unscripted "+r.URL.Path)
		return
	}
	n, _ := strconv.Atoi(id)
	w.Header().Set("X-From-"+node, "1")
	w.Header().Set("Content-Type", "text/plain")
	switch bh.K {
	case "body":
		w.WriteHeader(fsOf[node])
		io.WriteString(w, own(node))
		if (int64(n)+b.seed)%3 == 0 { // chunked final response: a stale Content-Length would show
			w.(http.Flusher).Flush()
		}
	case "redir":
		w.Header().Set("X-Accel-Redirect", nodePath[bh.To])
		w.Header().Set("Content-Encoding", "gzip")
		w.WriteHeader(dsOf[node])
	case "both":
		payload := drop(node)
		if (int64(n)+b.seed)%8 == 0 {
			payload += strings.Repeat(".", 9000)
		}
		w.Header().Set("X-Accel-Redirect", nodePath[bh.To])
		w.Header().Set("Content-Encoding", "gzip")
		w.Header().Set("Content-Length", strconv.Itoa(len(payload)))
		w.WriteHeader(dsOf[node])
		io.WriteString(w, payload)
	case "flush":
		w.Header().Set("X-Accel-Redirect", nodePath[bh.To])
		w.Header().Set("Content-Encoding", "gzip")
		w.Header().Set("Trailer", "X-Tr")
		w.WriteHeader(dsOf[node])
		w.(http.Flusher).Flush()
		io.WriteString(w, drop(node))
		w.Header().Set("X-Tr", "t")
	default:
		w.WriteHeader(598)
	}
}

// ---- fixture --------------------------------------------------------------------------------

type fixture struct {
	be    *backend
	site  *hx.Site
	port  int
	asite *hx.Site
	aport int
	cfgs  map[string]int // rule list (JSON) -> vhost index
}

func (f *fixture) close() {
	f.site.Stop()
	if f.asite != nil {
		f.asite.Stop()
	}
	f.be.close()
}

func ruleListKey(rs []rule) string {
	b, _ := json.Marshal(rs)
	return string(b)
}

var authPath = map[string]string{"d": "/d", "dg": "/d/g", "e": "/e", "dgs": "/d/g/s", "ds": "/d/s", "dx": "/dx", "s": "/s", "Dg": "/D/g", "trav": "/nx/../d/g"}

// ruleText renders one basicauth directive; form varies the two syntaxes the parser accepts
func ruleText(r rule, form int) string {
	var blk []string
	head := ""
	if form%2 == 0 {
		head = fmt.Sprintf("basicauth %s %s %s", authPath[r.Res[0]], r.User, r.Pw)
		for _, x := range r.Res[1:] {
			blk = append(blk, authPath[x])
		}
	} else {
		head = fmt.Sprintf("basicauth %s %s", r.User, r.Pw)
		for _, x := range r.Res {
			blk = append(blk, authPath[x])
		}
	}
	if r.Realm != "" {
		if form%3 == 0 {
			blk = append(blk, "realm "+r.Realm)
		} else {
			blk = append([]string{"realm " + r.Realm}, blk...)
		}
	}
	for _, x := range r.Ex {
		blk = append(blk, "exclude "+authPath[x])
	}
	if len(blk) == 0 {
		return head + "\n"
	}
	return head + " {\n" + hx.Indent(strings.Join(blk, "\n")) + "}\n"
}

// formOf: which of the accepted syntaxes a rule list is written in (stable across runs and replays)
func formOf(rl []rule) int {
	h := 0
	for _, c := range []byte(ruleListKey(rl)) {
		h = (h*31 + int(c)) % 9973
	}
	return h
}

func newFixture(dir string, seed int64, ruleLists [][]rule) (*fixture, error) {
	base := filepath.Join(dir, fmt.Sprintf("cx03internal_%d", time.Now().UnixNano()))
	for _, d := range []string{"int", "pub", "b/priv"} {
		if err := os.MkdirAll(filepath.Join(base, d), 0o755); err != nil {
			return nil, err
		}
	}
	// the files of the static nodes; decoys at the backend paths (the proxy must win there)
	os.WriteFile(filepath.Join(base, "int", "f"), []byte(own("f")), 0o644)
	os.WriteFile(filepath.Join(base, "pub", "g"), []byte(own("g")), 0o644)
	os.WriteFile(filepath.Join(base, "b", "priv", "p"), []byte(own("decoy")), 0o644)
	be, err := newBackend(4, seed)
	if err != nil {
		return nil, err
	}
	f := &fixture{be: be, cfgs: map[string]int{}}
	f.port = hx.FreePort()
	internals := []string{"internal /int", "internal /b/priv"}
	if seed%2 == 0 {
		internals[0], internals[1] = internals[1], internals[0]
	}
	cf := fmt.Sprintf("127.0.0.1:%d {\n\tbind 127.0.0.1\n\troot %s\n\t%s\n\t%s\n\tproxy /b %s {\n\t\tpolicy round_robin\n\t}\n}\n",
		f.port, base, internals[0], internals[1], strings.Join(be.addrs(), " "))
	cfp := filepath.Join(base, "Casketfile")
	os.WriteFile(cfp, []byte(cf), 0o644)
	f.site, err = hx.StartHTTP(cf, cfp)
	if err != nil {
		be.close()
		return nil, fmt.Errorf("%v\n%s", err, cf)
	}
	if len(ruleLists) > 0 {
		f.aport = hx.FreePort()
		var b strings.Builder
		for i, rl := range ruleLists {
			f.cfgs[ruleListKey(rl)] = i
			fmt.Fprintf(&b, "ar%d.test:%d {\n\tbind 127.0.0.1\n\ttls off\n", i, f.aport)
			for j, r := range rl {
				b.WriteString(hx.Indent(ruleText(r, int(seed)+formOf(rl)+j)))
			}
			fmt.Fprintf(&b, "\tproxy / %s {\n\t\theader_upstream X-Auth-User {user}\n\t}\n}\n", be.addrs()[i%len(be.addrs())])
		}
		acfp := filepath.Join(base, "Casketfile.auth")
		os.WriteFile(acfp, []byte(b.String()), 0o644)
		f.asite, err = hx.StartHTTP(b.String(), acfp)
		if err != nil {
			f.site.Stop()
			be.close()
			s := b.String()
			if len(s) > 1500 {
				s = s[:1500]
			}
			return nil, fmt.Errorf("auth sites: %v\n%s", err, s)
		}
	}
	return f, nil
}

// ---- client ---------------------------------------------------------------------------------

var reqCounter int64
var runaways int64 // requests that never returned although the backend kept being hit

type client struct {
	addr string
	rc   *hx.RawConn
}

func (c *client) close() {
	if c.rc != nil {
		c.rc.Close()
		c.rc = nil
	}
}

// do sends one request; a connection that broke before any answer (stale keep-alive) is replaced once or
// twice - reset() forgets what the backend recorded for the failed attempt -, a time-out is final.
func (c *client) do(method string, raw []byte, reset func()) (*hx.RawResp, error) {
	var lastErr error
	for try := 0; try < 3; try++ {
		if c.rc == nil {
			rc, err := hx.DialRaw(c.addr)
			if err != nil {
				lastErr = err
				time.Sleep(20 * time.Millisecond)
				continue
			}
			c.rc = rc
		}
		r, err := c.rc.Do(method, raw)
		if err != nil {
			c.close()
			lastErr = err
			if ne, ok := err.(net.Error); ok && ne.Timeout() {
				return nil, err
			}
			reset()
			continue
		}
		if strings.EqualFold(r.Header.Get("Connection"), "close") || r.Err != "" {
			c.close()
		}
		return r, nil
	}
	return nil, lastErr
}

// ---- part I: judgement ------------------------------------------------------------------------

type iobs struct {
	Status int      `json:"status"`
	Body   string   `json:"body"`
	Err    string   `json:"err,omitempty"`
	Hits   []hit    `json:"hits"`
	Hdr    []string `json:"headers"`
	Bad    string   `json:"bad,omitempty"`
}

type finding struct {
	clause, what string
}

func errText(st int) string { return fmt.Sprintf("%d %s\n", st, http.StatusText(st)) }

func expectedBody(c *icase) string {
	var b strings.Builder
	for _, t := range c.Body {
		if t == "err" {
			b.WriteString(errText(c.Status))
		} else {
			b.WriteString(own(t))
		}
	}
	return b.String()
}

func sameHits(a, b []hit, full bool) bool {
	if len(a) != len(b) {
		return false
	}
	for i := range a {
		if a[i].Node != b[i].Node || a[i].Method != b[i].Method || a[i].Body != b[i].Body {
			return false
		}
		if full && a[i].Cxar != b[i].Cxar {
			return false
		}
	}
	return true
}

// judgeInternal evaluates the declarative clauses on one observation; drift = differences from the
// operational model that no clause forbids.
func judgeInternal(c *icase, o *iobs, h http.Header, body []byte) (fs []finding, drift []string) {
	add := func(cl, what string) { fs = append(fs, finding{cl, what}) }
	// a re-issued POST whose body the first round trip consumed: net/http's transport refuses the
	// second round trip (502); the outcome is the code's, not a stated guarantee
	free := c.HasBody && c.Status == 502
	if _, ok := h["X-Accel-Redirect"]; ok {
		add("accel-header", "the response carries X-Accel-Redirect: "+h.Get("X-Accel-Redirect"))
	}
	for k := range h {
		if strings.EqualFold(k, "X-Accel-Redirect") && k != "X-Accel-Redirect" {
			add("accel-header", "the response carries "+k)
		}
	}
	direct := internalNode[c.Node]
	if direct {
		if o.Status != 404 || len(o.Hits) != 0 || o.Body != errText(404) {
			add("direct-internal", fmt.Sprintf("a client request for an internal path got %d %q, backend hits %d (want 404, untouched)", o.Status, o.Body, len(o.Hits)))
		}
	}
	for n := range nodePath {
		if !internalNode[n] {
			continue
		}
		want := false
		for _, t := range c.Body {
			want = want || t == n
		}
		if !want && (bytes.Contains(body, []byte(own(n))) || bytes.Contains(body, []byte(drop(n)))) {
			add("internal-content", "content of the internal path "+nodePath[n]+" delivered although no backend-issued X-Accel-Redirect leads there")
		}
	}
	if bytes.Contains(body, []byte(own("decoy"))) {
		add("internal-content", "the file under the internal path /b/priv/p was served")
	}
	if len(o.Hits) > maxRedirects+1 {
		add("bounded", fmt.Sprintf("%d requests reached the backend for one client request (limit 1+%d)", len(o.Hits), maxRedirects))
	}
	if c.TooMany && (o.Status != 500 || len(o.Hits) != maxRedirects+1) {
		add("bounded", fmt.Sprintf("a redirect cycle ended with status %d after %d backend requests (want 500 after exactly %d)", o.Status, len(o.Hits), maxRedirects+1))
	}
	if !c.TooMany && o.Status == 500 {
		add("bounded", fmt.Sprintf("500 after %d backend requests for a chain of %d redirects", len(o.Hits), len(c.Hits)-1))
	}
	for _, d := range c.Disc {
		if bytes.Contains(body, []byte(drop(d))) {
			add("discarded-trace", "body bytes of the dropped response of "+nodePath[d]+" reached the client")
		}
		if o.Status == dsOf[d] {
			add("discarded-trace", fmt.Sprintf("status %d of the dropped response of %s reached the client", o.Status, nodePath[d]))
		}
	}
	if len(c.Disc) > 0 {
		if ce := h.Get("Content-Encoding"); ce != "" {
			add("discarded-trace", "Content-Encoding: "+ce+" of a dropped response labels the final body")
		}
		if o.Err != "" {
			add("discarded-trace", "the final body does not match its framing (stale Content-Length?): "+o.Err)
		}
	}
	if o.Bad != "" {
		add("reissue", o.Bad)
	}
	for _, ht := range o.Hits {
		if ht.Method != c.Method {
			add("reissue", "the backend saw method "+ht.Method+" for a "+c.Method+" request")
		}
	}
	for i, ht := range o.Hits {
		if ht.Body && i > 0 {
			add("reissue", "the request body was sent to the backend a second time")
		}
	}
	if !free {
		if o.Status != c.Status || string(body) != expectedBody(c) {
			if len(fs) == 0 || !direct {
				add("final", fmt.Sprintf("client got %d %q, the last handler's response is %d %q", o.Status, o.Body, c.Status, expectedBody(c)))
			}
		}
		if !sameHits(o.Hits, c.Hits, true) {
			add("reissue", fmt.Sprintf("requests that reached the backend %v, specification %v", o.Hits, c.Hits))
		}
	} else {
		if o.Status != c.Status {
			drift = append(drift, fmt.Sprintf("status %d vs %d (re-issued POST with consumed body)", o.Status, c.Status))
		}
		// the truncated request may or may not have reached the backend: both are accepted
		var exp []hit
		for _, x := range c.Hits {
			if !x.Broken {
				exp = append(exp, x)
			}
		}
		obs := o.Hits
		if n := len(obs); n == len(exp)+1 && obs[n-1].Node == c.Final && !obs[n-1].Body {
			obs = obs[:n-1]
		}
		if !sameHits(obs, exp, true) {
			drift = append(drift, fmt.Sprintf("hits %v vs %v (re-issued POST with consumed body) %s", o.Hits, c.Hits, c.key()))
		}
	}
	// carried-over headers of dropped responses: observed, not judged
	var marks []string
	for k := range h {
		if strings.HasPrefix(k, "X-From-") {
			marks = append(marks, strings.ToLower(strings.TrimPrefix(k, "X-From-")))
		}
	}
	sort.Strings(marks)
	want := append([]string{}, c.Marks...)
	sort.Strings(want)
	if strings.Join(marks, ",") != strings.Join(want, ",") {
		drift = append(drift, fmt.Sprintf("carried headers %v vs %v", marks, want))
	}
	return fs, drift
}

// evalInternal runs one case and returns the findings (nil, nil, err on transport trouble)
func evalInternal(f *fixture, cl *client, c *icase) ([]finding, []string, *iobs, error) {
	o, h, err := runInternalFull(f, cl, c)
	if err != nil {
		return nil, nil, nil, err
	}
	if o.runaway > 0 {
		atomic.AddInt64(&runaways, 1)
		return []finding{{"bounded", fmt.Sprintf("no answer within the client's time-out while %d requests had reached the backend (limit 1+%d)", o.runaway, maxRedirects)}}, nil, o.obs, nil
	}
	fs, drift := judgeInternal(c, o.obs, h, o.body)
	return fs, drift, o.obs, nil
}

type fullObs struct {
	obs     *iobs
	body    []byte
	runaway int // > 0: the client got no answer while this many requests had reached the backend
}

func runInternalFull(f *fixture, cl *client, c *icase) (*fullObs, http.Header, error) {
	// the reported body is truncated; the complete one is kept for judging
	id := strconv.FormatInt(atomic.AddInt64(&reqCounter, 1), 10)
	var b bytes.Buffer
	// Accept-Encoding is set by the client: otherwise net/http's transport inside the proxy asks for gzip
	// on its own and swallows the (labelled, not really compressed) bodies of the dropped responses
	fmt.Fprintf(&b, "%s %s HTTP/1.1\r\nHost: 127.0.0.1:%d\r\nX-Req-Id: %s\r\nAccept-Encoding: gzip\r\n", c.Method, c.target(), f.port, id)
	if g := graphText(c.Graph); g != "" {
		fmt.Fprintf(&b, "X-Graph: %s\r\n", g)
	}
	if c.Cxar != "-" {
		fmt.Fprintf(&b, "X-Accel-Redirect: %s\r\n", nodePath[c.Cxar])
	}
	if c.HasBody {
		fmt.Fprintf(&b, "Content-Type: text/plain\r\nContent-Length: %d\r\n\r\n%s", len(reqBody), reqBody)
	} else if c.Method == "POST" {
		b.WriteString("Content-Length: 0\r\n\r\n")
	} else {
		b.WriteString("\r\n")
	}
	r, err := cl.do(c.Method, b.Bytes(), func() { f.be.take(id) })
	if err != nil {
		// no answer: unbounded recursion shows as an ever growing number of backend requests
		time.Sleep(200 * time.Millisecond)
		if hs := f.be.take(id); len(hs) > maxRedirects+1 {
			return &fullObs{obs: &iobs{Err: err.Error(), Hits: hs[:maxRedirects+2]}, runaway: len(hs)}, nil, nil
		}
		return nil, nil, err
	}
	o := &iobs{Status: r.Status, Body: string(r.Body), Err: r.Err, Hits: f.be.take(id)}
	for _, k := range hx.SortedKeys(r.Header) {
		if k == "Date" || k == "Etag" || k == "Last-Modified" {
			continue
		}
		o.Hdr = append(o.Hdr, k+": "+strings.Join(r.Header[k], " | "))
	}
	f.be.mu.Lock()
	o.Bad = f.be.bad[id]
	delete(f.be.bad, id)
	f.be.mu.Unlock()
	if len(o.Body) > 300 {
		o.Body = o.Body[:300] + "..."
	}
	return &fullObs{obs: o, body: r.Body}, r.Header, nil
}

// ---- part II: judgement -----------------------------------------------------------------------

func authHeader(cr *creds) string {
	switch cr.Kind {
	case "none":
		return ""
	case "garbage":
		return "Authorization: Basic !!notbase64!!\r\n"
	}
	return "Authorization: Basic " + base64.StdEncoding.EncodeToString([]byte(cr.User+":"+cr.Pw)) + "\r\n"
}

func (c *icase) authKey() string {
	var rs []string
	for _, r := range c.Rules {
		s := r.User + ":" + r.Pw + "@"
		for _, x := range r.Res {
			s += authPath[x] + ","
		}
		for _, x := range r.Ex {
			s += "!" + authPath[x] + ","
		}
		rs = append(rs, strings.TrimRight(s, ",")+" realm="+strconv.Quote(r.Realm))
	}
	cr := c.Creds.Kind
	if cr == "basic" {
		cr = c.Creds.User + ":" + c.Creds.Pw
	}
	return fmt.Sprintf("rules=[%s]/%s %s creds=%s", strings.Join(rs, "; "), c.Method, authPath[c.Path], cr)
}

func realmOf(r rule) string {
	if r.Realm == "" {
		return "Restricted"
	}
	return r.Realm
}

func runAuth(f *fixture, cl *client, c *icase) (*authOb, error) {
	idx, ok := f.cfgs[ruleListKey(c.Rules)]
	if !ok {
		return nil, fmt.Errorf("no site for rule list %s", ruleListKey(c.Rules))
	}
	id := strconv.FormatInt(atomic.AddInt64(&reqCounter, 1), 10)
	raw := fmt.Sprintf("%s %s HTTP/1.1\r\nHost: ar%d.test:%d\r\nX-Req-Id: %s\r\nX-Part: auth\r\n%s\r\n", c.Method, authPath[c.Path], idx, f.aport, id, authHeader(c.Creds))
	r, err := cl.do(c.Method, []byte(raw), func() { f.be.takeAuth(id) })
	if err != nil {
		return nil, err
	}
	o := f.be.takeAuth(id)
	if o == nil {
		o = &authOb{}
	}
	o.Status = r.Status
	o.WWW = r.Header.Get("Www-Authenticate")
	if o.Reached != (r.Status == 200 && bytes.Contains(r.Body, []byte(own("reached")))) {
		return nil, fmt.Errorf("backend reached=%v but client got %d %q", o.Reached, r.Status, r.Body)
	}
	return o, nil
}

func judgeAuth(c *icase, o *authOb) (fs []finding, drift []string) {
	add := func(cl, what string) { fs = append(fs, finding{cl, what}) }
	switch {
	case c.Method == "OPTIONS":
		if !o.Reached {
			add("options-checked", fmt.Sprintf("an OPTIONS request was answered %d instead of being passed on", o.Status))
		}
	case len(c.Protecting) == 0:
		if !o.Reached {
			add("unprotected-rejected", fmt.Sprintf("no rule protects the path, answered %d", o.Status))
		}
	case len(c.Accepting) == 0:
		if o.Reached {
			add("reached-without-valid-credentials", "the request reached the protected resource although no rule protecting it accepts the credentials")
		}
	default:
		if !o.Reached {
			add("valid-credentials-rejected", fmt.Sprintf("credentials valid for rule %d protecting the path were answered %d", c.Accepting[0], o.Status))
		}
	}
	if !o.Reached && c.Method != "OPTIONS" && len(c.Protecting) > 0 && len(c.Accepting) == 0 {
		if o.Status != 401 {
			add("realm", fmt.Sprintf("rejected with status %d, not 401", o.Status))
		} else {
			ok := false
			for _, i := range c.Protecting {
				ok = ok || o.WWW == `Basic realm="`+realmOf(c.Rules[i])+`"`
			}
			if !ok {
				add("realm", "WWW-Authenticate "+strconv.Quote(o.WWW)+" names no realm of a rule that protects the path")
			} else if o.WWW != `Basic realm="`+c.WWW+`"` {
				drift = append(drift, "realm of another rejecting rule: "+o.WWW+" vs "+c.WWW)
			}
		}
	}
	if o.Reached && o.WWW != "" {
		add("realm", "a request that was passed on carries WWW-Authenticate "+strconv.Quote(o.WWW))
	}
	if o.Reached && c.Method != "OPTIONS" && len(c.Accepting) > 0 && o.User != c.Creds.User {
		add("user-placeholder", fmt.Sprintf("{user} is %q for the authenticated user %q", o.User, c.Creds.User))
	}
	if o.Reached && (c.Method == "OPTIONS" || len(c.Accepting) == 0) && o.User != "" {
		drift = append(drift, fmt.Sprintf("{user} = %q on an unauthenticated pass", o.User))
	}
	return fs, drift
}

// ---- the test ---------------------------------------------------------------------------------

func TestCx03Internal(t *testing.T) {
	hx.Quiet()
	res := hx.NewResult("TestCx03Internal", "part I: one case = one terminal state of InternalRedirect.tla (client request x reachable redirect graph over backend paths answering body / X-Accel-Redirect / both / flushed, internal and public targets, cycles); "+
		"part II: one case = one decided request of AuthRules.tla (rule list x path x credentials x method); non-trivial = distinct (graph shape, outcome) resp. (protecting, accepting, outcome) classes")
	defer res.Write(t)

	if rp, ok := hx.LoadReplay[icase](t); ok {
		if rp.Part == "" {
			return // a replay file of another test of this property
		}
		replayOne(t, res, &rp)
		return
	}
	seed := hx.Seed()
	rnd := hx.Rand()
	icases := hx.LoadCases[icase](t, "InternalRedirect")
	acases := hx.LoadCases[icase](t, "AuthRules")

	// ---- selection
	var sel []*icase
	nCycle, maxCycle := 0, 250
	if hx.Thorough() {
		maxCycle = 2500
	}
	perm := rnd.Perm(len(icases))
	for _, i := range perm {
		c := &icases[i]
		c.Part = "internal"
		c.Variant = rnd.Intn(4)
		if c.TooMany {
			if nCycle >= maxCycle {
				continue
			}
			nCycle++
		}
		sel = append(sel, c)
	}
	byCfg := map[string][]*icase{}
	var cfgKeys []string
	for i := range acases {
		c := &acases[i]
		c.Part = "auth"
		k := ruleListKey(c.Rules)
		if _, ok := byCfg[k]; !ok {
			cfgKeys = append(cfgKeys, k)
		}
		byCfg[k] = append(byCfg[k], c)
	}
	sort.Strings(cfgKeys)
	maxCfg := 120
	if hx.Thorough() {
		maxCfg = 1200
	}
	var ruleLists [][]rule
	var asel []*icase
	for _, i := range hx.SampleIdx(rnd, len(cfgKeys), maxCfg) {
		cs := byCfg[cfgKeys[i]]
		ruleLists = append(ruleLists, cs[0].Rules)
		asel = append(asel, cs...)
	}

	fx, err := newFixture(hx.Scratch(t), seed, ruleLists)
	if err != nil {
		res.Infra = "cannot start the fixture: " + err.Error()
		return
	}
	defer fx.close()

	// ---- selftest: corrupt one expectation per part; both must be noticed
	var stI, stA *icase
	if hx.SelfTest() {
		for _, c := range sel {
			if len(c.Body) == 1 && c.Body[0] == "f" && len(c.Disc) > 0 {
				cc := *c
				cc.Body = []string{"g"} // "the public file is delivered" instead of the internal one
				stI = &cc
				break
			}
		}
		for _, c := range asel {
			if c.Method == "GET" && len(c.Protecting) > 0 && len(c.Accepting) == 0 {
				cc := *c
				cc.Accepting = []int{c.Protecting[0]} // "these credentials are valid"
				cc.Pass = true
				stA = &cc
				break
			}
		}
		if stI == nil || stA == nil {
			res.Infra = "selftest: no case to corrupt"
			return
		}
		sel = append(sel, stI)
		asel = append(asel, stA)
	}

	// ---- run
	type pending struct {
		c  *icase
		fs []finding
		o  interface{}
	}
	var mu sync.Mutex
	var suspects []pending
	var infra string
	drifts := 0
	var driftSamples []string
	classSeen := map[string]int{}
	jobs := make(chan *icase, 256)
	var wg sync.WaitGroup
	workers := 12
	for w := 0; w < workers; w++ {
		wg.Add(1)
		go func() {
			defer wg.Done()
			cli := &client{addr: fmt.Sprintf("127.0.0.1:%d", fx.port)}
			cla := &client{addr: fmt.Sprintf("127.0.0.1:%d", fx.aport)}
			defer cli.close()
			defer cla.close()
			for c := range jobs {
				var fs []finding
				var drift []string
				var ob interface{}
				var class string
				if c.Part == "internal" {
					if c.TooMany && atomic.LoadInt64(&runaways) >= 3 {
						continue // every cycle would cost a client time-out
					}
					f1, d1, o, err := evalInternal(fx, cli, c)
					if err != nil {
						mu.Lock()
						infra = "request failed: " + err.Error() + " (" + c.key() + ")"
						mu.Unlock()
						continue
					}
					fs, drift, ob = f1, d1, o
					kinds := map[string]bool{}
					for _, b := range c.Graph {
						if b.K != "unset" {
							kinds[b.K] = true
						}
					}
					class = fmt.Sprintf("I/%s/%d/%v/%s/%v/%d", c.Method, c.Status, internalNode[c.Final], strings.Join(hx.SortedKeys(kinds), "+"), c.TooMany, len(c.Hits))
					if len(fs) == 0 {
						mu.Lock()
						switch {
						case internalNode[c.Node]:
							classSeen["direct-404"]++
						case c.TooMany:
							classSeen["cycle-500"]++
						case c.Status == 200 && c.Final == "f" && len(c.Disc) > 0:
							classSeen["internal-file-via-accel"]++
						case c.Status == 405:
							classSeen["reissued-post-405"]++
						case c.Status == 502:
							classSeen["consumed-body-502"]++
						}
						if kinds["flush"] && len(c.Disc) > 0 {
							classSeen["flushed-redirect"]++
						}
						mu.Unlock()
					}
				} else {
					o, err := runAuth(fx, cla, c)
					if err != nil {
						mu.Lock()
						infra = "request failed: " + err.Error() + " (" + c.authKey() + ")"
						mu.Unlock()
						continue
					}
					fs, drift = judgeAuth(c, o)
					ob = o
					class = fmt.Sprintf("A/%s/%d/%d/%v", c.Method, len(c.Protecting), len(c.Accepting), c.Pass)
					if len(fs) == 0 {
						mu.Lock()
						switch {
						case o.Reached && len(c.Accepting) > 0 && len(c.Protecting) > 1:
							classSeen["auth-one-of-several-rules"]++
						case !o.Reached && len(c.Protecting) > 1:
							classSeen["auth-all-rules-reject"]++
						}
						mu.Unlock()
					}
				}
				res.Count(class)
				mu.Lock()
				if len(drift) > 0 {
					drifts++
					if len(driftSamples) < 5 {
						driftSamples = append(driftSamples, drift[0])
					}
				}
				if len(fs) > 0 {
					suspects = append(suspects, pending{c, fs, ob})
				}
				mu.Unlock()
			}
		}()
	}
	for _, c := range sel {
		jobs <- c
	}
	for _, c := range asel {
		jobs <- c
	}
	close(jobs)
	wg.Wait()
	if infra != "" {
		res.Infra = infra
		return
	}
	for i := 0; i < 3 && i < len(sel); i++ {
		res.Sample(map[string]interface{}{"request": sel[i].key(), "status": sel[i].Status, "body": sel[i].Body, "hits": len(sel[i].Hits)})
	}
	if len(asel) > 0 {
		res.Sample(map[string]interface{}{"request": asel[0].authKey(), "pass": asel[0].Pass})
	}

	// ---- every suspect once more, alone, on a fresh connection; only what reproduces is reported
	noticedI, noticedA := false, false
	sort.Slice(suspects, func(i, j int) bool { return suspects[i].c.anyKey() < suspects[j].c.anyKey() })
	reported, confirmedRunaway := 0, 0
	for _, s := range suspects {
		if reported >= 40 {
			break
		}
		if strings.HasPrefix(s.fs[0].what, "no answer") {
			if confirmedRunaway >= 2 {
				continue // each confirmation costs a client time-out
			}
			confirmedRunaway++
		}
		fs2, ob2, err := evalAny(fx, s.c)
		if err != nil {
			res.Infra = "re-run failed: " + err.Error()
			return
		}
		for _, f1 := range s.fs {
			for _, f2 := range fs2 {
				if f1.clause != f2.clause {
					continue
				}
				if s.c == stI {
					noticedI = true
				}
				if s.c == stA {
					noticedA = true
				}
				cc := *s.c
				res.Add(hx.Mismatch{Key: "C03/" + partName(s.c) + "/" + f2.clause + "/" + s.c.anyKey(), What: f2.what, Case: &cc, Expected: expectedOf(s.c), Observed: ob2})
				reported++
				break
			}
		}
	}
	res.AddExtra("model_drift", drifts)
	res.AddExtra("model_drift_samples", driftSamples)
	res.AddExtra("internal_cases", len(sel))
	res.AddExtra("auth_cases", len(asel))
	res.AddExtra("auth_sites", len(ruleLists))
	res.AddExtra("backend_requests", atomic.LoadInt64(&fx.be.nreqs))
	res.AddExtra("classes_agreed", classSeen)
	if hx.SelfTest() {
		if !noticedI || !noticedA {
			res.Infra = fmt.Sprintf("selftest: corrupted expectation not noticed (internal %v, auth %v)", noticedI, noticedA)
		}
		return
	}
	for _, k := range []string{"direct-404", "cycle-500", "internal-file-via-accel", "reissued-post-405", "consumed-body-502", "flushed-redirect", "auth-one-of-several-rules", "auth-all-rules-reject"} {
		if classSeen[k] == 0 && res.MismatchCount() == 0 {
			res.Infra = "vacuous: no case of class " + k + " agreed with the specification (fixture broken?)"
		}
	}
}

func partName(c *icase) string {
	if c.Part == "auth" {
		return "authrules"
	}
	return "internalredirect"
}

func (c *icase) anyKey() string {
	if c.Part == "auth" {
		return c.authKey()
	}
	return c.key()
}

func expectedOf(c *icase) interface{} {
	if c.Part == "auth" {
		return map[string]interface{}{"pass": c.Pass, "www": c.WWW, "user": c.User, "protecting": c.Protecting, "accepting": c.Accepting}
	}
	return map[string]interface{}{"status": c.Status, "body": c.Body, "hits": c.Hits, "marks": c.Marks, "tooMany": c.TooMany}
}

func evalAny(fx *fixture, c *icase) ([]finding, interface{}, error) {
	if c.Part == "auth" {
		cl := &client{addr: fmt.Sprintf("127.0.0.1:%d", fx.aport)}
		defer cl.close()
		o, err := runAuth(fx, cl, c)
		if err != nil {
			return nil, nil, err
		}
		fs, _ := judgeAuth(c, o)
		return fs, o, nil
	}
	cl := &client{addr: fmt.Sprintf("127.0.0.1:%d", fx.port)}
	defer cl.close()
	fs, _, o, err := evalInternal(fx, cl, c)
	return fs, o, err
}

// replayOne re-runs exactly the stored case on a fresh fixture, twice
func replayOne(t *testing.T, res *hx.Result, c *icase) {
	var rl [][]rule
	if c.Part == "auth" {
		rl = [][]rule{c.Rules}
	}
	res.Count("replay")
	fx, err := newFixture(hx.Scratch(t), hx.Seed(), rl)
	if err != nil {
		res.Infra = "cannot start the fixture: " + err.Error()
		return
	}
	defer fx.close()
	fs1, _, err := evalAny(fx, c)
	if err != nil {
		res.Infra = err.Error()
		return
	}
	fs2, ob, err := evalAny(fx, c)
	if err != nil {
		res.Infra = err.Error()
		return
	}
	for _, f1 := range fs1 {
		for _, f2 := range fs2 {
			if f1.clause == f2.clause {
				cc := *c
				res.Add(hx.Mismatch{Key: "C03/" + partName(c) + "/" + f2.clause + "/" + c.anyKey(), What: "replayed: " + f2.what, Case: &cc, Expected: expectedOf(c), Observed: ob})
				break
			}
		}
	}
}
