package c08

// "A failed attempt leaves the running sites untouched" includes how they log: a reload that is
// rejected after its startup callbacks ran must not change the rotation of a log file the running
// site shares with it (the rolling writer is one per file for the whole process).

import (
	"fmt"
	"os"
	"path/filepath"
	"strings"

	"github.com/tmpim/casket"
	"verifharness/hx"
)

func partRoller(res *hx.Result, scratch string) error {
	dir, err := os.MkdirTemp(scratch, "c08roller")
	if err != nil {
		return err
	}
	defer os.RemoveAll(dir)
	logf := filepath.Join(dir, "access.log")
	port := hx.FreePort()
	busy := hx.ListenFresh()
	defer busy.Close()
	site := func(rotateMB int) string {
		return fmt.Sprintf("127.0.0.1:%d {\n\tbind 127.0.0.1\n\troot %s\n\tlog / %s \"{>X-Id}\" {\n\t\trotate_size %d\n\t\trotate_keep 5\n\t}\n}\n", port, dir, logf, rotateMB)
	}
	in := func(txt string) casket.Input {
		return casket.CasketfileInput{Contents: []byte(txt), Filepath: "Casketfile", ServerTypeName: "http"}
	}
	inst, err := casket.Start(in(site(50)))
	if err != nil {
		return fmt.Errorf("roller part: start: %v", err)
	}
	defer func() { inst.Stop(); inst.ShutdownCallbacks() }()
	// rejected at listen time (second site's port is held), after the log directive's startup callback
	bad := site(1) + fmt.Sprintf("%s {\n\tbind 127.0.0.1\n\troot %s\n}\n", busy.Addr().String(), dir)
	if _, err := inst.Restart(in(bad)); err == nil {
		return fmt.Errorf("roller part: the reload onto a held port was accepted")
	}
	// 1.5 MB of log lines through the running site
	addr := fmt.Sprintf("127.0.0.1:%d", port)
	rc, err := hx.DialRaw(addr)
	if err != nil {
		return err
	}
	defer rc.Close()
	id := strings.Repeat("x", 1000)
	for i := 0; i < 1500; i++ {
		if _, err := rc.Get("GET", "/none", addr, "X-Id: "+id); err != nil {
			return fmt.Errorf("roller part: request: %v", err)
		}
	}
	files, _ := filepath.Glob(filepath.Join(dir, "access*"))
	st, _ := os.Stat(logf)
	res.Count("roller/shared-log-file")
	if len(files) != 1 || st == nil || st.Size() < 1400000 {
		sz := int64(-1)
		if st != nil {
			sz = st.Size()
		}
		res.Add(hx.Mismatch{Key: "C08/residue/log-rotation/reload:listen_busy",
			What: fmt.Sprintf("the running site logs to a file with rotate_size 50; a reload naming the same file with rotate_size 1 was rejected (port in use); after 1.5 MB of log lines the file must still be one file of about 1.5 MB: %d files %v, current size %d", len(files), files, sz)})
	}
	return nil
}
