// C08 - a failed load / validation / reload leaves nothing behind.
// TLC (Residue.tla) emits every history of MaxAttempts attempts over surface x configuration
// kind; each history is executed in this process against the real packages around a running
// base site, followed by a valid start; after every attempt the process-global state is observed
// from outside (listening sockets via /proc/self/net/tcp, event hooks, instance list, the base
// site's answer) and TLC validates the trace against ResidueTrace.tla.
package c08

import (
	"errors"
	"fmt"
	"net"
	"os"
	"path/filepath"
	"sort"
	"strconv"
	"strings"
	"sync"
	"sync/atomic"
	"syscall"
	"testing"
	"time"

	"github.com/tmpim/casket"
	"github.com/tmpim/casket/caskethttp/httpserver"
	_ "github.com/tmpim/casket/onevent"
	"verifharness/hx"
	"verifharness/probe"
)

type attempt struct {
	S string `json:"s"`
	K string `json:"k"`
}

type hcase struct {
	Attempts []attempt `json:"attempts"`
}

func (h hcase) key() string {
	var p []string
	for _, a := range h.Attempts {
		p = append(p, a.S+":"+a.K)
	}
	return strings.Join(p, ",")
}

type event struct {
	Ev      string   `json:"ev"`
	S       string   `json:"s,omitempty"`
	K       string   `json:"k,omitempty"`
	Res     string   `json:"res,omitempty"`
	Bound   []string `json:"bound,omitempty"`
	Hooks   int      `json:"hooks"`
	Insts   int      `json:"insts"`
	Basegen int      `json:"basegen"`
	Key     string   `json:"key,omitempty"`
	Keypos  string   `json:"keypos,omitempty"`
	Err     string   `json:"err,omitempty"`
}

type world struct {
	dir     string
	ports   map[string]int // base, n1, n2, busy
	busy    net.Listener
	base    *casket.Instance
	basegen int
	gen     int
	htbad   string
	// the htpasswd file a malformed attempt of the current history used; it is repaired after
	// the attempt and the history's final valid load names it (the outcome of a load depends on
	// the configuration and the environment as they are then, not on the earlier failure)
	finalUsesHt bool
	htN         int
}

const htGood = "alice:{SHA}W6ph5Mm5Pz8GgiULbPgzG37mj9g=\nbob:{SHA}W6ph5Mm5Pz8GgiULbPgzG37mj9g=\n" // password: password
const htBad = "alice:{SHA}W6ph5Mm5Pz8GgiULbPgzG37mj9g=\nthis line has no colon\nbob:{SHA}W6ph5Mm5Pz8GgiULbPgzG37mj9g=\n"

func (w *world) root(gen int) string {
	d := filepath.Join(w.dir, "g"+strconv.Itoa(gen))
	os.MkdirAll(d, 0o755)
	os.WriteFile(filepath.Join(d, "f.txt"), []byte("gen="+strconv.Itoa(gen)), 0o644)
	return d
}

func (w *world) site(port int, root string, lines ...string) string {
	s := fmt.Sprintf("127.0.0.1:%d {\n\tbind 127.0.0.1\n\troot %s\n", port, root)
	for _, l := range lines {
		s += "\t" + l + "\n"
	}
	return s + "}\n"
}

func (w *world) baseConfig(gen int) casket.Input {
	txt := w.site(w.ports["base"], w.root(gen), "on shutdown /bin/true", fmt.Sprintf("verifgate %d", gen))
	return casket.CasketfileInput{Contents: []byte(txt), Filepath: "Casketfile", ServerTypeName: "http"}
}

// kindLines returns the directive lines that make a configuration of the given kind fail
// (nil for "ok"), and whether the text must be broken at the syntax level.
func (w *world) kindLines(kind string, gen int) []string {
	switch kind {
	case "badarg_timeouts":
		return []string{"timeouts banana"}
	case "badarg_tls":
		return []string{"tls {\n\t\tprotocols tls9.9\n\t}"}
	case "unknown_directive_arg":
		return []string{"status banana /"}
	case "badarg_gzip":
		return []string{"gzip {\n\t\tmin_length banana\n\t}"}
	case "badarg_proxy":
		return []string{"proxy / 127.0.0.1:1 {\n\t\tpolicy nosuchpolicy\n\t}"}
	case "htpasswd_missing":
		return []string{"basicauth / u htpasswd=" + filepath.Join(w.dir, "no-such-htpasswd")}
	case "htpasswd_malformed":
		// (the file name is taken relative to the site root)
		return []string{"basicauth / bob htpasswd=../" + filepath.Base(w.htbad)}
	case "final_htpasswd":
		return []string{"basicauth / bob htpasswd=../" + filepath.Base(w.htbad)}
	case "badarg_errors":
		return []string{"errors {\n\t\t404\n\t}"}
	case "failstartup":
		return []string{fmt.Sprintf("verifgate %d failstartup", gen)}
	case "setup_panic":
		return []string{fmt.Sprintf("verifgate %d panicsetup", gen)}
	case "log_unwritable":
		return []string{"log / /proc/no-such-dir/access.log"}
	}
	return nil
}

func (w *world) config(a attempt, gen int) casket.Input {
	var b strings.Builder
	root := w.root(gen)
	isReload := a.S == "reload" || a.S == "sigreload"
	if isReload {
		b.WriteString(w.site(w.ports["base"], root, "on shutdown /bin/true", fmt.Sprintf("verifgate %d", gen)))
	}
	lines := []string{"on shutdown /bin/true"}
	if isReload {
		lines = nil // one 'on' per configuration
	}
	kk := a.K
	if a.K == "ok" && w.finalUsesHt {
		kk = "final_htpasswd"
	}
	lines = append(lines, w.kindLines(kk, gen)...)
	if a.K == "listen_busy_udp" {
		lines = append(lines, "tls self_signed") // QUIC (switched on around this attempt) needs a TLS site
	}
	b.WriteString(w.site(w.ports["n1"], root, lines...))
	second := w.ports["n2"]
	if a.K == "listen_busy" {
		second = w.ports["busy"]
	}
	b.WriteString(w.site(second, root))
	switch a.K {
	case "syntax":
		b.WriteString("127.0.0.1:1 {\n\troot /\n")
	case "import_missing":
		b.WriteString("import " + filepath.Join(w.dir, "no-such-file") + "\n")
	}
	return casket.CasketfileInput{Contents: []byte(b.String()), Filepath: "Casketfile", ServerTypeName: "http"}
}

// listening returns the abstract names of the TCP sockets this process listens on: every file
// descriptor of the process that is a socket in listening state (SO_ACCEPTCONN), by local port.
func (w *world) listening() ([]string, error) {
	fds, err := os.ReadDir("/proc/self/fd")
	if err != nil {
		return nil, err
	}
	names := map[string]int{}
	for _, e := range fds {
		fd, err := strconv.Atoi(e.Name())
		if err != nil {
			continue
		}
		acc, err := syscall.GetsockoptInt(fd, syscall.SOL_SOCKET, syscall.SO_ACCEPTCONN)
		if err != nil || acc == 0 {
			continue // not a socket, or not listening
		}
		sa, err := syscall.Getsockname(fd)
		if err != nil {
			continue
		}
		port := 0
		switch a := sa.(type) {
		case *syscall.SockaddrInet4:
			port = a.Port
		case *syscall.SockaddrInet6:
			port = a.Port
		default:
			continue
		}
		name := "other:" + strconv.Itoa(port)
		for n, p := range w.ports {
			if p == port {
				name = n
			}
		}
		if name != "busy" { // the harness's own listener
			names[name]++
		}
	}
	var out []string
	for n, k := range names {
		out = append(out, n)
		// further descriptors of the same listening socket (copies made for a reload) count:
		// at an observation point every socket is held exactly once
		for i := 1; i < k; i++ {
			out = append(out, fmt.Sprintf("%s(copy %d)", n, i))
		}
	}
	sort.Strings(out)
	if len(out) == 0 {
		out = []string{"<nothing>"}
	}
	return out, nil
}

func (w *world) baseAnswer() int {
	addr := "127.0.0.1:" + strconv.Itoa(w.ports["base"])
	r, err := hx.OneShot(addr, "GET", "/f.txt", addr)
	if err != nil || r.Status != 200 || !strings.HasPrefix(string(r.Body), "gen=") {
		return -1
	}
	g, _ := strconv.Atoi(string(r.Body)[4:])
	return g
}

// obs observes the process; basegen is reported relative to the number of base reloads so far
// (the specification counts base generations 1, 2, 3 ...; w.basegen is the absolute one).
func (w *world) obs(baseCount int) (event, error) {
	b, err := w.listening()
	// a server stopped before its Serve goroutine ran closes its listener a moment later: let
	// the socket table settle (a leaked socket stays, a closing one is gone within milliseconds)
	for i := 0; err == nil && len(b) > 1 && i < 60; i++ {
		time.Sleep(5 * time.Millisecond)
		b, err = w.listening()
	}
	if err != nil {
		return event{}, err
	}
	bg := baseCount
	if w.baseAnswer() != w.basegen {
		bg = -1 // the base site does not answer with its configuration any more
	}
	return event{Ev: "obs", Bound: b, Hooks: len(casket.ListPlugins()["event_hooks"]), Insts: len(casket.Instances()), Basegen: bg}, nil
}

var (
	sigOnce  sync.Once
	sigInput atomic.Value // casket.Input handed out by the registered loader
	sigDone  = make(chan string, 1)
)

// reloadBySignal reloads the base instance the way production does: SIGUSR1 to the process, the
// handler asks the registered loader for the Casketfile, purges the event hooks and restarts;
// callback gates (verifgate in the base site) tell how it ended.
// loaderBroken makes the registered loader fail (the Casketfile cannot be read).
var loaderBroken atomic.Bool

func (w *world) reloadBySignal(in casket.Input) (*casket.Instance, error) {
	sigInput.Store(in)
	select {
	case <-sigDone:
	default:
	}
	old := w.base
	hooksBefore := len(casket.ListPlugins()["event_hooks"])
	if err := syscall.Kill(os.Getpid(), syscall.SIGUSR1); err != nil {
		return nil, err
	}
	select {
	case r := <-sigDone:
		if r == "err" {
			// the handler restores the hooks after Restart returned (the gate fired inside Restart, and
			// the handler runs in its own goroutine): give it up to half a second to bring the
			// registry back to what it was - what is there after that is what gets observed
			for i := 0; i < 500 && len(casket.ListPlugins()["event_hooks"]) != hooksBefore; i++ {
				time.Sleep(time.Millisecond)
			}
			return nil, fmt.Errorf("reload by SIGUSR1 failed")
		}
	case <-time.After(20 * time.Second):
		return nil, fmt.Errorf("reload by SIGUSR1 did not finish")
	}
	for i := 0; i < 5000; i++ {
		if l := casket.Instances(); len(l) == 1 && l[0] != old {
			return l[0], nil
		}
		time.Sleep(100 * time.Microsecond)
	}
	return nil, fmt.Errorf("instance list not updated after a reload by SIGUSR1")
}

// timed runs f under a watchdog; a load that never returns is an observation, not a harness fault.
func timed(f func() error) (err error, hung bool) {
	done := make(chan error, 1)
	go func() { done <- f() }()
	select {
	case err = <-done:
		return err, false
	case <-time.After(15 * time.Second):
		return nil, true
	}
}

func TestC08(t *testing.T) {
	hx.Quiet()
	res := hx.NewResult("TestC08", "one case = one history of attempts (surface validate/start/reload x 14 configuration kinds failing at parse, early/late directive setup, startup callback or listen) emitted by TLC from Residue.tla, executed around a running base site and followed by a valid start; non-trivial = history with a failing attempt on the start or reload surface")
	defer res.Write(t)

	var cases []hcase
	if rp, ok := hx.LoadReplay[hcase](t); ok {
		cases = []hcase{rp}
	} else {
		cases = hx.LoadCases[hcase](t, "Residue")
	}
	rnd := hx.Rand()
	limit := 700
	if hx.Thorough() {
		limit = 6000
	}
	if len(cases) > limit {
		var cc []hcase
		for _, i := range hx.SampleIdx(rnd, len(cases), limit) {
			cc = append(cc, cases[i])
		}
		cases = cc
	}

	w := &world{dir: t.TempDir(), ports: map[string]int{"base": hx.FreePort(), "n1": hx.FreePort(), "n2": hx.FreePort()}}
	var err error
	w.busy = hx.ListenFresh()
	defer w.busy.Close()
	w.ports["busy"] = w.busy.Addr().(*net.TCPAddr).Port
	w.gen, w.basegen = 1, 1
	sigOnce.Do(func() {
		casket.RegisterCasketfileLoader("verifc08", casket.LoaderFunc(func(string) (casket.Input, error) {
			if loaderBroken.Load() {
				// the handler logs the error and goes back to waiting for signals: tell the driver
				go func() {
					time.Sleep(30 * time.Millisecond)
					select {
					case sigDone <- "err":
					default:
					}
				}()
				return nil, errors.New("scripted: the Casketfile cannot be read")
			}
			in, _ := sigInput.Load().(casket.Input)
			return in, nil
		}))
		casket.TrapSignals()
		time.Sleep(20 * time.Millisecond)
	})
	probe.SetGate(func(point string, gen int) {
		switch point {
		case "restartfailed":
			select {
			case sigDone <- "err":
			default:
			}
		case "shutdown":
			select {
			case sigDone <- "ok":
			default:
			}
		}
	})
	defer probe.SetGate(nil)
	first := w.baseConfig(1)
	sigInput.Store(first)
	if loaded, lerr := casket.LoadCasketfile("http"); lerr == nil && loaded != nil {
		first = loaded // records the loader that SIGUSR1 reloads will use
	}
	w.base, err = casket.Start(first)
	if err != nil {
		res.Infra = "base start: " + err.Error()
		return
	}
	defer func() { w.base.Stop(); w.base.ShutdownCallbacks() }()

	durs := map[string]time.Duration{}
	defer func() {
		ms := map[string]int64{}
		for k, v := range durs {
			ms[k] = v.Milliseconds()
		}
		res.AddExtra("time_ms", ms)
	}()
	tw := hx.NewTrace(t, "residue.ndjson")
	ntraces := 0
	aborted := false
	for ci, h := range cases {
		if aborted {
			break
		}
		// every history starts from "only the base site": hooks and generations accumulate
		o0, err := w.obs(1)
		if err != nil {
			res.Infra = err.Error()
			break
		}
		baseCount := 1
		var evs []event
		evs = append(evs, event{Ev: "reset", Hooks: o0.Hooks, Basegen: 1, Key: h.key(), Keypos: "before"})
		atts := append(append([]attempt{}, h.Attempts...), attempt{S: "start", K: "ok"}) // the final valid load
		w.htN++
		w.htbad = filepath.Join(w.dir, fmt.Sprintf("htpasswd-%d", w.htN))
		w.finalUsesHt = false
		usedHt := false
		for ai, a := range atts {
			if a.K == "htpasswd_malformed" {
				os.WriteFile(w.htbad, []byte(htBad), 0o644)
				usedHt = true
			}
			w.finalUsesHt = ai == len(atts)-1 && usedHt
			w.gen++
			gen := w.gen
			in := w.config(a, gen)
			evs = append(evs, event{Ev: "call", S: a.S, K: a.K})
			var inst *casket.Instance
			var udpHeld net.PacketConn
			if a.K == "listen_busy_udp" {
				// the http server type also listens on UDP when QUIC is on; somebody else holds that port
				httpserver.QUIC = true
				udpHeld, _ = net.ListenPacket("udp", "127.0.0.1:"+strconv.Itoa(w.ports["n1"]))
			}
			t0 := time.Now()
			rerr, hung := timed(func() error {
				var e error
				switch a.S {
				case "validate":
					e = casket.ValidateAndExecuteDirectives(in, nil, true)
				case "start":
					inst, e = casket.Start(in)
				case "reload":
					inst, e = w.base.Restart(in)
				case "sigreload":
					loaderBroken.Store(a.K == "loader_fail")
					inst, e = w.reloadBySignal(in)
					loaderBroken.Store(false)
				}
				return e
			})
			durs[a.S] += time.Since(t0)
			if a.K == "listen_busy_udp" {
				httpserver.QUIC = false
				if udpHeld != nil {
					udpHeld.Close()
				}
			}
			if a.K == "htpasswd_malformed" {
				os.WriteFile(w.htbad, []byte(htGood), 0o644) // the operator repairs the file
			}
			if hung {
				res.Add(hx.Mismatch{Key: "C08/hang/" + a.S + ":" + a.K, What: fmt.Sprintf("attempt %s of a %s configuration did not return within 15 s in history %s", a.S, a.K, h.key()), Case: h})
				aborted = true
				break
			}
			r := event{Ev: "ret", Res: "ok"}
			if rerr != nil {
				r.Res, r.Err = "err", rerr.Error()
				if len(r.Err) > 160 {
					r.Err = r.Err[:160]
				}
			}
			evs = append(evs, r)
			if rerr == nil && (a.S == "reload" || a.S == "sigreload") {
				w.base, w.basegen = inst, gen
				baseCount++
			}
			// observe; a started second instance must answer like a fresh one, then it is stopped
			if rerr == nil && a.S == "start" {
				addr := "127.0.0.1:" + strconv.Itoa(w.ports["n1"])
				var hdr []string
				if w.finalUsesHt {
					hdr = []string{"Authorization: Basic Ym9iOnBhc3N3b3Jk"} // bob:password
				}
				rr, e := hx.OneShot(addr, "GET", "/f.txt", addr, hdr...)
				if e != nil || rr.Status != 200 || string(rr.Body) != "gen="+strconv.Itoa(gen) {
					res.Add(hx.Mismatch{Key: "C08/valid-load-misbehaves/" + a.S, What: fmt.Sprintf("after history %s a valid configuration started but does not answer like in a fresh process: %v %+v", h.key(), e, rr), Case: h})
				}
				inst.Stop()
				inst.ShutdownCallbacks()
				evs = append(evs, event{Ev: "cleanup"})
			}
			if rerr == nil && (a.S == "reload" || a.S == "sigreload") {
				// back to a base-only configuration
				w.gen++
				ni, e := w.base.Restart(w.baseConfig(w.gen))
				if e != nil {
					res.Add(hx.Mismatch{Key: "C08/rebase-failed", What: fmt.Sprintf("reload back to the base configuration failed after history %s: %v", h.key(), e), Case: h})
					aborted = true
					break
				}
				w.base, w.basegen = ni, w.gen
				baseCount++
				evs = append(evs, event{Ev: "rebase"})
			}
			t1 := time.Now()
			o, err := w.obs(baseCount)
			durs["obs"] += time.Since(t1)
			if err != nil {
				res.Infra = err.Error()
				aborted = true
				break
			}
			evs = append(evs, o)
			if len(o.Bound) != 1 || o.Bound[0] != "base" {
				// every observation point is one where only the base site may listen; what is
				// still bound after the settle time was left behind by this attempt. Later
				// histories would run on a tainted process: stop here.
				res.Add(hx.Mismatch{Key: "C08/residue/sockets/" + a.S + ":" + a.K, What: fmt.Sprintf("after a %s attempt with a %s configuration (returned %s) the process listens on %v, expected only the base site's socket (history %s)", a.S, a.K, r.Res, o.Bound, h.key()), Case: h, Observed: o})
				aborted = true
				break
			}
		}
		if hx.SelfTest() && ci == 5 {
			// pretend one more socket was listening after the first attempt
			for i := range evs {
				if evs[i].Ev == "obs" {
					evs[i].Bound = append(evs[i].Bound, "n2")
					break
				}
			}
		}
		for _, e := range evs {
			tw.Emit(e)
		}
		ntraces++
		// between two histories (outside the traces): after a history with a refused reload the base
		// lineage is retired - stopped, waited for, replaced by a freshly started one. Waiting must end:
		// whatever a refused reload added to the lineage's wait group it has to have given back.
		refusedReload := false
		for _, a := range h.Attempts {
			if (a.S == "reload" || a.S == "sigreload") && a.K != "ok" {
				refusedReload = true
			}
		}
		if refusedReload && !aborted {
			old := w.base
			old.Stop()
			old.ShutdownCallbacks()
			waited := make(chan struct{})
			go func() { old.Wait(); close(waited) }()
			select {
			case <-waited:
			case <-time.After(5 * time.Second):
				res.Add(hx.Mismatch{Key: "C08/residue/wait-never-returns/" + h.key(), Case: h,
					What: "after history " + h.key() + " (a refused reload in it) the base instance was stopped, but Wait() on it does not return: the refused reload left something in the lineage's wait group"})
				aborted = true
			}
			w.gen++
			nb, e := casket.Start(w.baseConfig(w.gen))
			if e != nil {
				res.Infra = "restarting the base site between two histories: " + e.Error()
				aborted = true
				break
			}
			w.base, w.basegen = nb, w.gen
		}
		nt := ""
		for _, a := range h.Attempts {
			if a.K != "ok" && a.S != "validate" {
				nt = h.key()
			}
		}
		res.Count(nt)
		if ci%131 == 0 {
			res.Sample(map[string]interface{}{"history": h.Attempts, "trace": evs})
		}
	}
	if !aborted && !hx.SelfTest() && hx.Replay() == "" {
		if err := partRoller(res, t.TempDir()); err != nil && res.Infra == "" {
			res.Infra = err.Error()
		}
	}
	tw.Close()
	res.Traces = append(res.Traces, hx.TraceFile{Spec: "residue", File: tw.Path, Count: ntraces, Key: "residue"})
	res.Replayed = ntraces
}
