// C19 - bytes from network peers cannot crash handlers or skew what is recorded about a ClientHello.
//
// Binding of specs/HelloConn.tla, HelloConnTrace.tla and PeerGrammar.tla to the real code:
//
//   - every segmentation TLC enumerated is replayed through the REAL clientHelloConn (built as
//     tlsHelloListener.Accept builds it) over a chunking net.Conn, for a genuine Go ClientHello and
//     a synthetic Firefox-shaped one; the read-by-read trace goes to TLC (HelloConnTrace.tla); a
//     sample of segmentations runs a complete TLS handshake (tls.Server on top, tls.Client peer).
//   - every token string / structure PeerGrammar.tla enumerates is fed to the parser it is meant
//     for under recover and a watchdog: push Link parser and middleware, getVersion and the
//     interception handler, the looksLike heuristics, the replacer (templates and peer-controlled
//     values), Path.Matches, basicauth, the FastCGI record reader, parseRawClientHello with
//     perturbed length fields. A sample also travels through running casket instances (plain and
//     TLS); the process log is watched for "[PANIC".
package c19

import (
	"bytes"
	"context"
	"crypto/ecdsa"
	"crypto/elliptic"
	"crypto/rand"
	"crypto/tls"
	"crypto/x509"
	"crypto/x509/pkix"
	"encoding/binary"
	"encoding/json"
	"fmt"
	"io"
	"log"
	"math/big"
	mrand "math/rand"
	"net"
	"net/http"
	"net/http/httptest"
	"net/url"
	"os"
	"path/filepath"
	"strconv"
	"strings"
	"sync"
	"testing"
	"time"

	"github.com/tmpim/casket/caskethttp/basicauth"
	"github.com/tmpim/casket/caskethttp/fastcgi"
	"github.com/tmpim/casket/caskethttp/httpserver"
	"github.com/tmpim/casket/caskethttp/push"
	"github.com/tmpim/casket/caskettls"
	"verifharness/hx"
)

// ---------------------------------------------------------------------------- cases

type segCase struct {
	N     int             `json:"n"`
	M     int             `json:"m"`
	Segs  []int           `json:"segs"`
	Steps [][]interface{} `json:"steps"`           // rows [k, buffered after, readHello after] of the model
	Hello string          `json:"hello,omitempty"` // which real hello the harness used ("go" | "firefox")
}

type fcgiTok struct {
	T     string `json:"t"`
	Claim string `json:"claim"`
	Pad   string `json:"pad"`
}

type helloBase struct {
	Sid     int      `json:"sid"`
	Ciphers []uint16 `json:"ciphers"`
	Comp    []byte2  `json:"comp"`
	Exts    []uint16 `json:"exts"`
	Curves  []uint16 `json:"curves"`
	Points  []byte2  `json:"points"`
}

// byte2 is a small number that JSON carries as a number (a []byte would be base64).
type byte2 uint8

type gcase struct {
	K       string     `json:"k"`
	T       []string   `json:"t,omitempty"`
	N       int        `json:"n,omitempty"`      // link: predicted number of resources
	Branch  string     `json:"branch,omitempty"` // ua: predicted heuristic
	Hello   *helloBase `json:"hello,omitempty"`  // hellobase
	Ciphers []uint16   `json:"ciphers,omitempty"`
	Exts    []uint16   `json:"exts,omitempty"`
	Curves  []uint16   `json:"curves,omitempty"`
	Recs    []fcgiTok  `json:"recs,omitempty"`
	// replay only
	With string `json:"with,omitempty"` // e.g. the info a ua case was combined with
	Via  string `json:"via,omitempty"`  // "casket": through a running instance
}

type anyCase struct {
	Seg *segCase `json:"seg,omitempty"`
	G   *gcase   `json:"g,omitempty"`
}

func (g *gcase) text() string { return strings.Join(g.T, "") }

// ---------------------------------------------------------------------------- guard: recover + watchdog

// guard runs f; it reports a panic value or "HANG" when f does not return in time.
func guard(f func()) (bad string) {
	done := make(chan string, 1)
	go func() {
		defer func() {
			if p := recover(); p != nil {
				done <- fmt.Sprintf("panic: %v", p)
				return
			}
			done <- ""
		}()
		f()
	}()
	select {
	case s := <-done:
		return s
	case <-time.After(10 * time.Second):
		return "HANG: no result after 10s"
	}
}

// ---------------------------------------------------------------------------- ClientHello bytes

func claim(mode string, truth, max int) int {
	switch mode {
	case "m1":
		return (truth - 1 + max + 1) % (max + 1)
	case "p1":
		return (truth + 1) % (max + 1)
	case "zero":
		return 0
	case "max":
		return max
	}
	return truth
}

var pertFields = []string{"sid", "cs", "cm", "extall", "ext10", "curves", "ext11", "points"}

// buildHello serialises a hello; pert maps a length field to its perturbation mode.
// It returns the handshake message (what parseRawClientHello gets) and the full TLS record.
func buildHello(b *helloBase, pert map[string]string) (msg, record []byte) {
	var body bytes.Buffer
	body.Write([]byte{0x03, 0x03})
	for i := 0; i < 32; i++ {
		body.WriteByte(byte(0xA0 + i%16))
	}
	body.WriteByte(byte(claim(pert["sid"], b.Sid, 255)))
	body.Write(bytes.Repeat([]byte{0x5D}, b.Sid))
	put16 := func(w *bytes.Buffer, v int) { w.WriteByte(byte(v >> 8)); w.WriteByte(byte(v)) }
	put16(&body, claim(pert["cs"], 2*len(b.Ciphers), 65535))
	for _, c := range b.Ciphers {
		put16(&body, int(c))
	}
	body.WriteByte(byte(claim(pert["cm"], len(b.Comp), 255)))
	for _, c := range b.Comp {
		body.WriteByte(byte(c))
	}
	if len(b.Exts) > 0 {
		var exts bytes.Buffer
		for _, t := range b.Exts {
			var data bytes.Buffer
			field := ""
			switch t {
			case 10:
				field = "ext10"
				put16(&data, claim(pert["curves"], 2*len(b.Curves), 65535))
				for _, c := range b.Curves {
					put16(&data, int(c))
				}
			case 11:
				field = "ext11"
				data.WriteByte(byte(claim(pert["points"], len(b.Points), 255)))
				for _, p := range b.Points {
					data.WriteByte(byte(p))
				}
			default:
				data.Write(make([]byte, int(t)%3))
			}
			put16(&exts, int(t))
			if field != "" {
				put16(&exts, claim(pert[field], data.Len(), 65535))
			} else {
				put16(&exts, data.Len())
			}
			exts.Write(data.Bytes())
		}
		put16(&body, claim(pert["extall"], exts.Len(), 65535))
		body.Write(exts.Bytes())
	}
	msg = append([]byte{0x01, byte(body.Len() >> 16), byte(body.Len() >> 8), byte(body.Len())}, body.Bytes()...)
	record = append([]byte{0x16, 0x03, 0x01, byte(len(msg) >> 8), byte(len(msg))}, msg...)
	return
}

func infoString(i caskettls.ClientHelloInfo) string {
	return fmt.Sprintf("v=%d cs=%v ext=%v cm=%v curves=%v points=%v", i.Version, i.CipherSuites, i.Extensions, i.CompressionMethods, i.Curves, i.Points)
}

func baseInfoString(b *helloBase) string {
	cm := make([]byte, len(b.Comp))
	for i, c := range b.Comp {
		cm[i] = byte(c)
	}
	var curves []tls.CurveID
	has10, has11 := false, false
	for _, e := range b.Exts {
		if e == 10 {
			has10 = true
		}
		if e == 11 {
			has11 = true
		}
	}
	if has10 {
		for _, c := range b.Curves {
			curves = append(curves, tls.CurveID(c))
		}
	}
	var pts []uint8
	if has11 {
		for _, p := range b.Points {
			pts = append(pts, uint8(p))
		}
	}
	return infoString(caskettls.ClientHelloInfo{Version: 0x0303, CipherSuites: b.Ciphers, Extensions: b.Exts, CompressionMethods: cm, Curves: curves, Points: pts})
}

// goHello captures the first flight of a genuine Go TLS client: one record holding the ClientHello.
func goHello() ([]byte, error) {
	a, b := net.Pipe()
	defer a.Close()
	defer b.Close()
	go func() {
		c := tls.Client(a, &tls.Config{ServerName: "hello.test", InsecureSkipVerify: true, NextProtos: []string{"h2", "http/1.1"}})
		c.SetDeadline(time.Now().Add(5 * time.Second))
		c.Handshake()
	}()
	b.SetDeadline(time.Now().Add(5 * time.Second))
	hdr := make([]byte, 5)
	if _, err := io.ReadFull(b, hdr); err != nil {
		return nil, err
	}
	n := int(binary.BigEndian.Uint16(hdr[3:]))
	body := make([]byte, n)
	if _, err := io.ReadFull(b, body); err != nil {
		return nil, err
	}
	return append(hdr, body...), nil
}

// ---------------------------------------------------------------------------- chunking conn

type chunkConn struct {
	data   []byte
	chunks []int // bytes to hand out per Read call; when used up: the rest at once
	pos    int
	idx    int
}

func (c *chunkConn) Read(b []byte) (int, error) {
	if c.pos >= len(c.data) {
		return 0, io.EOF
	}
	n := len(c.data) - c.pos
	if c.idx < len(c.chunks) {
		n = c.chunks[c.idx]
		c.idx++
	}
	if n > len(b) {
		n = len(b)
	}
	copy(b, c.data[c.pos:c.pos+n])
	c.pos += n
	return n, nil
}
func (c *chunkConn) Write(b []byte) (int, error)      { return len(b), nil }
func (c *chunkConn) Close() error                     { return nil }
func (c *chunkConn) LocalAddr() net.Addr              { return fakeAddr("local") }
func (c *chunkConn) RemoteAddr() net.Addr             { return fakeAddr("203.0.113.7:40000") }
func (c *chunkConn) SetDeadline(time.Time) error      { return nil }
func (c *chunkConn) SetReadDeadline(time.Time) error  { return nil }
func (c *chunkConn) SetWriteDeadline(time.Time) error { return nil }

type fakeAddr string

func (a fakeAddr) Network() string { return "tcp" }
func (a fakeAddr) String() string  { return string(a) }

// ---------------------------------------------------------------------------- segmentation replay

type readEv struct {
	Ev   string `json:"ev"`
	N    int    `json:"n"`
	M    int    `json:"m"`
	K    int    `json:"k"`
	Buf  int    `json:"buf"`
	Done bool   `json:"done"`
	Rec  string `json:"rec"`
}

func (e readEv) MarshalJSON() ([]byte, error) {
	switch e.Ev {
	case "case":
		return json.Marshal(map[string]interface{}{"ev": "case", "n": e.N, "m": e.M})
	case "read":
		return json.Marshal(map[string]interface{}{"ev": "read", "k": e.K, "buf": e.Buf, "done": e.Done, "rec": e.Rec})
	}
	return json.Marshal(map[string]interface{}{"ev": e.Ev})
}

// realOffsets maps the abstract positions 0..5+n+m to byte offsets of record+extra:
// the five header bytes one to one, the hello in n blocks, the extra bytes in m blocks.
func realOffsets(n, m, helloLen, extraLen int) []int {
	off := []int{0, 1, 2, 3, 4, 5}
	for j := 1; j <= n; j++ {
		off = append(off, 5+helloLen*j/n)
	}
	for j := 1; j <= m; j++ {
		off = append(off, 5+helloLen+extraLen*j/m)
	}
	return off
}

type segOutcome struct {
	events   []readEv
	finalRec string
	panicked string
	drift    int
}

// runSeg feeds record+extra to a fresh clientHelloConn in the chunks of the case.
func runSeg(c *segCase, record []byte) segOutcome {
	helloLen := len(record) - 5
	if c.N == 0 {
		// abstract hello of length 0: a record that announces an empty fragment
		record = []byte{0x16, 0x03, 0x01, 0, 0}
		helloLen = 0
	}
	extraLen := 0
	if c.M > 0 {
		extraLen = 37 * c.M
	}
	data := append(append([]byte{}, record...), bytes.Repeat([]byte{0x17}, extraLen)...)
	off := realOffsets(c.N, c.M, helloLen, extraLen)
	var chunks []int
	pos := 0
	for _, k := range c.Segs {
		chunks = append(chunks, off[pos+k]-off[pos])
		pos += k
	}
	want := infoString(httpserver.VerifParseClientHello(record[5:]))
	out := segOutcome{finalRec: "none"}
	out.events = append(out.events, readEv{Ev: "case", N: helloLen, M: extraLen})
	inner := &chunkConn{data: data, chunks: chunks}
	out.panicked = guard(func() {
		hc, probe := httpserver.VerifNewHelloConn(inner)
		buf := make([]byte, 1<<17)
		delAbs, complAt := 0, -1
		for i, k := range chunks {
			if k == 0 {
				continue // (cannot happen: blocks are non-empty for the hellos used)
			}
			n, err := hc.Read(buf)
			if err != nil || n != k {
				panic(fmt.Sprintf("harness: Read returned %d, %v for a %d-byte chunk", n, err, k))
			}
			rec := "none"
			if info, ok := probe.Info(); ok {
				if infoString(info) == want {
					rec = "match"
				} else {
					rec = "differs"
				}
			}
			out.finalRec = rec
			out.events = append(out.events, readEv{Ev: "read", K: k, Buf: probe.Buffered(), Done: probe.ReadHello(), Rec: rec})
			// drift against the model's step table (operational detail the statement does not decide)
			delAbs += c.Segs[i]
			if i < len(c.Steps) {
				mdone, _ := c.Steps[i][2].(bool)
				if mdone && complAt < 0 {
					complAt = off[delAbs]
				}
				pred := off[delAbs]
				if mdone {
					pred = complAt - (5 + helloLen)
				}
				if mdone != probe.ReadHello() || pred != probe.Buffered() {
					out.drift++
				}
			}
		}
	})
	out.events = append(out.events, readEv{Ev: "end"})
	return out
}

func segKey(c *segCase, clause string) string {
	var s []string
	for _, k := range c.Segs {
		s = append(s, strconv.Itoa(k))
	}
	return fmt.Sprintf("C19/hello-split/%s/hello=%s/n=%d/m=%d/segs=%s", clause, c.Hello, c.N, c.M, strings.Join(s, "+"))
}

// ---------------------------------------------------------------------------- a complete handshake over a chunked connection

type limitConn struct {
	net.Conn
	mu     sync.Mutex
	chunks []int
	idx    int
	seen   []byte // everything the server side has read
}

func (l *limitConn) Read(b []byte) (int, error) {
	l.mu.Lock()
	lim := len(b)
	if l.idx < len(l.chunks) {
		if l.chunks[l.idx] < lim {
			lim = l.chunks[l.idx]
		}
		l.idx++
	}
	l.mu.Unlock()
	n, err := l.Conn.Read(b[:lim])
	l.mu.Lock()
	l.seen = append(l.seen, b[:n]...)
	l.mu.Unlock()
	return n, err
}

func selfSigned() (tls.Certificate, error) {
	key, err := ecdsa.GenerateKey(elliptic.P256(), rand.Reader)
	if err != nil {
		return tls.Certificate{}, err
	}
	tpl := &x509.Certificate{SerialNumber: big.NewInt(1), Subject: pkix.Name{CommonName: "hello.test"}, DNSNames: []string{"hello.test"},
		NotBefore: time.Now().Add(-time.Hour), NotAfter: time.Now().Add(24 * time.Hour), KeyUsage: x509.KeyUsageDigitalSignature, ExtKeyUsage: []x509.ExtKeyUsage{x509.ExtKeyUsageServerAuth}}
	der, err := x509.CreateCertificate(rand.Reader, tpl, tpl, &key.PublicKey, key)
	if err != nil {
		return tls.Certificate{}, err
	}
	return tls.Certificate{Certificate: [][]byte{der}, PrivateKey: key}, nil
}

// handshakeSeg runs a real TLS handshake whose server side reads through clientHelloConn in
// limited chunks; it returns "" when the recorded info equals the parse of the hello that was sent.
func handshakeSeg(cert tls.Certificate, chunks []int) (verdict string, err error) {
	a, b := net.Pipe()
	defer a.Close()
	defer b.Close()
	lc := &limitConn{Conn: b, chunks: chunks}
	var probe *httpserver.VerifHelloProbe
	var hc net.Conn
	bad := guard(func() {
		hc, probe = httpserver.VerifNewHelloConn(lc)
		srv := tls.Server(hc, &tls.Config{Certificates: []tls.Certificate{cert}})
		errc := make(chan error, 1)
		go func() {
			c := tls.Client(a, &tls.Config{ServerName: "hello.test", InsecureSkipVerify: true})
			c.SetDeadline(time.Now().Add(8 * time.Second))
			errc <- c.Handshake()
		}()
		srv.SetDeadline(time.Now().Add(8 * time.Second))
		if e := srv.Handshake(); e != nil {
			err = fmt.Errorf("server handshake: %v", e)
			return
		}
		if e := <-errc; e != nil {
			err = fmt.Errorf("client handshake: %v", e)
		}
	})
	if bad != "" {
		return bad, nil
	}
	if err != nil {
		return "", err
	}
	lc.mu.Lock()
	seen := append([]byte{}, lc.seen...)
	lc.mu.Unlock()
	if len(seen) < 5 {
		return "", fmt.Errorf("server read only %d bytes", len(seen))
	}
	n := int(binary.BigEndian.Uint16(seen[3:]))
	if len(seen) < 5+n {
		return "", fmt.Errorf("first record incomplete")
	}
	want := infoString(httpserver.VerifParseClientHello(seen[5 : 5+n]))
	info, ok := probe.Info()
	if !ok {
		return "nothing was recorded for the connection although the handshake completed", nil
	}
	if infoString(info) != want {
		return "recorded info differs from the parse of the ClientHello that was sent", nil
	}
	return "", nil
}

// ---------------------------------------------------------------------------- grammar cases -> parsers

type fakePusher struct {
	*httptest.ResponseRecorder
	pushed []string
}

func (f *fakePusher) Push(target string, opts *http.PushOptions) error {
	f.pushed = append(f.pushed, target)
	return nil
}

func mkRequest(method, host, path, rawQuery string, hdr http.Header) *http.Request {
	u := &url.URL{Path: path, RawQuery: rawQuery}
	r := &http.Request{Method: method, URL: u, Host: host, Header: hdr, Proto: "HTTP/1.1", ProtoMajor: 1, ProtoMinor: 1,
		RemoteAddr: "203.0.113.7:40000", Body: http.NoBody, RequestURI: u.RequestURI()}
	if r.Header == nil {
		r.Header = http.Header{}
	}
	ctx := context.WithValue(context.Background(), httpserver.OriginalURLCtxKey, *u)
	return r.WithContext(ctx)
}

const hostTpl = "{host}|{hostonly}|{label1}|{label2}|{label3}|{label9}|{label0}|{server_port}|{port}|{remote}|{scheme}"
const cookieTpl = "{~a}|{~}|{~ a}|{~a=}|{>Cookie}"
const pathTpl = "{path}|{dir}|{file}|{?a}|{?}|{query}|{uri}|{uri_escaped}|{path_escaped}|{rewrite_path}|{rewrite_path_escaped}|{rewrite_uri}|{rewrite_uri_escaped}|{fragment}|{query_escaped}|{request}"

var hotInfos = []caskettls.ClientHelloInfo{
	// Firefox-shaped up to the curve list, which has five entries
	{Version: 0x0303, CipherSuites: []uint16{4865, 4867, 4866, 49195}, Extensions: []uint16{0, 23, 65281, 10, 11, 35, 16, 5, 13}, Curves: []tls.CurveID{29, 23, 24, 25, 256}},
	{Version: 0x0303, Extensions: []uint16{5, 10}},
	{},
}

func infoOf(g *gcase) caskettls.ClientHelloInfo {
	var curves []tls.CurveID
	for _, c := range g.Curves {
		curves = append(curves, tls.CurveID(c))
	}
	return caskettls.ClientHelloInfo{Version: 0x0303, CipherSuites: g.Ciphers, Extensions: g.Exts, Curves: curves, CompressionMethods: []byte{0}, Points: []uint8{0}}
}

var repUAs = []string{"Mozilla/5.0 (Windows NT 10.0) Gecko Firefox/52.0", "Mozilla/5.0 (X11) Firefox/60.0", "Chrome/70 Safari/537", "Edge/17", "Version/11 Safari/604", "CriOS/60", "", "Firefox/45.0 Windows"}

// serveMITM runs the interception handler for one request; it returns the mitm verdict the next handler saw.
func serveMITM(info caskettls.ClientHelloInfo, ua string, extra http.Header) string {
	seen := "unchecked"
	next := http.HandlerFunc(func(w http.ResponseWriter, r *http.Request) {
		if v, ok := r.Context().Value(httpserver.MitmCtxKey).(bool); ok {
			seen = strconv.FormatBool(v)
		}
	})
	h := httpserver.VerifTLSHandler(next, "203.0.113.7:40000", info)
	hdr := http.Header{}
	for k, v := range extra {
		hdr[k] = v
	}
	if ua != "\x00none" {
		hdr.Set("User-Agent", ua)
	}
	r := mkRequest("GET", "mitm.test", "/", "", hdr)
	h.ServeHTTP(httptest.NewRecorder(), r)
	return seen
}

type env struct {
	infos   []*gcase              // all "info" cases
	bases   map[string]*helloBase // hello bases by name
	station *fcgiStation
}

// evalCase runs one grammar case against the code it is meant for. It returns a failure
// description ("" = fine), a sub-identifier for the key, and whether the model's prediction drifted.
func (e *env) evalCase(g *gcase) (bad, with string, drift bool) {
	s := g.text()
	switch g.K {
	case "link":
		var n int
		bad = guard(func() { n = len(push.VerifParseLinkHeader(s)) })
		if bad != "" {
			return bad, "parseLinkHeader", false
		}
		drift = n != g.N
		bad = guard(func() {
			next := httpserver.HandlerFunc(func(w http.ResponseWriter, r *http.Request) (int, error) {
				w.Header().Add("Link", s)
				w.Header().Add("Link", "</ok.css>; rel=preload, "+s)
				return 200, nil
			})
			m := push.Middleware{Next: next}
			fp := &fakePusher{ResponseRecorder: httptest.NewRecorder()}
			m.ServeHTTP(fp, mkRequest("GET", "push.test", "/", "", nil))
		})
		return bad, "push.Middleware", drift
	case "ua":
		bad = guard(func() {
			httpserver.VerifGetVersion(s, "Firefox")
			httpserver.VerifGetVersion(s, "Chrome")
		})
		if bad != "" {
			return bad, "getVersion", false
		}
		// the interception handler with this User-Agent and a rotating choice of hello infos
		h := 0
		for _, c := range s {
			h = h*31 + int(c)
		}
		if h < 0 {
			h = -h
		}
		try := append([]caskettls.ClientHelloInfo{}, hotInfos...)
		names := []string{"hot:firefox5curves", "hot:ocsp-then-curves", "hot:empty"}
		for i := 0; i < 4 && len(e.infos) > 0; i++ {
			ic := e.infos[(h+i*97)%len(e.infos)]
			try = append(try, infoOf(ic))
			names = append(names, "info:"+strings.Join(ic.T, ","))
		}
		if g.With != "" { // replay: only the combination that failed
			for i, n := range names {
				if n == g.With {
					try, names = try[i:i+1], names[i:i+1]
					break
				}
			}
		}
		if g.With != "" && len(try) != 1 && (g.Ciphers != nil || g.Exts != nil || g.Curves != nil) {
			try, names = []caskettls.ClientHelloInfo{infoOf(g)}, []string{g.With} // replay without the info table
		}
		for i, info := range try {
			info := info
			if bad = guard(func() { serveMITM(info, s, nil) }); bad != "" {
				// keep the info with the case so that a replay does not need the table
				for _, c := range info.Curves {
					g.Curves = append(g.Curves, uint16(c))
				}
				g.Ciphers, g.Exts = info.CipherSuites, info.Extensions
				return bad, names[i], false
			}
		}
		return "", "", false
	case "info":
		info := infoOf(g)
		for _, which := range []string{"firefox", "chrome", "edge", "safari", "tor", "heartbeat"} {
			which := which
			if bad = guard(func() { httpserver.VerifLooksLike(info, which) }); bad != "" {
				return bad, "looksLike:" + which, false
			}
		}
		for _, ua := range repUAs {
			ua := ua
			if bad = guard(func() { serveMITM(info, ua, nil) }); bad != "" {
				return bad, "handler:ua=" + ua, false
			}
		}
		bad = guard(func() { serveMITM(info, "x", http.Header{"X-Bluecoat-Via": {"1"}}) })
		return bad, "handler:bluecoat", false
	case "tpl":
		reqs := []*http.Request{
			mkRequest("GET", "a.b.test:8080", "/dir/file.txt", "x=1&label=2", http.Header{"X": {"hv"}, "Cookie": {"x=cv; label=1"}}),
			mkRequest("POST", "", "/", "", nil),
		}
		for i, r := range reqs {
			r := r
			bad = guard(func() {
				rr := httpserver.NewResponseRecorder(httptest.NewRecorder())
				rr.Header().Set("X", "resp")
				httpserver.NewReplacer(r, rr, "-").Replace(s)
				httpserver.NewReplacer(r, nil, "").Replace(s)
			})
			if bad != "" {
				return bad, "request" + strconv.Itoa(i), false
			}
		}
		return "", "", false
	case "host":
		bad = guard(func() {
			httpserver.NewReplacer(mkRequest("GET", s, "/", "", nil), nil, "-").Replace(hostTpl)
		})
		return bad, "replacer", false
	case "cookie":
		bad = guard(func() {
			httpserver.NewReplacer(mkRequest("GET", "c.test", "/", "", http.Header{"Cookie": {s}}), nil, "-").Replace(cookieTpl)
		})
		return bad, "replacer", false
	case "path":
		p, q := "/"+s, ""
		if i := strings.Index(s, "?"); i >= 0 {
			p, q = "/"+s[:i], s[i+1:]
		}
		bad = guard(func() {
			r := mkRequest("GET", "p.test", p, q, nil)
			httpserver.NewReplacer(r, nil, "-").Replace(pathTpl)
			httpserver.Path(p).Matches("/a")
			httpserver.Path(p).Matches("/a/")
			httpserver.Path(p).Matches("/A.")
		})
		if bad != "" {
			return bad, "replacer+matcher", false
		}
		bad = guard(func() { serveBasicAuth(mkRequest("GET", "p.test", p, q, http.Header{"Authorization": {"Basic dTpw"}})) })
		return bad, "basicauth", false
	case "auth":
		bad = guard(func() { serveBasicAuth(mkRequest("GET", "p.test", "/a/x", "", http.Header{"Authorization": {s}})) })
		return bad, "basicauth", false
	case "fcgi":
		bad = e.station.run(g.Recs)
		return bad, "fcgiclient", false
	case "cgi":
		for _, terminated := range []bool{true, false} {
			if bad = e.station.runOut(cgiRecords(g.T, terminated)); bad != "" {
				return bad, fmt.Sprintf("fcgiclient/terminated=%v", terminated), false
			}
		}
		return "", "", false
	case "hello":
		b := e.bases[g.T[0]]
		if b == nil {
			b = g.Hello // replay: the base travels with the case
		}
		if b == nil {
			return "harness: unknown hello base " + g.T[0], "", false
		}
		g.Hello = b
		pert := map[string]string{}
		allOK := true
		for i, f := range pertFields {
			pert[f] = g.T[1+i]
			if g.T[1+i] != "ok" {
				allOK = false
			}
		}
		msg, record := buildHello(b, pert)
		var got string
		bad = guard(func() { got = infoString(httpserver.VerifParseClientHello(msg)) })
		if bad != "" {
			return bad, "parseRawClientHello", false
		}
		if allOK && got != baseInfoString(b) {
			drift = true
		}
		// and through the connection wrapper, in one read and split inside the header
		for _, chunks := range [][]int{nil, {3}, {5, 40}} {
			chunks := chunks
			bad = guard(func() {
				hc, _ := httpserver.VerifNewHelloConn(&chunkConn{data: record, chunks: chunks})
				buf := make([]byte, 1<<16)
				for {
					if _, err := hc.Read(buf); err != nil {
						break
					}
				}
			})
			if bad != "" {
				return bad, "clientHelloConn", drift
			}
		}
		return "", "", drift
	}
	return "", "", false
}

func serveBasicAuth(r *http.Request) {
	next := httpserver.HandlerFunc(func(w http.ResponseWriter, r *http.Request) (int, error) { return 200, nil })
	ba := basicauth.BasicAuth{Next: next, SiteRoot: ".", Rules: []basicauth.Rule{{Username: "u", Password: func(p string) bool { return p == "p" }, Resources: []string{"/a"}, Realm: "r"}}}
	ba.ServeHTTP(httptest.NewRecorder(), r)
}

func gKey(g *gcase, with string) string {
	id := strconv.Quote(g.text())
	switch g.K {
	case "fcgi":
		var s []string
		for _, r := range g.Recs {
			s = append(s, r.T+":"+r.Claim+":"+r.Pad)
		}
		id = strings.Join(s, ",")
	case "hello", "info":
		id = strings.Join(g.T, ",")
	}
	k := fmt.Sprintf("C19/panic/%s/%s", g.K, id)
	if with != "" {
		k += "/at=" + with
	}
	if g.Via != "" {
		k += "/via=" + g.Via
	}
	return k
}

// ---------------------------------------------------------------------------- FastCGI records from a backend

type fcgiStation struct {
	r  *hx.FcgiResponder
	mu sync.Mutex
	// scripts are handed over through a channel: one client at a time per station
	next []hx.FcgiOut
}

func newFcgiStation() (*fcgiStation, error) {
	st := &fcgiStation{}
	r, err := hx.StartFcgiResponder(func(*hx.FcgiConv) []hx.FcgiOut {
		st.mu.Lock()
		defer st.mu.Unlock()
		return st.next
	}, nil)
	if err != nil {
		return nil, err
	}
	r.CloseAfterAnswer = true
	st.r = r
	return st, nil
}

// rawRecords renders the abstract record tokens: claimed lengths may disagree with what follows.
func rawRecords(recs []fcgiTok) []hx.FcgiOut {
	var raw []byte
	for i, t := range recs {
		content := []byte("Status: 200 OK\r\nX-I: " + strconv.Itoa(i) + "\r\n\r\nbody" + strconv.Itoa(i))
		typ, ver := byte(hx.FcgiStdout), byte(1)
		switch t.T {
		case "err":
			typ = hx.FcgiStderr
			content = []byte("stderr line\n")
		case "end":
			typ = hx.FcgiEnd
			content = make([]byte, 8)
		case "unk":
			typ = 11
		case "badver":
			ver = 9
		}
		n := len(content)
		switch t.Claim {
		case "short":
			n = len(content) + 9 // announces more than follows
		case "zero":
			n = 0
		case "max":
			n = 65535
		}
		pad, sendPad := 0, 0
		if t.Pad == "7short" {
			pad, sendPad = 7, 3
		}
		h := []byte{ver, typ, 0, 1, byte(n >> 8), byte(n), byte(pad), 0}
		raw = append(raw, h...)
		raw = append(raw, content...)
		raw = append(raw, make([]byte, sendPad)...)
	}
	return []hx.FcgiOut{{Raw: raw}}
}

var cgiBytes = map[string]string{"SP": " ", "HT": "\t", "NBSP": "\u00a0", "NEL": "\u0085", "CRLF": "\r\n"}

// cgiRecords renders a "cgi" case: the tokens form the start of the CGI header block of a
// well-framed FastCGI answer (one stdout record, the empty stdout record, end-request).
func cgiRecords(toks []string, terminated bool) []hx.FcgiOut {
	var b strings.Builder
	for _, t := range toks {
		if r, ok := cgiBytes[t]; ok {
			b.WriteString(r)
		} else {
			b.WriteString(t)
		}
	}
	if terminated {
		b.WriteString("\r\n\r\nbody")
	}
	return []hx.FcgiOut{{Type: hx.FcgiStdout, Content: []byte(b.String())}, {Type: hx.FcgiStdout}, hx.FcgiEndRequest()}
}

func (st *fcgiStation) run(recs []fcgiTok) string {
	out := rawRecords(recs)
	if len(out[0].Raw) == 0 {
		out = []hx.FcgiOut{{Raw: []byte{}}}
	}
	return st.runOut(out)
}

func (st *fcgiStation) runOut(out []hx.FcgiOut) string {
	st.mu.Lock()
	st.next = out
	st.mu.Unlock()
	return guard(func() {
		c, err := fastcgi.Dial("tcp", st.r.Addr)
		if err != nil {
			panic("harness: dial: " + err.Error())
		}
		defer c.Close()
		c.SetReadTimeout(3 * time.Second)
		c.SetSendTimeout(3 * time.Second)
		resp, err := c.Request(map[string]string{"REQUEST_METHOD": "GET"}, nil)
		if err == nil && resp != nil && resp.Body != nil {
			io.Copy(io.Discard, resp.Body)
			resp.Body.Close()
		}
	})
}

// ---------------------------------------------------------------------------- running instances (sample)

type logSink struct {
	mu sync.Mutex
	b  bytes.Buffer
}

func (l *logSink) Write(p []byte) (int, error) {
	l.mu.Lock()
	defer l.mu.Unlock()
	if l.b.Len() < 1<<20 {
		l.b.Write(p)
	}
	return len(p), nil
}
func (l *logSink) panics() []string {
	l.mu.Lock()
	defer l.mu.Unlock()
	var out []string
	for _, line := range strings.Split(l.b.String(), "\n") {
		if strings.Contains(line, "[PANIC") || strings.Contains(line, "panic serving") {
			out = append(out, line)
		}
	}
	return out
}
func (l *logSink) reset() { l.mu.Lock(); l.b.Reset(); l.mu.Unlock() }

type liveSite struct {
	plain, tlsAddr string
	site           *hx.Site
	fcgi           *hx.FcgiResponder
	fmu            sync.Mutex
	fnext          []hx.FcgiOut
	root           string
}

func startLive(t testing.TB) (*liveSite, error) {
	ls := &liveSite{}
	dir, err := os.MkdirTemp(hx.Scratch(t), "c19root_")
	if err != nil {
		return nil, err
	}
	ls.root = dir
	os.MkdirAll(filepath.Join(dir, "a"), 0o755)
	os.WriteFile(filepath.Join(dir, "index.html"), []byte("index"), 0o644)
	os.WriteFile(filepath.Join(dir, "a", "x"), []byte("ax"), 0o644)
	ls.fcgi, err = hx.StartFcgiResponder(func(*hx.FcgiConv) []hx.FcgiOut {
		ls.fmu.Lock()
		defer ls.fmu.Unlock()
		return ls.fnext
	}, nil)
	if err != nil {
		return nil, err
	}
	ls.fcgi.CloseAfterAnswer = true
	p1, p2 := hx.FreePort(), hx.FreePort()
	common := fmt.Sprintf("\tbind 127.0.0.1\n\troot %s\n\theader / X-Echo \"{>X-In}|{~a}|{?a}|{label1}|{label2}|{hostonly}|{dir}|{file}|{path_escaped}|{mitm}\"\n\tlog / %s \"{remote} {host} {uri} {>User-Agent} {~a} {label3} {mitm} {request}\"\n\tbasicauth /a u p\n\tfastcgi /fcgi %s {\n\t\tread_timeout 3s\n\t}\n\tpush\n",
		dir, filepath.Join(dir, "access.log"), ls.fcgi.Addr)
	cf := fmt.Sprintf("http://live.test:%d, http://:%d {\n%s}\nhttps://live.test:%d {\n\ttls self_signed\n%s}\n", p1, p1, common, p2, common)
	for try := 0; try < 3; try++ {
		ls.site, err = hx.StartHTTP(cf, "")
		if err == nil || !strings.Contains(err.Error(), "address already in use") {
			break
		}
	}
	if err != nil {
		ls.fcgi.Close()
		return nil, fmt.Errorf("casket.Start: %v\n%s", err, cf)
	}
	ls.plain = "127.0.0.1:" + strconv.Itoa(p1)
	ls.tlsAddr = "127.0.0.1:" + strconv.Itoa(p2)
	return ls, nil
}

func (ls *liveSite) stop() {
	ls.site.Stop()
	ls.fcgi.Close()
	os.RemoveAll(ls.root)
}

func oneLine(s string) string {
	s = strings.NewReplacer("\r", "", "\n", "").Replace(s)
	return s
}

// sendLive sends the case as an HTTP request to the running instance; it returns a harness error
// only when the instance could not be reached at all.
func (ls *liveSite) sendLive(g *gcase, tlsClient *http.Client) error {
	s := oneLine(g.text())
	raw := func(target, host string, hdr ...string) error {
		rc, err := hx.DialRaw(ls.plain)
		if err != nil {
			return err
		}
		defer rc.Close()
		rc.Get("GET", target, host, append(hdr, "Connection: close")...) // a malformed request may be answered 400 or not at all
		return nil
	}
	switch g.K {
	case "host":
		return raw("/", s)
	case "cookie":
		return raw("/", "live.test", "Cookie: "+s)
	case "path":
		t := "/" + strings.ReplaceAll(s, " ", "%20")
		return raw(t, "live.test")
	case "auth":
		return raw("/a/x", "live.test", "Authorization: "+s)
	case "tpl":
		return raw("/?a="+url.QueryEscape(s), "live.test", "X-In: "+s, "Cookie: a="+s)
	case "fcgi":
		ls.fmu.Lock()
		ls.fnext = rawRecords(g.Recs)
		ls.fmu.Unlock()
		return raw("/fcgi/x.php", "live.test")
	case "cgi":
		ls.fmu.Lock()
		ls.fnext = cgiRecords(g.T, true)
		ls.fmu.Unlock()
		return raw("/fcgi/x.php", "live.test")
	case "link":
		// the backend (FastCGI responder) returns the Link header
		ls.fmu.Lock()
		ls.fnext = []hx.FcgiOut{{Type: hx.FcgiStdout, Content: []byte("Status: 200 OK\r\nLink: " + s + "\r\n\r\nok")}, {Type: hx.FcgiStdout}, hx.FcgiEndRequest()}
		ls.fmu.Unlock()
		req, _ := http.NewRequest("GET", "https://"+ls.tlsAddr+"/fcgi/link.php", nil)
		req.Host = "live.test"
		resp, err := tlsClient.Do(req)
		if err == nil {
			io.Copy(io.Discard, resp.Body)
			resp.Body.Close()
		}
		return nil
	case "ua":
		req, _ := http.NewRequest("GET", "https://"+ls.tlsAddr+"/", nil)
		req.Host = "live.test"
		req.Header.Set("User-Agent", s)
		resp, err := tlsClient.Do(req)
		if err != nil {
			return nil // e.g. a header value the client refuses to send
		}
		io.Copy(io.Discard, resp.Body)
		resp.Body.Close()
		return nil
	}
	return nil
}

// ---------------------------------------------------------------------------- the test

const bailOut = 40

func TestC19(t *testing.T) {
	hx.Quiet()
	sink := &logSink{}
	log.SetOutput(sink)
	res := hx.NewResult("TestC19", "segmentation cases = every sequence of chunk sizes of a (5+n)-byte record plus m further bytes from HelloConn.tla, replayed through the real clientHelloConn for a genuine Go ClientHello and a synthetic Firefox-shaped one (trace validated by TLC) and, for a sample, under a complete TLS handshake; grammar cases = every token string / structure of PeerGrammar.tla up to the bound, fed to the parser it targets under recover and a watchdog (Link parser + push middleware, getVersion + interception handler x hello infos, looksLike heuristics, replacer templates and peer values, Path.Matches, basicauth, FastCGI record reader, parseRawClientHello with perturbed length fields), a sample through running casket instances (plain + TLS); non-trivial = more than one chunk / at least two tokens")
	defer res.Write(t)

	if p := hx.Replay(); p != "" && !filepath.IsAbs(p) {
		if _, err := os.Stat(p); err != nil {
			os.Setenv("VERIF_REPLAY", filepath.Join("..", "..", p))
		}
	}

	st, err := newFcgiStation()
	if err != nil {
		res.Infra = err.Error()
		return
	}
	defer st.r.Close()

	realHello, err := goHello()
	if err != nil {
		res.Infra = "cannot capture a Go ClientHello: " + err.Error()
		return
	}
	ffBase := &helloBase{Sid: 32, Ciphers: []uint16{4865, 4867, 4866, 49195, 49199, 52393, 52392, 49196, 49200, 49162, 49161, 49171, 49172, 51, 57, 47, 53, 10}, Comp: []byte2{0},
		Exts: []uint16{0, 23, 65281, 10, 11, 35, 16, 5, 13}, Curves: []uint16{29, 23, 24, 25}, Points: []byte2{0}}
	_, ffHello := buildHello(ffBase, nil)
	hellos := map[string][]byte{"go": realHello, "firefox": ffHello}

	if rp, ok := hx.LoadReplay[anyCase](t); ok {
		replayOne(t, res, &rp, hellos, st)
		return
	}

	rnd := hx.Rand()
	segs := hx.LoadCases[segCase](t, "HelloConn")
	res.AddExtra("segmentations_from_tlc", len(segs))

	// ---- 1. segmentations through the real clientHelloConn, trace for TLC
	tw := hx.NewTrace(t, "helloconn.ndjson")
	ntr := 0
	drift := 0
	selfSeg := false
	for _, name := range []string{"go", "firefox"} {
		for i := range segs {
			if res.MismatchCount() >= bailOut/2 {
				break // the verdict on the segmentation clause is settled; go on with the other clauses
			}
			c := segs[i]
			c.Hello = name
			out := runSeg(&c, hellos[name])
			nt := ""
			if len(c.Segs) > 1 {
				nt = segKey(&c, "")
			}
			res.Count(nt)
			if out.panicked != "" {
				if out2 := runSeg(&c, hellos[name]); out2.panicked != "" {
					res.Add(hx.Mismatch{Key: segKey(&c, "panic"), What: "clientHelloConn.Read: " + out.panicked, Case: anyCase{Seg: &c}})
				}
				continue
			}
			for _, e := range out.events {
				tw.Emit(e)
			}
			ntr++
			drift += out.drift
			want := "match"
			if hx.SelfTest() && i%7 == 3 {
				want = "none" // corrupted expectation
			}
			if out.finalRec != want {
				if hx.SelfTest() {
					selfSeg = true
					continue
				}
				out2 := runSeg(&c, hellos[name])
				if out2.finalRec == out.finalRec {
					what := "after all bytes of the record were delivered nothing is recorded for the connection"
					if out.finalRec == "differs" {
						what = "what is recorded differs from the parse of the ClientHello that was sent"
					}
					res.Add(hx.Mismatch{Key: segKey(&c, "recorded-"+out.finalRec), What: what, Case: anyCase{Seg: &c}, Expected: "same info as for a single read", Observed: out2.events})
				}
			}
			if i == len(segs)/2 && name == "go" {
				res.Sample(map[string]interface{}{"segmentation_case": c, "real_hello_bytes": len(hellos[name]) - 5, "events": out.events})
			}
		}
	}
	tw.Close()
	res.Traces = append(res.Traces, hx.TraceFile{Spec: "helloconn", File: tw.Path, Count: ntr, Key: "clientHelloConn-reads"})
	res.AddExtra("model_drift_helloconn_steps", drift)

	// a sample of segmentations under a complete TLS handshake
	cert, err := selfSigned()
	if err != nil {
		res.Infra = err.Error()
		return
	}
	nhs := 40
	if hx.Thorough() {
		nhs = 400
	}
	hsDone := 0
	phase := res.MismatchCount()
	for _, k := range hx.SampleIdx(rnd, len(segs), nhs) {
		if res.MismatchCount()-phase >= 5 {
			break
		}
		c := segs[k]
		c.Hello = "handshake"
		var chunks []int
		pos := 0
		for _, s := range c.Segs {
			// header positions byte-exact, hello blocks of 97 bytes
			n := 0
			for j := 0; j < s; j++ {
				if pos < 5 {
					n++
				} else {
					n += 97
				}
				pos++
			}
			chunks = append(chunks, n)
		}
		verdict, err := handshakeSeg(cert, chunks)
		if err != nil {
			res.Infra = "handshake harness: " + err.Error()
			return
		}
		res.Count(segKey(&c, "handshake"))
		hsDone++
		if verdict != "" {
			if v2, err := handshakeSeg(cert, chunks); err == nil && v2 != "" {
				res.Add(hx.Mismatch{Key: segKey(&c, "handshake"), What: verdict, Case: anyCase{Seg: &c}, Observed: map[string]interface{}{"read_limits": chunks}})
			}
		}
	}
	res.AddExtra("handshakes_over_chunked_conn", hsDone)

	// ---- 2. grammar cases
	e := &env{bases: map[string]*helloBase{}, station: st}
	var cases []*gcase
	hx.EachCase(t, "PeerGrammar", func(line []byte) error {
		g := &gcase{}
		if err := json.Unmarshal(line, g); err != nil {
			return err
		}
		switch g.K {
		case "hellobase":
			e.bases[g.T[0]] = g.Hello
		case "info":
			e.infos = append(e.infos, g)
			cases = append(cases, g)
		default:
			cases = append(cases, g)
		}
		return nil
	})
	// long token strings from the random walks of PeerGrammarLong (tlc -simulate); duplicates dropped
	nlong := 0
	if hx.CasesPath("PeerGrammarLong") != "" {
		seen := map[string]bool{}
		hx.EachCase(t, "PeerGrammarLong", func(line []byte) error {
			if seen[string(line)] {
				return nil
			}
			seen[string(line)] = true
			g := &gcase{}
			if err := json.Unmarshal(line, g); err != nil {
				return err
			}
			if len(g.T) > 7 || len(g.Recs) > 3 {
				cases = append(cases, g)
				nlong++
			}
			return nil
		})
	}
	res.AddExtra("long_strings_from_simulation", nlong)
	// deterministic order of the info list (ua cases index into it)
	sortCases(e.infos)
	perKind := map[string]int{}
	for _, g := range cases {
		perKind[g.K]++
	}
	res.AddExtra("grammar_cases_from_tlc", perKind)

	var mu sync.Mutex
	kindBad := map[string]int{} // mismatches per grammar kind: a kind is abandoned after 10
	gdrift := map[string]int{}
	selfG := false
	var wg sync.WaitGroup
	jobs := make(chan *gcase, 256)
	for w := 0; w < 12; w++ {
		wg.Add(1)
		go func() {
			defer wg.Done()
			var wst *fcgiStation
			for g := range jobs {
				mu.Lock()
				skip := kindBad[g.K] >= 10
				mu.Unlock()
				if skip {
					continue
				}
				we := *e
				if g.K == "fcgi" || g.K == "cgi" {
					if wst == nil {
						s, err := newFcgiStation()
						if err != nil {
							continue
						}
						wst = s
						defer s.r.Close()
					}
					we.station = wst
				}
				bad, with, dr := we.evalCase(g)
				nt := ""
				if len(g.T) >= 2 || len(g.Recs) >= 1 {
					nt = g.K + ":" + gKey(g, "")
				}
				res.Count(nt)
				if dr {
					mu.Lock()
					gdrift[g.K]++
					mu.Unlock()
				}
				if hx.SelfTest() && g.K == "link" && len(g.T) == 2 && bad == "" {
					bad = "panic: selftest (corrupted expectation: this input was declared to panic)"
					mu.Lock()
					selfG = true
					mu.Unlock()
					continue
				}
				if bad != "" {
					g2 := *g
					g2.With = with
					bad2, _, _ := we.evalCase(&g2)
					if bad2 != "" {
						mu.Lock()
						kindBad[g.K]++
						mu.Unlock()
						res.Add(hx.Mismatch{Key: gKey(g, with), What: fmt.Sprintf("%s input %q: %s", g.K, g.text(), bad), Case: anyCase{G: &g2}, Expected: "processed without panic", Observed: bad2})
					}
				}
			}
		}()
	}
	for _, g := range cases {
		jobs <- g
	}
	close(jobs)
	wg.Wait()
	res.AddExtra("model_drift_grammar_predictions", gdrift)
	for _, k := range []string{"link", "ua", "tpl", "hello", "fcgi", "cgi", "info"} {
		for _, g := range cases {
			if g.K == k && len(g.T)+len(g.Recs) >= 3 {
				res.Sample(map[string]interface{}{"grammar_case": g})
				break
			}
		}
	}

	// ---- 3. a sample through running instances; the process log is watched for recovered panics
	phase = res.MismatchCount()
	{
		ls, err := startLive(t)
		if err != nil {
			res.Infra = err.Error()
			return
		}
		tlsClient := &http.Client{Timeout: 10 * time.Second, Transport: &http.Transport{TLSClientConfig: &tls.Config{InsecureSkipVerify: true, ServerName: "live.test"}, DisableKeepAlives: true}}
		per := 150
		if hx.Thorough() {
			per = 1500
		}
		byKind := map[string][]*gcase{}
		for _, g := range cases {
			switch g.K {
			case "host", "cookie", "path", "auth", "tpl", "fcgi", "cgi", "link", "ua":
				byKind[g.K] = append(byKind[g.K], g)
			}
		}
		live := 0
		for _, k := range hx.SortedKeys(byKind) {
			gs := byKind[k]
			idx := hx.SampleIdx(rnd, len(gs), per)
			if k == "link" {
				// always the shortest inputs that have a '>' before a '<'
				for i, g := range gs {
					if len(g.T) <= 3 && strings.Contains(g.text(), ">") && strings.Index(g.text(), ">") < strings.LastIndex(g.text(), "<") {
						idx = append(idx, i)
					}
				}
			}
			kphase := res.MismatchCount()
			for _, i := range idx {
				if res.MismatchCount()-kphase >= 5 {
					break
				}
				g := gs[i]
				sink.reset()
				if err := ls.sendLive(g, tlsClient); err != nil {
					res.Infra = "running instance unreachable: " + err.Error()
					ls.stop()
					return
				}
				live++
				res.Count("live:" + gKey(g, ""))
				if ps := sink.panics(); len(ps) > 0 {
					sink.reset()
					ls.sendLive(g, tlsClient)
					if ps2 := sink.panics(); len(ps2) > 0 {
						g2 := *g
						g2.Via = "casket"
						res.Add(hx.Mismatch{Key: gKey(&g2, ""), What: fmt.Sprintf("%s input %q made request handling panic inside the running server: %s", g.K, g.text(), strings.TrimSpace(ps[0])), Case: anyCase{G: &g2}, Expected: "no panic", Observed: ps2})
					}
				}
			}
		}
		res.AddExtra("requests_through_running_instances", live)
		// the instance must still be alive
		if r, err := hx.OneShot(ls.plain, "GET", "/", "live.test"); err != nil || r.Status != 200 {
			res.Add(hx.Mismatch{Key: "C19/panic/server-dead", What: fmt.Sprintf("the instance no longer answers after the battery: %v", err)})
		}
		ls.stop()
	}
	if res.MismatchCount() > 0 {
		res.AddExtra("bailed_out", "each clause stops after a handful of distinct mismatches (segmentations 20, handshakes 5, 10 per grammar kind, 5 per kind through the running instance)")
	}
	_ = phase
	res.Replayed = res.Evaluations

	if hx.SelfTest() {
		bad := filepath.Join(hx.Scratch(t), "selftest_helloconn.ndjson")
		if err := corruptTrace(tw.Path, bad); err != nil {
			res.Infra = "selftest: " + err.Error()
			return
		}
		rc, tail := hx.RunTraceSpec(t, "HelloConnTrace", "HelloConnTrace.cfg", bad)
		os.Remove(bad)
		if rc != 10 && rc != 12 && rc != 13 {
			res.Infra = fmt.Sprintf("selftest: trace with a falsified recording was not rejected (tlc rc=%d): %s", rc, tail)
			return
		}
		if !selfSeg || !selfG {
			res.Infra = fmt.Sprintf("selftest: corrupted expectation not noticed (segmentation binding=%v, grammar binding=%v)", selfSeg, selfG)
			return
		}
		res.AddExtra("selftest", "corrupted expectations noticed by the segmentation and grammar bindings; falsified trace rejected by TLC (rc="+strconv.Itoa(rc)+")")
	}
}

func sortCases(gs []*gcase) {
	for i := 1; i < len(gs); i++ {
		for j := i; j > 0 && strings.Join(gs[j].T, ",") < strings.Join(gs[j-1].T, ","); j-- {
			gs[j], gs[j-1] = gs[j-1], gs[j]
		}
	}
}

// corruptTrace rewrites the last read event of the first multi-read connection to rec:"none".
func corruptTrace(src, dst string) error {
	b, err := os.ReadFile(src)
	if err != nil {
		return err
	}
	lines := strings.Split(strings.TrimRight(string(b), "\n"), "\n")
	for i := 1; i < len(lines); i++ {
		if strings.Contains(lines[i], `"ev":"end"`) && strings.Contains(lines[i-1], `"rec":"match"`) {
			lines[i-1] = strings.Replace(lines[i-1], `"rec":"match"`, `"rec":"none"`, 1)
			return os.WriteFile(dst, []byte(strings.Join(lines, "\n")+"\n"), 0o644)
		}
	}
	return fmt.Errorf("no event to falsify in %d trace lines", len(lines))
}

func replayOne(t *testing.T, res *hx.Result, c *anyCase, hellos map[string][]byte, st *fcgiStation) {
	res.Count("replay")
	res.Count("replay2")
	switch {
	case c.Seg != nil && c.Seg.Hello == "handshake":
		t.Skip("handshake samples are re-run by the full check")
	case c.Seg != nil:
		h := hellos[c.Seg.Hello]
		if h == nil {
			h = hellos["go"]
		}
		out := runSeg(c.Seg, h)
		if out.panicked != "" {
			res.Add(hx.Mismatch{Key: segKey(c.Seg, "panic"), What: out.panicked, Case: c})
		} else if out.finalRec != "match" {
			res.Add(hx.Mismatch{Key: segKey(c.Seg, "recorded-"+out.finalRec), What: "recorded: " + out.finalRec, Case: c, Observed: out.events})
		}
	case c.G != nil && c.G.Via == "casket":
		sink := &logSink{}
		log.SetOutput(sink)
		ls, err := startLive(t)
		if err != nil {
			res.Infra = err.Error()
			return
		}
		defer ls.stop()
		tlsClient := &http.Client{Timeout: 10 * time.Second, Transport: &http.Transport{TLSClientConfig: &tls.Config{InsecureSkipVerify: true, ServerName: "live.test"}, DisableKeepAlives: true}}
		ls.sendLive(c.G, tlsClient)
		if ps := sink.panics(); len(ps) > 0 {
			res.Add(hx.Mismatch{Key: gKey(c.G, ""), What: strings.TrimSpace(ps[0]), Case: c})
		}
	case c.G != nil:
		e := &env{bases: map[string]*helloBase{}, station: st}
		// the replay needs the base / info tables only for hello and ua cases: take them from the stored case
		if c.G.K == "hello" || c.G.K == "ua" {
			if hx.CasesPath("PeerGrammar") != "" {
				hx.EachCase(t, "PeerGrammar", func(line []byte) error {
					g := &gcase{}
					if json.Unmarshal(line, g) == nil {
						if g.K == "hellobase" {
							e.bases[g.T[0]] = g.Hello
						} else if g.K == "info" {
							e.infos = append(e.infos, g)
						}
					}
					return nil
				})
				sortCases(e.infos)
			}
		}
		bad, with, _ := e.evalCase(c.G)
		if bad != "" {
			res.Add(hx.Mismatch{Key: gKey(c.G, with), What: bad, Case: c})
		}
	default:
		t.Fatalf("replay file holds no C19 case")
	}
}

var _ = mrand.Int
