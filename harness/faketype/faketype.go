// Package faketype registers "verif", a scriptable casket server type used to observe the
// instance lifecycle of package casket from outside: its single directive registers all six
// callback lists, its servers are graceful fake servers on real loopback sockets, and every
// step is appended to a recorder under one mutex (the sequence number of the trace).
//
// Casketfile of the type:
//
//	g<gen> {
//	    verifcfg <n> <fail> [nofile]   # n servers; fail in none|setup|startupcb|listen|panic;
//	                                   # nofile: the listeners cannot be handed over (no File())
//	}
package faketype

import (
	"errors"
	"fmt"
	"net"
	"strconv"
	"strings"
	"sync"
	"sync/atomic"
	"time"

	"github.com/tmpim/casket"
	"github.com/tmpim/casket/casketfile"
)

// Event is one line of the trace.
type Event struct {
	Ev    string      `json:"ev"`
	G     int         `json:"g,omitempty"`
	K     int         `json:"k,omitempty"`
	Kind  string      `json:"kind,omitempty"`
	Res   string      `json:"res,omitempty"`
	Lin   int         `json:"lin,omitempty"`
	Op    interface{} `json:"op,omitempty"`
	Ninst *int        `json:"ninst,omitempty"`
	Sig   string      `json:"sig,omitempty"`
	Key   string      `json:"key,omitempty"` // on reset events: identity of the trace that just ended
}

// Recorder collects events in the order they are observed.
type Recorder struct {
	mu     sync.Mutex
	events []Event
	Sink   func(Event) // optional: called under mu (child-process mode writes lines to a file)
}

var Rec = &Recorder{}

func (r *Recorder) Emit(e Event) {
	r.mu.Lock()
	r.events = append(r.events, e)
	if r.Sink != nil {
		r.Sink(e)
	}
	r.mu.Unlock()
}

func (r *Recorder) Take() []Event {
	r.mu.Lock()
	ev := r.events
	r.events = nil
	r.mu.Unlock()
	return ev
}

// Knobs set by the driver before an operation.
var (
	knobMu            sync.Mutex
	restartCbFails    bool // the next OnRestart callback returns an error
	shutdownCbFails   bool
	GracefulByDefault = true
	// CbDelay makes every callback take this long (widens the windows in which signals overlap)
	CbDelay time.Duration
	// CbHook, if set, runs inside every callback after its event was recorded
	CbHook func(gen int, kind string)
)

func SetRestartCbFails(v bool) { knobMu.Lock(); restartCbFails = v; knobMu.Unlock() }
func takeRestartCbFails() bool {
	knobMu.Lock()
	defer knobMu.Unlock()
	v := restartCbFails
	restartCbFails = false
	return v
}

type cfg struct {
	gen    int
	n      int
	fail   string
	nofile bool
}

type fctx struct {
	inst *casket.Instance
	cfgs []*cfg
}

func (c *fctx) InspectServerBlocks(_ string, sb []casketfile.ServerBlock) ([]casketfile.ServerBlock, error) {
	return sb, nil
}

func (c *fctx) MakeServers() ([]casket.Server, error) {
	var out []casket.Server
	for _, cf := range c.cfgs {
		for k := 1; k <= cf.n; k++ {
			out = append(out, &Server{Gen: cf.gen, K: k, failListen: cf.fail == "listen", noFile: cf.nofile, stopCh: make(chan struct{})})
		}
	}
	return out, nil
}

func init() {
	casket.RegisterServerType("verif", casket.ServerType{
		Directives:   func() []string { return []string{"verifcfg"} },
		DefaultInput: func() casket.Input { return casket.CasketfileInput{ServerTypeName: "verif"} },
		NewContext:   func(inst *casket.Instance) casket.Context { return &fctx{inst: inst} },
	})
	casket.RegisterPlugin("verifcfg", casket.Plugin{ServerType: "verif", Action: setup})
}

func setup(c *casket.Controller) error {
	gen, err := strconv.Atoi(strings.TrimPrefix(c.Key, "g"))
	if err != nil {
		return fmt.Errorf("bad key %q", c.Key)
	}
	cf := &cfg{gen: gen, n: 1, fail: "none"}
	for c.Next() {
		args := c.RemainingArgs()
		if len(args) == 3 && args[2] == "nofile" {
			cf.nofile = true
			args = args[:2]
		}
		if len(args) != 2 {
			return c.ArgErr()
		}
		cf.n, err = strconv.Atoi(args[0])
		if err != nil {
			return c.Err("bad n")
		}
		cf.fail = args[1]
	}
	if cf.fail == "panic" {
		Rec.Emit(Event{Ev: "setup", G: gen, Res: "err"})
		var m map[string]int
		m["scripted setup panic"] = 1 // a runtime panic inside a directive's setup function
	}
	if cf.fail == "setup" {
		Rec.Emit(Event{Ev: "setup", G: gen, Res: "err"})
		return errors.New("scripted setup failure")
	}
	Rec.Emit(Event{Ev: "setup", G: gen, Res: "ok"})
	ctx := c.Context().(*fctx)
	ctx.cfgs = append(ctx.cfgs, cf)
	cb := func(kind string, fail func() bool) func() error {
		return func() error {
			f := fail != nil && fail()
			res := "ok"
			if f {
				res = "err"
			}
			Rec.Emit(Event{Ev: "cb", G: gen, Kind: kind, Res: res})
			if CbHook != nil {
				CbHook(gen, kind)
			}
			if CbDelay > 0 {
				time.Sleep(CbDelay)
			}
			if f {
				return errors.New("scripted " + kind + " callback failure")
			}
			return nil
		}
	}
	c.OnFirstStartup(cb("first", nil))
	c.OnStartup(cb("startup", func() bool { return cf.fail == "startupcb" }))
	c.OnRestart(cb("restart", takeRestartCbFails))
	c.OnRestartFailed(cb("restartfailed", nil))
	c.OnShutdown(cb("shutdown", nil))
	c.OnFinalShutdown(cb("final", nil))
	return nil
}

// Server is a graceful fake server: a real loopback TCP socket (so that the file-descriptor
// hand-over of Restart is the real one), Serve blocks until Stop.
type Server struct {
	Gen, K     int
	failListen bool
	noFile     bool // the listener handed to casket hides File(): a reload cannot inherit it
	stopCh     chan struct{}
	once       sync.Once
	mu         sync.Mutex
	ln         net.Listener
}

func (s *Server) Address() string { return "verif-srv-" + strconv.Itoa(s.K) }

func (s *Server) Listen() (net.Listener, error) {
	if s.failListen {
		Rec.Emit(Event{Ev: "listen", G: s.Gen, K: s.K, Res: "err"})
		return nil, errors.New("scripted listen failure")
	}
	ln, err := net.Listen("tcp", "127.0.0.1:0")
	if err != nil {
		return nil, err
	}
	Rec.Emit(Event{Ev: "listen", G: s.Gen, K: s.K, Res: "ok"})
	s.mu.Lock()
	s.ln = ln
	s.mu.Unlock()
	if s.noFile {
		return plainListener{ln}, nil
	}
	return ln.(*net.TCPListener), nil // *net.TCPListener implements casket.Listener (File())
}

// plainListener is a net.Listener that is not a casket.Listener.
type plainListener struct{ net.Listener }

func (s *Server) WrapListener(ln net.Listener) net.Listener {
	Rec.Emit(Event{Ev: "inherit", G: s.Gen, K: s.K})
	s.mu.Lock()
	s.ln = ln
	s.mu.Unlock()
	if s.noFile {
		return plainListener{ln}
	}
	return ln
}

func (s *Server) Serve(ln net.Listener) error {
	Rec.Emit(Event{Ev: "serveBegin", G: s.Gen, K: s.K})
	<-s.stopCh
	Rec.Emit(Event{Ev: "serveEnd", G: s.Gen, K: s.K})
	return nil
}

func (s *Server) ListenPacket() (net.PacketConn, error) { return nil, nil }

func (s *Server) ServePacket(net.PacketConn) error {
	Rec.Emit(Event{Ev: "spEnd", G: s.Gen, K: s.K})
	return nil
}

func (s *Server) Stop() error {
	Rec.Emit(Event{Ev: "stop", G: s.Gen, K: s.K})
	s.once.Do(func() {
		close(s.stopCh)
		s.mu.Lock()
		if s.ln != nil {
			s.ln.Close()
		}
		s.mu.Unlock()
	})
	// like http.Server.Shutdown: Serve has returned by now, but Stop goes on until the
	// connections in flight have drained
	time.Sleep(DrainTime)
	Rec.Emit(Event{Ev: "stopped", G: s.Gen, K: s.K})
	if StopErr.Load() {
		return errors.New("scripted: the grace period ran out")
	}
	return nil
}

// StopErr makes every fake server's Stop return an error after it has stopped (like an HTTP
// server whose grace period ran out); casket logs such errors and carries on.
var StopErr atomic.Bool

// DrainTime is how long a fake server's Stop keeps draining after its Serve loop returned.
var DrainTime = 300 * time.Microsecond

// Input renders the Casketfile of generation gen.
func Input(gen, n int, fail string, file bool) casket.Input {
	if fail == "restartcb" {
		fail = "none"
	}
	if !file {
		fail += " nofile"
	}
	txt := fmt.Sprintf("g%d {\n\tverifcfg %d %s\n}\n", gen, n, fail)
	if strings.HasPrefix(fail, "parse") {
		// a file that does not parse: a directive the server type does not know
		txt = fmt.Sprintf("g%d {\n\tverifnosuch %d\n}\n", gen, n)
	}
	return casket.CasketfileInput{Contents: []byte(txt), Filepath: "verif", ServerTypeName: "verif"}
}
