package c16

// Process-level part of C16: a child process (this test binary re-executed) starts n instances of
// the scriptable server type, installs casket.TrapSignals and is sent the signal sequence of a
// case emitted by TLC from Shutdown.tla; its callback / stop events and its exit code form a
// trace that TLC validates against ShutdownTrace.tla.

import (
	"bufio"
	"encoding/json"
	"fmt"
	"math/rand"
	"os"
	"os/exec"
	"runtime"
	"strconv"
	"strings"
	"sync"
	"syscall"
	"testing"
	"time"

	"github.com/tmpim/casket"
	"verifharness/faketype"
	"verifharness/hx"
)

type scase struct {
	N    int      `json:"n"`
	Sigs []string `json:"sigs"`
	// Stopper: 0, or the instance whose shutdown callback spawns a goroutine that stops that instance
	Stopper int `json:"stopper"`
}

func (c scase) key() string {
	k := fmt.Sprintf("n=%d/sigs=%s", c.N, strings.Join(c.Sigs, ","))
	if c.Stopper != 0 {
		k += fmt.Sprintf("/stopper=%d", c.Stopper)
	}
	return k
}

// TestC16Child is the child process; it does nothing unless VERIF_C16_CHILD is set.
func TestC16Child(t *testing.T) {
	logPath := os.Getenv("VERIF_C16_CHILD")
	if logPath == "" {
		t.Skip("child mode only")
	}
	hx.Quiet()
	n, _ := strconv.Atoi(os.Getenv("VERIF_C16_N"))
	f, err := os.OpenFile(logPath, os.O_CREATE|os.O_WRONLY|os.O_APPEND, 0o644)
	if err != nil {
		os.Exit(97)
	}
	stopper, _ := strconv.Atoi(os.Getenv("VERIF_C16_STOPPER"))
	insts := map[int]*casket.Instance{}
	for g := 1; g <= n; g++ {
		inst, err := casket.Start(faketype.Input(g, 1, "none", true))
		if err != nil {
			os.Exit(98)
		}
		insts[g] = inst
	}
	faketype.Rec.Take()
	faketype.CbDelay = 3 * time.Millisecond
	if stopper != 0 {
		// what a plugin's shutdown callback may do: have its own instance stopped (it cannot
		// call Stop itself: the walk over the instances holds the lock Stop needs)
		faketype.CbHook = func(g int, kind string) {
			if g == stopper && kind == "shutdown" {
				go insts[g].Stop()
			}
		}
	}
	faketype.Rec.Sink = func(e faketype.Event) {
		if (e.Ev == "cb" && (e.Kind == "shutdown" || e.Kind == "final")) || e.Ev == "stop" {
			b, _ := json.Marshal(e)
			f.Write(append(b, '\n')) // unbuffered: os.Exit may follow at any moment
		}
	}
	casket.TrapSignals()
	// let the two handler goroutines reach signal.Notify (they are started asynchronously and
	// nothing tells when they are installed; a signal arriving earlier has its default action)
	for i := 0; i < 10; i++ {
		runtime.Gosched()
		time.Sleep(3 * time.Millisecond)
	}
	f.Write([]byte("{\"ev\":\"ready\"}\n"))
	select {}
}

var sigNum = map[string]syscall.Signal{"TERM": syscall.SIGTERM, "INT": syscall.SIGINT, "QUIT": syscall.SIGQUIT}

// runChild executes one signal script and returns the trace lines (without the script event).
func runChild(dir string, id int, c scase, rnd *rand.Rand) ([]string, error) {
	logPath := fmt.Sprintf("%s/child_%d.log", dir, id)
	os.Remove(logPath)
	cmd := exec.Command(os.Args[0], "-test.run=^TestC16Child$")
	hx.DieWithParent(cmd)
	cmd.Env = append(os.Environ(), "VERIF_C16_CHILD="+logPath, "VERIF_C16_N="+strconv.Itoa(c.N), "VERIF_C16_STOPPER="+strconv.Itoa(c.Stopper), "VERIF_OUT=")
	if err := cmd.Start(); err != nil {
		return nil, err
	}
	defer os.Remove(logPath)
	deadline := time.Now().Add(20 * time.Second)
	for {
		b, _ := os.ReadFile(logPath)
		if strings.Contains(string(b), `"ready"`) {
			break
		}
		if time.Now().After(deadline) {
			cmd.Process.Kill()
			cmd.Wait()
			return nil, fmt.Errorf("child never became ready")
		}
		time.Sleep(2 * time.Millisecond)
	}
	time.Sleep(5 * time.Millisecond)
	for _, s := range c.Sigs {
		if err := cmd.Process.Signal(sigNum[s]); err != nil {
			break // already gone
		}
		switch rnd.Intn(3) {
		case 0: // back to back
		case 1:
			time.Sleep(time.Duration(200+rnd.Intn(1500)) * time.Microsecond)
		case 2:
			time.Sleep(time.Duration(2+rnd.Intn(8)) * time.Millisecond)
		}
	}
	done := make(chan error, 1)
	go func() { done <- cmd.Wait() }()
	var werr error
	select {
	case werr = <-done:
	case <-time.After(15 * time.Second):
		cmd.Process.Kill()
		<-done
		return nil, fmt.Errorf("child did not exit after signals %v", c.Sigs)
	}
	code := 0
	if ee, ok := werr.(*exec.ExitError); ok {
		code = ee.ExitCode()
	} else if werr != nil {
		return nil, werr
	}
	fh, err := os.Open(logPath)
	if err != nil {
		return nil, err
	}
	defer fh.Close()
	var lines []string
	sc := bufio.NewScanner(fh)
	for sc.Scan() {
		ln := sc.Text()
		if strings.Contains(ln, `"ready"`) || !strings.HasSuffix(ln, "}") {
			continue
		}
		lines = append(lines, ln)
	}
	lines = append(lines, fmt.Sprintf(`{"ev":"exit","code":%d}`, code))
	return lines, nil
}

func shutdownPhase(t *testing.T, res *hx.Result) {
	var cases []scase
	hx.EachCase(t, "Shutdown", func(line []byte) error {
		var c scase
		if err := json.Unmarshal(line, &c); err != nil {
			return err
		}
		cases = append(cases, c)
		return nil
	})
	reps := 1
	if hx.Thorough() {
		reps = 3
	}
	dir := hx.Scratch(t)
	tw := hx.NewTrace(t, "shutdown.ndjson")
	var mu sync.Mutex
	var wg sync.WaitGroup
	sem := make(chan struct{}, 8)
	count := 0
	for rep := 0; rep < reps; rep++ {
		for i, c := range cases {
			wg.Add(1)
			sem <- struct{}{}
			go func(id int, c scase) {
				defer wg.Done()
				defer func() { <-sem }()
				rnd := rand.New(rand.NewSource(hx.Seed()*100003 + int64(id)))
				lines, err := runChild(dir, id, c, rnd)
				for try := 0; try < 3 && err == nil && strings.Contains(lines[len(lines)-1], `"code":-1`); try++ {
					// killed by a signal's default action: the handlers were not installed yet
					// (harness race under load) - not an observation about casket; run it again
					lines, err = runChild(dir, id, c, rnd)
				}
				if err == nil && strings.Contains(lines[len(lines)-1], `"code":-1`) {
					err = fmt.Errorf("child keeps dying from an unhandled signal")
				}
				mu.Lock()
				defer mu.Unlock()
				if err != nil {
					if strings.Contains(err.Error(), "did not exit") {
						res.Add(hx.Mismatch{Key: "C16/shutdown/no-exit/" + c.key(), What: err.Error(), Case: c})
					} else if res.Infra == "" {
						res.Infra = "shutdown child: " + err.Error()
					}
					return
				}
				b, _ := json.Marshal(map[string]interface{}{"ev": "script", "n": c.N, "sigs": c.Sigs, "stopper": c.Stopper, "key": c.key()})
				if hx.SelfTest() && id == 3 {
					// duplicate a callback event: the trace must be rejected
					for _, ln := range lines {
						if strings.Contains(ln, `"cb"`) {
							lines = append([]string{ln}, lines...)
							break
						}
					}
				}
				tw.EmitRaw(b)
				for _, ln := range lines {
					tw.EmitRaw([]byte(ln))
				}
				count++
				nt := ""
				if len(c.Sigs) > 1 {
					nt = "shutdown/" + c.key()
				}
				res.Count(nt)
				if id%29 == 0 {
					res.Sample(map[string]interface{}{"instances": c.N, "signals": c.Sigs, "trace": lines})
				}
			}(rep*len(cases)+i, c)
		}
	}
	wg.Wait()
	tw.Close()
	res.Traces = append(res.Traces, hx.TraceFile{Spec: "shutdown", File: tw.Path, Count: count, Key: "signals"})
}
