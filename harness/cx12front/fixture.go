package cx12front

import (
	"bytes"
	"fmt"
	"log"
	"net"
	"net/http"
	"os"
	"path/filepath"
	"strings"
	"sync"
	"testing"
	"time"

	"github.com/tmpim/casket"

	"verifharness/hx"
)

// The fixed site set of specs/ServerFront.tla (listeners P, Q, T):
//
//	P (plaintext)  s1 a.test        s2 *.w.test (access log)   s3 a.test/base (root, rewrite, proxy)   s4 catch-all (access log)
//	Q (plaintext)  q1 a.test        q2 *.w.test                q3 a.test/base                           - no catch-all -
//	T (TLS)        t1 t1.test       t2 t2.test (clients request: strict SNI/Host matching)   t3 t3.test (clients request + insecure_disable_sni_matching)
type fixture struct {
	dir        string
	casketfile string
	site       *hx.Site
	plainPort  int
	noCatch    int
	tlsPort    int
	plainAddr  string
	noCatchAdr string
	tlsAddr    string
	backend    *http.Server
	backendLn  net.Listener
	accessLog  string
	accessOff  int64
	plog       *syncBuf
	tokRoot    string // content token of <root>/f.txt
	tokBase    string // content token of <root>/base/f.txt
}

type syncBuf struct {
	mu sync.Mutex
	b  bytes.Buffer
}

func (s *syncBuf) Write(p []byte) (int, error) {
	s.mu.Lock()
	defer s.mu.Unlock()
	return s.b.Write(p)
}

func (s *syncBuf) take() string {
	s.mu.Lock()
	defer s.mu.Unlock()
	out := s.b.String()
	s.b.Reset()
	return out
}

const appName = "CasketVerif"

const logFormat = `{host}|{hostonly}|{path}|{rewrite_path}|{remote}|{status}|{>X-Case}`

func startFixture(t testing.TB) (*fixture, error) {
	hx.Quiet()
	casket.AppName = appName // what casketmain does at start-up; the value of the Server response header
	dir, err := os.MkdirTemp(hx.Scratch(t), "cx12front")
	if err != nil {
		return nil, err
	}
	fx := &fixture{dir: dir, plog: &syncBuf{}}
	root := filepath.Join(dir, "root")
	os.MkdirAll(filepath.Join(root, "base"), 0o755)
	fx.tokRoot = hx.Token("cx12front", "f.txt")
	fx.tokBase = hx.Token("cx12front", "base/f.txt")
	os.WriteFile(filepath.Join(root, "f.txt"), []byte(fx.tokRoot), 0o644)
	os.WriteFile(filepath.Join(root, "base", "f.txt"), []byte(fx.tokBase), 0o644)
	fx.accessLog = filepath.Join(dir, "access.log")

	// the backend of the proxy line answers with the request-target it received
	fx.backendLn = hx.ListenFresh()
	fx.backend = &http.Server{Handler: http.HandlerFunc(func(w http.ResponseWriter, r *http.Request) {
		w.Header().Set("X-Backend-Saw", r.RequestURI)
		w.Header().Set("X-Backend-Host", r.Host)
		w.Write([]byte("BACKEND"))
	})}
	go fx.backend.Serve(fx.backendLn)

	// casket's process log ("No such site", "[PANIC]", strict host matching) is part of what the model states
	log.SetOutput(fx.plog)
	log.SetFlags(0)

	var lastErr error
	for try := 0; try < 4; try++ {
		fx.plainPort, fx.noCatch, fx.tlsPort = hx.StablePort(), hx.StablePort(), hx.StablePort()
		fx.casketfile = fx.render(root)
		fx.site, lastErr = hx.StartHTTP(fx.casketfile, "")
		if lastErr == nil {
			break
		}
		if !strings.Contains(lastErr.Error(), "address already in use") {
			break
		}
	}
	if lastErr != nil {
		fx.stop()
		return nil, fmt.Errorf("casket.Start: %v\n%s", lastErr, fx.casketfile)
	}
	fx.plainAddr = fmt.Sprintf("127.0.0.1:%d", fx.plainPort)
	fx.noCatchAdr = fmt.Sprintf("127.0.0.1:%d", fx.noCatch)
	fx.tlsAddr = fmt.Sprintf("127.0.0.1:%d", fx.tlsPort)
	fx.plog.take()
	return fx, nil
}

func (fx *fixture) render(root string) string {
	var b strings.Builder
	site := func(key, marker string, extra ...string) {
		fmt.Fprintf(&b, "%s {\n\tbind 127.0.0.1\n\tveriffront %s\n", key, marker)
		for _, l := range extra {
			b.WriteString("\t" + l + "\n")
		}
		b.WriteString("}\n")
	}
	logLine := fmt.Sprintf("log / %s \"%s\"", fx.accessLog, logFormat)
	scoped := []string{"tls off", "root " + root, "rewrite ^/r$ /f.txt",
		fmt.Sprintf("proxy /api 127.0.0.1:%d {\n\t\twithout /api\n\t}", fx.backendLn.Addr().(*net.TCPAddr).Port)}
	p, q, tp := fx.plainPort, fx.noCatch, fx.tlsPort
	site(fmt.Sprintf("a.test:%d", p), "s1", "tls off")
	site(fmt.Sprintf("*.w.test:%d", p), "s2", "tls off", logLine)
	site(fmt.Sprintf("a.test:%d/base", p), "s3", scoped...)
	site(fmt.Sprintf(":%d", p), "s4", "tls off", logLine)
	site(fmt.Sprintf("a.test:%d", q), "q1", "tls off")
	site(fmt.Sprintf("*.w.test:%d", q), "q2", "tls off")
	site(fmt.Sprintf("a.test:%d/base", q), "q3", scoped...)
	site(fmt.Sprintf("t1.test:%d", tp), "t1", "tls self_signed", logLine)
	site(fmt.Sprintf("t2.test:%d", tp), "t2", "tls self_signed {\n\t\tclients request\n\t}")
	site(fmt.Sprintf("t3.test:%d", tp), "t3", "tls self_signed {\n\t\tclients request\n\t\tinsecure_disable_sni_matching\n\t}")
	return b.String()
}

func (fx *fixture) stop() {
	if fx.site != nil {
		fx.site.Stop()
	}
	if fx.backend != nil {
		fx.backend.Close()
	}
	os.RemoveAll(fx.dir)
}

func (fx *fixture) takeProcessLog() string { return fx.plog.take() }

// takeAccessLog returns what was appended to the access log since the last call (the log middleware
// writes the line before the handler returns, so it is on disk when the client has the response).
func (fx *fixture) takeAccessLog() string {
	for i := 0; i < 3; i++ {
		b, err := os.ReadFile(fx.accessLog)
		if err == nil && int64(len(b)) > fx.accessOff {
			out := string(b[fx.accessOff:])
			fx.accessOff = int64(len(b))
			return out
		}
		time.Sleep(2 * time.Millisecond)
	}
	return ""
}
